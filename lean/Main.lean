import FlatModel.Generated.Catalogue
open FC
partial def loop (h : IO.FS.Stream) (out : IO.FS.Stream) (env : Env) : IO Unit := do
  let line ← h.getLine
  if line.isEmpty then
    out.flush
    return ()
  let l := line.trimAscii.toString
  if l.isEmpty || l.startsWith "#" then
    out.putStrLn l
    loop h out env
  else
    let (env', o) := step newBank env line
    out.putStrLn o
    loop h out env'
def main : IO Unit := do
  loop (← IO.getStdin) (← IO.getStdout) {}
