import FlatModel.Driver.Engine
open FC
partial def loop (h : IO.FS.Stream) (out : IO.FS.Stream) (env : Env) : IO Unit := do
  let line ← h.getLine
  if line.isEmpty then return ()
  let (env', o) := step env line
  out.putStrLn o
  loop h out env'
def main : IO Unit := do
  loop (← IO.getStdin) (← IO.getStdout) []
