import FlatModel.Props.C20
#print axioms FC.C20.slice_item_form
#print axioms FC.C20.readList_of_iter
#print axioms FC.pushReads_some
#print axioms FC.C20.columns_iter_form
#print axioms FC.C20.columns_iter_form_region
#print axioms FC.pushRowLazy_spec
