import FlatModel.Props.C15
#print axioms FC.C15.readSlice_eq
#print axioms FC.C15.readSlice_cmp
#print axioms FC.C15.readSlice_eq_cmp_indep
#print axioms FC.C15.lexCmp_refl
#print axioms FC.C15.lexCmp_antisymm
#print axioms FC.C15.lexCmp_trans
#print axioms FC.C15.lexCmp_eq_iff
#print axioms FC.C15.lexCmp_lawful
#print axioms FC.C15.listEq_iff_lexCmp_eq
#print axioms FC.C15.readSlice_cmp_eq_iff
#print axioms FC.C15.readSlice_cmp_antisymm
#print axioms FC.C15.readSlice_cmp_trans
#print axioms FC.C15.readSlice_eq_iff_cmp_eq
