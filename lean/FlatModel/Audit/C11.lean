import FlatModel.Props.C11
#print axioms FC.C11.hit_or_miss
#print axioms FC.C11.forgets_on_reset
#print axioms FC.C11.only_equal
#print axioms FC.C11.last_tracks
#print axioms FC.C11.adjacent
#print axioms FC.C11.last_after_history
