import FlatModel.Props.C01
#print axioms FC.C01.roundtrip
#print axioms FC.C01.refused
#print axioms FC.reachable_inv
