import FlatModel.Props.C01
import FlatModel.Props.Universe
import FlatModel.Props.UniverseOps
#print axioms FC.C01.roundtrip
#print axioms FC.C01.refused
#print axioms FC.reachable_inv
#print axioms FC.Universe.lawful
#print axioms FC.Universe.lawfulDense
#print axioms FC.Universe.C01_every_composition
#print axioms FC.Universe.C01_reachable
#print axioms FC.Universe.consec_collapse_unlawful
#print axioms FC.Universe.C01_reach_every_composition
