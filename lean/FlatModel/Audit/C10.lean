import FlatModel.Props.C09
import FlatModel.Props.UniverseOps
#print axioms FC.C10.reserveItems_invisible
#print axioms FC.C10.reserveRegions_invisible
#print axioms FC.C10.merge_fresh
#print axioms FC.C10.stack_reserve_invisible
#print axioms FC.C10.stack_withCapacity_default
#print axioms FC.C02.frame_reserve
#print axioms FC.reach_inv
#print axioms FC.Universe.C10_every_composition
#print axioms FC.Universe.C10_merge_every_composition
#print axioms FC.Universe.C10_merged_empty
#print axioms FC.Universe.C10_stack_every_composition
#print axioms FC.Universe.huffman_not_lawfulMerge
#print axioms FC.Universe.huffmanU8_not_lawfulMerge
