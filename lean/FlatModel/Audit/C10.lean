import FlatModel.Props.C09
#print axioms FC.C10.reserveItems_invisible
#print axioms FC.C10.reserveRegions_invisible
#print axioms FC.C10.merge_fresh
#print axioms FC.C10.stack_reserve_invisible
#print axioms FC.C10.stack_withCapacity_default
#print axioms FC.C02.frame_reserve
#print axioms FC.reach_inv
