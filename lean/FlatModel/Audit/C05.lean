import FlatModel.Props.C05
#print axioms FC.C05.faithful
#print axioms FC.C05.stride_accepts_iff
#print axioms FC.C05.stride_reject_unchanged
