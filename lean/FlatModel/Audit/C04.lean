import FlatModel.Props.C04
#print axioms FC.issued_reads
#print axioms FC.C04.string_reads_pushed
#print axioms FC.C04.string_reads_pushed'
#print axioms FC.C04.single_unsafe
#print axioms FC.C04.string_write_paths_are_utf8
#print axioms FC.C04.storage_is_private
