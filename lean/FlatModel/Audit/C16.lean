import FlatModel.Props.C16
import FlatModel.Props.UniverseSer
#print axioms FC.C16.de_ser
#print axioms FC.C16.continuation
#print axioms FC.C16.continuation_sim
#print axioms FC.C16.continuation_reach
#print axioms FC.C16.de_ser_idx
#print axioms FC.C16.collapse_last_preserved
#print axioms FC.C16.consec_bookkeeping_preserved
#print axioms FC.C16.optimized_state_preserved
#print axioms FC.C16.list_state_preserved
#print axioms FC.C16.columns_preserved
#print axioms FC.C16.stack_preserved
#print axioms FC.Universe.C16_every_composition
#print axioms FC.Universe.C16_reachable
#print axioms FC.Universe.C16_reach
#print axioms FC.Universe.C16_twice
#print axioms FC.Universe.C16_every_shape
#print axioms FC.Universe.C16_every_index_container
