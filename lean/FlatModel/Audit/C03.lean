import FlatModel.Props.C03
#print axioms FC.C03.rep_default
#print axioms FC.C03.rep_copy
#print axioms FC.C03.observers
#print axioms FC.C03.rep_clear
#print axioms FC.C03.rep_extend
#print axioms FC.C03.rep_fromIter
#print axioms FC.C03.iter_spec
