import FlatModel.Props.C06
import FlatModel.Props.C06Bits
import FlatModel.Props.C06Opt
import FlatModel.Props.C06Region
#print axioms FC.C06.optimal
#print axioms FC.C06.optimal'
#print axioms FC.C06.optimal_nat
#print axioms FC.C06.lengths_kraft_eq_one
#print axioms FC.C06.lengths_pos
#print axioms FC.C06.canonical_is_prefix_free
#print axioms FC.C06.code_lt
#print axioms FC.C06.single_symbol_one_bit
#print axioms FC.C06.lookup_some_iff
#print axioms FC.C06.raw_mode
#print axioms FC.C06.raw_frame
#print axioms FC.C06.raw_mode_all
#print axioms FC.C06.clear_raw
#print axioms FC.C06.bits_eq_sum
#print axioms FC.C06.refuses_unknown
#print axioms FC.C06.accepts_known
#print axioms FC.C06.index_of_denotes
#print axioms FC.C06.push_coded
#print axioms FC.C06.roundtrip_coded
#print axioms FC.C06.frame_coded
#print axioms FC.C06.roundtrip_coded_all
#print axioms FC.C06.roundtrip_after_merge
#print axioms FC.C06.createFrom_ok
#print axioms FC.Huff.push_appends
#print axioms FC.Huff.frame_bits
#print axioms FC.Huff.decode_spec
#print axioms FC.Huff.chunks_spec
#print axioms FC.Huff.createFrom_tableOK
#print axioms FC.Huff.walk_sound
#print axioms FC.C06.createFrom_good
#print axioms FC.C06.roundtrip_merged
#print axioms FC.Huff.canonBits_eq_bitsOfCode
#print axioms FC.C06.roundtrip
#print axioms FC.C06.roundtrip_u8
#print axioms FC.C06.refused
#print axioms FC.C06.frame
#print axioms FC.C06.frame_u8
#print axioms FC.C06.stats_valid
#print axioms FC.C06.merged_stats_valid
#print axioms FC.C06.merge_inv
#print axioms FC.C06.merge_inv_built
#print axioms FC.C06.built_inv
#print axioms FC.C06.accepts_merged
