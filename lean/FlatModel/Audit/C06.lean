import FlatModel.Props.C06Opt
#print axioms FC.C06.optimal
#print axioms FC.C06.optimal'
#print axioms FC.C06.optimal_nat
#print axioms FC.C06.lengths_kraft_eq_one
#print axioms FC.C06.lengths_pos
#print axioms FC.C06.canonical_is_prefix_free
#print axioms FC.C06.code_lt
#print axioms FC.C06.single_symbol_one_bit
#print axioms FC.C06.lookup_some_iff
