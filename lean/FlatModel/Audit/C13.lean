import FlatModel.Props.C13
#print axioms FC.C13.readSlice_get
#print axioms FC.C13.readSlice_backed_iter
#print axioms FC.C13.len_iter_agree
#print axioms FC.C13.readColumns_get
#print axioms FC.C13.readColumns_backed_iter
#print axioms FC.C13.readColumns_len_iter_agree
#print axioms FC.C13.stack_get
