import FlatModel.Props.C11
import FlatModel.Props.C12
import FlatModel.Props.UniverseOps
#print axioms FC.C12.kth
#print axioms FC.C12.count_default
#print axioms FC.C12.count_clear
#print axioms FC.C12.columns_kth
#print axioms FC.C12.columns_row_exact
#print axioms FC.C12.count_merge
#print axioms FC.Universe.C12_merge_every_consec
