import FlatModel.Props.C14
#print axioms FC.C14.intoOwned_eq_index
#print axioms FC.C14.push_intoOwned
#print axioms FC.C14.borrowAs_intoOwned
#print axioms FC.C14.borrowAs_roundtrip
#print axioms FC.C14.cloneOnto_eq
#print axioms FC.C14.cloneOnto_eq_intoOwned
#print axioms FC.C14.reborrow_id
#print axioms FC.C14.copy_between_regions
#print axioms FC.C14.columns_intoOwned_eq_index
#print axioms FC.C14.columns_cloneOnto_eq
#print axioms FC.C14.columns_borrowAs_roundtrip
#print axioms FC.C14.columns_copy_between_regions
#print axioms FC.cloneOnto_list
