import FlatModel.Props.C09
#print axioms FC.C09.clone_equal
#print axioms FC.C09.cloneFrom_equal
#print axioms FC.C09.clone_observe
#print axioms FC.C09.cloneFrom_observe
#print axioms FC.sim_observe
#print axioms FC.reach_inv
