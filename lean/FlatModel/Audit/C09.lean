import FlatModel.Props.C09
import FlatModel.Props.UniverseOps
#print axioms FC.C09.clone_equal
#print axioms FC.C09.cloneFrom_equal
#print axioms FC.C09.clone_observe
#print axioms FC.C09.cloneFrom_observe
#print axioms FC.sim_observe
#print axioms FC.reach_inv
#print axioms FC.Universe.C09_every_composition
#print axioms FC.Universe.C09_sim_every_composition
#print axioms FC.Universe.C09_C10_reach_every_composition
#print axioms FC.Universe.reach_inv_every_composition
