import FlatModel.Props.C01
#print axioms FC.C02.frame_history
#print axioms FC.C02.issued_valid
