import FlatModel.Props.C01
import FlatModel.Props.C04
import FlatModel.Props.C05
import FlatModel.Props.C06Bits
import FlatModel.Props.C09
import FlatModel.Props.C11
import FlatModel.Props.Universe
import FlatModel.Props.UniverseOps
#print axioms FC.C02.frame_history
#print axioms FC.C02.issued_valid
#print axioms FC.C02.frame_reserve
#print axioms FC.issued_reads
#print axioms FC.C05.push_keeps_prefix
#print axioms FC.C05.indexOptimized_spill_keeps_prefix
#print axioms FC.C05.indexList_chonk_keeps_smol
#print axioms FC.Huff.frame_bits
#print axioms FC.C06.frame_coded
#print axioms FC.C11.hit_or_miss
#print axioms FC.Universe.C02_every_composition
#print axioms FC.Universe.C02_issued_valid
#print axioms FC.Universe.C02_reserve_every_composition
