import FlatModel.Props.C01
#print axioms FC.C08.after_clear
#print axioms FC.C08.sim_pushes
