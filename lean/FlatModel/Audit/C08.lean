import FlatModel.Props.C01
import FlatModel.Props.Universe
#print axioms FC.C08.after_clear
#print axioms FC.C08.sim_pushes
#print axioms FC.Universe.C08_every_composition
