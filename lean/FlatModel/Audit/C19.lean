import FlatModel.Props.C19
#print axioms FC.C19.cost
#print axioms FC.C19.used_bytes
#print axioms FC.C19.dense_state
#print axioms FC.C19.dense_free
