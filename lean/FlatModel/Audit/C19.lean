import FlatModel.Props.C19
import FlatModel.Props.C19Stack
#print axioms FC.C19.cost
#print axioms FC.C19.used_bytes
#print axioms FC.C19.dense_state
#print axioms FC.C19.dense_free
#print axioms FC.C19.flatstack_dense_free
#print axioms FC.C19.consec_stack_free
#print axioms FC.C19.columns_stack_free
