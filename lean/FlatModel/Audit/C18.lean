import FlatModel.Props.C18
import FlatModel.Props.UniverseHeap
#print axioms FC.C18.reach_capInv
#print axioms FC.C18.used_le_cap
#print axioms FC.C18.push_monotone
#print axioms FC.C18.pushes_monotone
#print axioms FC.C18.clear_caps
#print axioms FC.C18.clear_used
#print axioms FC.C18.clear_used_default
#print axioms FC.C18.clear_used_columns
#print axioms FC.C18.every_child_result
#print axioms FC.C18.every_child_tuple
#print axioms FC.C18.every_child_slice
#print axioms FC.C18.every_child_consec
#print axioms FC.C18.every_child_columns
#print axioms FC.C18.every_child_stack
#print axioms FC.C18.every_column_reported
#print axioms FC.C18.owned_exact
#print axioms FC.C18.vecIdx_exact
#print axioms FC.C18.lower_bound
#print axioms FC.C18.lower_bound_owned
#print axioms FC.C18.lower_bound_string
#print axioms FC.C18.lower_bound_slice
#print axioms FC.Universe.C18_every_composition
#print axioms FC.Universe.C18_default_floor
#print axioms FC.Universe.C18_clear_caps_every_composition
#print axioms FC.Universe.C18_clear_default_every_composition
#print axioms FC.Universe.C18_clear_columns
