import FlatModel.Driver.Engine
import FlatModel.Model.Forms
import FlatModel.Model.Serde
import FlatModel.Model.ItemOps
/-! Builders for the per-entry driver hooks (`Extra`): which forms exist, how read items answer. -/
namespace FC
open Region

section
variable {R V I : Type} [Region R V I] [Wire V] [Wire I]

def replyVal (v : Option Val) : String :=
  match v with | some x => "val " ++ x.render | none => "panic"

/-- operations every read item has: render, reborrow, into_owned, clone_onto -/
def baseItemOp (r : R) (i : I) (op arg : String) : Option String :=
  match op with
  | "render" | "reborrow" =>
    some (match index r i with | some v => "item " ++ (Wire.toVal v).render | none => "panic")
  | "owned" => some (replyVal ((index r i).map Wire.toVal))
  | "cloneonto" =>
    match (Val.ofString arg).bind (Wire.ofVal (α := V)) with
    | none => some "bad-value"
    | some _ => some (replyVal ((index r i).map Wire.toVal))
  | _ => none

/-- every input form of the entry is the canonical push; read items are pushed by value -/
def Extra.plain (forms : List String) : Extra R V I where
  pushForm f r v := if forms.contains f then some (push r v) else none
  itemOp r i _ op arg := baseItemOp r i op arg
  pushItem d s i _ := some (match index s i with | none => none | some v => push d v)

/-- comparison of read items through their owned values -/
def cmpBy (lt : V → V → Bool) (eq : V → V → Bool) (a : R) (i : I) (b : R) (j : I) : Option String :=
  match index a i, index b j with
  | some x, some y =>
    let c : Int := if lt x y then -1 else if eq x y then 0 else 1
    some s!"cmp {if eq x y then 1 else 0} {c} {c}"
  | _, _ => some "panic"

end

/-- lexicographic order on wire values of one shape (numbers, bytes, lists, options, results, tuples):
the order Rust derives for the corresponding owned types -/
partial def valLt : Val → Val → Bool
  | .nat a, .nat b => a < b
  | .bytes a, .bytes b => listLt (fun x y => x < y) (fun x y => x == y) a b
  | .list a, .list b => listLt valLt (fun x y => x == y) a b
  | .unit, .unit => false
  | .none, .none => false
  | .none, .some _ => true
  | .some _, .none => false
  | .some a, .some b => valLt a b
  | .ok a, .ok b => valLt a b
  | .err a, .err b => valLt a b
  | .ok _, .err _ => true       -- `Ok < Err` in Rust's derived order
  | .err _, .ok _ => false
  | .pair a b, .pair c d => valLt a c || (a == c && valLt b d)
  | _, _ => false
where
  listLt {α : Type} (lt : α → α → Bool) (eq : α → α → Bool) : List α → List α → Bool
    | [], [] => false
    | [], _ :: _ => true
    | _ :: _, [] => false
    | x :: xs, y :: ys => lt x y || (eq x y && listLt lt eq xs ys)

section
variable {R V I : Type} [Region R V I] [Wire V] [Wire I]
def Extra.withCmp (e : Extra R V I) : Extra R V I :=
  { e with cmpItems := fun a i _ b j _ =>
      cmpBy (fun x y => valLt (Wire.toVal x) (Wire.toVal y)) (fun x y => Wire.toVal x == Wire.toVal y) a i b j }
end

/-! ### read items through the item model (Model/Items2.lean via Model/ItemOps.lean)

`item … owned` and `item … cloneonto <target>` are answered by the `IntoOwned` operations of the item the
region type issues (`OptionItem.cloneOnto`, `ResultItem.cloneOnto`, `TupleItem.cloneOnto`,
`SliceItem.cloneOnto`, `Wrapped.cloneOnto`, …, nested as the Rust impls nest), not by `index`: a difference
between those definitions and the crate is a model disagreement in C14 / C13 / C01 …
`Props/C14c.lean` shows that under the region invariant both answers coincide. -/
section
variable {R V I X : Type} [Region R V I] [ItemOps R X] [Wire V]

def itemOpsOp (r : R) (i : I) (borrowed : Bool) (op arg : String) : Option String :=
  match op with
  | "owned" => some (replyVal ((ItemOps.intoOwnedAt r i borrowed).map Wire.toVal))
  | "cloneonto" =>
    match (Val.ofString arg).bind (Wire.ofVal (α := V)) with
    | none => some "bad-value"
    | some t => some (replyVal ((ItemOps.cloneOntoAt r i borrowed t).map Wire.toVal))
  | _ => none

/-- `owned` / `cloneonto` through `ItemOps`; every other accessor as before -/
def Extra.withItems (e : Extra R V I) : Extra R V I :=
  { e with itemOp := fun r i b op arg =>
      match itemOpsOp r i b op arg with
      | some out => some out
      | none => e.itemOp r i b op arg }

/-- `cmp` through the items' own `PartialEq` / `Ord` (`Wrapped.eq`, `Wrapped.cmp`, `Iterator::eq` / `cmp` over
them); same reply format as `cmpBy`: `cmp <eq> <cmp> <partial_cmp>` -/
def cmpItemsBy [ItemCmp X] (a : R) (i : I) (ba : Bool) (b : R) (j : I) (bb : Bool) : Option String :=
  match ItemOps.read a i ba, ItemOps.read b j bb with
  | some x, some y =>
    match ItemCmp.eq x y, ItemCmp.cmp x y with
    | some e, some o =>
      let c : Int := match o with | .lt => -1 | .eq => 0 | .gt => 1
      some s!"cmp {if e then 1 else 0} {c} {c}"
    | _, _ => some "panic"
  | _, _ => some "panic"

def Extra.withItemCmp [ItemCmp X] (e : Extra R V I) : Extra R V I :=
  { e with cmpItems := cmpItemsBy }
end

section
variable {R V I : Type} [Region R V I] [Ser R]
/-- serde-enabled entries: `serde` is `de ∘ ser`, `ser` prints the tree as JSON -/
def Extra.withSer (e : Extra R V I) : Extra R V I :=
  { e with serde := fun r => Ser.de (Ser.ser r), ser := fun r => some (Ser.ser r).toJson }
end

/-! ### slices -/
section Slice
variable {R V I O : Type} [Region R V I] [IdxCont O I] [Wire V]

def seqOp (len : Nat) (isEmpty : Bool) (get : Nat → Option V) (iter : Option (List V))
    (cloneOnto : List V → Option (List V)) (op arg : String) : Option String :=
  match op with
  | "len" => some s!"val {len}"
  | "is_empty" => some s!"val {if isEmpty then 1 else 0}"
  | "iterlen" => some (match iter with | some xs => s!"val {xs.length}" | none => "panic")
  | "get" => some (replyVal ((get (arg.toNat?.getD 0)).map Wire.toVal))
  | "iter" => some (replyVal (iter.map fun xs => Val.list (xs.map Wire.toVal)))
  | "owned" => some (replyVal (iter.map fun xs => Val.list (xs.map Wire.toVal)))
  | "render" | "reborrow" => some (match iter with
      | some xs => "item " ++ (Val.list (xs.map Wire.toVal)).render | none => "panic")
  | "cloneonto" =>
    match (Val.ofString arg).bind (Wire.ofVal (α := List V)) with
    | none => some "bad-value"
    | some t => some (replyVal ((cloneOnto t).map fun xs => Val.list (xs.map Wire.toVal)))
  | _ => none

def sliceItem (r : SliceRegion R O) (i : Nat × Nat) (borrowed : Bool) : Option (ReadSlice R O V) :=
  if borrowed then (index r i).map ReadSlice.borrowed else some (ReadSlice.backed r i.1 i.2)

def sliceItemOp (r : SliceRegion R O) (i : Nat × Nat) (borrowed : Bool) (op arg : String) : Option String :=
  match sliceItem r i borrowed with
  | none => some "panic"
  | some x => seqOp x.len x.isEmpty x.get x.iter x.cloneOnto op arg

/-- `Push<ReadSlice>`: element by element through the inner region's read items -/
def slicePushItem (d s : SliceRegion R O) (i : Nat × Nat) (borrowed : Bool) : Option (SliceRegion R O × (Nat × Nat)) :=
  match sliceItem s i borrowed with
  | none => none
  | some x => d.pushItem x

def Extra.slice (forms : List String) : Extra (SliceRegion R O) (List V) (Nat × Nat) where
  pushForm f r v :=
    if !forms.contains f then none
    else if f == "itemowned" then some (r.pushItem (ReadSlice.borrowed v))
    else if f == "item" then
      -- the item is read from a scratch region of the same type holding just this value
      some (match push (Region.default : SliceRegion R O) v with
        | none => none
        | some (tmp, i) => r.pushItem (ReadSlice.backed tmp i.1 i.2))
    else some (push r v)
  itemOp := sliceItemOp
  pushItem d s i b := some (slicePushItem d s i b)
end Slice

/-! ### columns -/
section Columns
variable {R V I O : Type} [Region R V I] [IdxCont O Nat] [Wire V]

def colsItem (r : ColumnsRegion R I O) (k : Nat) (borrowed : Bool) : Option (ReadColumns R I V) :=
  if borrowed then (index r k).map ReadColumns.borrowed
  else (index r.indices k).map fun ix => ReadColumns.backed r.cols ix

def colsItemOp (r : ColumnsRegion R I O) (k : Nat) (borrowed : Bool) (op arg : String) : Option String :=
  match colsItem r k borrowed with
  | none => some "panic"
  | some x => seqOp x.len x.isEmpty x.get x.iter x.cloneOnto op arg

def Extra.columns (forms : List String) : Extra (ColumnsRegion R I O) (List V) Nat where
  pushForm f r v :=
    if !forms.contains f then none
    else if f == "iter" then some (r.pushIter v)
    else some (push r v)
  itemOp := colsItemOp
  pushItem d s k b := some (match (colsItem s k b).bind ReadColumns.iter with | none => none | some vs => push d vs)
end Columns

/-! ### stacks -/
section Stack
variable {R V I S : Type} [Region R V I] [IdxCont S I] [IdxAux S] [Wire V]

def stackXop (parse : Val → Option (List V)) (fs : FlatStack R S) (op0 : String) (args : List String) :
    Option (FlatStack R S × String) :=
  -- the size hint of the iterator handed to extend / from_iter is invisible to the model
  let op := if op0 == "sextendl" then "sextend" else if op0 == "sfroml" then "sfrom" else op0
  match op, args with
  | "slen", [] => some (fs, s!"val {fs.len}")
  | "sisempty", [] => some (fs, s!"val {if fs.isEmpty then 1 else 0}")
  | "sreserve", [n] => some (fs.reserve (n.toNat?.getD 0), "ok")
  | "swithcap", [n] => some (FlatStack.withCapacity (n.toNat?.getD 0), "ok")
  | "siter", [] =>
    match fs.iter.mapM id with
    | some xs => some (fs, "iter " ++ (Val.list (xs.map Wire.toVal)).render ++ " hints 1 clone 1")
    | none => some (fs, "panic")
  | "sextend", [_, v] =>
    match (Val.ofString v).bind parse with
    | none => some (fs, "bad-value")
    | some xs => match fs.extend xs with | some fs' => some (fs', "ok") | none => some (fs, "panic")
  | "sfrom", [_, v] =>
    match (Val.ofString v).bind parse with
    | none => some (fs, "bad-value")
    | some xs => match FlatStack.fromIter (R := R) (S := S) xs with | some fs' => some (fs', "ok") | none => some (fs, "panic")
  | _, _ => none

def Extra.stack (forms : List String) (inner : Extra R V I) : Extra (FlatStack R S) V Nat where
  pushForm f fs v := if forms.contains f then some (push fs v) else none
  itemOp fs k b op arg :=
    match IdxCont.index fs.indices k with
    | none => some "panic"
    | some i => match inner.itemOp fs.region i b op arg with | some x => some x | none => none
  xop := stackXop (fun v => match v with | .list xs => xs.mapM Wire.ofVal | _ => none)
  ordinalIsIndex := true
  ordinalIndex k := some k
end Stack

end FC
