/-! Canonical text for values and indices exchanged with the Rust harness. No spaces inside a value. -/
namespace FC

inductive Val where
  | nat (n : Nat)
  | bytes (b : List UInt8)
  | list (xs : List Val)
  | unit
  | none
  | some (v : Val)
  | ok (v : Val)
  | err (v : Val)
  | pair (a b : Val)
deriving Inhabited, BEq

namespace Val

def hexDigit (n : Nat) : Char := if n < 10 then Char.ofNat (48 + n) else Char.ofNat (87 + n)
def hexOfByte (b : UInt8) : String := String.ofList [hexDigit (b.toNat / 16), hexDigit (b.toNat % 16)]

partial def render : Val → String
  | nat n => toString n
  | bytes b => "x" ++ String.join (b.map hexOfByte)
  | list xs => "[" ++ ",".intercalate (xs.map render) ++ "]"
  | unit => "u"
  | none => "n"
  | some v => "s:" ++ render v
  | ok v => "k:" ++ render v
  | err v => "e:" ++ render v
  | pair a b => "(" ++ render a ++ "," ++ render b ++ ")"

def hexVal (c : Char) : Option Nat :=
  if '0' ≤ c ∧ c ≤ '9' then Option.some (c.toNat - 48)
  else if 'a' ≤ c ∧ c ≤ 'f' then Option.some (c.toNat - 87) else Option.none

/-- recursive-descent parser over a char list; returns the value and the rest -/
partial def parse : List Char → Option (Val × List Char)
  | 'u' :: r => Option.some (unit, r)
  | 'n' :: r => Option.some (none, r)
  | 's' :: ':' :: r => (parse r).map fun (v, r') => (some v, r')
  | 'k' :: ':' :: r => (parse r).map fun (v, r') => (ok v, r')
  | 'e' :: ':' :: r => (parse r).map fun (v, r') => (err v, r')
  | 'x' :: r =>
    let rec go (acc : List UInt8) : List Char → Val × List Char
      | a :: b :: r' =>
        match hexVal a, hexVal b with
        | Option.some h, Option.some l => go (acc ++ [UInt8.ofNat (16 * h + l)]) r'
        | _, _ => (bytes acc, a :: b :: r')
      | r' => (bytes acc, r')
    Option.some (go [] r)
  | '[' :: ']' :: r => Option.some (list [], r)
  | '[' :: r =>
    let rec items (acc : List Val) (r : List Char) : Option (Val × List Char) :=
      match parse r with
      | Option.none => Option.none
      | Option.some (v, ',' :: r') => items (acc ++ [v]) r'
      | Option.some (v, ']' :: r') => Option.some (list (acc ++ [v]), r')
      | _ => Option.none
    items [] r
  | '(' :: r =>
    match parse r with
    | Option.some (a, ',' :: r1) =>
      match parse r1 with
      | Option.some (b, ')' :: r2) => Option.some (pair a b, r2)
      | _ => Option.none
    | _ => Option.none
  | cs =>
    let ds := cs.takeWhile Char.isDigit
    if ds.isEmpty then Option.none
    else Option.some (nat (String.ofList ds).toNat!, cs.dropWhile Char.isDigit)

def ofString (s : String) : Option Val :=
  match parse s.toList with
  | Option.some (v, []) => Option.some v
  | _ => Option.none

end Val

/-- conversion between model types and the wire format -/
class Wire (α : Type) where
  toVal : α → Val
  ofVal : Val → Option α

instance : Wire Nat := ⟨Val.nat, fun | .nat n => some n | _ => none⟩
instance : Wire Unit := ⟨fun _ => Val.unit, fun | .unit => some () | _ => none⟩
instance : Wire (List UInt8) := ⟨Val.bytes, fun | .bytes b => some b | _ => none⟩
instance {α} [Wire α] : Wire (List α) :=
  ⟨fun xs => Val.list (xs.map Wire.toVal), fun | .list xs => xs.mapM Wire.ofVal | _ => none⟩
instance {α} [Wire α] : Wire (Option α) :=
  ⟨fun | none => Val.none | some a => Val.some (Wire.toVal a),
   fun | .none => some none | .some v => (Wire.ofVal v).map some | _ => none⟩
instance {α β} [Wire α] [Wire β] : Wire (Except β α) :=
  ⟨fun | .ok a => Val.ok (Wire.toVal a) | .error b => Val.err (Wire.toVal b),
   fun | .ok v => (Wire.ofVal v).map .ok | .err v => (Wire.ofVal v).map .error | _ => none⟩
instance {α β} [Wire α] [Wire β] : Wire (α × β) :=
  ⟨fun (a, b) => Val.pair (Wire.toVal a) (Wire.toVal b),
   fun | .pair a b => do let x ← Wire.ofVal a; let y ← Wire.ofVal b; pure (x, y) | _ => none⟩

end FC
