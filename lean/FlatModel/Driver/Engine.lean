import FlatModel.Driver.Wire
import FlatModel.Model.Coded
import FlatModel.Model.Items
import FlatModel.Model.Serde
/-! The line-protocol engine. Handles of one catalogue entry live in one *bank* (all of the same
model type), so operations that relate two regions (`merge`, `clone_from`, `reserve_regions`,
`pushitem`, `cmp`) are typed. -/
namespace FC

instance : Wire F64 := ⟨fun x => Val.nat x.bits, fun | .nat n => some ⟨n⟩ | _ => none⟩

/-- what the driver needs beyond `Region` / `RegionAux`: input forms, read-item accessors, serde,
stack operations. Every field has a generic default; entries whose Rust type has more structure
override them (generated catalogue). -/
structure Extra (R V I : Type) where
  /-- `push` in a given input form; `none` = the entry has no such form -/
  pushForm : String → R → V → Option (Option (R × I)) := fun _ _ _ => none
  /-- accessor of the read item at an index: `op`, argument → reply; `none` = not applicable -/
  itemOp : R → I → Bool → String → String → Option String := fun _ _ _ _ _ => none
  /-- push the read item at `src`'s index (region-backed or borrowed-from-owned) -/
  pushItem : R → R → I → Bool → Option (Option (R × I)) := fun _ _ _ _ => none
  /-- `(==, cmp, partial_cmp)` of two read items -/
  cmpItems : R → I → Bool → R → I → Bool → Option String := fun _ _ _ _ _ _ => none
  /-- serialise + deserialise -/
  serde : R → Option R := fun r => some r
  ser : R → Option String := fun _ => none
  /-- stack-only operations -/
  xop : R → String → List String → Option (R × String) := fun _ _ _ => none
  /-- ordinals are indices (FlatStack) -/
  ordinalIsIndex : Bool := false
  ordinalIndex : Nat → Option I := fun _ => none

structure Bank where
  R : Type
  V : Type
  I : Type
  inst : Region R V I
  aux : RegionAux R
  wv : Wire V
  wi : Wire I
  ex : Extra R V I
  /-- handle name ↦ (state, indices issued so far) -/
  handles : List (String × (R × Array I))

namespace Bank

def mk' (R : Type) {V I : Type} [inst : Region R V I] [aux : RegionAux R] [wv : Wire V] [wi : Wire I]
    (ex : Extra R V I := {}) : Bank :=
  { R := R, V := V, I := I, inst := inst, aux := aux, wv := wv, wi := wi, ex := ex, handles := [] }

def get (b : Bank) (h : String) : Option (b.R × Array b.I) := b.handles.lookup h
def set (b : Bank) (h : String) (s : b.R × Array b.I) : Bank :=
  { b with handles := (h, s) :: b.handles.filter (·.1 != h) }
def drop (b : Bank) (h : String) : Bank := { b with handles := b.handles.filter (·.1 != h) }

def indexAt (b : Bank) (s : b.R × Array b.I) (k : Nat) : Option b.I :=
  if b.ex.ordinalIsIndex then b.ex.ordinalIndex k else s.2[k]?

def readAt (b : Bank) (s : b.R × Array b.I) (k : Nat) : String :=
  match b.indexAt s k with
  | none => "bad-ordinal"
  | some i =>
    match b.inst.index s.1 i with
    | none => "panic"
    | some v => "item " ++ (b.wv.toVal v).render

def count (b : Bank) (s : b.R × Array b.I) : Nat :=
  if b.ex.ordinalIsIndex then
    -- number of items of a stack: first ordinal that does not read
    s.2.size
  else s.2.size

def parseList (b : Bank) (v : Val) : Option (List b.V) :=
  match v with
  | .list xs => xs.mapM b.wv.ofVal
  | _ => none

end Bank

def parseOrd (s : String) : Option Nat :=
  match s.toList with
  | '#' :: r => (String.ofList r).toNat?
  | _ => none
def parseRepr (s : String) : Option Bool :=
  if s == "backed" then some false else if s == "borrowed" then some true else none

/-- index containers over usize, type erased -/
structure AnyIdx where
  C : Type
  inst : IdxCont C Nat
  aux : IdxAux C
  /-- serialise, then deserialise -/
  serde : C → Option C
  state : C

namespace AnyIdx
def fmtList' (xs : List String) : String := "[" ++ ", ".intercalate xs ++ "]"
def mk' (C : Type) [inst : IdxCont C Nat] [aux : IdxAux C] [Ser C] : AnyIdx :=
  { C := C, inst := inst, aux := aux, serde := fun c => Ser.de (Ser.ser c), state := inst.default }
def caps (a : AnyIdx) : String := "cap " ++ fmtList' ((a.aux.heap a.state).map fun p => toString p.2)
def fmtList (xs : List String) : String := "[" ++ ", ".intercalate xs ++ "]"
def obs (a : AnyIdx) : String :=
  let it := (a.inst.iter a.state).map toString
  let idx := (List.range (a.inst.len a.state + 1)).map fun i =>
    match a.inst.index a.state i with | none => "panic" | some x => toString x
  let used := (a.inst.usedBytes a.state).map toString
  s!"len {a.inst.len a.state} empty {a.inst.isEmpty a.state} iter {fmtList it} index {fmtList idx} used {fmtList used}"
end AnyIdx

def strideObs (s : Stride) : String :=
  let it := s.iter.map toString
  let idx := (List.range s.len).map fun i => match s.index i with | none => "panic" | some x => toString x
  s!"len {s.len} empty {s.isEmpty} iter {AnyIdx.fmtList it} index {AnyIdx.fmtList idx}"

structure Env where
  banks : List (String × Bank) := []
  owner : List (String × String) := []
  idxs : List (String × AnyIdx) := []
  strides : List (String × Stride) := []
  /-- handles whose last push was refused: never touched again -/
  poisoned : List String := []

namespace Env
def bankOf (e : Env) (h : String) : Option (String × Bank) :=
  match e.owner.lookup h with
  | none => none
  | some entry => (e.banks.lookup entry).map fun b => (entry, b)
def putBank (e : Env) (entry : String) (b : Bank) : Env :=
  { e with banks := (entry, b) :: e.banks.filter (·.1 != entry) }
def setOwner (e : Env) (h entry : String) : Env :=
  -- a handle that changes entry leaves its old bank
  let e := match e.bankOf h with
    | some (old, b) => if old != entry then e.putBank old (b.drop h) else e
    | none => e
  { e with owner := (h, entry) :: e.owner.filter (·.1 != h),
           idxs := e.idxs.filter (·.1 != h), strides := e.strides.filter (·.1 != h) }
end Env

def newIdx : String → Option AnyIdx
  | "idx:vec" => some (AnyIdx.mk' (Capd (VecIdx Nat 8)))
  | "idx:list" => some (AnyIdx.mk' (Capd IndexList))
  | "idx:opt" => some (AnyIdx.mk' (Capd IndexOptimized))
  | _ => none

def fmtPairs (ps : List (Nat × Nat)) : String :=
  "pairs [" ++ ",".intercalate (ps.map fun (u, c) => s!"({u},{c})") ++ "]"

/-- `newBank` is the generated catalogue -/
def stepInner (newBank : String → Option Bank) (env : Env) (line : String) : Env × String :=
  match line.trimAscii.toString.splitOn " " with
  | ["reset"] => ({}, "ok")
  | ["new", h, "stride"] =>
    ({ env with strides := (h, Stride.empty) :: env.strides.filter (·.1 != h) }, "ok")
  | ["new", h, entry] =>
    match (env.banks.lookup entry).orElse (fun _ => newBank entry) with
    | some b =>
      let env := env.setOwner h entry
      (env.putBank entry (b.set h (b.inst.default, #[])), "ok")
    | none =>
      match newIdx entry with
      | some c => ({ env with idxs := (h, c) :: env.idxs.filter (·.1 != h), owner := env.owner.filter (·.1 != h) }, "ok")
      | none => (env, "bad-entry")
  | ["push", h, form, v] =>
    match env.bankOf h, Val.ofString v with
    | some (entry, b), some val =>
      match b.get h, b.wv.ofVal val with
      | some s, some x =>
        match b.ex.pushForm form s.1 x with
        | none => (env, "bad-form")
        | some none => (env, "refused")
        | some (some (r', i)) => (env.putBank entry (b.set h (r', s.2.push i)), "idx " ++ (b.wi.toVal i).render)
      | _, _ => (env, "bad-value")
    | _, _ => (env, "bad-op")
  | ["read", h, k] =>
    match env.bankOf h, parseOrd k with
    | some (_, b), some k => match b.get h with | some s => (env, b.readAt s k) | none => (env, "bad-op")
    | _, _ => (env, "bad-op")
  | ["readall", h] =>
    match env.bankOf h with
    | some (_, b) =>
      match b.get h with
      | some s =>
        let n := s.2.size
        (env, "all" ++ String.join ((List.range n).map fun k => " " ++ (b.readAt s k).replace " " "="))
      | none => (env, "bad-op")
    | none => (env, "bad-op")
  | "item" :: h :: k :: rp :: op :: rest =>
    match env.bankOf h, parseOrd k, parseRepr rp with
    | some (_, b), some k, some borrowed =>
      match b.get h with
      | some s =>
        match b.indexAt s k with
        | none => (env, "bad-ordinal")
        | some i =>
          match b.ex.itemOp s.1 i borrowed op (rest.headD "") with
          | some out => (env, out)
          | none => (env, "na")
      | none => (env, "bad-op")
    | _, _, _ => (env, "bad-op")
  | ["clear", h] =>
    match env.bankOf h with
    | some (entry, b) =>
      match b.get h with
      | some s => (env.putBank entry (b.set h (b.inst.clear s.1, #[])), "ok")
      | none => (env, "bad-op")
    | none =>
      match env.idxs.lookup h with
      | some c => ({ env with idxs := (h, { c with state := c.inst.clear c.state }) :: env.idxs.filter (·.1 != h) }, "ok")
      | none => (env, "bad-op")
  | ["reserve_items", h, _form, v] =>
    match env.bankOf h, Val.ofString v with
    | some (entry, b), some val =>
      match b.get h, b.parseList val with
      | some s, some xs => (env.putBank entry (b.set h (b.aux.reserveItems s.1 xs, s.2)), "ok")
      | _, _ => (env, "bad-value")
    | _, _ => (env, "bad-op")
  | "reserve_regions" :: h :: srcs =>
    match env.bankOf h with
    | some (entry, b) =>
      match b.get h, srcs.mapM b.get with
      | some s, some ss => (env.putBank entry (b.set h (b.aux.reserveRegions s.1 (ss.map (·.1)), s.2)), "ok")
      | _, _ => (env, "bad-op")
    | none => (env, "bad-op")
  | "merge" :: h :: entry :: srcs =>
    match (env.banks.lookup entry).orElse (fun _ => newBank entry) with
    | some b =>
      match srcs.mapM b.get with
      | some ss =>
        let env := env.setOwner h entry
        (env.putBank entry (b.set h (b.aux.mergeRegions (ss.map (·.1)), #[])), "ok")
      | none => (env, "bad-op")
    | none => (env, "bad-entry")
  | ["clone", hnew, h] =>
    match env.bankOf h with
    | some (entry, b) =>
      match b.get h with
      | some s =>
        let env := env.setOwner hnew entry
        (env.putBank entry (b.set hnew (b.aux.clone s.1, s.2)), "ok")
      | none => (env, "bad-op")
    | none =>
      match env.idxs.lookup h with
      | some c => ({ env with idxs := (hnew, { c with state := c.aux.clone c.state }) :: env.idxs.filter (·.1 != hnew) }, "ok")
      | none => (env, "bad-op")
  | ["clone_from", hdst, hsrc] =>
    match env.bankOf hdst with
    | some (entry, b) =>
      match b.get hdst, b.get hsrc with
      | some d, some s => (env.putBank entry (b.set hdst (b.aux.cloneFrom d.1 s.1, s.2)), "ok")
      | _, _ => (env, "bad-op")
    | none => (env, "bad-op")
  | ["ser", h] =>
    match env.bankOf h with
    | some (_, b) =>
      match b.get h with
      | some s => match b.ex.ser s.1 with | some t => (env, "tree " ++ t) | none => (env, "na")
      | none => (env, "bad-op")
    | none => (env, "bad-op")
  | ["serde", hnew, h] =>
    match env.bankOf h with
    | some (entry, b) =>
      match b.get h with
      | some s =>
        match b.ex.serde s.1 with
        | some r' =>
          let env := env.setOwner hnew entry
          (env.putBank entry (b.set hnew (r', s.2)), "ok")
        | none => (env, "na")
      | none => (env, "bad-op")
    | none =>
      match env.idxs.lookup h with
      | some c =>
        match c.serde c.state with
        | some st => ({ env with idxs := (hnew, { c with state := st }) :: env.idxs.filter (·.1 != hnew) }, "ok")
        | none => (env, "na")
      | none => (env, "bad-op")
  | ["heap", h] =>
    match env.bankOf h with
    | some (_, b) => match b.get h with | some s => (env, fmtPairs (b.aux.heap s.1)) | none => (env, "bad-op")
    | none => (env, "bad-op")
  | ["allocs"] => (env, "allocs -")
  | ["pushitem", hdst, hsrc, k, rp] =>
    match env.bankOf hdst, parseOrd k, parseRepr rp with
    | some (entry, b), some k, some borrowed =>
      match b.get hdst, b.get hsrc with
      | some d, some s =>
        match s.2[k]? with
        | none => (env, "bad-ordinal")
        | some i =>
          match b.ex.pushItem d.1 s.1 i borrowed with
          | none => (env, "na")
          | some none => (env, "refused")
          | some (some (r', j)) => (env.putBank entry (b.set hdst (r', d.2.push j)), "idx " ++ (b.wi.toVal j).render)
      | _, _ => (env, "bad-op")
    | _, _, _ => (env, "bad-op")
  | ["cmp", h1, k1, r1, h2, k2, r2] =>
    match env.bankOf h1, parseOrd k1, parseRepr r1, parseOrd k2, parseRepr r2 with
    | some (_, b), some k1, some b1, some k2, some b2 =>
      match b.get h1, b.get h2 with
      | some s1, some s2 =>
        match s1.2[k1]?, s2.2[k2]? with
        | some i, some j =>
          match b.ex.cmpItems s1.1 i b1 s2.1 j b2 with
          | some out => (env, out)
          | none => (env, "na")
        | _, _ => (env, "bad-ordinal")
      | _, _ => (env, "bad-op")
    | _, _, _, _, _ => (env, "bad-op")
  | "x" :: h :: op :: args =>
    match env.bankOf h with
    | some (entry, b) =>
      match b.get h with
      | some s =>
        match b.ex.xop s.1 op args with
        | some (r', out) => (env.putBank entry (b.set h (r', s.2)), out)
        | none => (env, "bad-op")
      | none => (env, "bad-op")
    | none => (env, "bad-op")
  | ["ipush", h, x] =>
    match env.idxs.lookup h, x.toNat? with
    | some c, some x =>
      ({ env with idxs := (h, { c with state := c.inst.push c.state x }) :: env.idxs.filter (·.1 != h) }, "ok")
    | _, _ => (env, "bad-op")
  | ["iextend", h, xs] =>
    match env.idxs.lookup h, (Val.ofString xs).bind (Wire.ofVal (α := List Nat)) with
    | some c, some xs =>
      ({ env with idxs := (h, { c with state := xs.foldl c.inst.push c.state }) :: env.idxs.filter (·.1 != h) }, "ok")
    | _, _ => (env, "bad-op")
  | ["iobs", h] =>
    match env.idxs.lookup h with
    | some c => (env, c.obs)
    | none => (env, "bad-op")
  | ["ireserve", h, n] =>
    match env.idxs.lookup h, n.toNat? with
    | some c, some n =>
      ({ env with idxs := (h, { c with state := c.aux.reserve c.state n }) :: env.idxs.filter (·.1 != h) }, "ok")
    | _, _ => (env, "bad-op")
  | ["icap", h] =>
    match env.idxs.lookup h with
    | some c => (env, c.caps)
    | none => (env, "bad-op")
  | ["spush", h, x] =>
    match env.strides.lookup h, x.toNat? with
    | some s, some x =>
      let (s', ok) := s.push x
      ({ env with strides := (h, s') :: env.strides.filter (·.1 != h) }, if ok then "accepted" else "rejected")
    | _, _ => (env, "bad-op")
  | ["sobs", h] =>
    match env.strides.lookup h with
    | some s => (env, strideObs s)
    | none => (env, "bad-op")
  | _ => (env, "bad-op")

/-- handles read or mutated by a line -/
def usedHandles (env : Env) : List String → List String
  | "new" :: _ => []
  | ["reset"] => []
  | ["allocs"] => []
  | "merge" :: _ :: _ :: srcs => srcs
  | ["clone", _, h] => [h]
  | ["serde", _, h] => [h]
  | ["cmp", h1, _, _, h2, _, _] => if env.poisoned.contains h1 then [h1] else [h2]
  | "x" :: h :: _ => [h]
  | _ :: rest => rest
  | [] => []

def step (newBank : String → Option Bank) (env : Env) (line : String) : Env × String :=
  let parts := line.trimAscii.toString.splitOn " "
  if (usedHandles env parts).any env.poisoned.contains then
    -- whatever this operation would have created or mutated is unknown now
    match parts with
    | op :: h :: _ =>
      if ["merge", "clone", "serde", "clone_from", "pushitem", "reserve_regions"].contains op then
        ({ env with poisoned := h :: env.poisoned }, "poisoned")
      else (env, "poisoned")
    | _ => (env, "poisoned")
  else
    let env := match parts with
      | "new" :: h :: _ => { env with poisoned := env.poisoned.filter (· != h) }
      | "merge" :: h :: _ => { env with poisoned := env.poisoned.filter (· != h) }
      | ["clone", h, _] => { env with poisoned := env.poisoned.filter (· != h) }
      | ["serde", h, _] => { env with poisoned := env.poisoned.filter (· != h) }
      | _ => env
    let (env', out) := stepInner newBank env line
    if out == "refused" then
      match parts with
      | _ :: h :: _ => ({ env' with poisoned := h :: env'.poisoned }, out)
      | _ => (env', out)
    else (env', out)

end FC
