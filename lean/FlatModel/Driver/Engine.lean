import FlatModel.Driver.Wire
import FlatModel.Model.Columns
import FlatModel.Model.FlatStack
import FlatModel.Model.Huffman
import FlatModel.Model.Codec
/-! The line-protocol engine: named handles over type-erased model instances. -/
namespace FC

/-- a region instance with everything the driver needs, type erased -/
structure AnyRegion where
  R : Type
  V : Type
  I : Type
  inst : Region R V I
  wv : Wire V
  wi : Wire I
  state : R
  /-- indices issued so far, addressed by ordinal on the wire -/
  issued : Array I

namespace AnyRegion
def mk' (R : Type) {V I : Type} [inst : Region R V I] [wv : Wire V] [wi : Wire I] : AnyRegion :=
  { R := R, V := V, I := I, inst := inst, wv := wv, wi := wi, state := inst.default, issued := #[] }

def push (a : AnyRegion) (v : Val) : AnyRegion × String :=
  match a.wv.ofVal v with
  | none => (a, "bad-value")
  | some x =>
    match a.inst.push a.state x with
    | none => (a, "refused")
    | some (s', i) => ({ a with state := s', issued := a.issued.push i }, "idx " ++ (a.wi.toVal i).render)

def read (a : AnyRegion) (k : Nat) : String :=
  match a.issued[k]? with
  | none => "bad-ordinal"
  | some i =>
    match a.inst.index a.state i with
    | none => "panic"
    | some v => "item " ++ (a.wv.toVal v).render

def clear (a : AnyRegion) : AnyRegion := { a with state := a.inst.clear a.state, issued := #[] }
end AnyRegion

/-- an index container over usize, type erased -/
structure AnyIdx where
  C : Type
  inst : IdxCont C Nat
  state : C

namespace AnyIdx
def mk' (C : Type) [inst : IdxCont C Nat] : AnyIdx := { C := C, inst := inst, state := inst.default }
def obs (a : AnyIdx) : String :=
  let it := a.inst.iter a.state
  let idx := (List.range (a.inst.len a.state + 1)).map fun i =>
    match a.inst.index a.state i with | none => "panic" | some x => toString x
  s!"len {a.inst.len a.state} empty {a.inst.isEmpty a.state} iter {it} index {idx} used {a.inst.usedBytes a.state}"
end AnyIdx

inductive Handle where
  | region (r : AnyRegion)
  | idx (c : AnyIdx)
  | huff (h : Huff.Container) (issued : Array (Nat × Nat))
  | codec (c : Codec.Region) (issued : Array (Nat × Nat))

abbrev Str := StringRegion (OwnedRegion UInt8)
abbrev PairIdx := VecIdx (Nat × Nat) 16
abbrev NatIdx := VecIdx Nat 8

instance (priority := low) eqvOfDecEq' {V : Type} [DecidableEq V] : HasEqv V := ⟨fun a b => decide (a = b)⟩

/-- the catalogue (to be generated from catalogue.toml) -/
def newHandle : String → Option Handle
  | "string(owned)" => some (.region (AnyRegion.mk' Str))
  | "owned(u64)" => some (.region (AnyRegion.mk' (OwnedRegion Nat)))
  | "mirror(u64)" => some (.region (AnyRegion.mk' (MirrorRegion Nat)))
  | "slice(string(owned),vec)" => some (.region (AnyRegion.mk' (SliceRegion Str PairIdx)))
  | "consec(string(owned),opt)" => some (.region (AnyRegion.mk' (ConsecPairs Str IndexOptimized)))
  | "collapse(consec(string(owned),opt))" =>
      some (.region (AnyRegion.mk' (CollapseSequence (ConsecPairs Str IndexOptimized) Nat)))
  | "columns(collapse(consec(string(owned),opt)),opt)" =>
      some (.region (AnyRegion.mk' (ColumnsRegion (CollapseSequence (ConsecPairs Str IndexOptimized) Nat) Nat IndexOptimized)))
  | "slice(consec(string(owned),opt),opt)" =>
      some (.region (AnyRegion.mk' (SliceRegion (ConsecPairs Str IndexOptimized) IndexOptimized)))
  | "result(option(string(owned)),mirror(u64))" =>
      some (.region (AnyRegion.mk' (ResultRegion (OptionRegion Str) (MirrorRegion Nat))))
  | "idx:vec" => some (.idx (AnyIdx.mk' NatIdx))
  | "idx:list" => some (.idx (AnyIdx.mk' IndexList))
  | "idx:opt" => some (.idx (AnyIdx.mk' IndexOptimized))
  | _ => none

abbrev Env := List (String × Handle)

def Env.set (e : Env) (k : String) (h : Handle) : Env := (k, h) :: e.filter (·.1 != k)

def step (env : Env) (line : String) : Env × String :=
  match line.trimAscii.toString.splitOn " " with
  | ["new", h, "huffman"] => (env.set h (.huff Huff.Container.default #[]), "ok")
  | ["new", h, "codec"] => (env.set h (.codec Codec.Region.default #[]), "ok")
  | ["new", h, entry] =>
    match newHandle entry with
    | some x => (env.set h x, "ok")
    | none => (env, "bad-entry")
  | ["push", h, v] =>
    match env.lookup h, Val.ofString v with
    | some (.region r), some val => let (r', out) := r.push val; (env.set h (.region r'), out)
    | _, _ => (env, "bad-op")
  | ["read", h, k] =>
    match env.lookup h, k.toNat? with
    | some (.region r), some k => (env, r.read k)
    | _, _ => (env, "bad-op")
  | ["clear", h] =>
    match env.lookup h with
    | some (.region r) => (env.set h (.region r.clear), "ok")
    | some (.idx c) => (env.set h (.idx { c with state := c.inst.clear c.state }), "ok")
    | _ => (env, "bad-op")
  | ["cpush", h, v] =>
    match env.lookup h, (Val.ofString v).bind (Wire.ofVal (α := List UInt8)) with
    | some (.codec c iss), some item =>
      match c.push item with
      | none => (env, "refused")
      | some (c', i) => (env.set h (.codec c' (iss.push i)), s!"idx ({i.1},{i.2})")
    | _, _ => (env, "bad-op")
  | ["cread", h, k] =>
    match env.lookup h, k.toNat? with
    | some (.codec c iss), some k =>
      match iss[k]? with
      | none => (env, "bad-ordinal")
      | some i => match c.index i with
        | none => (env, "panic")
        | some xs => (env, "item " ++ (Val.bytes xs).render)
    | _, _ => (env, "bad-op")
  | "cmerge" :: h :: srcs =>
    let cs := srcs.filterMap fun s => match env.lookup s with | some (.codec c _) => some c | _ => none
    (env.set h (.codec (Codec.Region.merge cs) #[]), "ok")
  | ["cclear", h] =>
    match env.lookup h with
    | some (.codec c _) => (env.set h (.codec c.clear #[]), "ok")
    | _ => (env, "bad-op")
  | ["hpush", h, v] =>
    match env.lookup h, (Val.ofString v).bind (Wire.ofVal (α := List Nat)) with
    | some (.huff c iss), some item =>
      match c.push item with
      | none => (env, "refused")
      | some (c', i) => (env.set h (.huff c' (iss.push i)), s!"idx ({i.1},{i.2})")
    | _, _ => (env, "bad-op")
  | ["hread", h, k] =>
    match env.lookup h, k.toNat? with
    | some (.huff c iss), some k =>
      match iss[k]? with
      | none => (env, "bad-ordinal")
      | some i => match c.index i with
        | none => (env, "panic")
        | some xs => (env, "item " ++ (Wire.toVal xs).render)
    | _, _ => (env, "bad-op")
  | "hmerge" :: h :: srcs =>
    let cs := srcs.filterMap fun s => match env.lookup s with | some (.huff c _) => some c | _ => none
    (env.set h (.huff (Huff.Container.merge cs) #[]), "ok")
  | ["hclear", h] =>
    match env.lookup h with
    | some (.huff c _) => (env.set h (.huff c.clear #[]), "ok")
    | _ => (env, "bad-op")
  | ["ipush", h, x] =>
    match env.lookup h, x.toNat? with
    | some (.idx c), some x => (env.set h (.idx { c with state := c.inst.push c.state x }), "ok")
    | _, _ => (env, "bad-op")
  | ["iobs", h] =>
    match env.lookup h with
    | some (.idx c) => (env, c.obs)
    | _ => (env, "bad-op")
  | _ => (env, "bad-op")

end FC
