import FlatModel.Proofs.Items2
/-! C14, part 2: the `IntoOwned` laws of the composite read items — `Option<T>`, `Result<T, E>`, tuples,
slices of items — in compositional form (if the element operations satisfy the law, so does the
composite), their closure under nesting (`ItemLaws`), and the laws of the Huffman read item `Wrapped`
together with its connection to `HuffmanContainer::index`. -/
namespace FC
open Region

namespace C14

/-! ### `Option<T>` -/
section Option
variable {X O : Type}

/-- **C14** `clone_onto` for options: whatever the target held — `Some` (the element is cloned onto the
existing one), `None` (a fresh `Some(into_owned)` is written) — it ends up equal to `into_owned`;
a `None` source overwrites any target with `None` -/
theorem option_cloneOnto_eq (intoOwned : X → O) (cloneOnto : X → O → O)
    (h : ∀ x t, cloneOnto x t = intoOwned x) :
    ∀ (x : Option X) (t : Option O),
      OptionItem.cloneOnto intoOwned cloneOnto x t = OptionItem.intoOwned intoOwned x :=
  OptionItem.cloneOnto_eq intoOwned cloneOnto h

/-- the three arms, spelled out -/
theorem option_cloneOnto_arms (intoOwned : X → O) (cloneOnto : X → O → O) (x : X) (t : O) :
    OptionItem.cloneOnto intoOwned cloneOnto (some x) (some t) = some (cloneOnto x t) ∧
    OptionItem.cloneOnto intoOwned cloneOnto (some x) none = some (intoOwned x) ∧
    OptionItem.cloneOnto intoOwned cloneOnto none (some t) = none ∧
    OptionItem.cloneOnto intoOwned cloneOnto (none : Option X) none = none := ⟨rfl, rfl, rfl, rfl⟩

/-- **C14** `borrow_as(&owned).into_owned() == owned` -/
theorem option_borrow_roundtrip (intoOwned : X → O) (borrowAs : O → X) (h : ∀ o, intoOwned (borrowAs o) = o) :
    ∀ o : Option O, OptionItem.intoOwned intoOwned (OptionItem.borrowAs borrowAs o) = o :=
  OptionItem.intoOwned_borrowAs intoOwned borrowAs h

/-- **C14** `reborrow` is the identity when it is on elements -/
theorem option_reborrow_id (reborrow : X → X) (h : ∀ x, reborrow x = x) :
    ∀ x : Option X, OptionItem.reborrow reborrow x = x := OptionItem.reborrow_id reborrow h

end Option

/-! ### `Result<T, E>` -/
section Result
variable {XT OT XE OE : Type}

/-- **C14** `clone_onto` for results, all four variant pairs (`Ok`/`Ok`, `Err`/`Err` clone element-wise;
`Ok`/`Err`, `Err`/`Ok` replace the target) -/
theorem result_cloneOnto_eq (intoOwnedT : XT → OT) (cloneOntoT : XT → OT → OT) (intoOwnedE : XE → OE)
    (cloneOntoE : XE → OE → OE) (hT : ∀ x t, cloneOntoT x t = intoOwnedT x)
    (hE : ∀ x t, cloneOntoE x t = intoOwnedE x) :
    ∀ (x : Except XE XT) (t : Except OE OT),
      ResultItem.cloneOnto intoOwnedT cloneOntoT intoOwnedE cloneOntoE x t =
        ResultItem.intoOwned intoOwnedT intoOwnedE x :=
  ResultItem.cloneOnto_eq intoOwnedT cloneOntoT intoOwnedE cloneOntoE hT hE

theorem result_cloneOnto_arms (intoOwnedT : XT → OT) (cloneOntoT : XT → OT → OT) (intoOwnedE : XE → OE)
    (cloneOntoE : XE → OE → OE) (x : XT) (e : XE) (t : OT) (u : OE) :
    ResultItem.cloneOnto intoOwnedT cloneOntoT intoOwnedE cloneOntoE (.ok x) (.ok t) = .ok (cloneOntoT x t) ∧
    ResultItem.cloneOnto intoOwnedT cloneOntoT intoOwnedE cloneOntoE (.error e) (.error u) = .error (cloneOntoE e u) ∧
    ResultItem.cloneOnto intoOwnedT cloneOntoT intoOwnedE cloneOntoE (.ok x) (.error u) = .ok (intoOwnedT x) ∧
    ResultItem.cloneOnto intoOwnedT cloneOntoT intoOwnedE cloneOntoE (.error e) (.ok t) = .error (intoOwnedE e) :=
  ⟨rfl, rfl, rfl, rfl⟩

theorem result_borrow_roundtrip (intoOwnedT : XT → OT) (borrowAsT : OT → XT) (intoOwnedE : XE → OE)
    (borrowAsE : OE → XE) (hT : ∀ o, intoOwnedT (borrowAsT o) = o) (hE : ∀ o, intoOwnedE (borrowAsE o) = o) :
    ∀ o : Except OE OT,
      ResultItem.intoOwned intoOwnedT intoOwnedE (ResultItem.borrowAs borrowAsT borrowAsE o) = o :=
  ResultItem.intoOwned_borrowAs intoOwnedT borrowAsT intoOwnedE borrowAsE hT hE

theorem result_reborrow_id (reborrowT : XT → XT) (reborrowE : XE → XE) (hT : ∀ x, reborrowT x = x)
    (hE : ∀ x, reborrowE x = x) : ∀ x : Except XE XT, ResultItem.reborrow reborrowT reborrowE x = x :=
  ResultItem.reborrow_id reborrowT reborrowE hT hE

end Result

/-! ### tuples -/
section Tuple
variable {XA OA XB OB : Type}

/-- **C14** `clone_onto` for tuples is field-wise -/
theorem tuple_cloneOnto_eq (intoOwnedA : XA → OA) (cloneOntoA : XA → OA → OA) (intoOwnedB : XB → OB)
    (cloneOntoB : XB → OB → OB) (hA : ∀ x t, cloneOntoA x t = intoOwnedA x)
    (hB : ∀ x t, cloneOntoB x t = intoOwnedB x) :
    ∀ (x : XA × XB) (t : OA × OB),
      TupleItem.cloneOnto cloneOntoA cloneOntoB x t = TupleItem.intoOwned intoOwnedA intoOwnedB x :=
  TupleItem.cloneOnto_eq intoOwnedA cloneOntoA intoOwnedB cloneOntoB hA hB

theorem tuple_borrow_roundtrip (intoOwnedA : XA → OA) (borrowAsA : OA → XA) (intoOwnedB : XB → OB)
    (borrowAsB : OB → XB) (hA : ∀ o, intoOwnedA (borrowAsA o) = o) (hB : ∀ o, intoOwnedB (borrowAsB o) = o) :
    ∀ o : OA × OB, TupleItem.intoOwned intoOwnedA intoOwnedB (TupleItem.borrowAs borrowAsA borrowAsB o) = o :=
  TupleItem.intoOwned_borrowAs intoOwnedA borrowAsA intoOwnedB borrowAsB hA hB

theorem tuple_reborrow_id (reborrowA : XA → XA) (reborrowB : XB → XB) (hA : ∀ x, reborrowA x = x)
    (hB : ∀ x, reborrowB x = x) : ∀ x : XA × XB, TupleItem.reborrow reborrowA reborrowB x = x :=
  TupleItem.reborrow_id reborrowA reborrowB hA hB

end Tuple

/-! ### slices of items -/
section Slice
variable {X O : Type}

/-- **C14** `clone_onto` for slices whose elements are cloned with their own `clone_onto` onto the common
prefix: the target (shorter, equal, longer; any contents) ends up as the element-wise `into_owned` -/
theorem slice_cloneOnto_eq (intoOwned : X → O) (cloneOnto : X → O → O)
    (h : ∀ x t, cloneOnto x t = intoOwned x) :
    ∀ (elems : List X) (t : List O),
      SliceItem.cloneOnto intoOwned cloneOnto elems t = SliceItem.intoOwned intoOwned elems :=
  SliceItem.cloneOnto_eq intoOwned cloneOnto h

theorem slice_borrow_roundtrip (intoOwned : X → O) (borrowAs : O → X) (h : ∀ o, intoOwned (borrowAs o) = o) :
    ∀ o : List O, SliceItem.intoOwned intoOwned (SliceItem.borrowAs borrowAs o) = o :=
  SliceItem.intoOwned_borrowAs intoOwned borrowAs h

theorem slice_reborrow_id (elems : List X) : SliceItem.reborrow elems = elems := rfl

/-- `ReadSlice::clone_onto` / `ReadColumns::clone_onto` of Model/Items.lean are this computation at base
elements (`into_owned = id`, `clone_onto x _ = x`) on the iterated elements -/
theorem readSlice_cloneOnto_is_slice {R V I Oc : Type} [Region R V I] [IdxCont Oc I] (x : ReadSlice R Oc V)
    (items : List V) (h : x.iter = some items) (t : List V) :
    x.cloneOnto t = some (SliceItem.cloneOnto BaseItem.intoOwned BaseItem.cloneOnto items t) :=
  SliceItem.readSlice_cloneOnto_eq x items h t

theorem readColumns_cloneOnto_is_slice {R V I : Type} [Region R V I] (x : ReadColumns R I V)
    (items : List V) (h : x.iter = some items) (t : List V) :
    x.cloneOnto t = some (SliceItem.cloneOnto BaseItem.intoOwned BaseItem.cloneOnto items t) :=
  SliceItem.readColumns_cloneOnto_eq x items h t

end Slice

/-! ### nesting -/
section Nested
variable {X O : Type} [ItemLaws X O]

/-- **C14** for every item type built from base items by `Option`, `Result`, tuples and slices, to any
depth: `clone_onto` leaves `into_owned` in the target, whatever the target held -/
theorem cloneOnto_nested (x : X) (t : O) : ItemLaws.cloneOnto x t = ItemLaws.intoOwned x :=
  ItemLaws.cloneOnto_eq x t

/-- **C14** `borrow_as(&owned).into_owned() == owned`, nested -/
theorem borrowAs_nested (o : O) : ItemLaws.intoOwned (ItemLaws.borrowAs o : X) = o :=
  ItemLaws.intoOwned_borrowAs o

/-- `borrow_as(&x.into_owned())` has the same owned value as `x`, and cloning either onto anything
gives the same result -/
theorem roundtrip_nested (x : X) (t t' : O) :
    ItemLaws.intoOwned (ItemLaws.borrowAs (ItemLaws.intoOwned x) : X) = ItemLaws.intoOwned x ∧
    ItemLaws.cloneOnto (ItemLaws.borrowAs (ItemLaws.intoOwned x) : X) t = ItemLaws.cloneOnto x t' := by
  rw [cloneOnto_nested, cloneOnto_nested, borrowAs_nested]
  exact ⟨rfl, rfl⟩

/-- cloning onto a target, then cloning another item onto the result, forgets the first -/
theorem cloneOnto_overwrites (x y : X) (t : O) :
    ItemLaws.cloneOnto y (ItemLaws.cloneOnto x t) = ItemLaws.intoOwned y := cloneOnto_nested y _

end Nested

/-- instance resolution finds the laws for nested shapes -/
example (x : List (Option (Except (List Nat) Nat × Nat))) (t : List (Option (Except (List Nat) Nat × Nat))) :
    ItemLaws.cloneOnto x t = ItemLaws.intoOwned x := cloneOnto_nested x t

example (x : Option (List (List Bool)) × Except Unit (Option UInt8))
    (t : Option (List (List Bool)) × Except Unit (Option UInt8)) :
    ItemLaws.cloneOnto x t = ItemLaws.intoOwned x := cloneOnto_nested x t

/-- a slice of slices of optional triples -/
example (x t : List (List (Option (Nat × (Bool × Char))))) :
    ItemLaws.cloneOnto x t = ItemLaws.intoOwned x ∧ ItemLaws.intoOwned (ItemLaws.borrowAs t : List (List (Option (Nat × (Bool × Char))))) = t :=
  ⟨cloneOnto_nested x t, borrowAs_nested t⟩

/-- the instance-derived operations are the Rust code paths: a concrete nested item cloned onto targets of
the same variant, the other variant, shorter and longer slices -/
example (x : List (Option (Except (List Nat) Nat × Nat)))
    (hx : x = [some (.ok 1, 2), none, some (.error [3, 4], 5)]) :
    ItemLaws.cloneOnto x [] = x ∧
    ItemLaws.cloneOnto x [none] = x ∧
    ItemLaws.cloneOnto x [some (.error [9], 9), some (.ok 7, 7), some (.error [8, 8, 8], 0), none, none] = x ∧
    ItemLaws.intoOwned x = x := by
  subst hx
  exact ⟨rfl, rfl, rfl, rfl⟩

/-! ### the Huffman item `Wrapped` -/

/-- **C14** `clone_onto` (`clear`, then `extend` with the decoded symbols) leaves the owned value in the
target whatever it held — for both representations; it panics iff decoding does -/
theorem wrapped_cloneOnto_eq (a : Wrapped) (xs : List Nat) (h : a.decode = some xs) (t : List Nat) :
    a.cloneOnto t = some xs := by
  rw [Wrapped.cloneOnto_eq_decode, h]

theorem wrapped_cloneOnto_eq_intoOwned (a : Wrapped) (t : List Nat) : a.cloneOnto t = a.intoOwned := by
  rw [Wrapped.cloneOnto_eq_decode, Wrapped.intoOwned_eq_decode]

theorem wrapped_intoOwned_eq (a : Wrapped) (xs : List Nat) (h : a.decode = some xs) : a.intoOwned = some xs := by
  rw [Wrapped.intoOwned_eq_decode, h]

/-- **C14** `borrow_as(&owned).into_owned() == owned`, and `borrow_as(&x.into_owned())` decodes to the same
symbols as `x` whether `x` was raw or encoded -/
theorem wrapped_borrow_roundtrip (xs : List Nat) :
    (Wrapped.borrowAs xs).intoOwned = some xs ∧ (Wrapped.borrowAs xs).decode = some xs ∧
    ∀ a : Wrapped, a.intoOwned = some xs → (Wrapped.borrowAs xs).decode = a.decode := by
  refine ⟨rfl, rfl, fun a h => ?_⟩
  rw [← Wrapped.intoOwned_eq_decode a, h]
  rfl

theorem wrapped_reborrow_id (a : Wrapped) : a.reborrow = a := rfl

/-! ### the item a `HuffmanContainer` issues -/

/-- `Region::index` of the Huffman container (Model/Huffman.lean) is: build the read item, decode it —
including both panics (the slice expression in raw mode, the decoder in coded mode) -/
theorem item_bind_decode_eq_index (h : Huff.Container) (i : Nat × Nat) :
    (h.item? i).bind Wrapped.decode = index h i := Huff.Container.item?_decode h i

/-- **C14** at a valid index the item exists and decodes to what `index` returns -/
theorem item_decode_eq_index (h : Huff.Container) (i : Nat × Nat) (hv : Valid h i) :
    h.item? i = some (h.item i) ∧ (h.item i).decode = index h i :=
  ⟨Huff.Container.item?_eq_item h i hv, Huff.Container.item_decode h i hv⟩

/-- … which, on a consistent container, is a list of symbols (no panic) -/
theorem item_decodes (h : Huff.Container) (i : Nat × Nat) (hi : Inv h) (hv : Valid h i) :
    ∃ xs, index h i = some xs ∧ (h.item i).decode = some xs ∧ (h.item i).intoOwned = some xs ∧
      ∀ t, (h.item i).cloneOnto t = some xs := by
  obtain ⟨xs, hxs⟩ := LawfulRegion.valid_reads h i hi hv
  have hd : (h.item i).decode = some xs := by rw [Huff.Container.item_decode h i hv]; exact hxs
  exact ⟨xs, hxs, hd, wrapped_intoOwned_eq _ xs hd, wrapped_cloneOnto_eq _ xs hd⟩

/-- **C14** with C01: push, take the item at the returned index, `into_owned` — the pushed symbols; in raw
mode and in coded mode -/
theorem huffman_push_intoOwned (h : Huff.Container) (v : List Nat) (hi : Inv h) (ha : Accepts h v) :
    ∃ h' i, push h v = some (h', i) ∧ (h'.item i).decode = some v ∧ (h'.item i).intoOwned = some v ∧
      ∀ t, (h'.item i).cloneOnto t = some v := by
  obtain ⟨h', i, hp, v', hr, hs⟩ := LawfulRegion.push_ok h v hi ha
  obtain ⟨-, hv'⟩ := LawfulRegion.push_inv h h' v i hi hp
  have : v' = v := hs
  subst this
  have hd : (h'.item i).decode = some v' := by rw [Huff.Container.item_decode h' i hv']; exact hr
  exact ⟨h', i, hp, hd, wrapped_intoOwned_eq _ v' hd, wrapped_cloneOnto_eq _ v' hd⟩

/-- **C14** copying an item (raw, encoded, or borrowed from a `Vec`) into another Huffman container — raw or
coded with any code that knows the symbols: the new item decodes to the same symbols -/
theorem huffman_copy_between (a : Wrapped) (xs : List Nat) (hx : a.intoOwned = some xs)
    (h₂ : Huff.Container) (hi : Inv h₂) (ha : Accepts h₂ xs) :
    ∃ h₂' j, a.intoOwned.bind (push h₂) = some (h₂', j) ∧ Inv h₂' ∧ Valid h₂' j ∧
      (h₂'.item j).decode = some xs := by
  obtain ⟨h', j, hp, hd, -, -⟩ := huffman_push_intoOwned h₂ xs hi ha
  obtain ⟨hi', hv'⟩ := LawfulRegion.push_inv h₂ h' xs j hi hp
  exact ⟨h', j, by rw [hx]; exact hp, hi', hv', hd⟩

/-! ### Huffman items (and `ReadSlice`s) inside composite items -/

/-- an item issued at a valid index of a consistent container never panics when decoded, so it is a
`WrappedOK` and the nested laws apply to composites containing it -/
theorem huffman_item_ok (h : Huff.Container) (i : Nat × Nat) (hi : Inv h) (hv : Valid h i) :
    (h.item i).decode.isSome := by
  obtain ⟨xs, -, hd, -⟩ := item_decodes h i hi hv
  rw [hd]; rfl

/-- for `WrappedOK` / `ReadSliceOK` the total operations of the nested universe are the partial ones of the
model (`Wrapped.cloneOnto`, `ReadSlice.cloneOnto`), which succeed -/
theorem wrappedOK_ops (a : WrappedOK) (t : List Nat) :
    a.1.intoOwned = some (ItemLaws.intoOwned a) ∧ a.1.cloneOnto t = some (ItemLaws.cloneOnto a t) :=
  WrappedOK.ops_eq a t

theorem readSliceOK_ops {R Oc V I : Type} [Region R V I] [IdxCont Oc I] (x : ReadSliceOK R Oc V) (t : List V) :
    x.1.intoOwned = some (ItemLaws.intoOwned x) ∧ x.1.cloneOnto t = some (ItemLaws.cloneOnto x t) :=
  ReadSliceOK.ops_eq x t

/-- `ReadSlice` of `Option<(Wrapped, usize)>` items (a `SliceRegion<OptionRegion<TupleRegion<HuffmanContainer, _>>>`) -/
example (x : List (Option (WrappedOK × Nat))) (t : List (Option (List Nat × Nat))) :
    ItemLaws.cloneOnto x t = ItemLaws.intoOwned x := cloneOnto_nested x t

/-- `Result<ReadSlice<u64>, Wrapped>` -/
example (x : Except WrappedOK (ReadSliceOK (MirrorRegion Nat) (VecIdx Nat 8) Nat)) (t : Except (List Nat) (List Nat)) :
    ItemLaws.cloneOnto x t = ItemLaws.intoOwned x := cloneOnto_nested x t

end C14
end FC
