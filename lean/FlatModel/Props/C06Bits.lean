import FlatModel.Proofs.HuffTable
/-! C06 (bit level): the Huffman container stores symbol lists faithfully; coded mode refines to a
bit-string specification (`encodeBits`), raw mode is a plain symbol vector. -/
namespace FC.C06
open FC FC.Huff

/-- sum of the code lengths of an item -/
abbrev itemBits (c : Code) (item : List Nat) : Nat := (item.map (codeLen c)).sum

/-! ### raw mode (`inner = Err(raw)`): before any merge / after `clear` -/

theorem default_raw : Container.default.coded = none := rfl
theorem clear_raw (h : Container) : (Container.clear h).coded = none := rfl

/-- `C06.raw_mode`: in raw mode every push succeeds, stays in raw mode, returns the symbol range it
appended, and `index` of that range returns exactly the pushed list -/
theorem raw_mode (h : Container) (item : List Nat) (hraw : h.coded = none) :
    ∃ h', Container.push h item = some (h', (h.raw.length, h.raw.length + item.length)) ∧
      h'.coded = none ∧ h'.raw = h.raw ++ item ∧
      Container.index h' (h.raw.length, h.raw.length + item.length) = some item := by
  refine ⟨{ h with raw := h.raw ++ item, stats := item.foldl bump h.stats }, ?_, hraw, rfl, ?_⟩
  · simp [Container.push, hraw]
  · simp [Container.index, hraw]

/-- raw mode, frame: earlier valid ranges read the same after a push -/
theorem raw_frame (h h' : Container) (item : List Nat) (i j : Nat × Nat) (hraw : h.coded = none)
    (hp : Container.push h item = some (h', i)) (hj : j.1 ≤ j.2 ∧ j.2 ≤ h.raw.length) :
    Container.index h' j = Container.index h j := by
  simp only [Container.push, hraw, Option.some.injEq, Prod.mk.injEq] at hp
  obtain ⟨rfl, rfl⟩ := hp
  simp only [Container.index, hraw, List.length_append]
  have h1 : j.1 ≤ j.2 ∧ j.2 ≤ h.raw.length + item.length := ⟨hj.1, by omega⟩
  rw [if_pos hj, if_pos h1, List.drop_append_of_le_length (by omega), List.take_append_of_le_length (by simp; omega)]

/-- raw mode: a sequence of pushes from the empty (or cleared) container; the `k`-th returned index reads the `k`-th item -/
theorem raw_mode_all (items : List (List Nat)) (h : Container) (hraw : h.coded = none) :
    ∃ h' idxs, (items.foldl (fun (acc : Option (Container × List (Nat × Nat))) item =>
        acc.bind fun (h, is) => (Container.push h item).map fun (h', i) => (h', is ++ [i])) (some (h, []))) = some (h', idxs) ∧
      h'.coded = none ∧ idxs.map (Container.index h') = items.map some := by
  suffices H : ∀ (items : List (List Nat)) (h : Container) (is : List (Nat × Nat)) (done : List (List Nat)),
      h.coded = none → is.map (Container.index h) = done.map some →
      (∀ j ∈ is, j.1 ≤ j.2 ∧ j.2 ≤ h.raw.length) →
      ∃ h' idxs, (items.foldl (fun (acc : Option (Container × List (Nat × Nat))) item =>
        acc.bind fun (h, is) => (Container.push h item).map fun (h', i) => (h', is ++ [i])) (some (h, is))) = some (h', idxs) ∧
      h'.coded = none ∧ idxs.map (Container.index h') = (done ++ items).map some by
    simpa using H items h [] [] hraw rfl (by simp)
  intro items
  induction items with
  | nil => intro h is done hraw hd _; exact ⟨h, is, rfl, hraw, by simpa using hd⟩
  | cons item rest ih =>
    intro h is done hraw hd hv
    obtain ⟨h', hp, hraw', hr', hi⟩ := raw_mode h item hraw
    simp only [List.foldl_cons, Option.bind_some, hp, Option.map_some]
    have := ih h' (is ++ [(h.raw.length, h.raw.length + item.length)]) (done ++ [item]) hraw' ?_ ?_
    · simpa using this
    · simp only [List.map_append, List.map_cons, List.map_nil, hi]
      congr 1
      rw [← hd]
      apply List.map_congr_left
      intro j hj
      exact raw_frame h h' item _ j hraw hp (hv j hj)
    · intro j hj
      rcases List.mem_append.1 hj with hj | hj
      · have := hv j hj; rw [hr']; simp; omega
      · simp at hj; subst hj; rw [hr']; simp

/-! ### coded mode (`inner = Ok((huffman, bytes, bits))`): the encoder side -/

/-- `C06.bits_eq_sum`: in coded mode a successful push returns the bit range
`(bitsBefore, bitsBefore + Σ len(code s))`, and keeps the store well-formed -/
theorem bits_eq_sum (h h' : Container) (c : Code) (bytes : List Nat) (bits : Nat) (item : List Nat) (i : Nat × Nat)
    (hcoded : h.coded = some (c, bytes, bits)) (hc : EncOKOn c item) (hwf : WFStore bytes bits)
    (hp : Container.push h item = some (h', i)) :
    i = (bits, bits + itemBits c item) ∧
      ∃ bytes', h'.coded = some (c, bytes', bits + itemBits c item) ∧ WFStore bytes' (bits + itemBits c item) := by
  simp only [Container.push, hcoded] at hp
  cases hw : encodeBits c item with
  | none =>
    have : pushSymbols c bytes bits item = none := by
      simp only [pushSymbols, encodeLoop_none c item _ _ _ _ hw]
    simp [this] at hp
  | some ws =>
    obtain ⟨bytes', he, hwf', -⟩ := push_appends c bytes bits item ws hc hwf hw
    rw [encodeBits_length c item ws hw] at he hwf'
    simp only [he, Option.some.injEq, Prod.mk.injEq] at hp
    obtain ⟨rfl, rfl⟩ := hp
    exact ⟨rfl, bytes', rfl, hwf'⟩

/-- `C06.refuses_unknown`: a symbol without a code makes the push fail (the crate panics on `unwrap`) -/
theorem refuses_unknown (h : Container) (c : Code) (bytes : List Nat) (bits : Nat) (item : List Nat) (s : Nat)
    (hcoded : h.coded = some (c, bytes, bits)) (hs : s ∈ item) (hl : c.lookup s = none) :
    Container.push h item = none := by
  simp [Container.push, hcoded, push_refuses_unknown c bytes bits item s hs hl]

/-- conversely, with a well-formed store and all symbols known the push succeeds -/
theorem accepts_known (h : Container) (c : Code) (bytes : List Nat) (bits : Nat) (item : List Nat)
    (hcoded : h.coded = some (c, bytes, bits)) (hc : EncOKOn c item) (hwf : WFStore bytes bits)
    (hk : ∀ s ∈ item, (c.lookup s).isSome) : (Container.push h item).isSome := by
  have := (encodeBits_isSome_iff c item).2 hk
  obtain ⟨ws, hw⟩ := Option.isSome_iff_exists.1 this
  obtain ⟨bytes', he, -, -⟩ := push_appends c bytes bits item ws hc hwf hw
  simp [Container.push, hcoded, he]

/-! ### coded mode: reading back -/

/-- the bit range `[j.1, j.2)` of the store -/
abbrev slice (bytes : List Nat) (j : Nat × Nat) : List Bool := ((allBits bytes).drop j.1).take (j.2 - j.1)

/-- `j` denotes the item `w`: its bit range lies within the valid bits and is the concatenation of the code words of `w` -/
def Denotes (c : Code) (bytes : List Nat) (bits : Nat) (j : Nat × Nat) (w : List Nat) : Prop :=
  j.2 ≤ bits ∧ encodeBits c w = some (slice bytes j)

theorem wf_bits_le {bytes : List Nat} {bits : Nat} (h : WFStore bytes bits) : bits ≤ 8 * bytes.length := by
  have := h.1; omega

/-- reading a range that denotes `w` returns `w` -/
theorem index_of_denotes (h : Container) (c : Code) (bytes : List Nat) (bits : Nat) (j : Nat × Nat) (w : List Nat)
    (hcoded : h.coded = some (c, bytes, bits)) (ht : TableOK c) (hwf : WFStore bytes bits)
    (hd : Denotes c bytes bits j w) : Container.index h j = some w := by
  simp only [Container.index, hcoded]
  exact decode_spec c ht bytes j.1 j.2 w (Nat.le_trans hd.1 (wf_bits_le hwf)) hd.2

theorem slice_eq_of_take_eq {X Y : List Bool} {n lo hi : Nat} (h : X.take n = Y.take n) (hhi : hi ≤ n) :
    (X.drop lo).take (hi - lo) = (Y.drop lo).take (hi - lo) := by
  rw [← List.drop_take, ← List.drop_take]
  have := congrArg (List.take hi) h
  rw [List.take_take, List.take_take, Nat.min_eq_left hhi] at this
  rw [this]

/-- `C06.roundtrip_coded` (together with the facts about the new state that make it iterable) -/
theorem push_coded (h h' : Container) (c : Code) (bytes : List Nat) (bits : Nat) (item : List Nat) (i : Nat × Nat)
    (hcoded : h.coded = some (c, bytes, bits)) (hc : EncOKOn c item) (hwf : WFStore bytes bits)
    (hp : Container.push h item = some (h', i)) :
    ∃ bytes' bits', h'.coded = some (c, bytes', bits') ∧ WFStore bytes' bits' ∧ bits ≤ bits' ∧
      Denotes c bytes' bits' i item ∧
      ∀ j w, Denotes c bytes bits j w → Denotes c bytes' bits' j w := by
  simp only [Container.push, hcoded] at hp
  cases hw : encodeBits c item with
  | none =>
    have : pushSymbols c bytes bits item = none := by
      simp only [pushSymbols, encodeLoop_none c item _ _ _ _ hw]
    simp [this] at hp
  | some ws =>
    obtain ⟨bytes', he, hwf', hbits⟩ := push_appends c bytes bits item ws hc hwf hw
    simp only [he, Option.some.injEq, Prod.mk.injEq] at hp
    obtain ⟨rfl, rfl⟩ := hp
    have hlen : (bitsOf bytes bits).length = bits := hwf.packs.2
    refine ⟨bytes', bits + ws.length, rfl, hwf', by omega, ⟨Nat.le_refl _, ?_⟩, ?_⟩
    · rw [hw]; congr 1
      have hs : slice bytes' (bits, bits + ws.length) = ((allBits bytes').take (bits + ws.length)).drop bits :=
        List.drop_take.symm
      have : (allBits bytes').take (bits + ws.length) = bitsOf bytes bits ++ ws := hbits
      rw [hs, this, List.drop_left' hlen]
    · rintro j w ⟨hj, hjw⟩
      refine ⟨by omega, ?_⟩
      rw [hjw]; congr 1
      simp only [slice]
      apply slice_eq_of_take_eq (n := bits) _ hj
      have : (allBits bytes').take (bits + ws.length) = bitsOf bytes bits ++ ws := hbits
      have h2 := congrArg (List.take bits) this
      rw [List.take_take, Nat.min_eq_left (by omega), List.take_left' hlen] at h2
      rw [h2]; rfl

/-- `C06.roundtrip_coded`: in coded mode, what was pushed is what is read back -/
theorem roundtrip_coded (h h' : Container) (c : Code) (bytes : List Nat) (bits : Nat) (item : List Nat) (i : Nat × Nat)
    (hcoded : h.coded = some (c, bytes, bits)) (hc : EncOKOn c item) (ht : TableOK c) (hwf : WFStore bytes bits)
    (hp : Container.push h item = some (h', i)) : Container.index h' i = some item := by
  obtain ⟨bytes', bits', hcoded', hwf', -, hd, -⟩ := push_coded h h' c bytes bits item i hcoded hc hwf hp
  exact index_of_denotes h' c bytes' bits' i item hcoded' ht hwf' hd

/-- `C06.frame_coded`: an earlier index that denotes a concatenation of code words (e.g. one issued by an
earlier push) reads the same after the push -/
theorem frame_coded (h h' : Container) (c : Code) (bytes : List Nat) (bits : Nat) (item : List Nat) (i j : Nat × Nat)
    (w : List Nat) (hcoded : h.coded = some (c, bytes, bits)) (hc : EncOKOn c item) (ht : TableOK c) (hwf : WFStore bytes bits)
    (hp : Container.push h item = some (h', i)) (hj : Denotes c bytes bits j w) :
    Container.index h' j = some w ∧ Container.index h j = some w := by
  obtain ⟨bytes', bits', hcoded', hwf', -, -, hfr⟩ := push_coded h h' c bytes bits item i hcoded hc hwf hp
  exact ⟨index_of_denotes h' c bytes' bits' j w hcoded' ht hwf' (hfr j w hj),
    index_of_denotes h c bytes bits j w hcoded ht hwf hj⟩

/-- a run of pushes in coded mode: every returned index reads back its item in the final container -/
theorem roundtrip_coded_all (c : Code) (hc : EncOK c) (ht : TableOK c) (items : List (List Nat))
    (h : Container) (bytes : List Nat) (bits : Nat) (hcoded : h.coded = some (c, bytes, bits)) (hwf : WFStore bytes bits)
    (h' : Container) (idxs : List (Nat × Nat))
    (hrun : (items.foldl (fun (acc : Option (Container × List (Nat × Nat))) item =>
        acc.bind fun (h, is) => (Container.push h item).map fun (h', i) => (h', is ++ [i])) (some (h, []))) = some (h', idxs)) :
    idxs.map (Container.index h') = items.map some := by
  suffices H : ∀ (items : List (List Nat)) (h : Container) (bytes : List Nat) (bits : Nat)
      (hist : List ((Nat × Nat) × List Nat)), h.coded = some (c, bytes, bits) → WFStore bytes bits →
      (∀ q ∈ hist, Denotes c bytes bits q.1 q.2) →
      (items.foldl (fun (acc : Option (Container × List (Nat × Nat))) item =>
        acc.bind fun (h, is) => (Container.push h item).map fun (h', i) => (h', is ++ [i]))
          (some (h, hist.map (·.1)))) = some (h', idxs) →
      idxs.map (Container.index h') = (hist.map (·.2) ++ items).map some by
    simpa using H items h bytes bits [] hcoded hwf (by simp) hrun
  intro items
  induction items with
  | nil =>
    intro h bytes bits hist hcoded hwf hd hrun
    simp only [List.foldl_nil, Option.some.injEq, Prod.mk.injEq] at hrun
    obtain ⟨rfl, rfl⟩ := hrun
    simp only [List.append_nil, List.map_map]
    apply List.map_congr_left
    intro q hq
    exact index_of_denotes h c bytes bits _ _ hcoded ht hwf (hd q hq)
  | cons item rest ih =>
    intro h bytes bits hist hcoded hwf hd hrun
    simp only [List.foldl_cons, Option.bind_some] at hrun
    cases hp : Container.push h item with
    | none =>
      exfalso
      rw [hp] at hrun
      have : ∀ l : List (List Nat), (l.foldl (fun (acc : Option (Container × List (Nat × Nat))) item =>
          acc.bind fun (h, is) => (Container.push h item).map fun (h', i) => (h', is ++ [i])) none) = none := by
        intro l; induction l with
        | nil => rfl
        | cons a l ih => simpa using ih
      simp [this] at hrun
    | some r =>
      obtain ⟨h1, i⟩ := r
      rw [hp] at hrun
      obtain ⟨bytes', bits', hcoded', hwf', -, hdi, hfr⟩ := push_coded h h1 c bytes bits item i hcoded (hc.on item) hwf hp
      have := ih h1 bytes' bits' (hist ++ [(i, item)]) hcoded' hwf' ?_ (by simpa using hrun)
      · simpa using this
      · intro q hq
        rcases List.mem_append.1 hq with hq | hq
        · exact hfr _ _ (hd q hq)
        · simp only [List.mem_singleton] at hq; subst hq; exact hdi

/-! ### after `merge_regions` -/

/-- the code that `merge_regions` builds from the statistics of its sources -/
abbrev mergedCode (srcs : List Container) : Code :=
  createFrom (srcs.foldl (fun acc h => mergeStats acc h.stats) [])

theorem merge_coded (srcs : List Container) : (Container.merge srcs).coded = some (mergedCode srcs, [], 0) := rfl

theorem wfStore_empty : WFStore [] 0 := ⟨rfl, fun _ h => (by cases h), fun h => absurd rfl h⟩

/-- what is needed from `create_from` (canonical Huffman code assignment), as a property of the `encode` list only:
lengths in 1..57, codes fit their length, code words pairwise prefix-free -/
def GoodCode (c : Code) : Prop :=
  (∀ x ∈ c.encode, 1 ≤ x.2.1 ∧ x.2.1 ≤ 57 ∧ x.2.2 < 2 ^ x.2.1) ∧
  c.encode.Pairwise fun a b => Incomp (bitsOfCode a.2.1 a.2.2) (bitsOfCode b.2.1 b.2.2)

/-- for codes built by `create_from`, `GoodCode` implies both the encoder and the decoder hypotheses -/
theorem createFrom_ok (counts : List (Nat × Int)) (h : GoodCode (createFrom counts)) :
    EncOK (createFrom counts) ∧ TableOK (createFrom counts) :=
  ⟨encOK_of_forall _ fun x hx => ⟨(h.1 x hx).2.1, (h.1 x hx).2.2⟩,
   createFrom_tableOK counts (fun x hx => ⟨(h.1 x hx).1, by have := (h.1 x hx).2.1; omega, (h.1 x hx).2.2⟩) h.2⟩

/-- first push after a merge: round trip, provided `create_from` delivered a good code
(`EncOK`, `TableOK`; both follow from `GoodCode` by `createFrom_ok`) -/
theorem roundtrip_after_merge (srcs : List Container) (item : List Nat) (h' : Container) (i : Nat × Nat)
    (hc : EncOK (mergedCode srcs)) (ht : TableOK (mergedCode srcs))
    (hp : Container.push (Container.merge srcs) item = some (h', i)) :
    Container.index h' i = some item ∧ i = (0, itemBits (mergedCode srcs) item) := by
  refine ⟨roundtrip_coded _ h' _ [] 0 item i (merge_coded srcs) (hc.on item) ht wfStore_empty hp, ?_⟩
  have := (bits_eq_sum _ h' _ [] 0 item i (merge_coded srcs) (hc.on item) wfStore_empty hp).1
  simpa using this

end FC.C06
