import FlatModel.Props.C01
import FlatModel.Proofs.Codec
import FlatModel.Proofs.HuffRegion
/-! A closed universe of region compositions.

`Generated/Covered.lean` checks `LawfulRegion T` for 172 catalogued types `T`, one `inferInstance`
each. Here "for every composition of region types" is a literal `∀`: `RDesc v ix` is the inductive
family of *well-typed region descriptions* (one constructor per type constructor of the crate, with
exactly its trait bounds), `RDesc.bundle` interprets a description as a model type together with
its `Region` and `LawfulRegion` instances by structural recursion, and C01 / C02 / C08 are stated
as `∀ d : RDesc v ix, …`. -/
namespace FC.Universe
open FC Region

/-! ### payload / index shapes -/

/-- shapes of owned values and of indices -/
inductive Ty where
  | nat | unit | f64 | u8
  | list (t : Ty)
  | opt (t : Ty)
  | res (ok err : Ty)
  | pair (a b : Ty)
deriving DecidableEq, Repr

/-- the Lean type of a shape. `res ok err` is `Except err ok`, the argument order of the `Region`
instance of `ResultRegion`. -/
@[reducible] def Ty.interp : Ty → Type
  | .nat => Nat
  | .unit => Unit
  | .f64 => F64
  | .u8 => UInt8
  | .list t => List t.interp
  | .opt t => Option t.interp
  | .res ok err => Except err.interp ok.interp
  | .pair a b => a.interp × b.interp

/-- `String` / `&[u8]` payloads -/
abbrev Ty.bytes : Ty := .list .u8
/-- `(usize, usize)` -/
abbrev Ty.range : Ty := .pair .nat .nat

example : Ty.range.interp = (Nat × Nat) := rfl
example : Ty.nat.interp = Nat := rfl
example : Ty.bytes.interp = List UInt8 := rfl

/-- `size_of` of a shape (only used as the element size of `Vec` index containers; heap
accounting). `nat` is `usize`; narrower integers are `nat` with an explicit size, see `IdxKind.vec`. -/
def Ty.size : Ty → Nat
  | .nat => 8
  | .unit => 0
  | .f64 => 8
  | .u8 => 1
  | .list _ => 24
  | .opt t => t.size + 8
  | .res ok err => max ok.size err.size + 8
  | .pair a b => a.size + b.size

instance exceptDecEq {ε α : Type} [DecidableEq ε] [DecidableEq α] : DecidableEq (Except ε α)
  | .ok a, .ok b => if h : a = b then isTrue (by rw [h]) else isFalse (by intro h'; cases h'; exact h rfl)
  | .error a, .error b => if h : a = b then isTrue (by rw [h]) else isFalse (by intro h'; cases h'; exact h rfl)
  | .ok _, .error _ => isFalse (by intro h; cases h)
  | .error _, .ok _ => isFalse (by intro h; cases h)

/-- every shape has decidable equality -/
@[instance_reducible] def Ty.decEq : (t : Ty) → DecidableEq t.interp
  | .nat => inferInstanceAs (DecidableEq Nat)
  | .unit => inferInstanceAs (DecidableEq Unit)
  | .f64 => inferInstanceAs (DecidableEq F64)
  | .u8 => inferInstanceAs (DecidableEq UInt8)
  | .list t => letI := t.decEq; inferInstanceAs (DecidableEq (List t.interp))
  | .opt t => letI := t.decEq; inferInstanceAs (DecidableEq (Option t.interp))
  | .res ok err => letI := ok.decEq; letI := err.decEq; inferInstanceAs (DecidableEq (Except err.interp ok.interp))
  | .pair a b => letI := a.decEq; letI := b.decEq; inferInstanceAs (DecidableEq (a.interp × b.interp))

/-- Rust `==` of a shape, chosen as instance resolution chooses it for the catalogued types:
IEEE equality on `f64`, structural (`derive(PartialEq)`) on lists, options, results and tuples, so a slice that
contains a NaN is not `==` itself. -/
@[instance_reducible] def Ty.hasEqv : (t : Ty) → HasEqv t.interp
  | .f64 => inferInstanceAs (HasEqv F64)
  | .nat => inferInstanceAs (HasEqv Nat)
  | .unit => inferInstanceAs (HasEqv Unit)
  | .u8 => inferInstanceAs (HasEqv UInt8)
  | .list t => letI := t.hasEqv; inferInstanceAs (HasEqv (List t.interp))
  | .opt t => letI := t.hasEqv; inferInstanceAs (HasEqv (Option t.interp))
  | .res ok err => letI := ok.hasEqv; letI := err.hasEqv; inferInstanceAs (HasEqv (Except err.interp ok.interp))
  | .pair a b => letI := a.hasEqv; letI := b.hasEqv; inferInstanceAs (HasEqv (a.interp × b.interp))

/-! ### index containers -/

/-- which `IndexContainer` stores the indices: `Vec<I>` for any index shape (`sz` the element size:
the catalogue instantiates `nat` with `u8` … `u128`), `IndexOptimized` / `IndexList` only for `usize`. -/
inductive IdxKind : Ty → Type where
  | vec {i : Ty} (sz : Nat) : IdxKind i
  | opt : IdxKind .nat
  | list : IdxKind .nat
deriving Repr

/-- `Vec<I>` with the `size_of` of the shape -/
abbrev IdxKind.vecStd {i : Ty} : IdxKind i := .vec i.size

/-- an index container type with its instances -/
structure IdxBundle (T : Type) where
  O : Type
  [inst : IdxCont O T]
  [lawful : LawfulIdxCont O]
attribute [instance] IdxBundle.inst IdxBundle.lawful

def IdxKind.bundle : {i : Ty} → IdxKind i → IdxBundle i.interp
  | i, .vec sz => { O := Capd (VecIdx i.interp sz) }
  | _, .opt => { O := Capd IndexOptimized }
  | _, .list => { O := Capd IndexList }

/-! ### region descriptions -/

/-- what the composition rules need to know about the index of a region: its shape, and whether
the region is *dense* (index `(usize, usize)`, every push returns `(cursor, cursor')`), the
contract `ConsecutiveIndexPairs` relies on (deduplicate.rs:114). -/
inductive Ix where
  | any (i : Ty)
  | dense
deriving DecidableEq, Repr

@[reducible] def Ix.ty : Ix → Ty
  | .any i => i
  | .dense => .pair .nat .nat

/-- Well-typed region descriptions: `RDesc v ix` describes a region with owned item shape `v` and
index `ix`. One constructor per type constructor of the crate; the arguments are exactly the
trait bounds of the Rust `impl Region`. -/
inductive RDesc : Ty → Ix → Type where
  /-- `MirrorRegion<T>` -/
  | mirror (t : Ty) : RDesc t (.any t)
  /-- `OwnedRegion<T>` -/
  | owned (t : Ty) : RDesc (.list t) .dense
  /-- `Vec<T>` as a region -/
  | vec (t : Ty) : RDesc t (.any .nat)
  /-- `StringRegion<R>`, `R: Region<Owned = [u8]>`; dense when `R` is -/
  | string {ix : Ix} : RDesc (.list .u8) ix → RDesc (.list .u8) ix
  /-- `OptionRegion<R>` -/
  | option {v : Ty} {ix : Ix} : RDesc v ix → RDesc (.opt v) (.any (.opt ix.ty))
  /-- `ResultRegion<T, E>` -/
  | result {vt ve : Ty} {it ie : Ix} : RDesc vt it → RDesc ve ie → RDesc (.res vt ve) (.any (.res it.ty ie.ty))
  /-- `()` -/
  | tupleNil : RDesc .unit (.any .unit)
  /-- `TupleABCRegion`: arity n is n nested `tupleCons` ending in `tupleNil` -/
  | tupleCons {va vb : Ty} {ia ib : Ix} : RDesc va ia → RDesc vb ib → RDesc (.pair va vb) (.any (.pair ia.ty ib.ty))
  /-- `CollapseSequence<R>`; never dense (a collapsed push returns the previous index) -/
  | collapse {v : Ty} {ix : Ix} : RDesc v ix → RDesc v (.any ix.ty)
  /-- `SliceRegion<R, O>`, `O: IndexContainer<R::Index>` -/
  | slice {v : Ty} {ix : Ix} : RDesc v ix → IdxKind ix.ty → RDesc (.list v) .dense
  /-- `ConsecutiveIndexPairs<R, O>`: `R` must be dense, `O: IndexContainer<usize>` -/
  | consec {v : Ty} : RDesc v .dense → IdxKind .nat → RDesc v (.any .nat)
  /-- `ColumnsRegion<R, O>`, `O: IndexContainer<usize>` -/
  | columns {v : Ty} {ix : Ix} : RDesc v ix → IdxKind .nat → RDesc (.list v) (.any .nat)
  /-- `CodecRegion<DictionaryCodec>` -/
  | codec : RDesc (.list .u8) .dense
  /-- `HuffmanContainer<B>` over wide symbols -/
  | huffman : RDesc (.list .nat) .dense
  /-- `HuffmanContainer<u8>` -/
  | huffmanU8 : RDesc (.list .u8) .dense
  /-- `FlatStack<R, S>` seen as a region (`copy` is `push`), `S: IndexContainer<R::Index>` -/
  | stack {v : Ty} {ix : Ix} : RDesc v ix → IdxKind ix.ty → RDesc v (.any .nat)

/-! ### interpretation -/

/-- a model region type with its instances -/
structure Bundle (v i : Ty) where
  R : Type
  [inst : Region R v.interp i.interp]
  [lawful : LawfulRegion R]
attribute [instance] Bundle.inst Bundle.lawful

/-- a dense model region type with its instances -/
structure DBundle (v : Ty) where
  R : Type
  [inst : Region R v.interp (Nat × Nat)]
  [dense : DenseRegion R]
  [lawful : LawfulRegion R]
  [lawfulDense : LawfulDense R]
attribute [instance] DBundle.inst DBundle.dense DBundle.lawful DBundle.lawfulDense

def DBundle.toBundle {v : Ty} (b : DBundle v) : Bundle v (.pair .nat .nat) :=
  { R := b.R, inst := b.inst, lawful := b.lawful }

@[reducible] def BundleX (v : Ty) : Ix → Type 1
  | .any i => Bundle v i
  | .dense => DBundle v

def BundleX.toBundle {v : Ty} : {ix : Ix} → BundleX v ix → Bundle v ix.ty
  | .any _, b => b
  | .dense, b => DBundle.toBundle b

section Combinators
variable {v i va ia vb ib : Ty}

def Bundle.mirror (t : Ty) : Bundle t t := { R := MirrorRegion t.interp }
def DBundle.owned (t : Ty) : DBundle (.list t) := { R := OwnedRegion t.interp }
def Bundle.vec (t : Ty) : Bundle t .nat := { R := VecRegion t.interp }
def Bundle.string (b : Bundle (.list .u8) i) : Bundle (.list .u8) i :=
  letI : Region b.R (List UInt8) i.interp := b.inst
  letI : LawfulRegion b.R := b.lawful
  { R := StringRegion b.R }
def DBundle.string (b : DBundle (.list .u8)) : DBundle (.list .u8) :=
  letI : Region b.R (List UInt8) (Nat × Nat) := b.inst
  letI : DenseRegion b.R := b.dense
  letI : LawfulRegion b.R := b.lawful
  letI : LawfulDense b.R := b.lawfulDense
  { R := StringRegion b.R }
def Bundle.option (b : Bundle v i) : Bundle (.opt v) (.opt i) := { R := OptionRegion b.R }
def Bundle.result (t : Bundle va ia) (e : Bundle vb ib) : Bundle (.res va vb) (.res ia ib) :=
  { R := ResultRegion t.R e.R }
def Bundle.tupleNil : Bundle .unit .unit := { R := TupleNil }
def Bundle.tupleCons (a : Bundle va ia) (b : Bundle vb ib) : Bundle (.pair va vb) (.pair ia ib) :=
  { R := TupleCons a.R b.R }
def Bundle.collapse (b : Bundle v i) : Bundle v i :=
  letI := v.hasEqv
  { R := CollapseSequence b.R i.interp }
def DBundle.slice (b : Bundle v i) (o : IdxBundle i.interp) : DBundle (.list v) := { R := SliceRegion b.R o.O }
def Bundle.consec (b : DBundle v) (o : IdxBundle Nat) : Bundle v .nat := { R := ConsecPairs b.R o.O }
def Bundle.columns (b : Bundle v i) (o : IdxBundle Nat) : Bundle (.list v) .nat :=
  { R := ColumnsRegion b.R i.interp o.O }
def DBundle.codec : DBundle (.list .u8) := { R := Codec.Region }
def DBundle.huffman : DBundle (.list .nat) := { R := Huff.Container }
def DBundle.huffmanU8 : DBundle (.list .u8) := { R := HuffU8 }
def Bundle.stack (b : Bundle v i) (o : IdxBundle i.interp) : Bundle v .nat := { R := FlatStack b.R o.O }

end Combinators

/-- the interpretation of a description; dense descriptions carry the `DenseRegion` /
`LawfulDense` instances as well -/
def RDesc.bundleX : {v : Ty} → {ix : Ix} → RDesc v ix → BundleX v ix
  | _, _, .mirror t => Bundle.mirror t
  | _, _, .owned t => DBundle.owned t
  | _, _, .vec t => Bundle.vec t
  | _, .any _, .string d => Bundle.string d.bundleX
  | _, .dense, .string d => DBundle.string d.bundleX
  | _, _, .option d => Bundle.option d.bundleX.toBundle
  | _, _, .result t e => Bundle.result t.bundleX.toBundle e.bundleX.toBundle
  | _, _, .tupleNil => Bundle.tupleNil
  | _, _, .tupleCons a b => Bundle.tupleCons a.bundleX.toBundle b.bundleX.toBundle
  | _, _, .collapse d => Bundle.collapse d.bundleX.toBundle
  | _, _, .slice d k => DBundle.slice d.bundleX.toBundle k.bundle
  | _, _, .consec d k => Bundle.consec d.bundleX k.bundle
  | _, _, .columns d k => Bundle.columns d.bundleX.toBundle k.bundle
  | _, _, .codec => DBundle.codec
  | _, _, .huffman => DBundle.huffman
  | _, _, .huffmanU8 => DBundle.huffmanU8
  | _, _, .stack d k => Bundle.stack d.bundleX.toBundle k.bundle

/-- the model region type of a description with its `Region` and `LawfulRegion` instances -/
def RDesc.bundle {v : Ty} {ix : Ix} (d : RDesc v ix) : Bundle v ix.ty := d.bundleX.toBundle

/-- the model region type of a description -/
abbrev RDesc.R {v : Ty} {ix : Ix} (d : RDesc v ix) : Type := d.bundle.R

/-! ### the laws, for every composition -/
section Laws
variable {v : Ty} {ix : Ix}

/-- every description denotes a lawful region (by construction) -/
theorem lawful (d : RDesc v ix) : LawfulRegion d.R := d.bundle.lawful

/-- every dense description denotes a lawfully dense region -/
theorem lawfulDense (d : RDesc v .dense) : LawfulDense d.bundleX.R := d.bundleX.lawfulDense

/-- **C01 for every composition**: wherever the invariant holds, an accepted push succeeds and the
returned index reads back the pushed value. -/
theorem C01_every_composition (d : RDesc v ix) (r : d.R) (hi : Inv r) (x : v.interp) (ha : Accepts r x) :
    ∃ r' j, push r x = some (r', j) ∧ ∃ x', index r' j = some x' ∧ same (R := d.R) x' x :=
  LawfulRegion.push_ok r x hi ha

/-- C01 in reachable states (`FC.C01.roundtrip`), and the refusal half -/
theorem C01_reachable (d : RDesc v ix) (r : d.R) (hr : Reachable r) (x : v.interp) :
    (Accepts r x → ∃ r' j, push r x = some (r', j) ∧ ∃ x', index r' j = some x' ∧ same (R := d.R) x' x) ∧
    (¬ Accepts r x → push r x = none) :=
  ⟨C01.roundtrip r hr x, C01.refused r hr x⟩

/-- **C02 for every composition**: a valid index stays valid and keeps reading the same item through
any history of pushes. -/
theorem C02_every_composition (d : RDesc v ix) (r r' : d.R) (ops : List (Op v.interp)) (j : ix.ty.interp)
    (hi : Inv r) (hv : Valid r j) (hnc : C02.noClear ops) (h : run r ops = some r') :
    Valid r' j ∧ index r' j = index r j :=
  C02.frame_history r r' ops j hi hv hnc h

/-- every index a push returns is valid, hence covered by `C02_every_composition` -/
theorem C02_issued_valid (d : RDesc v ix) (r r' : d.R) (x : v.interp) (j : ix.ty.interp) (hi : Inv r)
    (hp : push r x = some (r', j)) : Valid r' j :=
  C02.issued_valid r r' x j hi hp

/-- **C08 for every composition**: after `clear`, any sequence of pushes returns the same indices as
on a fresh region and ends in states that read the same at every valid index. -/
theorem C08_every_composition (d : RDesc v ix) (r : d.R) (hr : Reachable r) (vs : List v.interp) :
    C08.trace (clear r) vs = C08.trace (default : d.R) vs ∧
    ((C08.runPushes (clear r) vs = none ∧ C08.runPushes (default : d.R) vs = none) ∨
      ∃ a' b', C08.runPushes (clear r) vs = some a' ∧ C08.runPushes (default : d.R) vs = some b' ∧
        ∀ i, (Valid a' i ↔ Valid b' i) ∧ (Valid a' i → index a' i = index b' i)) :=
  C08.after_clear r hr vs

end Laws

/-! ### covers_catalogue

Descriptions whose interpretation is *definitionally* a catalogued type (`Generated/Covered.lean`,
`Props/Catalogue.lean`), and whose bundled `Region` instance is the one instance resolution finds.
`Generated/CoveredUniverse.lean` does this for every entry of the catalogue. -/
section CoversCatalogue

/-- `StringRegion<OwnedRegion<u8>>`, the default region of `String` -/
abbrev str : RDesc .bytes .dense := .string (.owned .u8)
abbrev pairIdx : IdxKind .range := .vec 16

example : (RDesc.mirror .nat).R = MirrorRegion Nat := rfl
example : (RDesc.vec .bytes).R = VecRegion (List UInt8) := rfl
example : str.R = StringRegion (OwnedRegion UInt8) := rfl
example : (RDesc.slice str (.vec 16)).R =
    SliceRegion (StringRegion (OwnedRegion UInt8)) (Capd (VecIdx (Nat × Nat) 16)) := rfl
-- the awkward nestings named by the properties
example : (RDesc.columns (.collapse (.consec str .opt)) .opt).R =
    ColumnsRegion (CollapseSequence (ConsecPairs (StringRegion (OwnedRegion UInt8)) (Capd IndexOptimized)) Nat) Nat
      (Capd IndexOptimized) := rfl
-- a five-deep slice
example : (RDesc.slice (.slice (.slice (.slice (.slice (.mirror .nat) (.vec 1)) pairIdx) pairIdx) pairIdx) pairIdx).R =
    SliceRegion (SliceRegion (SliceRegion (SliceRegion (SliceRegion (MirrorRegion Nat) (Capd (VecIdx Nat 1)))
      (Capd (VecIdx (Nat × Nat) 16))) (Capd (VecIdx (Nat × Nat) 16))) (Capd (VecIdx (Nat × Nat) 16)))
      (Capd (VecIdx (Nat × Nat) 16)) := rfl
-- a tuple of option / result
example : (RDesc.tupleCons (.option str) (.tupleCons (.result (.owned .nat) (.mirror .nat)) .tupleNil)).R =
    TupleCons (OptionRegion (StringRegion (OwnedRegion UInt8)))
      (TupleCons (ResultRegion (OwnedRegion Nat) (MirrorRegion Nat)) TupleNil) := rfl
-- a FlatStack over a consec region
example : (RDesc.stack (.consec (.owned .u8) .list) .opt).R =
    FlatStack (ConsecPairs (OwnedRegion UInt8) (Capd IndexList)) (Capd IndexOptimized) := rfl
example : (RDesc.consec (.slice (.collapse str) pairIdx) (.vec 8)).R =
    ConsecPairs (SliceRegion (CollapseSequence (StringRegion (OwnedRegion UInt8)) (Nat × Nat)) (Capd (VecIdx (Nat × Nat) 16)))
      (Capd (VecIdx Nat 8)) := rfl
-- a string region over a non-dense byte region, and a slice of it
example : (RDesc.slice (.string (.consec (.owned .u8) .list)) .list).R =
    SliceRegion (StringRegion (ConsecPairs (OwnedRegion UInt8) (Capd IndexList))) (Capd IndexList) := rfl
example : (RDesc.string (.collapse (.owned .u8))).R =
    StringRegion (CollapseSequence (OwnedRegion UInt8) (Nat × Nat)) := rfl
-- coded regions under consec / string / slice / stack
example : (RDesc.consec .huffmanU8 .opt).R = ConsecPairs HuffU8 (Capd IndexOptimized) := rfl
example : (RDesc.consec .codec .opt).R = ConsecPairs Codec.Region (Capd IndexOptimized) := rfl
example : (RDesc.string .codec).R = StringRegion Codec.Region := rfl
example : (RDesc.slice .huffmanU8 pairIdx).R = SliceRegion HuffU8 (Capd (VecIdx (Nat × Nat) 16)) := rfl
example : (RDesc.stack .huffman pairIdx).R = FlatStack Huff.Container (Capd (VecIdx (Nat × Nat) 16)) := rfl
-- index shapes of fan-out regions inside index containers (`Ty.size` gives the catalogued sizes)
example : (RDesc.stack (.result (.slice (.mirror .nat) (.vec 1)) str) .vecStd).R =
    FlatStack (ResultRegion (SliceRegion (MirrorRegion Nat) (Capd (VecIdx Nat 1))) (StringRegion (OwnedRegion UInt8)))
      (Capd (VecIdx (Except (Nat × Nat) (Nat × Nat)) 24)) := rfl
example : (RDesc.stack (.tupleCons (.option str) (.tupleCons (.owned .nat) .tupleNil)) .vecStd).R =
    FlatStack (TupleCons (OptionRegion (StringRegion (OwnedRegion UInt8))) (TupleCons (OwnedRegion Nat) TupleNil))
      (Capd (VecIdx ((Option (Nat × Nat)) × ((Nat × Nat) × Unit)) 40)) := rfl
example : (RDesc.slice (.tupleCons str .tupleNil) .vecStd).R =
    SliceRegion (TupleCons (StringRegion (OwnedRegion UInt8)) TupleNil) (Capd (VecIdx ((Nat × Nat) × Unit) 16)) := rfl
example : (RDesc.columns str (.vec 8)).R =
    ColumnsRegion (StringRegion (OwnedRegion UInt8)) (Nat × Nat) (Capd (VecIdx Nat 8)) := rfl
example : (RDesc.collapse (.mirror .f64)).R = CollapseSequence (MirrorRegion F64) F64 := rfl

-- the bundled instances are the ones instance resolution finds for the catalogued type
example : (RDesc.columns (.collapse (.consec str .opt)) .opt).bundle.inst =
    (inferInstance : Region (ColumnsRegion (CollapseSequence (ConsecPairs (StringRegion (OwnedRegion UInt8))
      (Capd IndexOptimized)) Nat) Nat (Capd IndexOptimized)) (List (List UInt8)) Nat) := rfl
-- `f64` payloads collapse by IEEE `==`, everything else structurally
example : (RDesc.collapse (.mirror .f64)).bundle.inst =
    (inferInstance : Region (CollapseSequence (MirrorRegion F64) F64) F64 F64) := rfl
example : (RDesc.collapse str).bundle.inst =
    (inferInstance : Region (CollapseSequence (StringRegion (OwnedRegion UInt8)) (Nat × Nat)) (List UInt8) (Nat × Nat)) := rfl
example : (RDesc.stack (.consec (.owned .u8) .list) .opt).bundle.inst =
    (inferInstance : Region (FlatStack (ConsecPairs (OwnedRegion UInt8) (Capd IndexList)) (Capd IndexOptimized))
      (List UInt8) Nat) := rfl

end CoversCatalogue

/-! ### what the universe cannot express

`ConsecutiveIndexPairs<R, O>` type-checks in Rust for any `R: Region<Index = (usize, usize)>`, but is
only correct over a *dense* `R`. `consec` demands index `Ix.dense`, and a description has that index
only if its head constructor is one of the dense ones; `collapse d` has index `.any _` whatever `d`
is, so `consec (collapse d) k` is not a term of the universe. -/
section Negative

/-- head constructors -/
inductive Head where
  | mirror | owned | vec | string | option | result | tupleNil | tupleCons | collapse | slice | consec
  | columns | codec | huffman | huffmanU8 | stack
deriving DecidableEq, Repr

def RDesc.head : {v : Ty} → {ix : Ix} → RDesc v ix → Head
  | _, _, .mirror _ => .mirror
  | _, _, .owned _ => .owned
  | _, _, .vec _ => .vec
  | _, _, .string _ => .string
  | _, _, .option _ => .option
  | _, _, .result _ _ => .result
  | _, _, .tupleNil => .tupleNil
  | _, _, .tupleCons _ _ => .tupleCons
  | _, _, .collapse _ => .collapse
  | _, _, .slice _ _ => .slice
  | _, _, .consec _ _ => .consec
  | _, _, .columns _ _ => .columns
  | _, _, .codec => .codec
  | _, _, .huffman => .huffman
  | _, _, .huffmanU8 => .huffmanU8
  | _, _, .stack _ _ => .stack

/-- the dense descriptions are exactly those built by `owned`, `slice`, `codec`, `huffman`,
`huffmanU8`, or `string` over a dense description -/
theorem dense_heads {v : Ty} (d : RDesc v .dense) :
    d.head = .owned ∨ d.head = .slice ∨ d.head = .codec ∨ d.head = .huffman ∨ d.head = .huffmanU8 ∨
      (d.head = .string ∧ ∃ d' : RDesc (.list .u8) .dense, HEq d (RDesc.string d')) := by
  cases d <;> simp [RDesc.head]

/-- no dense description is a `collapse` (nor any other non-dense wrapper): the argument of
`consec` is never `collapse …` -/
theorem dense_not_collapse {v : Ty} (d : RDesc v .dense) :
    d.head ≠ .collapse ∧ d.head ≠ .consec ∧ d.head ≠ .columns ∧ d.head ≠ .stack ∧ d.head ≠ .mirror ∧
      d.head ≠ .vec ∧ d.head ≠ .option ∧ d.head ≠ .result ∧ d.head ≠ .tupleCons ∧ d.head ≠ .tupleNil := by
  cases d <;> simp [RDesc.head]

/-- "the description is dense": what `consec` demands of its argument (it is part of the type) -/
def Dense {v : Ty} {ix : Ix} (_d : RDesc v ix) : Prop := ix = .dense

example {v : Ty} (d : RDesc v .dense) : Dense d := rfl
/-- `collapse d` is never dense, whatever `d` is -/
theorem collapse_not_dense {v : Ty} {ix : Ix} (d : RDesc v ix) : ¬ Dense (RDesc.collapse d) := nofun
/-- nor are the other wrappers that hand out `usize` or fan-out indices -/
example {v : Ty} (d : RDesc v .dense) (k : IdxKind .nat) : ¬ Dense (RDesc.consec d k) := nofun
example {v : Ty} {ix : Ix} (d : RDesc v ix) : ¬ Dense (RDesc.option d) := nofun

/-- The exclusion is necessary, not an artefact: give `CollapseSequence<OwnedRegion<u8>>` *any*
cursor, `ConsecutiveIndexPairs` over it violates C01 -- pushing the same item twice collapses, the
inner index is `(0, 1)` again, and `debug_assert_eq!(index.0, self.last_index)` fires. -/
theorem consec_collapse_unlawful [DenseRegion (CollapseSequence (OwnedRegion UInt8) (Nat × Nat))] :
    ¬ LawfulRegion (ConsecPairs (CollapseSequence (OwnedRegion UInt8) (Nat × Nat)) (VecIdx Nat 8)) := by
  intro h
  obtain ⟨r1, i, hp, -⟩ := h.push_ok Region.default [1] h.inv_default (Or.inr trivial)
  have hi1 := (h.push_inv _ _ _ _ h.inv_default hp).1
  obtain ⟨r2, j, hp2, -⟩ := h.push_ok r1 [1] hi1 (Or.inr trivial)
  have e1 : push (Region.default : ConsecPairs (CollapseSequence (OwnedRegion UInt8) (Nat × Nat)) (VecIdx Nat 8)) [1] =
      some (⟨⟨⟨⟨[1], 1⟩⟩, some (0, 1)⟩, ⟨[0, 1]⟩, 1⟩, 0) := rfl
  rw [e1] at hp
  cases hp
  have e2 : push (⟨⟨⟨⟨[1], 1⟩⟩, some (0, 1)⟩, ⟨[0, 1]⟩, 1⟩ :
      ConsecPairs (CollapseSequence (OwnedRegion UInt8) (Nat × Nat)) (VecIdx Nat 8)) [1] = none := rfl
  rw [e2] at hp2
  cases hp2

end Negative

end FC.Universe
