import FlatModel.Props.C01
/-! C11: CollapseSequence collapses exactly consecutive equal items. C12: dense indices. -/
namespace FC
open Region

namespace C11
variable {R V I : Type} [Region R V I] [HasEqv V] [LawfulRegion R]

/-- a push either *hits* (the item `==` the item at the remembered index: same index back, state
literally unchanged, nothing stored) or *misses* (no remembered item or it differs: the item is
pushed into the inner region and its index is remembered). Nothing else can happen. -/
theorem hit_or_miss (r : CollapseSequence R I) (v : V) (hi : Inv r) :
    (∃ li u, r.last = some li ∧ index r.inner li = some u ∧ HasEqv.eqv v u = true ∧
        push r v = some (r, li)) ∨
    ((∀ li u, r.last = some li → index r.inner li = some u → HasEqv.eqv v u = false) ∧
        push r v = (push r.inner v).map fun p => (⟨p.1, some p.2⟩, p.2)) :=
  collapse_push_cases r v hi

/-- nothing is remembered in a fresh or cleared region, so the first push always stores -/
theorem forgets_on_reset (r : CollapseSequence R I) :
    (Region.default : CollapseSequence R I).last = none ∧ (clear r).last = none := ⟨rfl, rfl⟩

/-- an item is only ever collapsed into an item it is `==` to (or reads back as stored) -/
theorem only_equal (r : CollapseSequence R I) (v : V) (hi : Inv r) (ha : Accepts r v) :
    ∃ r' i, push r v = some (r', i) ∧ ∃ u, index r' i = some u ∧
      (same (R := R) u v ∨ HasEqv.eqv v u = true) :=
  LawfulRegion.push_ok r v hi ha

/-- whatever a push does, the region afterwards remembers exactly the index it just returned -/
theorem last_tracks (r r' : CollapseSequence R I) (v : V) (i : I) (hi : Inv r)
    (hp : push r v = some (r', i)) : r'.last = some i := by
  rcases hit_or_miss r v hi with ⟨li, u, hl, _, _, hpush⟩ | ⟨_, hpush⟩
  · rw [hpush] at hp
    simp only [Option.some.injEq, Prod.mk.injEq] at hp
    obtain ⟨rfl, rfl⟩ := hp
    exact hl
  · rw [hpush] at hp
    cases hq : push r.inner v with
    | none => simp [hq] at hp
    | some p =>
      simp only [hq, Option.map_some, Option.some.injEq, Prod.mk.injEq] at hp
      obtain ⟨rfl, rfl⟩ := hp
      rfl

/-- **C11 over two adjacent pushes**: the second of any two consecutive successful pushes is
collapsed *iff* it is `==` the item the first one's index reads — the decision depends on nothing
else (not on older items, not on how the first push itself was resolved). Collapsed: same index,
state literally unchanged. Not collapsed: stored in the inner region under the index returned. -/
theorem adjacent (r r1 r2 : CollapseSequence R I) (v w : V) (i j : I) (hi : Inv r)
    (h1 : push r v = some (r1, i)) (h2 : push r1 w = some (r2, j)) :
    ∃ u, index r1 i = some u ∧
      ((HasEqv.eqv w u = true ∧ j = i ∧ r2 = r1) ∨
       (HasEqv.eqv w u = false ∧ push r1.inner w = some (r2.inner, j) ∧ r2.last = some j)) := by
  have hl := last_tracks r r1 v i hi h1
  have hi1 := (LawfulRegion.push_inv r r1 v i hi h1).1
  obtain ⟨u, hu⟩ := LawfulRegion.valid_reads r1.inner i hi1.1 (hi1.2 i hl)
  refine ⟨u, hu, ?_⟩
  rcases hit_or_miss r1 w hi1 with ⟨li, u', hl', hu', he, hpush⟩ | ⟨hne, hpush⟩
  · rw [hl] at hl'; cases hl'
    rw [hu] at hu'; cases hu'
    rw [hpush] at h2
    simp only [Option.some.injEq, Prod.mk.injEq] at h2
    exact Or.inl ⟨he, h2.2.symm, h2.1.symm⟩
  · rw [hpush] at h2
    cases hq : push r1.inner w with
    | none => simp [hq] at h2
    | some p =>
      simp only [hq, Option.map_some, Option.some.injEq, Prod.mk.injEq] at h2
      obtain ⟨rfl, rfl⟩ := h2
      exact Or.inr ⟨hne i u hl hu, rfl, rfl⟩

/-- **C11 over histories**: after any sequence of successful pushes the remembered index is the last index handed out
(the one before the sequence if it was empty) — so by `adjacent` every push of every history is decided against exactly
the item its predecessor's index reads, whatever happened before. -/
theorem last_after_history (r r' : CollapseSequence R I) (vs : List V) (hi : Inv r)
    (h : C08.runPushes r vs = some r') : r'.last = ((C08.trace r vs).getLast?).or r.last := by
  induction vs generalizing r with
  | nil =>
    simp only [C08.runPushes, Option.some.injEq] at h
    subst h
    simp [C08.trace]
  | cons v vs ih =>
    cases hp : push r v with
    | none => simp [C08.runPushes, hp] at h
    | some p =>
      obtain ⟨r1, i⟩ := p
      simp only [C08.runPushes, hp] at h
      have hi1 := (LawfulRegion.push_inv r r1 v i hi hp).1
      have hl := last_tracks r r1 v i hi hp
      rw [ih r1 hi1 h, hl]
      simp only [C08.trace, hp]
      cases ht : C08.trace r1 vs with
      | nil => simp
      | cons j t =>
        have hne : j :: t ≠ [] := by simp
        simp [List.getLast?_eq_some_getLast hne]
end C11

namespace C12
variable {R V O : Type} [Region R V (Nat × Nat)] [DenseRegion R] [IdxCont O Nat]
  [LawfulRegion R] [LawfulDense R] [LawfulIdxCont O]

/-- number of items pushed since creation / clear -/
def count (r : ConsecPairs R O) : Nat := (IdxCont.iter r.indices).length - 1

theorem count_default : count (Region.default : ConsecPairs R O) = 0 := by
  simp [count, Region.default, LawfulIdxCont.iter_push _ _ (LawfulIdxCont.inv_default (C := O)),
    LawfulIdxCont.iter_default]

theorem count_clear (r : ConsecPairs R O) : count (clear r) = 0 := by
  simp [count, Region.clear, LawfulIdxCont.iter_push _ _ (LawfulIdxCont.inv_clear r.indices),
    LawfulIdxCont.iter_clear]

/-- **C12**: the k-th push since creation or clear returns k, and the count advances by one -/
theorem kth (r r' : ConsecPairs R O) (v : V) (k : Nat) (hi : Inv r) (hp : push r v = some (r', k)) :
    k = count r ∧ count r' = count r + 1 := by
  obtain ⟨_, hit, _, _, hk⟩ := consec_push_some r r' v k hi hp
  have hne : IdxCont.iter r.indices ≠ [] := by
    intro h; have := hi.2.2.2.1; simp [h] at this
  have := List.length_pos_iff.mpr hne
  refine ⟨hk, ?_⟩
  simp only [count, hit, List.length_append, List.length_singleton]
  omega
end C12

end FC
