import FlatModel.Props.C01
/-! C11: CollapseSequence collapses exactly consecutive equal items. C12: dense indices. -/
namespace FC
open Region

namespace C11
variable {R V I : Type} [Region R V I] [HasEqv V] [LawfulRegion R]

/-- a push either *hits* (the item `==` the item at the remembered index: same index back, state
literally unchanged, nothing stored) or *misses* (no remembered item or it differs: the item is
pushed into the inner region and its index is remembered). Nothing else can happen. -/
theorem hit_or_miss (r : CollapseSequence R I) (v : V) (hi : Inv r) :
    (∃ li u, r.last = some li ∧ index r.inner li = some u ∧ HasEqv.eqv v u = true ∧
        push r v = some (r, li)) ∨
    ((∀ li u, r.last = some li → index r.inner li = some u → HasEqv.eqv v u = false) ∧
        push r v = (push r.inner v).map fun p => (⟨p.1, some p.2⟩, p.2)) :=
  collapse_push_cases r v hi

/-- nothing is remembered in a fresh or cleared region, so the first push always stores -/
theorem forgets_on_reset (r : CollapseSequence R I) :
    (Region.default : CollapseSequence R I).last = none ∧ (clear r).last = none := ⟨rfl, rfl⟩

/-- an item is only ever collapsed into an item it is `==` to (or reads back as stored) -/
theorem only_equal (r : CollapseSequence R I) (v : V) (hi : Inv r) (ha : Accepts r v) :
    ∃ r' i, push r v = some (r', i) ∧ ∃ u, index r' i = some u ∧
      (same (R := R) u v ∨ HasEqv.eqv v u = true) :=
  LawfulRegion.push_ok r v hi ha
end C11

namespace C12
variable {R V O : Type} [Region R V (Nat × Nat)] [DenseRegion R] [IdxCont O Nat]
  [LawfulRegion R] [LawfulDense R] [LawfulIdxCont O]

/-- number of items pushed since creation / clear -/
def count (r : ConsecPairs R O) : Nat := (IdxCont.iter r.indices).length - 1

theorem count_default : count (Region.default : ConsecPairs R O) = 0 := by
  simp [count, Region.default, LawfulIdxCont.iter_push _ _ (LawfulIdxCont.inv_default (C := O)),
    LawfulIdxCont.iter_default]

theorem count_clear (r : ConsecPairs R O) : count (clear r) = 0 := by
  simp [count, Region.clear, LawfulIdxCont.iter_push _ _ (LawfulIdxCont.inv_clear r.indices),
    LawfulIdxCont.iter_clear]

/-- **C12**: the k-th push since creation or clear returns k, and the count advances by one -/
theorem kth (r r' : ConsecPairs R O) (v : V) (k : Nat) (hi : Inv r) (hp : push r v = some (r', k)) :
    k = count r ∧ count r' = count r + 1 := by
  obtain ⟨_, hit, _, _, hk⟩ := consec_push_some r r' v k hi hp
  have hne : IdxCont.iter r.indices ≠ [] := by
    intro h; have := hi.2.2.2.1; simp [h] at this
  have := List.length_pos_iff.mpr hne
  refine ⟨hk, ?_⟩
  simp only [count, hit, List.length_append, List.length_singleton]
  omega
end C12

end FC
