import FlatModel.Props.C01
import FlatModel.Proofs.OpsLaws
/-! C09 (clone / clone_from) and C10 (pre-sizing is invisible; merged regions start empty). -/
namespace FC
open Region

section
variable {R V I : Type} [Region R V I] [LawfulRegion R]

/-- `a` and `b` are observationally the same region: equal reads at every valid index now, and after
any sequence of further pushes equal returned indices, equal refusals, and equal reads again -/
def ObsEq (a b : R) : Prop :=
    (∀ i, (Valid a i ↔ Valid b i) ∧ (Valid a i → index a i = index b i)) ∧
    ∀ vs : List V, C08.trace a vs = C08.trace b vs ∧
      ((C08.runPushes a vs = none ∧ C08.runPushes b vs = none) ∨
        ∃ a' b', C08.runPushes a vs = some a' ∧ C08.runPushes b vs = some b' ∧
          ∀ i, (Valid a' i ↔ Valid b' i) ∧ (Valid a' i → index a' i = index b' i))

theorem sim_observe (a b : R) (hs : Sim a b) (ha : Inv a) (hb : Inv b) : ObsEq a b := by
  refine ⟨fun i => LawfulRegion.sim_index a b i hs ha hb, fun vs => ?_⟩
  obtain ⟨t, rest⟩ := C08.sim_pushes a b vs hs ha hb
  refine ⟨t, ?_⟩
  rcases rest with h | ⟨a', b', h1, h2, h3, h4, h5⟩
  · exact Or.inl h
  · exact Or.inr ⟨a', b', h1, h2, fun i => LawfulRegion.sim_index a' b' i h3 h4 h5⟩
end

section
variable {R V I : Type} [Region R V I] [RegionAux R] [LawfulRegion R] [LawfulAux R]

namespace C09
/-- **C09**: a clone reads identically to the original at every issued index and answers every
further push sequence identically. (Independence of the two values is immediate in a pure model.) -/
theorem clone_equal (r : R) (hr : Reachable r) :
    Sim (RegionAux.clone r) r ∧ Inv (RegionAux.clone r) :=
  LawfulAux.clone_sim r (reachable_inv r hr)

/-- **C09**: `clone_from` into a destination with *arbitrary* prior contents yields a region that is
observationally the source — the same thing `clone` yields -/
theorem cloneFrom_equal (d s : R) (hd : Reachable d) (hs : Reachable s) :
    Sim (RegionAux.cloneFrom d s) s ∧ Inv (RegionAux.cloneFrom d s) :=
  LawfulAux.cloneFrom_sim d s (reachable_inv d hd) (reachable_inv s hs)

theorem clone_observe (r : R) (hr : Reachable r) : ObsEq (RegionAux.clone r) r :=
  sim_observe (RegionAux.clone r) r (clone_equal r hr).1 (clone_equal r hr).2 (reachable_inv r hr)

theorem cloneFrom_observe (d s : R) (hd : Reachable d) (hs : Reachable s) : ObsEq (RegionAux.cloneFrom d s) s :=
  sim_observe (RegionAux.cloneFrom d s) s (cloneFrom_equal d s hd hs).1 (cloneFrom_equal d s hd hs).2 (reachable_inv s hs)
end C09

namespace C10
/-- **C10**: `reserve_items` with arbitrary (also wrong) announcements changes nothing observable -/
theorem reserveItems_invisible (r : R) (hr : Reachable r) (vs : List V) : ObsEq (RegionAux.reserveItems r vs) r :=
  sim_observe (RegionAux.reserveItems r vs) r (LawfulAux.reserveItems_sim r vs (reachable_inv r hr)).1
    (LawfulAux.reserveItems_sim r vs (reachable_inv r hr)).2 (reachable_inv r hr)

/-- **C10**: `reserve_regions` over arbitrary source regions changes nothing observable -/
theorem reserveRegions_invisible (r : R) (hr : Reachable r) (rs : List R) (hrs : ∀ x ∈ rs, Reachable x) :
    ObsEq (RegionAux.reserveRegions r rs) r :=
  have h := LawfulAux.reserveRegions_sim r rs (reachable_inv r hr) (fun x hx => reachable_inv x (hrs x hx))
  sim_observe (RegionAux.reserveRegions r rs) r h.1 h.2 (reachable_inv r hr)

/-- **C10**: a region made by `merge_regions` from any sources is observationally a default one -/
theorem merge_fresh [LawfulMerge R] (rs : List R) (hrs : ∀ x ∈ rs, Reachable x) :
    ObsEq (RegionAux.mergeRegions rs) (Region.default : R) :=
  have h := LawfulMerge.merge_fresh rs (fun x hx => reachable_inv x (hrs x hx))
  sim_observe (RegionAux.mergeRegions rs) (Region.default : R) h.1 h.2 LawfulRegion.inv_default
end C10
end

namespace C10
section
variable {R V I S : Type} [Region R V I] [IdxCont S I] [RegionAux R] [IdxAux S]
  [LawfulRegion R] [LawfulIdxCont S] [LawfulIdxAux S]
/-- **C10**: `FlatStack::reserve` is invisible -/
theorem stack_reserve_invisible (fs : FlatStack R S) (hr : Reachable fs) (n : Nat) : ObsEq (fs.reserve n) fs :=
  sim_observe (fs.reserve n) fs (FlatStack.reserve_sim fs n (reachable_inv fs hr)).1
    (FlatStack.reserve_sim fs n (reachable_inv fs hr)).2 (reachable_inv fs hr)
/-- **C10**: `FlatStack::with_capacity` is a default stack -/
theorem stack_withCapacity_default (n : Nat) :
    ObsEq (FlatStack.withCapacity n : FlatStack R S) (Region.default : FlatStack R S) :=
  sim_observe (FlatStack.withCapacity n : FlatStack R S) (Region.default : FlatStack R S)
    (FlatStack.withCapacity_sim n).1 (FlatStack.withCapacity_sim n).2 LawfulRegion.inv_default
end
end C10

end FC

namespace FC
open Region
section
variable {R V I : Type} [Region R V I] [RegionAux R]

/-- every way the crate offers to obtain a region value: creation, merge, push, clear, the
reservation calls, clone and clone_from — from regions obtained the same way -/
inductive Reach : R → Prop
  | default : Reach (Region.default : R)
  | push (r r' : R) (v : V) (i : I) : Reach r → push r v = some (r', i) → Reach r'
  | clear (r : R) : Reach r → Reach (clear r)
  | reserveItems (r : R) (vs : List V) : Reach r → Reach (RegionAux.reserveItems r vs)
  | reserveRegions (r : R) (rs : List R) : Reach r → (∀ x ∈ rs, Reach x) → Reach (RegionAux.reserveRegions r rs)
  | merge (rs : List R) : (∀ x ∈ rs, Reach x) → Reach (RegionAux.mergeRegions rs)
  | clone (r : R) : Reach r → Reach (RegionAux.clone r)
  | cloneFrom (d s : R) : Reach d → Reach s → Reach (RegionAux.cloneFrom d s)

/-- the representation invariant holds in every state reachable through the whole API, so C01, C02,
C08, C09, C10 (all stated for `Inv`) apply there -/
theorem reach_inv [LawfulRegion R] [LawfulAux R] [LawfulMerge R] (r : R) (h : Reach r) : Inv r := by
  induction h with
  | default => exact LawfulRegion.inv_default
  | push r r' v i _ hp ih => exact (LawfulRegion.push_inv r r' v i ih hp).1
  | clear r _ ih => exact LawfulRegion.clear_inv r ih
  | reserveItems r vs _ ih => exact (LawfulAux.reserveItems_sim r vs ih).2
  | reserveRegions r rs _ _ ih ihs => exact (LawfulAux.reserveRegions_sim r rs ih ihs).2
  | merge rs _ ihs => exact (LawfulMerge.merge_fresh rs ihs).2
  | clone r _ ih => exact (LawfulAux.clone_sim r ih).2
  | cloneFrom d s _ _ ihd ihs => exact (LawfulAux.cloneFrom_sim d s ihd ihs).2

/-- C01 in every state reachable through the whole API -/
theorem C01.roundtrip_reach [LawfulRegion R] [LawfulAux R] [LawfulMerge R] (r : R) (hr : Reach r) (v : V)
    (ha : Accepts r v) : ∃ r' i, push r v = some (r', i) ∧ ∃ v', index r' i = some v' ∧ same (R := R) v' v :=
  LawfulRegion.push_ok r v (reach_inv r hr) ha

/-- C02: reservations keep every issued index reading the same item -/
theorem C02.frame_reserve [LawfulRegion R] [LawfulAux R] [LawfulMerge R] (r : R) (hr : Reach r) (j : I) (hv : Valid r j) :
    (∀ vs, Valid (RegionAux.reserveItems r vs) j ∧ index (RegionAux.reserveItems r vs) j = index r j) ∧
    (∀ rs : List R, (∀ x ∈ rs, Reach x) →
      Valid (RegionAux.reserveRegions r rs) j ∧ index (RegionAux.reserveRegions r rs) j = index r j) := by
  have hi := reach_inv r hr
  refine ⟨fun vs => ?_, fun rs hrs => ?_⟩
  · obtain ⟨h1, h2⟩ := LawfulAux.reserveItems_sim r vs hi
    obtain ⟨g1, g2⟩ := LawfulRegion.sim_index _ _ j h1 h2 hi
    exact ⟨g1.mpr hv, g2 (g1.mpr hv)⟩
  · obtain ⟨h1, h2⟩ := LawfulAux.reserveRegions_sim r rs hi (fun x hx => reach_inv x (hrs x hx))
    obtain ⟨g1, g2⟩ := LawfulRegion.sim_index _ _ j h1 h2 hi
    exact ⟨g1.mpr hv, g2 (g1.mpr hv)⟩
end
end FC
