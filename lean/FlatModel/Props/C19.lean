import FlatModel.Proofs.Index
/-! C19: index compression delivers the documented space bounds. -/
namespace FC.C19
open FC

/-- the stride consumes the longest prefix that continues its pattern -/
def strideSplit : Stride → List Nat → Stride × List Nat
  | s, [] => (s, [])
  | s, x :: xs =>
    let (s', ok) := s.push x
    if ok then strideSplit s' xs else (s, x :: xs)

def pushAll (o : IndexOptimized) (xs : List Nat) : IndexOptimized := xs.foldl IndexOptimized.push o
def pushAllList (l : IndexList) (xs : List Nat) : IndexList := xs.foldl IndexList.push l

/-- once anything is in `chonk`, everything goes there -/
theorem list_chonk (l : IndexList) (xs : List Nat) (h : l.chonk ≠ []) :
    pushAllList l xs = ⟨l.smol, l.chonk ++ xs⟩ := by
  induction xs generalizing l with
  | nil => simp [pushAllList]
  | cons x xs ih =>
    simp only [pushAllList, List.foldl_cons]
    have hp : l.push x = ⟨l.smol, l.chonk ++ [x]⟩ := by
      unfold IndexList.push
      have : l.chonk.isEmpty = false := by cases hc : l.chonk <;> simp_all
      simp [this]
    rw [hp]
    have := ih ⟨l.smol, l.chonk ++ [x]⟩ (by simp)
    simp only [pushAllList] at this
    rw [this]; simp

/-- u32 entries while values fit, u64 entries from the first larger value on -/
theorem list_cost (smol : List Nat) (xs : List Nat) :
    pushAllList ⟨smol, []⟩ xs = ⟨smol ++ xs.takeWhile (· < U32), xs.dropWhile (· < U32)⟩ := by
  induction xs generalizing smol with
  | nil => simp [pushAllList]
  | cons x xs ih =>
    simp only [pushAllList, List.foldl_cons]
    by_cases hx : x < U32
    · have hp : (⟨smol, []⟩ : IndexList).push x = ⟨smol ++ [x], []⟩ := by simp [IndexList.push, hx]
      rw [hp]
      have := ih (smol ++ [x])
      simp only [pushAllList] at this
      rw [this]; simp [List.takeWhile_cons, List.dropWhile_cons, hx]
    · have hp : (⟨smol, []⟩ : IndexList).push x = ⟨smol, [x]⟩ := by simp [IndexList.push, hx]
      rw [hp]
      have := list_chonk ⟨smol, [x]⟩ xs (by simp)
      simp only [pushAllList] at this
      rw [this]; simp [List.takeWhile_cons, List.dropWhile_cons, hx]

theorem spilled_nonempty (l : IndexList) (xs : List Nat) (h : l.isEmpty = false) :
    pushAll ⟨s, l⟩ xs = ⟨s, pushAllList l xs⟩ := by
  induction xs generalizing l with
  | nil => simp [pushAll, pushAllList]
  | cons x xs ih =>
    simp only [pushAll, pushAllList, List.foldl_cons]
    have hp : IndexOptimized.push ⟨s, l⟩ x = ⟨s, l.push x⟩ := by simp [IndexOptimized.push, h]
    rw [hp]
    have hne : (l.push x).isEmpty = false := by
      unfold IndexList.push IndexList.isEmpty
      split
      · split <;> simp
      · simp
    have := ih (l.push x) hne
    simp only [pushAll, pushAllList] at this
    exact this

/-- **C19.cost**: the stride-matching prefix is free; the remainder costs 4 bytes per entry while
values fit in `u32` and 8 bytes per entry from the first larger value on. -/
theorem cost (s : Stride) (xs : List Nat) :
    pushAll ⟨s, ⟨[], []⟩⟩ xs =
      ⟨(strideSplit s xs).1,
       ⟨(strideSplit s xs).2.takeWhile (· < U32), (strideSplit s xs).2.dropWhile (· < U32)⟩⟩ := by
  induction xs generalizing s with
  | nil => simp [pushAll, strideSplit]
  | cons x xs ih =>
    simp only [strideSplit]
    cases hp : s.push x with
    | mk s' ok =>
      cases ok with
      | true =>
        simp only [pushAll, List.foldl_cons, if_true]
        have : IndexOptimized.push ⟨s, ⟨[], []⟩⟩ x = ⟨s', ⟨[], []⟩⟩ := by
          simp [IndexOptimized.push, IndexList.isEmpty, hp]
        rw [this]
        exact ih s'
      | false =>
        simp only [pushAll, List.foldl_cons]
        have h1 : IndexOptimized.push ⟨s, ⟨[], []⟩⟩ x = ⟨s, (⟨[], []⟩ : IndexList).push x⟩ := by
          simp [IndexOptimized.push, IndexList.isEmpty, hp]
        rw [h1]
        have hne : ((⟨[], []⟩ : IndexList).push x).isEmpty = false := by
          unfold IndexList.push IndexList.isEmpty; simp; split <;> simp
        have h2 := spilled_nonempty (s := s) ((⟨[], []⟩ : IndexList).push x) xs hne
        simp only [pushAll] at h2
        rw [h2]
        have h3 := list_cost [] (x :: xs)
        simp only [pushAllList, List.foldl_cons, List.nil_append] at h3
        simp only [pushAllList]
        rw [h3]
        simp

/-- heap bytes of an `IndexOptimized` are exactly `4·|mid| + 8·|tail|` -/
theorem used_bytes (xs : List Nat) :
    IdxCont.usedBytes (pushAll ⟨.empty, ⟨[], []⟩⟩ xs) =
      [((strideSplit .empty xs).2.takeWhile (· < U32)).length * 4,
       ((strideSplit .empty xs).2.dropWhile (· < U32)).length * 8] := by
  rw [cost]; rfl

/-- the dense sequence 0,1,2,… (what consecutive-pair and columns regions hand out, C12) is free,
for any number of items representable as `usize` -/
theorem dense_state : ∀ n, n + 2 < USIZE →
    pushAll ⟨.empty, ⟨[], []⟩⟩ (List.range (n + 2)) = ⟨.striding 1 (n + 2), ⟨[], []⟩⟩ := by
  intro n
  induction n with
  | zero => intro _; simp [pushAll, List.range_succ, IndexOptimized.push, IndexList.isEmpty, Stride.push]
  | succ n ih =>
    intro hn
    rw [List.range_succ, pushAll, List.foldl_append]
    have ih' := ih (by omega)
    simp only [pushAll] at ih'
    rw [ih']
    have hc : checkedMul 1 (n + 2) = some (n + 2) := by
      rw [Stride.checkedMul_eq_some]; omega
    simp [IndexOptimized.push, IndexList.isEmpty, Stride.push, hc]

theorem dense_free (n : Nat) (hn : n < USIZE) :
    IdxCont.usedBytes (pushAll ⟨.empty, ⟨[], []⟩⟩ (List.range n)) = [0, 0] := by
  match n with
  | 0 => rfl
  | 1 => simp [pushAll, List.range_succ, IndexOptimized.push, IndexList.isEmpty, Stride.push]; rfl
  | n + 2 => rw [dense_state n hn]; rfl

end FC.C19
