import FlatModel.Proofs.Index
/-! C05: index containers store arbitrary usize sequences faithfully and never panic. -/
namespace FC.C05
open FC

/-- every container is the list of pushed values: after any pushes, iteration, `index`, `len`, `is_empty` agree with it -/
theorem faithful {C : Type} [IdxCont C Nat] [L : LawfulIdxCont C] (xs : List Nat) :
    let c := xs.foldl IdxCont.push (IdxCont.default : C)
    IdxCont.iter c = xs ∧ (∀ i, IdxCont.index c i = xs[i]?) ∧ IdxCont.len c = xs.length ∧
      IdxCont.isEmpty c = xs.isEmpty := by
  have key : ∀ (c : C) (xs : List Nat), IdxCont.Inv c →
      IdxCont.Inv (xs.foldl IdxCont.push c) ∧ IdxCont.iter (xs.foldl IdxCont.push c) = IdxCont.iter c ++ xs := by
    intro c xs
    induction xs generalizing c with
    | nil => intro h; simp [h]
    | cons x xs ih =>
      intro h
      obtain ⟨h1, h2⟩ := ih (IdxCont.push c x) (L.inv_push c x h)
      refine ⟨h1, ?_⟩
      simp only [List.foldl_cons]
      rw [h2, L.iter_push c x h]; simp
  obtain ⟨hinv, hiter⟩ := key IdxCont.default xs L.inv_default
  rw [L.iter_default, List.nil_append] at hiter
  refine ⟨hiter, fun i => ?_, ?_, ?_⟩
  · rw [L.index_eq _ i hinv, hiter]
  · rw [L.len_eq _ hinv, hiter]
  · rw [L.isEmpty_eq _ hinv, hiter]

/-- `Stride::push` accepts exactly the continuation of the documented pattern … -/
theorem stride_accepts_iff (s : Stride) (x : Nat) : (s.push x).2 = true ↔ s.Continues x :=
  Stride.accepts_iff s x
/-- … and leaves the state untouched when it rejects -/
theorem stride_reject_unchanged (s : Stride) (x : Nat) (h : (s.push x).2 = false) : (s.push x).1 = s :=
  Stride.reject_unchanged s x h

/-- the hypotheses are satisfiable: a container that crossed stride → u32 → u64 -/
example : let c := [0, 2, 4, 4, 5, 4294967296, 1].foldl IdxCont.push (IdxCont.default : IndexOptimized)
    IdxCont.iter c = [0, 2, 4, 4, 5, 4294967296, 1] ∧ c.spilled.smol = [5] ∧ c.spilled.chonk = [4294967296, 1] := by
  decide

/-! The tree as it was before the repair (`*stride * *count`): the property is false. -/
/-- overflow-checked build: pushing 0, 2^63, 5 panics -/
example : Stride.pushLegacy .checked (.striding (2^63) 2) 5 = none := by decide
/-- wrapping build: 0 is accepted as "2·s" after 0, 2^63 although it does not continue the pattern -/
example : Stride.pushLegacy .wrapping (.striding (2^63) 2) 0 = some (.striding (2^63) 3, true) := by decide
example : ¬ (Stride.striding (2^63) 2).Continues 0 := by simp [Stride.Continues, USIZE]

end FC.C05

namespace FC.C05
open FC
/-- **append-only at the container level (C02's mechanisms)**: a push never changes what an earlier
position reads — not when `IndexOptimized` leaves the stride and starts spilling, not when
`IndexList` switches from its `u32` list to its `u64` list -/
theorem push_keeps_prefix {C : Type} [IdxCont C Nat] [L : LawfulIdxCont C] (c : C) (x : Nat) (hi : IdxCont.Inv c)
    (i : Nat) (h : i < IdxCont.len c) : IdxCont.index (IdxCont.push c x) i = IdxCont.index c i := by
  rw [L.index_eq _ i (L.inv_push c x hi), L.index_eq _ i hi, L.iter_push c x hi]
  rw [L.len_eq c hi] at h
  exact List.getElem?_append_left h

theorem indexOptimized_spill_keeps_prefix (o : IndexOptimized) (x : Nat) (hi : o.strided.Inv) (i : Nat) (h : i < o.len) :
    (o.push x).index i = o.index i :=
  push_keeps_prefix (C := IndexOptimized) o x hi i h

theorem indexList_chonk_keeps_smol (l : IndexList) (x : Nat) (i : Nat) (h : i < l.len) :
    (l.push x).index i = l.index i :=
  push_keeps_prefix (C := IndexList) l x trivial i h
end FC.C05
