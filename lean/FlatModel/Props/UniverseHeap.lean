import FlatModel.Props.UniverseOps
import FlatModel.Props.C17
import FlatModel.Props.C18
/-! C18 (`heap_size` accounting) and C17 (allocation discipline) for every composition.

`HeapInv` / `LawfulHeap` / `Stored` (`Proofs/Heap.lean`) have instances for *every* type constructor
of the crate, the coded regions included, so C18 is a theorem for every `d : RDesc v ix`. Two
refinements hold on sub-universes:
* `d.NoCodec` (no `codec` anywhere; `huffman`, `huffmanU8` allowed): `KeepsCaps` — there is no
  `KeepsCaps Codec.Region`, the model reports the byte store of the dictionary-coded region as
  `(len, len)` and clears to `default`, so the reported capacity drops (`C18.lean`, last example);
* `d.NoColumns` (no `columns` anywhere): `ClearsToDefault` — there is no `ClearsToDefault
  (ColumnsRegion R I O)`: a cleared columns region keeps its columns and accounts their headers;
  what remains is `C18_clear_columns` below.

`Sized` / `LawfulSized` / `LawfulGrowth` (`Proofs/Caps.lean`, `CapsGrowth.lean`: C17) exist for the
vector-backed structural regions only:
* `d.VecSized`: built from `mirror`, `owned`, `vec`, `string`, `option`, `result`, `tupleNil`,
  `tupleCons`, and `slice` / `stack` *over a `Vec` index container* (`IdxKind.vec`). Excluded, for want of
  a `Sized` instance: `collapse`, `consec`, `columns`, `codec`, `huffman`, `huffmanU8`, and `slice` / `stack`
  over `IndexOptimized` / `IndexList` (`Sized (SliceRegion R (Capd (VecIdx I sz)))` is the only slice
  instance);
* `d.Reservable`: `d.VecSized` and no `stack` anywhere: `LawfulReserve` — there is no `LawfulReserve
  (FlatStack R S)`: `FlatStack::reserve_items` leaves the index vector alone. -/
namespace FC.Universe
open FC Region

/-! ### index containers -/

structure IdxHeap {T : Type} (o : IdxBundle T) (a : IdxOps o) where
  heapInv : @IdxHeapInv o.O T o.inst a.aux
  lawfulHeap : @LawfulIdxHeap o.O T o.inst a.aux heapInv
  stored : @IdxStored o.O T o.inst a.aux heapInv

def IdxKind.heap : {i : Ty} → (k : IdxKind i) → IdxHeap k.bundle k.ops
  | i, .vec sz => @IdxHeap.mk _ (IdxKind.vec sz).bundle (IdxKind.vec sz).ops
      (inferInstanceAs (IdxHeapInv (Capd (VecIdx i.interp sz)))) (inferInstanceAs (LawfulIdxHeap (Capd (VecIdx i.interp sz))))
      (inferInstanceAs (IdxStored (Capd (VecIdx i.interp sz))))
  | _, .opt => @IdxHeap.mk _ IdxKind.opt.bundle IdxKind.opt.ops
      (inferInstanceAs (IdxHeapInv (Capd IndexOptimized))) (inferInstanceAs (LawfulIdxHeap (Capd IndexOptimized)))
      (inferInstanceAs (IdxStored (Capd IndexOptimized)))
  | _, .list => @IdxHeap.mk _ IdxKind.list.bundle IdxKind.list.ops
      (inferInstanceAs (IdxHeapInv (Capd IndexList))) (inferInstanceAs (LawfulIdxHeap (Capd IndexList)))
      (inferInstanceAs (IdxStored (Capd IndexList)))

/-! ### `HeapInv`, `Stored`, `LawfulHeap`: every description -/
section Heap
variable [σ : SizeEnv]

/-- the capacity invariant of the interpretation of a description -/
@[instance_reducible] def RDesc.heapInv : {v : Ty} → {ix : Ix} → (d : RDesc v ix) → HeapInv d.R
  | _, _, .mirror t => inferInstanceAs (HeapInv (MirrorRegion t.interp))
  | _, _, .owned t => letI := σ.elem t; inferInstanceAs (HeapInv (OwnedRegion t.interp))
  | _, _, .vec t => letI := σ.elem t; inferInstanceAs (HeapInv (VecRegion t.interp))
  | _, .any i, .string d =>
    letI : Region d.R (List UInt8) i.interp := d.bundle.inst
    letI : RegionAux d.R := d.aux
    letI : HeapInv d.R := d.heapInv
    inferInstanceAs (HeapInv (StringRegion d.R))
  | _, .dense, .string d =>
    letI : Region d.R (List UInt8) (Nat × Nat) := d.bundle.inst
    letI : RegionAux d.R := d.aux
    letI : HeapInv d.R := d.heapInv
    inferInstanceAs (HeapInv (StringRegion d.R))
  | _, _, .option d => letI := d.heapInv; inferInstanceAs (HeapInv (OptionRegion d.R))
  | _, _, .result t e => letI := t.heapInv; letI := e.heapInv; inferInstanceAs (HeapInv (ResultRegion t.R e.R))
  | _, _, .tupleNil => inferInstanceAs (HeapInv TupleNil)
  | _, _, .tupleCons a b => letI := a.heapInv; letI := b.heapInv; inferInstanceAs (HeapInv (TupleCons a.R b.R))
  | v, _, .collapse (ix := ix) d =>
    letI := v.hasEqv; letI := σ.index ix.ty; letI := d.heapInv
    inferInstanceAs (HeapInv (CollapseSequence d.R ix.ty.interp))
  | _, _, .slice d k =>
    letI := d.heapInv; letI := k.ops.aux; letI := k.heap.heapInv
    inferInstanceAs (HeapInv (SliceRegion d.R k.bundle.O))
  | _, _, .consec d k =>
    letI : RegionAux d.bundleX.R := d.aux
    letI : HeapInv d.bundleX.R := d.heapInv
    letI := k.ops.aux; letI := k.heap.heapInv
    inferInstanceAs (HeapInv (ConsecPairs d.bundleX.R k.bundle.O))
  | _, _, .columns (ix := ix) d k =>
    letI := σ.elem ix.ty; letI := d.heapInv; letI := k.ops.aux; letI := k.heap.heapInv
    inferInstanceAs (HeapInv (ColumnsRegion d.R ix.ty.interp k.bundle.O))
  | _, _, .codec => inferInstanceAs (HeapInv Codec.Region)
  | _, _, .huffman => inferInstanceAs (HeapInv Huff.Container)
  | _, _, .huffmanU8 => inferInstanceAs (HeapInv HuffU8)
  | _, _, .stack d k =>
    letI := d.heapInv; letI := k.ops.aux; letI := k.heap.heapInv
    inferInstanceAs (HeapInv (FlatStack d.R k.bundle.O))

instance heapInvInst {v : Ty} {ix : Ix} (d : RDesc v ix) : HeapInv d.R := d.heapInv

/-- payload bytes plus index entries held, computed from the contents -/
@[instance_reducible] def RDesc.stored : {v : Ty} → {ix : Ix} → (d : RDesc v ix) → Stored d.R
  | _, _, .mirror t => inferInstanceAs (Stored (MirrorRegion t.interp))
  | _, _, .owned t => letI := σ.elem t; inferInstanceAs (Stored (OwnedRegion t.interp))
  | _, _, .vec t => letI := σ.elem t; inferInstanceAs (Stored (VecRegion t.interp))
  | _, .any i, .string d =>
    letI : Region d.R (List UInt8) i.interp := d.bundle.inst
    letI : RegionAux d.R := d.aux
    letI : HeapInv d.R := d.heapInv
    letI : Stored d.R := d.stored
    inferInstanceAs (Stored (StringRegion d.R))
  | _, .dense, .string d =>
    letI : Region d.R (List UInt8) (Nat × Nat) := d.bundle.inst
    letI : RegionAux d.R := d.aux
    letI : HeapInv d.R := d.heapInv
    letI : Stored d.R := d.stored
    inferInstanceAs (Stored (StringRegion d.R))
  | _, _, .option d => letI := d.stored; inferInstanceAs (Stored (OptionRegion d.R))
  | _, _, .result t e => letI := t.stored; letI := e.stored; inferInstanceAs (Stored (ResultRegion t.R e.R))
  | _, _, .tupleNil => inferInstanceAs (Stored TupleNil)
  | _, _, .tupleCons a b => letI := a.stored; letI := b.stored; inferInstanceAs (Stored (TupleCons a.R b.R))
  | v, _, .collapse (ix := ix) d =>
    letI := v.hasEqv; letI := σ.index ix.ty; letI := d.stored
    inferInstanceAs (Stored (CollapseSequence d.R ix.ty.interp))
  | _, _, .slice d k =>
    letI := d.stored; letI := k.ops.aux; letI := k.heap.heapInv; letI := k.heap.stored
    inferInstanceAs (Stored (SliceRegion d.R k.bundle.O))
  | _, _, .consec d k =>
    letI : RegionAux d.bundleX.R := d.aux
    letI : HeapInv d.bundleX.R := d.heapInv
    letI : Stored d.bundleX.R := d.stored
    letI := k.ops.aux; letI := k.heap.heapInv; letI := k.heap.stored
    inferInstanceAs (Stored (ConsecPairs d.bundleX.R k.bundle.O))
  | _, _, .columns (ix := ix) d k =>
    letI := σ.elem ix.ty; letI := d.stored; letI := k.ops.aux; letI := k.heap.heapInv; letI := k.heap.stored
    inferInstanceAs (Stored (ColumnsRegion d.R ix.ty.interp k.bundle.O))
  | _, _, .codec => inferInstanceAs (Stored Codec.Region)
  | _, _, .huffman => inferInstanceAs (Stored Huff.Container)
  | _, _, .huffmanU8 => inferInstanceAs (Stored HuffU8)
  | _, _, .stack d k =>
    letI := d.stored; letI := k.ops.aux; letI := k.heap.heapInv; letI := k.heap.stored
    inferInstanceAs (Stored (FlatStack d.R k.bundle.O))

instance storedInst {v : Ty} {ix : Ix} (d : RDesc v ix) : Stored d.R := d.stored

/-- **`LawfulHeap` for every description** -/
theorem RDesc.lawfulHeap : {v : Ty} → {ix : Ix} → (d : RDesc v ix) → LawfulHeap d.R
  | _, _, .mirror t => inferInstanceAs (LawfulHeap (MirrorRegion t.interp))
  | _, _, .owned t => letI := σ.elem t; inferInstanceAs (LawfulHeap (OwnedRegion t.interp))
  | _, _, .vec t => letI := σ.elem t; inferInstanceAs (LawfulHeap (VecRegion t.interp))
  | _, .any i, .string d =>
    letI : Region d.R (List UInt8) i.interp := d.bundle.inst
    letI : RegionAux d.R := d.aux
    letI : HeapInv d.R := d.heapInv
    letI : LawfulHeap d.R := d.lawfulHeap
    inferInstanceAs (LawfulHeap (StringRegion d.R))
  | _, .dense, .string d =>
    letI : Region d.R (List UInt8) (Nat × Nat) := d.bundle.inst
    letI : RegionAux d.R := d.aux
    letI : HeapInv d.R := d.heapInv
    letI : LawfulHeap d.R := d.lawfulHeap
    inferInstanceAs (LawfulHeap (StringRegion d.R))
  | _, _, .option d => letI := d.lawfulHeap; inferInstanceAs (LawfulHeap (OptionRegion d.R))
  | _, _, .result t e => letI := t.lawfulHeap; letI := e.lawfulHeap; inferInstanceAs (LawfulHeap (ResultRegion t.R e.R))
  | _, _, .tupleNil => inferInstanceAs (LawfulHeap TupleNil)
  | _, _, .tupleCons a b => letI := a.lawfulHeap; letI := b.lawfulHeap; inferInstanceAs (LawfulHeap (TupleCons a.R b.R))
  | v, _, .collapse (ix := ix) d =>
    letI := v.hasEqv; letI := σ.index ix.ty; letI := d.lawfulHeap
    inferInstanceAs (LawfulHeap (CollapseSequence d.R ix.ty.interp))
  | _, _, .slice d k =>
    letI := d.lawfulHeap; letI := k.ops.aux; letI := k.heap.heapInv; letI := k.heap.lawfulHeap
    inferInstanceAs (LawfulHeap (SliceRegion d.R k.bundle.O))
  | _, _, .consec d k =>
    letI : RegionAux d.bundleX.R := d.aux
    letI : HeapInv d.bundleX.R := d.heapInv
    letI : LawfulHeap d.bundleX.R := d.lawfulHeap
    letI := k.ops.aux; letI := k.heap.heapInv; letI := k.heap.lawfulHeap
    inferInstanceAs (LawfulHeap (ConsecPairs d.bundleX.R k.bundle.O))
  | _, _, .columns (ix := ix) d k =>
    letI := σ.elem ix.ty; letI := d.lawfulHeap; letI := k.ops.aux; letI := k.heap.heapInv; letI := k.heap.lawfulHeap
    inferInstanceAs (LawfulHeap (ColumnsRegion d.R ix.ty.interp k.bundle.O))
  | _, _, .codec => inferInstanceAs (LawfulHeap Codec.Region)
  | _, _, .huffman => inferInstanceAs (LawfulHeap Huff.Container)
  | _, _, .huffmanU8 => inferInstanceAs (LawfulHeap HuffU8)
  | _, _, .stack d k =>
    letI := d.lawfulHeap; letI := k.ops.aux; letI := k.heap.heapInv; letI := k.heap.lawfulHeap
    inferInstanceAs (LawfulHeap (FlatStack d.R k.bundle.O))

instance lawfulHeapInst {v : Ty} {ix : Ix} (d : RDesc v ix) : LawfulHeap d.R := d.lawfulHeap

end Heap

/-! ### `KeepsCaps` (no `codec`) and `ClearsToDefault` (no `columns`) -/

/-- no `codec` anywhere in the description (`huffman`, `huffmanU8` allowed) -/
def RDesc.NoCodec : {v : Ty} → {ix : Ix} → RDesc v ix → Prop
  | _, _, .mirror _ => True
  | _, _, .owned _ => True
  | _, _, .vec _ => True
  | _, _, .string d => d.NoCodec
  | _, _, .option d => d.NoCodec
  | _, _, .result t e => t.NoCodec ∧ e.NoCodec
  | _, _, .tupleNil => True
  | _, _, .tupleCons a b => a.NoCodec ∧ b.NoCodec
  | _, _, .collapse d => d.NoCodec
  | _, _, .slice d _ => d.NoCodec
  | _, _, .consec d _ => d.NoCodec
  | _, _, .columns d _ => d.NoCodec
  | _, _, .codec => False
  | _, _, .huffman => True
  | _, _, .huffmanU8 => True
  | _, _, .stack d _ => d.NoCodec

instance RDesc.decNoCodec : {v : Ty} → {ix : Ix} → (d : RDesc v ix) → Decidable d.NoCodec
  | _, _, .mirror _ => isTrue trivial
  | _, _, .owned _ => isTrue trivial
  | _, _, .vec _ => isTrue trivial
  | _, _, .string d => d.decNoCodec
  | _, _, .option d => d.decNoCodec
  | _, _, .result t e => @instDecidableAnd _ _ t.decNoCodec e.decNoCodec
  | _, _, .tupleNil => isTrue trivial
  | _, _, .tupleCons a b => @instDecidableAnd _ _ a.decNoCodec b.decNoCodec
  | _, _, .collapse d => d.decNoCodec
  | _, _, .slice d _ => d.decNoCodec
  | _, _, .consec d _ => d.decNoCodec
  | _, _, .columns d _ => d.decNoCodec
  | _, _, .codec => isFalse id
  | _, _, .huffman => isTrue trivial
  | _, _, .huffmanU8 => isTrue trivial
  | _, _, .stack d _ => d.decNoCodec

/-- no `columns` anywhere in the description -/
def RDesc.NoColumns : {v : Ty} → {ix : Ix} → RDesc v ix → Prop
  | _, _, .mirror _ => True
  | _, _, .owned _ => True
  | _, _, .vec _ => True
  | _, _, .string d => d.NoColumns
  | _, _, .option d => d.NoColumns
  | _, _, .result t e => t.NoColumns ∧ e.NoColumns
  | _, _, .tupleNil => True
  | _, _, .tupleCons a b => a.NoColumns ∧ b.NoColumns
  | _, _, .collapse d => d.NoColumns
  | _, _, .slice d _ => d.NoColumns
  | _, _, .consec d _ => d.NoColumns
  | _, _, .columns _ _ => False
  | _, _, .codec => True
  | _, _, .huffman => True
  | _, _, .huffmanU8 => True
  | _, _, .stack d _ => d.NoColumns

instance RDesc.decNoColumns : {v : Ty} → {ix : Ix} → (d : RDesc v ix) → Decidable d.NoColumns
  | _, _, .mirror _ => isTrue trivial
  | _, _, .owned _ => isTrue trivial
  | _, _, .vec _ => isTrue trivial
  | _, _, .string d => d.decNoColumns
  | _, _, .option d => d.decNoColumns
  | _, _, .result t e => @instDecidableAnd _ _ t.decNoColumns e.decNoColumns
  | _, _, .tupleNil => isTrue trivial
  | _, _, .tupleCons a b => @instDecidableAnd _ _ a.decNoColumns b.decNoColumns
  | _, _, .collapse d => d.decNoColumns
  | _, _, .slice d _ => d.decNoColumns
  | _, _, .consec d _ => d.decNoColumns
  | _, _, .columns _ _ => isFalse id
  | _, _, .codec => isTrue trivial
  | _, _, .huffman => isTrue trivial
  | _, _, .huffmanU8 => isTrue trivial
  | _, _, .stack d _ => d.decNoColumns

section Heap2
variable [σ : SizeEnv]

/-- **`KeepsCaps` for every description without `codec`**: `clear` keeps every reported capacity -/
theorem RDesc.keepsCaps : {v : Ty} → {ix : Ix} → (d : RDesc v ix) → d.NoCodec → KeepsCaps d.R
  | _, _, .mirror t, _ => inferInstanceAs (KeepsCaps (MirrorRegion t.interp))
  | _, _, .owned t, _ => letI := σ.elem t; inferInstanceAs (KeepsCaps (OwnedRegion t.interp))
  | _, _, .vec t, _ => letI := σ.elem t; inferInstanceAs (KeepsCaps (VecRegion t.interp))
  | _, .any i, .string d, h =>
    letI : Region d.R (List UInt8) i.interp := d.bundle.inst
    letI : RegionAux d.R := d.aux
    letI : HeapInv d.R := d.heapInv
    letI : KeepsCaps d.R := d.keepsCaps h
    inferInstanceAs (KeepsCaps (StringRegion d.R))
  | _, .dense, .string d, h =>
    letI : Region d.R (List UInt8) (Nat × Nat) := d.bundle.inst
    letI : RegionAux d.R := d.aux
    letI : HeapInv d.R := d.heapInv
    letI : KeepsCaps d.R := d.keepsCaps h
    inferInstanceAs (KeepsCaps (StringRegion d.R))
  | _, _, .option d, h => letI := d.keepsCaps h; inferInstanceAs (KeepsCaps (OptionRegion d.R))
  | _, _, .result t e, h =>
    letI := t.keepsCaps h.1; letI := e.keepsCaps h.2; inferInstanceAs (KeepsCaps (ResultRegion t.R e.R))
  | _, _, .tupleNil, _ => inferInstanceAs (KeepsCaps TupleNil)
  | _, _, .tupleCons a b, h =>
    letI := a.keepsCaps h.1; letI := b.keepsCaps h.2; inferInstanceAs (KeepsCaps (TupleCons a.R b.R))
  | v, _, .collapse (ix := ix) d, h =>
    letI := v.hasEqv; letI := σ.index ix.ty; letI := d.keepsCaps h
    inferInstanceAs (KeepsCaps (CollapseSequence d.R ix.ty.interp))
  | _, _, .slice d k, h =>
    letI := d.keepsCaps h; letI := k.ops.aux; letI := k.heap.heapInv; letI := k.heap.lawfulHeap
    inferInstanceAs (KeepsCaps (SliceRegion d.R k.bundle.O))
  | _, _, .consec d k, h =>
    letI : RegionAux d.bundleX.R := d.aux
    letI : HeapInv d.bundleX.R := d.heapInv
    letI : KeepsCaps d.bundleX.R := d.keepsCaps h
    letI := k.ops.aux; letI := k.heap.heapInv; letI := k.heap.lawfulHeap
    inferInstanceAs (KeepsCaps (ConsecPairs d.bundleX.R k.bundle.O))
  | _, _, .columns (ix := ix) d k, h =>
    letI := σ.elem ix.ty; letI := d.keepsCaps h; letI := k.ops.aux; letI := k.heap.heapInv; letI := k.heap.lawfulHeap
    inferInstanceAs (KeepsCaps (ColumnsRegion d.R ix.ty.interp k.bundle.O))
  | _, _, .huffman, _ => inferInstanceAs (KeepsCaps Huff.Container)
  | _, _, .huffmanU8, _ => inferInstanceAs (KeepsCaps HuffU8)
  | _, _, .stack d k, h =>
    letI := d.keepsCaps h; letI := k.ops.aux; letI := k.heap.heapInv; letI := k.heap.lawfulHeap
    inferInstanceAs (KeepsCaps (FlatStack d.R k.bundle.O))

/-- **`ClearsToDefault` for every description without `columns`**: a cleared region accounts exactly
what a fresh one does -/
theorem RDesc.clearsToDefault : {v : Ty} → {ix : Ix} → (d : RDesc v ix) → d.NoColumns → ClearsToDefault d.R
  | _, _, .mirror t, _ => inferInstanceAs (ClearsToDefault (MirrorRegion t.interp))
  | _, _, .owned t, _ => letI := σ.elem t; inferInstanceAs (ClearsToDefault (OwnedRegion t.interp))
  | _, _, .vec t, _ => letI := σ.elem t; inferInstanceAs (ClearsToDefault (VecRegion t.interp))
  | _, .any i, .string d, h =>
    letI : Region d.R (List UInt8) i.interp := d.bundle.inst
    letI : RegionAux d.R := d.aux
    letI : HeapInv d.R := d.heapInv
    letI : ClearsToDefault d.R := d.clearsToDefault h
    inferInstanceAs (ClearsToDefault (StringRegion d.R))
  | _, .dense, .string d, h =>
    letI : Region d.R (List UInt8) (Nat × Nat) := d.bundle.inst
    letI : RegionAux d.R := d.aux
    letI : HeapInv d.R := d.heapInv
    letI : ClearsToDefault d.R := d.clearsToDefault h
    inferInstanceAs (ClearsToDefault (StringRegion d.R))
  | _, _, .option d, h => letI := d.clearsToDefault h; inferInstanceAs (ClearsToDefault (OptionRegion d.R))
  | _, _, .result t e, h =>
    letI := t.clearsToDefault h.1; letI := e.clearsToDefault h.2; inferInstanceAs (ClearsToDefault (ResultRegion t.R e.R))
  | _, _, .tupleNil, _ => inferInstanceAs (ClearsToDefault TupleNil)
  | _, _, .tupleCons a b, h =>
    letI := a.clearsToDefault h.1; letI := b.clearsToDefault h.2; inferInstanceAs (ClearsToDefault (TupleCons a.R b.R))
  | v, _, .collapse (ix := ix) d, h =>
    letI := v.hasEqv; letI := σ.index ix.ty; letI := d.clearsToDefault h
    inferInstanceAs (ClearsToDefault (CollapseSequence d.R ix.ty.interp))
  | _, _, .slice d k, h =>
    letI := d.clearsToDefault h; letI := k.ops.aux; letI := k.heap.heapInv; letI := k.heap.lawfulHeap
    inferInstanceAs (ClearsToDefault (SliceRegion d.R k.bundle.O))
  | _, _, .consec d k, h =>
    letI : RegionAux d.bundleX.R := d.aux
    letI : HeapInv d.bundleX.R := d.heapInv
    letI : ClearsToDefault d.bundleX.R := d.clearsToDefault h
    letI := k.ops.aux; letI := k.heap.heapInv; letI := k.heap.lawfulHeap
    inferInstanceAs (ClearsToDefault (ConsecPairs d.bundleX.R k.bundle.O))
  | _, _, .codec, _ => inferInstanceAs (ClearsToDefault Codec.Region)
  | _, _, .huffman, _ => inferInstanceAs (ClearsToDefault Huff.Container)
  | _, _, .huffmanU8, _ => inferInstanceAs (ClearsToDefault HuffU8)
  | _, _, .stack d k, h =>
    letI := d.clearsToDefault h; letI := k.ops.aux; letI := k.heap.heapInv; letI := k.heap.lawfulHeap
    inferInstanceAs (ClearsToDefault (FlatStack d.R k.bundle.O))

end Heap2

/-! ### C18, for every composition -/
section C18Props
variable [SizeEnv] {v : Ty} {ix : Ix}

/-- **C18 for every composition** (coded ones included). In every state reachable through the whole
API — creation, push, clear, both reservation calls and merge over arbitrary reachable sources,
clone, clone_from —
* every vector has length ≤ capacity (`CapInv`) and every pair `heap_size` reports has used ≤ capacity;
* no push, and no sequence of pushes, decreases the bytes in use;
* `clear` does not increase them;
* the bytes in use cover `stored`: the payload bytes plus index entries computed from the contents
  by recursion over the description (no branch of a composite is forgotten). -/
theorem C18_every_composition (d : RDesc v ix) (r : d.R) (h : Reach r) :
    HeapInv.CapInv r ∧
    (∀ p ∈ RegionAux.heap r, p.1 ≤ p.2) ∧
    (∀ (r' : d.R) (x : v.interp) (j : ix.ty.interp), push r x = some (r', j) → totalUsed r ≤ totalUsed r') ∧
    (∀ (r' : d.R) (xs : List v.interp), C08.runPushes r xs = some r' → totalUsed r ≤ totalUsed r') ∧
    totalUsed (clear r) ≤ totalUsed r ∧
    Stored.stored r ≤ totalUsed r :=
  ⟨C18.reach_capInv r h, C18.used_le_cap r h, fun r' x j hp => C18.push_monotone r r' x j h hp,
   fun r' xs hp => C18.pushes_monotone r r' xs h hp, C18.clear_used r h, C18.lower_bound r h⟩

/-- a fresh region is the floor of the bytes in use -/
theorem C18_default_floor (d : RDesc v ix) (r : d.R) (xs : List v.interp)
    (hp : C08.runPushes (Region.default : d.R) xs = some r) : totalUsed (Region.default : d.R) ≤ totalUsed r :=
  C18.default_le_pushes r xs hp

/-- **C18 (clear keeps the allocations) for every composition without `codec`**: after `clear` the
same number of pairs is reported, no reported capacity is smaller than before, nor is their sum -/
theorem C18_clear_caps_every_composition (d : RDesc v ix) (hc : d.NoCodec) (r : d.R) (h : Reach r) :
    (capsOf r).length = (capsOf (clear r)).length ∧
    (∀ k (h1 : k < (capsOf r).length) (h2 : k < (capsOf (clear r)).length), (capsOf r)[k] ≤ (capsOf (clear r))[k]) ∧
    (capsOf r).sum ≤ (capsOf (clear r)).sum :=
  haveI := d.keepsCaps hc
  ⟨(C18.clear_caps r h).1, (C18.clear_caps r h).2, C18.clear_caps_total r h⟩

/-- **C18 (clear forgets the payload) for every composition without `columns`**: a cleared region
accounts exactly what a fresh one does -/
theorem C18_clear_default_every_composition (d : RDesc v ix) (hc : d.NoColumns) (r : d.R) (h : Reach r) :
    totalUsed (clear r) = totalUsed (Region.default : d.R) :=
  haveI := d.clearsToDefault hc
  C18.clear_used_default r h

/-- … and for `columns` over any description: the column vector itself, each cleared column and
the cleared row offsets remain; when the column description has no `columns` inside, that is the
structural bytes only -/
theorem C18_clear_columns (d : RDesc v ix) (k : IdxKind .nat) (r : ColumnsRegion d.R ix.ty.interp k.bundle.O) :
    letI := SizeEnv.elem ix.ty; letI := k.ops.aux
    (totalUsed (clear r) = r.cols.length * RegionAux.selfSize d.R + (r.cols.map fun c => totalUsed (clear c)).sum
      + totalUsed (clear r.indices)) ∧
    (d.NoColumns → Reach r → totalUsed (clear r) = r.cols.length * (RegionAux.selfSize d.R + totalUsed (Region.default : d.R))
      + totalUsed (Region.default : ConsecPairs (OwnedRegion ix.ty.interp) k.bundle.O)) :=
  letI := SizeEnv.elem ix.ty; letI := k.ops.aux; letI := k.heap.heapInv
  haveI := k.heap.lawfulHeap
  ⟨C18.clear_used_columns (R := d.R) (I := ix.ty.interp) (O := k.bundle.O) r,
   fun hc hr => haveI := d.clearsToDefault hc; C18.clear_used_columns_default (R := d.R) (I := ix.ty.interp) (O := k.bundle.O) r hr⟩

end C18Props

/-! ### `Sized`, `LawfulSized`, `LawfulGrowth`, `LawfulReserve`: the vector-backed descriptions -/

/-- `Vec<I>` -/
def IdxKind.IsVec : {i : Ty} → IdxKind i → Prop
  | _, .vec _ => True
  | _, .opt => False
  | _, .list => False

instance IdxKind.decIsVec : {i : Ty} → (k : IdxKind i) → Decidable k.IsVec
  | _, .vec _ => isTrue trivial
  | _, .opt => isFalse id
  | _, .list => isFalse id

/-- what `Proofs/Caps.lean` and `CapsGrowth.lean` provide for slices and stacks over a `Vec` index
container, for any inner region -/
structure IdxSized {i : Ty} (k : IdxKind i) : Type 1 where
  slice : ∀ (R V : Type) [Region R V i.interp] [RegionAux R] [Sized R],
    letI := k.ops.aux; Sized (SliceRegion R k.bundle.O)
  slice_laws : ∀ (R V : Type) [Region R V i.interp] [RegionAux R] [Sized R] [LawfulSized R] [LawfulGrowth R],
    letI := k.ops.aux; letI := slice R V
    LawfulSized (SliceRegion R k.bundle.O) ∧ LawfulGrowth (SliceRegion R k.bundle.O)
  slice_reserve : ∀ (R V : Type) [Region R V i.interp] [RegionAux R] [Sized R] [LawfulSized R] [LawfulReserve R],
    letI := k.ops.aux; letI := slice R V
    LawfulReserve (SliceRegion R k.bundle.O)
  stack : ∀ (R V : Type) [Region R V i.interp] [RegionAux R] [Sized R],
    letI := k.ops.aux; Sized (FlatStack R k.bundle.O)
  stack_laws : ∀ (R V : Type) [Region R V i.interp] [RegionAux R] [Sized R] [LawfulSized R] [LawfulGrowth R],
    letI := k.ops.aux; letI := stack R V
    LawfulSized (FlatStack R k.bundle.O) ∧ LawfulGrowth (FlatStack R k.bundle.O)

def IdxKind.sized : {i : Ty} → (k : IdxKind i) → k.IsVec → IdxSized k
  | i, .vec sz, _ =>
    { slice := fun R _ _ _ _ => inferInstanceAs (Sized (SliceRegion R (Capd (VecIdx i.interp sz))))
      slice_laws := fun R _ _ _ _ _ _ =>
        ⟨inferInstanceAs (LawfulSized (SliceRegion R (Capd (VecIdx i.interp sz)))),
         inferInstanceAs (LawfulGrowth (SliceRegion R (Capd (VecIdx i.interp sz))))⟩
      slice_reserve := fun R _ _ _ _ _ _ => inferInstanceAs (LawfulReserve (SliceRegion R (Capd (VecIdx i.interp sz))))
      stack := fun R _ _ _ _ => inferInstanceAs (Sized (FlatStack R (Capd (VecIdx i.interp sz))))
      stack_laws := fun R _ _ _ _ _ _ =>
        ⟨inferInstanceAs (LawfulSized (FlatStack R (Capd (VecIdx i.interp sz)))),
         inferInstanceAs (LawfulGrowth (FlatStack R (Capd (VecIdx i.interp sz))))⟩ }
  | _, .opt, h => h.elim
  | _, .list, h => h.elim

/-- the vector-backed structural descriptions (those with a `Sized` instance) -/
def RDesc.VecSized : {v : Ty} → {ix : Ix} → RDesc v ix → Prop
  | _, _, .mirror _ => True
  | _, _, .owned _ => True
  | _, _, .vec _ => True
  | _, _, .string d => d.VecSized
  | _, _, .option d => d.VecSized
  | _, _, .result t e => t.VecSized ∧ e.VecSized
  | _, _, .tupleNil => True
  | _, _, .tupleCons a b => a.VecSized ∧ b.VecSized
  | _, _, .collapse _ => False
  | _, _, .slice d k => d.VecSized ∧ k.IsVec
  | _, _, .consec _ _ => False
  | _, _, .columns _ _ => False
  | _, _, .codec => False
  | _, _, .huffman => False
  | _, _, .huffmanU8 => False
  | _, _, .stack d k => d.VecSized ∧ k.IsVec

instance RDesc.decVecSized : {v : Ty} → {ix : Ix} → (d : RDesc v ix) → Decidable d.VecSized
  | _, _, .mirror _ => isTrue trivial
  | _, _, .owned _ => isTrue trivial
  | _, _, .vec _ => isTrue trivial
  | _, _, .string d => d.decVecSized
  | _, _, .option d => d.decVecSized
  | _, _, .result t e => @instDecidableAnd _ _ t.decVecSized e.decVecSized
  | _, _, .tupleNil => isTrue trivial
  | _, _, .tupleCons a b => @instDecidableAnd _ _ a.decVecSized b.decVecSized
  | _, _, .collapse _ => isFalse id
  | _, _, .slice d k => @instDecidableAnd _ _ d.decVecSized k.decIsVec
  | _, _, .consec _ _ => isFalse id
  | _, _, .columns _ _ => isFalse id
  | _, _, .codec => isFalse id
  | _, _, .huffman => isFalse id
  | _, _, .huffmanU8 => isFalse id
  | _, _, .stack d k => @instDecidableAnd _ _ d.decVecSized k.decIsVec

/-- vector-backed and no `stack` anywhere (those with a `LawfulReserve` instance) -/
def RDesc.Reservable : {v : Ty} → {ix : Ix} → RDesc v ix → Prop
  | _, _, .mirror _ => True
  | _, _, .owned _ => True
  | _, _, .vec _ => True
  | _, _, .string d => d.Reservable
  | _, _, .option d => d.Reservable
  | _, _, .result t e => t.Reservable ∧ e.Reservable
  | _, _, .tupleNil => True
  | _, _, .tupleCons a b => a.Reservable ∧ b.Reservable
  | _, _, .collapse _ => False
  | _, _, .slice d k => d.Reservable ∧ k.IsVec
  | _, _, .consec _ _ => False
  | _, _, .columns _ _ => False
  | _, _, .codec => False
  | _, _, .huffman => False
  | _, _, .huffmanU8 => False
  | _, _, .stack _ _ => False

instance RDesc.decReservable : {v : Ty} → {ix : Ix} → (d : RDesc v ix) → Decidable d.Reservable
  | _, _, .mirror _ => isTrue trivial
  | _, _, .owned _ => isTrue trivial
  | _, _, .vec _ => isTrue trivial
  | _, _, .string d => d.decReservable
  | _, _, .option d => d.decReservable
  | _, _, .result t e => @instDecidableAnd _ _ t.decReservable e.decReservable
  | _, _, .tupleNil => isTrue trivial
  | _, _, .tupleCons a b => @instDecidableAnd _ _ a.decReservable b.decReservable
  | _, _, .collapse _ => isFalse id
  | _, _, .slice d k => @instDecidableAnd _ _ d.decReservable k.decIsVec
  | _, _, .consec _ _ => isFalse id
  | _, _, .columns _ _ => isFalse id
  | _, _, .codec => isFalse id
  | _, _, .huffman => isFalse id
  | _, _, .huffmanU8 => isFalse id
  | _, _, .stack _ _ => isFalse id

theorem RDesc.vecSized_of_reservable : {v : Ty} → {ix : Ix} → (d : RDesc v ix) → d.Reservable → d.VecSized
  | _, _, .mirror _, _ => trivial
  | _, _, .owned _, _ => trivial
  | _, _, .vec _, _ => trivial
  | _, _, .string d, h => d.vecSized_of_reservable h
  | _, _, .option d, h => d.vecSized_of_reservable h
  | _, _, .result t e, h => ⟨t.vecSized_of_reservable h.1, e.vecSized_of_reservable h.2⟩
  | _, _, .tupleNil, _ => trivial
  | _, _, .tupleCons a b, h => ⟨a.vecSized_of_reservable h.1, b.vecSized_of_reservable h.2⟩
  | _, _, .slice d _, h => ⟨d.vecSized_of_reservable h.1, h.2⟩

section SizedDefs
variable [σ : SizeEnv]

/-- the vectors a region consists of: their lengths, capacities, growth per pushed value -/
@[instance_reducible] def RDesc.sized : {v : Ty} → {ix : Ix} → (d : RDesc v ix) → d.VecSized → Sized d.R
  | _, _, .mirror t, _ => inferInstanceAs (Sized (MirrorRegion t.interp))
  | _, _, .owned t, _ => letI := σ.elem t; inferInstanceAs (Sized (OwnedRegion t.interp))
  | _, _, .vec t, _ => letI := σ.elem t; inferInstanceAs (Sized (VecRegion t.interp))
  | _, .any i, .string d, h =>
    letI : Region d.R (List UInt8) i.interp := d.bundle.inst
    letI : RegionAux d.R := d.aux
    letI : Sized d.R := d.sized h
    inferInstanceAs (Sized (StringRegion d.R))
  | _, .dense, .string d, h =>
    letI : Region d.R (List UInt8) (Nat × Nat) := d.bundle.inst
    letI : RegionAux d.R := d.aux
    letI : Sized d.R := d.sized h
    inferInstanceAs (Sized (StringRegion d.R))
  | _, _, .option d, h => letI := d.sized h; inferInstanceAs (Sized (OptionRegion d.R))
  | _, _, .result t e, h => letI := t.sized h.1; letI := e.sized h.2; inferInstanceAs (Sized (ResultRegion t.R e.R))
  | _, _, .tupleNil, _ => inferInstanceAs (Sized TupleNil)
  | _, _, .tupleCons a b, h => letI := a.sized h.1; letI := b.sized h.2; inferInstanceAs (Sized (TupleCons a.R b.R))
  | _, _, .slice d k, h => letI := d.sized h.1; (k.sized h.2).slice d.R _
  | _, _, .stack d k, h => letI := d.sized h.1; (k.sized h.2).stack d.R _

/-- `LawfulSized` and `LawfulGrowth` -/
structure SizedLaws {v : Ty} {ix : Ix} (d : RDesc v ix) (h : d.VecSized) : Prop where
  lawful : @LawfulSized d.R _ _ d.bundle.inst d.aux (d.sized h)
  growth : @LawfulGrowth d.R _ _ d.bundle.inst d.aux (d.sized h)

theorem RDesc.sizedLaws : {v : Ty} → {ix : Ix} → (d : RDesc v ix) → (h : d.VecSized) → SizedLaws d h
  | _, _, .mirror t, _ => ⟨inferInstanceAs (LawfulSized (MirrorRegion t.interp)), inferInstanceAs (LawfulGrowth (MirrorRegion t.interp))⟩
  | _, _, .owned t, _ =>
    letI := σ.elem t
    ⟨inferInstanceAs (LawfulSized (OwnedRegion t.interp)), inferInstanceAs (LawfulGrowth (OwnedRegion t.interp))⟩
  | _, _, .vec t, _ =>
    letI := σ.elem t
    ⟨inferInstanceAs (LawfulSized (VecRegion t.interp)), inferInstanceAs (LawfulGrowth (VecRegion t.interp))⟩
  | _, .any i, .string d, h =>
    letI : Region d.R (List UInt8) i.interp := d.bundle.inst
    letI : RegionAux d.R := d.aux
    letI : Sized d.R := d.sized h
    letI := (d.sizedLaws h).lawful; letI := (d.sizedLaws h).growth
    ⟨inferInstanceAs (LawfulSized (StringRegion d.R)), inferInstanceAs (LawfulGrowth (StringRegion d.R))⟩
  | _, .dense, .string d, h =>
    letI : Region d.R (List UInt8) (Nat × Nat) := d.bundle.inst
    letI : RegionAux d.R := d.aux
    letI : Sized d.R := d.sized h
    letI := (d.sizedLaws h).lawful; letI := (d.sizedLaws h).growth
    ⟨inferInstanceAs (LawfulSized (StringRegion d.R)), inferInstanceAs (LawfulGrowth (StringRegion d.R))⟩
  | _, _, .option d, h =>
    letI := d.sized h; letI := (d.sizedLaws h).lawful; letI := (d.sizedLaws h).growth
    ⟨inferInstanceAs (LawfulSized (OptionRegion d.R)), inferInstanceAs (LawfulGrowth (OptionRegion d.R))⟩
  | _, _, .result t e, h =>
    letI := t.sized h.1; letI := e.sized h.2
    letI := (t.sizedLaws h.1).lawful; letI := (t.sizedLaws h.1).growth
    letI := (e.sizedLaws h.2).lawful; letI := (e.sizedLaws h.2).growth
    ⟨inferInstanceAs (LawfulSized (ResultRegion t.R e.R)), inferInstanceAs (LawfulGrowth (ResultRegion t.R e.R))⟩
  | _, _, .tupleNil, _ => ⟨inferInstanceAs (LawfulSized TupleNil), inferInstanceAs (LawfulGrowth TupleNil)⟩
  | _, _, .tupleCons a b, h =>
    letI := a.sized h.1; letI := b.sized h.2
    letI := (a.sizedLaws h.1).lawful; letI := (a.sizedLaws h.1).growth
    letI := (b.sizedLaws h.2).lawful; letI := (b.sizedLaws h.2).growth
    ⟨inferInstanceAs (LawfulSized (TupleCons a.R b.R)), inferInstanceAs (LawfulGrowth (TupleCons a.R b.R))⟩
  | _, _, .slice d k, h =>
    letI := d.sized h.1; letI := (d.sizedLaws h.1).lawful; letI := (d.sizedLaws h.1).growth
    ⟨((k.sized h.2).slice_laws d.R _).1, ((k.sized h.2).slice_laws d.R _).2⟩
  | _, _, .stack d k, h =>
    letI := d.sized h.1; letI := (d.sizedLaws h.1).lawful; letI := (d.sizedLaws h.1).growth
    ⟨((k.sized h.2).stack_laws d.R _).1, ((k.sized h.2).stack_laws d.R _).2⟩

/-- **`LawfulReserve` for every reservable description** -/
theorem RDesc.lawfulReserve : {v : Ty} → {ix : Ix} → (d : RDesc v ix) → (h : d.Reservable) →
    @LawfulReserve d.R _ _ d.bundle.inst d.aux (d.sized (d.vecSized_of_reservable h))
  | _, _, .mirror t, _ => inferInstanceAs (LawfulReserve (MirrorRegion t.interp))
  | _, _, .owned t, _ => letI := σ.elem t; inferInstanceAs (LawfulReserve (OwnedRegion t.interp))
  | _, _, .vec t, _ => letI := σ.elem t; inferInstanceAs (LawfulReserve (VecRegion t.interp))
  | _, .any i, .string d, h =>
    letI : Region d.R (List UInt8) i.interp := d.bundle.inst
    letI : RegionAux d.R := d.aux
    letI : Sized d.R := d.sized (d.vecSized_of_reservable h)
    letI := (d.sizedLaws (d.vecSized_of_reservable h)).lawful; letI := d.lawfulReserve h
    inferInstanceAs (LawfulReserve (StringRegion d.R))
  | _, .dense, .string d, h =>
    letI : Region d.R (List UInt8) (Nat × Nat) := d.bundle.inst
    letI : RegionAux d.R := d.aux
    letI : Sized d.R := d.sized (d.vecSized_of_reservable h)
    letI := (d.sizedLaws (d.vecSized_of_reservable h)).lawful; letI := d.lawfulReserve h
    inferInstanceAs (LawfulReserve (StringRegion d.R))
  | _, _, .option d, h =>
    letI := d.sized (d.vecSized_of_reservable h)
    letI := (d.sizedLaws (d.vecSized_of_reservable h)).lawful; letI := d.lawfulReserve h
    inferInstanceAs (LawfulReserve (OptionRegion d.R))
  | _, _, .result t e, h =>
    letI := t.sized (t.vecSized_of_reservable h.1); letI := e.sized (e.vecSized_of_reservable h.2)
    letI := (t.sizedLaws (t.vecSized_of_reservable h.1)).lawful; letI := (e.sizedLaws (e.vecSized_of_reservable h.2)).lawful
    letI := t.lawfulReserve h.1; letI := e.lawfulReserve h.2
    inferInstanceAs (LawfulReserve (ResultRegion t.R e.R))
  | _, _, .tupleNil, _ => inferInstanceAs (LawfulReserve TupleNil)
  | _, _, .tupleCons a b, h =>
    letI := a.sized (a.vecSized_of_reservable h.1); letI := b.sized (b.vecSized_of_reservable h.2)
    letI := (a.sizedLaws (a.vecSized_of_reservable h.1)).lawful; letI := (b.sizedLaws (b.vecSized_of_reservable h.2)).lawful
    letI := a.lawfulReserve h.1; letI := b.lawfulReserve h.2
    inferInstanceAs (LawfulReserve (TupleCons a.R b.R))
  | _, _, .slice d k, h =>
    letI := d.sized (d.vecSized_of_reservable h.1)
    letI := (d.sizedLaws (d.vecSized_of_reservable h.1)).lawful; letI := d.lawfulReserve h.1
    (k.sized h.2).slice_reserve d.R _

end SizedDefs

/-! ### C17, for every vector-backed composition -/
section C17Props
variable [SizeEnv] {v : Ty} {ix : Ix}
open Sized C08

/-- the bookkeeping invariant `CInv` (the hypothesis of the theorems below) and `lens ≤ caps` hold in
every state built by the operations of the crate from empty -/
theorem C17_built_every_composition (d : RDesc v ix) (hs : d.VecSized) (r : d.R) (h : C17.Built r) :
    letI := d.sized hs
    CInv r ∧ vle (lens r) (caps r) :=
  letI := d.sized hs
  haveI := (d.sizedLaws hs).lawful
  haveI := (d.sizedLaws hs).growth
  C17.built_inv r h

/-- a batch whose total growth fits the spare capacity of every vector leaves every capacity
unchanged; capacities never shrink under pushes -/
theorem C17_fit_every_composition (d : RDesc v ix) (hs : d.VecSized) (r r' : d.R) (xs : List v.interp) :
    letI := d.sized hs
    CInv r → runPushes r xs = some r' →
      CInv r' ∧ vle (caps r) (caps r') ∧ (vle (vadd (lens r) (growAll (R := d.R) xs)) (caps r) → caps r' = caps r) :=
  letI := d.sized hs
  haveI := (d.sizedLaws hs).lawful
  fun hc h => ⟨C17.pushes_cinv r r' xs hc h, C17.pushes_caps_mono r r' xs hc h, fun hroom => C17.pushes_fit r r' xs hc hroom h⟩

/-- **C17 (merge) for every vector-backed composition**: after `merge_regions(regions)` (for a
`stack`: `FlatStack::merge_capacity`), pushing contents that need at most the announced room in every
vector changes no capacity, and `heap_size` reports the same capacities before and after -/
theorem C17_merge_every_composition (d : RDesc v ix) (hs : d.VecSized) (rs : List d.R) (xs : List v.interp) (r' : d.R) :
    letI := d.sized hs
    vle (growAll (R := d.R) xs) (lensAll rs) → runPushes (RegionAux.mergeRegions rs) xs = some r' →
      caps r' = caps (RegionAux.mergeRegions rs : d.R) ∧
      (RegionAux.heap r').map (·.2) = (RegionAux.heap (RegionAux.mergeRegions rs : d.R)).map (·.2) :=
  letI := d.sized hs
  haveI := (d.sizedLaws hs).lawful
  fun hvs h =>
    have hc := C17.no_growth_after_merge_le rs xs r' hvs h
    ⟨hc, C17.heap_caps_constant _ r' (LawfulSized.merge_cinv rs) (C17.pushes_cinv _ r' xs (LawfulSized.merge_cinv rs) h) hc⟩

/-- end to end: merge regions that were built by pushing, push all of their contents: no growth -/
theorem C17_merge_sources_every_composition (d : RDesc v ix) (hs : d.VecSized) (srcs : List (d.R × List v.interp))
    (hsrc : ∀ p ∈ srcs, runPushes (Region.default : d.R) p.2 = some p.1) (r' : d.R)
    (h : runPushes (RegionAux.mergeRegions (srcs.map (·.1))) (srcs.map (·.2)).flatten = some r') :
    letI := d.sized hs
    caps r' = caps (RegionAux.mergeRegions (srcs.map (·.1)) : d.R) :=
  letI := d.sized hs
  haveI := (d.sizedLaws hs).lawful
  C17.no_growth_merge_sources srcs hsrc r' h

/-- **C17 (reserve) for every reservable composition**: after `reserve_items(items)`, pushing exactly
`items`, and after `reserve_regions(regions)`, pushing contents that need at most the announced room,
changes no capacity — `r` empty or populated — and `heap_size` reports the same capacities -/
theorem C17_reserve_every_composition (d : RDesc v ix) (hr : d.Reservable) (r r' : d.R) :
    letI := d.sized (d.vecSized_of_reservable hr)
    CInv r →
      (∀ xs : List v.interp, runPushes (RegionAux.reserveItems r xs) xs = some r' →
        caps r' = caps (RegionAux.reserveItems r xs) ∧
        (RegionAux.heap r').map (·.2) = (RegionAux.heap (RegionAux.reserveItems r xs)).map (·.2)) ∧
      (∀ (rs : List d.R) (xs : List v.interp), vle (growAll (R := d.R) xs) (lensAll rs) →
        runPushes (RegionAux.reserveRegions r rs) xs = some r' →
        caps r' = caps (RegionAux.reserveRegions r rs) ∧
        (RegionAux.heap r').map (·.2) = (RegionAux.heap (RegionAux.reserveRegions r rs)).map (·.2)) :=
  letI := d.sized (d.vecSized_of_reservable hr)
  haveI := (d.sizedLaws (d.vecSized_of_reservable hr)).lawful
  haveI := d.lawfulReserve hr
  fun hc =>
    ⟨fun xs h => ⟨C17.no_growth_after_reserve_items r r' xs hc h, C17.heap_constant_after_reserve_items r r' xs hc h⟩,
     fun rs xs hvs h =>
      have hcap := C17.no_growth_after_reserve_regions_le r r' rs xs hc hvs h
      ⟨hcap, C17.heap_caps_constant _ r' (LawfulSized.reserveRegions_cinv r rs hc)
        (C17.pushes_cinv _ r' xs (LawfulSized.reserveRegions_cinv r rs hc) h) hcap⟩⟩

/-- `clear` keeps every allocation: refilling a cleared region with no more than it held changes no
capacity -/
theorem C17_clear_every_composition (d : RDesc v ix) (hs : d.VecSized) (r r' : d.R) (xs : List v.interp) :
    letI := d.sized hs
    CInv r → vle (lens r) (caps r) → vle (growAll (R := d.R) xs) (lens r) → runPushes (clear r) xs = some r' →
      caps r' = caps r :=
  letI := d.sized hs
  haveI := (d.sizedLaws hs).lawful
  haveI := (d.sizedLaws hs).growth
  fun hc hw hvs h => C17.no_growth_after_clear r r' xs hc hw hvs h

/-- **C17 without pre-sizing, for every vector-backed composition**: along any batch of pushes the
`j`-th capacity changes at most `log2 (its final value) + 1` times, and every change at least
doubles it -/
theorem C17_log_growth_every_composition (d : RDesc v ix) (hs : d.VecSized) (r r' : d.R) (xs : List v.interp) (j : Nat) :
    letI := d.sized hs
    CInv r →
      (runPushes r xs = some r' →
        changes ((caps r).getD j 0) ((capsTrace r xs).map (·.getD j 0)) ≤ Nat.log2 ((caps r').getD j 0) + 1) ∧
      (∀ (x : v.interp) (i : ix.ty.interp), push r x = some (r', i) → (caps r').getD j 0 ≠ (caps r).getD j 0 →
        2 * (caps r).getD j 0 ≤ (caps r').getD j 0) :=
  letI := d.sized hs
  haveI := (d.sizedLaws hs).lawful
  haveI := (d.sizedLaws hs).growth
  fun hc => ⟨fun h => C17.log_growth r r' xs hc h j, fun x i hp hne => C17.push_doubles r r' x i hc hp j hne⟩

end C17Props

/-! ### non-vacuity and agreement with instance resolution -/
section Examples
open Sized C08

/-- a `FlatStack` of slices of strings over `Vec` index containers -/
abbrev exVecStack : RDesc (.list .bytes) (.any .nat) := .stack (.slice str pairIdx) pairIdx
/-- a five-deep slice -/
abbrev exDeepSlice : RDesc (.list (.list (.list (.list (.list .nat))))) .dense :=
  .slice (.slice (.slice (.slice (.slice (.mirror .nat) (.vec 1)) pairIdx) pairIdx) pairIdx) pairIdx

-- C18: every description; the refinements on their sub-universes
example : exColumns.NoCodec ∧ ¬ exColumns.NoColumns := by decide
example : exStack.NoCodec ∧ exStack.NoColumns := by decide
example : exTuple.NoCodec ∧ exTuple.NoColumns := by decide
example : exSlice.NoCodec ∧ exSlice.NoColumns := by decide
example : exResult.NoCodec ∧ exResult.NoColumns := by decide
example : ¬ exCodec.NoCodec ∧ exCodec.NoColumns := by decide
example : exHuff.NoCodec ∧ exHuff.NoColumns := by decide
-- C17: the vector-backed ones
example : exTuple.VecSized ∧ exTuple.Reservable := by decide
example : exSlice.VecSized ∧ exSlice.Reservable := by decide
example : exDeepSlice.VecSized ∧ exDeepSlice.Reservable := by decide
example : exOddSize.VecSized ∧ exOddSize.Reservable := by decide
example : exResult.VecSized ∧ ¬ exResult.Reservable := by decide
example : exVecStack.VecSized ∧ ¬ exVecStack.Reservable := by decide
example : (RDesc.option (.option (.vec .bytes))).VecSized ∧ (RDesc.option (.option (.vec .bytes))).Reservable := by decide
example : ¬ exColumns.VecSized := by decide
example : ¬ exStack.VecSized := by decide   -- a consec region inside, and `IndexOptimized` offsets
example : ¬ exCollapse.VecSized := by decide
example : ¬ (RDesc.slice (.mirror .nat) .opt).VecSized := by decide
example : ¬ exCodec.VecSized := by decide

-- the extensions are over the same type `d.R`
example {v : Ty} {ix : Ix} (d : RDesc v ix) [SizeEnv] : @HeapInv d.bundle.R _ _ d.bundle.inst d.aux := d.heapInv
example {v : Ty} {ix : Ix} (d : RDesc v ix) [SizeEnv] (h : d.VecSized) : @Sized d.bundle.R _ _ d.bundle.inst d.aux := d.sized h

section Std
attribute [local instance] SizeEnv.std

-- with the standard sizes the instances are the ones instance resolution finds
example : exColumns.heapInv = (inferInstance : HeapInv (ColumnsRegion (CollapseSequence (ConsecPairs
    (StringRegion (OwnedRegion UInt8)) (Capd IndexOptimized)) Nat) Nat (Capd IndexOptimized))) := rfl
example : exColumns.stored = (inferInstance : Stored (ColumnsRegion (CollapseSequence (ConsecPairs
    (StringRegion (OwnedRegion UInt8)) (Capd IndexOptimized)) Nat) Nat (Capd IndexOptimized))) := rfl
example : exStack.heapInv = (inferInstance : HeapInv (FlatStack (ConsecPairs (OwnedRegion UInt8) (Capd IndexList))
    (Capd IndexOptimized))) := rfl
example : exStack.stored = (inferInstance : Stored (FlatStack (ConsecPairs (OwnedRegion UInt8) (Capd IndexList))
    (Capd IndexOptimized))) := rfl
example : exTuple.heapInv = (inferInstance : HeapInv (TupleCons (OptionRegion (StringRegion (OwnedRegion UInt8)))
    (TupleCons (ResultRegion (OwnedRegion Nat) (MirrorRegion Nat)) TupleNil))) := rfl
example : exTuple.stored = (inferInstance : Stored (TupleCons (OptionRegion (StringRegion (OwnedRegion UInt8)))
    (TupleCons (ResultRegion (OwnedRegion Nat) (MirrorRegion Nat)) TupleNil))) := rfl
example : exSlice.heapInv = (inferInstance : HeapInv (SliceRegion (SliceRegion (StringRegion (OwnedRegion UInt8))
    (Capd (VecIdx (Nat × Nat) 16))) (Capd (VecIdx (Nat × Nat) 16)))) := rfl
example : exResult.stored = (inferInstance : Stored (FlatStack (ResultRegion (SliceRegion (MirrorRegion Nat)
    (Capd (VecIdx Nat 1))) (StringRegion (OwnedRegion UInt8))) (Capd (VecIdx (Except (Nat × Nat) (Nat × Nat)) 24)))) := rfl
example : exCodec.heapInv = (inferInstance : HeapInv (FlatStack (ConsecPairs Codec.Region (Capd IndexOptimized))
    (Capd IndexList))) := rfl
example : exHuff.stored = (inferInstance : Stored (SliceRegion HuffU8 (Capd (VecIdx (Nat × Nat) 16)))) := rfl
example : exTuple.sized (by decide) = (inferInstance : Sized (TupleCons (OptionRegion (StringRegion (OwnedRegion UInt8)))
    (TupleCons (ResultRegion (OwnedRegion Nat) (MirrorRegion Nat)) TupleNil))) := rfl
example : exSlice.sized (by decide) = (inferInstance : Sized (SliceRegion (SliceRegion (StringRegion (OwnedRegion UInt8))
    (Capd (VecIdx (Nat × Nat) 16))) (Capd (VecIdx (Nat × Nat) 16)))) := rfl
example : exResult.sized (by decide) = (inferInstance : Sized (FlatStack (ResultRegion (SliceRegion (MirrorRegion Nat)
    (Capd (VecIdx Nat 1))) (StringRegion (OwnedRegion UInt8))) (Capd (VecIdx (Except (Nat × Nat) (Nat × Nat)) 24)))) := rfl
example : exVecStack.sized (by decide) = (inferInstance : Sized (FlatStack (SliceRegion (StringRegion (OwnedRegion UInt8))
    (Capd (VecIdx (Nat × Nat) 16))) (Capd (VecIdx (Nat × Nat) 16)))) := rfl
example : exDeepSlice.sized (by decide) = (inferInstance : Sized (SliceRegion (SliceRegion (SliceRegion (SliceRegion
    (SliceRegion (MirrorRegion Nat) (Capd (VecIdx Nat 1))) (Capd (VecIdx (Nat × Nat) 16))) (Capd (VecIdx (Nat × Nat) 16)))
    (Capd (VecIdx (Nat × Nat) 16))) (Capd (VecIdx (Nat × Nat) 16)))) := rfl

/-- states reached by pushes are `Reach`able and `Built` -/
theorem reach_of_reachable_pushes {R V I : Type} [Region R V I] [RegionAux R] (r : R) (xs : List V)
    (h : runPushes (Region.default : R) xs = some r) : Reach r :=
  C18.reach_pushes _ r xs Reach.default h

theorem built_of_pushes {R V I : Type} [Region R V I] [RegionAux R] (r0 r : R) (xs : List V) (h0 : C17.Built r0)
    (h : runPushes r0 xs = some r) : C17.Built r := by
  induction xs generalizing r0 with
  | nil => simp only [runPushes, Option.some.injEq] at h; subst h; exact h0
  | cons x xs ih =>
    simp only [runPushes] at h
    cases hp : push r0 x with
    | none => simp [hp] at h
    | some p =>
      obtain ⟨r1, i⟩ := p
      simp only [hp] at h
      exact ih r1 (C17.Built.push r0 r1 x i h0 hp) h

/-- C18 at a populated state of the deep nesting: the report, before and after `clear`; the
theorems apply -/
example : (runPushes (Region.default : exColumns.R) [[[104, 105], []], [[1, 2, 3]], [[1, 2, 3], [1], [1]]]).map
      (fun r => (RegionAux.heap r, RegionAux.heap (clear r), Stored.stored r, totalUsed r))
    = some ([(384, 384), (4, 4), (0, 0), (5, 5), (4, 4), (0, 0), (1, 1), (0, 0), (0, 0), (1, 1), (8, 8), (0, 0), (48, 64)],
            [(384, 384), (0, 4), (0, 0), (0, 5), (0, 4), (0, 0), (0, 1), (0, 0), (0, 0), (0, 1), (0, 8), (0, 0), (0, 64)],
            455, 455) := by decide
example (r : exColumns.R) (h : runPushes (Region.default : exColumns.R) [[[104, 105], []], [[1, 2, 3]], [[1, 2, 3], [1], [1]]] = some r) :
    (∀ p ∈ RegionAux.heap r, p.1 ≤ p.2) ∧ Stored.stored r ≤ totalUsed r ∧ (capsOf r).sum ≤ (capsOf (clear r)).sum :=
  have hr := reach_of_reachable_pushes r _ h
  ⟨(C18_every_composition exColumns r hr).2.1, (C18_every_composition exColumns r hr).2.2.2.2.2,
   (C18_clear_caps_every_composition exColumns (by decide) r hr).2.2⟩
example (r : exStack.R) (h : runPushes (Region.default : exStack.R) [[1, 2], [], [3]] = some r) :
    (∀ p ∈ RegionAux.heap r, p.1 ≤ p.2) ∧ totalUsed (clear r) = totalUsed (Region.default : exStack.R) :=
  have hr := reach_of_reachable_pushes r _ h
  ⟨(C18_every_composition exStack r hr).2.1, C18_clear_default_every_composition exStack (by decide) r hr⟩
example : (runPushes (Region.default : exStack.R) [[1, 2], [], [3]]).map (fun r => (RegionAux.heap r, Stored.stored r)) =
    some ([(16, 16), (0, 0), (3, 4), (0, 0), (0, 0)], 19) := by decide
example (r : exTuple.R) (h : runPushes (Region.default : exTuple.R) [(some [1, 2], (.ok [5, 6], ())), (none, (.error 7, ()))] = some r) :
    (∀ p ∈ RegionAux.heap r, p.1 ≤ p.2) ∧ totalUsed (clear r) = totalUsed (Region.default : exTuple.R) ∧
      (capsOf r).sum ≤ (capsOf (clear r)).sum :=
  have hr := reach_of_reachable_pushes r _ h
  ⟨(C18_every_composition exTuple r hr).2.1, C18_clear_default_every_composition exTuple (by decide) r hr,
   (C18_clear_caps_every_composition exTuple (by decide) r hr).2.2⟩
example : (runPushes (Region.default : exTuple.R) [(some [1, 2], (.ok [5, 6], ())), (none, (.error 7, ()))]).map
    (fun r => (RegionAux.heap r, Stored.stored r)) = some ([(2, 2), (16, 16)], 18) := by decide
example (r : exSlice.R) (h : runPushes (Region.default : exSlice.R) [[[[1], [2, 3]]], [[], [[7]]]] = some r) :
    (∀ p ∈ RegionAux.heap r, p.1 ≤ p.2) ∧ Stored.stored r ≤ totalUsed r :=
  have hr := reach_of_reachable_pushes r _ h
  ⟨(C18_every_composition exSlice r hr).2.1, (C18_every_composition exSlice r hr).2.2.2.2.2⟩
example (r : exResult.R) (h : runPushes (Region.default : exResult.R) [.ok [1, 2, 3], .error [9]] = some r) :
    (∀ p ∈ RegionAux.heap r, p.1 ≤ p.2) ∧ totalUsed (clear r) = totalUsed (Region.default : exResult.R) :=
  have hr := reach_of_reachable_pushes r _ h
  ⟨(C18_every_composition exResult r hr).2.1, C18_clear_default_every_composition exResult (by decide) r hr⟩
/-- coded compositions: sound and monotone (C18), `clear` accounts as `default` -/
example (r : exCodec.R) (hr : Reach r) : (∀ p ∈ RegionAux.heap r, p.1 ≤ p.2) ∧
    totalUsed (clear r) = totalUsed (Region.default : exCodec.R) :=
  ⟨(C18_every_composition exCodec r hr).2.1, C18_clear_default_every_composition exCodec (by decide) r hr⟩
example (r : exHuff.R) (hr : Reach r) : (capsOf r).sum ≤ (capsOf (clear r)).sum :=
  (C18_clear_caps_every_composition exHuff (by decide) r hr).2.2

/-- C17 at a populated slice of slices of strings: reserve for a batch, push it, no capacity moves -/
def exBatch : List (List (List (List UInt8))) := [[[[100, 101], []]], [], [[[102]], []]]
example : ∃ r r' : exSlice.R, runPushes (Region.default : exSlice.R) [[[[97], [98, 99]]]] = some r ∧
    runPushes (RegionAux.reserveItems r exBatch) exBatch = some r' ∧
    (letI := exSlice.sized (by decide); lens r = [1, 2, 3] ∧ lens r' = [4, 5, 6] ∧
      caps (RegionAux.reserveItems r exBatch) = [4, 5, 6] ∧ caps r' = [4, 5, 6]) :=
  ⟨_, _, rfl, rfl, by decide⟩
example (r r' : exSlice.R) (h0 : runPushes (Region.default : exSlice.R) [[[[97], [98, 99]]]] = some r)
    (h : runPushes (RegionAux.reserveItems r exBatch) exBatch = some r') :
    letI := exSlice.sized (by decide)
    caps r' = caps (RegionAux.reserveItems r exBatch) :=
  have hb := built_of_pushes _ r _ C17.Built.default h0
  ((C17_reserve_every_composition exSlice (by decide) r r' (C17_built_every_composition exSlice (by decide) r hb).1).1 exBatch h).1
/-- a tuple of option / result: merge two built sources, absorb their contents -/
example (a b r' : exTuple.R) (ha : runPushes (Region.default : exTuple.R) [(some [1, 2], (.ok [5, 6], ()))] = some a)
    (hb : runPushes (Region.default : exTuple.R) [(none, (.error 7, ())), (some [3], (.ok [], ()))] = some b)
    (h : runPushes (RegionAux.mergeRegions [a, b]) [(some [1, 2], (.ok [5, 6], ())), (none, (.error 7, ())), (some [3], (.ok [], ()))] = some r') :
    letI := exTuple.sized (by decide)
    caps r' = caps (RegionAux.mergeRegions [a, b] : exTuple.R) :=
  C17_merge_sources_every_composition exTuple (by decide)
    [(a, [(some [1, 2], (.ok [5, 6], ()))]), (b, [(none, (.error 7, ())), (some [3], (.ok [], ()))])]
    (by intro p hp; simp only [List.mem_cons, List.not_mem_nil, or_false] at hp; rcases hp with rfl | rfl <;> assumption) r' h
example : ∃ a b r' : exTuple.R, runPushes (Region.default : exTuple.R) [(some [1, 2], (.ok [5, 6], ()))] = some a ∧
    runPushes (Region.default : exTuple.R) [(none, (.error 7, ())), (some [3], (.ok [], ()))] = some b ∧
    runPushes (RegionAux.mergeRegions [a, b]) [(some [1, 2], (.ok [5, 6], ())), (none, (.error 7, ())), (some [3], (.ok [], ()))] = some r' ∧
    (letI := exTuple.sized (by decide); caps (RegionAux.mergeRegions [a, b] : exTuple.R) = [3, 2] ∧ caps r' = [3, 2]) :=
  ⟨_, _, _, rfl, rfl, rfl, by decide⟩
/-- a `FlatStack`: `merge_capacity` sizes the index vector too; growth without pre-sizing is logarithmic -/
example (r r' : exVecStack.R) (xs : List (List (List UInt8))) (j : Nat) (hb : C17.Built r) (h : runPushes r xs = some r') :
    letI := exVecStack.sized (by decide)
    changes ((caps r).getD j 0) ((capsTrace r xs).map (·.getD j 0)) ≤ Nat.log2 ((caps r').getD j 0) + 1 :=
  ((C17_log_growth_every_composition exVecStack (by decide) r r' xs j) (C17_built_every_composition exVecStack (by decide) r hb).1).1 h
example : ∃ s r' : exVecStack.R, runPushes (Region.default : exVecStack.R) [[[1], [2, 3]], []] = some s ∧
    runPushes (RegionAux.mergeRegions [s, s]) [[[1], [2, 3]], [], [[1], [2, 3]], []] = some r' ∧
    (letI := exVecStack.sized (by decide); caps (RegionAux.mergeRegions [s, s] : exVecStack.R) = [4, 6, 4] ∧ caps r' = [4, 6, 4]) :=
  ⟨_, _, rfl, rfl, by decide⟩
example (r r' : exResult.R) (xs : List (Except (List UInt8) (List Nat))) (hb : C17.Built r)
    (hfit : letI := exResult.sized (by decide); vle (growAll (R := exResult.R) xs) (lens r))
    (h : runPushes (clear r) xs = some r') :
    letI := exResult.sized (by decide)
    caps r' = caps r :=
  have hi := C17_built_every_composition exResult (by decide) r hb
  C17_clear_every_composition exResult (by decide) r r' xs hi.1 hi.2 hfit h
example (r r' : exDeepSlice.R) (hb : C17.Built r) (xs : List (List (List (List (List (List Nat))))))
    (h : runPushes (RegionAux.reserveItems r xs) xs = some r') :
    letI := exDeepSlice.sized (by decide)
    caps r' = caps (RegionAux.reserveItems r xs) :=
  ((C17_reserve_every_composition exDeepSlice (by decide) r r' (C17_built_every_composition exDeepSlice (by decide) r hb).1).1 xs h).1
example (r r' : exOddSize.R) (hb : C17.Built r) (xs : List (List (List (Option F64))))
    (h : runPushes (RegionAux.reserveItems r xs) xs = some r') :
    letI := exOddSize.sized (by decide)
    caps r' = caps (RegionAux.reserveItems r xs) :=
  ((C17_reserve_every_composition exOddSize (by decide) r r' (C17_built_every_composition exOddSize (by decide) r hb).1).1 xs h).1

end Std
end Examples

end FC.Universe
