import FlatModel.Props.C01
import FlatModel.Model.Coded
import FlatModel.Generated.SourceFacts
/-! C04: string regions only ever hand out valid UTF-8 equal to a pushed string. -/
namespace FC
open Region

section
variable {R V I : Type} [Region R V I] [LawfulRegion R]

/-- run a history and remember, for every push since the last clear, the returned index and the
pushed value -/
def runIssued (r : R) (issued : List (I × V)) : List (Op V) → Option (R × List (I × V))
  | [] => some (r, issued)
  | .push v :: ops =>
    match push r v with
    | none => none
    | some (r', i) => runIssued r' (issued ++ [(i, v)]) ops
  | .clear :: ops => runIssued (clear r) [] ops

/-- **C01 + C02 over whole histories**: at the end of any history, every index returned by a push
since the last clear reads back (something `same` as) the value that push was given. -/
theorem issued_reads (r r' : R) (issued issued' : List (I × V)) (ops : List (Op V)) (hi : Inv r)
    (hiss : ∀ p ∈ issued, Valid r p.1 ∧ ∃ v', index r p.1 = some v' ∧ same (R := R) v' p.2)
    (h : runIssued r issued ops = some (r', issued')) :
    Inv r' ∧ ∀ p ∈ issued', Valid r' p.1 ∧ ∃ v', index r' p.1 = some v' ∧ same (R := R) v' p.2 := by
  induction ops generalizing r issued with
  | nil =>
    simp only [runIssued, Option.some.injEq, Prod.mk.injEq] at h
    obtain ⟨rfl, rfl⟩ := h
    exact ⟨hi, hiss⟩
  | cons op ops ih =>
    cases op with
    | push v =>
      simp only [runIssued] at h
      cases hp : push r v with
      | none => simp [hp] at h
      | some q =>
        obtain ⟨r1, i⟩ := q
        simp only [hp] at h
        obtain ⟨hi1, hvi⟩ := LawfulRegion.push_inv r r1 v i hi hp
        refine ih r1 (issued ++ [(i, v)]) hi1 ?_ h
        intro p hp'
        simp only [List.mem_append, List.mem_singleton] at hp'
        rcases hp' with hp' | rfl
        · obtain ⟨hv, v', hr, hs⟩ := hiss p hp'
          obtain ⟨f1, f2⟩ := LawfulRegion.frame r r1 v i p.1 hi hv hp
          exact ⟨f1, v', by rw [f2]; exact hr, hs⟩
        · -- the value just pushed: accepted (it was not refused), so it reads back
          have ha : Accepts r v := by
            apply Classical.byContradiction
            intro hna
            have := LawfulRegion.push_refuses r v hi hna
            rw [this] at hp; cases hp
          obtain ⟨r2, i2, hp2, v', hr, hs⟩ := LawfulRegion.push_ok r v hi ha
          rw [hp] at hp2
          simp only [Option.some.injEq, Prod.mk.injEq] at hp2
          obtain ⟨rfl, rfl⟩ := hp2
          exact ⟨hvi, v', hr, hs⟩
    | clear =>
      simp only [runIssued] at h
      exact ih (clear r) [] (LawfulRegion.clear_inv r hi) (by intro p hp; cases hp) h
end

namespace C04
section
variable {R I : Type} [Region R (List UInt8) I] [LawfulRegion R]

/-- **C04**: after any history on a string region over a byte region whose `same` is equality, every
issued index reads exactly the bytes of the string that was pushed there — hence any predicate
that holds of all pushed byte strings (validity as UTF-8 in particular) holds of all strings read. -/
theorem string_reads_pushed (hsame : ∀ a b : List UInt8, same (R := R) a b → a = b)
    (P : List UInt8 → Prop) (ops : List (Op (List UInt8))) (r' : StringRegion R) (issued' : List (I × List UInt8))
    (hP : ∀ op ∈ ops, ∀ v, op = Op.push v → P v)
    (h : runIssued (Region.default : StringRegion R) [] ops = some (r', issued')) :
    ∀ p ∈ issued', ∃ bs, index r' p.1 = some bs ∧ bs = p.2 ∧ P bs := by
  have key : ∀ (ops : List (Op (List UInt8))) (r : StringRegion R) (iss : List (I × List UInt8)),
      (∀ p ∈ iss, P p.2) → (∀ op ∈ ops, ∀ v, op = Op.push v → P v) →
      ∀ r' iss', runIssued r iss ops = some (r', iss') → ∀ p ∈ iss', P p.2 := by
    intro ops
    induction ops with
    | nil =>
      intro r iss h1 _ r' iss' h
      simp only [runIssued, Option.some.injEq, Prod.mk.injEq] at h
      obtain ⟨_, rfl⟩ := h; exact h1
    | cons op ops ih =>
      intro r iss h1 h2 r' iss' h
      cases op with
      | push v =>
        simp only [runIssued] at h
        cases hp : push r v with
        | none => simp [hp] at h
        | some q =>
          simp only [hp] at h
          refine ih q.1 (iss ++ [(q.2, v)]) ?_ (fun op ho => h2 op (List.mem_cons_of_mem _ ho)) r' iss' h
          intro p hp'
          simp only [List.mem_append, List.mem_singleton] at hp'
          rcases hp' with hp' | rfl
          · exact h1 p hp'
          · exact h2 (Op.push v) (List.mem_cons_self ..) v rfl
      | clear =>
        simp only [runIssued] at h
        exact ih (clear r) [] (by intro p hp; cases hp) (fun op ho => h2 op (List.mem_cons_of_mem _ ho)) r' iss' h
  obtain ⟨_, hall⟩ := issued_reads (Region.default : StringRegion R) r' [] issued' ops LawfulRegion.inv_default
    (by intro p hp; cases hp) h
  intro p hp
  obtain ⟨_, v', hr, hs⟩ := hall p hp
  have : v' = p.2 := hsame v' p.2 hs
  exact ⟨v', hr, this, this ▸ key ops _ [] (by intro p hp; cases hp) hP r' issued' h p hp⟩
end

open FC.Generated

/-- the crate's single unchecked UTF-8 conversion is `<StringRegion as Region>::index` -/
theorem single_unsafe : unsafeSites = [(.implsString, .regionIndex)] := by decide

/-- every write path into a string region takes a string type and forwards it as a string
(`as_str`, `as_bytes` of a `&str`, or a deref of `&&str`) -/
theorem string_write_paths_are_utf8 :
    ∀ p ∈ stringPushImpls, p.1 ∈ [InTy.string, .refString, .str, .refStr] ∧ p.2 ∈ [Body.asStr, .asBytes, .deref] := by
  decide

/-- the byte storage is not reachable from outside: the field is private and the only mutating
methods are the trait methods (none of which writes bytes other than through `push`) -/
theorem storage_is_private :
    stringInnerPrivate = true ∧ ∀ m ∈ stringMutators, m ∈ [Mutator.push, .reserveItems, .reserveRegions, .clear, .cloneFrom] := by
  decide

end C04
end FC

namespace FC
open Region

/-- regions whose `same` relation (Rust `==` between a read item and a pushed value) is equality of
byte strings: every catalogued byte region under a `StringRegion` -/
class SameIsEq (R : Type) {I : outParam Type} [Region R (List UInt8) I] : Prop where
  eq_of_same : ∀ a b : List UInt8, same (R := R) a b → a = b

instance : SameIsEq (OwnedRegion UInt8) := ⟨fun _ _ h => h⟩
instance : SameIsEq Codec.Region := ⟨fun _ _ h => h⟩
instance : SameIsEq HuffU8 := ⟨fun _ _ h => h⟩
instance {R I : Type} [Region R (List UInt8) I] [SameIsEq R] : SameIsEq (StringRegion R) :=
  ⟨fun a b h => SameIsEq.eq_of_same (R := R) a b h⟩
instance {R O : Type} [Region R (List UInt8) (Nat × Nat)] [DenseRegion R] [IdxCont O Nat] [SameIsEq R] :
    SameIsEq (ConsecPairs R O) :=
  ⟨fun a b h => SameIsEq.eq_of_same (R := R) a b h⟩
instance {R I : Type} [Region R (List UInt8) I] [SameIsEq R] : SameIsEq (CollapseSequence R I) :=
  ⟨fun a b h => by
    rcases h with h | h
    · exact SameIsEq.eq_of_same (R := R) a b h
    · exact ((LawfulEqv.eqv_iff b a).mp h).symm⟩

namespace C04
/-- **C04** for every catalogued string composition: no hypothesis on `same` left -/
theorem string_reads_pushed' {R I : Type} [Region R (List UInt8) I] [LawfulRegion R] [SameIsEq R]
    (P : List UInt8 → Prop) (ops : List (Op (List UInt8))) (r' : StringRegion R) (issued' : List (I × List UInt8))
    (hP : ∀ op ∈ ops, ∀ v, op = Op.push v → P v)
    (h : runIssued (Region.default : StringRegion R) [] ops = some (r', issued')) :
    ∀ p ∈ issued', ∃ bs, index r' p.1 = some bs ∧ bs = p.2 ∧ P bs :=
  string_reads_pushed (SameIsEq.eq_of_same (R := R)) P ops r' issued' hP h

example : SameIsEq (StringRegion (ConsecPairs (OwnedRegion UInt8) (Capd IndexOptimized))) := inferInstance
example : SameIsEq (StringRegion (CollapseSequence (OwnedRegion UInt8) (Nat × Nat))) := inferInstance
example : SameIsEq (CollapseSequence (ConsecPairs (StringRegion (OwnedRegion UInt8)) (Capd IndexOptimized)) Nat) := inferInstance
end C04
end FC
