import FlatModel.Props.Catalogue
/-! C01 (round trip), C02 (append-only), C08 (clear is fresh): the history-level statements. -/
namespace FC
open Region

section
variable {R V I : Type} [Region R V I] [LawfulRegion R]

/-- operations of a history -/
inductive Op (V : Type) where
  | push (v : V)
  | clear

/-- run a history; `none` when a push is refused (the instance is poisoned) -/
def run (r : R) : List (Op V) → Option R
  | [] => some r
  | .push v :: ops => match push r v with | none => none | some (r', _) => run r' ops
  | .clear :: ops => run (clear r) ops

/-- states produced from `default` by successful operations -/
def Reachable (r : R) : Prop := ∃ ops : List (Op V), run (default : R) ops = some r

theorem run_inv (r r' : R) (ops : List (Op V)) (hi : Inv r) (h : run r ops = some r') : Inv r' := by
  induction ops generalizing r with
  | nil => simp only [run, Option.some.injEq] at h; subst h; exact hi
  | cons op ops ih =>
    cases op with
    | push v =>
      simp only [run] at h
      cases hp : push r v with
      | none => simp [hp] at h
      | some p =>
        obtain ⟨r1, i⟩ := p
        simp only [hp] at h
        exact ih r1 (LawfulRegion.push_inv r r1 v i hi hp).1 h
    | clear => exact ih (clear r) (LawfulRegion.clear_inv r hi) h

theorem reachable_inv (r : R) (h : Reachable r) : Inv r := by
  obtain ⟨ops, h⟩ := h
  exact run_inv (Region.default : R) r ops LawfulRegion.inv_default h

namespace C01
/-- **C01**: in every reachable state of every lawful region (every composition), an accepted
push succeeds and the returned index reads back the pushed value. -/
theorem roundtrip (r : R) (hr : Reachable r) (v : V) (ha : Accepts r v) :
    ∃ r' i, push r v = some (r', i) ∧ ∃ v', index r' i = some v' ∧ same (R := R) v' v :=
  LawfulRegion.push_ok r v (reachable_inv r hr) ha

/-- what is not accepted is refused, never stored as something else -/
theorem refused (r : R) (hr : Reachable r) (v : V) (hna : ¬ Accepts r v) : push r v = none :=
  LawfulRegion.push_refuses r v (reachable_inv r hr) hna
end C01

namespace C02
def noClear : List (Op V) → Prop
  | [] => True
  | .push _ :: ops => noClear ops
  | .clear :: _ => False

/-- **C02**: an issued (valid) index keeps reading the same item through any history of pushes. -/
theorem frame_history (r r' : R) (ops : List (Op V)) (j : I) (hi : Inv r) (hv : Valid r j)
    (hnc : noClear ops) (h : run r ops = some r') : Valid r' j ∧ index r' j = index r j := by
  induction ops generalizing r with
  | nil => simp only [run, Option.some.injEq] at h; subst h; exact ⟨hv, rfl⟩
  | cons op ops ih =>
    cases op with
    | push v =>
      simp only [run] at h
      cases hp : push r v with
      | none => simp [hp] at h
      | some p =>
        obtain ⟨r1, i⟩ := p
        simp only [hp] at h
        obtain ⟨f1, f2⟩ := LawfulRegion.frame r r1 v i j hi hv hp
        obtain ⟨g1, g2⟩ := ih r1 (LawfulRegion.push_inv r r1 v i hi hp).1 f1 hnc h
        exact ⟨g1, g2.trans f2⟩
    | clear => exact absurd hnc (by simp [noClear])

/-- every index a push returns is valid, hence covered by `frame_history` -/
theorem issued_valid (r r' : R) (v : V) (i : I) (hi : Inv r) (hp : push r v = some (r', i)) : Valid r' i :=
  (LawfulRegion.push_inv r r' v i hi hp).2
end C02

namespace C08
/-- indices returned by a sequence of pushes; stops at a refusal -/
def trace (r : R) : List V → List I
  | [] => []
  | v :: vs => match push r v with | none => [] | some (r', i) => i :: trace r' vs

def runPushes (r : R) : List V → Option R
  | [] => some r
  | v :: vs => match push r v with | none => none | some (r', _) => runPushes r' vs

/-- observationally equivalent states answer every sequence of pushes identically -/
theorem sim_pushes (a b : R) (vs : List V) (hs : Sim a b) (ha : Inv a) (hb : Inv b) :
    trace a vs = trace b vs ∧
    ((runPushes a vs = none ∧ runPushes b vs = none) ∨
      ∃ a' b', runPushes a vs = some a' ∧ runPushes b vs = some b' ∧ Sim a' b' ∧ Inv a' ∧ Inv b') := by
  induction vs generalizing a b with
  | nil => exact ⟨rfl, Or.inr ⟨a, b, rfl, rfl, hs, ha, hb⟩⟩
  | cons v vs ih =>
    rcases LawfulRegion.sim_push a b v hs ha hb with ⟨h1, h2⟩ | ⟨a1, b1, i, h1, h2, h3⟩
    · exact ⟨by simp [trace, h1, h2], Or.inl ⟨by simp [runPushes, h1], by simp [runPushes, h2]⟩⟩
    · obtain ⟨ia, _⟩ := LawfulRegion.push_inv a a1 v i ha h1
      obtain ⟨ib, _⟩ := LawfulRegion.push_inv b b1 v i hb h2
      obtain ⟨t, rest⟩ := ih a1 b1 h3 ia ib
      refine ⟨by simp [trace, h1, h2, t], ?_⟩
      simpa [runPushes, h1, h2] using rest

/-- **C08**: after `clear`, any sequence of pushes returns the same indices as on `default`, ends
in equivalent states, and (by `sim_index`) those read the same at every valid index. -/
theorem after_clear (r : R) (hr : Reachable r) (vs : List V) :
    trace (clear r) vs = trace (default : R) vs ∧
    ((runPushes (clear r) vs = none ∧ runPushes (default : R) vs = none) ∨
      ∃ a' b', runPushes (clear r) vs = some a' ∧ runPushes (default : R) vs = some b' ∧
        ∀ i, (Valid a' i ↔ Valid b' i) ∧ (Valid a' i → index a' i = index b' i)) := by
  have hi := reachable_inv r hr
  obtain ⟨t, rest⟩ := sim_pushes (clear r) (Region.default : R) vs (LawfulRegion.clear_sim r hi)
    (LawfulRegion.clear_inv r hi) LawfulRegion.inv_default
  refine ⟨t, ?_⟩
  rcases rest with h | ⟨a', b', h1, h2, h3, h4, h5⟩
  · exact Or.inl h
  · exact Or.inr ⟨a', b', h1, h2, fun i => LawfulRegion.sim_index a' b' i h3 h4 h5⟩
end C08

end
end FC
