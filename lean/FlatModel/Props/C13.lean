import FlatModel.Proofs.Items
import FlatModel.Props.C03
/-! C13: positional accessors of read items expose exactly their own item and fail-stop out of
bounds (`ReadSlice`, `ReadColumns`, `FlatStack::get`). -/
namespace FC
open Region

namespace C13

/-! ### `ReadSlice` -/
section Slice
variable {R V I O : Type} [Region R V I] [IdxCont O I] [LawfulRegion R] [LawfulIdxCont O]

/-- **C13** the item `index` issues for a valid index iterates to exactly what `index` returns -/
theorem readSlice_backed_iter (r : SliceRegion R O) (i : Nat × Nat) (hi : Inv r) (hv : Valid r i) :
    ∃ vs, (ReadSlice.backed r i.1 i.2 : ReadSlice R O V).iter = some vs ∧ index r i = some vs := by
  obtain ⟨vs, hvs⟩ := LawfulRegion.valid_reads r i hi hv
  exact ⟨vs, by rw [ReadSlice.iter_backed_eq_index r i hi.2.1 hv, hvs], hvs⟩

omit [LawfulRegion R] [LawfulIdxCont O] in
/-- `get` against the iteration, with no assumption on the region: whenever the iteration of the
item succeeds, `get k` is its `k`-th element and a panic beyond it -/
theorem readSlice_get_of_iter (x : ReadSlice R O V) (vs : List V) (h : x.iter = some vs) (k : Nat) :
    x.get k = vs[k]? :=
  ReadSlice.get_of_iter x vs h k

/-- **C13** `get` exposes exactly the item's own elements: for a well-formed item (issued by `index`
on a consistent region for a valid index, or borrowed) `get k` is the `k`-th element of the owned
value, and a panic for every `k ≥ len` -/
theorem readSlice_get (x : ReadSlice R O V) (hx : x.WF) (k : Nat) :
    x.get k = x.intoOwned.bind (·[k]?) := by
  obtain ⟨vs, hvs⟩ := ReadSlice.wf_iter x hx
  rw [ReadSlice.get_of_iter x vs hvs k, ReadSlice.intoOwned, hvs]
  rfl

/-- the region-backed case of `readSlice_get`, spelled out -/
theorem readSlice_get_backed (r : SliceRegion R O) (i : Nat × Nat) (hi : Inv r) (hv : Valid r i) (k : Nat) :
    (ReadSlice.backed r i.1 i.2 : ReadSlice R O V).get k = (index r i).bind (·[k]?) := by
  rw [readSlice_get (ReadSlice.backed r i.1 i.2) ⟨hi, hv⟩ k, ReadSlice.intoOwned, ReadSlice.iter_backed_eq_index r i hi.2.1 hv]

omit [LawfulRegion R] [LawfulIdxCont O] in
/-- the borrowed case is immediate -/
theorem readSlice_get_borrowed (vs : List V) (k : Nat) :
    (ReadSlice.borrowed vs : ReadSlice R O V).get k = vs[k]? := rfl

/-- fail-stop: out of bounds is a panic -/
theorem readSlice_get_oob (x : ReadSlice R O V) (hx : x.WF) (k : Nat) (hk : x.len ≤ k) : x.get k = none := by
  obtain ⟨vs, hvs⟩ := ReadSlice.wf_iter x hx
  rw [ReadSlice.get_of_iter x vs hvs k]
  rw [ReadSlice.len_of_iter x vs hvs] at hk
  exact List.getElem?_eq_none hk

/-- in bounds: the `k`-th element of the item itself -/
theorem readSlice_get_inb (x : ReadSlice R O V) (hx : x.WF) (k : Nat) (hk : k < x.len) :
    ∃ vs v, x.intoOwned = some vs ∧ vs[k]? = some v ∧ x.get k = some v := by
  obtain ⟨vs, hvs⟩ := ReadSlice.wf_iter x hx
  rw [ReadSlice.len_of_iter x vs hvs] at hk
  exact ⟨vs, vs[k], hvs, List.getElem?_eq_getElem hk, by
    rw [ReadSlice.get_of_iter x vs hvs k, List.getElem?_eq_getElem hk]⟩

omit [LawfulRegion R] [LawfulIdxCont O] in
/-- `len` is the number of elements iterated (no assumption on the region) -/
theorem readSlice_len_iter (x : ReadSlice R O V) (vs : List V) (h : x.iter = some vs) : x.len = vs.length :=
  ReadSlice.len_of_iter x vs h

omit [LawfulRegion R] [LawfulIdxCont O] in
/-- **C13** `len` / `is_empty` agree with the iteration. `is_empty` is `start == end`, which agrees
with `len == 0` only for `start ≤ end` — part of well-formedness (see `isEmpty_needs_ordered`). -/
theorem len_iter_agree (x : ReadSlice R O V) (vs : List V) (hx : x.WF) (h : x.iter = some vs) :
    x.len = vs.length ∧ x.isEmpty = vs.isEmpty := by
  have hl := ReadSlice.len_of_iter x vs h
  refine ⟨hl, ?_⟩
  cases x with
  | backed r s e =>
    have hse : s ≤ e := hx.2.1
    simp only [ReadSlice.len] at hl
    simp only [ReadSlice.isEmpty]
    cases vs with
    | nil =>
      have : s = e := by simp only [List.length_nil] at hl; omega
      simp [this]
    | cons v vs =>
      have : s ≠ e := by simp only [List.length_cons] at hl; omega
      simp [this]
  | borrowed ws =>
    simp only [ReadSlice.iter, Option.some.injEq] at h
    subst h
    rfl

omit [LawfulRegion R] [LawfulIdxCont O] in
/-- `get` and the code before the repair differ at `k = len` only -/
theorem readSlice_get_eq_getLegacy (x : ReadSlice R O V) (k : Nat) (hk : k ≠ x.len) :
    x.get k = x.getLegacy k :=
  ReadSlice.get_eq_getLegacy x k hk

end Slice

/-! Concrete region `ItemsEx.twoItems`: two adjacent items `[10, 20]` at `(0, 2)` and `[30]` at `(2, 3)`. -/
open ItemsEx

/-- the hypotheses of the theorems above are satisfiable -/
example : Inv twoItems ∧ Valid twoItems (0, 2) ∧ Valid twoItems (2, 3) ∧
    (ReadSlice.backed twoItems 0 2 : ReadSlice _ _ Nat).WF :=
  ⟨twoItems_inv, twoItems_valid₁, twoItems_valid₂, twoItems_inv, twoItems_valid₁⟩

example : (ReadSlice.backed twoItems 0 2 : ReadSlice _ _ Nat).iter = some [10, 20] ∧
    (ReadSlice.backed twoItems 2 3 : ReadSlice _ _ Nat).iter = some [30] ∧
    index twoItems (0, 2) = some [10, 20] := ⟨rfl, rfl, rfl⟩

/-- **the property was false before the repair (D2)**: the legacy `get` at `k = len` returns the
first element of the *neighbouring* item instead of panicking; the repaired `get` panics. -/
example : (ReadSlice.backed twoItems 0 2 : ReadSlice _ _ Nat).len = 2 ∧
    (ReadSlice.backed twoItems 0 2 : ReadSlice _ _ Nat).getLegacy 2 = some 30 ∧
    (ReadSlice.backed twoItems 2 3 : ReadSlice _ _ Nat).get 0 = some 30 ∧
    (ReadSlice.backed twoItems 0 2 : ReadSlice _ _ Nat).get 2 = none := by decide

theorem readSlice_getLegacy_leaks :
    ∃ (r : SliceRegion (MirrorRegion Nat) (VecIdx Nat 8)) (i j : Nat × Nat) (v : Nat),
      Inv r ∧ Valid r i ∧ Valid r j ∧
      (ReadSlice.backed r i.1 i.2 : ReadSlice _ _ Nat).getLegacy (ReadSlice.backed r i.1 i.2 : ReadSlice _ _ Nat).len = some v ∧
      (ReadSlice.backed r i.1 i.2 : ReadSlice _ _ Nat).intoOwned = some [10, 20] ∧ v ∉ [10, 20] ∧
      (ReadSlice.backed r j.1 j.2 : ReadSlice _ _ Nat).get 0 = some v :=
  ⟨twoItems, (0, 2), (2, 3), 30, twoItems_inv, twoItems_valid₁, twoItems_valid₂, rfl, rfl, by decide, rfl⟩

/-- outside well-formedness (`start > end`, which `index` never issues and on which the Rust
`end - start` overflows) `is_empty` and `len` disagree: the hypothesis of `len_iter_agree` is needed -/
example : (ReadSlice.backed twoItems 2 1 : ReadSlice _ _ Nat).iter = some [] ∧
    (ReadSlice.backed twoItems 2 1 : ReadSlice _ _ Nat).isEmpty = false := ⟨rfl, rfl⟩

/-! ### `ReadColumns` -/
section Columns
variable {R V I O : Type} [Region R V I] [LawfulRegion R] [IdxCont O Nat] [LawfulIdxCont O]

/-- **C13** the item `index` issues for a valid row: `columns = &self.inner`, `index` = the stored
row of per-column indices; it is well-formed and iterates to exactly what `index` returns -/
theorem readColumns_backed_iter (r : ColumnsRegion R I O) (k : Nat) (hi : Inv r) (hv : Valid r k) :
    ∃ ix vs, index r.indices k = some ix ∧ (ReadColumns.backed r.cols ix : ReadColumns R I V).WF ∧
      (ReadColumns.backed r.cols ix : ReadColumns R I V).iter = some vs ∧ index r k = some vs := by
  obtain ⟨hin, hcols, hrows⟩ := hi
  obtain ⟨ix, hix⟩ := LawfulRegion.valid_reads r.indices k hin hv
  have hrv := hrows k ix hv hix
  obtain ⟨vs, hvs⟩ := readRow_some_of_valid r.cols ix hcols hrv
  exact ⟨ix, vs, hix, ⟨hcols, hrv⟩, hvs, by rw [columns_index_def, hix]; exact hvs⟩

omit [LawfulRegion R] in
theorem readColumns_get_of_iter (x : ReadColumns R I V) (vs : List V) (h : x.iter = some vs) (k : Nat) :
    x.get k = vs[k]? :=
  ReadColumns.get_of_iter x vs h k

/-- **C13** `get` exposes exactly the row's own elements and panics out of bounds -/
theorem readColumns_get (x : ReadColumns R I V) (hx : x.WF) (k : Nat) :
    x.get k = x.intoOwned.bind (·[k]?) := by
  obtain ⟨vs, hvs⟩ := ReadColumns.wf_iter x hx
  rw [ReadColumns.get_of_iter x vs hvs k, ReadColumns.intoOwned, hvs]
  rfl

/-- the region-backed case, in terms of the region -/
theorem readColumns_get_backed (r : ColumnsRegion R I O) (j : Nat) (hi : Inv r) (hv : Valid r j) (k : Nat) :
    ∃ ix, index r.indices j = some ix ∧
      (ReadColumns.backed r.cols ix : ReadColumns R I V).get k = (index r j).bind (·[k]?) := by
  obtain ⟨ix, vs, h1, _, h3, h4⟩ := readColumns_backed_iter r j hi hv
  refine ⟨ix, h1, ?_⟩
  rw [ReadColumns.get_of_iter _ vs h3 k, h4]
  rfl

omit [LawfulRegion R] in
theorem readColumns_get_borrowed (vs : List V) (k : Nat) :
    (ReadColumns.borrowed vs : ReadColumns R I V).get k = vs[k]? := rfl

theorem readColumns_get_oob (x : ReadColumns R I V) (hx : x.WF) (k : Nat) (hk : x.len ≤ k) : x.get k = none := by
  obtain ⟨vs, hvs⟩ := ReadColumns.wf_iter x hx
  rw [ReadColumns.get_of_iter x vs hvs k]
  rw [ReadColumns.len_of_iter x vs hvs] at hk
  exact List.getElem?_eq_none hk

omit [LawfulRegion R] in
/-- **C13** `len` / `is_empty` agree with the iteration (no assumption on the columns) -/
theorem readColumns_len_iter_agree (x : ReadColumns R I V) (vs : List V) (h : x.iter = some vs) :
    x.len = vs.length ∧ x.isEmpty = vs.isEmpty := by
  have hl := ReadColumns.len_of_iter x vs h
  refine ⟨hl, ?_⟩
  cases x with
  | backed cols ix =>
    simp only [ReadColumns.len] at hl
    simp only [ReadColumns.isEmpty]
    cases ix <;> cases vs <;> simp_all
  | borrowed ws =>
    simp only [ReadColumns.iter, Option.some.injEq] at h
    subst h
    rfl

end Columns

/-- a concrete consistent row region (`ItemsEx.twoRows`): two columns, rows `[1, 2]` and `[3]` -/
example : Inv twoRows ∧ Valid twoRows 0 ∧ Valid twoRows 1 := twoRows_inv

example : index twoRows 0 = some [1, 2] ∧ index twoRows 1 = some [3] ∧
    index twoRows.indices 0 = some [1, 2] ∧
    (ReadColumns.backed twoRows.cols [1, 2] : ReadColumns _ Nat Nat).iter = some [1, 2] ∧
    (ReadColumns.backed twoRows.cols [1, 2] : ReadColumns _ Nat Nat).get 1 = some 2 ∧
    (ReadColumns.backed twoRows.cols [1, 2] : ReadColumns _ Nat Nat).get 2 = none ∧
    (ReadColumns.backed twoRows.cols [1, 2] : ReadColumns _ Nat Nat).WF :=
  ⟨rfl, rfl, rfl, rfl, rfl, rfl, fun _ _ => trivial, trivial, trivial, trivial⟩

/-! ### `FlatStack::get` -/
section Stack
variable {R V I S : Type} [Region R V I] [IdxCont S I] [LawfulRegion R] [LawfulIdxCont S]

/-- **C13** for the stack (corollary of `C03.observers`): `get k` panics for every `k ≥ len`, and is
the `k`-th copied value below -/
theorem stack_get (fs : FlatStack R S) (spec : List V) (h : fs.Rep spec) :
    (∀ k, fs.len ≤ k → fs.get k = none) ∧
    (∀ k, k < fs.len → ∃ u w, fs.get k = some u ∧ spec[k]? = some w ∧ same (R := R) u w) := by
  obtain ⟨hlen, _, hoob, hinb, _⟩ := C03.observers fs spec h
  refine ⟨fun k hk => hoob k (by omega), fun k hk => ?_⟩
  have hk' : k < spec.length := by omega
  obtain ⟨u, hu, hs⟩ := hinb k spec[k] (List.getElem?_eq_getElem hk')
  exact ⟨u, spec[k], hu, List.getElem?_eq_getElem hk', hs⟩

end Stack

end C13
end FC
