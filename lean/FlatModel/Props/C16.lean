import FlatModel.Props.C09
import FlatModel.Proofs.Serde
/-! C16: serialisation round trip. Deserialising a serialised region yields exactly the value that
`clone` yields in the model — nothing is skipped (remembered indices, stride state, spill lists,
offsets), capacities are exact — and that value continues like the original. -/
namespace FC.C16
open Region

section
variable {R V I : Type} [Region R V I] [RegionAux R] [Ser R]

/-- **C16**: `deserialize(serialize(r))` succeeds and is, field by field, `r.clone()` -/
theorem de_ser [SerClone R] (r : R) : Ser.de (Ser.ser r) = some (RegionAux.clone r) :=
  SerClone.de_ser r

/-- the deserialised value satisfies the representation invariant and is `Sim`-equivalent to the original -/
theorem continuation_sim [LawfulAux R] [SerClone R] (r : R) (hi : Region.Inv r) :
    ∃ r', Ser.de (Ser.ser r) = some r' ∧ Sim r' r ∧ Region.Inv r' :=
  ⟨RegionAux.clone r, SerClone.de_ser r, LawfulAux.clone_sim r hi⟩

/-- **C16**: the deserialised value reads identically at every valid index and answers every further
push sequence identically (same returned indices, same refusals, same reads afterwards) -/
theorem continuation [LawfulRegion R] [LawfulAux R] [SerClone R] (r : R) (hi : Region.Inv r) :
    ∃ r', Ser.de (Ser.ser r) = some r' ∧ ObsEq r' r :=
  ⟨RegionAux.clone r, SerClone.de_ser r,
    sim_observe (RegionAux.clone r) r (LawfulAux.clone_sim r hi).1 (LawfulAux.clone_sim r hi).2 hi⟩

/-- `continuation` in every state reachable by pushes and clears from the default region -/
theorem continuation_reachable [LawfulRegion R] [LawfulAux R] [SerClone R] (r : R) (hr : Reachable r) :
    ∃ r', Ser.de (Ser.ser r) = some r' ∧ ObsEq r' r :=
  continuation r (reachable_inv r hr)

/-- `continuation` in every state reachable through the whole API -/
theorem continuation_reach [LawfulRegion R] [LawfulAux R] [LawfulMerge R] [SerClone R] (r : R) (hr : Reach r) :
    ∃ r', Ser.de (Ser.ser r) = some r' ∧ ObsEq r' r :=
  continuation r (reach_inv r hr)

/-- a second round trip changes nothing any more -/
theorem de_ser_twice [SerClone R] (r r' : R) (h : Ser.de (Ser.ser r) = some r') :
    Ser.de (Ser.ser r') = some (RegionAux.clone (RegionAux.clone r)) := by
  rw [de_ser r] at h; cases h; exact de_ser _
end

/-- element types and capacity-free index containers come back unchanged -/
theorem de_ser_elem {α : Type} [Ser α] [LawfulSer α] (a : α) : Ser.de (Ser.ser a) = some a :=
  LawfulSer.de_ser a

/-- a `Vec` comes back with its contents and an exact allocation -/
theorem de_ser_vec {α : Type} [Ser α] [LawfulSer α] (v : MVec α) :
    Ser.de (Ser.ser v) = some (⟨v.data, v.data.length⟩ : MVec α) :=
  mvec_de_ser v

/-- index containers with capacities come back as their `clone` -/
theorem de_ser_idx {O T : Type} [IdxCont O T] [IdxAux O] [Ser O] [SerCloneIdx O] (c : O) :
    Ser.de (Ser.ser c) = some (IdxAux.clone c) :=
  SerCloneIdx.de_ser c

/-! ### nothing is skipped -/

/-- `CollapseSequence`: the remembered last index survives -/
theorem collapse_last_preserved {R V I : Type} [Region R V I] [HasEqv V] [RegionAux R] [IndexSize I] [Ser R] [Ser I]
    [SerClone R] [LawfulSer I] (r : CollapseSequence R I) :
    ∃ r' : CollapseSequence R I, Ser.de (Ser.ser r) = some r' ∧ r'.last = r.last ∧ r'.inner = RegionAux.clone r.inner :=
  ⟨_, de_ser r, rfl, rfl⟩

/-- `ConsecutiveIndexPairs`: the last offset and the offsets survive -/
theorem consec_bookkeeping_preserved {R V O : Type} [Region R V (Nat × Nat)] [DenseRegion R] [IdxCont O Nat]
    [RegionAux R] [IdxAux O] [LawfulIdxAux O] [Ser R] [Ser O] [SerClone R] [SerCloneIdx O] (r : ConsecPairs R O) :
    ∃ r' : ConsecPairs R O, Ser.de (Ser.ser r) = some r' ∧ r'.last = r.last ∧ r'.indices = IdxAux.clone r.indices ∧
      IdxCont.iter r'.indices = IdxCont.iter r.indices ∧ r'.inner = RegionAux.clone r.inner :=
  ⟨_, de_ser r, rfl, rfl, LawfulIdxAux.clone_iter r.indices, rfl⟩

/-- `IndexOptimized`: stride state and both spill lists survive; capacities are the lengths -/
theorem optimized_state_preserved (c : Capd IndexOptimized) :
    ∃ c' : Capd IndexOptimized, Ser.de (Ser.ser c) = some c' ∧ c'.a = c.a ∧
      c'.caps = [c.a.spilled.smol.length, c.a.spilled.chonk.length] :=
  ⟨_, de_ser_idx c, rfl, rfl⟩

/-- `IndexList` -/
theorem list_state_preserved (c : Capd IndexList) :
    ∃ c' : Capd IndexList, Ser.de (Ser.ser c) = some c' ∧ c'.a = c.a ∧ c'.caps = [c.a.smol.length, c.a.chonk.length] :=
  ⟨_, de_ser_idx c, rfl, rfl⟩

/-- `ColumnsRegion`: every column and the row offsets survive -/
theorem columns_preserved {R V I O : Type} [Region R V I] [IdxCont O Nat] [RegionAux R] [IdxAux O] [ElemSize I]
    [Ser R] [Ser I] [Ser O] [SerClone R] [LawfulSer I] [SerCloneIdx O] (r : ColumnsRegion R I O) :
    ∃ r' : ColumnsRegion R I O, Ser.de (Ser.ser r) = some r' ∧ r'.cols = r.cols.map RegionAux.clone ∧
      r'.indices.last = r.indices.last ∧ r'.indices.inner.slices.data = r.indices.inner.slices.data :=
  ⟨_, de_ser r, rfl, rfl, rfl⟩

/-- `FlatStack`: the index container and the region survive -/
theorem stack_preserved {R V I S : Type} [Region R V I] [IdxCont S I] [RegionAux R] [IdxAux S] [Ser R] [Ser S]
    [SerClone R] [SerCloneIdx S] (fs : FlatStack R S) :
    Ser.de (Ser.ser fs) = some (⟨IdxAux.clone fs.indices, RegionAux.clone fs.region⟩ : FlatStack R S) :=
  de_ser fs

/-! ### coverage: the awkward nestings resolve without hints -/
example : SerClone (ColumnsRegion (CollapseSequence (ConsecPairs (StringRegion (OwnedRegion UInt8)) (Capd IndexOptimized)) Nat)
    Nat (Capd IndexOptimized)) := inferInstance
example : SerClone (FlatStack (SliceRegion (ConsecPairs (StringRegion (OwnedRegion UInt8)) (Capd IndexOptimized)) (Capd IndexList))
    (Capd (VecIdx (Nat × Nat) 16))) := inferInstance
example : SerClone (TupleCons (OptionRegion (StringRegion (OwnedRegion UInt8))) (TupleCons (OwnedRegion Nat) TupleNil)) :=
  inferInstance
example : SerClone (ResultRegion (SliceRegion (MirrorRegion Nat) (Capd (VecIdx Nat 1))) (StringRegion (OwnedRegion UInt8))) :=
  inferInstance
example : SerClone (VecRegion (Nat × Nat)) := inferInstance
example : SerClone (CollapseSequence (MirrorRegion F64) F64) := inferInstance
example : SerClone (SliceRegion (SliceRegion (OwnedRegion UInt8) (Capd (VecIdx (Nat × Nat) 16))) (Capd (VecIdx (Nat × Nat) 16))) :=
  inferInstance
example : SerCloneIdx (Capd IndexOptimized) := inferInstance
example : SerCloneIdx (Capd IndexList) := inferInstance
example : SerCloneIdx (Capd (VecIdx (Nat × Nat) 16)) := inferInstance

/-! ### non-vacuity: a concrete region with a duplicate collapsed, stride state, a spilled offset and
slack capacity (16 for 9 bytes) round-trips to its exact-capacity clone -/
section Sample
private abbrev T := CollapseSequence (ConsecPairs (StringRegion (OwnedRegion UInt8)) (Capd IndexOptimized)) Nat

/-- "hi", "hi", "yo", "ab", "xyz" pushed into a default region -/
example : C08.runPushes (Region.default : T) [[104, 105], [104, 105], [121, 111], [97, 98], [120, 121, 122]] =
    some ⟨⟨⟨⟨⟨[104, 105, 121, 111, 97, 98, 120, 121, 122], 16⟩⟩⟩, ⟨⟨.striding 2 4, ⟨[9], []⟩⟩, [1, 0]⟩, 9⟩, some 3⟩ := by rfl

example : Ser.de (Ser.ser
      (⟨⟨⟨⟨⟨[104, 105, 121, 111, 97, 98, 120, 121, 122], 16⟩⟩⟩, ⟨⟨.striding 2 4, ⟨[9], []⟩⟩, [1, 0]⟩, 9⟩, some 3⟩ : T)) =
    some (⟨⟨⟨⟨⟨[104, 105, 121, 111, 97, 98, 120, 121, 122], 9⟩⟩⟩, ⟨⟨.striding 2 4, ⟨[9], []⟩⟩, [1, 0]⟩, 9⟩, some 3⟩ : T) := by rfl

/-- malformed input is refused, not misread: a `Saturated` stride with a missing field -/
example : Ser.de (α := Stride) (SVal.tupleVariant "Saturated" [SVal.nat 2, SVal.nat 4]) = none := by rfl
end Sample

end FC.C16
