import FlatModel.Proofs.FanOut
import FlatModel.Proofs.Collapse
import FlatModel.Proofs.Slice
import FlatModel.Proofs.Consec
import FlatModel.Proofs.Columns
import FlatModel.Proofs.Ops
/-! Every catalogued composition is covered by the laws: instance resolution finds `LawfulRegion`. -/
namespace FC
open Region


section DenseInstances
variable {R V I O : Type} [Region R V I] [IdxCont O I] [LawfulRegion R] [LawfulIdxCont O]

instance : LawfulDense (SliceRegion R O) where
  cursor_default := by simp [DenseRegion.cursor, Region.default, LawfulIdxCont.iter_default]
  cursor_clear r := by simp [DenseRegion.cursor, Region.clear, LawfulIdxCont.iter_clear]
  push_dense r r' v i _ hp := by
    obtain ⟨_, rfl⟩ := slice_push_some r r' v i hp
    rfl
end DenseInstances

instance {R : Type} [Region R (List UInt8) (Nat × Nat)] [DenseRegion R] [LawfulRegion R] [LawfulDense R] :
    LawfulDense (StringRegion R) where
  cursor_default := LawfulDense.cursor_default (R := R)
  cursor_clear r := LawfulDense.cursor_clear r.inner
  push_dense r r' v i hi hp := by
    simp only [Region.push, Option.map_eq_some_iff, Prod.mk.injEq] at hp
    obtain ⟨⟨r0, i0⟩, hp0, rfl, rfl⟩ := hp
    exact LawfulDense.push_dense r.inner r0 v i0 hi hp0

abbrev Str := StringRegion (OwnedRegion UInt8)
abbrev PairIdx := VecIdx (Nat × Nat) 16

-- the awkward nestings named by the properties
example : LawfulRegion Str := inferInstance
example : LawfulRegion (ConsecPairs Str IndexOptimized) := inferInstance
example : LawfulRegion (CollapseSequence (ConsecPairs Str IndexOptimized) Nat) := inferInstance
example : LawfulRegion (ColumnsRegion (CollapseSequence (ConsecPairs Str IndexOptimized) Nat) Nat IndexOptimized) :=
  inferInstance
example : LawfulRegion (SliceRegion (ConsecPairs Str IndexOptimized) IndexOptimized) := inferInstance
example : LawfulRegion (StringRegion (ConsecPairs (OwnedRegion UInt8) IndexList)) := inferInstance
example : LawfulRegion (SliceRegion (SliceRegion (SliceRegion (MirrorRegion Nat) (VecIdx Nat 1)) PairIdx) PairIdx) :=
  inferInstance
example : LawfulRegion (TupleCons (OptionRegion Str) (TupleCons (ResultRegion (OwnedRegion Nat) (MirrorRegion Nat)) TupleNil)) :=
  inferInstance
example : LawfulRegion (ConsecPairs (SliceRegion (CollapseSequence Str (Nat × Nat)) PairIdx) (VecIdx Nat 8)) :=
  inferInstance
example : LawfulRegion (CollapseSequence (SliceRegion Str PairIdx) (Nat × Nat)) := inferInstance
example : LawfulRegion (ColumnsRegion (VecRegion Nat) Nat (VecIdx Nat 8)) := inferInstance

end FC
