import FlatModel.Props.UniverseOps
import FlatModel.Props.C16
/-! C16 (serialisation round trip) for every composition.

`Ser` (serde's data model, `Model/Serde.lean`) and `SerClone` (`de ∘ ser = some ∘ clone`,
`Proofs/Serde.lean`) are lifted to the universe of `Props/Universe.lean`, over the same types `d.R`.

Sub-universe `d.Serde`:
* no `codec`, `huffman`, `huffmanU8` anywhere: the model has no `Ser Codec.Region`, `Ser Huff.Container`,
  `Ser HuffU8` (the crate's serde derives are on the structural regions);
* the second argument of every `tupleCons` is a tuple (`tupleNil` or `tupleCons`): `Ser (TupleCons A B)`
  collects the fields of the struct through `SerFields B`, which has instances for `TupleNil` and
  `TupleCons` only. (`RDesc` allows `tupleCons a b` for any `b`; the crate's tuple regions are the
  `tupleNil`-terminated ones.)

Payload and index shapes need `Ser`, which the model has for every shape; `Ty.ser` picks the instance
instance resolution picks (index tuples `(A, B, …)` are flat sequences: the high-priority instance
through `SerTuple`). -/
namespace FC.Universe
open FC Region

/-! ### `Ser` for every shape -/

/-- flat-sequence serialisation of an index tuple and its law -/
structure TupPack (α : Type) where
  st : SerTuple α
  lawful : @LawfulSerTuple α st

/-- the `Ser` instance of a shape, its law, and (for right-nested pairs ending in `Unit`) the
`SerTuple` instance -/
structure SerPack (α : Type) where
  ser : Ser α
  lawful : @LawfulSer α ser
  tup : Option (TupPack α)

/-- as instance resolution chooses: a pair whose second component is an index tuple is a flat
sequence (priority `high` in `Model/Serde.lean`), any other pair a two-element sequence -/
def Ty.serPack : (t : Ty) → SerPack t.interp
  | .nat => ⟨inferInstanceAs (Ser Nat), inferInstanceAs (LawfulSer Nat), none⟩
  | .unit => ⟨inferInstanceAs (Ser Unit), inferInstanceAs (LawfulSer Unit),
      some ⟨inferInstanceAs (SerTuple Unit), inferInstanceAs (LawfulSerTuple Unit)⟩⟩
  | .f64 => ⟨inferInstanceAs (Ser F64), inferInstanceAs (LawfulSer F64), none⟩
  | .u8 => ⟨inferInstanceAs (Ser UInt8), inferInstanceAs (LawfulSer UInt8), none⟩
  | .list t =>
    letI := t.serPack.ser; letI := t.serPack.lawful
    ⟨inferInstanceAs (Ser (List t.interp)), inferInstanceAs (LawfulSer (List t.interp)), none⟩
  | .opt t =>
    letI := t.serPack.ser; letI := t.serPack.lawful
    ⟨inferInstanceAs (Ser (Option t.interp)), inferInstanceAs (LawfulSer (Option t.interp)), none⟩
  | .res ok err =>
    letI := ok.serPack.ser; letI := ok.serPack.lawful; letI := err.serPack.ser; letI := err.serPack.lawful
    ⟨inferInstanceAs (Ser (Except err.interp ok.interp)), inferInstanceAs (LawfulSer (Except err.interp ok.interp)), none⟩
  | .pair a b =>
    letI := a.serPack.ser; letI := a.serPack.lawful
    match b.serPack.tup with
    | some tb =>
      letI := tb.st; letI := tb.lawful
      ⟨inferInstanceAs (Ser (a.interp × b.interp)), inferInstanceAs (LawfulSer (a.interp × b.interp)),
        some ⟨inferInstanceAs (SerTuple (a.interp × b.interp)), inferInstanceAs (LawfulSerTuple (a.interp × b.interp))⟩⟩
    | none =>
      letI := b.serPack.ser; letI := b.serPack.lawful
      ⟨inferInstanceAs (Ser (a.interp × b.interp)), inferInstanceAs (LawfulSer (a.interp × b.interp)), none⟩

@[instance_reducible] def Ty.ser (t : Ty) : Ser t.interp := t.serPack.ser
theorem Ty.lawfulSer (t : Ty) : @LawfulSer t.interp t.ser := t.serPack.lawful

section TyAgrees
example : Ty.ser .nat = (inferInstance : Ser Nat) := rfl
example : Ty.ser .range = (inferInstance : Ser (Nat × Nat)) := rfl
example : Ty.ser .bytes = (inferInstance : Ser (List UInt8)) := rfl
example : Ty.ser (.opt .range) = (inferInstance : Ser (Option (Nat × Nat))) := rfl
example : Ty.ser (.res .range .nat) = (inferInstance : Ser (Except Nat (Nat × Nat))) := rfl
-- index tuples: the flat form
example : Ty.ser (.pair .range .unit) = (inferInstance : Ser ((Nat × Nat) × Unit)) := rfl
example : Ty.ser (.pair (.opt .range) (.pair .range .unit)) =
    (inferInstance : Ser ((Option (Nat × Nat)) × ((Nat × Nat) × Unit))) := rfl
example : Ser.ser (self := Ty.ser (.pair .nat (.pair .nat .unit))) (1, (2, ())) = SVal.seq [SVal.nat 1, SVal.nat 2] := rfl
example : Ser.ser (self := Ty.ser .range) (1, 2) = SVal.seq [SVal.nat 1, SVal.nat 2] := rfl
example : Ser.ser (self := Ty.ser (.pair .range .range)) ((1, 2), (3, 4)) =
    SVal.seq [SVal.seq [SVal.nat 1, SVal.nat 2], SVal.seq [SVal.nat 3, SVal.nat 4]] := rfl
end TyAgrees

/-! ### index containers -/

structure IdxSer {T : Type} (o : IdxBundle T) (a : IdxOps o) where
  [ser : Ser o.O]
  serClone : @SerCloneIdx o.O T o.inst a.aux ser

def IdxKind.ser : {i : Ty} → (k : IdxKind i) → IdxSer k.bundle k.ops
  | i, .vec sz =>
    letI := i.ser; letI := i.lawfulSer
    @IdxSer.mk _ (IdxKind.vec sz).bundle (IdxKind.vec sz).ops
      (inferInstanceAs (Ser (Capd (VecIdx i.interp sz)))) (inferInstanceAs (SerCloneIdx (Capd (VecIdx i.interp sz))))
  | _, .opt => @IdxSer.mk _ IdxKind.opt.bundle IdxKind.opt.ops
      (inferInstanceAs (Ser (Capd IndexOptimized))) (inferInstanceAs (SerCloneIdx (Capd IndexOptimized)))
  | _, .list => @IdxSer.mk _ IdxKind.list.bundle IdxKind.list.ops
      (inferInstanceAs (Ser (Capd IndexList))) (inferInstanceAs (SerCloneIdx (Capd IndexList)))

/-! ### the sub-universe -/

/-- `tupleNil` or `tupleCons` -/
def RDesc.IsTuple : {v : Ty} → {ix : Ix} → RDesc v ix → Prop
  | _, _, .tupleNil => True
  | _, _, .tupleCons _ _ => True
  | _, _, .mirror _ => False
  | _, _, .owned _ => False
  | _, _, .vec _ => False
  | _, _, .string _ => False
  | _, _, .option _ => False
  | _, _, .result _ _ => False
  | _, _, .collapse _ => False
  | _, _, .slice _ _ => False
  | _, _, .consec _ _ => False
  | _, _, .columns _ _ => False
  | _, _, .codec => False
  | _, _, .huffman => False
  | _, _, .huffmanU8 => False
  | _, _, .stack _ _ => False

instance RDesc.decIsTuple {v : Ty} {ix : Ix} (d : RDesc v ix) : Decidable d.IsTuple := by
  cases d <;> simp only [RDesc.IsTuple] <;> infer_instance

/-- the descriptions with a serde implementation: uncoded, tuples `tupleNil`-terminated -/
def RDesc.Serde : {v : Ty} → {ix : Ix} → RDesc v ix → Prop
  | _, _, .mirror _ => True
  | _, _, .owned _ => True
  | _, _, .vec _ => True
  | _, _, .string d => d.Serde
  | _, _, .option d => d.Serde
  | _, _, .result t e => t.Serde ∧ e.Serde
  | _, _, .tupleNil => True
  | _, _, .tupleCons a b => a.Serde ∧ b.Serde ∧ b.IsTuple
  | _, _, .collapse d => d.Serde
  | _, _, .slice d _ => d.Serde
  | _, _, .consec d _ => d.Serde
  | _, _, .columns d _ => d.Serde
  | _, _, .codec => False
  | _, _, .huffman => False
  | _, _, .huffmanU8 => False
  | _, _, .stack d _ => d.Serde

instance RDesc.decSerde : {v : Ty} → {ix : Ix} → (d : RDesc v ix) → Decidable d.Serde
  | _, _, .mirror _ => isTrue trivial
  | _, _, .owned _ => isTrue trivial
  | _, _, .vec _ => isTrue trivial
  | _, _, .string d => d.decSerde
  | _, _, .option d => d.decSerde
  | _, _, .result t e => @instDecidableAnd _ _ t.decSerde e.decSerde
  | _, _, .tupleNil => isTrue trivial
  | _, _, .tupleCons a b => @instDecidableAnd _ _ a.decSerde (@instDecidableAnd _ _ b.decSerde b.decIsTuple)
  | _, _, .collapse d => d.decSerde
  | _, _, .slice d _ => d.decSerde
  | _, _, .consec d _ => d.decSerde
  | _, _, .columns d _ => d.decSerde
  | _, _, .codec => isFalse id
  | _, _, .huffman => isFalse id
  | _, _, .huffmanU8 => isFalse id
  | _, _, .stack d _ => d.decSerde

theorem RDesc.uncoded_of_serde : {v : Ty} → {ix : Ix} → (d : RDesc v ix) → d.Serde → d.Uncoded
  | _, _, .mirror _, _ => trivial
  | _, _, .owned _, _ => trivial
  | _, _, .vec _, _ => trivial
  | _, _, .string d, h => d.uncoded_of_serde h
  | _, _, .option d, h => d.uncoded_of_serde h
  | _, _, .result t e, h => ⟨t.uncoded_of_serde h.1, e.uncoded_of_serde h.2⟩
  | _, _, .tupleNil, _ => trivial
  | _, _, .tupleCons a b, h => ⟨a.uncoded_of_serde h.1, b.uncoded_of_serde h.2.1⟩
  | _, _, .collapse d, h => d.uncoded_of_serde h
  | _, _, .slice d _, h => d.uncoded_of_serde h
  | _, _, .consec d _, h => d.uncoded_of_serde h
  | _, _, .columns d _, h => d.uncoded_of_serde h
  | _, _, .stack d _, h => d.uncoded_of_serde h

/-! ### `Ser`, for every description of the sub-universe -/

/-- the `Ser` instance of the interpretation and, for tuples, the `SerFields` instance -/
structure SerData {v : Ty} {ix : Ix} (d : RDesc v ix) where
  ser : Ser d.R
  fields : d.IsTuple → SerFields d.R

def RDesc.serData : {v : Ty} → {ix : Ix} → (d : RDesc v ix) → d.Serde → SerData d
  | _, _, .mirror t, _ => ⟨inferInstanceAs (Ser (MirrorRegion t.interp)), False.elim⟩
  | _, _, .owned t, _ => letI := t.ser; ⟨inferInstanceAs (Ser (OwnedRegion t.interp)), False.elim⟩
  | _, _, .vec t, _ => letI := t.ser; ⟨inferInstanceAs (Ser (VecRegion t.interp)), False.elim⟩
  | _, .any _, .string d, h => letI := (d.serData h).ser; ⟨inferInstanceAs (Ser (StringRegion d.R)), False.elim⟩
  | _, .dense, .string d, h => letI := (d.serData h).ser; ⟨inferInstanceAs (Ser (StringRegion d.R)), False.elim⟩
  | _, _, .option d, h => letI := (d.serData h).ser; ⟨inferInstanceAs (Ser (OptionRegion d.R)), False.elim⟩
  | _, _, .result t e, h =>
    letI := (t.serData h.1).ser; letI := (e.serData h.2).ser
    ⟨inferInstanceAs (Ser (ResultRegion t.R e.R)), False.elim⟩
  | _, _, .tupleNil, _ => ⟨inferInstanceAs (Ser TupleNil), fun _ => inferInstanceAs (SerFields TupleNil)⟩
  | _, _, .tupleCons a b, h =>
    letI := (a.serData h.1).ser; letI := (b.serData h.2.1).fields h.2.2
    ⟨inferInstanceAs (Ser (TupleCons a.R b.R)), fun _ => inferInstanceAs (SerFields (TupleCons a.R b.R))⟩
  | _, _, .collapse (ix := ix) d, h =>
    letI := (d.serData h).ser; letI := ix.ty.ser
    ⟨inferInstanceAs (Ser (CollapseSequence d.R ix.ty.interp)), False.elim⟩
  | _, _, .slice d k, h =>
    letI := (d.serData h).ser; letI := k.ser.ser
    ⟨inferInstanceAs (Ser (SliceRegion d.R k.bundle.O)), False.elim⟩
  | _, _, .consec d k, h =>
    letI : Ser d.bundleX.R := (d.serData h).ser; letI := k.ser.ser
    ⟨inferInstanceAs (Ser (ConsecPairs d.bundleX.R k.bundle.O)), False.elim⟩
  | _, _, .columns (ix := ix) d k, h =>
    letI := (d.serData h).ser; letI := ix.ty.ser; letI := k.ser.ser
    ⟨inferInstanceAs (Ser (ColumnsRegion d.R ix.ty.interp k.bundle.O)), False.elim⟩
  | _, _, .stack d k, h =>
    letI := (d.serData h).ser; letI := k.ser.ser
    ⟨inferInstanceAs (Ser (FlatStack d.R k.bundle.O)), False.elim⟩

/-- the `Ser` instance of the interpretation of a description -/
@[instance_reducible] def RDesc.ser {v : Ty} {ix : Ix} (d : RDesc v ix) (h : d.Serde) : Ser d.R := (d.serData h).ser

/-! ### `SerClone`, for every description of the sub-universe -/
section Laws
variable [σ : SizeEnv]

/-- `de ∘ ser = some ∘ clone` for the region, `ofFields ∘ fields = some ∘ clone` for tuples -/
structure SerLaws {v : Ty} {ix : Ix} (d : RDesc v ix) (s : SerData d) : Prop where
  clone : @SerClone d.R _ _ d.bundle.inst d.aux s.ser
  fields : ∀ ht : d.IsTuple, @SerFieldsClone d.R _ _ d.bundle.inst d.aux (s.fields ht)

theorem RDesc.serLaws : {v : Ty} → {ix : Ix} → (d : RDesc v ix) → (h : d.Serde) → SerLaws d (d.serData h)
  | _, _, .mirror t, _ => ⟨inferInstanceAs (SerClone (MirrorRegion t.interp)), nofun⟩
  | _, _, .owned t, _ =>
    letI := σ.elem t; letI := t.ser; letI := t.lawfulSer
    ⟨inferInstanceAs (SerClone (OwnedRegion t.interp)), nofun⟩
  | _, _, .vec t, _ =>
    letI := σ.elem t; letI := t.ser; letI := t.lawfulSer
    ⟨inferInstanceAs (SerClone (VecRegion t.interp)), nofun⟩
  | _, .any i, .string d, h =>
    letI : Region d.R (List UInt8) i.interp := d.bundle.inst
    letI : RegionAux d.R := d.aux
    letI := (d.serData h).ser; letI := (d.serLaws h).clone
    ⟨inferInstanceAs (SerClone (StringRegion d.R)), nofun⟩
  | _, .dense, .string d, h =>
    letI : Region d.R (List UInt8) (Nat × Nat) := d.bundle.inst
    letI : RegionAux d.R := d.aux
    letI := (d.serData h).ser; letI := (d.serLaws h).clone
    ⟨inferInstanceAs (SerClone (StringRegion d.R)), nofun⟩
  | _, _, .option d, h =>
    letI := (d.serData h).ser; letI := (d.serLaws h).clone
    ⟨inferInstanceAs (SerClone (OptionRegion d.R)), nofun⟩
  | _, _, .result t e, h =>
    letI := (t.serData h.1).ser; letI := (e.serData h.2).ser
    letI := (t.serLaws h.1).clone; letI := (e.serLaws h.2).clone
    ⟨inferInstanceAs (SerClone (ResultRegion t.R e.R)), nofun⟩
  | _, _, .tupleNil, _ => ⟨inferInstanceAs (SerClone TupleNil), fun _ => inferInstanceAs (SerFieldsClone TupleNil)⟩
  | _, _, .tupleCons a b, h =>
    letI := (a.serData h.1).ser; letI := (b.serData h.2.1).fields h.2.2
    letI := (a.serLaws h.1).clone; letI := (b.serLaws h.2.1).fields h.2.2
    ⟨inferInstanceAs (SerClone (TupleCons a.R b.R)), fun _ => inferInstanceAs (SerFieldsClone (TupleCons a.R b.R))⟩
  | v, _, .collapse (ix := ix) d, h =>
    letI := v.hasEqv; letI := σ.index ix.ty
    letI := (d.serData h).ser; letI := ix.ty.ser; letI := ix.ty.lawfulSer; letI := (d.serLaws h).clone
    ⟨inferInstanceAs (SerClone (CollapseSequence d.R ix.ty.interp)), nofun⟩
  | _, _, .slice d k, h =>
    letI := k.ops.aux; letI := (d.serData h).ser; letI := k.ser.ser
    letI := (d.serLaws h).clone; letI := k.ser.serClone
    ⟨inferInstanceAs (SerClone (SliceRegion d.R k.bundle.O)), nofun⟩
  | _, _, .consec d k, h =>
    letI : RegionAux d.bundleX.R := d.aux
    letI : Ser d.bundleX.R := (d.serData h).ser
    letI : SerClone d.bundleX.R := (d.serLaws h).clone
    letI := k.ops.aux; letI := k.ser.ser; letI := k.ser.serClone
    ⟨inferInstanceAs (SerClone (ConsecPairs d.bundleX.R k.bundle.O)), nofun⟩
  | _, _, .columns (ix := ix) d k, h =>
    letI := σ.elem ix.ty; letI := k.ops.aux
    letI := (d.serData h).ser; letI := ix.ty.ser; letI := ix.ty.lawfulSer; letI := k.ser.ser
    letI := (d.serLaws h).clone; letI := k.ser.serClone
    ⟨inferInstanceAs (SerClone (ColumnsRegion d.R ix.ty.interp k.bundle.O)), nofun⟩
  | _, _, .stack d k, h =>
    letI := k.ops.aux; letI := (d.serData h).ser; letI := k.ser.ser
    letI := (d.serLaws h).clone; letI := k.ser.serClone
    ⟨inferInstanceAs (SerClone (FlatStack d.R k.bundle.O)), nofun⟩

/-- **`SerClone` for every description of the sub-universe** -/
theorem RDesc.serClone {v : Ty} {ix : Ix} (d : RDesc v ix) (h : d.Serde) :
    @SerClone d.R _ _ d.bundle.inst d.aux (d.ser h) := (d.serLaws h).clone

end Laws

/-! ### C16, for every composition -/
section Props
variable [SizeEnv] {v : Ty} {ix : Ix}

/-- **C16 for every composition** with a serde implementation: `deserialize(serialize(r))` succeeds
and is, field by field, `r.clone()` (nothing skipped, capacities exact); wherever the invariant
holds the deserialised value satisfies it too and continues like the original: equal reads at every
valid index, and after any further pushes equal returned indices, equal refusals, equal reads. -/
theorem C16_every_composition (d : RDesc v ix) (h : d.Serde) (r : d.R) :
    letI := d.ser h
    Ser.de (Ser.ser r) = some (RegionAux.clone r) ∧
    (Inv r → ∃ r', Ser.de (Ser.ser r) = some r' ∧ Sim r' r ∧ Inv r' ∧ ObsEq r' r) :=
  letI := d.ser h
  haveI := d.serClone h
  ⟨C16.de_ser r, fun hi => ⟨RegionAux.clone r, C16.de_ser r, (LawfulAux.clone_sim r hi).1, (LawfulAux.clone_sim r hi).2,
    sim_observe _ r (LawfulAux.clone_sim r hi).1 (LawfulAux.clone_sim r hi).2 hi⟩⟩

/-- C16 in every state reachable by pushes and clears -/
theorem C16_reachable (d : RDesc v ix) (h : d.Serde) (r : d.R) (hr : Reachable r) :
    letI := d.ser h
    ∃ r', Ser.de (Ser.ser r) = some r' ∧ ObsEq r' r :=
  letI := d.ser h
  haveI := d.serClone h
  C16.continuation_reachable r hr

/-- C16 in every state reachable through the whole API -/
theorem C16_reach (d : RDesc v ix) (h : d.Serde) (r : d.R) (hr : Reach r) :
    letI := d.ser h
    ∃ r', Ser.de (Ser.ser r) = some r' ∧ ObsEq r' r :=
  letI := d.ser h
  haveI := d.serClone h
  haveI := d.lawfulMerge (d.uncoded_of_serde h)
  C16.continuation_reach r hr

/-- a second round trip changes nothing any more -/
theorem C16_twice (d : RDesc v ix) (h : d.Serde) (r r' : d.R) :
    letI := d.ser h
    Ser.de (Ser.ser r) = some r' → Ser.de (Ser.ser r') = some (RegionAux.clone (RegionAux.clone r)) :=
  letI := d.ser h
  haveI := d.serClone h
  C16.de_ser_twice r r'

omit [SizeEnv] in
/-- payloads and indices of every shape come back unchanged -/
theorem C16_every_shape (t : Ty) (a : t.interp) : Ser.de (self := t.ser) (Ser.ser (self := t.ser) a) = some a :=
  letI := t.ser
  haveI := t.lawfulSer
  LawfulSer.de_ser a

omit [SizeEnv] in
/-- every index container comes back as its `clone` -/
theorem C16_every_index_container {i : Ty} (k : IdxKind i) (c : k.bundle.O) :
    letI := k.ops.aux; letI := k.ser.ser
    Ser.de (Ser.ser c) = some (IdxAux.clone c) :=
  letI := k.ops.aux; letI := k.ser.ser
  haveI := k.ser.serClone
  SerCloneIdx.de_ser c

end Props

/-! ### non-vacuity and agreement with instance resolution -/
section Examples

example : exColumns.Serde := by decide
example : exStack.Serde := by decide
example : exTuple.Serde := by decide
example : exSlice.Serde := by decide
example : exCollapse.Serde := by decide
example : exResult.Serde := by decide
example : exOddSize.Serde := by decide
example : ¬ exCodec.Serde := by decide
example : ¬ exHuff.Serde := by decide
/-- a `tupleCons` that does not end in `tupleNil` has no `SerFields` -/
example : ¬ (RDesc.tupleCons (.mirror .nat) (.mirror .nat)).Serde := by decide
example : (RDesc.tupleCons (.mirror .nat) (.mirror .nat)).Uncoded := by decide

-- the `Ser` instances are the ones instance resolution finds for the catalogued type
example : exColumns.ser (by decide) = (inferInstance : Ser (ColumnsRegion (CollapseSequence (ConsecPairs
    (StringRegion (OwnedRegion UInt8)) (Capd IndexOptimized)) Nat) Nat (Capd IndexOptimized))) := rfl
example : exStack.ser (by decide) = (inferInstance : Ser (FlatStack (ConsecPairs (OwnedRegion UInt8) (Capd IndexList))
    (Capd IndexOptimized))) := rfl
example : exTuple.ser (by decide) = (inferInstance : Ser (TupleCons (OptionRegion (StringRegion (OwnedRegion UInt8)))
    (TupleCons (ResultRegion (OwnedRegion Nat) (MirrorRegion Nat)) TupleNil))) := rfl
example : exSlice.ser (by decide) = (inferInstance : Ser (SliceRegion (SliceRegion (StringRegion (OwnedRegion UInt8))
    (Capd (VecIdx (Nat × Nat) 16))) (Capd (VecIdx (Nat × Nat) 16)))) := rfl
example : exCollapse.ser (by decide) = (inferInstance : Ser (CollapseSequence (MirrorRegion F64) F64)) := rfl
example : exResult.ser (by decide) = (inferInstance : Ser (FlatStack (ResultRegion (SliceRegion (MirrorRegion Nat)
    (Capd (VecIdx Nat 1))) (StringRegion (OwnedRegion UInt8))) (Capd (VecIdx (Except (Nat × Nat) (Nat × Nat)) 24)))) := rfl
-- an index tuple inside an index container: the flat `SerTuple` form, as resolution picks it
example : (RDesc.stack (.tupleCons (.option str) (.tupleCons (.owned .nat) .tupleNil)) .vecStd).ser (by decide) =
    (inferInstance : Ser (FlatStack (TupleCons (OptionRegion (StringRegion (OwnedRegion UInt8))) (TupleCons (OwnedRegion Nat) TupleNil))
      (Capd (VecIdx ((Option (Nat × Nat)) × ((Nat × Nat) × Unit)) 40)))) := rfl
-- a remembered index of pair shape inside `CollapseSequence`
example : (RDesc.collapse str).ser (by decide) =
    (inferInstance : Ser (CollapseSequence (StringRegion (OwnedRegion UInt8)) (Nat × Nat))) := rfl

section Std
attribute [local instance] SizeEnv.std

/-- the round trip, evaluated: a populated columns / collapse / consec / string region with slack
capacity (16 for 4 bytes) comes back as its exact-capacity clone, remembered index and stride
state included -/
example : (run (Region.default : exColumns.R) [.push [[104, 105], []], .push [[104, 105]], .push []]).bind
      (fun r => Ser.de (self := exColumns.ser (by decide)) (Ser.ser (self := exColumns.ser (by decide)) r)) =
    (run (Region.default : exColumns.R) [.push [[104, 105], []], .push [[104, 105]], .push []]).map RegionAux.clone := by rfl
example : (run (Region.default : exTuple.R) [.push (some [1, 2], (.ok [5, 6], ())), .push (none, (.error 7, ()))]).bind
      (fun r => Ser.de (self := exTuple.ser (by decide)) (Ser.ser (self := exTuple.ser (by decide)) r)) =
    (run (Region.default : exTuple.R) [.push (some [1, 2], (.ok [5, 6], ())), .push (none, (.error 7, ()))]).map RegionAux.clone := by rfl

/-- C16 at populated reachable states -/
example : ∃ r : exColumns.R, index r 1 = some [[104, 105]] ∧
    ∃ r', Ser.de (self := exColumns.ser (by decide)) (Ser.ser (self := exColumns.ser (by decide)) r) = some r' ∧ ObsEq r' r := by
  obtain ⟨r, hr, hx⟩ := exColumns_populated
  exact ⟨r, hx, C16_reachable exColumns (by decide) r hr⟩
example : ∃ r : exStack.R, index r 1 = some [3] ∧
    ∃ r', Ser.de (self := exStack.ser (by decide)) (Ser.ser (self := exStack.ser (by decide)) r) = some r' ∧ ObsEq r' r := by
  obtain ⟨r, hr, hx⟩ := exStack_populated
  exact ⟨r, hx, C16_reachable exStack (by decide) r hr⟩
example : ∃ r : exTuple.R, Reachable r ∧
    ∃ r', Ser.de (self := exTuple.ser (by decide)) (Ser.ser (self := exTuple.ser (by decide)) r) = some r' ∧ ObsEq r' r := by
  obtain ⟨r, hr, -⟩ := exTuple_populated
  exact ⟨r, hr, C16_reachable exTuple (by decide) r hr⟩
example : ∃ r : exSlice.R, Reachable r ∧
    ∃ r', Ser.de (self := exSlice.ser (by decide)) (Ser.ser (self := exSlice.ser (by decide)) r) = some r' ∧ ObsEq r' r := by
  obtain ⟨r, hr, -⟩ := exSlice_populated
  exact ⟨r, hr, C16_reachable exSlice (by decide) r hr⟩
example : ∃ r : exResult.R, Reachable r ∧
    ∃ r', Ser.de (self := exResult.ser (by decide)) (Ser.ser (self := exResult.ser (by decide)) r) = some r' ∧ ObsEq r' r := by
  obtain ⟨r, hr, -⟩ := exResult_populated
  exact ⟨r, hr, C16_reachable exResult (by decide) r hr⟩
example : ∃ r : exOddSize.R, Reachable r ∧
    ∃ r', Ser.de (self := exOddSize.ser (by decide)) (Ser.ser (self := exOddSize.ser (by decide)) r) = some r' ∧ ObsEq r' r := by
  obtain ⟨r, hr, -⟩ := exOddSize_populated
  exact ⟨r, hr, C16_reachable exOddSize (by decide) r hr⟩

end Std
end Examples

end FC.Universe
