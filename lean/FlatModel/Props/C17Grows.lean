import FlatModel.Proofs.GrowsClear
import FlatModel.Props.C17
import FlatModel.Props.C18
/-! C17, last sentence, for regions whose set of storages is not fixed:
"Without pre-sizing, pushing n plain-data items into any non-coded region costs O(log n) allocator
calls per internal storage — never one per item."

`Props/C17.lean` (`log_growth`) proves this for `Sized` regions (a fixed list of vectors, addressed by
position). Here storages are addressed by *key* (`Proofs/Grows.lean`): `G.capAt r k` is the capacity
`heap_size` reports for the storage with key `k`, and `0` while that storage does not exist. The
theorems hold for any keyed view `G` with `GrowthLaw G P`: the structural instances (`LawfulGrows`,
`P = HeapInv.CapInv`, every uncoded constructor over every index container) and the bridge from
`Sized` (`GrowthLaw.ofSized`, `P = Sized.CInv`).

Granularity as in `log_growth`: one observation per region push. Every elementary operation
underneath (`MVec.reserve`, `Capd.fit`) is itself a `cstep`, so any finer history of a storage is a
`Chain` with the same end points and `changes_log` gives the same bound for it. -/
namespace FC
open Region C08

namespace C17
section Keyed
variable {R V I : Type} [Region R V I] [RegionAux R] {G : Grows R} {P : R → Prop}

/-- the capacity of the storage with key `k` after each push of a batch -/
def histK (G : Grows R) (r : R) : List V → Key → List Nat
  | [], _ => []
  | v :: vs, k => match push r v with
    | none => []
    | some (r', _) => G.capAt r' k :: histK G r' vs k

theorem histK_chain (L : GrowthLaw G P) (r r' : R) (vs : List V) (h : P r) (hp : runPushes r vs = some r')
    (k : Key) (hk : G.tracked k = true) :
    Chain (G.capAt r k) (histK G r vs k) ∧ (histK G r vs k).getLastD (G.capAt r k) = G.capAt r' k := by
  induction vs generalizing r with
  | nil => simp only [runPushes, Option.some.injEq] at hp; subst hp; exact ⟨trivial, rfl⟩
  | cons v vs ih =>
    simp only [runPushes] at hp
    cases h1 : push r v with
    | none => simp [h1] at hp
    | some p =>
      obtain ⟨r1, i⟩ := p
      simp only [h1] at hp
      obtain ⟨g1, g2⟩ := ih r1 (L.inv_push r r1 v i h h1) hp
      simp only [histK, h1]
      refine ⟨⟨L.push_step r r1 v i h h1 k hk, g1⟩, ?_⟩
      rw [← g2]
      cases histK G r1 vs k <;> simp [List.getLastD]

/-- **C17, without pre-sizing, per storage** (`log_growth` for regions whose storages appear over
time): along any batch of pushes from any state satisfying the invariant, the capacity of the storage
with key `k` changes at most `log2 (its final capacity) + 1` times. For a storage that does not exist
in `r` the history starts at `0` (`appears_from_zero`), so its first allocation is counted. -/
theorem log_growth_keyed (L : GrowthLaw G P) (r r' : R) (vs : List V) (h : P r) (hp : runPushes r vs = some r')
    (k : Key) (hk : G.tracked k = true) :
    changes (G.capAt r k) (histK G r vs k) ≤ Nat.log2 (G.capAt r' k) + 1 := by
  obtain ⟨h1, h2⟩ := histK_chain L r r' vs h hp k hk
  rw [← h2]
  exact changes_log _ _ h1

/-- a storage that is not there yet has capacity `0`: its history starts from `0` -/
theorem appears_from_zero (L : GrowthLaw G P) (r : R) (k : Key) (hk : k ∉ G.keys r) : G.capAt r k = 0 :=
  L.capAt_notin r k hk

/-- every change at least doubles the capacity; the first allocation is a change from `0` -/
theorem push_doubles_keyed (L : GrowthLaw G P) (r r' : R) (v : V) (i : I) (h : P r) (hp : push r v = some (r', i))
    (k : Key) (hk : G.tracked k = true) (hne : G.capAt r' k ≠ G.capAt r k) :
    2 * G.capAt r k ≤ G.capAt r' k ∧ 1 ≤ G.capAt r' k := by
  have := L.push_step r r' v i h hp k hk
  unfold cstep at this
  omega

/-- storages never disappear: the old keys embed, in order, into the new ones -/
theorem pushes_keys_sublist (L : GrowthLaw G P) (r r' : R) (vs : List V) (h : P r) (hp : runPushes r vs = some r') :
    (G.keys r).Sublist (G.keys r') :=
  (L.run_step r r' vs h hp).1

/-- capacities never shrink over a batch -/
theorem pushes_capAt_mono (L : GrowthLaw G P) (r r' : R) (vs : List V) (h : P r) (hp : runPushes r vs = some r')
    (k : Key) (hk : G.tracked k = true) : G.capAt r k ≤ G.capAt r' k :=
  cstep_le ((L.run_step r r' vs h hp).2 k hk)

/-! #### in terms of what `heap_size` reports -/

/-- position `j` of the final `heap_size` report is the storage with key `(keys r')[j]` -/
theorem capAt_heap (L : GrowthLaw G P) (r : R) (h : P r) (j : Nat) (hj : j < (G.keys r).length) :
    G.capAt r ((G.keys r)[j]) = (capsOf r).getD j 0 := by
  have := congrArg (fun l => l.getD j 0) (L.keys_caps r h)
  simpa [List.getD_eq_getElem?_getD, List.getElem?_map, List.getElem?_eq_getElem hj] using this

theorem keys_length (L : GrowthLaw G P) (r : R) (h : P r) : (G.keys r).length = (RegionAux.heap r).length := by
  have := congrArg List.length (L.keys_caps r h)
  simpa [capsOf, capsL] using this

/-- **C17 on `heap_size`**: for the `j`-th pair of the final report, the number of capacity changes of
that storage during the batch is at most `log2 (its reported capacity) + 1` -/
theorem log_growth_heap (L : GrowthLaw G P) (r r' : R) (vs : List V) (h : P r) (hp : runPushes r vs = some r')
    (j : Nat) (hj : j < (G.keys r').length) (hk : G.tracked ((G.keys r')[j]) = true) :
    changes (G.capAt r ((G.keys r')[j])) (histK G r vs ((G.keys r')[j])) ≤ Nat.log2 ((capsOf r').getD j 0) + 1 := by
  rw [← capAt_heap L r' (L.run_inv r r' vs h hp) j hj]
  exact log_growth_keyed L r r' vs h hp _ hk

/-! #### the total -/

theorem chain_zero (c : Nat) (ds : List Nat) (h : Chain c ds) (hl : ds.getLastD c = 0) : changes c ds = 0 := by
  induction ds generalizing c with
  | nil => rfl
  | cons d ds ih =>
    obtain ⟨h1, h2⟩ := h
    have hl' : ds.getLastD d = 0 := by
      cases ds <;> simpa [List.getLastD] using hl
    have hd := ih d h2 hl'
    have hle : ∀ (c : Nat) (ds : List Nat), Chain c ds → c ≤ ds.getLastD c := by
      intro c ds
      induction ds generalizing c with
      | nil => intro _; exact Nat.le_refl _
      | cons d ds ih =>
        intro hc
        have := ih d hc.2
        have h3 := cstep_le hc.1
        have : (d :: ds).getLastD c = ds.getLastD d := by cases ds <;> simp [List.getLastD]
        omega
    have hd0 : d = 0 := by have := hle d ds h2; omega
    have hc0 : c = 0 := by have := cstep_le h1; omega
    subst hd0 hc0
    simp [changes, hd]

/-- a key that is not among the final storages never had a capacity: nothing was allocated for it -/
theorem no_changes_elsewhere (L : GrowthLaw G P) (r r' : R) (vs : List V) (h : P r) (hp : runPushes r vs = some r')
    (k : Key) (hk : G.tracked k = true) (hn : k ∉ G.keys r') : changes (G.capAt r k) (histK G r vs k) = 0 := by
  obtain ⟨h1, h2⟩ := histK_chain L r r' vs h hp k hk
  exact chain_zero _ _ h1 (by rw [h2]; exact L.capAt_notin r' k hn)

/-- capacity changes observed during the batch, summed over the storages `ks` -/
def allocs (G : Grows R) (r : R) (vs : List V) (ks : List Key) : Nat :=
  (ks.map fun k => changes (G.capAt r k) (histK G r vs k)).sum

/-- the tracked storages of a state -/
def trackedKeys (G : Grows R) (r : R) : List Key := (G.keys r).filter G.tracked

/-- **C17, the total**: the number of capacity changes (allocator calls, at push granularity) a batch
causes, over all tracked storages of the final state — those are all that were ever allocated,
`no_changes_elsewhere` — is at most `Σ (log2 capacity + 1)` over those storages -/
theorem total_allocs_le (L : GrowthLaw G P) (r r' : R) (vs : List V) (h : P r) (hp : runPushes r vs = some r') :
    allocs G r vs (trackedKeys G r') ≤ ((trackedKeys G r').map fun k => Nat.log2 (G.capAt r' k) + 1).sum := by
  unfold allocs
  have : ∀ k ∈ trackedKeys G r', G.tracked k = true := fun k hk => (List.mem_filter.1 hk).2
  generalize trackedKeys G r' = ks at this
  induction ks with
  | nil => exact Nat.le_refl _
  | cons k ks ih =>
    have h1 := log_growth_keyed L r r' vs h hp k (this k (by simp))
    have h2 := ih fun x hx => this x (by simp [hx])
    simp only [List.map_cons, List.sum_cons]
    omega

/-- when every storage is tracked (no column vector inside), the bound is over the whole final
`heap_size` report: `Σ over the reported capacities c of (log2 c + 1)` -/
theorem total_allocs_le_heap (L : GrowthLaw G P) (hall : ∀ k, G.tracked k = true) (r r' : R) (vs : List V)
    (h : P r) (hp : runPushes r vs = some r') :
    allocs G r vs (G.keys r') ≤ ((capsOf r').map fun c => Nat.log2 c + 1).sum := by
  have ht : trackedKeys G r' = G.keys r' := List.filter_eq_self.2 fun k _ => hall k
  have := total_allocs_le L r r' vs h hp
  rw [ht] at this
  rw [← L.keys_caps r' (L.run_inv r r' vs h hp), List.map_map]
  exact this

/-! #### `clear` releases nothing -/
theorem clear_keeps (L : GrowthLaw G P) (r : R) (h : P r) :
    G.keys (clear r) = G.keys r ∧ ∀ k, G.tracked k = true → G.capAt r k ≤ G.capAt (clear r) k :=
  ⟨L.keys_clear r h, fun k hk => cstep_le (L.clear_step r h k hk)⟩

end Keyed

/-! ### the structural instances: `P` is the capacity invariant, which holds in every reachable state -/
section Structural
variable {R V I : Type} [Region R V I] [RegionAux R] [HeapInv R] [LawfulHeap R] [G : Grows R] [L : LawfulGrows R]

/-- **C17 (`log_growth`) for every region with `LawfulGrows`**, from any state reachable through the API -/
theorem log_growth_reach (r r' : R) (vs : List V) (hr : Reach r) (hp : runPushes r vs = some r')
    (k : Key) (hk : Grows.tracked R k = true) :
    changes (Grows.capAt r k) (histK G r vs k) ≤ Nat.log2 (Grows.capAt r' k) + 1 :=
  log_growth_keyed L.law r r' vs (C18.reach_capInv r hr) hp k hk

end Structural

/-! ### `clear` keeps every reported capacity exactly -/
section ClearExactly
variable {R V I : Type} [Region R V I] [RegionAux R] [HeapInv R] [LawfulHeap R] [G : Grows R] [L : LawfulGrows R]
  [C : ClearExact R]

/-- states built by `default`, `push` and `clear` -/
inductive Filled : R → Prop
  | default : Filled (default : R)
  | push (r r' : R) (v : V) (i : I) : Filled r → Region.push r v = some (r', i) → Filled r'
  | clear (r : R) : Filled r → Filled (Region.clear r)

omit [HeapInv R] [LawfulHeap R] G L C in
theorem Filled.reach {r : R} (h : Filled r) : Reach r := by
  induction h with
  | default => exact Reach.default
  | push r r' v i _ hp ih => exact Reach.push r r' v i ih hp
  | clear r _ ih => exact Reach.clear r ih

omit [RegionAux R] [HeapInv R] [LawfulHeap R] G L C in
theorem Filled.pushes {r r' : R} (vs : List V) (h : Filled r) (hp : runPushes r vs = some r') : Filled r' := by
  induction vs generalizing r with
  | nil => simp only [runPushes, Option.some.injEq] at hp; subst hp; exact h
  | cons v vs ih =>
    simp only [runPushes] at hp
    cases h1 : Region.push r v with
    | none => simp [h1] at hp
    | some p =>
      obtain ⟨r1, i⟩ := p
      simp only [h1] at hp
      exact ih (Filled.push r r1 v i h h1) hp

omit L in
theorem filled_anch (r : R) (h : Filled r) : HeapInv.CapInv r ∧ C.Anch r := by
  induction h with
  | default => exact ⟨LawfulHeap.cap_default, C.anch_default⟩
  | push r r' v i _ hp ih => exact ⟨LawfulHeap.cap_push r r' v i ih.1 hp, C.anch_push r r' v i ih.1 ih.2 hp⟩
  | clear r _ ih => exact ⟨LawfulHeap.cap_clear r ih.1, C.anch_clear r ih.1 ih.2⟩

/-- **`clear` keeps the allocations, exactly**: in every state built by `default`, `push`, `clear`, a
`clear` leaves the set of storages and every reported capacity as they were (the column vector
included): `heap_size` reports the same capacities before and after -/
theorem clear_keeps_exactly (r : R) (h : Filled r) :
    Grows.keys (clear r) = Grows.keys r ∧ (∀ k, Grows.capAt (clear r) k = Grows.capAt r k) ∧
    (RegionAux.heap (clear r)).map (·.2) = (RegionAux.heap r).map (·.2) := by
  obtain ⟨hc, ha⟩ := filled_anch r h
  have h1 := L.law.keys_clear r hc
  have h2 := C.clear_exact r hc ha
  refine ⟨h1, h2, ?_⟩
  have e1 := L.law.keys_caps (clear r) (LawfulHeap.cap_clear r hc)
  have e2 := L.law.keys_caps r hc
  show capsOf (clear r) = capsOf r
  rw [← e1, ← e2, h1]
  exact List.map_congr_left fun k _ => h2 k

/-- `HeapInv.CapInv` alone does not give exactness (hence `ClearExact.Anch`): a `ConsecPairs` over
`IndexList` whose only offset sits in the `u64` vector satisfies `CapInv`, and `clear` allocates the
`u32` vector for the leading `0`. No state built by `default`, `push`, `clear` looks like this. -/
theorem clear_exact_needs_anchor :
    ∃ r : ConsecPairs (OwnedRegion UInt8) (Capd IndexList), HeapInv.CapInv r ∧
      (RegionAux.heap r).map (·.2) = [0, 8, 0] ∧ (RegionAux.heap (clear r)).map (·.2) = [4, 8, 0] :=
  ⟨⟨⟨⟨[], 0⟩⟩, ⟨⟨[], [2 ^ 32]⟩, [0, 1]⟩, 2 ^ 32⟩,
   ⟨Nat.le_refl 0, List.Forall₂.cons (Nat.le_refl _) (List.Forall₂.cons (Nat.le_refl _) List.Forall₂.nil), by decide⟩,
   by decide, by decide⟩
end ClearExactly

/-! ### the entry that is not tracked: the column vector of `ColumnsRegion`

`Model/Ops.lean` reports the `Vec<R>` of columns as `(len * size_of::<R>(), len * size_of::<R>())`: its
capacity is not modelled. Read as a capacity, that entry grows by one column at a time, so the
doubling law is *false* for it; it is the only such entry (`columnsTracked`). -/
section ColumnVector
abbrev Cols3 := ColumnsRegion (OwnedRegion Nat) (Nat × Nat) (Capd (VecIdx Nat 8))

/-- two columns, then a row with three values: the reported capacity of the column vector goes from
`2 * 24` to `3 * 24` bytes — neither unchanged nor doubled -/
theorem columnsVec_not_cstep : ∃ (r r' : Cols3) (row : List (List Nat)) (i : Nat),
    runPushes (default : Cols3) [[[1], [2]]] = some r ∧ push r row = some (r', i) ∧
    Grows.capAt r [0] = 48 ∧ Grows.capAt r' [0] = 72 ∧ (capsOf r).head? = some 48 ∧ (capsOf r').head? = some 72 ∧
    ¬ cstep (Grows.capAt r [0]) (Grows.capAt r' [0]) :=
  ⟨_, _, [[1], [2], [3]], _, rfl, rfl, rfl, rfl, rfl, rfl, by unfold cstep; decide⟩

/-- hence the growth law with *every* key tracked is false for `ColumnsRegion` -/
theorem columns_all_tracked_false :
    ¬ GrowthLaw ({ (inferInstance : Grows Cols3) with tracked := fun _ => true }) (HeapInv.CapInv (R := Cols3)) := by
  intro L
  obtain ⟨r, r', row, i, h0, hp, _, _, _, _, hn⟩ := columnsVec_not_cstep
  have hc : HeapInv.CapInv r := C18.reach_capInv r (C18.reach_pushes _ r _ Reach.default h0)
  exact hn (L.push_step r r' row i hc hp [0] rfl)

section
variable {R V I O : Type} [Region R V I] [IdxCont O Nat] [RegionAux R] [IdxAux O] [ElemSize I]
  [HeapInv R] [IdxHeapInv O] [LawfulHeap R] [LawfulIdxHeap O] [Grows R] [LawfulGrows R] [IdxGrows O]

omit [LawfulIdxHeap O] [LawfulGrows R] [IdxGrows O] [HeapInv R] [LawfulHeap R] [IdxHeapInv O] in
/-- what is true of that entry (the `_partial` variant for key `[0]`): it is `size_of::<R>()` times
the number of columns, which a push never decreases and raises to the width of the row -/
theorem columnsVec_partial (r r' : ColumnsRegion R I O) (row : List V) (i : Nat) (hp : push r row = some (r', i)) :
    Grows.capAt r [0] = r.cols.length * RegionAux.selfSize R ∧
    Grows.capAt r' [0] = r'.cols.length * RegionAux.selfSize R ∧
    r'.cols.length = max r.cols.length row.length := by
  obtain ⟨is, h1, _⟩ := columns_push_some r r' row i hp
  refine ⟨rfl, rfl, ?_⟩
  have : ∀ (cs : List R) (vs : List V) (cs' : List R) (is : List I), pushRow cs vs = some (cs', is) → cs'.length = cs.length := by
    intro cs vs
    induction vs generalizing cs with
    | nil => intro cs' is h; simp only [pushRow_nil, Option.some.injEq, Prod.mk.injEq] at h; rw [← h.1]
    | cons v vs ih =>
      intro cs' is h
      cases cs with
      | nil => simp [pushRow] at h
      | cons c cs =>
        simp only [pushRow] at h
        cases h1 : push c v with
        | none => simp [h1] at h
        | some p =>
          obtain ⟨c', i⟩ := p
          simp only [h1] at h
          cases h2 : pushRow cs vs with
          | none => simp [h2] at h
          | some q =>
            obtain ⟨cs1, is1⟩ := q
            simp only [h2, Option.some.injEq, Prod.mk.injEq] at h
            rw [← h.1, List.length_cons, List.length_cons, ih cs cs1 is1 h2]
  rw [this _ _ _ _ h1]
  simp only [padCols, List.length_append, List.length_replicate]
  omega

omit [LawfulIdxHeap O] [LawfulGrows R] [IdxGrows O] [HeapInv R] [LawfulHeap R] [IdxHeapInv O] in
/-- … so along a batch that entry changes at most once per *added column* (never once per row): the
number of its changes is at most the number of columns gained. (In the crate the column vector is a
`Vec<R>` filled by `push`, to which `log_growth_mvec` applies.) -/
theorem columnsVec_changes_le (r r' : ColumnsRegion R I O) (rows : List (List V)) (hp : runPushes r rows = some r') :
    r.cols.length ≤ r'.cols.length ∧
    changes (Grows.capAt r [0]) (histK (inferInstance : Grows (ColumnsRegion R I O)) r rows [0]) ≤ r'.cols.length - r.cols.length := by
  induction rows generalizing r with
  | nil => simp only [runPushes, Option.some.injEq] at hp; subst hp; exact ⟨Nat.le_refl _, Nat.zero_le _⟩
  | cons row rows ih =>
    simp only [runPushes] at hp
    cases h1 : push r row with
    | none => simp [h1] at hp
    | some p =>
      obtain ⟨r1, i⟩ := p
      simp only [h1] at hp
      obtain ⟨g1, g2⟩ := ih r1 hp
      obtain ⟨e0, e1, e2⟩ := columnsVec_partial r r1 row i h1
      simp only [histK, h1, changes]
      have hle : r.cols.length ≤ r1.cols.length := by omega
      refine ⟨Nat.le_trans hle g1, ?_⟩
      by_cases hc : r1.cols.length = r.cols.length
      · have : Grows.capAt r1 [0] = Grows.capAt r [0] := by rw [e0, e1, hc]
        rw [if_pos this]
        omega
      · have : (if Grows.capAt r1 [0] = Grows.capAt r [0] then 0 else 1) ≤ 1 := by split <;> omega
        omega
end
end ColumnVector

/-! ### the first allocation counts -/
/-- `grow 0 n = n`: a storage of capacity `0` that receives `n ≥ 1` elements is allocated with
capacity `n`; that is a `cstep` and one change -/
theorem first_allocation (n : Nat) (hn : 1 ≤ n) : grow 0 n = n ∧ cstep 0 (grow 0 n) ∧ changes 0 [grow 0 n] = 1 := by
  have h : grow 0 n = n := by unfold grow; omega
  refine ⟨h, cstep_zero _, ?_⟩
  rw [h]
  simp only [changes]
  have : n ≠ 0 := by omega
  simp [this]

end C17
end FC
