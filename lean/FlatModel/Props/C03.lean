import FlatModel.Model.FlatStack
import FlatModel.Props.C01
/-! C03: FlatStack is a faithful append-only sequence for every region and every index container. -/
namespace FC
open Region

section
variable {R V I S : Type} [Region R V I] [IdxCont S I] [LawfulRegion R] [LawfulIdxCont S]

/-- the stack represents the list `spec` of copied values -/
def FlatStack.Rep (fs : FlatStack R S) (spec : List V) : Prop :=
  Inv fs.region ∧ IdxCont.Inv fs.indices ∧ (IdxCont.iter fs.indices).length = spec.length ∧
  ∀ (k : Nat) (i : I), (IdxCont.iter fs.indices)[k]? = some i →
    Valid fs.region i ∧ ∃ u w, index fs.region i = some u ∧ spec[k]? = some w ∧ same (R := R) u w

namespace C03

theorem rep_default : (FlatStack.default : FlatStack R S).Rep ([] : List V) := by
  refine ⟨LawfulRegion.inv_default, LawfulIdxCont.inv_default, ?_, ?_⟩
  · simp [FlatStack.default, LawfulIdxCont.iter_default]
  · intro k i h
    simp [FlatStack.default, LawfulIdxCont.iter_default] at h

/-- `copy` appends to the represented list (when the region accepts the value) -/
theorem rep_copy (fs : FlatStack R S) (spec : List V) (v : V) (h : fs.Rep spec) (ha : Accepts fs.region v) :
    ∃ fs', fs.copy v = some fs' ∧ fs'.Rep (spec ++ [v]) := by
  obtain ⟨hin, hc, hlen, hall⟩ := h
  obtain ⟨r', i, hp, u, hu, hs⟩ := LawfulRegion.push_ok fs.region v hin ha
  obtain ⟨hin', hvi⟩ := LawfulRegion.push_inv fs.region r' v i hin hp
  refine ⟨⟨IdxCont.push fs.indices i, r'⟩, by simp [FlatStack.copy, hp], hin', LawfulIdxCont.inv_push _ _ hc, ?_, ?_⟩
  · simp [LawfulIdxCont.iter_push _ _ hc, hlen]
  · intro k j hk
    simp only [LawfulIdxCont.iter_push _ _ hc] at hk
    by_cases hlt : k < (IdxCont.iter fs.indices).length
    · rw [List.getElem?_append_left hlt] at hk
      obtain ⟨hv, u0, w0, h1, h2, h3⟩ := hall k j hk
      obtain ⟨f1, f2⟩ := LawfulRegion.frame fs.region r' v i j hin hv hp
      refine ⟨f1, u0, w0, by rw [f2]; exact h1, ?_, h3⟩
      rw [List.getElem?_append_left (by omega)]; exact h2
    · have hk' : k = (IdxCont.iter fs.indices).length := by
        rcases Nat.lt_or_ge k ((IdxCont.iter fs.indices).length + 1) with h | h
        · omega
        · rw [List.getElem?_eq_none (by simp; omega)] at hk; cases hk
      subst hk'
      simp at hk
      subst hk
      refine ⟨hvi, u, v, hu, ?_, hs⟩
      rw [hlen]; simp

/-- **C03**: what a stack representing `spec` answers -/
theorem observers (fs : FlatStack R S) (spec : List V) (h : fs.Rep spec) :
    fs.len = spec.length ∧ fs.isEmpty = spec.isEmpty ∧
    (∀ k, spec.length ≤ k → fs.get k = none) ∧
    (∀ k w, spec[k]? = some w → ∃ u, fs.get k = some u ∧ same (R := R) u w) ∧
    fs.iter.length = spec.length := by
  obtain ⟨hin, hc, hlen, hall⟩ := h
  refine ⟨?_, ?_, ?_, ?_, ?_⟩
  · rw [FlatStack.len, LawfulIdxCont.len_eq _ hc, hlen]
  · rw [FlatStack.isEmpty, LawfulIdxCont.isEmpty_eq _ hc]
    cases h1 : IdxCont.iter fs.indices <;> cases h2 : spec <;> simp_all
  · intro k hk
    simp only [FlatStack.get, LawfulIdxCont.index_eq _ k hc]
    rw [List.getElem?_eq_none (by omega)]
  · intro k w hw
    have hk : k < (IdxCont.iter fs.indices).length := by
      rw [hlen]; exact (List.getElem?_eq_some_iff.mp hw).1
    have hi : (IdxCont.iter fs.indices)[k]? = some (IdxCont.iter fs.indices)[k] := List.getElem?_eq_getElem hk
    obtain ⟨_, u, w', h1, h2, h3⟩ := hall k _ hi
    rw [hw] at h2; cases h2
    exact ⟨u, by simp only [FlatStack.get, LawfulIdxCont.index_eq _ k hc, hi, h1], h3⟩
  · simp [FlatStack.iter, hlen]

/-- a `copy` that succeeded appended its value -/
theorem rep_copy_of_some (fs fs' : FlatStack R S) (spec : List V) (v : V) (h : fs.Rep spec)
    (hc : fs.copy v = some fs') : fs'.Rep (spec ++ [v]) := by
  have ha : Accepts fs.region v := by
    apply Classical.byContradiction
    intro hna
    have := LawfulRegion.push_refuses fs.region v h.1 hna
    simp [FlatStack.copy, this] at hc
  obtain ⟨fs'', h1, h2⟩ := rep_copy fs spec v h ha
  rw [h1] at hc
  cases hc
  exact h2

/-- `extend` (and hence `Extend::extend`) is repeated `copy` -/
theorem rep_extend (fs fs' : FlatStack R S) (spec vs : List V) (h : fs.Rep spec)
    (he : fs.extend vs = some fs') : fs'.Rep (spec ++ vs) := by
  induction vs generalizing fs spec with
  | nil => simp only [FlatStack.extend, Option.some.injEq] at he; subst he; simpa using h
  | cons v vs ih =>
    simp only [FlatStack.extend] at he
    cases hc : fs.copy v with
    | none => simp [hc] at he
    | some fs1 =>
      simp only [hc] at he
      have := ih fs1 (spec ++ [v]) (rep_copy_of_some fs fs1 spec v h hc) he
      simpa using this

/-- `from_iter` is `extend` on a fresh stack -/
theorem rep_fromIter (fs' : FlatStack R S) (vs : List V)
    (he : FlatStack.fromIter (R := R) (S := S) vs = some fs') : fs'.Rep vs := by
  have := rep_extend (FlatStack.default : FlatStack R S) fs' [] vs rep_default he
  simpa using this

/-- `clear` empties the stack -/
theorem rep_clear (fs : FlatStack R S) (spec : List V) (h : fs.Rep spec) : fs.clear.Rep ([] : List V) := by
  refine ⟨LawfulRegion.clear_inv _ h.1, LawfulIdxCont.inv_clear _, ?_, ?_⟩
  · simp [FlatStack.clear, LawfulIdxCont.iter_clear]
  · intro k i hk
    simp [FlatStack.clear, LawfulIdxCont.iter_clear] at hk

end C03
end
end FC
