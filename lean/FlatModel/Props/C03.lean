import FlatModel.Model.FlatStack
import FlatModel.Props.C01
/-! C03: FlatStack is a faithful append-only sequence for every region and every index container. -/
namespace FC
open Region

section
variable {R V I S : Type} [Region R V I] [IdxCont S I] [LawfulRegion R] [LawfulIdxCont S]

/-- the stack represents the list `spec` of copied values -/
def FlatStack.Rep (fs : FlatStack R S) (spec : List V) : Prop :=
  Inv fs.region ∧ IdxCont.Inv fs.indices ∧ (IdxCont.iter fs.indices).length = spec.length ∧
  ∀ (k : Nat) (i : I), (IdxCont.iter fs.indices)[k]? = some i →
    Valid fs.region i ∧ ∃ u w, index fs.region i = some u ∧ spec[k]? = some w ∧ same (R := R) u w

namespace C03

theorem rep_default : (FlatStack.default : FlatStack R S).Rep ([] : List V) := by
  refine ⟨LawfulRegion.inv_default, LawfulIdxCont.inv_default, ?_, ?_⟩
  · simp [FlatStack.default, LawfulIdxCont.iter_default]
  · intro k i h
    simp [FlatStack.default, LawfulIdxCont.iter_default] at h

/-- `copy` appends to the represented list (when the region accepts the value) -/
theorem rep_copy (fs : FlatStack R S) (spec : List V) (v : V) (h : fs.Rep spec) (ha : Accepts fs.region v) :
    ∃ fs', fs.copy v = some fs' ∧ fs'.Rep (spec ++ [v]) := by
  obtain ⟨hin, hc, hlen, hall⟩ := h
  obtain ⟨r', i, hp, u, hu, hs⟩ := LawfulRegion.push_ok fs.region v hin ha
  obtain ⟨hin', hvi⟩ := LawfulRegion.push_inv fs.region r' v i hin hp
  refine ⟨⟨IdxCont.push fs.indices i, r'⟩, by simp [FlatStack.copy, hp], hin', LawfulIdxCont.inv_push _ _ hc, ?_, ?_⟩
  · simp [LawfulIdxCont.iter_push _ _ hc, hlen]
  · intro k j hk
    simp only [LawfulIdxCont.iter_push _ _ hc] at hk
    by_cases hlt : k < (IdxCont.iter fs.indices).length
    · rw [List.getElem?_append_left hlt] at hk
      obtain ⟨hv, u0, w0, h1, h2, h3⟩ := hall k j hk
      obtain ⟨f1, f2⟩ := LawfulRegion.frame fs.region r' v i j hin hv hp
      refine ⟨f1, u0, w0, by rw [f2]; exact h1, ?_, h3⟩
      rw [List.getElem?_append_left (by omega)]; exact h2
    · have hk' : k = (IdxCont.iter fs.indices).length := by
        rcases Nat.lt_or_ge k ((IdxCont.iter fs.indices).length + 1) with h | h
        · omega
        · rw [List.getElem?_eq_none (by simp; omega)] at hk; cases hk
      subst hk'
      simp at hk
      subst hk
      refine ⟨hvi, u, v, hu, ?_, hs⟩
      rw [hlen]; simp

/-- **C03**: what a stack representing `spec` answers -/
theorem observers (fs : FlatStack R S) (spec : List V) (h : fs.Rep spec) :
    fs.len = spec.length ∧ fs.isEmpty = spec.isEmpty ∧
    (∀ k, spec.length ≤ k → fs.get k = none) ∧
    (∀ k w, spec[k]? = some w → ∃ u, fs.get k = some u ∧ same (R := R) u w) ∧
    fs.iter.length = spec.length := by
  obtain ⟨hin, hc, hlen, hall⟩ := h
  refine ⟨?_, ?_, ?_, ?_, ?_⟩
  · rw [FlatStack.len, LawfulIdxCont.len_eq _ hc, hlen]
  · rw [FlatStack.isEmpty, LawfulIdxCont.isEmpty_eq _ hc]
    cases h1 : IdxCont.iter fs.indices <;> cases h2 : spec <;> simp_all
  · intro k hk
    simp only [FlatStack.get, LawfulIdxCont.index_eq _ k hc]
    rw [List.getElem?_eq_none (by omega)]
  · intro k w hw
    have hk : k < (IdxCont.iter fs.indices).length := by
      rw [hlen]; exact (List.getElem?_eq_some_iff.mp hw).1
    have hi : (IdxCont.iter fs.indices)[k]? = some (IdxCont.iter fs.indices)[k] := List.getElem?_eq_getElem hk
    obtain ⟨_, u, w', h1, h2, h3⟩ := hall k _ hi
    rw [hw] at h2; cases h2
    exact ⟨u, by simp only [FlatStack.get, LawfulIdxCont.index_eq _ k hc, hi, h1], h3⟩
  · simp [FlatStack.iter, hlen]

/-- a `copy` that succeeded appended its value -/
theorem rep_copy_of_some (fs fs' : FlatStack R S) (spec : List V) (v : V) (h : fs.Rep spec)
    (hc : fs.copy v = some fs') : fs'.Rep (spec ++ [v]) := by
  have ha : Accepts fs.region v := by
    apply Classical.byContradiction
    intro hna
    have := LawfulRegion.push_refuses fs.region v h.1 hna
    simp [FlatStack.copy, this] at hc
  obtain ⟨fs'', h1, h2⟩ := rep_copy fs spec v h ha
  rw [h1] at hc
  cases hc
  exact h2

/-- `extend` (and hence `Extend::extend`) is repeated `copy` -/
theorem rep_extend (fs fs' : FlatStack R S) (spec vs : List V) (h : fs.Rep spec)
    (he : fs.extend vs = some fs') : fs'.Rep (spec ++ vs) := by
  induction vs generalizing fs spec with
  | nil => simp only [FlatStack.extend, Option.some.injEq] at he; subst he; simpa using h
  | cons v vs ih =>
    simp only [FlatStack.extend] at he
    cases hc : fs.copy v with
    | none => simp [hc] at he
    | some fs1 =>
      simp only [hc] at he
      have := ih fs1 (spec ++ [v]) (rep_copy_of_some fs fs1 spec v h hc) he
      simpa using this

/-- `from_iter` is `extend` on a fresh stack -/
theorem rep_fromIter (fs' : FlatStack R S) (vs : List V)
    (he : FlatStack.fromIter (R := R) (S := S) vs = some fs') : fs'.Rep vs := by
  have := rep_extend (FlatStack.default : FlatStack R S) fs' [] vs rep_default he
  simpa using this

/-- `clear` empties the stack -/
theorem rep_clear (fs : FlatStack R S) (spec : List V) (h : fs.Rep spec) : fs.clear.Rep ([] : List V) := by
  refine ⟨LawfulRegion.clear_inv _ h.1, LawfulIdxCont.inv_clear _, ?_, ?_⟩
  · simp [FlatStack.clear, LawfulIdxCont.iter_clear]
  · intro k i hk
    simp [FlatStack.clear, LawfulIdxCont.iter_clear] at hk

end C03
end
end FC

namespace FC
open Region

theorem map_eq_filterMap_some {α β : Type} (f : α → Option β) (l : List α) (h : ∀ x ∈ l, (f x).isSome) :
    l.map f = (l.filterMap f).map some := by
  induction l with
  | nil => rfl
  | cons a l ih =>
    have ha := h a (List.mem_cons_self ..)
    cases hf : f a with
    | none => simp [hf] at ha
    | some b =>
      simp only [List.map_cons, List.filterMap_cons, hf, List.map_cons]
      rw [ih (fun x hx => h x (List.mem_cons_of_mem _ hx))]

section
variable {R V I S : Type} [Region R V I] [IdxCont S I] [LawfulRegion R] [LawfulIdxCont S]

namespace C03
/-- **C03 (iteration)**: iterating a stack that represents `spec` yields, in order, one item per
copied value, each `same` as that value — never a panic, never another element. A cloned iterator
is the same list again (values are immutable in the model), and the remaining count after `n`
steps is exactly `spec.length - n` (what `size_hint` brackets). -/
theorem iter_spec (fs : FlatStack R S) (spec : List V) (h : fs.Rep spec) :
    ∃ us : List V, fs.iter = us.map some ∧ us.length = spec.length ∧
      ∀ (k : Nat) (u : V), us[k]? = some u → ∃ w, spec[k]? = some w ∧ same (R := R) u w := by
  obtain ⟨hin, hc, hlen, hall⟩ := h
  have hsome : ∀ i ∈ IdxCont.iter fs.indices, (index fs.region i).isSome := by
    intro i hi
    obtain ⟨k, hk, rfl⟩ := List.getElem_of_mem hi
    obtain ⟨_, u, _, hu, _, _⟩ := hall k _ (List.getElem?_eq_getElem hk)
    simp [hu]
  refine ⟨(IdxCont.iter fs.indices).filterMap (index fs.region), map_eq_filterMap_some _ _ hsome, ?_, ?_⟩
  · have := congrArg List.length (map_eq_filterMap_some (index fs.region) _ hsome)
    simp only [List.length_map] at this
    rw [← this, hlen]
  · intro k u hk
    have hmap := map_eq_filterMap_some (index fs.region) (IdxCont.iter fs.indices) hsome
    have hk' : ((IdxCont.iter fs.indices).map (index fs.region))[k]? = some (some u) := by
      rw [hmap, List.getElem?_map, hk]; rfl
    rw [List.getElem?_map] at hk'
    cases hi : (IdxCont.iter fs.indices)[k]? with
    | none => simp [hi] at hk'
    | some i =>
      simp only [hi, Option.map_some, Option.some.injEq] at hk'
      obtain ⟨_, u', w, hu', hw, hs⟩ := hall k i hi
      rw [hk'] at hu'
      cases hu'
      exact ⟨w, hw, hs⟩
end C03
end
end FC
