import FlatModel.Proofs.Codec
import FlatModel.Props.Catalogue
/-! C07: the dictionary codec region reads back what was pushed, after any history of pushes, clears
and merge generations; it refuses exactly the ambiguous literals.

Route taken for the empty string: `WF` (ghost definition `Codec.Dict.WF` in Model/Codec.lean) has two
parts, `hit` (every dictionary hit `lookup s = some t` has `decode.get t = some s`, `s ≠ []`, `t < 256`)
and `stats` (the Misra-Gries summary never holds the empty string). `stats` is needed because an empty
heavy hitter is *not* harmless: `new_from` would give it a tag whose decode entry is `None`
(`BytesMap` treats empty entries as absent), and pushing `[]` would then read back as the one-byte tag
(`empty_heavy_hitter_breaks_roundtrip` below). `encode` never records `[]` (`if let Some(&tag) = bytes.first()`),
so `stats` is an invariant of every reachable dictionary; `wf_newFrom` assumes only `stats` of the sources,
nothing about their dictionaries, and `newFrom_hit_any` is the part that holds for arbitrary sources. -/
namespace FC.C07
open FC FC.Codec

/-! ### 1/2: the invariant and its re-establishment by every merge -/

theorem wf_default : Dict.default.WF := Dict.wf_default

/-- for ANY sources: every hit of the merged dictionary is a one-byte tag and, unless it is the empty
string, decodes back; the key came from the merged summary -/
theorem newFrom_hit_any (srcs : List Dict) (s : Bytes) (t : Nat) (h : (Dict.newFrom srcs).lookup s = some t) :
    t < 256 ∧ (∃ c, (s, c) ∈ (mergedMG srcs).done) ∧ (s ≠ [] → (Dict.newFrom srcs).decode.get t = some s) :=
  Dict.newFrom_hit srcs h

/-- the merge re-establishes `WF` assuming only that no source summary holds the empty string
(nothing is assumed about the sources' dictionaries) -/
theorem wf_newFrom (srcs : List Dict) (hs : ∀ s ∈ srcs, ∀ e ∈ s.mg.inner, e.1 ≠ []) : (Dict.newFrom srcs).WF :=
  Dict.wf_newFrom hs

theorem wf_newFrom_of_wf (srcs : List Dict) (hs : ∀ s ∈ srcs, s.WF) : (Dict.newFrom srcs).WF :=
  Dict.wf_newFrom fun s h => (hs s h).stats

/-- the hypothesis of `wf_newFrom` cannot be dropped: from a (non-reachable) source whose summary holds the
empty string, the merged dictionary maps `[]` to tag 0, stores it as `[0]`, and reads `[0]` back -/
theorem empty_heavy_hitter_breaks_roundtrip :
    (Dict.newFrom [demoBad]).lookup [] = some 0 ∧
    ((Dict.newFrom [demoBad]).encode' []).map (fun p => p.2.decodeBytes p.1) = some [0] := by
  set_option maxRecDepth 100000 in decide

/-- the merged dictionary starts with empty statistics -/
theorem newFrom_stats (srcs : List Dict) : (Dict.newFrom srcs).mg = ⟨[]⟩ ∧ (Dict.newFrom srcs).seen = [] :=
  ⟨Dict.newFrom_mg srcs, Dict.newFrom_seen srcs⟩

/-- the decode table of a merged dictionary is a well-formed `BytesMap`, for any sources -/
theorem newFrom_decode_ok (srcs : List Dict) : (Dict.newFrom srcs).decode.Ok := Dict.newFrom_decode_ok srcs

/-! ### 3: one `encode` -/

/-- what `encode` stored decodes to what was pushed; the dictionary itself is untouched (only the
statistics change) and the invariant is kept -/
theorem decode_encode (d d' : Dict) (b stored : Bytes) (hw : d.WF) (h : d.encode' b = some (stored, d')) :
    d'.decodeBytes stored = b ∧ d'.decode = d.decode ∧ d'.encode = d.encode ∧ d'.WF := by
  obtain ⟨hs, rfl⟩ := Dict.encode'_some h
  refine ⟨?_, Dict.observe_decode d b, Dict.observe_encode d b, Dict.wf_observe hw b⟩
  rw [Dict.decodeBytes_congr (Dict.observe_decode d b)]
  exact Dict.decode_stored hw hs

/-! ### 4: one `push` -/

theorem roundtrip (r r' : Codec.Region) (b : Bytes) (i : Nat × Nat) (hw : r.codec.WF)
    (hp : Region.push r b = some (r', i)) : Region.index r' i = some b :=
  Codec.Region.push_roundtrip hw hp

/-- every earlier in-range index reads the same before and after the push (this needs no invariant) -/
theorem frame (r r' : Codec.Region) (b : Bytes) (i j : Nat × Nat)
    (hp : Region.push r b = some (r', i)) (hj : j.1 ≤ j.2 ∧ j.2 ≤ r.inner.length) :
    Region.index r' j = Region.index r j ∧ ∃ u, Region.index r j = some u :=
  ⟨Codec.Region.push_frame hp hj, _, Codec.Region.index_eq_of_le hj⟩

/-- exact characterisation of refusal (the D7 assertion): only a literal whose first byte is a live
dictionary tag is refused -/
theorem refuses_ambiguous (r : Codec.Region) (b : Bytes) :
    Region.push r b = none ↔
      (r.codec.lookup b = none ∧ ∃ t rest, b = t :: rest ∧ (r.codec.decode.get t.toNat).isSome) := by
  show Codec.Region.push r b = none ↔ _
  rw [Codec.Region.push_none_iff, Dict.stored_none_iff]

/-- the empty string is always accepted -/
theorem accepts_empty (r : Codec.Region) : (Region.push r ([] : Bytes)).isSome := by
  cases h : Region.push r ([] : Bytes) with
  | some _ => rfl
  | none =>
    obtain ⟨_, t, rest, hb, _⟩ := (refuses_ambiguous r []).1 h
    cases hb

/-- anything in the dictionary is always accepted -/
theorem accepts_hit (r : Codec.Region) (b : Bytes) (t : Nat) (hl : r.codec.lookup b = some t) :
    (Region.push r b).isSome := by
  cases h : Region.push r b with
  | some _ => rfl
  | none =>
    have := ((refuses_ambiguous r b).1 h).1
    rw [hl] at this; cases this

/-- a region with an empty dictionary (fresh or cleared) accepts everything -/
theorem accepts_all_default (inner : Bytes) (mg : MG) (seen : List Nat) (b : Bytes) :
    (Region.push (⟨inner, ⟨[], BytesMap.default, mg, seen⟩⟩ : Codec.Region) b).isSome := by
  cases h : Region.push (⟨inner, ⟨[], BytesMap.default, mg, seen⟩⟩ : Codec.Region) b with
  | some _ => rfl
  | none =>
    obtain ⟨_, t, rest, _, hg⟩ := (refuses_ambiguous _ b).1 h
    rw [BytesMap.get_of_ge (by simp [BytesMap.default])] at hg
    cases hg

/-! non-vacuity on a concrete two-generation history (`demoGen1`, `demoGen2` in Proofs/Codec.lean):
"ab","ab","c" pushed, merged; then "ab","ab","de" pushed, merged again -/

/-- generation 1: "ab" ↦ tag 0, "c" ↦ tag 1; the literal `[0,5]` is refused, `[]` accepted -/
example : (demoGen1.map fun r => (r.codec.lookup [97, 98], r.codec.lookup [99],
    (Codec.Region.push r [0, 5]).isSome, (Codec.Region.push r []).isSome)) = some (some 0, some 1, false, true) := by
  set_option maxRecDepth 100000 in decide
/-- "ab" is stored as the single byte 0, "de" as a literal -/
example : (demoGen2.map fun (r, i, j) => (i, j, r.inner)) = some ((0, 1), (2, 4), [0, 0, 100, 101]) := by
  set_option maxRecDepth 100000 in decide
example : (demoGen2.map fun (r, i, j) => (Codec.Region.index r i, Codec.Region.index r j)) =
    some (some [97, 98], some [100, 101]) := by
  set_option maxRecDepth 100000 in decide
/-- generation 2 re-derives the dictionary from the new statistics only -/
example : (demoGen2.map fun (r, _, _) =>
    let r' := Codec.Region.merge [r]
    (r'.codec.lookup [97, 98], r'.codec.lookup [100, 101], r'.codec.lookup [99])) = some (some 0, some 1, none) := by
  set_option maxRecDepth 100000 in decide

/-! ### 5: histories -/

theorem reachable_wf (r : Codec.Region) (h : Codec.Reachable r) : r.codec.WF := h.wf

/-- after any chain of pushes, clears and merge generations: a successful push reads back, leaves the
earlier items alone, keeps the dictionary, and a refused push is an ambiguous literal -/
theorem generations (r : Codec.Region) (h : Codec.Reachable r) (b : Bytes) :
    (∀ r' i, Region.push r b = some (r', i) →
      Region.index r' i = some b ∧ Codec.Reachable r' ∧
      r'.codec.decode = r.codec.decode ∧ r'.codec.encode = r.codec.encode ∧
      ∀ j : Nat × Nat, j.1 ≤ j.2 ∧ j.2 ≤ r.inner.length → Region.index r' j = Region.index r j) ∧
    (Region.push r b = none →
      r.codec.lookup b = none ∧ ∃ t rest, b = t :: rest ∧ (r.codec.decode.get t.toNat).isSome) := by
  refine ⟨fun r' i hp => ⟨roundtrip r r' b i h.wf hp, h.push hp, ?_, ?_, fun j hj => (frame r r' b i j hp hj).1⟩,
    (refuses_ambiguous r b).1⟩
  · obtain ⟨s, _, rfl, _⟩ := Codec.Region.push_some hp
    exact Dict.observe_decode _ _
  · obtain ⟨s, _, rfl, _⟩ := Codec.Region.push_some hp
    exact Dict.observe_encode _ _

/-- in the vocabulary of the region laws: merging regions that satisfy the invariant yields one that does
(`Inv r` is `r.codec.WF`), so the generic history theorems C01/C02/C08 extend across merge generations -/
theorem merge_inv (rs : List Codec.Region) (h : ∀ r ∈ rs, Region.Inv r) :
    Region.Inv (RegionAux.mergeRegions rs : Codec.Region) :=
  Codec.Region.merge_wf h

/-- a whole batch pushed into a reachable region reads back item by item -/
theorem generations_batch (r : Codec.Region) (h : Codec.Reachable r) (bs : List Bytes) :
    ∀ (r' : Codec.Region) (is : List (Nat × Nat)),
      bs.foldl (fun (acc : Option (Codec.Region × List (Nat × Nat))) b =>
        acc.bind fun (q, is) => (Region.push q b).map fun (q', i) => (q', is ++ [i])) (some (r, [])) = some (r', is) →
      Codec.Reachable r' ∧ is.map (Region.index r') = bs.map some := by
  suffices key : ∀ (bs : List Bytes) (q : Codec.Region) (js : List (Nat × Nat)) (cs : List Bytes),
      Codec.Reachable q → js.map (Region.index q) = cs.map some →
      (∀ j ∈ js, j.1 ≤ j.2 ∧ j.2 ≤ q.inner.length) →
      ∀ (r' : Codec.Region) (is : List (Nat × Nat)),
      bs.foldl (fun (acc : Option (Codec.Region × List (Nat × Nat))) b =>
        acc.bind fun (q, is) => (Region.push q b).map fun (q', i) => (q', is ++ [i])) (some (q, js)) = some (r', is) →
      Codec.Reachable r' ∧ is.map (Region.index r') = (cs ++ bs).map some by
    intro r' is hf
    have := key bs r [] [] h rfl (fun _ hj => by cases hj) r' is hf
    simpa using this
  intro bs
  induction bs with
  | nil =>
    intro q js cs hq hjs _ r' is hf
    simp only [List.foldl_nil, Option.some.injEq, Prod.mk.injEq] at hf
    obtain ⟨rfl, rfl⟩ := hf
    exact ⟨hq, by simpa using hjs⟩
  | cons b bs ih =>
    intro q js cs hq hjs hval r' is hf
    simp only [List.foldl_cons, Option.bind_some] at hf
    cases hp : Region.push q b with
    | none =>
      rw [hp] at hf
      have : ∀ l : List Bytes, l.foldl (fun (acc : Option (Codec.Region × List (Nat × Nat))) b =>
          acc.bind fun (q, is) => (Region.push q b).map fun (q', i) => (q', is ++ [i])) none = none := by
        intro l; induction l with
        | nil => rfl
        | cons _ _ ih => simpa using ih
      simp only [Option.map_none] at hf
      rw [this] at hf; cases hf
    | some p =>
      obtain ⟨q', i⟩ := p
      rw [hp] at hf
      simp only [Option.map_some] at hf
      obtain ⟨s, _, hq', hi⟩ := Codec.Region.push_some hp
      have hlen : q'.inner.length = q.inner.length + s.length := by rw [hq']; simp
      have := ih q' (js ++ [i]) (cs ++ [b]) (hq.push hp) ?_ ?_ r' is hf
      · simpa using this
      · rw [List.map_append, List.map_append, ← hjs]
        congr 1
        · apply List.map_congr_left
          intro j hj
          exact (frame q q' b i j hp (hval j hj)).1
        · simp only [List.map_cons, List.map_nil, roundtrip q q' b i hq.wf hp]
      · intro j hj
        rcases List.mem_append.1 hj with hj | hj
        · have := hval j hj; omega
        · simp only [List.mem_singleton] at hj
          subst hj; rw [hi]; dsimp only; omega

/-! ### 7: compression -/

/-- a string the dictionary knows is stored as exactly one byte (full statement: there is no further
condition to discharge; the `_partial` suffix only marks that *which* strings are known is
characterised separately below) -/
theorem heavy_hitters_one_byte_partial (r r' : Codec.Region) (b : Bytes) (t : Nat) (i : Nat × Nat)
    (hl : r.codec.lookup b = some t) (hp : Region.push r b = some (r', i)) :
    i.2 - i.1 = 1 ∧ r'.inner = r.inner ++ [UInt8.ofNat t] := by
  obtain ⟨s, hs, rfl, rfl⟩ := Codec.Region.push_some hp
  rw [Dict.stored_hit hl] at hs
  simp only [Option.some.injEq] at hs
  subst hs
  exact ⟨by simp, rfl⟩

/-- if the merged summary has at most as many heavy hitters as there are free tags, each of them gets a
tag (`freeTags` = number of `t < 256` not seen as a first byte in any source) -/
theorem heavy_hitters_all_tagged (srcs : List Dict) (hfree : (mergedMG srcs).done.length ≤ freeTags srcs) :
    ∀ e ∈ (mergedMG srcs).done, ((Dict.newFrom srcs).lookup e.1).isSome :=
  Dict.newFrom_all_tagged srcs hfree

/-- … and when no Misra-Gries compaction happens during the merge (fewer than `MG.cap` entries in total; `MG.cap` is
the capacity literal of `MisraGries::default()`, regenerated from the source — 1024 in the crate as verified), the
heavy hitters of the merge are all the (consolidated) entries of all the sources -/
theorem all_sources_tagged (srcs : List Dict) (hsmall : (srcs.map (·.mg.done.length)).sum < MG.cap)
    (hfree : (mergedMG srcs).done.length ≤ freeTags srcs) :
    ∀ s ∈ srcs, ∀ e ∈ s.mg.done, ((Dict.newFrom srcs).lookup e.1).isSome := by
  intro s hs e he
  obtain ⟨c, hc⟩ := mergedMG_complete srcs hsmall s hs e he
  exact Dict.newFrom_all_tagged srcs hfree (e.1, c) hc

/-- in terms of what was pushed: a source that started with empty statistics (fresh, cleared or merged)
and saw fewer than `MG.cap` strings has every non-empty one of them tagged by the merge, and the merged
region then stores it as one byte -/
theorem all_pushed_tagged (srcs : List Dict) (hsmall : (srcs.map (·.mg.done.length)).sum < MG.cap)
    (hfree : (mergedMG srcs).done.length ≤ freeTags srcs)
    (d0 : Dict) (bs : List Bytes) (h0 : d0.mg = ⟨[]⟩) (hbs : bs.length < MG.cap)
    (hs : bs.foldl Dict.observe d0 ∈ srcs) (b : Bytes) (hb : b ∈ bs) (hne : b ≠ []) :
    ((Dict.newFrom srcs).lookup b).isSome ∧
    ∀ (inner : Bytes) r' i, Region.push (⟨inner, Dict.newFrom srcs⟩ : Codec.Region) b = some (r', i) → i.2 - i.1 = 1 := by
  have hmg := Dict.observe_foldl_mg bs d0 (by rw [h0]; simp only [List.length_nil]; omega)
  rw [h0, List.nil_append] at hmg
  have hin : (b, 1) ∈ (bs.foldl Dict.observe d0).mg.inner := by
    rw [hmg]
    exact List.mem_map.2 ⟨b, List.mem_filter.2 ⟨hb, by simpa using hne⟩, rfl⟩
  have hcnt : ∀ e ∈ (bs.foldl Dict.observe d0).mg.inner, e.2 ≠ 0 := by
    intro e he
    rw [hmg] at he
    obtain ⟨x, _, rfl⟩ := List.mem_map.1 he
    exact Nat.one_ne_zero
  obtain ⟨c, hc⟩ := MG.done_complete hcnt (b, 1) hin
  have hl := all_sources_tagged srcs hsmall hfree _ hs (b, c) hc
  generalize Dict.newFrom srcs = d at hl ⊢
  refine ⟨hl, fun inner r' i hp => ?_⟩
  cases hlt : d.lookup b with
  | none => rw [hlt] at hl; cases hl
  | some t => exact (heavy_hitters_one_byte_partial ⟨inner, d⟩ r' b t i hlt hp).1

/-- the hypotheses are satisfiable: one source that saw "ab","c","ab" (2 heavy hitters, 254 free tags) -/
example : let srcs := [[[97, 98], [99], [97, 98]].foldl Dict.observe Dict.default]
    (srcs.map (·.mg.done.length)).sum < MG.cap ∧ (mergedMG srcs).done.length ≤ freeTags srcs ∧
    (mergedMG srcs).done.length = 2 ∧ freeTags srcs = 254 := by
  set_option maxRecDepth 100000 in decide

/- The compaction case (`MG.cap` or more insertions, `tidy` drops entries) is treated in Props/C07MG.lean:
the Misra–Gries guarantee this `tidy` achieves, its composition through `new_from`, and
`dominant_strings_tagged`. Not proved: the converse direction (which strings do NOT get a tag). -/

/-! ### 6: the region laws, hence every composition over the codec region is covered -/

example : LawfulRegion Codec.Region := inferInstance
example : LawfulRegion (StringRegion Codec.Region) := inferInstance
example : LawfulRegion (ConsecPairs Codec.Region (Capd IndexOptimized)) := inferInstance

end FC.C07
