import FlatModel.Props.C07MG
/-! The classical Misra–Gries bound fails for the crate's summary at capacity 1024 (the value of the tuning constant
`MG.cap` in the crate as verified): kernel-checked. The capacity is a literal here (`MG.runK 1024`, the generic run of
Proofs/MisraGries.lean; `run_generic : run ops = MG.runK MG.cap ops`), because the adversarial stream is built for it —
the statement does not follow the regenerated `MG.cap` and stays true, as a statement about capacity 1024, when the
crate is retuned.
This module is not imported by anything; it takes about 13 minutes to check (`lake build FlatModel.Props.C07MGBig`):
`decide +kernel` runs the model on 2048 insertions (three compactions of 1024 entries) inside the kernel. -/
namespace FC.C07
open FC FC.Codec

/-- 512 two-byte keys -/
def attackKey (i : Nat) : Bytes := [UInt8.ofNat (i / 256), UInt8.ofNat (i % 256)]
/-- the victim: sorts after every `attackKey` -/
def attackVictim : Bytes := [255, 255]
/-- `a₀` with a reservoir of `r + 2`, `a₁ … a₅₁₁` with weight 1; then `r` rounds, each inserting the victim with
weight 2 and topping up `a₁ … a₅₁₁` by 1. Every round ends in a compaction whose entry 512 is the victim with
count 2: `sub = 1`, the victim is dropped, every `aᵢ` is back to where it was (`a₀` one lower). -/
def attack (k r : Nat) : List (Bytes × Nat) :=
  (attackKey 0, r + 2) :: ((List.range (k - 1)).map fun i => (attackKey (i + 1), 1)) ++
  (List.replicate r ((attackVictim, 2) :: ((List.range (k - 1)).map fun i => (attackKey (i + 1), 1)))).flatten

/-- 2048 insertions of total weight 2055: the victim was inserted with weight 6 > 2055/513 = 4 and is absent
from the summary. (With 40 rounds, evaluated only: weight 80 of 21073, 21073/513 = 41, estimate 0; the proved
bound `(total + n)/513` gives 81.) -/
theorem classical_bound_fails_1024 :
    est (MG.runK 1024 (attack 512 3)) attackVictim = 0 ∧ trueCount (attack 512 3) attackVictim = 6 ∧
    total (attack 512 3) / 513 = 4 ∧ (attack 512 3).length = 2048 := by
  set_option maxRecDepth 10000000 in
  set_option maxHeartbeats 8000000 in
  decide +kernel

end FC.C07
