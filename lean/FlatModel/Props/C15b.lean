import FlatModel.Proofs.Items2
import FlatModel.Props.C15
/-! C15, part 2: equality and ordering of the Huffman read items `Wrapped` (`PartialEq` / `PartialOrd` /
`Ord`, four match arms over raw × encoded) are those of the owned symbol lists, whichever
representation either side has and whichever container (raw, or coded with whatever code) issued it;
that order is a lawful total order. -/
namespace FC
open Region

namespace C15

/-- **C15** `a == b` is `==` of the decoded symbol lists — in all four arms: encoded/encoded (`Iterator::eq`
of two decoders, possibly over different codes), encoded/raw, raw/encoded, raw/raw (slice equality) -/
theorem wrapped_eq (a b : Wrapped) (xs ys : List Nat) (ha : a.decode = some xs) (hb : b.decode = some ys) :
    Wrapped.eq a b = some (listEq (· == ·) xs ys) := Wrapped.eq_of_decode a b xs ys ha hb

/-- **C15** `a.partial_cmp(b)` / `a.cmp(b)` is the lexicographic order of the decoded symbol lists, in all
four arms -/
theorem wrapped_cmp (a b : Wrapped) (xs ys : List Nat) (ha : a.decode = some xs) (hb : b.decode = some ys) :
    Wrapped.cmp a b = some (lexCmp compare xs ys) := Wrapped.cmp_of_decode a b xs ys ha hb

/-- the arms, one by one -/
theorem wrapped_cmp_arms (c₁ c₂ : Huff.Code) (b₁ b₂ : List Nat) (lo₁ hi₁ lo₂ hi₂ : Nat) (xs ys : List Nat)
    (h1 : Huff.decodeRange c₁ b₁ lo₁ hi₁ = some xs) (h2 : Huff.decodeRange c₂ b₂ lo₂ hi₂ = some ys) :
    Wrapped.cmp (.encoded c₁ b₁ lo₁ hi₁) (.encoded c₂ b₂ lo₂ hi₂) = some (lexCmp compare xs ys) ∧
    Wrapped.cmp (.encoded c₁ b₁ lo₁ hi₁) (.raw ys) = some (lexCmp compare xs ys) ∧
    Wrapped.cmp (.raw xs) (.encoded c₂ b₂ lo₂ hi₂) = some (lexCmp compare xs ys) ∧
    Wrapped.cmp (.raw xs) (.raw ys) = some (lexCmp compare xs ys) ∧
    Wrapped.eq (.encoded c₁ b₁ lo₁ hi₁) (.encoded c₂ b₂ lo₂ hi₂) = some (listEq (· == ·) xs ys) ∧
    Wrapped.eq (.encoded c₁ b₁ lo₁ hi₁) (.raw ys) = some (listEq (· == ·) xs ys) ∧
    Wrapped.eq (.raw xs) (.encoded c₂ b₂ lo₂ hi₂) = some (listEq (· == ·) xs ys) ∧
    Wrapped.eq (.raw xs) (.raw ys) = some (listEq (· == ·) xs ys) :=
  ⟨wrapped_cmp _ _ xs ys h1 h2, wrapped_cmp _ _ xs ys h1 rfl, wrapped_cmp _ _ xs ys rfl h2,
    wrapped_cmp _ _ xs ys rfl rfl, wrapped_eq _ _ xs ys h1 h2, wrapped_eq _ _ xs ys h1 rfl,
    wrapped_eq _ _ xs ys rfl h2, wrapped_eq _ _ xs ys rfl rfl⟩

/-- the result depends on the owned values only: not on the representation, the code, or the container -/
theorem wrapped_eq_cmp_indep (a a' b b' : Wrapped) (xs ys : List Nat) (ha : a.decode = some xs)
    (ha' : a'.decode = some xs) (hb : b.decode = some ys) (hb' : b'.decode = some ys) :
    Wrapped.eq a b = Wrapped.eq a' b' ∧ Wrapped.cmp a b = Wrapped.cmp a' b' := by
  rw [wrapped_eq a b xs ys ha hb, wrapped_eq a' b' xs ys ha' hb', wrapped_cmp a b xs ys ha hb,
    wrapped_cmp a' b' xs ys ha' hb']
  exact ⟨rfl, rfl⟩

/-- an item and the borrowed form of its owned value compare alike against anything -/
theorem wrapped_cmp_borrowAs (a b : Wrapped) (xs ys : List Nat) (ha : a.intoOwned = some xs)
    (hb : b.decode = some ys) :
    Wrapped.cmp (Wrapped.borrowAs xs) b = Wrapped.cmp a b ∧ Wrapped.cmp b (Wrapped.borrowAs xs) = Wrapped.cmp b a ∧
    Wrapped.eq (Wrapped.borrowAs xs) b = Wrapped.eq a b ∧ Wrapped.eq b (Wrapped.borrowAs xs) = Wrapped.eq b a := by
  rw [Wrapped.intoOwned_eq_decode] at ha
  exact ⟨(wrapped_eq_cmp_indep _ a b b xs ys rfl ha hb hb).2, (wrapped_eq_cmp_indep b b _ a ys xs hb hb rfl ha).2,
    (wrapped_eq_cmp_indep _ a b b xs ys rfl ha hb hb).1, (wrapped_eq_cmp_indep b b _ a ys xs hb hb rfl ha).1⟩

/-- **C15** two valid items from ANY two Huffman containers — raw or coded, the same or different codes —
compare exactly like the owned values `index` returns; the comparison does not panic -/
theorem huffman_items_cmp (h₁ h₂ : Huff.Container) (i j : Nat × Nat) (hi₁ : Inv h₁) (hv₁ : Valid h₁ i)
    (hi₂ : Inv h₂) (hv₂ : Valid h₂ j) :
    ∃ xs ys, index h₁ i = some xs ∧ index h₂ j = some ys ∧
      Wrapped.eq (h₁.item i) (h₂.item j) = some (listEq (· == ·) xs ys) ∧
      Wrapped.cmp (h₁.item i) (h₂.item j) = some (lexCmp compare xs ys) := by
  obtain ⟨xs, hxs⟩ := LawfulRegion.valid_reads h₁ i hi₁ hv₁
  obtain ⟨ys, hys⟩ := LawfulRegion.valid_reads h₂ j hi₂ hv₂
  have ha : (h₁.item i).decode = some xs := by rw [Huff.Container.item_decode h₁ i hv₁]; exact hxs
  have hb : (h₂.item j).decode = some ys := by rw [Huff.Container.item_decode h₂ j hv₂]; exact hys
  exact ⟨xs, ys, hxs, hys, wrapped_eq _ _ xs ys ha hb, wrapped_cmp _ _ xs ys ha hb⟩

/-- a valid item against a borrowed owned vector, both ways round -/
theorem huffman_item_cmp_borrowed (h : Huff.Container) (i : Nat × Nat) (hi : Inv h) (hv : Valid h i)
    (ys : List Nat) :
    ∃ xs, index h i = some xs ∧
      Wrapped.eq (h.item i) (Wrapped.borrowAs ys) = some (listEq (· == ·) xs ys) ∧
      Wrapped.eq (Wrapped.borrowAs ys) (h.item i) = some (listEq (· == ·) ys xs) ∧
      Wrapped.cmp (h.item i) (Wrapped.borrowAs ys) = some (lexCmp compare xs ys) ∧
      Wrapped.cmp (Wrapped.borrowAs ys) (h.item i) = some (lexCmp compare ys xs) := by
  obtain ⟨xs, hxs⟩ := LawfulRegion.valid_reads h i hi hv
  have ha : (h.item i).decode = some xs := by rw [Huff.Container.item_decode h i hv]; exact hxs
  exact ⟨xs, hxs, wrapped_eq _ _ xs ys ha rfl, wrapped_eq _ _ ys xs rfl ha, wrapped_cmp _ _ xs ys ha rfl,
    wrapped_cmp _ _ ys xs rfl ha⟩

/-- **C15** with C01: the same symbols pushed into any two containers that accept them yield equal items -/
theorem huffman_pushed_items_eq (h₁ h₂ : Huff.Container) (v : List Nat) (hi₁ : Inv h₁) (ha₁ : Accepts h₁ v)
    (hi₂ : Inv h₂) (ha₂ : Accepts h₂ v) :
    ∃ h₁' i h₂' j, push h₁ v = some (h₁', i) ∧ push h₂ v = some (h₂', j) ∧
      Wrapped.cmp (h₁'.item i) (h₂'.item j) = some .eq ∧ Wrapped.eq (h₁'.item i) (h₂'.item j) = some true := by
  obtain ⟨h₁', i, hp₁, v₁, hr₁, hs₁⟩ := LawfulRegion.push_ok h₁ v hi₁ ha₁
  obtain ⟨h₂', j, hp₂, v₂, hr₂, hs₂⟩ := LawfulRegion.push_ok h₂ v hi₂ ha₂
  obtain ⟨-, hv₁⟩ := LawfulRegion.push_inv h₁ h₁' v i hi₁ hp₁
  obtain ⟨-, hv₂⟩ := LawfulRegion.push_inv h₂ h₂' v j hi₂ hp₂
  have e1 : v₁ = v := hs₁
  have e2 : v₂ = v := hs₂
  rw [e1] at hr₁
  rw [e2] at hr₂
  have ha : (h₁'.item i).decode = some v := by rw [Huff.Container.item_decode h₁' i hv₁]; exact hr₁
  have hb : (h₂'.item j).decode = some v := by rw [Huff.Container.item_decode h₂' j hv₂]; exact hr₂
  refine ⟨h₁', i, h₂', j, hp₁, hp₂, ?_, ?_⟩
  · rw [wrapped_cmp _ _ v v ha hb, ItemsEx.natCmp_lawful.lex_refl]
  · rw [wrapped_eq _ _ v v ha hb]
    congr 1
    exact (listEq_eq_lexCmp (· == ·) compare (by intro x y; simp) v v).2 (ItemsEx.natCmp_lawful.lex_refl v)

/-! ### the order is a lawful total order -/

/-- the order on owned symbol vectors (`Ord for Vec<B>` over `Ord for B`) is lawful … -/
theorem symsCmp_lawful : LawfulCmp (lexCmp (compare : Nat → Nat → Ordering)) :=
  lexCmp_lawful ItemsEx.natCmp_lawful

/-- … and so is the order on vectors of Huffman items (items nested in slices) -/
theorem symsCmp_lawful_nested : LawfulCmp (lexCmp (lexCmp (compare : Nat → Nat → Ordering))) :=
  lexCmp_lawful symsCmp_lawful

theorem wrapped_cmp_refl (a : Wrapped) (xs : List Nat) (ha : a.decode = some xs) : Wrapped.cmp a a = some .eq := by
  rw [wrapped_cmp a a xs xs ha ha, ItemsEx.natCmp_lawful.lex_refl]

/-- `cmp == Equal` exactly when the owned values are equal -/
theorem wrapped_cmp_eq_iff (a b : Wrapped) (xs ys : List Nat) (ha : a.decode = some xs) (hb : b.decode = some ys) :
    Wrapped.cmp a b = some .eq ↔ a.intoOwned = b.intoOwned := by
  rw [wrapped_cmp a b xs ys ha hb, Wrapped.intoOwned_eq_decode, Wrapped.intoOwned_eq_decode, ha, hb]
  simp only [Option.some.injEq]
  exact ItemsEx.natCmp_lawful.lex_eq_iff xs ys

theorem wrapped_cmp_antisymm (a b : Wrapped) (xs ys : List Nat) (ha : a.decode = some xs) (hb : b.decode = some ys) :
    Wrapped.cmp a b = some .lt ↔ Wrapped.cmp b a = some .gt := by
  rw [wrapped_cmp a b xs ys ha hb, wrapped_cmp b a ys xs hb ha]
  simp only [Option.some.injEq]
  exact ItemsEx.natCmp_lawful.lex_antisymm xs ys

theorem wrapped_cmp_swap (a b : Wrapped) (xs ys : List Nat) (ha : a.decode = some xs) (hb : b.decode = some ys) :
    Wrapped.cmp b a = (Wrapped.cmp a b).map Ordering.swap := by
  rw [wrapped_cmp a b xs ys ha hb, wrapped_cmp b a ys xs hb ha, Option.map_some,
    ItemsEx.natCmp_lawful.lex_swap xs ys]

theorem wrapped_cmp_trans (a b c : Wrapped) (xs ys zs : List Nat) (ha : a.decode = some xs)
    (hb : b.decode = some ys) (hc : c.decode = some zs)
    (h1 : Wrapped.cmp a b = some .lt) (h2 : Wrapped.cmp b c = some .lt) : Wrapped.cmp a c = some .lt := by
  rw [wrapped_cmp a b xs ys ha hb] at h1
  rw [wrapped_cmp b c ys zs hb hc] at h2
  rw [wrapped_cmp a c xs zs ha hc]
  simp only [Option.some.injEq] at h1 h2 ⊢
  exact ItemsEx.natCmp_lawful.lex_trans xs ys zs h1 h2

/-- **C15** `a == b` iff `a.cmp(b) == Equal` -/
theorem wrapped_eq_iff_cmp_eq (a b : Wrapped) (xs ys : List Nat) (ha : a.decode = some xs)
    (hb : b.decode = some ys) : Wrapped.eq a b = some true ↔ Wrapped.cmp a b = some .eq := by
  rw [wrapped_eq a b xs ys ha hb, wrapped_cmp a b xs ys ha hb]
  simp only [Option.some.injEq]
  exact listEq_eq_lexCmp (· == ·) compare (by intro x y; simp) xs ys

/-! ### Satisfiability of the assumptions, and concrete instances -/

open ItemsEx2

/-- a raw container, a coded one, and one coded with a different code: consistent, with valid indices -/
example : Inv rawC ∧ Valid rawC (0, 3) ∧ Valid rawC (4, 6) ∧ Inv codedC ∧ Valid codedC (0, 2) ∧ Valid codedC (2, 6) ∧
    Inv codedD ∧ Valid codedD (0, 5) ∧ Valid codedD (5, 9) :=
  ⟨rawC_inv, rawC_valid _ (by decide), rawC_valid _ (by decide), codedC_inv, codedC_valid₁, codedC_valid₂,
    codedD_inv, codedD_valid₁, codedD_valid₂⟩

/-- `[2, 2]` is stored as symbols 4..6 of `rawC`, as bits 0..2 of `codedC` and as bits 5..9 of `codedD`;
`[1, 2, 2]` as symbols 0..3, bits 2..6 and bits 0..5. The items compare as the lists do. -/
example :
    Wrapped.eq (codedC.item (0, 2)) (rawC.item (4, 6)) = some true ∧
    Wrapped.cmp (codedC.item (0, 2)) (codedD.item (5, 9)) = some .eq ∧
    Wrapped.cmp (codedC.item (2, 6)) (codedD.item (5, 9)) = some .lt ∧
    Wrapped.cmp (codedC.item (0, 2)) (codedC.item (2, 6)) = some .gt ∧
    Wrapped.cmp (rawC.item (0, 3)) (codedD.item (0, 5)) = some .eq ∧
    Wrapped.cmp (codedD.item (0, 5)) (Wrapped.borrowAs [1, 2, 3]) = some .lt := by
  have c1 : (codedC.item (0, 2)).decode = some [2, 2] := by
    rw [Huff.Container.item_decode _ _ codedC_valid₁]; exact codedC_index₁
  have c2 : (codedC.item (2, 6)).decode = some [1, 2, 2] := by
    rw [Huff.Container.item_decode _ _ codedC_valid₂]; exact codedC_index₂
  have d1 : (codedD.item (0, 5)).decode = some [1, 2, 2] := by
    rw [Huff.Container.item_decode _ _ codedD_valid₁]; exact codedD_index₁
  have d2 : (codedD.item (5, 9)).decode = some [2, 2] := by
    rw [Huff.Container.item_decode _ _ codedD_valid₂]; exact codedD_index₂
  have r1 : (rawC.item (4, 6)).decode = some [2, 2] := rfl
  have r2 : (rawC.item (0, 3)).decode = some [1, 2, 2] := rfl
  rw [wrapped_eq _ _ _ _ c1 r1, wrapped_cmp _ _ _ _ c1 d2, wrapped_cmp _ _ _ _ c2 d2, wrapped_cmp _ _ _ _ c1 c2,
    wrapped_cmp _ _ _ _ r2 d1, wrapped_cmp _ _ _ _ d1 (rfl : (Wrapped.borrowAs [1, 2, 3]).decode = some [1, 2, 3])]
  decide

/-- the raw/raw arm uses slice comparison (common prefix, then lengths): a proper prefix is smaller -/
example : Wrapped.cmp (.raw [1, 2]) (.raw [1, 2, 0]) = some .lt ∧ Wrapped.cmp (.raw [2]) (.raw [1, 2, 0]) = some .gt ∧
    Wrapped.eq (.raw [1, 2]) (.raw [1, 2, 0]) = some false ∧ Wrapped.eq (.raw [1, 2]) (.raw [1, 2]) = some true := by
  decide

end C15
end FC
