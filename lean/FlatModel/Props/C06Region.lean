import FlatModel.Props.C01
import FlatModel.Proofs.HuffRegion
/-! C06 (region level): the Huffman containers are lawful regions, so C01 (round trip), C02 (frame) and
C08 (clear is fresh) and every composition theorem apply to them by instance resolution, within the
acceptance contract: raw mode accepts everything; coded mode accepts the items all of whose symbols
have a code, under the invariant `EncOK c ∧ TableOK c ∧ WFStore bytes bits`, which `merge_regions`
establishes (`merge_inv`) for valid statistics (`stats_valid`) and codes of depth ≤ 57. -/
namespace FC.C06
open FC FC.Huff Region

/-! ### instance resolution -/
example : LawfulRegion Huff.Container := inferInstance
example : LawfulRegion HuffU8 := inferInstance
example : LawfulDense Huff.Container := inferInstance
example : LawfulDense HuffU8 := inferInstance
example : DenseSim Huff.Container := inferInstance
example : DenseSim HuffU8 := inferInstance
example : LawfulRegion (ConsecPairs HuffU8 (Capd IndexOptimized)) := inferInstance
example : LawfulRegion (SliceRegion HuffU8 (Capd (VecIdx (Nat × Nat) 16))) := inferInstance
example : LawfulRegion (FlatStack Huff.Container (Capd (VecIdx (Nat × Nat) 16))) := inferInstance
example : LawfulRegion (FlatStack HuffU8 (Capd (VecIdx (Nat × Nat) 16))) := inferInstance
example : LawfulRegion (FlatStack (ConsecPairs HuffU8 (Capd IndexOptimized)) (Capd IndexOptimized)) := inferInstance
example : LawfulRegion (FlatStack (SliceRegion HuffU8 (Capd (VecIdx (Nat × Nat) 16))) (Capd (VecIdx (Nat × Nat) 16))) :=
  inferInstance

/-! ### what the ghost fields say -/

theorem inv_raw (h : Container) (hr : h.coded = none) : Inv h := Container.inv_raw hr
theorem inv_coded (h : Container) (c : Code) (bytes : List Nat) (bits : Nat) (hc : h.coded = some (c, bytes, bits)) :
    Inv h ↔ (EncOK c ∧ TableOK c ∧ WFStore bytes bits) := Container.inv_coded hc
theorem valid_raw (h : Container) (hr : h.coded = none) (i : Nat × Nat) :
    Valid h i ↔ (i.1 ≤ i.2 ∧ i.2 ≤ h.raw.length) := Container.valid_raw hr i
theorem valid_coded (h : Container) (c : Code) (bytes : List Nat) (bits : Nat) (hc : h.coded = some (c, bytes, bits))
    (i : Nat × Nat) : Valid h i ↔ ∃ w, Denotes c bytes bits i w := Container.valid_coded hc i
theorem accepts_raw (h : Container) (hr : h.coded = none) (v : List Nat) : Accepts h v := Container.accepts_raw hr v
theorem accepts_coded (h : Container) (c : Code) (bytes : List Nat) (bits : Nat) (hc : h.coded = some (c, bytes, bits))
    (v : List Nat) : Accepts h v ↔ ∀ s ∈ v, (c.lookup s).isSome := Container.accepts_coded hc v

/-! ### C01 / C02 / C08 for the Huffman containers, from the instances -/

/-- **C01** for `HuffmanContainer<u16>`: under the invariant, an accepted item is stored and read back -/
theorem roundtrip (h : Container) (hi : Inv h) (v : List Nat) (ha : Accepts h v) :
    ∃ h' i, push h v = some (h', i) ∧ index h' i = some v ∧ Inv h' ∧ Valid h' i := by
  obtain ⟨h', i, hp, v', hx, hs⟩ := LawfulRegion.push_ok h v hi ha
  obtain ⟨h1, h2⟩ := LawfulRegion.push_inv h h' v i hi hp
  exact ⟨h', i, hp, by rw [hx]; exact congrArg some hs, h1, h2⟩

/-- … and an item that is not accepted (a symbol without a code, in coded mode) is refused -/
theorem refused (h : Container) (hi : Inv h) (v : List Nat) (hna : ¬ Accepts h v) : push h v = none :=
  LawfulRegion.push_refuses h v hi hna

/-- **C01** for `HuffmanContainer<u8>` -/
theorem roundtrip_u8 (h : HuffU8) (hi : Inv h) (v : List UInt8) (ha : Accepts h v) :
    ∃ h' i, push h v = some (h', i) ∧ index h' i = some v ∧ Inv h' ∧ Valid h' i := by
  obtain ⟨h', i, hp, v', hx, hs⟩ := LawfulRegion.push_ok h v hi ha
  obtain ⟨h1, h2⟩ := LawfulRegion.push_inv h h' v i hi hp
  exact ⟨h', i, hp, by rw [hx]; exact congrArg some hs, h1, h2⟩

theorem refused_u8 (h : HuffU8) (hi : Inv h) (v : List UInt8) (hna : ¬ Accepts h v) : push h v = none :=
  LawfulRegion.push_refuses h v hi hna

/-- **C02** for `HuffmanContainer<u16>`: a valid index (every issued index is) reads the same after any
history of successful pushes -/
theorem frame (h h' : Container) (ops : List (Op (List Nat))) (j : Nat × Nat) (hi : Inv h) (hv : Valid h j)
    (hnc : C02.noClear ops) (hrun : run h ops = some h') : Valid h' j ∧ index h' j = index h j :=
  C02.frame_history h h' ops j hi hv hnc hrun

/-- **C02** for `HuffmanContainer<u8>` -/
theorem frame_u8 (h h' : HuffU8) (ops : List (Op (List UInt8))) (j : Nat × Nat) (hi : Inv h) (hv : Valid h j)
    (hnc : C02.noClear ops) (hrun : run h ops = some h') : Valid h' j ∧ index h' j = index h j :=
  C02.frame_history h h' ops j hi hv hnc hrun

/-- the invariant is kept by every history of pushes and clears -/
theorem run_inv (h h' : Container) (ops : List (Op (List Nat))) (hi : Inv h) (hrun : run h ops = some h') : Inv h' :=
  FC.run_inv h h' ops hi hrun

/-- **C08**: a cleared Huffman container is the default (raw, empty) one -/
theorem clear_default (h : Container) : clear h = (Region.default : Container) := rfl
theorem clear_default_u8 (h : HuffU8) : clear h = (Region.default : HuffU8) := rfl

/-- pushes are dense: the returned index is `(cursor before, cursor after)` (symbols in raw mode, bits in coded mode) -/
theorem dense (h h' : Container) (v : List Nat) (i : Nat × Nat) (hi : Inv h) (hp : push h v = some (h', i)) :
    i = (DenseRegion.cursor h, DenseRegion.cursor h') := LawfulDense.push_dense h h' v i hi hp

/-- a composition, for illustration: C01 for a `FlatStack` over a Huffman container, by instance resolution -/
example (fs : FlatStack Huff.Container (Capd (VecIdx (Nat × Nat) 16))) (hr : Reachable fs) (v : List Nat)
    (ha : Accepts fs v) : ∃ fs' k, push fs v = some (fs', k) ∧ ∃ v', index fs' k = some v' ∧ v' = v :=
  C01.roundtrip fs hr v ha

/-! ### the invariant is established by `merge_regions` -/

/-- the statistics of every container built from `default` by `push`, `clear`, `merge_regions` are valid:
keys strictly ascending, counts positive -/
theorem stats_valid (h : Container) (hb : Built h) : Huff.Valid h.stats := hb.stats_valid

/-- hence so are the merged statistics that `merge_regions` hands to `create_from` -/
theorem merged_stats_valid (srcs : List Container) (hb : ∀ s ∈ srcs, Built s) :
    Huff.Valid (srcs.foldl (fun acc h => mergeStats acc h.stats) []) :=
  Huff.merged_stats_valid srcs fun s hs => (hb s hs).stats_valid

/-- `merge_regions` establishes the invariant: valid statistics and a code of depth ≤ 57 -/
theorem merge_inv (srcs : List Container)
    (hv : Huff.Valid (srcs.foldl (fun acc h => mergeStats acc h.stats) []))
    (hdepth : ∀ x ∈ (mergedCode srcs).encode, 1 ≤ x.2.1 ∧ x.2.1 ≤ 57) :
    Inv (Container.merge srcs) := Container.merge_inv srcs hv hdepth

/-- for built sources only the depth bound remains -/
theorem merge_inv_built (srcs : List Container) (hb : ∀ s ∈ srcs, Built s)
    (hdepth : ∀ x ∈ (mergedCode srcs).encode, 1 ≤ x.2.1 ∧ x.2.1 ≤ 57) :
    Inv (Container.merge srcs) := Container.merge_inv_reachable srcs hb hdepth

theorem merge_inv_u8 (rs : List HuffU8)
    (hv : Huff.Valid ((rs.map (·.c)).foldl (fun acc h => mergeStats acc h.stats) []))
    (hdepth : ∀ x ∈ (mergedCode (rs.map (·.c))).encode, 1 ≤ x.2.1 ∧ x.2.1 ≤ 57) :
    Inv (RegionAux.mergeRegions rs : HuffU8) := HuffU8.merge_inv rs hv hdepth

/-- every container built from `default` by `push`, `clear` and depth-bounded `merge_regions` satisfies
the invariant, so `roundtrip`, `refused`, `frame` apply to it -/
theorem built_inv (h : Container) (hb : BuiltOK h) : Inv h := hb.inv

/-- after a merge, the accepted items are exactly those over the symbols recorded in the sources -/
theorem accepts_merged (srcs : List Container)
    (hv : Huff.Valid (srcs.foldl (fun acc h => mergeStats acc h.stats) [])) (v : List Nat) :
    Accepts (Container.merge srcs) v ↔
      ∀ s ∈ v, s ∈ (srcs.foldl (fun acc h => mergeStats acc h.stats) []).map Prod.fst := by
  rw [accepts_coded _ _ _ _ (merge_coded srcs)]
  exact forall_congr' fun s => imp_congr_right fun _ => lookup_some_iff _ hv s

/-- non-vacuity: merging a container that saw `[3, 1, 3, 2]` yields a container satisfying the invariant
that accepts, stores and returns `[1, 2, 3, 3]` -/
example : ∃ h0 i0, Container.push Container.default [3, 1, 3, 2] = some (h0, i0) ∧
    Inv (Container.merge [h0]) ∧ Accepts (Container.merge [h0]) [1, 2, 3, 3] := by
  refine ⟨_, _, rfl, ?_, ?_⟩
  · apply merge_inv
    · exact ⟨by decide, by decide⟩
    · decide
  · rw [accepts_coded _ _ _ _ (merge_coded _)]; decide

end FC.C06
