import FlatModel.Model.Forms
import FlatModel.Proofs.Items
/-! C20: all accepted input forms of a value are interchangeable. -/
namespace FC
open Region

section Slice
variable {R V I O : Type} [Region R V I] [IdxCont O I]

theorem pushReads_some (inner : R) (slices : O) (vs : List V) :
    pushReads inner slices (vs.map some) = pushAll inner slices vs := by
  induction vs generalizing inner slices with
  | nil => rfl
  | cons v vs ih =>
    simp only [List.map_cons, pushReads, pushAll]
    cases h : push inner v with
    | none => rfl
    | some p => simp only [ih]

theorem mapM_some_map {α β : Type} (f : α → Option β) (l : List α) (vs : List β) (h : l.mapM f = some vs) :
    l.map f = vs.map some := by
  induction l generalizing vs with
  | nil => simp at h; subst h; rfl
  | cons a l ih =>
    simp only [List.mapM_cons, Option.bind_eq_bind] at h
    cases ha : f a with
    | none => simp [ha] at h
    | some b =>
      simp only [ha, Option.bind_some] at h
      cases hl : l.mapM f with
      | none => simp [hl] at h
      | some bs =>
        simp only [hl, Option.bind_some, Option.pure_def, Option.some.injEq] at h
        subst h
        simp [ha, ih bs hl]

namespace C20
/-- the reads a pushed `ReadSlice` performs are exactly its iteration -/
theorem readList_of_iter (x : ReadSlice R O V) (vs : List V) (h : x.iter = some vs) :
    x.readList = vs.map some := by
  cases x with
  | backed r s e => exact mapM_some_map _ _ vs h
  | borrowed ws => simp only [ReadSlice.iter, Option.some.injEq] at h; subst h; rfl

/-- **C20 (slices)**: pushing a read item — region-backed, taken from any other region, or borrowed
from an owned vector — is exactly pushing the owned list in the canonical form: same new state,
same index, hence same stored bytes and same reads. -/
theorem slice_item_form (d : SliceRegion R O) (x : ReadSlice R O V) (vs : List V) (h : x.iter = some vs) :
    d.pushItem x = push d vs := by
  simp only [SliceRegion.pushItem, readList_of_iter x vs h, pushReads_some]
  rfl
end C20
end Slice

end FC

namespace FC
open Region
section Columns
variable {R V I : Type} [Region R V I]

theorem padCols_eq_self (cs : List R) (n : Nat) (h : n ≤ cs.length) : padCols cs n = cs := by
  simp [padCols, Nat.sub_eq_zero_of_le h]

theorem padCols_snoc (cs : List R) (n : Nat) (h : cs.length + 1 ≤ n) :
    padCols (cs ++ [(Region.default : R)]) n = padCols cs n := by
  simp only [padCols, List.length_append, List.length_singleton, List.append_assoc]
  congr 1
  rw [show n - cs.length = (n - (cs.length + 1)) + 1 by omega, List.replicate_succ]
  simp

theorem padCols_set (cs : List R) (n k : Nat) (c : R) (hk : k < cs.length) :
    padCols (cs.set k c) n = (padCols cs n).set k c := by
  simp only [padCols, List.length_set]
  rw [List.set_append_left _ _ hk]

/-- the lazily padding loop agrees with padding first, from any column `k ≤ cols.length` on -/
theorem pushRowLazy_spec (cols : List R) (k : Nat) (vs : List V) (hk : k ≤ cols.length) :
    pushRowLazy (I := I) cols k vs =
      match pushRow ((padCols cols (k + vs.length)).drop k) vs with
      | none => none
      | some (cs', is) => some ((padCols cols (k + vs.length)).take k ++ cs', is) := by
  induction vs generalizing cols k with
  | nil =>
    simp [pushRowLazy, padCols_eq_self cols k hk]
  | cons v vs ih =>
    simp only [pushRowLazy, List.length_cons]
    -- the column list after the lazy padding step
    generalize hc1 : (if cols.length ≤ k then cols ++ [(Region.default : R)] else cols) = cols1
    have hlen1 : k < cols1.length := by
      subst hc1; split
      · simp; omega
      · omega
    have hpad : padCols cols1 (k + (vs.length + 1)) = padCols cols (k + (vs.length + 1)) := by
      subst hc1; split
      · exact padCols_snoc cols _ (by omega)
      · rfl
    have hP : k < (padCols cols (k + (vs.length + 1))).length := by
      have := padCols_length cols (k + (vs.length + 1)); omega
    have hget : (padCols cols (k + (vs.length + 1)))[k]? = cols1[k]? := by
      rw [← hpad]
      simp only [padCols]
      rw [List.getElem?_append_left hlen1]
    rw [List.getElem?_eq_getElem hlen1]
    simp only
    have hdrop : (padCols cols (k + (vs.length + 1))).drop k =
        cols1[k] :: (padCols cols (k + (vs.length + 1))).drop (k + 1) := by
      rw [List.drop_eq_getElem_cons hP]
      congr 1
      have := hget
      rw [List.getElem?_eq_getElem hP, List.getElem?_eq_getElem hlen1] at this
      exact Option.some.inj this
    rw [hdrop]
    simp only [pushRow]
    cases hp : push cols1[k] v with
    | none => rfl
    | some q =>
      obtain ⟨c', i⟩ := q
      simp only
      have hk' : k + 1 ≤ (cols1.set k c').length := by simp; omega
      rw [ih (cols1.set k c') (k + 1) hk']
      have hpad2 : padCols (cols1.set k c') (k + 1 + vs.length) = (padCols cols (k + (vs.length + 1))).set k c' := by
        rw [padCols_set _ _ _ _ hlen1, show k + 1 + vs.length = k + (vs.length + 1) by omega, hpad]
      rw [hpad2, List.drop_set_of_lt (by omega)]
      cases pushRow (List.drop (k + 1) (padCols cols (k + (vs.length + 1)))) vs with
      | none => rfl
      | some r =>
        obtain ⟨cs', is⟩ := r
        simp only [Option.some.injEq, Prod.mk.injEq, and_true]
        rw [List.take_add_one, List.getElem?_set_self hP, List.take_set_of_le (Nat.le_refl k)]
        simp

namespace C20
/-- **C20 (columns)**: pushing a row through `PushIter` (columns created lazily while iterating)
yields exactly what the slice / vector / array forms yield (columns padded first) -/
theorem columns_iter_form (cols : List R) (row : List V) :
    pushRowLazy (I := I) cols 0 row = pushRow (padCols cols row.length) row := by
  rw [pushRowLazy_spec cols 0 row (Nat.zero_le _)]
  simp only [Nat.zero_add, List.drop_zero, List.take_zero, List.nil_append]
  cases pushRow (padCols cols row.length) row with
  | none => rfl
  | some r => rfl

/-- … at the level of the region: same new state, same index -/
theorem columns_iter_form_region {O : Type} [IdxCont O Nat] (r : ColumnsRegion R I O) (row : List V) :
    r.pushIter row = push r row := by
  simp only [ColumnsRegion.pushIter, columns_iter_form]
  rfl
end C20
end Columns
end FC
