import FlatModel.Proofs.Items
/-! C15: equality and ordering of read items (`PartialEq`/`Ord for ReadSlice`, i.e. `Iterator::eq` /
`Iterator::cmp` over the item iterators) are those of the owned values, whatever the representation
and whichever region backs the item; and that order is a lawful total order when the element order is. -/
namespace FC
open Region

namespace C15

section
variable {R V I O : Type} [Region R V I] [IdxCont O I]

/-- **C15** `a == b` is `==` of the owned values. `a`, `b` range over both representations, so this is
all four pairs (backed/backed — also over different regions —, backed/borrowed, borrowed/backed,
borrowed/borrowed). -/
theorem readSlice_eq (eqV : V → V → Bool) (a b : ReadSlice R O V) (xs ys : List V)
    (ha : a.iter = some xs) (hb : b.iter = some ys) :
    ReadSlice.eq eqV a b = some (listEq eqV xs ys) := by
  rw [ReadSlice.eq, (ReadSlice.iter_eq_some_iff a xs).mp ha, (ReadSlice.iter_eq_some_iff b ys).mp hb,
    iterEq_map_some]

/-- **C15** `a.cmp(b)` is the lexicographic order of the owned values -/
theorem readSlice_cmp (cmpV : V → V → Ordering) (a b : ReadSlice R O V) (xs ys : List V)
    (ha : a.iter = some xs) (hb : b.iter = some ys) :
    ReadSlice.cmp cmpV a b = some (lexCmp cmpV xs ys) := by
  rw [ReadSlice.cmp, (ReadSlice.iter_eq_some_iff a xs).mp ha, (ReadSlice.iter_eq_some_iff b ys).mp hb,
    iterCmp_map_some]

/-- the result depends on the owned values only: not on the representation, not on the region -/
theorem readSlice_eq_cmp_indep (eqV : V → V → Bool) (cmpV : V → V → Ordering) (a a' b b' : ReadSlice R O V)
    (xs ys : List V) (ha : a.iter = some xs) (ha' : a'.iter = some xs) (hb : b.iter = some ys)
    (hb' : b'.iter = some ys) :
    ReadSlice.eq eqV a b = ReadSlice.eq eqV a' b' ∧ ReadSlice.cmp cmpV a b = ReadSlice.cmp cmpV a' b' := by
  rw [readSlice_eq eqV a b xs ys ha hb, readSlice_eq eqV a' b' xs ys ha' hb',
    readSlice_cmp cmpV a b xs ys ha hb, readSlice_cmp cmpV a' b' xs ys ha' hb']
  exact ⟨rfl, rfl⟩

/-- in particular an item and the borrowed form of its owned value compare alike against anything -/
theorem readSlice_cmp_borrowAs (cmpV : V → V → Ordering) (a b : ReadSlice R O V) (xs ys : List V)
    (ha : a.intoOwned = some xs) (hb : b.iter = some ys) :
    ReadSlice.cmp cmpV (ReadSlice.borrowed xs) b = ReadSlice.cmp cmpV a b ∧
    ReadSlice.cmp cmpV b (ReadSlice.borrowed xs) = ReadSlice.cmp cmpV b a := by
  rw [readSlice_cmp cmpV a b xs ys ha hb, readSlice_cmp cmpV b a ys xs hb ha,
    readSlice_cmp cmpV (ReadSlice.borrowed xs) b xs ys rfl hb,
    readSlice_cmp cmpV b (ReadSlice.borrowed xs) ys xs hb rfl]
  exact ⟨rfl, rfl⟩

variable [LawfulRegion R] [LawfulIdxCont O]

/-- well-formed items never panic when compared -/
theorem readSlice_eq_cmp_wf (eqV : V → V → Bool) (cmpV : V → V → Ordering) (a b : ReadSlice R O V)
    (ha : a.WF) (hb : b.WF) :
    ∃ xs ys, a.intoOwned = some xs ∧ b.intoOwned = some ys ∧
      ReadSlice.eq eqV a b = some (listEq eqV xs ys) ∧ ReadSlice.cmp cmpV a b = some (lexCmp cmpV xs ys) := by
  obtain ⟨xs, hxs⟩ := ReadSlice.wf_iter a ha
  obtain ⟨ys, hys⟩ := ReadSlice.wf_iter b hb
  exact ⟨xs, ys, hxs, hys, readSlice_eq eqV a b xs ys hxs hys, readSlice_cmp cmpV a b xs ys hxs hys⟩

/-- backed / backed, over two regions: comparing the items at valid indices is comparing what
`index` returns -/
theorem readSlice_cmp_backed_backed (eqV : V → V → Bool) (cmpV : V → V → Ordering) (r₁ r₂ : SliceRegion R O)
    (i j : Nat × Nat) (h1 : Inv r₁) (hi : Valid r₁ i) (h2 : Inv r₂) (hj : Valid r₂ j) :
    ∃ xs ys, index r₁ i = some xs ∧ index r₂ j = some ys ∧
      ReadSlice.eq eqV (ReadSlice.backed r₁ i.1 i.2) (ReadSlice.backed r₂ j.1 j.2) = some (listEq eqV xs ys) ∧
      ReadSlice.cmp cmpV (ReadSlice.backed r₁ i.1 i.2) (ReadSlice.backed r₂ j.1 j.2) = some (lexCmp cmpV xs ys) := by
  obtain ⟨xs, hxs⟩ := LawfulRegion.valid_reads r₁ i h1 hi
  obtain ⟨ys, hys⟩ := LawfulRegion.valid_reads r₂ j h2 hj
  have ha : (ReadSlice.backed r₁ i.1 i.2 : ReadSlice R O V).iter = some xs := by
    rw [ReadSlice.iter_backed_eq_index r₁ i h1.2.1 hi, hxs]
  have hb : (ReadSlice.backed r₂ j.1 j.2 : ReadSlice R O V).iter = some ys := by
    rw [ReadSlice.iter_backed_eq_index r₂ j h2.2.1 hj, hys]
  exact ⟨xs, ys, hxs, hys, readSlice_eq eqV _ _ xs ys ha hb, readSlice_cmp cmpV _ _ xs ys ha hb⟩

/-- backed / borrowed and borrowed / backed -/
theorem readSlice_cmp_backed_borrowed (eqV : V → V → Bool) (cmpV : V → V → Ordering) (r : SliceRegion R O)
    (i : Nat × Nat) (h1 : Inv r) (hi : Valid r i) (ys : List V) :
    ∃ xs, index r i = some xs ∧
      ReadSlice.eq eqV (ReadSlice.backed r i.1 i.2) (ReadSlice.borrowed ys) = some (listEq eqV xs ys) ∧
      ReadSlice.eq eqV (ReadSlice.borrowed ys) (ReadSlice.backed r i.1 i.2) = some (listEq eqV ys xs) ∧
      ReadSlice.cmp cmpV (ReadSlice.backed r i.1 i.2) (ReadSlice.borrowed ys) = some (lexCmp cmpV xs ys) ∧
      ReadSlice.cmp cmpV (ReadSlice.borrowed ys) (ReadSlice.backed r i.1 i.2) = some (lexCmp cmpV ys xs) := by
  obtain ⟨xs, hxs⟩ := LawfulRegion.valid_reads r i h1 hi
  have ha : (ReadSlice.backed r i.1 i.2 : ReadSlice R O V).iter = some xs := by
    rw [ReadSlice.iter_backed_eq_index r i h1.2.1 hi, hxs]
  have hb : (ReadSlice.borrowed ys : ReadSlice R O V).iter = some ys := rfl
  exact ⟨xs, hxs, readSlice_eq eqV _ _ xs ys ha hb, readSlice_eq eqV _ _ ys xs hb ha,
    readSlice_cmp cmpV _ _ xs ys ha hb, readSlice_cmp cmpV _ _ ys xs hb ha⟩

end

/-! ### The order on owned values is lawful when the element order is -/
section Order
variable {V : Type} {cmpV : V → V → Ordering}

/-- **C15** reflexive -/
theorem lexCmp_refl (L : LawfulCmp cmpV) (xs : List V) : lexCmp cmpV xs xs = .eq := L.lex_refl xs

/-- **C15** antisymmetric: `xs < ys ↔ ys > xs`; together with `lexCmp_eq_iff`, `cmp ys xs` is the
reverse of `cmp xs ys` -/
theorem lexCmp_antisymm (L : LawfulCmp cmpV) (xs ys : List V) :
    lexCmp cmpV xs ys = .lt ↔ lexCmp cmpV ys xs = .gt := L.lex_antisymm xs ys

theorem lexCmp_swap (L : LawfulCmp cmpV) (xs ys : List V) :
    lexCmp cmpV ys xs = (lexCmp cmpV xs ys).swap := L.lex_swap xs ys

/-- **C15** transitive -/
theorem lexCmp_trans (L : LawfulCmp cmpV) (xs ys zs : List V)
    (h1 : lexCmp cmpV xs ys = .lt) (h2 : lexCmp cmpV ys zs = .lt) : lexCmp cmpV xs zs = .lt :=
  L.lex_trans xs ys zs h1 h2

theorem lexCmp_trans_gt (L : LawfulCmp cmpV) (xs ys zs : List V)
    (h1 : lexCmp cmpV xs ys = .gt) (h2 : lexCmp cmpV ys zs = .gt) : lexCmp cmpV xs zs = .gt :=
  (L.lex_antisymm zs xs).mp
    (L.lex_trans zs ys xs ((L.lex_antisymm zs ys).mpr h2) ((L.lex_antisymm ys xs).mpr h1))

/-- **C15** `cmp == Equal` exactly on equal values -/
theorem lexCmp_eq_iff (L : LawfulCmp cmpV) (xs ys : List V) : lexCmp cmpV xs ys = .eq ↔ xs = ys :=
  L.lex_eq_iff xs ys

/-- the lifted order is again lawful (so the laws iterate through nested slices) -/
theorem lexCmp_lawful (L : LawfulCmp cmpV) : LawfulCmp (lexCmp cmpV) :=
  ⟨L.lex_refl, L.lex_antisymm, L.lex_trans, fun xs ys => (L.lex_eq_iff xs ys).mp⟩

/-- **C15** `==` agrees with `cmp == Equal` when it does on elements -/
theorem listEq_iff_lexCmp_eq (eqV : V → V → Bool) (h : ∀ x y, eqV x y = true ↔ cmpV x y = .eq)
    (xs ys : List V) : listEq eqV xs ys = true ↔ lexCmp cmpV xs ys = .eq :=
  listEq_eq_lexCmp eqV cmpV h xs ys

theorem listEq_iff_eq (L : LawfulCmp cmpV) (eqV : V → V → Bool) (h : ∀ x y, eqV x y = true ↔ cmpV x y = .eq)
    (xs ys : List V) : listEq eqV xs ys = true ↔ xs = ys :=
  (listEq_eq_lexCmp eqV cmpV h xs ys).trans (L.lex_eq_iff xs ys)

end Order

/-! ### The laws, on the items -/
section Items
variable {R V I O : Type} [Region R V I] [IdxCont O I] {cmpV : V → V → Ordering}

theorem readSlice_cmp_refl (L : LawfulCmp cmpV) (a : ReadSlice R O V) (xs : List V) (ha : a.iter = some xs) :
    ReadSlice.cmp cmpV a a = some .eq := by
  rw [readSlice_cmp cmpV a a xs xs ha ha, L.lex_refl]

theorem readSlice_cmp_eq_iff (L : LawfulCmp cmpV) (a b : ReadSlice R O V) (xs ys : List V)
    (ha : a.iter = some xs) (hb : b.iter = some ys) :
    ReadSlice.cmp cmpV a b = some .eq ↔ a.intoOwned = b.intoOwned := by
  rw [readSlice_cmp cmpV a b xs ys ha hb, ReadSlice.intoOwned, ReadSlice.intoOwned, ha, hb]
  simp only [Option.some.injEq]
  exact L.lex_eq_iff xs ys

theorem readSlice_cmp_antisymm (L : LawfulCmp cmpV) (a b : ReadSlice R O V) (xs ys : List V)
    (ha : a.iter = some xs) (hb : b.iter = some ys) :
    ReadSlice.cmp cmpV a b = some .lt ↔ ReadSlice.cmp cmpV b a = some .gt := by
  rw [readSlice_cmp cmpV a b xs ys ha hb, readSlice_cmp cmpV b a ys xs hb ha]
  simp only [Option.some.injEq]
  exact L.lex_antisymm xs ys

theorem readSlice_cmp_trans (L : LawfulCmp cmpV) (a b c : ReadSlice R O V) (xs ys zs : List V)
    (ha : a.iter = some xs) (hb : b.iter = some ys) (hc : c.iter = some zs)
    (h1 : ReadSlice.cmp cmpV a b = some .lt) (h2 : ReadSlice.cmp cmpV b c = some .lt) :
    ReadSlice.cmp cmpV a c = some .lt := by
  rw [readSlice_cmp cmpV a b xs ys ha hb] at h1
  rw [readSlice_cmp cmpV b c ys zs hb hc] at h2
  rw [readSlice_cmp cmpV a c xs zs ha hc]
  simp only [Option.some.injEq] at h1 h2 ⊢
  exact L.lex_trans xs ys zs h1 h2

/-- **C15** `a == b` iff `a.cmp(b) == Equal` -/
theorem readSlice_eq_iff_cmp_eq (eqV : V → V → Bool) (h : ∀ x y, eqV x y = true ↔ cmpV x y = .eq)
    (a b : ReadSlice R O V) (xs ys : List V) (ha : a.iter = some xs) (hb : b.iter = some ys) :
    ReadSlice.eq eqV a b = some true ↔ ReadSlice.cmp cmpV a b = some .eq := by
  rw [readSlice_eq eqV a b xs ys ha hb, readSlice_cmp cmpV a b xs ys ha hb]
  simp only [Option.some.injEq]
  exact listEq_eq_lexCmp eqV cmpV h xs ys

end Items

/-! ### Satisfiability of the assumptions, and concrete instances -/

open ItemsEx

/-- `Ord for usize` is a `LawfulCmp` -/
example : LawfulCmp (compare : Nat → Nat → Ordering) := natCmp_lawful

example : ∀ x y : Nat, (x == y) = true ↔ compare x y = .eq := by intro x y; simp

/-- items `[1, 1]` at `(0, 2)` and `(3, 5)` of the same region, and a borrowed `[1, 1]`, are equal;
`[1, 1] < [1, 1, 2]`; `[2, 1] > [1, 1, 2]` -/
example :
    ReadSlice.eq (· == ·) (ReadSlice.backed reg 0 2 : ReadSlice _ _ Nat) (ReadSlice.backed reg 3 5) = some true ∧
    ReadSlice.eq (· == ·) (ReadSlice.backed reg 0 2 : ReadSlice _ _ Nat) (ReadSlice.borrowed [1, 1]) = some true ∧
    ReadSlice.cmp compare (ReadSlice.borrowed [1, 1]) (ReadSlice.backed reg 3 5 : ReadSlice _ _ Nat) = some .eq ∧
    ReadSlice.cmp compare (ReadSlice.backed reg 0 2 : ReadSlice _ _ Nat) (ReadSlice.backed reg 0 3) = some .lt ∧
    ReadSlice.cmp compare (ReadSlice.backed reg 2 4 : ReadSlice _ _ Nat) (ReadSlice.backed reg 0 3) = some .gt := by
  decide

/-- the comparison is lazy: it stops at the first difference, so it can succeed on an ill-formed item
whose full iteration would panic — the theorems above assume `iter = some _` only to name the values -/
example :
    (ReadSlice.backed reg 0 9 : ReadSlice _ _ Nat).iter = none ∧
    ReadSlice.cmp compare (ReadSlice.backed reg 0 9 : ReadSlice _ _ Nat) (ReadSlice.borrowed [2]) = some .lt := by
  decide

end C15
end FC
