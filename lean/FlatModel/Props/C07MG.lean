import FlatModel.Proofs.MisraGries
import FlatModel.Proofs.MGCap
import FlatModel.Props.C07
/-! C07, last sentence: "Byte strings that dominate the source regions' statistics are stored in one byte
each" — the Misra–Gries guarantee of the crate's `MisraGries::tidy`, with compaction.

The tuning constant. `MG.cap` is the capacity literal of `MisraGries::default()` (`Vec::with_capacity(N)`), re-extracted
from the crate's source on every run (`FC.Generated.mgCapacity`, tools/gen_facts.py); `MG.k = MG.cap / 2` is what `tidy`
keeps at most, and `K = MG.k + 1` is the denominator of every bound below. In the crate as verified `MG.cap = 1024`,
`MG.k = 512`, `K = 513`. No statement in this file evaluates the constant: they are instances of the theorems for a
generic capacity (`mg_invariant_generic`, `mg_error_bound_generic`, `MG.runK_bound`) and compile unchanged when the
constant is retuned. The only side condition, `2 ≤ MG.cap`, is checked once (`MG.two_le_cap`, Proofs/MGCap.lean, by
`decide`) and used in `summary_never_full` / `compaction_keeps_some` only.

Definitions (Proofs/MisraGries.lean): `trueCount ops b` (weight inserted for `b`), `total ops` (all weight
inserted), `est m b` (summed weight of `b` in the raw list of `m` = its count after `consolidate`),
`run ops` (fold of `MG.update` from the empty summary), `runG ops` (the same with a ghost error budget `D`:
each compaction that drops something adds `d = l[k].2 = sub + 1`, the most a single key can lose in it; `k = MG.k`).

What `tidy` achieves (and what it does not). A dropping compaction subtracts `sub = d - 1` from the `k`
largest counts but drops entries of count up to `d`: a key can lose `d` while only `(k+1)·d - k` weight is
guaranteed to disappear. The classical bound `trueCount - est ≤ total/(k+1)` is therefore FALSE
(`classical_bound_fails` on capacity 4; `classical_bound_fails_1024` in Props/C07MGBig.lean on capacity 1024,
kernel-checked but slow; evaluated with `#eval` on capacity 1024: 20992 insertions of total
weight 21073 in which a key of weight 80 > 21073/513 = 41 ends with estimate 0). What holds is
  `(k+1)·D + Σest + (raw length) ≤ total + (number of insertions)`      (`accounting`)
so that `trueCount - est ≤ (total + n)/(k+1)`, which is `≤ 2·total/(k+1)` when all weights are positive (`n ≤ total`),
and this is tight up to rounding (80 vs 81 in the stream above). The bound composes through `new_from` with
no additional loss (`merge_bound`): over all sources and the merge together the under-count is at most
`2·N/(k+1)`, `N` = number of non-empty strings pushed into the sources. -/
namespace FC.C07
open FC FC.Codec

/-! ### 1: the model's `tidy`/`update` are the generic ones at `k = MG.k`, `cap = MG.cap` -/

/-- the regenerated source fact behind the constant -/
theorem cap_is_source_fact : MG.cap = FC.Generated.mgCapacity ∧ MG.k = MG.cap / 2 := ⟨rfl, rfl⟩
theorem tidy_generic (m : MG) : m.tidy = m.tidyK MG.k := rfl
theorem update_generic (m : MG) (b : Bytes) (c : Nat) : m.update b c = m.updateK MG.cap b c := rfl
theorem run_generic (ops : List (Bytes × Nat)) : run ops = MG.runK MG.cap ops := rfl
/-- uses the side condition (`0 < MG.cap`): after every `update` the raw list is strictly shorter than the capacity —
the crate's `Vec` never reallocates, `capacity()` stays the constant the model uses -/
theorem summary_never_full (ops : List (Bytes × Nat)) : (run ops).inner.length < MG.cap := run_length_lt_cap ops
/-- uses the side condition (`2 ≤ MG.cap`): a compaction keeps up to `MG.k ≥ 1` entries, and leaves room for at least
`MG.k` insertions before the next one -/
theorem compaction_keeps_some : 0 < MG.k ∧ 2 * MG.k ≤ MG.cap ∧ ∀ m : MG, m.tidy.inner.length ≤ MG.k :=
  ⟨MG.k_pos, MG.two_k_le_cap, fun m => MG.tidyK_length_le MG.k m⟩
/-- the ghost-instrumented run computes the real run -/
theorem runG_fst (ops : List (Bytes × Nat)) : (runG ops).1 = run ops := Codec.runG_fst ops
/-- `done` lists exactly the keys with non-zero estimate, once each, with that estimate, heaviest first -/
theorem done_spec (m : MG) : (∀ b c, (b, c) ∈ m.done ↔ c = est m b ∧ c ≠ 0) ∧
    (m.done.Pairwise fun x y => x.1 ≠ y.1) ∧ (m.done.Pairwise fun x y => y.2 ≤ x.2) :=
  ⟨MG.mem_done_iff m, MG.done_nodup m, MG.done_sorted m⟩

/-! ### 2: the invariant of the summary, for every capacity `cap` (with `k = cap / 2`) -/

theorem mg_invariant_generic (cap : Nat) (ops : List (Bytes × Nat)) :
    MGInv (cap / 2) ops (MG.runK cap ops) (MG.runGK cap ops).2 := MG.runGK_inv cap ops

theorem mg_error_bound_generic (cap : Nat) (ops : List (Bytes × Nat)) (b : Bytes) :
    cnt (MG.runK cap ops).inner b ≤ cnt ops b ∧
    cnt ops b - cnt (MG.runK cap ops).inner b ≤ (wsum ops + ops.length) / (cap / 2 + 1) := by
  obtain ⟨hle, hge, hpot, _⟩ := MG.runGK_inv cap ops
  refine ⟨hle b, ?_⟩
  rw [Nat.le_div_iff_mul_le (by omega)]
  have := hge b
  generalize (MG.runGK cap ops).2 = D at *
  have h1 : (cnt ops b - cnt (MG.runK cap ops).inner b) * (cap / 2 + 1) ≤ D * (cap / 2 + 1) :=
    Nat.mul_le_mul_right _ (by omega)
  have h2 : D * (cap / 2 + 1) = (cap / 2 + 1) * D := Nat.mul_comm _ _
  omega

/-! ### 2': … at the crate's capacity `MG.cap` (instances of the above; `MG.k + 1` is 513 in the crate as verified) -/

/-- never over-counts -/
theorem est_le_trueCount (ops : List (Bytes × Nat)) (b : Bytes) : est (run ops) b ≤ trueCount ops b :=
  (mg_invariant ops).le b

/-- under-counts by at most the ghost budget `D` -/
theorem trueCount_le_est_add_D (ops : List (Bytes × Nat)) (b : Bytes) :
    trueCount ops b ≤ est (run ops) b + (runG ops).2 :=
  (mg_invariant ops).ge b

/-- the accounting inequality; `wsum (run ops).inner` is the sum of all estimates -/
theorem accounting (ops : List (Bytes × Nat)) :
    (MG.k + 1) * (runG ops).2 + wsum (run ops).inner + (run ops).inner.length ≤ total ops + ops.length :=
  (mg_invariant ops).pot

/-- the summary holds at most the inserted weight -/
theorem weight_le_total (ops : List (Bytes × Nat)) : wsum (run ops).inner ≤ total ops := (mg_invariant ops).wle

/-- the Misra–Gries bound this `tidy` achieves -/
theorem mg_error_bound (ops : List (Bytes × Nat)) (b : Bytes) :
    trueCount ops b - est (run ops) b ≤ (total ops + ops.length) / (MG.k + 1) :=
  (mg_error_bound_generic MG.cap ops b).2

/-- … when every insertion has positive weight (as in `encode`, weight 1, and in `new_from`, where the
weights are the non-zero counts of `done` lists) -/
theorem mg_error_bound_pos (ops : List (Bytes × Nat)) (hpos : ∀ e ∈ ops, e.2 ≠ 0) (b : Bytes) :
    trueCount ops b - est (run ops) b ≤ 2 * total ops / (MG.k + 1) := by
  refine (mg_error_bound ops b).trans (Nat.div_le_div_right ?_)
  have := length_le_wsum hpos
  simp only [total] at *
  omega

/-- every key heavier than the bound survives: it is listed by `done`, with its (positive) estimate -/
theorem heavy_survives (ops : List (Bytes × Nat)) (b : Bytes)
    (h : (total ops + ops.length) / (MG.k + 1) < trueCount ops b) :
    (b, est (run ops) b) ∈ (run ops).done ∧ 0 < est (run ops) b ∧
    trueCount ops b ≤ est (run ops) b + (total ops + ops.length) / (MG.k + 1) := by
  have hb := mg_error_bound ops b
  have hpos : 0 < est (run ops) b := by omega
  exact ⟨(MG.mem_done_iff _ _ _).2 ⟨rfl, by omega⟩, hpos, by omega⟩

theorem heavy_survives_pos (ops : List (Bytes × Nat)) (hpos : ∀ e ∈ ops, e.2 ≠ 0) (b : Bytes)
    (h : 2 * total ops / (MG.k + 1) < trueCount ops b) :
    ∃ c, 0 < c ∧ (b, c) ∈ (run ops).done := by
  have hb := mg_error_bound_pos ops hpos b
  have hpos : 0 < est (run ops) b := by omega
  exact ⟨_, hpos, (MG.mem_done_iff _ _ _).2 ⟨rfl, by omega⟩⟩

/-! On capacity 4 (`k = 2`) the classical bound `total/(k+1)` already fails, and the proved bound
(`mg_error_bound_generic 4`) is tight-ish. -/

/-- the adversarial stream (capacity 4): `a₀` is a reservoir, `a₁` is topped up every round, `b` arrives with
weight 2 every round and is dropped every round -/
def attack4 : List (Bytes × Nat) :=
  [([0], 5), ([1], 1), ([9], 2), ([1], 1), ([9], 2), ([1], 1), ([9], 2), ([1], 1)]

/-- `b = [9]` has weight 6 of 15, more than `15/3 = 5`, and is absent from the summary;
the proved bound `(15 + 8)/3 = 7` is not far off -/
theorem classical_bound_fails :
    trueCount attack4 [9] = 6 ∧ total attack4 = 15 ∧ est (MG.runK 4 attack4) [9] = 0 ∧
    total attack4 / (4 / 2 + 1) < trueCount attack4 [9] - est (MG.runK 4 attack4) [9] ∧
    (MG.runGK 4 attack4).2 = 6 ∧ (total attack4 + attack4.length) / (4 / 2 + 1) = 7 := by
  decide

/-! ### 3: the codec -/

/-- a source dictionary: started as `p.1` (with empty statistics) and saw the pushes `p.2` -/
def srcOf (p : Dict × List Bytes) : Dict := p.2.foldl Dict.observe p.1
/-- how often `b` was pushed into the sources -/
def occurrences (hs : List (Dict × List Bytes)) (b : Bytes) : Nat := (hs.map fun p => p.2.count b).sum
/-- how many non-empty strings were pushed into the sources -/
def pushes (hs : List (Dict × List Bytes)) : Nat := (hs.map fun p => (p.2.filter (· ≠ [])).length).sum

/-- the statistics of a source are the run over its pushes (one unit per non-empty string) -/
theorem srcOf_mg (p : Dict × List Bytes) (h0 : p.1.mg = ⟨[]⟩) : (srcOf p).mg = run (pushOps p.2) :=
  Dict.observe_foldl_mg_run p.2 p.1 h0

/-- `new_from` runs the summary over the concatenated `done` lists of the sources -/
theorem mergedMG_of_histories (hs : List (Dict × List Bytes)) (h0 : ∀ p ∈ hs, p.1.mg = ⟨[]⟩) :
    mergedMG (hs.map srcOf) = run ((hs.map fun p => pushOps p.2).map fun o => (run o).done).flatten := by
  rw [mergedMG_eq_run, List.map_map, List.map_map]
  congr 2
  apply List.map_congr_left
  intro p hp
  simp only [Function.comp_apply, srcOf_mg p (h0 p hp)]

theorem histories_sums (hs : List (Dict × List Bytes)) {b : Bytes} (hb : b ≠ []) :
    ((hs.map fun p => pushOps p.2).map (trueCount · b)).sum = occurrences hs b ∧
    ((hs.map fun p => pushOps p.2).map fun o => total o + o.length).sum = 2 * pushes hs ∧
    ((hs.map fun p => pushOps p.2).map total).sum = pushes hs := by
  unfold occurrences pushes
  induction hs with
  | nil => exact ⟨rfl, rfl, rfl⟩
  | cons p hs ih =>
    obtain ⟨h1, h2, h3⟩ := ih
    have e1 := pushOps_cnt p.2 hb
    have e2 := pushOps_wsum p.2
    have e3 : (pushOps p.2).length = (p.2.filter (· ≠ [])).length := by simp [pushOps]
    simp only [List.map_cons, List.sum_cons, trueCount, total] at h1 h2 h3 ⊢
    omega

/-- the composed guarantee: over the sources' runs AND the merge in `new_from`, a non-empty string is
under-counted by at most `2·N/(MG.k + 1)` in total (`N` = non-empty pushes into all sources); it is never over-counted -/
theorem merged_estimate (hs : List (Dict × List Bytes)) (h0 : ∀ p ∈ hs, p.1.mg = ⟨[]⟩) (b : Bytes) (hb : b ≠ []) :
    est (mergedMG (hs.map srcOf)) b ≤ occurrences hs b ∧
    (MG.k + 1) * occurrences hs b ≤ (MG.k + 1) * est (mergedMG (hs.map srcOf)) b + 2 * pushes hs ∧
    wsum (mergedMG (hs.map srcOf)).done ≤ pushes hs := by
  obtain ⟨s1, s2, s3⟩ := histories_sums hs hb
  rw [mergedMG_of_histories hs h0, MG.done_wsum]
  have h1 := merge_le (hs.map fun p => pushOps p.2) b
  have h2 := merge_bound (hs.map fun p => pushOps p.2) b
  have h3 := merge_wsum_le (hs.map fun p => pushOps p.2)
  rw [s1] at h1 h2
  rw [s2] at h2
  rw [s3] at h3
  exact ⟨h1, h2, h3⟩

/-- a string pushed more than `2·N/(MG.k + 1)` times is a heavy hitter of the merge -/
theorem dominant_in_summary (hs : List (Dict × List Bytes)) (h0 : ∀ p ∈ hs, p.1.mg = ⟨[]⟩) (b : Bytes) (hb : b ≠ [])
    (hdom : 2 * pushes hs < (MG.k + 1) * occurrences hs b) :
    ∃ c, 0 < c ∧ (b, c) ∈ (mergedMG (hs.map srcOf)).done ∧
      (MG.k + 1) * occurrences hs b ≤ (MG.k + 1) * c + 2 * pushes hs := by
  obtain ⟨_, h2, _⟩ := merged_estimate hs h0 b hb
  have hpos : 0 < est (mergedMG (hs.map srcOf)) b := by
    rcases Nat.eq_zero_or_pos (est (mergedMG (hs.map srcOf)) b) with h | h
    · rw [h, Nat.mul_zero] at h2; omega
    · exact h
  exact ⟨est (mergedMG (hs.map srcOf)) b, hpos, (MG.mem_done_iff _ _ _).2 ⟨rfl, by omega⟩, h2⟩

/-- a dictionary hit is accepted and stored as exactly its one-byte tag -/
theorem push_hit_one_byte (d : Dict) (b : Bytes) (t : Nat) (hl : d.lookup b = some t) (inner : Bytes) :
    ∃ r' i, Region.push (⟨inner, d⟩ : Codec.Region) b = some (r', i) ∧
      i.2 - i.1 = 1 ∧ r'.inner = inner ++ [UInt8.ofNat t] := by
  have hacc := accepts_hit (⟨inner, d⟩ : Codec.Region) b t hl
  cases hp : Region.push (⟨inner, d⟩ : Codec.Region) b with
  | none => rw [hp] at hacc; cases hacc
  | some q =>
    obtain ⟨r', i⟩ := q
    exact ⟨r', i, rfl, heavy_hitters_one_byte_partial ⟨inner, d⟩ r' b t i hl hp⟩

/-- a heavy hitter among the first `freeTags` of the merged list gets a one-byte tag, and pushing it into
the merged region stores exactly that byte -/
theorem ranked_heavy_hitter_one_byte (srcs : List Dict) (b : Bytes) (c : Nat)
    (hrank : (b, c) ∈ (mergedMG srcs).done.take (freeTags srcs)) :
    ∃ t, (Dict.newFrom srcs).lookup b = some t ∧
      ∀ (inner : Bytes), ∃ r' i, Region.push (⟨inner, Dict.newFrom srcs⟩ : Codec.Region) b = some (r', i) ∧
        i.2 - i.1 = 1 ∧ r'.inner = inner ++ [UInt8.ofNat t] := by
  have hl := Dict.newFrom_take_tagged srcs (b, c) hrank
  generalize Dict.newFrom srcs = d at hl ⊢
  cases hlt : d.lookup b with
  | none => rw [hlt] at hl; cases hl
  | some t => exact ⟨t, rfl, push_hit_one_byte d b t hlt⟩

/-- C07, last sentence. Sources that started with empty statistics and saw the pushes `p.2`; `N` non-empty
pushes in all, `C` of them the non-empty string `b`, `F` tags not in use as a first byte, `K = MG.k + 1`
(`MG.cap / 2 + 1`: 513 in the crate as verified). If
`K·N < (F+1)·(K·C - 2·N)` — i.e. `C/N > 2/K + 1/(F+1)` — then the merged dictionary maps `b` to a
one-byte tag, every push of `b` into the merged region is accepted and stores exactly one byte.
(`C/N > 2/K` alone puts `b` in the merged heavy-hitter list, `dominant_in_summary`; the `1/(F+1)` is what it
takes to be among the first `F` of a list of total weight `≤ N`.) -/
theorem dominant_strings_tagged (hs : List (Dict × List Bytes)) (h0 : ∀ p ∈ hs, p.1.mg = ⟨[]⟩)
    (b : Bytes) (hb : b ≠ [])
    (hdom : (MG.k + 1) * pushes hs <
      (freeTags (hs.map srcOf) + 1) * ((MG.k + 1) * occurrences hs b - 2 * pushes hs)) :
    ∃ t, (Dict.newFrom (hs.map srcOf)).lookup b = some t ∧
      ∀ (inner : Bytes), ∃ r' i, Region.push (⟨inner, Dict.newFrom (hs.map srcOf)⟩ : Codec.Region) b = some (r', i) ∧
        i.2 - i.1 = 1 ∧ r'.inner = inner ++ [UInt8.ofNat t] := by
  obtain ⟨_, h2, h3⟩ := merged_estimate hs h0 b hb
  generalize hF : freeTags (hs.map srcOf) = F at hdom
  generalize hM : mergedMG (hs.map srcOf) = M at h2 h3
  generalize MG.k + 1 = K at hdom h2
  have hle : (F + 1) * (K * occurrences hs b - 2 * pushes hs) ≤ (F + 1) * (K * est M b) :=
    Nat.mul_le_mul_left _ (by omega)
  have hlt : K * pushes hs < K * ((F + 1) * est M b) := by
    have : (F + 1) * (K * est M b) = K * ((F + 1) * est M b) := by ring
    omega
  have hlt' : pushes hs < (F + 1) * est M b := Nat.lt_of_mul_lt_mul_left hlt
  have hne : est M b ≠ 0 := by
    intro h; rw [h] at hlt'; simp at hlt'
  have hmem : (b, est M b) ∈ M.done := (MG.mem_done_iff _ _ _).2 ⟨rfl, hne⟩
  have hrank : (b, est M b) ∈ M.done.take F :=
    mem_take_of_heavy (MG.done_sorted M) hmem (Nat.lt_of_le_of_lt h3 hlt')
  rw [← hM, ← hF] at hrank
  exact ranked_heavy_hitter_one_byte _ b _ hrank

/-! ### 4: non-vacuity -/

/-- the real capacity (evaluated: any `MG.cap ≥ 4`), a tiny run: "ab","c","ab" -/
example : (run [([97, 98], 1), ([99], 1), ([97, 98], 1)]).done = [([97, 98], 2), ([99], 1)] ∧
    (runG [([97, 98], 1), ([99], 1), ([97, 98], 1)]).2 = 0 := by
  decide

/-- capacity 4: a run with two dropping compactions; the invariant's three parts, evaluated -/
example : let ops : List (Bytes × Nat) := [([1], 3), ([2], 2), ([3], 2), ([4], 1), ([3], 1), ([5], 1), ([6], 1)]
    (MG.runGK 4 ops).1.inner = [([1], 2), ([2], 1), ([6], 1)] ∧ (MG.runGK 4 ops).2 = 3 ∧
    cnt ops [3] = 3 ∧ cnt (MG.runGK 4 ops).1.inner [3] = 0 ∧
    cnt ops [2] = 2 ∧ cnt (MG.runGK 4 ops).1.inner [2] = 1 ∧
    3 * (MG.runGK 4 ops).2 + wsum (MG.runGK 4 ops).1.inner + (MG.runGK 4 ops).1.inner.length ≤ wsum ops + ops.length := by
  decide

/-- the hypotheses of `dominant_strings_tagged` are satisfiable: one fresh source that saw "ab","c","ab" -/
example : let hs : List (Dict × List Bytes) := [(Dict.default, [[97, 98], [99], [97, 98]])]
    (∀ p ∈ hs, p.1.mg = ⟨[]⟩) ∧ pushes hs = 3 ∧ occurrences hs [97, 98] = 2 ∧ freeTags (hs.map srcOf) = 254 ∧
    (MG.k + 1) * pushes hs < (freeTags (hs.map srcOf) + 1) * ((MG.k + 1) * occurrences hs [97, 98] - 2 * pushes hs) ∧
    (Dict.newFrom (hs.map srcOf)).lookup [97, 98] = some 0 := by
  refine ⟨fun p hp => ?_, ?_⟩
  · simp only [List.mem_singleton] at hp
    subst hp; rfl
  · set_option maxRecDepth 100000 in decide

end FC.C07
