import FlatModel.Props.C19
import FlatModel.Props.C12
/-! C19 for FlatStacks over dense-index regions. -/

namespace FC.C19
open FC Region

/-- pushing the indices `k, k+1, …` one after the other -/
theorem pushAll_range_succ (n : Nat) :
    pushAll ⟨.empty, ⟨[], []⟩⟩ (List.range (n + 1)) = IndexOptimized.push (pushAll ⟨.empty, ⟨[], []⟩⟩ (List.range n)) n := by
  simp [pushAll, List.range_succ, List.foldl_append]

section
variable {R V : Type} [Region R V Nat] [LawfulRegion R]

/-- a region hands out dense indices when its k-th successful push (since creation) returns k -/
def DenseFrom (count : R → Nat) : Prop :=
  count (Region.default : R) = 0 ∧
  ∀ (r r' : R) (v : V) (k : Nat), Inv r → push r v = some (r', k) → k = count r ∧ count r' = count r + 1

/-- **C19 (FlatStack)**: a `FlatStack<R, IndexOptimized>` over a region with dense indices (C12:
consecutive-pair and columns regions) keeps its own indices in the stride, i.e. spends zero heap
bytes on them, for any number of copies (below 2^64) -/
theorem flatstack_dense_free (count : R → Nat) (hd : DenseFrom (R := R) count)
    (vs : List V) (fs : FlatStack R IndexOptimized)
    (h : C08.runPushes (Region.default : FlatStack R IndexOptimized) vs = some fs) (hn : vs.length < USIZE) :
    fs.indices = pushAll ⟨.empty, ⟨[], []⟩⟩ (List.range vs.length) ∧ IdxCont.usedBytes fs.indices = [0, 0] := by
  have key : ∀ (vs : List V) (fs0 fs : FlatStack R IndexOptimized) (n : Nat),
      Inv fs0.region → count fs0.region = n → fs0.indices = pushAll ⟨.empty, ⟨[], []⟩⟩ (List.range n) →
      C08.runPushes fs0 vs = some fs →
      fs.indices = pushAll ⟨.empty, ⟨[], []⟩⟩ (List.range (n + vs.length)) := by
    intro vs
    induction vs with
    | nil =>
      intro fs0 fs n _ _ hidx h
      simp only [C08.runPushes, Option.some.injEq] at h
      subst h; simpa using hidx
    | cons v vs ih =>
      intro fs0 fs n hi hc hidx h
      simp only [C08.runPushes] at h
      cases hp : push fs0 v with
      | none => simp [hp] at h
      | some q =>
        obtain ⟨fs1, k⟩ := q
        simp only [hp] at h
        simp only [Region.push, FlatStack.copy] at hp
        cases hr : push fs0.region v with
        | none => simp [hr] at hp
        | some q2 =>
          obtain ⟨r1, i⟩ := q2
          simp only [hr, Option.map_some, Option.some.injEq, Prod.mk.injEq] at hp
          obtain ⟨rfl, _⟩ := hp
          obtain ⟨hk, hc1⟩ := hd.2 fs0.region r1 v i hi hr
          have hi1 := (LawfulRegion.push_inv fs0.region r1 v i hi hr).1
          have := ih ⟨IdxCont.push fs0.indices i, r1⟩ fs (n + 1) hi1 (by rw [hc1, hc]) (by
            show IndexOptimized.push fs0.indices i = _
            rw [hidx, hk, hc, pushAll_range_succ]) h
          rw [this]
          congr 2
          simp only [List.length_cons]; omega
  have hidx := key vs (Region.default : FlatStack R IndexOptimized) fs 0 LawfulRegion.inv_default hd.1 rfl h
  rw [Nat.zero_add] at hidx
  exact ⟨hidx, by rw [hidx]; exact dense_free vs.length hn⟩
end

end FC.C19

namespace FC.C19
open FC Region

section
variable {R V O : Type} [Region R V (Nat × Nat)] [DenseRegion R] [IdxCont O Nat]
  [LawfulRegion R] [LawfulDense R] [LawfulIdxCont O]
/-- consecutive-pair regions hand out dense indices (C12) -/
theorem consec_denseFrom : DenseFrom (R := ConsecPairs R O) C12.count :=
  ⟨C12.count_default, fun r r' v k hi hp => C12.kth r r' v k hi hp⟩

/-- a `FlatStack<ConsecutiveIndexPairs<R, O>, IndexOptimized>` spends no heap on its own indices -/
theorem consec_stack_free (vs : List V) (fs : FlatStack (ConsecPairs R O) IndexOptimized)
    (h : C08.runPushes (Region.default : FlatStack (ConsecPairs R O) IndexOptimized) vs = some fs)
    (hn : vs.length < USIZE) : IdxCont.usedBytes fs.indices = [0, 0] :=
  (flatstack_dense_free C12.count consec_denseFrom vs fs h hn).2
end

section
variable {R V I O : Type} [Region R V I] [IdxCont O Nat] [LawfulRegion R] [LawfulIdxCont O]
theorem columns_denseFrom : DenseFrom (R := ColumnsRegion R I O) C12.rows :=
  ⟨C12.rows_default, fun r r' row k hi hp => C12.columns_kth r r' row k hi hp⟩

/-- a `FlatStack<ColumnsRegion<R, O>, IndexOptimized>` spends no heap on its own indices -/
theorem columns_stack_free (rows : List (List V)) (fs : FlatStack (ColumnsRegion R I O) IndexOptimized)
    (h : C08.runPushes (Region.default : FlatStack (ColumnsRegion R I O) IndexOptimized) rows = some fs)
    (hn : rows.length < USIZE) : IdxCont.usedBytes fs.indices = [0, 0] :=
  (flatstack_dense_free C12.rows columns_denseFrom rows fs h hn).2
end
end FC.C19
