import FlatModel.Props.C06Opt
import FlatModel.Props.C06Bits
/-! C06, capstone: the code `create_from` builds satisfies the hypotheses of the bit-level
encoder/decoder theorems, so a merged Huffman container round-trips every covered item. -/
namespace FC.Huff

theorem bitsOfCode_snoc (l c : Nat) : bitsOfCode (l + 1) c = bitsOfCode l (c / 2) ++ [c % 2 == 1] := by
  induction l generalizing c with
  | zero =>
    simp only [bitsOfCode_succ, bitsOfCode_zero, List.nil_append]
    congr 1
    rw [Nat.testBit_zero]
    cases h : c % 2 with
    | zero => simp
    | succ n => have : n = 0 := by omega
                subst this; simp
  | succ l ih =>
    rw [bitsOfCode_succ, ih c, bitsOfCode_succ]
    simp only [List.cons_append, List.cons.injEq, and_true]
    rw [← Nat.testBit_succ]  -- (c / 2).testBit l = c.testBit (l + 1)

/-- the two developments use two definitions of "the `l` low bits, most significant first" -/
theorem canonBits_eq_bitsOfCode (l c : Nat) : canonBits l c = bitsOfCode l c := by
  induction l generalizing c with
  | zero => rfl
  | succ l ih => rw [canonBits, ih, bitsOfCode_snoc]

end FC.Huff

namespace FC.C06
open FC.Huff

/-- **C06**: for valid statistics whose code stays within the encoder's width (at most 57 bits;
deeper codes need more than 10^12 recorded symbols), the code `create_from` builds is a good code:
bounded, canonical code values below `2^l`, and pairwise prefix-incomparable code words. -/
theorem createFrom_good (counts : List (Nat × Int)) (hv : Valid counts)
    (hdepth : ∀ x ∈ (createFrom counts).encode, 1 ≤ x.2.1 ∧ x.2.1 ≤ 57) : GoodCode (createFrom counts) := by
  refine ⟨fun x hx => ⟨(hdepth x hx).1, (hdepth x hx).2, code_lt counts hv x hx⟩, ?_⟩
  have hp := canonical_is_prefix_free counts hv
  simp only [Opt.PrefixFree, codeBits, List.pairwise_map] at hp
  refine hp.imp ?_
  intro a b hab
  simpa only [Incomp, canonBits_eq_bitsOfCode] using hab

/-- **C06 (round trip after merge)**: with such statistics, the container built by `merge_regions`
reads back every item it accepts, and the item occupies exactly the sum of its symbols' code lengths -/
theorem roundtrip_merged (srcs : List Container)
    (hv : Valid (srcs.foldl (fun acc h => mergeStats acc h.stats) []))
    (hdepth : ∀ x ∈ (mergedCode srcs).encode, 1 ≤ x.2.1 ∧ x.2.1 ≤ 57)
    (item : List Nat) (h' : Container) (i : Nat × Nat)
    (hp : Container.push (Container.merge srcs) item = some (h', i)) :
    Container.index h' i = some item ∧ i = (0, itemBits (mergedCode srcs) item) := by
  have hg : GoodCode (mergedCode srcs) := createFrom_good _ hv hdepth
  obtain ⟨h1, h2⟩ := createFrom_ok _ hg
  exact roundtrip_after_merge srcs item h' i h1 h2 hp

end FC.C06
