import FlatModel.Proofs.CapsGrowth
/-! C17 (allocation discipline): after `reserve_items`, `reserve_regions`, `merge_regions` /
`FlatStack::merge_capacity`, pushing exactly the announced contents changes no capacity. -/
namespace FC
open Region Sized C08

namespace C17
section
variable {R V I : Type} [Region R V I] [RegionAux R] [Sized R] [L : LawfulSized R]

/-- one push that fits leaves every capacity unchanged -/
theorem push_caps_fit (r r' : R) (v : V) (i : I) (hc : CInv r) (hp : push r v = some (r', i)) (hf : Fits r v) :
    caps r' = caps r :=
  L.push_fit r r' v i hc hp hf

/-- a batch whose total growth fits the spare capacity of every vector leaves every capacity unchanged -/
theorem pushes_fit (r r' : R) (vs : List V) (hc : CInv r)
    (hroom : vle (vadd (lens r) (growAll (R := R) vs)) (caps r)) (h : runPushes r vs = some r') :
    caps r' = caps r :=
  (runPushes_spec r r' vs hc h).2.2.2 hroom

/-- the lengths of a region built by pushing `ws` are the total growth of `ws` -/
theorem lens_of_pushes (ws : List V) (x : R) (h : runPushes (default : R) ws = some x) :
    lens x = growAll (R := R) ws := by
  rw [runPushes_lens _ x ws h, L.lens_default]
  exact zeros_vadd (Nat.le_of_eq (len_growAll ws))

variable [LR : LawfulReserve R]

/-- **C17** `reserve_items(items)`, then pushing exactly `items`: no capacity changes; `r` empty or populated. -/
theorem no_growth_after_reserve_items (r r' : R) (vs : List V) (hc : CInv r)
    (h : runPushes (RegionAux.reserveItems r vs) vs = some r') :
    caps r' = caps (RegionAux.reserveItems r vs) := by
  apply pushes_fit _ r' vs (L.reserveItems_cinv r vs hc) _ h
  rw [L.reserveItems_lens]
  exact LR.reserveItems_room r vs hc

/-- **C17** `reserve_regions(regions)`, then pushing contents that amount to the announced regions -/
theorem no_growth_after_reserve_regions (r r' : R) (rs : List R) (vs : List V) (hc : CInv r)
    (hvs : growAll (R := R) vs = lensAll rs)
    (h : runPushes (RegionAux.reserveRegions r rs) vs = some r') :
    caps r' = caps (RegionAux.reserveRegions r rs) := by
  apply pushes_fit _ r' vs (L.reserveRegions_cinv r rs hc) _ h
  rw [L.reserveRegions_lens, hvs]
  exact LR.reserveRegions_room r rs hc

end

section
variable {R V I : Type} [Region R V I] [RegionAux R] [Sized R] [L : LawfulSized R]

/-- **C17** `merge_regions(regions)` (for `FlatStack`: `merge_capacity(stacks)`), then pushing
contents that amount to the announced regions: no capacity changes -/
theorem no_growth_after_merge (rs : List R) (vs : List V) (r' : R)
    (hvs : growAll (R := R) vs = lensAll rs)
    (h : runPushes (RegionAux.mergeRegions rs) vs = some r') :
    caps r' = caps (RegionAux.mergeRegions rs) := by
  apply pushes_fit _ r' vs (L.merge_cinv rs) _ h
  rw [L.merge_lens, hvs, zeros_vadd (Nat.le_of_eq (len_lensAll rs))]
  exact L.merge_room rs

/-- the same for any batch that needs at most the announced room in every vector -/
theorem no_growth_after_merge_le (rs : List R) (vs : List V) (r' : R)
    (hvs : vle (growAll (R := R) vs) (lensAll rs))
    (h : runPushes (RegionAux.mergeRegions rs) vs = some r') :
    caps r' = caps (RegionAux.mergeRegions rs) := by
  apply pushes_fit _ r' vs (L.merge_cinv rs) _ h
  rw [L.merge_lens, zeros_vadd (Nat.le_of_eq (len_growAll vs))]
  exact vle_trans hvs (L.merge_room rs)

/-- `reserve_regions`, any batch that needs at most the announced room -/
theorem no_growth_after_reserve_regions_le [LR : LawfulReserve R] (r r' : R) (rs : List R) (vs : List V) (hc : CInv r)
    (hvs : vle (growAll (R := R) vs) (lensAll rs))
    (h : runPushes (RegionAux.reserveRegions r rs) vs = some r') :
    caps r' = caps (RegionAux.reserveRegions r rs) := by
  apply pushes_fit _ r' vs (L.reserveRegions_cinv r rs hc) _ h
  rw [L.reserveRegions_lens]
  exact vle_trans (vadd_vle_vadd (vle_refl _) hvs) (LR.reserveRegions_room r rs hc)

/-- the hypothesis `growAll vs = lensAll rs` holds when `vs` is the concatenation of what was pushed
into the source regions (`srcs`: each source region with the values it was built from) -/
theorem growAll_of_sources (srcs : List (R × List V))
    (h : ∀ p ∈ srcs, runPushes (default : R) p.2 = some p.1) :
    growAll (R := R) (srcs.map (·.2)).flatten = lensAll (srcs.map (·.1)) := by
  induction srcs with
  | nil => rfl
  | cons p srcs ih =>
    rw [List.map_cons, List.flatten_cons, growAll_append, ih (fun q hq => h q (by simp [hq])),
      ← lens_of_pushes _ _ (h p (by simp))]
    rfl

/-- end to end: merge regions that were built by pushing, push all of their contents: no growth -/
theorem no_growth_merge_sources (srcs : List (R × List V))
    (hs : ∀ p ∈ srcs, runPushes (default : R) p.2 = some p.1) (r' : R)
    (h : runPushes (RegionAux.mergeRegions (srcs.map (·.1))) (srcs.map (·.2)).flatten = some r') :
    caps r' = caps (RegionAux.mergeRegions (srcs.map (·.1))) :=
  no_growth_after_merge _ _ r' (growAll_of_sources srcs hs) h

/-- what `heap_size` reports: the capacities (in bytes) are those of `caps` -/
theorem heap_caps_constant (r0 r' : R) (hc0 : CInv r0) (hc' : CInv r') (h : caps r' = caps r0) :
    (RegionAux.heap r').map (·.2) = (RegionAux.heap r0).map (·.2) := by
  rw [L.heap_caps r' hc', L.heap_caps r0 hc0, h]

/-- a batch of pushes keeps the bookkeeping invariant -/
theorem pushes_cinv (r r' : R) (vs : List V) (hc : CInv r) (h : runPushes r vs = some r') : CInv r' :=
  (runPushes_spec r r' vs hc h).1

/-- capacities never shrink under pushes -/
theorem pushes_caps_mono (r r' : R) (vs : List V) (hc : CInv r) (h : runPushes r vs = some r') :
    vle (caps r) (caps r') :=
  (runPushes_spec r r' vs hc h).2.2.1

/-- **C17** on `heap_size`: after `merge_regions`, absorbing the announced contents leaves every
reported capacity as it was -/
theorem heap_constant_after_merge (rs : List R) (vs : List V) (r' : R)
    (hvs : growAll (R := R) vs = lensAll rs)
    (h : runPushes (RegionAux.mergeRegions rs) vs = some r') :
    (RegionAux.heap r').map (·.2) = (RegionAux.heap (RegionAux.mergeRegions rs : R)).map (·.2) :=
  heap_caps_constant _ r' (L.merge_cinv rs) (pushes_cinv _ r' vs (L.merge_cinv rs) h)
    (no_growth_after_merge rs vs r' hvs h)

variable [LR : LawfulReserve R]

/-- **C17** on `heap_size`: after `reserve_items(items)`, pushing `items` leaves every reported capacity as it was -/
theorem heap_constant_after_reserve_items (r r' : R) (vs : List V) (hc : CInv r)
    (h : runPushes (RegionAux.reserveItems r vs) vs = some r') :
    (RegionAux.heap r').map (·.2) = (RegionAux.heap (RegionAux.reserveItems r vs)).map (·.2) :=
  heap_caps_constant _ r' (L.reserveItems_cinv r vs hc) (pushes_cinv _ r' vs (L.reserveItems_cinv r vs hc) h)
    (no_growth_after_reserve_items r r' vs hc h)

/-- **C17** on `heap_size`: after `reserve_regions(regions)` -/
theorem heap_constant_after_reserve_regions (r r' : R) (rs : List R) (vs : List V) (hc : CInv r)
    (hvs : growAll (R := R) vs = lensAll rs)
    (h : runPushes (RegionAux.reserveRegions r rs) vs = some r') :
    (RegionAux.heap r').map (·.2) = (RegionAux.heap (RegionAux.reserveRegions r rs)).map (·.2) :=
  heap_caps_constant _ r' (L.reserveRegions_cinv r rs hc) (pushes_cinv _ r' vs (L.reserveRegions_cinv r rs hc) h)
    (no_growth_after_reserve_regions r r' rs vs hc hvs h)

end

/-! ### States, invariants, `clear`, amortised growth -/
section Growth
variable {R V I : Type} [Region R V I] [RegionAux R] [Sized R] [L : LawfulSized R] [G : LawfulGrowth R]

/-- states produced by the operations of the crate, from empty -/
inductive Built : R → Prop
  | default : Built (default : R)
  | push (r r' : R) (v : V) (i : I) : Built r → Region.push r v = some (r', i) → Built r'
  | clear (r : R) : Built r → Built (Region.clear r)
  | reserveItems (r : R) (vs : List V) : Built r → Built (RegionAux.reserveItems r vs)
  | reserveRegions (r : R) (rs : List R) : Built r → Built (RegionAux.reserveRegions r rs)
  | mergeRegions (rs : List R) : Built (RegionAux.mergeRegions rs)

/-- the hypotheses `CInv r` of the theorems above hold in every such state, and so does `lens ≤ caps` -/
theorem built_inv (r : R) (h : Built r) : CInv r ∧ vle (lens r) (caps r) := by
  induction h with
  | default =>
    refine ⟨L.cinv_default, ?_⟩
    rw [L.lens_default]; exact vle_zeros (L.len_caps _)
  | push r r' v i _ hp ih => exact ⟨L.push_cinv r r' v i ih.1 hp, G.push_wf r r' v i ih.1 ih.2 hp⟩
  | clear r _ ih =>
    refine ⟨G.clear_cinv r ih.1, ?_⟩
    rw [G.clear_lens]; exact vle_zeros (L.len_caps _)
  | reserveItems r vs _ ih =>
    refine ⟨L.reserveItems_cinv r vs ih.1, ?_⟩
    rw [L.reserveItems_lens]; exact vle_trans ih.2 (L.reserveItems_mono r vs ih.1)
  | reserveRegions r rs _ ih =>
    refine ⟨L.reserveRegions_cinv r rs ih.1, ?_⟩
    rw [L.reserveRegions_lens]; exact vle_trans ih.2 (L.reserveRegions_mono r rs ih.1)
  | mergeRegions rs =>
    refine ⟨L.merge_cinv rs, ?_⟩
    rw [L.merge_lens]; exact vle_zeros (L.len_caps _)

theorem built_cinv (r : R) (h : Built r) : CInv r := (built_inv r h).1

/-- `clear` keeps every allocation: refilling a cleared region with no more than it held changes no capacity -/
theorem no_growth_after_clear (r r' : R) (vs : List V) (hc : CInv r) (hw : vle (lens r) (caps r))
    (hvs : vle (growAll (R := R) vs) (lens r)) (h : runPushes (clear r) vs = some r') :
    caps r' = caps r := by
  rw [← G.clear_caps r]
  apply pushes_fit _ r' vs (G.clear_cinv r hc) _ h
  rw [G.clear_lens, zeros_vadd (Nat.le_of_eq (len_growAll vs)), G.clear_caps]
  exact vle_trans hvs hw

/-- **C17, without pre-sizing** (`log_growth`): along any batch of pushes, from any state, the `j`-th
capacity changes at most `log2 (its final value) + 1` times — never once per item. `changes c ds`
counts the positions at which the sequence `c, ds` changes; `capsTrace r vs` lists the capacity
vectors after each push. (Granularity: one region push. The same bound holds per `Vec` operation,
`log_growth_mvec`; an element-wise `pushAll` inside one slice push is a chain of such operations.) -/
theorem log_growth (r r' : R) (vs : List V) (hc : CInv r) (h : runPushes r vs = some r') (j : Nat) :
    changes ((caps r).getD j 0) ((capsTrace r vs).map (·.getD j 0)) ≤ Nat.log2 ((caps r').getD j 0) + 1 := by
  obtain ⟨h1, h2⟩ := capsTrace_chain r r' vs hc h j
  rw [← h2]
  exact changes_log _ _ h1

omit L in
/-- every change at least doubles the capacity -/
theorem push_doubles (r r' : R) (v : V) (i : I) (hc : CInv r) (hp : push r v = some (r', i)) (j : Nat)
    (hne : (caps r').getD j 0 ≠ (caps r).getD j 0) : 2 * (caps r).getD j 0 ≤ (caps r').getD j 0 := by
  have := vstep_getD (G.push_step r r' v i hc hp) j
  unfold cstep at this
  omega
end Growth

/-! ### `FlatStack`

`merge_capacity` is `RegionAux.mergeRegions` of the `FlatStack` instance, so `no_growth_after_merge`
covers it, index vector included. `FlatStack::reserve_items` / `reserve_regions` forward to the region
only (src/lib.rs:265-279); the index vector is pre-sized by `FlatStack::reserve` / `with_capacity`. -/
section Stack
variable {R V I : Type} {sz : Nat} [Region R V I] [RegionAux R] [Sized R] [L : LawfulSized R]

omit L in
theorem stack_reserve_cinv (fs : FlatStack R (Capd (VecIdx I sz))) (m : Nat) (hc : CInv fs) :
    CInv (fs.reserve m) := by
  obtain ⟨hcr, k, hk⟩ := hc
  exact ⟨hcr, ⟨_, capd_reserve_caps fs.indices m k hk⟩⟩

/-- `FlatStack::merge_capacity(stacks)`, then copying contents that amount to the announced stacks -/
theorem no_growth_after_merge_capacity (stacks : List (FlatStack R (Capd (VecIdx I sz)))) (vs : List V)
    (fs' : FlatStack R (Capd (VecIdx I sz))) (hvs : growAll (R := FlatStack R (Capd (VecIdx I sz))) vs = lensAll stacks)
    (h : runPushes (RegionAux.mergeRegions stacks) vs = some fs') :
    caps fs' = caps (RegionAux.mergeRegions stacks : FlatStack R (Capd (VecIdx I sz))) :=
  no_growth_after_merge stacks vs fs' hvs h

/-- `reserve_items(items)` together with `reserve(items.len())`: copying `items` changes no capacity,
neither in the region nor in the index vector -/
theorem stack_no_growth_after_reserve [LR : LawfulReserve R] (fs fs' : FlatStack R (Capd (VecIdx I sz))) (vs : List V)
    (hc : CInv fs) (h : runPushes ((RegionAux.reserveItems fs vs).reserve vs.length) vs = some fs') :
    caps fs' = caps ((RegionAux.reserveItems fs vs).reserve vs.length) := by
  have hc1 := LawfulSized.reserveItems_cinv fs vs hc
  apply pushes_fit _ fs' vs (stack_reserve_cinv _ _ hc1) _ h
  obtain ⟨hcr, k, hk⟩ := hc
  rw [stack_growAll]
  show vle (vadd (lens (RegionAux.reserveItems fs.region vs) ++ [fs.indices.a.v.length]) _)
    (caps (RegionAux.reserveItems fs.region vs) ++ [(IdxAux.reserve fs.indices vs.length).caps.headD 0])
  rw [vadd_append ((L.len_lens _).trans (len_growAll _).symm), L.reserveItems_lens,
    capd_reserve_caps fs.indices _ k hk]
  refine vle_append (LR.reserveItems_room fs.region vs hcr) ?_
  simp only [vadd_cons, vadd_nil_left, List.headD_cons, vle_cons, vle_nil, and_true]
  exact reserve_room_if _ _ _

omit L in
/-- the index vector alone: copies that fit its capacity never change it (`with_capacity`, `reserve`) -/
theorem stack_indices_fit (fs fs' : FlatStack R (Capd (VecIdx I sz))) (vs : List V) (k : Nat)
    (hk : fs.indices.caps = [k]) (hfit : fs.indices.a.v.length + vs.length ≤ k)
    (h : runPushes fs vs = some fs') : fs'.indices.caps = [k] := by
  induction vs generalizing fs with
  | nil => simp only [runPushes, Option.some.injEq] at h; subst h; exact hk
  | cons v vs ih =>
    simp only [runPushes] at h
    cases hp : push fs v with
    | none => simp [hp] at h
    | some p =>
      obtain ⟨fs1, j⟩ := p
      simp only [hp] at h
      obtain ⟨i, _, h2⟩ := sized_stack_push fs fs1 v j hp
      rw [List.length_cons] at hfit
      apply ih fs1 _ _ h
      · rw [h2, capd_push_caps fs.indices i k hk]
        have : fs.indices.a.v.length + 1 ≤ k := by omega
        simp [this]
      · rw [h2, capd_push_len]; omega

omit L in
/-- `FlatStack::with_capacity(m)` absorbs `m` indices without touching the index vector's capacity -/
theorem with_capacity_indices (m : Nat) (vs : List V) (hm : vs.length ≤ m) (fs' : FlatStack R (Capd (VecIdx I sz)))
    (h : runPushes (FlatStack.withCapacity m : FlatStack R (Capd (VecIdx I sz))) vs = some fs') :
    fs'.indices.caps = [m] :=
  stack_indices_fit _ fs' vs m rfl (by simpa [FlatStack.withCapacity, capd_withCapacity] using hm) h
end Stack

/-! ### The theorems separate the repaired `merge_regions` from the one with defect D8 -/
section Legacy
abbrev S8 := SliceRegion (MirrorRegion Nat) (Capd (VecIdx Nat 8))
/-- the region obtained by pushing `[1, 2, 3]` into an empty one -/
def src8 : S8 := ⟨⟨⟨[1, 2, 3]⟩, [4]⟩, {}⟩
example : runPushes (default : S8) [[1, 2, 3]] = some src8 := rfl

/-- `merge_regions` as it was (index vector not pre-sized): absorbing the source's contents
reallocates the index vector, its capacity goes from 0 to 4 -/
example : ∃ r', runPushes (SliceRegion.mergeLegacy [src8]) [[1, 2, 3]] = some r' ∧
    caps (SliceRegion.mergeLegacy [src8]) = [0] ∧ caps r' = [4] ∧
    caps r' ≠ caps (SliceRegion.mergeLegacy [src8]) :=
  ⟨_, rfl, rfl, rfl, by decide⟩
/-- it is exactly the law `merge_room` that the old code breaks -/
example : ¬ vle (lensAll [src8]) (caps (SliceRegion.mergeLegacy [src8])) := by decide
/-- the repaired code on the same input: capacity 3 before and after -/
example : ∃ r', runPushes (RegionAux.mergeRegions [src8]) [[1, 2, 3]] = some r' ∧
    caps (RegionAux.mergeRegions [src8] : S8) = [3] ∧ caps r' = [3] :=
  ⟨_, rfl, rfl, rfl⟩
example : vle (lensAll [src8]) (caps (RegionAux.mergeRegions [src8] : S8)) := by decide

/-- `FlatStack::reserve_items` alone does not pre-size the index vector (that is `FlatStack::reserve`) -/
abbrev F16 := FlatStack (OwnedRegion Nat) (Capd (VecIdx (Nat × Nat) 16))
example : ∃ fs', runPushes (RegionAux.reserveItems (default : F16) [[1, 2], [3]]) [[1, 2], [3]] = some fs' ∧
    caps (RegionAux.reserveItems (default : F16) [[1, 2], [3]]) = [3, 0] ∧ caps fs' = [3, 2] :=
  ⟨_, rfl, rfl, rfl⟩
example : ∃ fs', runPushes ((RegionAux.reserveItems (default : F16) [[1, 2], [3]]).reserve 2) [[1, 2], [3]] = some fs' ∧
    caps ((RegionAux.reserveItems (default : F16) [[1, 2], [3]]).reserve 2) = [3, 2] ∧ caps fs' = [3, 2] :=
  ⟨_, rfl, rfl, rfl⟩
end Legacy

/-! ### Non-vacuity: a populated region and a batch to which the theorems apply -/
section NonVacuous
abbrev Names := SliceRegion Str (Capd (VecIdx (Nat × Nat) 16))
/-- two strings already stored -/
def populated : Names := ⟨⟨⟨[(0, 1), (1, 3)]⟩, [2]⟩, ⟨⟨⟨[97, 98, 99], 3⟩⟩⟩⟩
theorem populated_built : runPushes (default : Names) [[[97], [98, 99]]] = some populated := rfl
def batch : List (List (List UInt8)) := [[[100, 101], []], [], [[102]]]

example : runPushes (default : Names) [[[97], [98, 99]]] = some populated := rfl
example : CInv populated := ⟨⟨2, rfl⟩, trivial⟩
example : ∃ r', runPushes (RegionAux.reserveItems populated batch) batch = some r' ∧
    lens (RegionAux.reserveItems populated batch) = [2, 3] ∧ lens r' = [5, 6] ∧ caps r' = [5, 6] :=
  ⟨_, rfl, rfl, by decide, by decide⟩
example (r' : Names) (h : runPushes (RegionAux.reserveItems populated batch) batch = some r') :
    caps r' = caps (RegionAux.reserveItems populated batch) :=
  no_growth_after_reserve_items populated r' batch ⟨⟨2, rfl⟩, trivial⟩ h
/-- the announcement hypothesis of `reserve_regions` / `merge_regions` for a source built by pushing -/
example : growAll (R := Names) [[[97], [98, 99]]] = lensAll [populated] :=
  growAll_of_sources [(populated, [[[97], [98, 99]]])] (by intro p hp; simp only [List.mem_singleton] at hp; subst hp; exact populated_built)
example (r' : Names) (h : runPushes (RegionAux.reserveRegions populated [populated]) [[[97], [98, 99]]] = some r') :
    caps r' = caps (RegionAux.reserveRegions populated [populated]) :=
  no_growth_after_reserve_regions populated r' [populated] _ ⟨⟨2, rfl⟩, trivial⟩
    (growAll_of_sources [(populated, [[[97], [98, 99]]])] (by intro p hp; simp only [List.mem_singleton] at hp; subst hp; exact populated_built)) h
example : ∃ r', runPushes (RegionAux.reserveRegions populated [populated]) [[[97], [98, 99]]] = some r' := ⟨_, rfl⟩
end NonVacuous

/-! ### Amortised growth, concretely: 32 pushes into an empty `Vec`, 6 capacity changes (1, 2, 4, 8, 16, 32) -/
section GrowthExample
example : (capsTrace (default : VecRegion Nat) (List.replicate 32 7)).map (·.getD 0 0) =
    [1, 2, 4, 4, 8, 8, 8, 8] ++ List.replicate 8 16 ++ List.replicate 16 32 := by decide
example : changes 0 ((capsTrace (default : VecRegion Nat) (List.replicate 32 7)).map (·.getD 0 0)) = 6 := by decide
example : Nat.log2 32 + 1 = 6 := by decide
end GrowthExample

/-! ### Every nesting is covered: instance resolution finds the laws
(named, so that the audit prints the axioms the instances depend on) -/
section Nestings
abbrev PairIdx := Capd (VecIdx (Nat × Nat) 16)
theorem covered_slice_slice : LawfulSized (SliceRegion (SliceRegion Str PairIdx) PairIdx) ∧
    LawfulReserve (SliceRegion (SliceRegion Str PairIdx) PairIdx) ∧
    LawfulGrowth (SliceRegion (SliceRegion Str PairIdx) PairIdx) := ⟨inferInstance, inferInstance, inferInstance⟩
theorem covered_tuple : LawfulSized (TupleCons (OptionRegion Str) (TupleCons (OwnedRegion Nat) TupleNil)) ∧
    LawfulReserve (TupleCons (OptionRegion Str) (TupleCons (OwnedRegion Nat) TupleNil)) ∧
    LawfulGrowth (TupleCons (OptionRegion Str) (TupleCons (OwnedRegion Nat) TupleNil)) :=
  ⟨inferInstance, inferInstance, inferInstance⟩
theorem covered_result : LawfulSized (ResultRegion (SliceRegion (MirrorRegion Nat) (Capd (VecIdx Nat 1))) Str) ∧
    LawfulReserve (ResultRegion (SliceRegion (MirrorRegion Nat) (Capd (VecIdx Nat 1))) Str) ∧
    LawfulGrowth (ResultRegion (SliceRegion (MirrorRegion Nat) (Capd (VecIdx Nat 1))) Str) :=
  ⟨inferInstance, inferInstance, inferInstance⟩
theorem covered_stack : LawfulSized (FlatStack (SliceRegion Str PairIdx) PairIdx) ∧
    LawfulGrowth (FlatStack (SliceRegion Str PairIdx) PairIdx) := ⟨inferInstance, inferInstance⟩
theorem covered_vec : LawfulSized (SliceRegion (VecRegion (List UInt8)) (Capd (VecIdx Nat 8))) ∧
    LawfulReserve (SliceRegion (VecRegion (List UInt8)) (Capd (VecIdx Nat 8))) ∧
    LawfulGrowth (SliceRegion (VecRegion (List UInt8)) (Capd (VecIdx Nat 8))) := ⟨inferInstance, inferInstance, inferInstance⟩
end Nestings

end C17
end FC
