import FlatModel.Props.Universe
import FlatModel.Props.C09
import FlatModel.Props.C12
/-! The non-`push` half of the traits, for every composition.

`Props/Universe.lean` interprets a description `d : RDesc v ix` as a model type `d.R` with its `Region`
and `LawfulRegion` instances. Here the interpretation is extended, by the same structural recursion,
with the `RegionAux` instance (`reserve_items`, `reserve_regions`, `merge_regions`, `clone`,
`clone_from`, `heap_size`) of `d.R` — *the same type*, not a copy: every extension is a function
`(d : RDesc v ix) → C d.R` — and with the laws `LawfulAux` / `LawfulMerge` / `DenseSim` of
`Proofs/OpsLaws.lean`. C09 and C10 (and `Reach` / `reach_inv`) become theorems `∀ d : RDesc v ix`.

Sub-universes are decidable predicates on descriptions:
* `d.Uncoded`: no `codec`, `huffman`, `huffmanU8` anywhere in `d`. It is needed for `LawfulMerge` only
  (hence for `Reach` / `reach_inv`, whose `merge` rule needs it): `merge_regions` of a coded region builds
  a new dictionary / code book from the statistics of its sources, so the result is *not* observationally
  a default region — `huffman_not_lawfulMerge`, `huffmanU8_not_lawfulMerge` below refute the law for the
  Huffman containers outright; `Proofs/OpsLaws.lean` has no `LawfulMerge Codec.Region` either.
  `LawfulAux` (clone, clone_from, the two reservations) and `DenseSim` hold for the coded regions too,
  trivially (`Proofs/OpsLaws.lean` omits the instances, they are added here), so C09 and the
  reservation half of C10 are stated for *every* description.

Element sizes. `RegionAux (OwnedRegion T)` / `(VecRegion T)` need `ElemSize T`, `RegionAux
(CollapseSequence R I)` needs `IndexSize I`, `RegionAux (ColumnsRegion R I O)` needs `ElemSize I`; the
model has these instances for the catalogued shapes only. Rather than restricting the payload shapes,
everything here is parametric in a *size assignment* `[SizeEnv]` (an `ElemSize` and an `IndexSize`
for every shape): the theorems hold for every assignment. `SizeEnv.std` is the assignment that agrees
with the model's instances wherever they exist (checked by `rfl` below) and uses `Ty.size` for the
other shapes, the convention of `IdxKind.vecStd`. -/
namespace FC.Universe
open FC Region

/-! ### size assignments -/

/-- `size_of::<T>()` for every payload shape and `size_of::<I>()`, `size_of::<Option<I>>()` for every
index shape. No law depends on the numbers; they only appear in `heap` and `selfSize`. -/
class SizeEnv where
  elem : (t : Ty) → ElemSize t.interp
  index : (t : Ty) → IndexSize t.interp

/-- `size_of::<Option<T>>()` as the model's `IndexSize` instances have it -/
def Ty.optSize : Ty → Nat
  | .unit => 1
  | t => t.size + 8

/-- the model's sizes where the model has an instance, `Ty.size` elsewhere -/
@[instance_reducible] def SizeEnv.std : SizeEnv where
  elem t := ⟨t.size⟩
  index t := ⟨t.size, t.optSize⟩

section StdAgrees
-- every `ElemSize` / `IndexSize` instance of `Model/Ops.lean` is the one `SizeEnv.std` assigns
example : SizeEnv.std.elem .u8 = (inferInstance : ElemSize UInt8) := rfl
example : SizeEnv.std.elem .nat = (inferInstance : ElemSize Nat) := rfl
example : SizeEnv.std.elem .unit = (inferInstance : ElemSize Unit) := rfl
example : SizeEnv.std.elem .bytes = (inferInstance : ElemSize (List UInt8)) := rfl
example : SizeEnv.std.elem .range = (inferInstance : ElemSize (Nat × Nat)) := rfl
example : SizeEnv.std.elem (.pair .range (.pair .u8 .unit)) = (inferInstance : ElemSize ((Nat × Nat) × (UInt8 × Unit))) := rfl
example : SizeEnv.std.index .nat = (inferInstance : IndexSize Nat) := rfl
example : SizeEnv.std.index .range = (inferInstance : IndexSize (Nat × Nat)) := rfl
example : SizeEnv.std.index .f64 = (inferInstance : IndexSize F64) := rfl
example : SizeEnv.std.index .unit = (inferInstance : IndexSize Unit) := rfl
end StdAgrees

/-! ### index containers -/

/-- the `Storage` half of an index container and its laws -/
structure IdxOps {T : Type} (o : IdxBundle T) where
  [aux : IdxAux o.O]
  [lawfulAux : LawfulIdxAux o.O]

def IdxKind.ops : {i : Ty} → (k : IdxKind i) → IdxOps k.bundle
  | i, .vec sz => @IdxOps.mk _ (IdxKind.vec sz).bundle
      (inferInstanceAs (IdxAux (Capd (VecIdx i.interp sz)))) (inferInstanceAs (LawfulIdxAux (Capd (VecIdx i.interp sz))))
  | _, .opt => @IdxOps.mk _ IdxKind.opt.bundle
      (inferInstanceAs (IdxAux (Capd IndexOptimized))) (inferInstanceAs (LawfulIdxAux (Capd IndexOptimized)))
  | _, .list => @IdxOps.mk _ IdxKind.list.bundle
      (inferInstanceAs (IdxAux (Capd IndexList))) (inferInstanceAs (LawfulIdxAux (Capd IndexList)))


/-! ### `RegionAux`, for every description -/
section Aux
variable [σ : SizeEnv]

/-- the `RegionAux` instance of the interpretation of a description -/
@[instance_reducible] def RDesc.aux : {v : Ty} → {ix : Ix} → (d : RDesc v ix) → RegionAux d.R
  | _, _, .mirror t => inferInstanceAs (RegionAux (MirrorRegion t.interp))
  | _, _, .owned t => letI := σ.elem t; inferInstanceAs (RegionAux (OwnedRegion t.interp))
  | _, _, .vec t => letI := σ.elem t; inferInstanceAs (RegionAux (VecRegion t.interp))
  | _, .any i, .string d =>
    letI : Region d.R (List UInt8) i.interp := d.bundle.inst
    letI : RegionAux d.R := d.aux
    inferInstanceAs (RegionAux (StringRegion d.R))
  | _, .dense, .string d =>
    letI : Region d.R (List UInt8) (Nat × Nat) := d.bundle.inst
    letI : RegionAux d.R := d.aux
    inferInstanceAs (RegionAux (StringRegion d.R))
  | _, _, .option d => letI := d.aux; inferInstanceAs (RegionAux (OptionRegion d.R))
  | _, _, .result t e => letI := t.aux; letI := e.aux; inferInstanceAs (RegionAux (ResultRegion t.R e.R))
  | _, _, .tupleNil => inferInstanceAs (RegionAux TupleNil)
  | _, _, .tupleCons a b => letI := a.aux; letI := b.aux; inferInstanceAs (RegionAux (TupleCons a.R b.R))
  | v, _, .collapse (ix := ix) d =>
    letI := v.hasEqv; letI := σ.index ix.ty; letI := d.aux
    inferInstanceAs (RegionAux (CollapseSequence d.R ix.ty.interp))
  | _, _, .slice d k => letI := d.aux; letI := k.ops.aux; inferInstanceAs (RegionAux (SliceRegion d.R k.bundle.O))
  | _, _, .consec d k =>
    letI : RegionAux d.bundleX.R := d.aux
    letI := k.ops.aux
    inferInstanceAs (RegionAux (ConsecPairs d.bundleX.R k.bundle.O))
  | _, _, .columns (ix := ix) d k =>
    letI := σ.elem ix.ty; letI := d.aux; letI := k.ops.aux
    inferInstanceAs (RegionAux (ColumnsRegion d.R ix.ty.interp k.bundle.O))
  | _, _, .codec => inferInstanceAs (RegionAux Codec.Region)
  | _, _, .huffman => inferInstanceAs (RegionAux Huff.Container)
  | _, _, .huffmanU8 => inferInstanceAs (RegionAux HuffU8)
  | _, _, .stack d k => letI := d.aux; letI := k.ops.aux; inferInstanceAs (RegionAux (FlatStack d.R k.bundle.O))

instance regionAux {v : Ty} {ix : Ix} (d : RDesc v ix) : RegionAux d.R := d.aux

end Aux

/-! ### the sub-universe of uncoded descriptions -/

/-- no `codec`, `huffman`, `huffmanU8` anywhere in the description -/
def RDesc.Uncoded : {v : Ty} → {ix : Ix} → RDesc v ix → Prop
  | _, _, .mirror _ => True
  | _, _, .owned _ => True
  | _, _, .vec _ => True
  | _, _, .string d => d.Uncoded
  | _, _, .option d => d.Uncoded
  | _, _, .result t e => t.Uncoded ∧ e.Uncoded
  | _, _, .tupleNil => True
  | _, _, .tupleCons a b => a.Uncoded ∧ b.Uncoded
  | _, _, .collapse d => d.Uncoded
  | _, _, .slice d _ => d.Uncoded
  | _, _, .consec d _ => d.Uncoded
  | _, _, .columns d _ => d.Uncoded
  | _, _, .codec => False
  | _, _, .huffman => False
  | _, _, .huffmanU8 => False
  | _, _, .stack d _ => d.Uncoded

instance RDesc.decUncoded : {v : Ty} → {ix : Ix} → (d : RDesc v ix) → Decidable d.Uncoded
  | _, _, .mirror _ => isTrue trivial
  | _, _, .owned _ => isTrue trivial
  | _, _, .vec _ => isTrue trivial
  | _, _, .string d => d.decUncoded
  | _, _, .option d => d.decUncoded
  | _, _, .result t e => @instDecidableAnd _ _ t.decUncoded e.decUncoded
  | _, _, .tupleNil => isTrue trivial
  | _, _, .tupleCons a b => @instDecidableAnd _ _ a.decUncoded b.decUncoded
  | _, _, .collapse d => d.decUncoded
  | _, _, .slice d _ => d.decUncoded
  | _, _, .consec d _ => d.decUncoded
  | _, _, .columns d _ => d.decUncoded
  | _, _, .codec => isFalse id
  | _, _, .huffman => isFalse id
  | _, _, .huffmanU8 => isFalse id
  | _, _, .stack d _ => d.decUncoded

/-! ### the coded regions: `clone` and the reservations are identities

`Proofs/OpsLaws.lean` stops at the uncoded regions. `LawfulAux` (not `LawfulMerge`) holds for the
coded ones too, trivially: `reserve_*` are no-ops, `clone` is the identity in a pure model. -/
section Coded
instance : LawfulAux Codec.Region where
  reserveItems_sim r _ hi := ⟨LawfulRegion.sim_refl r hi, hi⟩
  reserveRegions_sim r _ hi _ := ⟨LawfulRegion.sim_refl r hi, hi⟩
  clone_sim r hi := ⟨LawfulRegion.sim_refl r hi, hi⟩
  cloneFrom_sim _ s _ hs := ⟨LawfulRegion.sim_refl s hs, hs⟩
instance : LawfulAux Huff.Container where
  reserveItems_sim r _ hi := ⟨LawfulRegion.sim_refl r hi, hi⟩
  reserveRegions_sim r _ hi _ := ⟨LawfulRegion.sim_refl r hi, hi⟩
  clone_sim r hi := ⟨LawfulRegion.sim_refl r hi, hi⟩
  cloneFrom_sim _ s _ hs := ⟨LawfulRegion.sim_refl s hs, hs⟩
instance : LawfulAux HuffU8 where
  reserveItems_sim r _ hi := ⟨LawfulRegion.sim_refl r hi, hi⟩
  reserveRegions_sim r _ hi _ := ⟨LawfulRegion.sim_refl r hi, hi⟩
  clone_sim r hi := ⟨LawfulRegion.sim_refl r hi, hi⟩
  cloneFrom_sim _ s _ hs := ⟨LawfulRegion.sim_refl s hs, hs⟩
instance : DenseSim Codec.Region where
  cursor_sim a b h := by simp only [DenseRegion.cursor, h.1]
instance : DenseSim Huff.Container where
  cursor_sim a b h := by cases h; rfl
instance : DenseSim HuffU8 where
  cursor_sim a b h := by
    show DenseRegion.cursor a.c = DenseRegion.cursor b.c
    rw [show a.c = b.c from h]

/-- why `merge` needs the sub-universe: a merged Huffman container is in coded mode (an empty code
book) even when merged from nothing, a default one is in raw mode, and `Sim` is equality -/
theorem huffman_not_lawfulMerge : ¬ LawfulMerge Huff.Container := by
  intro h
  have h1 : (RegionAux.mergeRegions ([] : List Huff.Container)) = (Region.default : Huff.Container) :=
    (h.merge_fresh [] (by simp)).1
  have h2 := congrArg Huff.Container.coded h1
  simp [RegionAux.mergeRegions, Huff.Container.merge, Region.default, Huff.Container.default] at h2

theorem huffmanU8_not_lawfulMerge : ¬ LawfulMerge HuffU8 := by
  intro h
  have h1 : (RegionAux.mergeRegions ([] : List HuffU8)).c = (Region.default : HuffU8).c :=
    (h.merge_fresh [] (by simp)).1
  have h2 := congrArg Huff.Container.coded h1
  simp [RegionAux.mergeRegions, Huff.Container.merge, Region.default, Huff.Container.default] at h2
end Coded

/-! ### the laws of `RegionAux`, for every description -/
section Laws
variable [σ : SizeEnv]

omit σ in
/-- the cursor of every dense description is an observable of `Sim` -/
theorem RDesc.denseSim : {v : Ty} → (d : RDesc v .dense) → DenseSim d.bundleX.R
  | _, .owned t => inferInstanceAs (DenseSim (OwnedRegion t.interp))
  | _, .string d =>
    letI : Region d.bundleX.R (List UInt8) (Nat × Nat) := d.bundleX.inst
    letI : DenseRegion d.bundleX.R := d.bundleX.dense
    letI : DenseSim d.bundleX.R := d.denseSim
    inferInstanceAs (DenseSim (StringRegion d.bundleX.R))
  | _, .slice d k =>
    letI := k.ops.aux; letI := k.ops.lawfulAux
    inferInstanceAs (DenseSim (SliceRegion d.R k.bundle.O))
  | _, .codec => inferInstanceAs (DenseSim Codec.Region)
  | _, .huffman => inferInstanceAs (DenseSim Huff.Container)
  | _, .huffmanU8 => inferInstanceAs (DenseSim HuffU8)

/-- **`LawfulAux` for every description**: reservations and clones are `Sim`-equivalent to the source
and keep the invariant -/
theorem RDesc.lawfulAux : {v : Ty} → {ix : Ix} → (d : RDesc v ix) → LawfulAux d.R
  | _, _, .mirror t => inferInstanceAs (LawfulAux (MirrorRegion t.interp))
  | _, _, .owned t => letI := σ.elem t; inferInstanceAs (LawfulAux (OwnedRegion t.interp))
  | _, _, .vec t => letI := σ.elem t; inferInstanceAs (LawfulAux (VecRegion t.interp))
  | _, .any i, .string d =>
    letI : Region d.R (List UInt8) i.interp := d.bundle.inst
    letI : RegionAux d.R := d.aux
    letI : LawfulAux d.R := d.lawfulAux
    inferInstanceAs (LawfulAux (StringRegion d.R))
  | _, .dense, .string d =>
    letI : Region d.R (List UInt8) (Nat × Nat) := d.bundle.inst
    letI : RegionAux d.R := d.aux
    letI : LawfulAux d.R := d.lawfulAux
    inferInstanceAs (LawfulAux (StringRegion d.R))
  | _, _, .option d => letI := d.lawfulAux; inferInstanceAs (LawfulAux (OptionRegion d.R))
  | _, _, .result t e => letI := t.lawfulAux; letI := e.lawfulAux; inferInstanceAs (LawfulAux (ResultRegion t.R e.R))
  | _, _, .tupleNil => inferInstanceAs (LawfulAux TupleNil)
  | _, _, .tupleCons a b => letI := a.lawfulAux; letI := b.lawfulAux; inferInstanceAs (LawfulAux (TupleCons a.R b.R))
  | v, _, .collapse (ix := ix) d =>
    letI := v.hasEqv; letI := σ.index ix.ty; letI := d.lawfulAux
    inferInstanceAs (LawfulAux (CollapseSequence d.R ix.ty.interp))
  | _, _, .slice d k =>
    letI := d.lawfulAux; letI := k.ops.aux; letI := k.ops.lawfulAux
    inferInstanceAs (LawfulAux (SliceRegion d.R k.bundle.O))
  | _, _, .consec d k =>
    letI : RegionAux d.bundleX.R := d.aux
    letI : LawfulAux d.bundleX.R := d.lawfulAux
    letI := d.denseSim; letI := k.ops.aux; letI := k.ops.lawfulAux
    inferInstanceAs (LawfulAux (ConsecPairs d.bundleX.R k.bundle.O))
  | _, _, .columns (ix := ix) d k =>
    letI := σ.elem ix.ty; letI := d.lawfulAux; letI := k.ops.aux; letI := k.ops.lawfulAux
    inferInstanceAs (LawfulAux (ColumnsRegion d.R ix.ty.interp k.bundle.O))
  | _, _, .codec => inferInstanceAs (LawfulAux Codec.Region)
  | _, _, .huffman => inferInstanceAs (LawfulAux Huff.Container)
  | _, _, .huffmanU8 => inferInstanceAs (LawfulAux HuffU8)
  | _, _, .stack d k =>
    letI := d.lawfulAux; letI := k.ops.aux; letI := k.ops.lawfulAux
    inferInstanceAs (LawfulAux (FlatStack d.R k.bundle.O))

/-- **`LawfulMerge` for every uncoded description**: a merged region is `Sim`-equivalent to a default
one and satisfies the invariant -/
theorem RDesc.lawfulMerge : {v : Ty} → {ix : Ix} → (d : RDesc v ix) → d.Uncoded → LawfulMerge d.R
  | _, _, .mirror t, _ => inferInstanceAs (LawfulMerge (MirrorRegion t.interp))
  | _, _, .owned t, _ => letI := σ.elem t; inferInstanceAs (LawfulMerge (OwnedRegion t.interp))
  | _, _, .vec t, _ => letI := σ.elem t; inferInstanceAs (LawfulMerge (VecRegion t.interp))
  | _, .any i, .string d, h =>
    letI : Region d.R (List UInt8) i.interp := d.bundle.inst
    letI : RegionAux d.R := d.aux
    letI : LawfulMerge d.R := d.lawfulMerge h
    inferInstanceAs (LawfulMerge (StringRegion d.R))
  | _, .dense, .string d, h =>
    letI : Region d.R (List UInt8) (Nat × Nat) := d.bundle.inst
    letI : RegionAux d.R := d.aux
    letI : LawfulMerge d.R := d.lawfulMerge h
    inferInstanceAs (LawfulMerge (StringRegion d.R))
  | _, _, .option d, h => letI := d.lawfulAux; letI := d.lawfulMerge h; inferInstanceAs (LawfulMerge (OptionRegion d.R))
  | _, _, .result t e, h =>
    letI := t.lawfulMerge h.1; letI := e.lawfulMerge h.2; inferInstanceAs (LawfulMerge (ResultRegion t.R e.R))
  | _, _, .tupleNil, _ => inferInstanceAs (LawfulMerge TupleNil)
  | _, _, .tupleCons a b, h =>
    letI := a.lawfulMerge h.1; letI := b.lawfulMerge h.2; inferInstanceAs (LawfulMerge (TupleCons a.R b.R))
  | v, _, .collapse (ix := ix) d, h =>
    letI := v.hasEqv; letI := σ.index ix.ty; letI := d.lawfulMerge h
    inferInstanceAs (LawfulMerge (CollapseSequence d.R ix.ty.interp))
  | _, _, .slice d k, h =>
    letI := d.lawfulMerge h; letI := k.ops.aux; letI := k.ops.lawfulAux
    inferInstanceAs (LawfulMerge (SliceRegion d.R k.bundle.O))
  | _, _, .consec d k, h =>
    letI : RegionAux d.bundleX.R := d.aux
    letI : LawfulMerge d.bundleX.R := d.lawfulMerge h
    letI := d.denseSim; letI := k.ops.aux; letI := k.ops.lawfulAux
    inferInstanceAs (LawfulMerge (ConsecPairs d.bundleX.R k.bundle.O))
  | _, _, .columns (ix := ix) d k, h =>
    letI := σ.elem ix.ty; letI := d.lawfulMerge h; letI := k.ops.aux; letI := k.ops.lawfulAux
    inferInstanceAs (LawfulMerge (ColumnsRegion d.R ix.ty.interp k.bundle.O))
  | _, _, .stack d k, h =>
    letI := d.lawfulMerge h; letI := k.ops.aux; letI := k.ops.lawfulAux
    inferInstanceAs (LawfulMerge (FlatStack d.R k.bundle.O))

instance lawfulAuxInst {v : Ty} {ix : Ix} (d : RDesc v ix) : LawfulAux d.R := d.lawfulAux

end Laws

/-! ### C09, C10, `Reach`: for every composition -/
section Props
variable [SizeEnv] {v : Ty} {ix : Ix}

/-- **C09 for every composition** (coded ones included): in every reachable state a clone, and a
`clone_from` into a destination with arbitrary reachable prior contents, satisfies the invariant and
is observationally the source: equal reads at every valid index, and after any sequence of further
pushes equal returned indices, equal refusals and equal reads again. (Independence of the two
values is immediate in a pure model: no operation on one mentions the other.) -/
theorem C09_every_composition (d : RDesc v ix) (r : d.R) (hr : Reachable r) :
    (Inv (RegionAux.clone r) ∧ ObsEq (RegionAux.clone r) r) ∧
    ∀ dst : d.R, Reachable dst → Inv (RegionAux.cloneFrom dst r) ∧ ObsEq (RegionAux.cloneFrom dst r) r :=
  ⟨⟨(C09.clone_equal r hr).2, C09.clone_observe r hr⟩,
   fun dst hd => ⟨(C09.cloneFrom_equal dst r hd hr).2, C09.cloneFrom_observe dst r hd hr⟩⟩

/-- the `Sim` form of C09 (the bisimulation of `LawfulRegion`), under the bare invariant -/
theorem C09_sim_every_composition (d : RDesc v ix) (r dst : d.R) (hi : Inv r) (hd : Inv dst) :
    (Sim (RegionAux.clone r) r ∧ Inv (RegionAux.clone r)) ∧
    (Sim (RegionAux.cloneFrom dst r) r ∧ Inv (RegionAux.cloneFrom dst r)) :=
  ⟨LawfulAux.clone_sim r hi, LawfulAux.cloneFrom_sim dst r hd hi⟩

/-- **C10 (reservations) for every composition** (coded ones included): `reserve_items` with
arbitrary (also wrong) announcements and `reserve_regions` over arbitrary reachable sources change
nothing observable -/
theorem C10_every_composition (d : RDesc v ix) (r : d.R) (hr : Reachable r) :
    (∀ vs : List v.interp, ObsEq (RegionAux.reserveItems r vs) r) ∧
    (∀ rs : List d.R, (∀ x ∈ rs, Reachable x) → ObsEq (RegionAux.reserveRegions r rs) r) :=
  ⟨fun vs => C10.reserveItems_invisible r hr vs, fun rs hrs => C10.reserveRegions_invisible r hr rs hrs⟩

/-- **C10 (merge) for every uncoded composition**: a region made by `merge_regions` from any
reachable sources satisfies the invariant and is observationally a default (empty, working) one -/
theorem C10_merge_every_composition (d : RDesc v ix) (hu : d.Uncoded) (rs : List d.R) (hrs : ∀ x ∈ rs, Reachable x) :
    Inv (RegionAux.mergeRegions rs : d.R) ∧ ObsEq (RegionAux.mergeRegions rs) (Region.default : d.R) :=
  have := d.lawfulMerge hu
  ⟨(LawfulMerge.merge_fresh rs fun x hx => reachable_inv x (hrs x hx)).2, C10.merge_fresh rs hrs⟩

/-- a merged region is empty: no index is valid in it -/
theorem C10_merged_empty (d : RDesc v ix) (hu : d.Uncoded) (rs : List d.R) (hrs : ∀ x ∈ rs, Reachable x)
    (j : ix.ty.interp) : Valid (RegionAux.mergeRegions rs : d.R) j ↔ Valid (Region.default : d.R) j :=
  ((C10_merge_every_composition d hu rs hrs).2.1 j).1

/-- **`reach_inv` for every uncoded composition**: the representation invariant holds in every state
reachable through the whole API (creation, push, clear, both reservation calls, merge, clone,
clone_from, from regions obtained the same way) -/
theorem reach_inv_every_composition (d : RDesc v ix) (hu : d.Uncoded) (r : d.R) (h : Reach r) : Inv r :=
  have := d.lawfulMerge hu
  reach_inv r h

/-- hence C01 there … -/
theorem C01_reach_every_composition (d : RDesc v ix) (hu : d.Uncoded) (r : d.R) (hr : Reach r) (x : v.interp)
    (ha : Accepts r x) : ∃ r' j, push r x = some (r', j) ∧ ∃ x', index r' j = some x' ∧ same (R := d.R) x' x :=
  have := d.lawfulMerge hu
  C01.roundtrip_reach r hr x ha

/-- … and C02 across the reservation calls: they keep every issued index reading the same item -/
theorem C02_reserve_every_composition (d : RDesc v ix) (hu : d.Uncoded) (r : d.R) (hr : Reach r) (j : ix.ty.interp)
    (hv : Valid r j) :
    (∀ vs, Valid (RegionAux.reserveItems r vs) j ∧ index (RegionAux.reserveItems r vs) j = index r j) ∧
    (∀ rs : List d.R, (∀ x ∈ rs, Reach x) →
      Valid (RegionAux.reserveRegions r rs) j ∧ index (RegionAux.reserveRegions r rs) j = index r j) :=
  have := d.lawfulMerge hu
  C02.frame_reserve r hr j hv

/-- C09 and C10 in every state reachable through the whole API (uncoded compositions) -/
theorem C09_C10_reach_every_composition (d : RDesc v ix) (hu : d.Uncoded) (r : d.R) (hr : Reach r) :
    ObsEq (RegionAux.clone r) r ∧
    (∀ dst : d.R, Reach dst → ObsEq (RegionAux.cloneFrom dst r) r) ∧
    (∀ vs : List v.interp, ObsEq (RegionAux.reserveItems r vs) r) ∧
    (∀ rs : List d.R, (∀ x ∈ rs, Reach x) → ObsEq (RegionAux.reserveRegions r rs) r) ∧
    (∀ rs : List d.R, (∀ x ∈ rs, Reach x) → ObsEq (RegionAux.mergeRegions rs) (Region.default : d.R)) := by
  have := d.lawfulMerge hu
  have hi := reach_inv r hr
  refine ⟨?_, fun dst hd => ?_, fun vs => ?_, fun rs hrs => ?_, fun rs hrs => ?_⟩
  · have h := LawfulAux.clone_sim r hi
    exact sim_observe _ _ h.1 h.2 hi
  · have h := LawfulAux.cloneFrom_sim dst r (reach_inv dst hd) hi
    exact sim_observe _ _ h.1 h.2 hi
  · have h := LawfulAux.reserveItems_sim r vs hi
    exact sim_observe _ _ h.1 h.2 hi
  · have h := LawfulAux.reserveRegions_sim r rs hi fun x hx => reach_inv x (hrs x hx)
    exact sim_observe _ _ h.1 h.2 hi
  · have h := LawfulMerge.merge_fresh rs fun x hx => reach_inv x (hrs x hx)
    exact sim_observe _ _ h.1 h.2 LawfulRegion.inv_default

/-- **C10 for every `FlatStack`**: `FlatStack::reserve` is invisible and `FlatStack::with_capacity`
is a default stack, over every region description and every index container -/
theorem C10_stack_every_composition (d : RDesc v ix) (k : IdxKind ix.ty) :
    letI := k.ops.aux
    (∀ (fs : FlatStack d.R k.bundle.O), Reachable fs → ∀ n, ObsEq (fs.reserve n) fs) ∧
    (∀ n, ObsEq (FlatStack.withCapacity n : FlatStack d.R k.bundle.O) (Region.default : FlatStack d.R k.bundle.O)) :=
  letI := k.ops.aux
  haveI := k.ops.lawfulAux
  ⟨fun fs hr n => C10.stack_reserve_invisible fs hr n, fun n => C10.stack_withCapacity_default n⟩

/-- **C12 across merge, for every `ConsecutiveIndexPairs`**: a region made by `merge_regions` starts
counting at 0, whatever it was merged from -/
theorem C12_merge_every_consec (d : RDesc v .dense) (k : IdxKind .nat) (rs : List (RDesc.consec d k).R) :
    C12.count (RegionAux.mergeRegions rs : (RDesc.consec d k).R) = 0 :=
  letI : RegionAux d.bundleX.R := d.aux
  letI := k.ops.aux
  C12.count_merge (R := d.bundleX.R) (O := k.bundle.O) rs

end Props

/-! ### non-vacuity and agreement with instance resolution -/
section Examples

/-- a history that runs and after which index `j` reads `x`: a populated reachable state -/
theorem populated {R V I : Type} [Region R V I] (ops : List (Op V)) (j : I) (x : V)
    (h : (run (Region.default : R) ops).bind (fun r => index r j) = some x) :
    ∃ r : R, Reachable r ∧ index r j = some x := by
  cases hr : run (Region.default : R) ops with
  | none => simp [hr] at h
  | some r => exact ⟨r, ⟨ops, hr⟩, by simpa [hr] using h⟩

/-- columns of collapse of consec of string -/
abbrev exColumns : RDesc (.list .bytes) (.any .nat) := .columns (.collapse (.consec str .opt)) .opt
/-- a `FlatStack` over a consec region -/
abbrev exStack : RDesc .bytes (.any .nat) := .stack (.consec (.owned .u8) .list) .opt
/-- a tuple of option / result -/
abbrev exTuple : RDesc (.pair (.opt .bytes) (.pair (.res (.list .nat) .nat) .unit))
    (.any (.pair (.opt .range) (.pair (.res .range .nat) .unit))) :=
  .tupleCons (.option str) (.tupleCons (.result (.owned .nat) (.mirror .nat)) .tupleNil)
/-- a slice of slices of strings -/
abbrev exSlice : RDesc (.list (.list .bytes)) .dense := .slice (.slice str pairIdx) pairIdx
/-- `f64` payloads collapsed by IEEE `==` -/
abbrev exCollapse : RDesc .f64 (.any .f64) := .collapse (.mirror .f64)
/-- a stack of results of slices, `Vec` of fan-out indices -/
abbrev exResult : RDesc (.res (.list .nat) .bytes) (.any .nat) := .stack (.result (.slice (.mirror .nat) (.vec 1)) str) .vecStd
/-- a shape for which the model has no `ElemSize` instance: `OwnedRegion<Option<f64>>` -/
abbrev exOddSize : RDesc (.list (.list (.opt .f64))) .dense := .slice (.owned (.opt .f64)) pairIdx
/-- coded regions under wrappers -/
abbrev exCodec : RDesc .bytes (.any .nat) := .stack (.consec .codec .opt) .list
abbrev exHuff : RDesc (.list (.list .u8)) .dense := .slice .huffmanU8 pairIdx

-- the sub-universe: decidable, inhabited by the nestings, and not by the coded ones
example : exColumns.Uncoded := by decide
example : exStack.Uncoded := by decide
example : exTuple.Uncoded := by decide
example : exSlice.Uncoded := by decide
example : exCollapse.Uncoded := by decide
example : exResult.Uncoded := by decide
example : exOddSize.Uncoded := by decide
example : ¬ exCodec.Uncoded := by decide
example : ¬ exHuff.Uncoded := by decide

-- the extension is over the *same* type as `Universe.lean` interprets the description by
example {v : Ty} {ix : Ix} (d : RDesc v ix) [SizeEnv] : RegionAux d.bundle.R := d.aux
example {v : Ty} {ix : Ix} (d : RDesc v ix) [SizeEnv] : @LawfulAux d.bundle.R _ _ d.bundle.inst d.aux := d.lawfulAux

section Std
attribute [local instance] SizeEnv.std

-- with the standard sizes the `RegionAux` instances are the ones instance resolution finds
example : exColumns.aux = (inferInstance : RegionAux (ColumnsRegion (CollapseSequence (ConsecPairs
    (StringRegion (OwnedRegion UInt8)) (Capd IndexOptimized)) Nat) Nat (Capd IndexOptimized))) := rfl
example : exStack.aux = (inferInstance : RegionAux (FlatStack (ConsecPairs (OwnedRegion UInt8) (Capd IndexList))
    (Capd IndexOptimized))) := rfl
example : exTuple.aux = (inferInstance : RegionAux (TupleCons (OptionRegion (StringRegion (OwnedRegion UInt8)))
    (TupleCons (ResultRegion (OwnedRegion Nat) (MirrorRegion Nat)) TupleNil))) := rfl
example : exSlice.aux = (inferInstance : RegionAux (SliceRegion (SliceRegion (StringRegion (OwnedRegion UInt8))
    (Capd (VecIdx (Nat × Nat) 16))) (Capd (VecIdx (Nat × Nat) 16)))) := rfl
example : exCollapse.aux = (inferInstance : RegionAux (CollapseSequence (MirrorRegion F64) F64)) := rfl
example : exResult.aux = (inferInstance : RegionAux (FlatStack (ResultRegion (SliceRegion (MirrorRegion Nat)
    (Capd (VecIdx Nat 1))) (StringRegion (OwnedRegion UInt8))) (Capd (VecIdx (Except (Nat × Nat) (Nat × Nat)) 24)))) := rfl
example : exCodec.aux = (inferInstance : RegionAux (FlatStack (ConsecPairs Codec.Region (Capd IndexOptimized))
    (Capd IndexList))) := rfl
example : exHuff.aux = (inferInstance : RegionAux (SliceRegion HuffU8 (Capd (VecIdx (Nat × Nat) 16)))) := rfl
example : (RDesc.collapse (.columns (.vec .bytes) (.vec 8))).aux =
    (inferInstance : RegionAux (CollapseSequence (ColumnsRegion (VecRegion (List UInt8)) Nat (Capd (VecIdx Nat 8))) Nat)) := rfl

-- populated reachable states: the hypotheses of the theorems are satisfiable
/-- rows `["hi", ""]`, `["hi"]` (collapsed in column 0), `[]` -/
theorem exColumns_populated : ∃ r : exColumns.R, Reachable r ∧ index r 1 = some [[104, 105]] :=
  populated [.push [[104, 105], []], .push [[104, 105]], .push []] 1 _ rfl
theorem exStack_populated : ∃ r : exStack.R, Reachable r ∧ index r 1 = some [3] :=
  populated [.push [1, 2], .clear, .push [], .push [3]] 1 _ rfl
theorem exTuple_populated : ∃ r : exTuple.R, Reachable r ∧
    index r (some (0, 2), (.error 7, ())) = some (some [1, 2], (.error 7, ())) :=
  populated [.push (some [1, 2], (.ok [5, 6], ())), .push (none, (.error 7, ()))] _ _ rfl
theorem exSlice_populated : ∃ r : exSlice.R, Reachable r ∧ index r (1, 3) = some [[], [[7]]] :=
  populated [.push [[[1], [2, 3]]], .push [[], [[7]]]] (1, 3) _ rfl
theorem exResult_populated : ∃ r : exResult.R, Reachable r ∧ index r 1 = some (.error [9]) :=
  populated [.push (.ok [1, 2, 3]), .push (.error [9])] 1 _ rfl
theorem exOddSize_populated : ∃ r : exOddSize.R, Reachable r ∧ index r (0, 1) = some [[none, some ⟨3⟩]] :=
  populated [.push [[none, some ⟨3⟩]]] (0, 1) _ rfl

/-- C09 and C10 at such a state, deep nesting -/
example : ∃ r : exColumns.R, index r 1 = some [[104, 105]] ∧ ObsEq (RegionAux.clone r) r ∧
    ObsEq (RegionAux.reserveItems r [[[1]]]) r ∧ ObsEq (RegionAux.mergeRegions [r, r]) (Region.default : exColumns.R) := by
  obtain ⟨r, hr, hx⟩ := exColumns_populated
  exact ⟨r, hx, (C09_every_composition exColumns r hr).1.2, (C10_every_composition exColumns r hr).1 _,
    (C10_merge_every_composition exColumns (by decide) [r, r] (by simp [hr])).2⟩
example : ∃ r : exStack.R, index r 1 = some [3] ∧ ObsEq (RegionAux.cloneFrom (Region.default : exStack.R) r) r ∧
    ObsEq (RegionAux.reserveRegions r [r]) r ∧ Inv (RegionAux.mergeRegions [r] : exStack.R) := by
  obtain ⟨r, hr, hx⟩ := exStack_populated
  exact ⟨r, hx, ((C09_every_composition exStack r hr).2 _ ⟨[], rfl⟩).2, (C10_every_composition exStack r hr).2 [r] (by simp [hr]),
    (C10_merge_every_composition exStack (by decide) [r] (by simp [hr])).1⟩
example : ∃ r : exTuple.R, Reachable r ∧ ObsEq (RegionAux.clone r) r ∧
    ObsEq (RegionAux.mergeRegions [r]) (Region.default : exTuple.R) := by
  obtain ⟨r, hr, -⟩ := exTuple_populated
  exact ⟨r, hr, (C09_every_composition exTuple r hr).1.2, (C10_merge_every_composition exTuple (by decide) [r] (by simp [hr])).2⟩
example : ∃ r : exSlice.R, Reachable r ∧ ObsEq (RegionAux.clone r) r ∧
    ObsEq (RegionAux.mergeRegions [r]) (Region.default : exSlice.R) := by
  obtain ⟨r, hr, -⟩ := exSlice_populated
  exact ⟨r, hr, (C09_every_composition exSlice r hr).1.2, (C10_merge_every_composition exSlice (by decide) [r] (by simp [hr])).2⟩
example : ∃ r : exResult.R, Reachable r ∧ ObsEq (RegionAux.clone r) r ∧
    ObsEq (RegionAux.mergeRegions [r]) (Region.default : exResult.R) := by
  obtain ⟨r, hr, -⟩ := exResult_populated
  exact ⟨r, hr, (C09_every_composition exResult r hr).1.2, (C10_merge_every_composition exResult (by decide) [r] (by simp [hr])).2⟩
example : ∃ r : exOddSize.R, Reachable r ∧ ObsEq (RegionAux.clone r) r ∧
    ObsEq (RegionAux.mergeRegions [r]) (Region.default : exOddSize.R) := by
  obtain ⟨r, hr, -⟩ := exOddSize_populated
  exact ⟨r, hr, (C09_every_composition exOddSize r hr).1.2, (C10_merge_every_composition exOddSize (by decide) [r] (by simp [hr])).2⟩
/-- the coded compositions have C09 and the reservation half of C10 (their merged regions are not
default ones: no `C10_merge`) -/
example (r : exCodec.R) (hr : Reachable r) : ObsEq (RegionAux.clone r) r ∧ ∀ vs, ObsEq (RegionAux.reserveItems r vs) r :=
  ⟨(C09_every_composition exCodec r hr).1.2, (C10_every_composition exCodec r hr).1⟩
example : Reachable (Region.default : exCodec.R) := ⟨[], rfl⟩

/-- states reachable through the whole API: merge, clone, reserve, push, clone_from, clear -/
example : ∃ r : exStack.R, Reach r ∧ index r 0 = some [1, 2] := by
  refine ⟨_, Reach.clone _ (Reach.push (RegionAux.reserveItems (RegionAux.mergeRegions
    [(Region.default : exStack.R)]) [[1, 2]]) _ [1, 2] 0 (Reach.reserveItems _ _ (Reach.merge _ ?_)) rfl), rfl⟩
  intro x hx
  simp only [List.mem_singleton] at hx
  subst hx
  exact Reach.default
example (r : exColumns.R) (hr : Reach r) : Inv r := reach_inv_every_composition exColumns (by decide) r hr
example (r : exTuple.R) (hr : Reach r) : Inv r := reach_inv_every_composition exTuple (by decide) r hr
example (r : exSlice.R) (hr : Reach r) : Inv r := reach_inv_every_composition exSlice (by decide) r hr
example (r : exResult.R) (hr : Reach r) : Inv r := reach_inv_every_composition exResult (by decide) r hr
example (r : exCollapse.R) (hr : Reach r) : Inv r := reach_inv_every_composition exCollapse (by decide) r hr

end Std
end Examples

end FC.Universe
