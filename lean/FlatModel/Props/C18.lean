import FlatModel.Props.C09
import FlatModel.Proofs.Heap
/-! C18: `heap_size` reports `(used, capacity)` pairs with used ≤ capacity in every state the API can
produce; the used bytes never decrease on push; `clear` keeps every reported capacity and forgets the
payload; every branch of a composite region contributes. -/
namespace FC
open Region
namespace C18

section General
variable {R V I : Type} [Region R V I] [RegionAux R] [HeapInv R] [LawfulHeap R]

omit [HeapInv R] [LawfulHeap R] in
/-- `totalUsed` is the sum of the first components of the pairs handed to the callback -/
theorem totalUsed_eq (r : R) : totalUsed r = ((RegionAux.heap r).map (·.1)).sum := rfl
omit [HeapInv R] [LawfulHeap R] in
/-- `capsOf` lists the second components, in callback order -/
theorem capsOf_eq (r : R) : capsOf r = (RegionAux.heap r).map (·.2) := rfl

/-- every vector has length ≤ capacity in every region value obtainable through the API: creation,
push, clear, the sizing calls (from arbitrary reachable sources), merge, clone and clone_from -/
theorem reach_capInv (r : R) (h : Reach r) : HeapInv.CapInv r := by
  induction h with
  | default => exact LawfulHeap.cap_default
  | push r r' v i _ hp ih => exact LawfulHeap.cap_push r r' v i ih hp
  | clear r _ ih => exact LawfulHeap.cap_clear r ih
  | reserveItems r vs _ ih => exact LawfulHeap.cap_reserveItems r vs ih
  | reserveRegions r rs _ _ ih _ => exact LawfulHeap.cap_reserveRegions r rs ih
  | merge rs _ _ => exact LawfulHeap.cap_merge rs
  | clone r _ ih => exact LawfulHeap.cap_clone r ih
  | cloneFrom d s _ _ ihd ihs => exact LawfulHeap.cap_cloneFrom d s ihd ihs

omit [HeapInv R] [LawfulHeap R] in
/-- pushing keeps a region within the reachable states -/
theorem reach_pushes (r r' : R) (vs : List V) (h : Reach r) (hp : C08.runPushes r vs = some r') : Reach r' := by
  induction vs generalizing r with
  | nil => simp only [C08.runPushes, Option.some.injEq] at hp; subst hp; exact h
  | cons v vs ih =>
    simp only [C08.runPushes] at hp
    cases h1 : push r v with
    | none => simp [h1] at hp
    | some p =>
      obtain ⟨r1, i⟩ := p
      simp only [h1] at hp
      exact ih r1 (Reach.push r r1 v i h h1) hp

/-- **C18 (soundness)**: every pair `heap_size` reports has used ≤ capacity -/
theorem used_le_cap (r : R) (h : Reach r) : ∀ p ∈ RegionAux.heap r, p.1 ≤ p.2 :=
  LawfulHeap.heap_ok r (reach_capInv r h)

/-- **C18 (monotone)**: a push never decreases the bytes in use -/
theorem push_monotone (r r' : R) (v : V) (i : I) (h : Reach r) (hp : push r v = some (r', i)) :
    totalUsed r ≤ totalUsed r' :=
  LawfulHeap.used_push r r' v i (reach_capInv r h) hp

/-- … nor does any sequence of pushes -/
theorem pushes_monotone (r r' : R) (vs : List V) (h : Reach r) (hp : C08.runPushes r vs = some r') :
    totalUsed r ≤ totalUsed r' := by
  induction vs generalizing r with
  | nil => simp only [C08.runPushes, Option.some.injEq] at hp; subst hp; exact Nat.le_refl _
  | cons v vs ih =>
    simp only [C08.runPushes] at hp
    cases h1 : push r v with
    | none => simp [h1] at hp
    | some p =>
      obtain ⟨r1, i⟩ := p
      simp only [h1] at hp
      exact Nat.le_trans (push_monotone r r1 v i h h1) (ih r1 (Reach.push r r1 v i h h1) hp)

/-- **C18 (clear keeps the allocations)**: after `clear` the same number of pairs is reported and no
reported capacity is smaller than before -/
theorem clear_caps [KeepsCaps R] (r : R) (h : Reach r) :
    (capsOf r).length = (capsOf (clear r)).length ∧
    ∀ k (h1 : k < (capsOf r).length) (h2 : k < (capsOf (clear r)).length), (capsOf r)[k] ≤ (capsOf (clear r))[k] :=
  leAll_iff_getElem.mp (KeepsCaps.caps_clear r (reach_capInv r h))

/-- … hence neither is their sum -/
theorem clear_caps_total [KeepsCaps R] (r : R) (h : Reach r) : (capsOf r).sum ≤ (capsOf (clear r)).sum :=
  leAll_sum (KeepsCaps.caps_clear r (reach_capInv r h))

/-- **C18 (clear forgets the payload)**, part 1: the bytes in use do not grow on `clear` -/
theorem clear_used (r : R) (h : Reach r) : totalUsed (clear r) ≤ totalUsed r :=
  LawfulHeap.used_clear_le r (reach_capInv r h)

/-- **C18 (clear forgets the payload)**, part 2, all regions without columns: a cleared region accounts
exactly what a fresh one does — nothing, except the leading offset `0` of `ConsecutiveIndexPairs`,
which `default` holds too -/
theorem clear_used_default [ClearsToDefault R] (r : R) (h : Reach r) :
    totalUsed (clear r) = totalUsed (default : R) :=
  ClearsToDefault.used_clear r (reach_capInv r h)

/-- a fresh region is the minimum: whatever was pushed in between, `clear` brings the bytes in use
back to the floor every reachable state stays above -/
theorem default_le_pushes (r : R) (vs : List V) (hp : C08.runPushes (default : R) vs = some r) :
    totalUsed (default : R) ≤ totalUsed r :=
  pushes_monotone _ r vs Reach.default hp
end General

/-! ### part 2 for columns: what remains after `clear` -/
section Columns
variable {R V I O : Type} [Region R V I] [IdxCont O Nat] [RegionAux R] [IdxAux O] [ElemSize I]
  [HeapInv R] [IdxHeapInv O] [LawfulHeap R] [LawfulIdxHeap O]

omit [HeapInv R] [IdxHeapInv O] [LawfulHeap R] [LawfulIdxHeap O] in
/-- the column vector itself, each cleared column, and the cleared row offsets -/
theorem clear_used_columns (r : ColumnsRegion R I O) :
    totalUsed (clear r) = r.cols.length * RegionAux.selfSize R + (r.cols.map fun c => totalUsed (clear c)).sum
      + totalUsed (clear r.indices) :=
  columns_used_clear r

/-- with columns that clear to their default accounting only structural bytes remain: the `R`
headers of the retained columns, what a fresh column accounts, and the fresh row offsets -/
theorem clear_used_columns_default [ClearsToDefault R] (r : ColumnsRegion R I O) (h : Reach r) :
    totalUsed (clear r) = r.cols.length * (RegionAux.selfSize R + totalUsed (default : R))
      + totalUsed (default : ConsecPairs (OwnedRegion I) O) :=
  columns_used_clear_default r (reach_capInv r h)
end Columns

/-! ### every branch of a composite contributes -/
section EveryChild

theorem every_child_string {R I : Type} [Region R (List UInt8) I] [RegionAux R] (r : StringRegion R) :
    RegionAux.heap r = RegionAux.heap r.inner := rfl

theorem every_child_option {R V I : Type} [Region R V I] [RegionAux R] (r : OptionRegion R) :
    RegionAux.heap r = RegionAux.heap r.inner := rfl

/-- both sides of a result -/
theorem every_child_result {T VT IT E VE IE : Type} [Region T VT IT] [Region E VE IE] [RegionAux T] [RegionAux E]
    (r : ResultRegion T E) : RegionAux.heap r = RegionAux.heap r.oks ++ RegionAux.heap r.errs := rfl

/-- every tuple field (arity n is n nested conses) -/
theorem every_child_tuple {A VA IA B VB IB : Type} [Region A VA IA] [Region B VB IB] [RegionAux A] [RegionAux B]
    (r : TupleCons A B) : RegionAux.heap r = RegionAux.heap r.head ++ RegionAux.heap r.tail := rfl

theorem every_child_collapse {R V I : Type} [Region R V I] [HasEqv V] [RegionAux R] [IndexSize I]
    (r : CollapseSequence R I) : RegionAux.heap r = RegionAux.heap r.inner := rfl

/-- the offsets container of the slices, then the elements -/
theorem every_child_slice {R V I O : Type} [Region R V I] [IdxCont O I] [RegionAux R] [IdxAux O]
    (r : SliceRegion R O) : RegionAux.heap r = IdxAux.heap r.slices ++ RegionAux.heap r.inner := rfl

theorem every_child_consec {R V O : Type} [Region R V (Nat × Nat)] [DenseRegion R] [IdxCont O Nat] [RegionAux R]
    [IdxAux O] (r : ConsecPairs R O) : RegionAux.heap r = IdxAux.heap r.indices ++ RegionAux.heap r.inner := rfl

/-- the vector of columns, then every column, then the row offsets -/
theorem every_child_columns {R V I O : Type} [Region R V I] [IdxCont O Nat] [RegionAux R] [IdxAux O] [ElemSize I]
    (r : ColumnsRegion R I O) :
    RegionAux.heap r = [(r.cols.length * RegionAux.selfSize R, r.cols.length * RegionAux.selfSize R)] ++
      (r.cols.map RegionAux.heap).flatten ++ RegionAux.heap r.indices := rfl

/-- every pair any column reports is among the pairs of the columns region -/
theorem every_column_reported {R V I O : Type} [Region R V I] [IdxCont O Nat] [RegionAux R] [IdxAux O] [ElemSize I]
    (r : ColumnsRegion R I O) (c : R) (hc : c ∈ r.cols) : ∀ p ∈ RegionAux.heap c, p ∈ RegionAux.heap r := by
  intro p hp
  rw [every_child_columns]
  simp only [List.mem_append, List.mem_flatten, List.mem_map]
  exact Or.inl (Or.inr ⟨_, ⟨c, hc, rfl⟩, hp⟩)

/-- the region and the index container of a stack -/
theorem every_child_stack {R V I S : Type} [Region R V I] [IdxCont S I] [RegionAux R] [IdxAux S]
    (fs : FlatStack R S) : RegionAux.heap fs = RegionAux.heap fs.region ++ IdxAux.heap fs.indices := rfl

/-- both vectors of an `IndexList`; `IndexOptimized` reports its spilled list (the stride is inline) -/
theorem every_child_indexList (c : Capd IndexList) (h : IdxHeapInv.CapInv c) :
    ∃ c1 c2, c.caps = [c1, c2] ∧
      IdxAux.heap c = [(c.a.smol.length * 4, c1 * 4), (c.a.chonk.length * 8, c2 * 8)] := by
  have hl := capd_caps_len c h
  obtain ⟨a, caps⟩ := c
  match caps, hl with
  | [c1, c2], _ => exact ⟨c1, c2, rfl, rfl⟩

theorem every_child_indexOptimized (c : Capd IndexOptimized) (h : IdxHeapInv.CapInv c) :
    ∃ c1 c2, c.caps = [c1, c2] ∧
      IdxAux.heap c = [(c.a.spilled.smol.length * 4, c1 * 4), (c.a.spilled.chonk.length * 8, c2 * 8)] := by
  have hl := capd_caps_len c h
  obtain ⟨a, caps⟩ := c
  match caps, hl with
  | [c1, c2], _ => exact ⟨c1, c2, rfl, rfl⟩

/-- exact accounting of the terminal storages -/
theorem owned_exact {T : Type} [ElemSize T] (r : OwnedRegion T) :
    RegionAux.heap r = [(r.slices.data.length * ElemSize.bytes T, r.slices.cap * ElemSize.bytes T)] := rfl

theorem vec_exact {T : Type} [ElemSize T] (r : VecRegion T) :
    RegionAux.heap r = [(r.v.data.length * ElemSize.bytes T, r.v.cap * ElemSize.bytes T)] := rfl

theorem vecIdx_exact {T : Type} {sz : Nat} (c : Capd (VecIdx T sz)) (h : IdxHeapInv.CapInv c) :
    usedI c = (IdxCont.iter c).length * sz :=
  capd_vecIdx_used c h

theorem mirror_none {T : Type} (r : MirrorRegion T) : RegionAux.heap r = [] := rfl
end EveryChild

/-! ### lower bounds: the payload is accounted (core cases)

The general statement would be `payload + index entries ≤ Σ used` for a recursively defined
`stored`; proved here are the exact forms for the storages everything else is built from. -/
section LowerBound

theorem owned_run_len {T : Type} (r0 r : OwnedRegion T) (vs : List (List T)) (h : C08.runPushes r0 vs = some r) :
    r.slices.data.length = r0.slices.data.length + (vs.map List.length).sum := by
  induction vs generalizing r0 with
  | nil => simp only [C08.runPushes, Option.some.injEq] at h; subst h; simp
  | cons v vs ih =>
    simp only [C08.runPushes, Region.push] at h
    rw [ih _ h]
    simp only [MVec.extend_data, List.length_append, List.map_cons, List.sum_cons]
    omega

/-- `OwnedRegion<T>`: after pushing the slices `vs` into a fresh region, the bytes in use are exactly
the number of elements times `size_of::<T>()` -/
theorem lower_bound_owned {T : Type} [ElemSize T] (r : OwnedRegion T) (vs : List (List T))
    (h : C08.runPushes (default : OwnedRegion T) vs = some r) :
    totalUsed r = (vs.map List.length).sum * ElemSize.bytes T := by
  rw [owned_used, owned_run_len _ r vs h]
  simp [Region.default]

theorem string_run (r0 r : StringRegion (OwnedRegion UInt8)) (vs : List (List UInt8))
    (h : C08.runPushes r0 vs = some r) : C08.runPushes r0.inner vs = some r.inner := by
  induction vs generalizing r0 with
  | nil => simp only [C08.runPushes, Option.some.injEq] at h ⊢; subst h; rfl
  | cons v vs ih =>
    simp only [C08.runPushes] at h ⊢
    exact ih _ h

/-- `StringRegion<OwnedRegion<u8>>`: exactly the total number of bytes of the strings pushed -/
theorem lower_bound_string (r : StringRegion (OwnedRegion UInt8)) (vs : List (List UInt8))
    (h : C08.runPushes (default : StringRegion (OwnedRegion UInt8)) vs = some r) :
    totalUsed r = (vs.map List.length).sum := by
  have := lower_bound_owned r.inner vs (string_run _ r vs h)
  show totalUsed r.inner = _
  rw [this]
  show _ * 1 = _
  omega

section Slice
variable {R V I : Type} [Region R V I] [RegionAux R] [HeapInv R] [LawfulHeap R] {sz : Nat}

/-- `SliceRegion<R, Vec<R::Index>>`: one index entry of `sz` bytes per element stored, plus
whatever the inner region accounts for the elements themselves -/
theorem lower_bound_slice (r : SliceRegion R (Capd (VecIdx I sz))) (h : Reach r) :
    totalUsed r = (IdxCont.iter r.slices).length * sz + totalUsed r.inner := by
  rw [slice_used, capd_vecIdx_used r.slices (reach_capInv r h).1]

omit [RegionAux R] [HeapInv R] [LawfulHeap R] in
theorem pushAll_count (inner inner' : R) (slices slices' : Capd (VecIdx I sz)) (vs : List V)
    (h : pushAll inner slices vs = some (inner', slices')) :
    (IdxCont.iter slices').length = (IdxCont.iter slices).length + vs.length := by
  induction vs generalizing inner slices with
  | nil =>
    simp only [pushAll, Option.some.injEq, Prod.mk.injEq] at h
    obtain ⟨_, rfl⟩ := h
    rfl
  | cons v vs ih =>
    simp only [pushAll] at h
    cases h1 : push inner v with
    | none => simp [h1] at h
    | some p =>
      obtain ⟨in1, i⟩ := p
      simp only [h1] at h
      rw [ih _ _ h]
      show (slices.a.v ++ [i]).length + vs.length = slices.a.v.length + (vs.length + 1)
      simp only [List.length_append, List.length_singleton]
      omega

omit [RegionAux R] [HeapInv R] [LawfulHeap R] in
theorem slice_run_count (r0 r : SliceRegion R (Capd (VecIdx I sz))) (vss : List (List V))
    (h : C08.runPushes r0 vss = some r) :
    (IdxCont.iter r.slices).length = (IdxCont.iter r0.slices).length + (vss.map List.length).sum := by
  induction vss generalizing r0 with
  | nil => simp only [C08.runPushes, Option.some.injEq] at h; subst h; simp
  | cons vs vss ih =>
    simp only [C08.runPushes] at h
    cases h1 : push r0 vs with
    | none => simp [h1] at h
    | some p =>
      obtain ⟨r1, i⟩ := p
      simp only [h1] at h
      rw [ih r1 h, pushAll_count _ _ _ _ vs (slice_push_some r0 r1 vs i h1).1]
      simp only [List.map_cons, List.sum_cons]
      omega

/-- … so after pushing the slices `vss` into a fresh region the index entries alone account
`(Σ lengths) * sz` bytes, on top of the inner region's accounting -/
theorem lower_bound_slice_pushes (r : SliceRegion R (Capd (VecIdx I sz))) (vss : List (List V))
    (h : C08.runPushes (default : SliceRegion R (Capd (VecIdx I sz))) vss = some r) :
    totalUsed r = (vss.map List.length).sum * sz + totalUsed r.inner := by
  have hr : Reach r := reach_pushes _ r vss Reach.default h
  rw [lower_bound_slice r hr, slice_run_count _ r vss h]
  show (0 + _) * sz + _ = _
  rw [Nat.zero_add]
end Slice

/-- **C18 (lower bound)**, general form: in every reachable state the used bytes cover `stored`, the
payload bytes plus index entries computed from the contents by recursion over the structure of the
region type (`Stored` instances in `Proofs/Heap.lean`) -/
theorem lower_bound {R V I : Type} [Region R V I] [RegionAux R] [HeapInv R] [LawfulHeap R] [Stored R]
    (r : R) (h : Reach r) : Stored.stored r ≤ totalUsed r :=
  Stored.stored_le r (reach_capInv r h)

/-- what `stored` unfolds to for a stack of slices of strings: the bytes, 8 per string offset,
16 per element index, 16 per stack entry -/
example (fs : FlatStack (SliceRegion (ConsecPairs (StringRegion (OwnedRegion UInt8)) (Capd (VecIdx Nat 8)))
      (Capd (VecIdx Nat 16))) (Capd (VecIdx (Nat × Nat) 16))) :
    Stored.stored fs =
      ((IdxCont.iter fs.region.slices).length * 16 + 0 +
        ((IdxCont.iter fs.region.inner.indices).length * 8 + 0 + fs.region.inner.inner.inner.slices.data.length * 1)) +
      ((IdxCont.iter fs.indices).length * 16 + 0) := rfl

/-- the exact forms in terms of the values pushed (`lower_bound_owned`, `lower_bound_string`,
`lower_bound_slice_pushes`) are proved for the core storages only; this is the weakest of them -/
theorem lower_bound_partial {T : Type} [ElemSize T] (r : OwnedRegion T) (vs : List (List T))
    (h : C08.runPushes (default : OwnedRegion T) vs = some r) :
    (vs.map List.length).sum * ElemSize.bytes T ≤ totalUsed r :=
  Nat.le_of_eq (lower_bound_owned r vs h).symm
end LowerBound

/-! ### instance resolution finds the laws for nested types -/
section Examples
abbrev IO := Capd IndexOptimized

example : LawfulHeap (ColumnsRegion (CollapseSequence (ConsecPairs Str IO) Nat) Nat IO) := inferInstance
example : LawfulHeap (FlatStack (SliceRegion (ConsecPairs Str IO) (Capd IndexList)) (Capd (VecIdx (Nat × Nat) 16))) :=
  inferInstance
example : LawfulHeap (TupleCons (OptionRegion Str) (TupleCons (OwnedRegion Nat) TupleNil)) := inferInstance
example : LawfulHeap (ResultRegion (SliceRegion (MirrorRegion Nat) (Capd (VecIdx Nat 1))) Str) := inferInstance
example : LawfulHeap (ConsecPairs (SliceRegion (CollapseSequence Str (Nat × Nat)) (Capd PairIdx)) (Capd (VecIdx Nat 8))) :=
  inferInstance
example : LawfulHeap (ColumnsRegion (VecRegion Nat) Nat (Capd (VecIdx Nat 8))) := inferInstance
example : LawfulHeap (StringRegion (ConsecPairs (OwnedRegion UInt8) (Capd IndexList))) := inferInstance
example : ClearsToDefault (FlatStack (SliceRegion (ConsecPairs Str IO) (Capd IndexList)) (Capd (VecIdx (Nat × Nat) 16))) :=
  inferInstance
example : KeepsCaps (ColumnsRegion (CollapseSequence (ConsecPairs Str IO) Nat) Nat IO) := inferInstance
example : KeepsCaps (FlatStack (SliceRegion (ConsecPairs Str IO) (Capd IndexList)) (Capd (VecIdx (Nat × Nat) 16))) :=
  inferInstance
-- the coded regions: sound and monotone; the Huffman container reports nothing (`todo!()` in the crate)
example : LawfulHeap (FlatStack (ConsecPairs Codec.Region IO) (Capd IndexList)) := inferInstance
example : LawfulHeap (SliceRegion HuffU8 (Capd PairIdx)) := inferInstance
example : Stored (ColumnsRegion (CollapseSequence (ConsecPairs Str IO) Nat) Nat IO) := inferInstance
example : LawfulIdxHeap (Capd IndexOptimized) := inferInstance
example : LawfulIdxHeap (Capd IndexList) := inferInstance
example : LawfulIdxHeap (Capd (VecIdx (Nat × Nat) 16)) := inferInstance

/-! non-vacuity: populated regions, their reports before and after `clear` -/
abbrev Stack1 := FlatStack (SliceRegion (ConsecPairs Str IO) (Capd IndexList)) (Capd (VecIdx (Nat × Nat) 16))

/-- the bytes (5 of 5), the string offsets (stride inline, one spilled `u32`), the element offsets
(three `u32`), the two `(usize, usize)` stack entries -/
example : (C08.runPushes (default : Stack1) [[[104, 105], []], [[1, 2, 3]]]).map
      (fun r => (RegionAux.heap r, RegionAux.heap (clear r)))
    = some ([(12, 16), (0, 0), (4, 4), (0, 0), (5, 5), (32, 32)],
            [(0, 16), (0, 0), (0, 4), (0, 0), (0, 5), (0, 32)]) := by decide

abbrev Cols1 := ColumnsRegion (CollapseSequence (ConsecPairs Str IO) Nat) Nat IO

/-- three columns of 128 bytes each stay accounted after `clear`; the third row collapses its
repeated cell in column 2 and 3 only if equal to the previous one in the same column -/
example : (C08.runPushes (default : Cols1) [[[104, 105], []], [[1, 2, 3]], [[1, 2, 3], [1], [1]]]).map
      (fun r => (RegionAux.heap r, RegionAux.heap (clear r)))
    = some ([(384, 384), (4, 4), (0, 0), (5, 5), (4, 4), (0, 0), (1, 1), (0, 0), (0, 0), (1, 1), (8, 8), (0, 0), (48, 64)],
            [(384, 384), (0, 4), (0, 0), (0, 5), (0, 4), (0, 0), (0, 1), (0, 0), (0, 0), (0, 1), (0, 8), (0, 0), (0, 64)]) := by
  decide

/-- the theorems apply to these states -/
example (r : Stack1) (h : C08.runPushes (default : Stack1) [[[104, 105], []], [[1, 2, 3]]] = some r) :
    (∀ p ∈ RegionAux.heap r, p.1 ≤ p.2) ∧ totalUsed (clear r) = totalUsed (default : Stack1) :=
  have hr := reach_pushes _ r _ Reach.default h
  ⟨used_le_cap r hr, clear_used_default r hr⟩

/-- why the dictionary-coded region has no `KeepsCaps` instance: the model reports its byte store as
`(len, len)` and clears to `default`, so the reported capacity drops (in the crate the store is an
`OwnedRegion<u8>` whose `Vec` keeps its allocation; the codec itself reports nothing) -/
example : (C08.runPushes (Region.default : Codec.Region) [[7]]).map (fun r => (capsOf r, capsOf (clear r)))
    = some ([1], [0]) := by decide
end Examples

end C18
end FC
