import FlatModel.Props.UniverseHeap
import FlatModel.Props.C17Grows
/-! C17, last sentence, for **every uncoded composition**: "without pre-sizing, pushing n items costs
O(log n) allocator calls per internal storage — never one per item".

`UniverseHeap.lean` (`C17_log_growth_every_composition`) has this on the sub-universe `d.VecSized` (a
fixed list of `Vec`s). Here it holds for every `d : RDesc v ix` with `d.Uncoded`: `collapse`, `consec`,
`columns` (whose set of storages grows) and `slice` / `stack` / `consec` / `columns` over `IndexOptimized`
and `IndexList` included. Storages are addressed by key (`Proofs/Grows.lean`).

The one reported entry for which the law is false *in the model* is the column vector of a `columns`
region (`C17.columnsVec_not_cstep`: its capacity is not modelled, `heap_size` reports its length); it is
the only key with `tracked = false`, and there is none when `d.NoColumns` (`RDesc.all_tracked`). -/
namespace FC.Universe
open FC Region

/-! ### index containers -/

theorem IdxKind.idxGrows : {i : Ty} → (k : IdxKind i) →
    @IdxGrows k.bundle.O i.interp k.bundle.inst k.ops.aux k.heap.heapInv
  | i, .vec sz => inferInstanceAs (IdxGrows (Capd (VecIdx i.interp sz)))
  | _, .opt => inferInstanceAs (IdxGrows (Capd IndexOptimized))
  | _, .list => inferInstanceAs (IdxGrows (Capd IndexList))

@[instance_reducible] def IdxKind.anchor : {i : Ty} → (k : IdxKind i) →
    @IdxAnchor k.bundle.O i.interp k.bundle.inst k.ops.aux k.heap.heapInv
  | i, .vec sz => inferInstanceAs (IdxAnchor (Capd (VecIdx i.interp sz)))
  | _, .opt => inferInstanceAs (IdxAnchor (Capd IndexOptimized))
  | _, .list => inferInstanceAs (IdxAnchor (Capd IndexList))

/-! ### `Grows`, `LawfulGrows`: every uncoded description -/
section GrowsDefs
variable [σ : SizeEnv]

/-- the keyed storages of the interpretation of an uncoded description -/
@[instance_reducible] def RDesc.grows : {v : Ty} → {ix : Ix} → (d : RDesc v ix) → d.Uncoded → Grows d.R
  | _, _, .mirror t, _ => inferInstanceAs (Grows (MirrorRegion t.interp))
  | _, _, .owned t, _ => letI := σ.elem t; inferInstanceAs (Grows (OwnedRegion t.interp))
  | _, _, .vec t, _ => letI := σ.elem t; inferInstanceAs (Grows (VecRegion t.interp))
  | _, .any i, .string d, h =>
    letI : Region d.R (List UInt8) i.interp := d.bundle.inst
    letI : RegionAux d.R := d.aux
    letI : Grows d.R := d.grows h
    inferInstanceAs (Grows (StringRegion d.R))
  | _, .dense, .string d, h =>
    letI : Region d.R (List UInt8) (Nat × Nat) := d.bundle.inst
    letI : RegionAux d.R := d.aux
    letI : Grows d.R := d.grows h
    inferInstanceAs (Grows (StringRegion d.R))
  | _, _, .option d, h => letI := d.grows h; inferInstanceAs (Grows (OptionRegion d.R))
  | _, _, .result t e, h => letI := t.grows h.1; letI := e.grows h.2; inferInstanceAs (Grows (ResultRegion t.R e.R))
  | _, _, .tupleNil, _ => inferInstanceAs (Grows TupleNil)
  | _, _, .tupleCons a b, h => letI := a.grows h.1; letI := b.grows h.2; inferInstanceAs (Grows (TupleCons a.R b.R))
  | v, _, .collapse (ix := ix) d, h =>
    letI := v.hasEqv; letI := σ.index ix.ty; letI := d.grows h
    inferInstanceAs (Grows (CollapseSequence d.R ix.ty.interp))
  | _, _, .slice d k, h =>
    letI := d.grows h; letI := k.ops.aux
    inferInstanceAs (Grows (SliceRegion d.R k.bundle.O))
  | _, _, .consec d k, h =>
    letI : RegionAux d.bundleX.R := d.aux
    letI : Grows d.bundleX.R := d.grows h
    letI := k.ops.aux
    inferInstanceAs (Grows (ConsecPairs d.bundleX.R k.bundle.O))
  | _, _, .columns (ix := ix) d k, h =>
    letI := σ.elem ix.ty; letI := d.grows h; letI := k.ops.aux
    inferInstanceAs (Grows (ColumnsRegion d.R ix.ty.interp k.bundle.O))
  | _, _, .stack d k, h =>
    letI := d.grows h; letI := k.ops.aux
    inferInstanceAs (Grows (FlatStack d.R k.bundle.O))

/-- **`LawfulGrows` for every uncoded description** -/
theorem RDesc.lawfulGrows : {v : Ty} → {ix : Ix} → (d : RDesc v ix) → (h : d.Uncoded) →
    @LawfulGrows d.R _ _ d.bundle.inst d.aux d.heapInv (d.grows h)
  | _, _, .mirror t, _ => inferInstanceAs (LawfulGrows (MirrorRegion t.interp))
  | _, _, .owned t, _ => letI := σ.elem t; inferInstanceAs (LawfulGrows (OwnedRegion t.interp))
  | _, _, .vec t, _ => letI := σ.elem t; inferInstanceAs (LawfulGrows (VecRegion t.interp))
  | _, .any i, .string d, h =>
    letI : Region d.R (List UInt8) i.interp := d.bundle.inst
    letI : RegionAux d.R := d.aux
    letI : HeapInv d.R := d.heapInv
    letI : LawfulHeap d.R := d.lawfulHeap
    letI : Grows d.R := d.grows h
    letI : LawfulGrows d.R := d.lawfulGrows h
    inferInstanceAs (LawfulGrows (StringRegion d.R))
  | _, .dense, .string d, h =>
    letI : Region d.R (List UInt8) (Nat × Nat) := d.bundle.inst
    letI : RegionAux d.R := d.aux
    letI : HeapInv d.R := d.heapInv
    letI : LawfulHeap d.R := d.lawfulHeap
    letI : Grows d.R := d.grows h
    letI : LawfulGrows d.R := d.lawfulGrows h
    inferInstanceAs (LawfulGrows (StringRegion d.R))
  | _, _, .option d, h =>
    letI := d.grows h; letI := d.lawfulGrows h
    inferInstanceAs (LawfulGrows (OptionRegion d.R))
  | _, _, .result t e, h =>
    letI := t.grows h.1; letI := e.grows h.2; letI := t.lawfulGrows h.1; letI := e.lawfulGrows h.2
    inferInstanceAs (LawfulGrows (ResultRegion t.R e.R))
  | _, _, .tupleNil, _ => inferInstanceAs (LawfulGrows TupleNil)
  | _, _, .tupleCons a b, h =>
    letI := a.grows h.1; letI := b.grows h.2; letI := a.lawfulGrows h.1; letI := b.lawfulGrows h.2
    inferInstanceAs (LawfulGrows (TupleCons a.R b.R))
  | v, _, .collapse (ix := ix) d, h =>
    letI := v.hasEqv; letI := σ.index ix.ty; letI := d.grows h; letI := d.lawfulGrows h
    inferInstanceAs (LawfulGrows (CollapseSequence d.R ix.ty.interp))
  | _, _, .slice d k, h =>
    letI := d.grows h; letI := d.lawfulGrows h
    letI := k.ops.aux; letI := k.heap.heapInv; letI := k.heap.lawfulHeap; letI := k.idxGrows
    inferInstanceAs (LawfulGrows (SliceRegion d.R k.bundle.O))
  | _, _, .consec d k, h =>
    letI : RegionAux d.bundleX.R := d.aux
    letI : HeapInv d.bundleX.R := d.heapInv
    letI : LawfulHeap d.bundleX.R := d.lawfulHeap
    letI : Grows d.bundleX.R := d.grows h
    letI : LawfulGrows d.bundleX.R := d.lawfulGrows h
    letI := k.ops.aux; letI := k.heap.heapInv; letI := k.heap.lawfulHeap; letI := k.idxGrows
    inferInstanceAs (LawfulGrows (ConsecPairs d.bundleX.R k.bundle.O))
  | _, _, .columns (ix := ix) d k, h =>
    letI := σ.elem ix.ty; letI := d.grows h; letI := d.lawfulGrows h
    letI := k.ops.aux; letI := k.heap.heapInv; letI := k.heap.lawfulHeap; letI := k.idxGrows
    inferInstanceAs (LawfulGrows (ColumnsRegion d.R ix.ty.interp k.bundle.O))
  | _, _, .stack d k, h =>
    letI := d.grows h; letI := d.lawfulGrows h
    letI := k.ops.aux; letI := k.heap.heapInv; letI := k.heap.lawfulHeap; letI := k.idxGrows
    inferInstanceAs (LawfulGrows (FlatStack d.R k.bundle.O))

/-- the growth law of an uncoded description, under the capacity invariant -/
theorem RDesc.growthLaw {v : Ty} {ix : Ix} (d : RDesc v ix) (h : d.Uncoded) :
    GrowthLaw (d.grows h) (HeapInv.CapInv (R := d.R)) :=
  (d.lawfulGrows h).law

/-- **`ClearExact` for every uncoded description**: the invariant under which `clear` changes no capacity -/
@[instance_reducible] def RDesc.clearExact : {v : Ty} → {ix : Ix} → (d : RDesc v ix) → (h : d.Uncoded) →
    @ClearExact d.R _ _ d.bundle.inst d.aux d.heapInv (d.grows h)
  | _, _, .mirror t, _ => inferInstanceAs (ClearExact (MirrorRegion t.interp))
  | _, _, .owned t, _ => letI := σ.elem t; inferInstanceAs (ClearExact (OwnedRegion t.interp))
  | _, _, .vec t, _ => letI := σ.elem t; inferInstanceAs (ClearExact (VecRegion t.interp))
  | _, .any i, .string d, h =>
    letI : Region d.R (List UInt8) i.interp := d.bundle.inst
    letI : RegionAux d.R := d.aux
    letI : HeapInv d.R := d.heapInv
    letI : Grows d.R := d.grows h
    letI : ClearExact d.R := d.clearExact h
    inferInstanceAs (ClearExact (StringRegion d.R))
  | _, .dense, .string d, h =>
    letI : Region d.R (List UInt8) (Nat × Nat) := d.bundle.inst
    letI : RegionAux d.R := d.aux
    letI : HeapInv d.R := d.heapInv
    letI : Grows d.R := d.grows h
    letI : ClearExact d.R := d.clearExact h
    inferInstanceAs (ClearExact (StringRegion d.R))
  | _, _, .option d, h =>
    letI := d.grows h; letI := d.clearExact h
    inferInstanceAs (ClearExact (OptionRegion d.R))
  | _, _, .result t e, h =>
    letI := t.grows h.1; letI := e.grows h.2; letI := t.clearExact h.1; letI := e.clearExact h.2
    inferInstanceAs (ClearExact (ResultRegion t.R e.R))
  | _, _, .tupleNil, _ => inferInstanceAs (ClearExact TupleNil)
  | _, _, .tupleCons a b, h =>
    letI := a.grows h.1; letI := b.grows h.2; letI := a.clearExact h.1; letI := b.clearExact h.2
    inferInstanceAs (ClearExact (TupleCons a.R b.R))
  | v, _, .collapse (ix := ix) d, h =>
    letI := v.hasEqv; letI := σ.index ix.ty; letI := d.grows h; letI := d.clearExact h
    inferInstanceAs (ClearExact (CollapseSequence d.R ix.ty.interp))
  | _, _, .slice d k, h =>
    letI := d.grows h; letI := d.clearExact h
    letI := k.ops.aux; letI := k.heap.heapInv; letI := k.heap.lawfulHeap; letI := k.idxGrows
    inferInstanceAs (ClearExact (SliceRegion d.R k.bundle.O))
  | _, _, .consec d k, h =>
    letI : RegionAux d.bundleX.R := d.aux
    letI : HeapInv d.bundleX.R := d.heapInv
    letI : Grows d.bundleX.R := d.grows h
    letI : ClearExact d.bundleX.R := d.clearExact h
    letI := k.ops.aux; letI := k.heap.heapInv; letI := k.heap.lawfulHeap; letI := k.anchor
    inferInstanceAs (ClearExact (ConsecPairs d.bundleX.R k.bundle.O))
  | _, _, .columns (ix := ix) d k, h =>
    letI := σ.elem ix.ty; letI := d.grows h; letI := d.lawfulGrows h; letI := d.clearExact h
    letI := k.ops.aux; letI := k.heap.heapInv; letI := k.heap.lawfulHeap; letI := k.anchor
    inferInstanceAs (ClearExact (ColumnsRegion d.R ix.ty.interp k.bundle.O))
  | _, _, .stack d k, h =>
    letI := d.grows h; letI := d.clearExact h
    letI := k.ops.aux; letI := k.heap.heapInv; letI := k.idxGrows
    inferInstanceAs (ClearExact (FlatStack d.R k.bundle.O))

omit σ in
theorem join2B_true {f g : Key → Bool} (hf : ∀ k, f k = true) (hg : ∀ k, g k = true) (k : Key) : join2B f g k = true := by
  match k with
  | [] => rfl
  | 0 :: k' => exact hf k'
  | 1 :: k' => exact hg k'
  | (_ + 2) :: _ => rfl

/-- without `columns` every reported storage is tracked -/
theorem RDesc.all_tracked : {v : Ty} → {ix : Ix} → (d : RDesc v ix) → (h : d.Uncoded) → d.NoColumns →
    ∀ k, (d.grows h).tracked k = true
  | _, _, .mirror _, _, _ => fun _ => rfl
  | _, _, .owned _, _, _ => fun _ => rfl
  | _, _, .vec _, _, _ => fun _ => rfl
  | _, .any _, .string d, h, hc => d.all_tracked h hc
  | _, .dense, .string d, h, hc => d.all_tracked h hc
  | _, _, .option d, h, hc => d.all_tracked h hc
  | _, _, .result t e, h, hc => join2B_true (t.all_tracked h.1 hc.1) (e.all_tracked h.2 hc.2)
  | _, _, .tupleNil, _, _ => fun _ => rfl
  | _, _, .tupleCons a b, h, hc => join2B_true (a.all_tracked h.1 hc.1) (b.all_tracked h.2 hc.2)
  | _, _, .collapse d, h, hc => d.all_tracked h hc
  | _, _, .slice d _, h, hc => join2B_true (fun _ => rfl) (d.all_tracked h hc)
  | _, _, .consec d _, h, hc => join2B_true (fun _ => rfl) (d.all_tracked h hc)
  | _, _, .stack d _, h, hc => join2B_true (d.all_tracked h hc) (fun _ => rfl)

end GrowsDefs

/-! ### C17 (amortised growth), for every uncoded composition -/
section C17Props
variable [SizeEnv] {v : Ty} {ix : Ix}
open C08

/-- the keyed view is what `heap_size` reports: in every reachable state, `capAt` on `keys` is, in
callback order, the list of reported capacities; keys are distinct; any other key has capacity `0` -/
theorem C17_keys_are_heap_uncoded (d : RDesc v ix) (hu : d.Uncoded) (r : d.R) (hr : Reach r) :
    ((d.grows hu).keys r).map ((d.grows hu).capAt r) = (RegionAux.heap r).map (·.2) ∧
    ((d.grows hu).keys r).Nodup ∧ (∀ k, k ∉ (d.grows hu).keys r → (d.grows hu).capAt r k = 0) :=
  ⟨(d.growthLaw hu).keys_caps r (C18.reach_capInv r hr), (d.growthLaw hu).keys_nodup r, (d.growthLaw hu).capAt_notin r⟩

/-- **C17 without pre-sizing, for every uncoded composition.** From any state reachable through the
API, along any batch of pushes:
* the storage with key `k` changes capacity at most `log2 (its final capacity) + 1` times — a storage
  that does not exist at the start (a column added by a wider row) starts from capacity `0`, its first
  allocation is counted;
* the same for the `j`-th pair of the final `heap_size` report;
* storages never disappear, and keep their order in the report. -/
theorem C17_log_growth_uncoded (d : RDesc v ix) (hu : d.Uncoded) (r r' : d.R) (xs : List v.interp)
    (hr : Reach r) (hp : runPushes r xs = some r') :
    (∀ k, (d.grows hu).tracked k = true →
      changes ((d.grows hu).capAt r k) (C17.histK (d.grows hu) r xs k) ≤ Nat.log2 ((d.grows hu).capAt r' k) + 1) ∧
    (∀ j (hj : j < ((d.grows hu).keys r').length), (d.grows hu).tracked (((d.grows hu).keys r')[j]) = true →
      changes ((d.grows hu).capAt r (((d.grows hu).keys r')[j])) (C17.histK (d.grows hu) r xs (((d.grows hu).keys r')[j]))
        ≤ Nat.log2 (((RegionAux.heap r').map (·.2)).getD j 0) + 1) ∧
    ((d.grows hu).keys r).Sublist ((d.grows hu).keys r') ∧
    (∀ k, k ∉ (d.grows hu).keys r → (d.grows hu).capAt r k = 0) :=
  have hc := C18.reach_capInv r hr
  ⟨fun k hk => C17.log_growth_keyed (d.growthLaw hu) r r' xs hc hp k hk,
   fun j hj hk => C17.log_growth_heap (d.growthLaw hu) r r' xs hc hp j hj hk,
   C17.pushes_keys_sublist (d.growthLaw hu) r r' xs hc hp,
   (d.growthLaw hu).capAt_notin r⟩

/-- every change of a tracked capacity at least doubles it (and leaves it non-zero) -/
theorem C17_push_doubles_uncoded (d : RDesc v ix) (hu : d.Uncoded) (r r' : d.R) (x : v.interp) (i : ix.ty.interp)
    (hr : Reach r) (hp : push r x = some (r', i)) (k : Key) (hk : (d.grows hu).tracked k = true)
    (hne : (d.grows hu).capAt r' k ≠ (d.grows hu).capAt r k) :
    2 * (d.grows hu).capAt r k ≤ (d.grows hu).capAt r' k ∧ 1 ≤ (d.grows hu).capAt r' k :=
  C17.push_doubles_keyed (d.growthLaw hu) r r' x i (C18.reach_capInv r hr) hp k hk hne

/-- **the total**: the capacity changes a batch causes, over all tracked storages of the final state,
are at most `Σ (log2 capacity + 1)` over those storages; no other tracked key ever had a capacity -/
theorem C17_total_uncoded (d : RDesc v ix) (hu : d.Uncoded) (r r' : d.R) (xs : List v.interp)
    (hr : Reach r) (hp : runPushes r xs = some r') :
    C17.allocs (d.grows hu) r xs (C17.trackedKeys (d.grows hu) r') ≤
      ((C17.trackedKeys (d.grows hu) r').map fun k => Nat.log2 ((d.grows hu).capAt r' k) + 1).sum ∧
    (∀ k, (d.grows hu).tracked k = true → k ∉ (d.grows hu).keys r' →
      changes ((d.grows hu).capAt r k) (C17.histK (d.grows hu) r xs k) = 0) :=
  have hc := C18.reach_capInv r hr
  ⟨C17.total_allocs_le (d.growthLaw hu) r r' xs hc hp,
   fun k hk hn => C17.no_changes_elsewhere (d.growthLaw hu) r r' xs hc hp k hk hn⟩

/-- … and without `columns` that is the whole final `heap_size` report: the batch causes at most
`Σ over the reported capacities c of (log2 c + 1)` capacity changes -/
theorem C17_total_nocolumns (d : RDesc v ix) (hu : d.Uncoded) (hc : d.NoColumns) (r r' : d.R) (xs : List v.interp)
    (hr : Reach r) (hp : runPushes r xs = some r') :
    C17.allocs (d.grows hu) r xs ((d.grows hu).keys r') ≤
      (((RegionAux.heap r').map (·.2)).map fun c => Nat.log2 c + 1).sum :=
  C17.total_allocs_le_heap (d.growthLaw hu) (d.all_tracked hu hc) r r' xs (C18.reach_capInv r hr) hp

/-- **the bridge**: on the sub-universe `d.VecSized` of `C17_log_growth_every_composition`, the keyed view
read off `Sized` (key `[j]` = position `j` of `Sized.caps`, in bytes) obeys the same growth law, under
the bookkeeping invariant `CInv`; `C17.log_growth_keyed` etc. apply to it -/
theorem C17_bridge_vecSized (d : RDesc v ix) (hs : d.VecSized) :
    GrowthLaw (@Grows.ofSized d.R _ _ d.bundle.inst d.aux (d.sized hs)) (@Sized.CInv d.R _ _ d.bundle.inst d.aux (d.sized hs)) :=
  letI := d.sized hs
  haveI := (d.sizedLaws hs).lawful
  haveI := (d.sizedLaws hs).growth
  GrowthLaw.ofSized

/-- `clear` releases nothing: the same storages are reported and no tracked capacity is smaller -/
theorem C17_clear_keeps_uncoded (d : RDesc v ix) (hu : d.Uncoded) (r : d.R) (hr : Reach r) :
    (d.grows hu).keys (clear r) = (d.grows hu).keys r ∧
    ∀ k, (d.grows hu).tracked k = true → (d.grows hu).capAt r k ≤ (d.grows hu).capAt (clear r) k :=
  C17.clear_keeps (d.growthLaw hu) r (C18.reach_capInv r hr)

/-- **`clear` keeps the allocations, exactly, for every uncoded composition**: in every state built
by `default`, `push`, `clear`, `heap_size` reports the same capacities after `clear` as before (and
the same storages): nothing is released, nothing is allocated -/
theorem C17_clear_exact_uncoded (d : RDesc v ix) (hu : d.Uncoded) (r : d.R) (h : C17.Filled r) :
    (RegionAux.heap (clear r)).map (·.2) = (RegionAux.heap r).map (·.2) ∧
    (d.grows hu).keys (clear r) = (d.grows hu).keys r ∧
    ∀ k, (d.grows hu).capAt (clear r) k = (d.grows hu).capAt r k :=
  letI := d.grows hu
  haveI := d.lawfulGrows hu
  letI := d.clearExact hu
  have := C17.clear_keeps_exactly r h
  ⟨this.2.2, this.1, this.2.1⟩

end C17Props

/-! ### non-vacuity and agreement with instance resolution -/
section Examples
open C08
attribute [local instance] SizeEnv.std

/-- a `FlatStack` over `IndexOptimized` whose indices are not a stride: collapsed pushes repeat an index -/
abbrev exSpillStack : RDesc .nat (.any .nat) := .stack (.collapse (.vec .nat)) .opt
/-- a slice over `IndexList` of a consec region over `IndexOptimized` -/
abbrev exListSlice : RDesc (.list .bytes) .dense := .slice (.consec str .opt) .list
/-- columns of columns -/
abbrev exColCol : RDesc (.list (.list .nat)) (.any .nat) := .columns (.columns (.vec .nat) (.vec 8)) .list

-- the descriptions `C17_log_growth_every_composition` does not reach
example : exColumns.Uncoded ∧ ¬ exColumns.VecSized := by decide
example : exStack.Uncoded ∧ ¬ exStack.VecSized := by decide
example : exSpillStack.Uncoded ∧ ¬ exSpillStack.VecSized := by decide
example : exCollapse.Uncoded ∧ ¬ exCollapse.VecSized := by decide
example : exListSlice.Uncoded ∧ ¬ exListSlice.VecSized := by decide
example : exColCol.Uncoded ∧ ¬ exColCol.VecSized ∧ ¬ exColCol.NoColumns := by decide
-- and those it does
example : exTuple.Uncoded ∧ exTuple.VecSized ∧ exTuple.NoColumns := by decide
example : exSlice.Uncoded ∧ exResult.Uncoded ∧ exOddSize.Uncoded := by decide
-- coded regions are outside (their `heap_size` is `todo!()` / not modelled)
example : ¬ exCodec.Uncoded ∧ ¬ exHuff.Uncoded := by decide

-- the keyed views are the ones instance resolution finds for the catalogued types
example : exColumns.grows (by decide) = (inferInstance : Grows (ColumnsRegion (CollapseSequence (ConsecPairs
    (StringRegion (OwnedRegion UInt8)) (Capd IndexOptimized)) Nat) Nat (Capd IndexOptimized))) := rfl
example : exStack.grows (by decide) = (inferInstance : Grows (FlatStack (ConsecPairs (OwnedRegion UInt8) (Capd IndexList))
    (Capd IndexOptimized))) := rfl
example : exTuple.grows (by decide) = (inferInstance : Grows (TupleCons (OptionRegion (StringRegion (OwnedRegion UInt8)))
    (TupleCons (ResultRegion (OwnedRegion Nat) (MirrorRegion Nat)) TupleNil))) := rfl
example : exSlice.grows (by decide) = (inferInstance : Grows (SliceRegion (SliceRegion (StringRegion (OwnedRegion UInt8))
    (Capd (VecIdx (Nat × Nat) 16))) (Capd (VecIdx (Nat × Nat) 16)))) := rfl
example : exSpillStack.grows (by decide) = (inferInstance : Grows (FlatStack (CollapseSequence (VecRegion Nat) Nat)
    (Capd IndexOptimized))) := rfl

/-! #### columns of collapse of consec of strings over `IndexOptimized`: a run in which the region
gains a column and strides spill -/

/-- three rows of width 1: one column, the row offsets 0, 1, 2, 3 are a stride -/
def exRows1 : List (List (List UInt8)) := [[[1]], [[2]], [[3]]]
/-- then two rows of width 2: a second column appears, the row offsets 5, 7 leave the stride -/
def exRows2 : List (List (List UInt8)) := [[[4], [5, 6]], [[7], [8]]]

/-- Evaluated. Before the batch `heap_size` reports 7 storages, after it 10: the three storages of
the new column (keys `1 :: 1 :: _`) appear between those of column 0 and those of the row offsets.
Histories (capacity before the batch, capacities after each of the two pushes), per final storage:
the column vector `[0]` 128 → 256 (not tracked); the bytes of column 0 `[1,0,1,0]` 4 → 4 → 8; the
offsets of the new column `[1,1,0,0]` 0 → 0 → 4 (its stride `0, 2` breaks at `3`: spill); its bytes
`[1,1,1,0]` 0 → 2 → 4; the spilled row offsets `[2,0,0]` 0 → 4 → 8 (the stride `0,1,2,3` breaks at `5`);
the row index payload `[2,1,0]` 32 → 64 → 64. -/
example : ∃ r r' : exColumns.R, runPushes (Region.default : exColumns.R) exRows1 = some r ∧ runPushes r exRows2 = some r' ∧
    (exColumns.grows (by decide)).keys r = [[0], [1, 0, 0, 0], [1, 0, 0, 1], [1, 0, 1, 0], [2, 0, 0], [2, 0, 1], [2, 1, 0]] ∧
    (RegionAux.heap r).map (·.2) = [128, 0, 0, 4, 0, 0, 32] ∧
    (exColumns.grows (by decide)).keys r' = [[0], [1, 0, 0, 0], [1, 0, 0, 1], [1, 0, 1, 0], [1, 1, 0, 0], [1, 1, 0, 1],
      [1, 1, 1, 0], [2, 0, 0], [2, 0, 1], [2, 1, 0]] ∧
    (RegionAux.heap r').map (·.2) = [256, 0, 0, 8, 4, 0, 4, 8, 0, 64] ∧
    ((exColumns.grows (by decide)).keys r').map (fun k => ((exColumns.grows (by decide)).tracked k,
        (exColumns.grows (by decide)).capAt r k, C17.histK (exColumns.grows (by decide)) r exRows2 k)) =
      [(false, 128, [256, 256]), (true, 0, [0, 0]), (true, 0, [0, 0]), (true, 4, [4, 8]), (true, 0, [0, 4]),
       (true, 0, [0, 0]), (true, 0, [2, 4]), (true, 0, [4, 8]), (true, 0, [0, 0]), (true, 32, [64, 64])] ∧
    -- (number of capacity changes, the bound `log2 (final capacity) + 1`), tracked storages in report order
    (C17.trackedKeys (exColumns.grows (by decide)) r').map (fun k =>
        (changes ((exColumns.grows (by decide)).capAt r k) (C17.histK (exColumns.grows (by decide)) r exRows2 k),
         Nat.log2 ((exColumns.grows (by decide)).capAt r' k) + 1)) =
      [(0, 1), (0, 1), (1, 4), (1, 3), (0, 1), (2, 3), (2, 4), (0, 1), (1, 7)] ∧
    C17.allocs (exColumns.grows (by decide)) r exRows2 (C17.trackedKeys (exColumns.grows (by decide)) r') = 7 :=
  ⟨_, _, rfl, rfl, by decide, by decide, by decide, by decide, by decide, by decide, by decide⟩

/-- the theorems apply to that run (from a populated state): every hypothesis is met -/
example (r r' : exColumns.R) (h0 : runPushes (Region.default : exColumns.R) exRows1 = some r) (h : runPushes r exRows2 = some r') :
    changes ((exColumns.grows (by decide)).capAt r [1, 1, 1, 0]) (C17.histK (exColumns.grows (by decide)) r exRows2 [1, 1, 1, 0])
      ≤ Nat.log2 ((exColumns.grows (by decide)).capAt r' [1, 1, 1, 0]) + 1 ∧
    ((exColumns.grows (by decide)).keys r).Sublist ((exColumns.grows (by decide)).keys r') ∧
    C17.allocs (exColumns.grows (by decide)) r exRows2 (C17.trackedKeys (exColumns.grows (by decide)) r') ≤
      ((C17.trackedKeys (exColumns.grows (by decide)) r').map fun k => Nat.log2 ((exColumns.grows (by decide)).capAt r' k) + 1).sum :=
  have hr := reach_of_reachable_pushes r _ h0
  have hg := C17_log_growth_uncoded exColumns (by decide) r r' exRows2 hr h
  ⟨hg.1 [1, 1, 1, 0] rfl, hg.2.2.1, (C17_total_uncoded exColumns (by decide) r r' exRows2 hr h).1⟩

/-- the bound is attained: the bytes of column 0, pushed one byte at a time from empty, change capacity
4 times (1, 2, 4, 8) and `log2 8 + 1 = 4` -/
example : ∃ r' : exColumns.R, runPushes (Region.default : exColumns.R) (exRows1 ++ exRows2) = some r' ∧
    C17.histK (exColumns.grows (by decide)) (Region.default : exColumns.R) (exRows1 ++ exRows2) [1, 0, 1, 0] = [1, 2, 4, 4, 8] ∧
    changes 0 (C17.histK (exColumns.grows (by decide)) (Region.default : exColumns.R) (exRows1 ++ exRows2) [1, 0, 1, 0]) = 4 ∧
    Nat.log2 ((exColumns.grows (by decide)).capAt r' [1, 0, 1, 0]) + 1 = 4 :=
  ⟨_, rfl, by decide, by decide, by decide⟩

/-- `clear` after that run: the same ten capacities are reported (column vector, spilled offsets and all) -/
example : (runPushes (Region.default : exColumns.R) (exRows1 ++ exRows2)).map
      (fun r => ((RegionAux.heap r).map (·.2), (RegionAux.heap (clear r)).map (·.2))) =
    some ([256, 0, 0, 8, 4, 0, 4, 8, 0, 64], [256, 0, 0, 8, 4, 0, 4, 8, 0, 64]) := by decide
example (r : exColumns.R) (h : runPushes (Region.default : exColumns.R) (exRows1 ++ exRows2) = some r) :
    (RegionAux.heap (clear r)).map (·.2) = (RegionAux.heap r).map (·.2) :=
  (C17_clear_exact_uncoded exColumns (by decide) r (C17.Filled.pushes _ C17.Filled.default h)).1

/-! #### a `FlatStack` over `IndexOptimized` that spills -/

/-- collapsed pushes repeat an index: the stack's indices 0, 1, 1, 2, 2, … are not a stride, the
fourth copy spills into the `u32` vector of the `IndexList` (key `[1, 0]`: 0 → 4 → 8 → 16 → 32 bytes) -/
def exCopies : List Nat := [5, 6, 6, 7, 7, 8, 9, 9, 9, 3]

example : ∃ r' : exSpillStack.R, runPushes (Region.default : exSpillStack.R) exCopies = some r' ∧
    (exSpillStack.grows (by decide)).keys r' = [[0, 0], [1, 0], [1, 1]] ∧
    (RegionAux.heap r').map (·.2) = [64, 32, 0] ∧
    ((exSpillStack.grows (by decide)).keys r').map (C17.histK (exSpillStack.grows (by decide)) (Region.default : exSpillStack.R) exCopies) =
      [[8, 16, 16, 32, 32, 32, 64, 64, 64, 64], [0, 0, 0, 4, 8, 16, 16, 32, 32, 32], [0, 0, 0, 0, 0, 0, 0, 0, 0, 0]] ∧
    ((exSpillStack.grows (by decide)).keys r').map (fun k =>
        (changes 0 (C17.histK (exSpillStack.grows (by decide)) (Region.default : exSpillStack.R) exCopies k),
         Nat.log2 ((exSpillStack.grows (by decide)).capAt r' k) + 1)) = [(4, 7), (4, 6), (0, 1)] :=
  ⟨_, rfl, by decide, by decide, by decide, by decide⟩
example (r r' : exSpillStack.R) (xs : List Nat) (hr : Reach r) (h : runPushes r xs = some r') :
    C17.allocs (exSpillStack.grows (by decide)) r xs ((exSpillStack.grows (by decide)).keys r') ≤
      (((RegionAux.heap r').map (·.2)).map fun c => Nat.log2 c + 1).sum :=
  C17_total_nocolumns exSpillStack (by decide) (by decide) r r' xs hr h
example (r r' : exStack.R) (xs : List (List UInt8)) (hr : Reach r) (h : runPushes r xs = some r') (k : Key) :
    changes ((exStack.grows (by decide)).capAt r k) (C17.histK (exStack.grows (by decide)) r xs k) ≤
      Nat.log2 ((exStack.grows (by decide)).capAt r' k) + 1 :=
  (C17_log_growth_uncoded exStack (by decide) r r' xs hr h).1 k (exStack.all_tracked (by decide) (by decide) k)

/-! #### a tuple of option / result (also `VecSized`: both theorems apply, the capacities agree) -/
def exPairs : List (Option (List UInt8) × (Except Nat (List Nat) × Unit)) :=
  [(some [1, 2], (.ok [5, 6], ())), (none, (.error 7, ())), (some [3], (.ok [1, 2, 3], ()))]

example : ∃ r' : exTuple.R, runPushes (Region.default : exTuple.R) exPairs = some r' ∧
    (exTuple.grows (by decide)).keys r' = [[0, 0], [1, 0, 0, 0]] ∧ (RegionAux.heap r').map (·.2) = [4, 40] ∧
    ((exTuple.grows (by decide)).keys r').map (C17.histK (exTuple.grows (by decide)) (Region.default : exTuple.R) exPairs) =
      [[2, 2, 4], [16, 16, 40]] ∧
    (letI := exTuple.sized (by decide); Sized.caps r' = [4, 5] ∧ Sized.sizes exTuple.R = [1, 8]) :=
  ⟨_, rfl, by decide, by decide, by decide, by decide⟩
/-- the bridge: on a `VecSized` description the keyed view obtained from `Sized` obeys the same law -/
example : GrowthLaw (@Grows.ofSized exTuple.R _ _ exTuple.bundle.inst exTuple.aux (exTuple.sized (by decide)))
    (@Sized.CInv exTuple.R _ _ exTuple.bundle.inst exTuple.aux (exTuple.sized (by decide))) :=
  C17_bridge_vecSized exTuple (by decide)

/-! #### a slice over `IndexList` of a consec region over `IndexOptimized` -/
example : ∃ r' : exListSlice.R, runPushes (Region.default : exListSlice.R) [[[1], [2, 3]], [], [[4, 5, 6]], [[7], [8], [9]]] = some r' ∧
    (exListSlice.grows (by decide)).keys r' = [[0, 0], [0, 1], [1, 0, 0], [1, 0, 1], [1, 1, 0]] ∧
    (RegionAux.heap r').map (·.2) = [32, 0, 32, 0, 12] ∧
    ((exListSlice.grows (by decide)).keys r').map (C17.histK (exListSlice.grows (by decide)) (Region.default : exListSlice.R)
        [[[1], [2, 3]], [], [[4, 5, 6]], [[7], [8], [9]]]) =
      [[8, 8, 16, 32], [0, 0, 0, 0], [4, 4, 8, 32], [0, 0, 0, 0], [3, 3, 6, 12]] :=
  ⟨_, rfl, by decide, by decide, by decide⟩
example (r r' : exListSlice.R) (xs : List (List (List UInt8))) (hr : Reach r) (h : runPushes r xs = some r') :
    C17.allocs (exListSlice.grows (by decide)) r xs ((exListSlice.grows (by decide)).keys r') ≤
      (((RegionAux.heap r').map (·.2)).map fun c => Nat.log2 c + 1).sum :=
  C17_total_nocolumns exListSlice (by decide) (by decide) r r' xs hr h

/-! #### columns of columns: storages appear at two levels -/
/-- the second row is wider at both levels: the outer region gains a column (keys `1 :: 1 :: _`, a whole
inner columns region), and the inner region of column 0 gains a column (keys `[1, 0, 1, 1, 0]`); three
entries are column vectors (`tracked = false`) -/
example : ∃ r r' : exColCol.R, runPushes (Region.default : exColCol.R) [[[1]]] = some r ∧ runPushes r [[[2, 3], [4]]] = some r' ∧
    (exColCol.grows (by decide)).keys r = [[0], [1, 0, 0], [1, 0, 1, 0, 0], [1, 0, 2, 0, 0], [1, 0, 2, 1, 0], [2, 0, 0], [2, 0, 1], [2, 1, 0]] ∧
    (exColCol.grows (by decide)).keys r' = [[0], [1, 0, 0], [1, 0, 1, 0, 0], [1, 0, 1, 1, 0], [1, 0, 2, 0, 0], [1, 0, 2, 1, 0],
      [1, 1, 0], [1, 1, 1, 0, 0], [1, 1, 2, 0, 0], [1, 1, 2, 1, 0], [2, 0, 0], [2, 0, 1], [2, 1, 0]] ∧
    ((exColCol.grows (by decide)).keys r').filter (fun k => !(exColCol.grows (by decide)).tracked k) = [[0], [1, 0, 0], [1, 1, 0]] ∧
    ((exColCol.grows (by decide)).keys r').map (fun k => ((exColCol.grows (by decide)).capAt r k, (exColCol.grows (by decide)).capAt r' k)) =
      [(80, 160), (24, 48), (8, 16), (0, 8), (16, 32), (8, 24), (0, 24), (0, 8), (0, 16), (0, 8), (8, 16), (0, 0), (8, 24)] :=
  ⟨_, _, rfl, rfl, by decide, by decide, by decide, by decide⟩
example (r r' : exColCol.R) (xs : List (List (List Nat))) (hr : Reach r) (h : runPushes r xs = some r') :
    C17.allocs (exColCol.grows (by decide)) r xs (C17.trackedKeys (exColCol.grows (by decide)) r') ≤
      ((C17.trackedKeys (exColCol.grows (by decide)) r').map fun k => Nat.log2 ((exColCol.grows (by decide)).capAt r' k) + 1).sum :=
  (C17_total_uncoded exColCol (by decide) r r' xs hr h).1

/-! #### many pushes, few changes -/
/-- nine strings into a consec region over `IndexOptimized`: the byte store changes capacity five
times (1, 2, 4, 8, 16 = `log2 16 + 1`), not nine; the offsets are a stride and allocate nothing -/
example : (C17.histK ((RDesc.consec (.owned .u8) .opt).grows (by decide)) (Region.default : (RDesc.consec (.owned .u8) .opt).R)
      [[1], [2], [3], [4], [5], [6], [7], [8], [9]] [1, 0] = [1, 2, 4, 4, 8, 8, 8, 8, 16]) ∧
    changes 0 (C17.histK ((RDesc.consec (.owned .u8) .opt).grows (by decide)) (Region.default : (RDesc.consec (.owned .u8) .opt).R)
      [[1], [2], [3], [4], [5], [6], [7], [8], [9]] [1, 0]) = 5 ∧
    changes 0 (C17.histK ((RDesc.consec (.owned .u8) .opt).grows (by decide)) (Region.default : (RDesc.consec (.owned .u8) .opt).R)
      [[1], [2], [3], [4], [5], [6], [7], [8], [9]] [0, 0]) = 0 := by decide

end Examples
end FC.Universe
