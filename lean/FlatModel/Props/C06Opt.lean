import FlatModel.Proofs.HuffCreate
/-! C06 (optimality part): the code built by `Huffman::create_from` is a canonical, complete prefix code of
minimal weighted length among all prefix codes (with at least one bit per symbol). -/
namespace FC.C06
open FC FC.Huff
open FC.Huff.Opt (PrefixFree)

/-- exactly the symbols of `counts` get a code -/
theorem lookup_some_iff (counts : List (Nat × Int)) (hv : Valid counts) (s : Nat) :
    ((createFrom counts).lookup s).isSome ↔ s ∈ counts.map Prod.fst := by
  by_cases hne : counts = []
  · subst hne; simp [createFrom, Code.lookup]
  · obtain ⟨t, hT, henc⟩ := createFrom_struct hv hne
    have hk := encode_keys_perm hT henc
    rw [← hk.mem_iff]
    unfold Code.lookup
    rw [Option.isSome_map, List.find?_isSome]
    simp only [List.mem_map, beq_iff_eq]

/-- a lone symbol gets the one-bit code `0` (repair D4) -/
theorem single_symbol_one_bit (s : Nat) (c : Int) : (createFrom [(s, c)]).lookup s = some (1, 0) := by
  simp [Code.lookup, createFrom_single]

/-- the bit strings of the encoder entries (`bits` bits of `code`, most significant first) form a prefix-free list -/
theorem canonical_is_prefix_free (counts : List (Nat × Int)) (hv : Valid counts) :
    PrefixFree (codeBits (createFrom counts).encode) := by
  by_cases hne : counts = []
  · subst hne; simp [createFrom, PrefixFree, codeBits]
  · obtain ⟨t, _, henc⟩ := createFrom_struct hv hne
    rw [henc]
    exact assign_prefixFree _ _ (finalLevels_pre t _ (le_sum_of_mem Prod.fst (finalLevels t)))

/-- every code fits in its length -/
theorem code_lt (counts : List (Nat × Int)) (hv : Valid counts) :
    ∀ e ∈ (createFrom counts).encode, e.2.2 < 2 ^ e.2.1 := by
  by_cases hne : counts = []
  · subst hne; simp [createFrom]
  · obtain ⟨t, _, henc⟩ := createFrom_struct hv hne
    rw [henc]
    exact assign_code_lt _ _ 0 0 (finalLevels_pre t _ (le_sum_of_mem Prod.fst (finalLevels t)))

/-- with at least two symbols every code length is at least one bit -/
theorem lengths_pos (counts : List (Nat × Int)) (hv : Valid counts) (h2 : 2 ≤ counts.length) :
    ∀ p ∈ counts, 1 ≤ lenH counts p.1 := by
  have hne : counts ≠ [] := by rintro rfl; simp at h2
  obtain ⟨t, hT, henc⟩ := createFrom_struct hv hne
  have hlen : t.syms.length = counts.length := by simpa using hT.leaves_syms.length_eq
  intro p hp
  have : p.1 ∈ (finalLevels t).map Prod.snd :=
    ((finalLevels_syms t).trans hT.leaves_syms).mem_iff.mpr (List.mem_map_of_mem hp)
  obtain ⟨q, hq, hqs⟩ := List.mem_map.mp this
  rw [← hqs, lenH_level hv hT henc hq]
  exact finalLevels_pos (by omega) q hq

/-- **completeness**: with at least two symbols the code lengths have Kraft sum exactly one
(`Σ 2^(M − len s) = 2^M` for every bound `M` on the lengths) -/
theorem lengths_kraft_eq_one (counts : List (Nat × Int)) (hv : Valid counts) (h2 : 2 ≤ counts.length)
    (M : Nat) (hM : ∀ p ∈ counts, lenH counts p.1 ≤ M) :
    (counts.map fun p => 2 ^ (M - lenH counts p.1)).sum = 2 ^ M := by
  have hne : counts ≠ [] := by rintro rfl; simp at h2
  obtain ⟨t, hT, henc⟩ := createFrom_struct hv hne
  have hlen : t.syms.length = counts.length := by simpa using hT.leaves_syms.length_eq
  rw [sum_counts_eq_sum_levels hT (fun s => 2 ^ (M - lenH counts s))]
  have hM' : ∀ q ∈ finalLevels t, q.1 ≤ M := by
    intro q hq
    have : q.2 ∈ counts.map Prod.fst :=
      ((finalLevels_syms t).trans hT.leaves_syms).mem_iff.mp (List.mem_map_of_mem hq)
    obtain ⟨p, hp, hps⟩ := List.mem_map.mp this
    have := hM p hp
    rw [hps, lenH_level hv hT henc hq] at this
    exact this
  have h3 : ((finalLevels t).map fun p => 2 ^ (M - lenH counts p.2)) = (finalLevels t).map fun p => 2 ^ (M - p.1) :=
    List.map_congr_left (fun p hp => by rw [lenH_level hv hT henc hp])
  rw [h3]
  exact finalLevels_kraft (by omega) M hM'

/-- **optimality**, over the naturals: no prefix code `g` on the symbols of `counts` (with at least one bit per
symbol) has smaller weighted length than the code built by `create_from` -/
theorem optimal_nat (counts : List (Nat × Int)) (hv : Valid counts) (g : Nat → List Bool)
    (hpf : PrefixFree (counts.map fun p => g p.1)) (hlen : ∀ p ∈ counts, 1 ≤ (g p.1).length) :
    (counts.map fun p => p.2.toNat * lenH counts p.1).sum ≤ (counts.map fun p => p.2.toNat * (g p.1).length).sum := by
  match counts, hv, hpf, hlen with
  | [], _, _, _ => simp
  | [(s, c)], _, _, hlen =>
    have h1 : lenH [(s, c)] s = 1 := by unfold lenH; rw [single_symbol_one_bit]
    have := hlen (s, c) (by simp)
    simp only [List.map_cons, List.map_nil, List.sum_cons, List.sum_nil, h1]
    simp only at this
    have := Nat.mul_le_mul_left c.toNat this
    omega
  | p :: q :: rest, hv, hpf, _ =>
    obtain ⟨t, hT, henc⟩ := createFrom_struct hv (by simp)
    rw [cost_eq hv hT henc (by simp)]
    obtain ⟨c, hrel, hcost⟩ := hT.huffRel
    have hz : (((p :: q :: rest).map fun p => T.leaf p.1).map (T.cost (wOf (p :: q :: rest)))).sum = 0 := by
      simp [List.map_map, Function.comp_def]
    rw [hcost, hz, Nat.add_zero]
    have hF := Opt.feasible_of_prefixFree (p :: q :: rest) (fun p => p.2.toNat) (fun p => g p.1)
      (((p :: q :: rest).map fun p => (g p.1).length).sum) hpf
      (le_sum_of_mem (fun p : Nat × Int => (g p.1).length) _)
    have hE : (((p :: q :: rest).map fun i => (i.2.toNat, (g i.1).length)).map Prod.fst).Perm
        (((p :: q :: rest).map fun p => T.leaf p.1).map (T.weight (wOf (p :: q :: rest)))) := by
      rw [List.map_map, List.map_map]
      refine List.Perm.of_eq (List.map_congr_left ?_)
      intro x hx
      simp only [Function.comp_apply, T.weight, wOf_mem hv hx]
    have := Opt.optimal hrel _ _ hE hF
    simpa [Opt.cost, List.map_map, Function.comp_def] using this

/-- **optimality** (C06): for valid `counts`, every competing prefix code `g` on the symbols of `counts` with at
least one bit per symbol costs at least as much as the code built by `create_from`:
`Σ count(s) · len_H(s) ≤ Σ count(s) · |g s|`, where `len_H s` is the `bits` component of `lookup s` -/
theorem optimal (counts : List (Nat × Int)) (hv : Valid counts) (g : Nat → List Bool)
    (hpf : PrefixFree (counts.map fun p => g p.1)) (hlen : ∀ p ∈ counts, 1 ≤ (g p.1).length) :
    (counts.map fun p => p.2 * (lenH counts p.1 : Int)).sum ≤ (counts.map fun p => p.2 * ((g p.1).length : Int)).sum := by
  rw [sum_int_cast counts hv.pos (lenH counts), sum_int_cast counts hv.pos (fun s => (g s).length)]
  exact_mod_cast optimal_nat counts hv g hpf hlen

/-- the same with prefix-freeness stated symbol-wise: no code word is a prefix of the code word of a different symbol -/
theorem optimal' (counts : List (Nat × Int)) (hv : Valid counts) (g : Nat → List Bool)
    (hpf : ∀ s ∈ counts.map Prod.fst, ∀ s' ∈ counts.map Prod.fst, s ≠ s' → ¬ g s <+: g s')
    (hlen : ∀ s ∈ counts.map Prod.fst, 1 ≤ (g s).length) :
    (counts.map fun p => p.2 * (lenH counts p.1 : Int)).sum ≤ (counts.map fun p => p.2 * ((g p.1).length : Int)).sum := by
  refine optimal counts hv g ?_ (fun p hp => hlen p.1 (List.mem_map_of_mem hp))
  unfold PrefixFree
  rw [List.pairwise_map]
  refine (List.Pairwise.and_mem.mp hv.keys_ne).imp ?_
  rintro a b ⟨ha, hb, hab⟩
  exact ⟨hpf _ (List.mem_map_of_mem ha) _ (List.mem_map_of_mem hb) hab,
    hpf _ (List.mem_map_of_mem hb) _ (List.mem_map_of_mem ha) (Ne.symm hab)⟩

/-! non-vacuity: the hypotheses are satisfiable, and what `createFrom` returns on tiny inputs -/

example : Valid [(1, 1), (2, 1), (3, 2)] := ⟨by decide, by decide⟩
example : (createFrom [(1, 1), (2, 1), (3, 2)]).encode = [(3, 1, 0), (2, 2, 2), (1, 2, 3)] := by decide
example : codeBits (createFrom [(1, 1), (2, 1), (3, 2)]).encode = [[false], [true, false], [true, true]] := by decide
example : (createFrom [(1, 5), (2, 1), (3, 1), (4, 2), (7, 3)]).encode
    = [(1, 1, 0), (7, 2, 2), (4, 3, 6), (3, 4, 14), (2, 4, 15)] := by decide
example : (createFrom [(9, 4)]).encode = [(9, 1, 0)] := by decide
example : lenH [(1, 1), (2, 1), (3, 2)] 3 = 1 ∧ lenH [(1, 1), (2, 1), (3, 2)] 1 = 2 ∧ lenH [(1, 1), (2, 1), (3, 2)] 5 = 0 := by
  decide
/-- a competing prefix code with at least one bit per symbol (the hypotheses of `optimal`) -/
example : let g : Nat → List Bool := fun s => if s = 3 then [false] else if s = 2 then [true, true] else [true, false, true]
    PrefixFree ([(1, (1 : Int)), (2, 1), (3, 2)].map fun p => g p.1) ∧ ∀ p ∈ [(1, (1 : Int)), (2, 1), (3, 2)], 1 ≤ (g p.1).length := by
  intro g; decide
/-- the trace of `buildTree` on that input: ties are broken towards the larger node -/
example : buildTree 3 [(-1, Node.leaf 1), (-1, Node.leaf 2), (-2, Node.leaf 3)] #[]
    = #[Node.leaf 2, Node.leaf 1, Node.fork 0 1, Node.leaf 3, Node.fork 2 3] := by decide

end FC.C06
