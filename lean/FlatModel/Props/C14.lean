import FlatModel.Proofs.Items
/-! C14: the `IntoOwned` laws of the read items (`into_owned`, `borrow_as`, `clone_onto`,
`reborrow`) and copying an item from one region into another. -/
namespace FC
open Region

namespace C14

/-! ### `ReadSlice` -/
section Slice
variable {R V I O : Type} [Region R V I] [IdxCont O I] [LawfulRegion R] [LawfulIdxCont O]

/-- **C14** `into_owned` of the item at a valid index is the value `index` returns -/
theorem intoOwned_eq_index (r : SliceRegion R O) (i : Nat × Nat) (hi : Inv r) (hv : Valid r i) :
    ∃ vs, (ReadSlice.backed r i.1 i.2 : ReadSlice R O V).intoOwned = some vs ∧ index r i = some vs := by
  obtain ⟨vs, hvs⟩ := LawfulRegion.valid_reads r i hi hv
  exact ⟨vs, by rw [ReadSlice.intoOwned, ReadSlice.iter_backed_eq_index r i hi.2.1 hv, hvs], hvs⟩

/-- … which is `same` as what was pushed: push, read the item at the returned index, `into_owned` -/
theorem push_intoOwned (r : SliceRegion R O) (v : List V) (hi : Inv r) (ha : Accepts r v) :
    ∃ r' i, push r v = some (r', i) ∧
      ∃ v', (ReadSlice.backed r' i.1 i.2 : ReadSlice R O V).intoOwned = some v' ∧
        same (R := SliceRegion R O) v' v := by
  obtain ⟨r', i, hp, v', hr, hs⟩ := LawfulRegion.push_ok r v hi ha
  obtain ⟨hi', hv'⟩ := LawfulRegion.push_inv r r' v i hi hp
  refine ⟨r', i, hp, v', ?_, hs⟩
  rw [ReadSlice.intoOwned, ReadSlice.iter_backed_eq_index r' i hi'.2.1 hv', hr]

omit [LawfulRegion R] [LawfulIdxCont O] in
/-- **C14** `borrow_as(&owned).into_owned() == owned` -/
theorem borrowAs_intoOwned (vs : List V) :
    (ReadSlice.borrowed vs : ReadSlice R O V).iter = some vs ∧
    (ReadSlice.borrowed vs : ReadSlice R O V).intoOwned = some vs := ⟨rfl, rfl⟩

omit [LawfulRegion R] [LawfulIdxCont O] in
/-- **C14** `borrow_as(&x.into_owned())` is indistinguishable from `x`: same iteration, length and
positional reads, whatever the representation of `x` -/
theorem borrowAs_roundtrip (x : ReadSlice R O V) (vs : List V) (h : x.intoOwned = some vs) :
    (ReadSlice.borrowed vs : ReadSlice R O V).iter = x.iter ∧
    (ReadSlice.borrowed vs : ReadSlice R O V).len = x.len ∧
    ∀ k, (ReadSlice.borrowed vs : ReadSlice R O V).get k = x.get k :=
  ⟨h.symm, (ReadSlice.len_of_iter x vs h).symm, fun k => (ReadSlice.get_of_iter x vs h k).symm⟩

omit [LawfulRegion R] [LawfulIdxCont O] in
/-- **C14** `clone_onto` makes the target equal to `into_owned`, whatever the target held
(shorter, equal, longer) -/
theorem cloneOnto_eq (x : ReadSlice R O V) (vs : List V) (h : x.iter = some vs) (t : List V) :
    x.cloneOnto t = some vs := by
  have hl := ReadSlice.len_of_iter x vs h
  simp only [ReadSlice.cloneOnto, h, hl]
  exact congrArg some (cloneOnto_list vs t)

/-- `clone_onto` for a well-formed item never panics and equals `into_owned` -/
theorem cloneOnto_eq_intoOwned (x : ReadSlice R O V) (hx : x.WF) (t : List V) :
    x.cloneOnto t = x.intoOwned := by
  obtain ⟨vs, hvs⟩ := ReadSlice.wf_iter x hx
  rw [cloneOnto_eq x vs hvs t, ReadSlice.intoOwned, hvs]

omit [LawfulRegion R] [LawfulIdxCont O] in
/-- **C14** `reborrow` is the identity -/
theorem reborrow_id (x : ReadSlice R O V) : x.reborrow = x := rfl

/-- **C14** copying between regions, `r₂.push(x.into_owned())`: the owned value of an item (either
representation) pushed into another region of the same type succeeds when `Accepts`; the new
region's item at the returned index is `same` as the source's value -/
theorem copy_between_regions (x : ReadSlice R O V) (vs : List V) (hx : x.intoOwned = some vs)
    (r₂ : SliceRegion R O) (hi : Inv r₂) (ha : Accepts r₂ vs) :
    ∃ r₂' j, x.intoOwned.bind (push r₂) = some (r₂', j) ∧ Inv r₂' ∧ Valid r₂' j ∧
      ∃ ws, index r₂' j = some ws ∧ (ReadSlice.backed r₂' j.1 j.2 : ReadSlice R O V).intoOwned = some ws ∧
        same (R := SliceRegion R O) ws vs := by
  obtain ⟨r', j, hp, ws, hr, hs⟩ := LawfulRegion.push_ok r₂ vs hi ha
  obtain ⟨hi', hv'⟩ := LawfulRegion.push_inv r₂ r' vs j hi hp
  refine ⟨r', j, by rw [hx]; exact hp, hi', hv', ws, hr, ?_, hs⟩
  rw [ReadSlice.intoOwned, ReadSlice.iter_backed_eq_index r' j hi'.2.1 hv', hr]

/-- source: the item at a valid index of a region `r₁` -/
theorem copy_between_regions_backed (r₁ r₂ : SliceRegion R O) (i : Nat × Nat) (h1 : Inv r₁) (hv : Valid r₁ i)
    (hi : Inv r₂) (ha : ∀ vs, index r₁ i = some vs → Accepts r₂ vs) :
    ∃ vs r₂' j, index r₁ i = some vs ∧
      (ReadSlice.backed r₁ i.1 i.2 : ReadSlice R O V).intoOwned.bind (push r₂) = some (r₂', j) ∧
      ∃ ws, index r₂' j = some ws ∧ same (R := SliceRegion R O) ws vs := by
  obtain ⟨vs, hio, hidx⟩ := intoOwned_eq_index r₁ i h1 hv
  obtain ⟨r₂', j, hp, _, _, ws, hr, _, hs⟩ :=
    copy_between_regions (ReadSlice.backed r₁ i.1 i.2) vs hio r₂ hi (ha vs hidx)
  exact ⟨vs, r₂', j, hidx, hp, ws, hr, hs⟩

omit [LawfulRegion R] [LawfulIdxCont O] in
/-- source: the same value held in borrowed form (`borrow_as`) — the same push, the same result -/
theorem copy_between_regions_borrowed (x : ReadSlice R O V) (vs : List V) (hx : x.intoOwned = some vs)
    (r₂ : SliceRegion R O) :
    (ReadSlice.borrowed vs : ReadSlice R O V).intoOwned.bind (push r₂) = x.intoOwned.bind (push r₂) := by
  rw [hx]; rfl

end Slice

/-! ### `ReadColumns` -/
section Columns
variable {R V I O : Type} [Region R V I] [LawfulRegion R] [IdxCont O Nat] [LawfulIdxCont O]

/-- **C14** `into_owned` of the row item at a valid index is the value `index` returns -/
theorem columns_intoOwned_eq_index (r : ColumnsRegion R I O) (k : Nat) (hi : Inv r) (hv : Valid r k) :
    ∃ ix vs, index r.indices k = some ix ∧
      (ReadColumns.backed r.cols ix : ReadColumns R I V).intoOwned = some vs ∧ index r k = some vs := by
  obtain ⟨hin, hcols, hrows⟩ := hi
  obtain ⟨ix, hix⟩ := LawfulRegion.valid_reads r.indices k hin hv
  obtain ⟨vs, hvs⟩ := readRow_some_of_valid r.cols ix hcols (hrows k ix hv hix)
  exact ⟨ix, vs, hix, hvs, by rw [columns_index_def, hix]; exact hvs⟩

/-- … which is `same` as what was pushed -/
theorem columns_push_intoOwned (r : ColumnsRegion R I O) (row : List V) (hi : Inv r) (ha : Accepts r row) :
    ∃ r' k ix, push r row = some (r', k) ∧ index r'.indices k = some ix ∧
      ∃ v', (ReadColumns.backed r'.cols ix : ReadColumns R I V).intoOwned = some v' ∧
        same (R := ColumnsRegion R I O) v' row := by
  obtain ⟨r', k, hp, v', hr, hs⟩ := LawfulRegion.push_ok r row hi ha
  obtain ⟨hi', hv'⟩ := LawfulRegion.push_inv r r' row k hi hp
  obtain ⟨ix, vs, h1, h2, h3⟩ := columns_intoOwned_eq_index r' k hi' hv'
  rw [hr] at h3
  cases h3
  exact ⟨r', k, ix, hp, h1, v', h2, hs⟩

omit [LawfulRegion R] in
theorem columns_borrowAs_intoOwned (vs : List V) :
    (ReadColumns.borrowed vs : ReadColumns R I V).iter = some vs ∧
    (ReadColumns.borrowed vs : ReadColumns R I V).intoOwned = some vs := ⟨rfl, rfl⟩

omit [LawfulRegion R] in
theorem columns_borrowAs_roundtrip (x : ReadColumns R I V) (vs : List V) (h : x.intoOwned = some vs) :
    (ReadColumns.borrowed vs : ReadColumns R I V).iter = x.iter ∧
    (ReadColumns.borrowed vs : ReadColumns R I V).len = x.len ∧
    ∀ k, (ReadColumns.borrowed vs : ReadColumns R I V).get k = x.get k :=
  ⟨h.symm, (ReadColumns.len_of_iter x vs h).symm, fun k => (ReadColumns.get_of_iter x vs h k).symm⟩

omit [LawfulRegion R] in
/-- **C14** `clone_onto` for rows -/
theorem columns_cloneOnto_eq (x : ReadColumns R I V) (vs : List V) (h : x.iter = some vs) (t : List V) :
    x.cloneOnto t = some vs := by
  have hl := ReadColumns.len_of_iter x vs h
  simp only [ReadColumns.cloneOnto, h, hl]
  exact congrArg some (cloneOnto_list vs t)

theorem columns_cloneOnto_eq_intoOwned (x : ReadColumns R I V) (hx : x.WF) (t : List V) :
    x.cloneOnto t = x.intoOwned := by
  obtain ⟨vs, hvs⟩ := ReadColumns.wf_iter x hx
  rw [columns_cloneOnto_eq x vs hvs t, ReadColumns.intoOwned, hvs]

omit [Region R V I] [LawfulRegion R] in
theorem columns_reborrow_id (x : ReadColumns R I V) : x.reborrow = x := rfl

/-- **C14** copying a row (either representation) into another columns region -/
theorem columns_copy_between_regions (x : ReadColumns R I V) (vs : List V) (hx : x.intoOwned = some vs)
    (r₂ : ColumnsRegion R I O) (hi : Inv r₂) (ha : Accepts r₂ vs) :
    ∃ r₂' k, x.intoOwned.bind (push r₂) = some (r₂', k) ∧ Inv r₂' ∧ Valid r₂' k ∧
      ∃ ws ix, index r₂' k = some ws ∧ index r₂'.indices k = some ix ∧
        (ReadColumns.backed r₂'.cols ix : ReadColumns R I V).intoOwned = some ws ∧
        same (R := ColumnsRegion R I O) ws vs := by
  obtain ⟨r', k, hp, ws, hr, hs⟩ := LawfulRegion.push_ok r₂ vs hi ha
  obtain ⟨hi', hv'⟩ := LawfulRegion.push_inv r₂ r' vs k hi hp
  obtain ⟨ix, ws', h1, h2, h3⟩ := columns_intoOwned_eq_index r' k hi' hv'
  rw [hr] at h3
  cases h3
  exact ⟨r', k, by rw [hx]; exact hp, hi', hv', ws, ix, hr, h1, h2, hs⟩

theorem columns_copy_between_regions_backed (r₁ r₂ : ColumnsRegion R I O) (k : Nat) (h1 : Inv r₁)
    (hv : Valid r₁ k) (hi : Inv r₂) (ha : ∀ vs, index r₁ k = some vs → Accepts r₂ vs) :
    ∃ ix vs r₂' j, index r₁.indices k = some ix ∧ index r₁ k = some vs ∧
      (ReadColumns.backed r₁.cols ix : ReadColumns R I V).intoOwned.bind (push r₂) = some (r₂', j) ∧
      ∃ ws, index r₂' j = some ws ∧ same (R := ColumnsRegion R I O) ws vs := by
  obtain ⟨ix, vs, hix, hio, hidx⟩ := columns_intoOwned_eq_index r₁ k h1 hv
  obtain ⟨r₂', j, hp, _, _, ws, _, hr, _, _, hs⟩ :=
    columns_copy_between_regions (ReadColumns.backed r₁.cols ix) vs hio r₂ hi (ha vs hidx)
  exact ⟨ix, vs, r₂', j, hix, hidx, hp, ws, hr, hs⟩

omit [LawfulRegion R] [LawfulIdxCont O] in
theorem columns_copy_between_regions_borrowed (x : ReadColumns R I V) (vs : List V) (hx : x.intoOwned = some vs)
    (r₂ : ColumnsRegion R I O) :
    (ReadColumns.borrowed vs : ReadColumns R I V).intoOwned.bind (push r₂) = x.intoOwned.bind (push r₂) := by
  rw [hx]; rfl

end Columns

/-! ### the hypotheses are satisfiable; the three target shapes of `clone_onto` -/

open ItemsEx

example : Inv twoItems ∧ Valid twoItems (0, 2) ∧ Inv dst ∧ Accepts dst [10, 20] ∧
    (ReadSlice.backed twoItems 0 2 : ReadSlice _ _ Nat).intoOwned = some [10, 20] ∧
    (push dst [10, 20]).map (·.2) = some (1, 3) ∧
    ((push dst [10, 20]).bind fun p => index p.1 p.2) = some [10, 20] :=
  ⟨twoItems_inv, twoItems_valid₁, dst_inv, dst_accepts, rfl, rfl, rfl⟩

example : (ReadSlice.backed twoItems 0 2 : ReadSlice _ _ Nat).cloneOnto [1] = some [10, 20] ∧
    (ReadSlice.backed twoItems 0 2 : ReadSlice _ _ Nat).cloneOnto [1, 2] = some [10, 20] ∧
    (ReadSlice.backed twoItems 0 2 : ReadSlice _ _ Nat).cloneOnto [1, 2, 3, 4] = some [10, 20] ∧
    (ReadSlice.borrowed [10, 20] : ReadSlice (MirrorRegion Nat) (VecIdx Nat 8) Nat).cloneOnto [] = some [10, 20] :=
  ⟨rfl, rfl, rfl, rfl⟩

end C14
end FC
