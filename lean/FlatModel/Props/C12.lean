import FlatModel.Props.C11
import FlatModel.Proofs.Ops
/-! C12 for columns regions, and across `merge_regions`. -/
namespace FC
open Region

theorem listRel_length {α : Type} (s : α → α → Prop) : ∀ (a b : List α), listRel s a b → a.length = b.length
  | [], [], _ => rfl
  | [], _ :: _, h => by simp [listRel] at h
  | _ :: _, [], h => by simp [listRel] at h
  | _ :: as, _ :: bs, h => by
    simp only [listRel] at h
    simp [listRel_length s as bs h.2]

namespace C12
section
variable {R V I O : Type} [Region R V I] [IdxCont O Nat] [LawfulRegion R] [LawfulIdxCont O]

/-- rows pushed since creation / clear / merge -/
def rows (r : ColumnsRegion R I O) : Nat := count r.indices

/-- **C12 (columns)**: the k-th row pushed since creation or clear gets index k -/
theorem columns_kth (r r' : ColumnsRegion R I O) (row : List V) (k : Nat) (hi : Inv r)
    (hp : push r row = some (r', k)) : k = rows r ∧ rows r' = rows r + 1 := by
  obtain ⟨is, _, h2⟩ := columns_push_some r r' row k hp
  exact kth r.indices r'.indices is k hi.1 h2

/-- **C12 (columns)**: the row read at the returned index has exactly the pushed row's length and
cells, however many columns earlier or later rows created; empty rows are rows too -/
theorem columns_row_exact (r : ColumnsRegion R I O) (row : List V) (hi : Inv r) (ha : Accepts r row) :
    ∃ r' k, push r row = some (r', k) ∧ ∃ row', index r' k = some row' ∧ row'.length = row.length ∧
      listRel (same (R := R)) row' row := by
  obtain ⟨r', k, hp, row', hx, hs⟩ := LawfulRegion.push_ok r row hi ha
  exact ⟨r', k, hp, row', hx, listRel_length _ _ _ hs, hs⟩

omit [LawfulRegion R] in
theorem rows_default : rows (Region.default : ColumnsRegion R I O) = 0 := count_default
omit [LawfulRegion R] in
theorem rows_clear (r : ColumnsRegion R I O) : rows (clear r) = 0 := count_clear r.indices
end

section
variable {R V O : Type} [Region R V (Nat × Nat)] [DenseRegion R] [IdxCont O Nat] [RegionAux R] [IdxAux O]
  [LawfulIdxCont O]
/-- a region made by `merge_regions` starts counting at 0, whatever it was merged from -/
theorem count_merge (rs : List (ConsecPairs R O)) : count (RegionAux.mergeRegions rs) = 0 := by
  simp [count, RegionAux.mergeRegions, LawfulIdxCont.iter_push _ _ (LawfulIdxCont.inv_default (C := O)),
    LawfulIdxCont.iter_default]
end
end C12
end FC
