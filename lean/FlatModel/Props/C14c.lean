import FlatModel.Model.ItemOps
import FlatModel.Props.C14b
import FlatModel.Props.C15b
/-! C14, part 3: the bridge between the two ways the model driver can answer `item … owned`,
`item … cloneonto <target>` and `cmp …`.

The driver (Driver/Banks.lean, `Extra.withItems`, `Extra.withItemCmp`) answers through `ItemOps` — the read
item the region type issues and the `IntoOwned` impl of that item type, nested as the Rust impls nest and
built from the definitions of Model/Items2.lean (`OptionItem.cloneOnto`, `ResultItem.cloneOnto`,
`TupleItem.cloneOnto`, `SliceItem.cloneOnto`, `Wrapped.cloneOnto`, `Huff.Container.item?`, …). Before, it
answered with `Region.index`. `LawfulItemOps` is the law that makes both coincide, one instance per
`ItemOps` instance (instance resolution finds it for every catalogued composition,
Generated/CoveredItems.lean); `cloneOntoAt_eq_index` / `intoOwnedAt_eq_index` are the bridge: at a valid index
of a consistent region, for either representation (region-backed, borrowed from the owned value) and any
target, the item model's answer is `index r i`. Core tactics only. -/
namespace FC
open Region

/-! ### the law -/

/-- the `IntoOwned` laws of the item a region type issues, tied to `Region::index` -/
class LawfulItemOps (R : Type) {V I : outParam Type} [Region R V I] {X : outParam Type} [ItemOps R X] : Prop where
  /-- at a valid index of a consistent region the item exists (nothing panics) and its owned value is what
  `index` returns -/
  item_index : ∀ (r : R) (i : I), Inv r → Valid r i →
      (ItemOps.item? r i).map (ItemOps.intoOwned (R := R)) = index r i
  /-- `clone_onto` leaves `into_owned` in the target, whatever it held -/
  cloneOnto_eq : ∀ (x : X) (t : V), ItemOps.cloneOnto (R := R) x t = ItemOps.intoOwned (R := R) x
  /-- `borrow_as(&owned).into_owned() == owned` -/
  intoOwned_borrowAs : ∀ v : V, ItemOps.intoOwned (R := R) (ItemOps.borrowAs (R := R) v) = v

/-- Rust's bound `R: Region<ReadItem<'a> = &'a [u8]>` on `StringRegion<R>`: the inner item is a byte slice
with the base `IntoOwned` impl -/
class BytesItem (R : Type) {I : outParam Type} [Region R (List UInt8) I] [ItemOps R (List UInt8)] : Prop where
  intoOwned_id : ∀ x : List UInt8, ItemOps.intoOwned (R := R) x = x

namespace C14
section Bridge
variable {R V I X : Type} [Region R V I] [ItemOps R X] [LawfulItemOps R]

/-- the item the harness operates on — region-backed, or `borrow_as(&index(i).into_owned())` — exists and
has the owned value `index r i` -/
theorem read_intoOwned (r : R) (i : I) (b : Bool) (hi : Inv r) (hv : Valid r i) :
    (ItemOps.read r i b).map (ItemOps.intoOwned (R := R)) = index r i := by
  have h := LawfulItemOps.item_index r i hi hv
  unfold ItemOps.read
  cases hx : ItemOps.item? r i with
  | none => rw [hx] at h; exact h
  | some x =>
    rw [hx] at h
    cases b with
    | false => exact h
    | true =>
      simp only [if_true, Option.map_some] at h ⊢
      rw [LawfulItemOps.intoOwned_borrowAs]
      exact h

/-- **C14, bridge** `item … owned` through the item model = what the driver answered before (`index r i`) -/
theorem intoOwnedAt_eq_index (r : R) (i : I) (b : Bool) (hi : Inv r) (hv : Valid r i) :
    ItemOps.intoOwnedAt r i b = index r i := read_intoOwned r i b hi hv

/-- **C14, bridge** `item … cloneonto t` through the item model = what the driver answered before
(`index r i`), for every target `t` and both representations -/
theorem cloneOntoAt_eq_index (r : R) (i : I) (b : Bool) (t : V) (hi : Inv r) (hv : Valid r i) :
    ItemOps.cloneOntoAt r i b t = index r i := by
  rw [← read_intoOwned r i b hi hv]
  unfold ItemOps.cloneOntoAt
  cases ItemOps.read r i b with
  | none => rfl
  | some x => simp only [Option.map_some, LawfulItemOps.cloneOnto_eq]

/-- … so `clone_onto` and `into_owned` agree, and neither depends on the representation or the target -/
theorem cloneOntoAt_indep (r : R) (i : I) (b b' : Bool) (t t' : V) (hi : Inv r) (hv : Valid r i) :
    ItemOps.cloneOntoAt r i b t = ItemOps.cloneOntoAt r i b' t' ∧
    ItemOps.cloneOntoAt r i b t = ItemOps.intoOwnedAt r i b' := by
  rw [cloneOntoAt_eq_index r i b t hi hv, cloneOntoAt_eq_index r i b' t' hi hv, intoOwnedAt_eq_index r i b' hi hv]
  exact ⟨rfl, rfl⟩

/-- nothing panics: the new driver answers with a value wherever the old one did -/
theorem cloneOntoAt_isSome [LawfulRegion R] (r : R) (i : I) (b : Bool) (t : V) (hi : Inv r) (hv : Valid r i) :
    (ItemOps.cloneOntoAt r i b t).isSome := by
  obtain ⟨u, hu⟩ := LawfulRegion.valid_reads r i hi hv
  rw [cloneOntoAt_eq_index r i b t hi hv, hu]
  rfl

end Bridge
end C14

/-! ### instances, mirroring the `ItemOps` instances -/

theorem map_baseIntoOwned {T : Type} (o : Option T) : o.map BaseItem.intoOwned = o := by
  cases o <;> rfl

instance lawfulItems_mirror (T : Type) : LawfulItemOps (MirrorRegion T) where
  item_index r i _ _ := map_baseIntoOwned (index r i)
  cloneOnto_eq _ _ := rfl
  intoOwned_borrowAs _ := rfl

instance lawfulItems_owned (T : Type) : LawfulItemOps (OwnedRegion T) where
  item_index r i _ _ := map_baseIntoOwned (index r i)
  cloneOnto_eq _ _ := rfl
  intoOwned_borrowAs _ := rfl

instance lawfulItems_vec (T : Type) : LawfulItemOps (VecRegion T) where
  item_index r i _ _ := map_baseIntoOwned (index r i)
  cloneOnto_eq _ _ := rfl
  intoOwned_borrowAs _ := rfl

instance lawfulItems_codec : LawfulItemOps Codec.Region where
  item_index r i _ _ := map_baseIntoOwned (index r i)
  cloneOnto_eq _ _ := rfl
  intoOwned_borrowAs _ := rfl

instance lawfulItems_tupleNil : LawfulItemOps TupleNil where
  item_index r i _ _ := map_baseIntoOwned (index r i)
  cloneOnto_eq _ _ := rfl
  intoOwned_borrowAs _ := rfl

instance : BytesItem (OwnedRegion UInt8) := ⟨fun _ => rfl⟩
instance : BytesItem Codec.Region := ⟨fun _ => rfl⟩
instance {R I : Type} [Region R (List UInt8) I] [HasEqv (List UInt8)] [ItemOps R (List UInt8)] [BytesItem R] :
    BytesItem (CollapseSequence R I) := ⟨fun x => BytesItem.intoOwned_id (R := R) x⟩
instance {R O : Type} [Region R (List UInt8) (Nat × Nat)] [DenseRegion R] [IdxCont O Nat] [ItemOps R (List UInt8)]
    [BytesItem R] : BytesItem (ConsecPairs R O) := ⟨fun x => BytesItem.intoOwned_id (R := R) x⟩

/-- `StringRegion<R>`: the `&str` has the bytes of the inner `&[u8]` item -/
instance lawfulItems_string {R I : Type} [Region R (List UInt8) I] [ItemOps R (List UInt8)] [LawfulItemOps R] [BytesItem R] :
    LawfulItemOps (StringRegion R) where
  item_index r i hi hv := by
    have h := LawfulItemOps.item_index r.inner i hi hv
    show (ItemOps.item? r.inner i).map BaseItem.intoOwned = index r.inner i
    rw [← h, map_baseIntoOwned]
    cases ItemOps.item? r.inner i with
    | none => rfl
    | some x => simp only [Option.map_some, BytesItem.intoOwned_id]
  cloneOnto_eq _ _ := rfl
  intoOwned_borrowAs _ := rfl

/-- `OptionRegion<R>` — by `C14.option_cloneOnto_eq`, `C14.option_borrow_roundtrip` -/
instance lawfulItems_option {R V I X : Type} [Region R V I] [ItemOps R X] [LawfulItemOps R] : LawfulItemOps (OptionRegion R) where
  item_index r i hi hv := by
    cases i with
    | none => rfl
    | some j =>
      have h := LawfulItemOps.item_index r.inner j hi hv
      show ((ItemOps.item? r.inner j).map some).map (OptionItem.intoOwned (ItemOps.intoOwned (R := R))) =
        (index r.inner j).map some
      rw [← h]
      cases ItemOps.item? r.inner j <;> rfl
  cloneOnto_eq := C14.option_cloneOnto_eq _ _ (LawfulItemOps.cloneOnto_eq (R := R))
  intoOwned_borrowAs := C14.option_borrow_roundtrip _ _ (LawfulItemOps.intoOwned_borrowAs (R := R))

/-- `ResultRegion<T, E>` — by `C14.result_cloneOnto_eq`, `C14.result_borrow_roundtrip` -/
instance lawfulItems_result {T VT IT XT E VE IE XE : Type} [Region T VT IT] [Region E VE IE] [ItemOps T XT] [ItemOps E XE]
    [LawfulItemOps T] [LawfulItemOps E] : LawfulItemOps (ResultRegion T E) where
  item_index r i hi hv := by
    cases i with
    | ok j =>
      have h := LawfulItemOps.item_index r.oks j hi.1 hv
      show ((ItemOps.item? r.oks j).map Except.ok).map
          (ResultItem.intoOwned (ItemOps.intoOwned (R := T)) (ItemOps.intoOwned (R := E))) =
        (index r.oks j).map Except.ok
      rw [← h]
      cases ItemOps.item? r.oks j <;> rfl
    | error j =>
      have h := LawfulItemOps.item_index r.errs j hi.2 hv
      show ((ItemOps.item? r.errs j).map Except.error).map
          (ResultItem.intoOwned (ItemOps.intoOwned (R := T)) (ItemOps.intoOwned (R := E))) =
        (index r.errs j).map Except.error
      rw [← h]
      cases ItemOps.item? r.errs j <;> rfl
  cloneOnto_eq := C14.result_cloneOnto_eq _ _ _ _ (LawfulItemOps.cloneOnto_eq (R := T))
    (LawfulItemOps.cloneOnto_eq (R := E))
  intoOwned_borrowAs := C14.result_borrow_roundtrip _ _ _ _ (LawfulItemOps.intoOwned_borrowAs (R := T))
    (LawfulItemOps.intoOwned_borrowAs (R := E))

/-- tuple regions — by `C14.tuple_cloneOnto_eq`, `C14.tuple_borrow_roundtrip` -/
instance lawfulItems_tupleCons {A VA IA XA B VB IB XB : Type} [Region A VA IA] [Region B VB IB] [ItemOps A XA] [ItemOps B XB]
    [LawfulItemOps A] [LawfulItemOps B] : LawfulItemOps (TupleCons A B) where
  item_index r i hi hv := by
    have h1 := LawfulItemOps.item_index r.head i.1 hi.1 hv.1
    have h2 := LawfulItemOps.item_index r.tail i.2 hi.2 hv.2
    show (match ItemOps.item? r.head i.1, ItemOps.item? r.tail i.2 with
        | some x, some y => some (x, y)
        | _, _ => none).map (TupleItem.intoOwned (ItemOps.intoOwned (R := A)) (ItemOps.intoOwned (R := B))) =
      (match index r.head i.1, index r.tail i.2 with
        | some x, some y => some (x, y)
        | _, _ => none)
    rw [← h1, ← h2]
    cases ItemOps.item? r.head i.1 <;> cases ItemOps.item? r.tail i.2 <;> rfl
  cloneOnto_eq := C14.tuple_cloneOnto_eq _ _ _ _ (LawfulItemOps.cloneOnto_eq (R := A))
    (LawfulItemOps.cloneOnto_eq (R := B))
  intoOwned_borrowAs := C14.tuple_borrow_roundtrip _ _ _ _ (LawfulItemOps.intoOwned_borrowAs (R := A))
    (LawfulItemOps.intoOwned_borrowAs (R := B))

/-! #### slices and rows -/

/-- mapping over the results of a sequence of possibly-panicking reads -/
theorem mapM_map_congr {α β γ : Type} (f : α → Option β) (g : β → γ) (f' : α → Option γ) (l : List α)
    (h : ∀ a ∈ l, (f a).map g = f' a) : (l.mapM f).map (List.map g) = l.mapM f' := by
  induction l with
  | nil => rfl
  | cons a l ih =>
    have ha := h a (List.mem_cons_self ..)
    have ih' := ih (fun b hb => h b (List.mem_cons_of_mem _ hb))
    rw [List.mapM_cons, List.mapM_cons, ← ha, ← ih']
    cases f a with
    | none => rfl
    | some b => cases l.mapM f <;> rfl

/-- `SliceRegion<R, O>` — by `C14.slice_cloneOnto_eq`, `C14.slice_borrow_roundtrip`; the item's elements are
the stored elements (`ReadSlice.iter_backed_eq_index`) -/
instance lawfulItems_slice {R V I X O : Type} [Region R V I] [ItemOps R X] [IdxCont O I] [LawfulItemOps R] [LawfulIdxCont O] :
    LawfulItemOps (SliceRegion R O) where
  item_index r i hi hv := by
    obtain ⟨hin, hc, hval⟩ := hi
    rw [← ReadSlice.iter_backed_eq_index r i hc hv]
    show (SliceRegion.items? r i).map (List.map (ItemOps.intoOwned (R := R))) = _
    apply mapM_map_congr
    intro k _
    rw [LawfulIdxCont.index_eq _ _ hc]
    cases hj : (IdxCont.iter r.slices)[i.1 + k]? with
    | none => rfl
    | some j => exact LawfulItemOps.item_index r.inner j hin (hval j (List.mem_of_getElem? hj))
  cloneOnto_eq := C14.slice_cloneOnto_eq _ _ (LawfulItemOps.cloneOnto_eq (R := R))
  intoOwned_borrowAs := C14.slice_borrow_roundtrip _ _ (LawfulItemOps.intoOwned_borrowAs (R := R))

theorem itemRow_map {R V I X : Type} [Region R V I] [ItemOps R X] [LawfulItemOps R] (cs : List R) (is : List I)
    (hi : ∀ c ∈ cs, Inv c) (h : RowValid cs is) :
    (itemRow cs is).map (List.map (ItemOps.intoOwned (R := R))) = readRow cs is := by
  induction is generalizing cs with
  | nil => cases cs <;> rfl
  | cons i is ih =>
    cases cs with
    | nil => exact absurd h (by simp [RowValid])
    | cons c cs =>
      obtain ⟨h1, h2⟩ := h
      have hc := LawfulItemOps.item_index c i (hi c (by simp)) h1
      have hr := ih cs (fun x hx => hi x (by simp [hx])) h2
      simp only [itemRow, readRow]
      rw [← hc, ← hr]
      cases ItemOps.item? c i <;> cases itemRow cs is <;> rfl

/-- `ColumnsRegion<R, O>` — the same `IntoOwned` code as slices -/
instance lawfulItems_columns {R V I X O : Type} [Region R V I] [ItemOps R X] [IdxCont O Nat] [LawfulItemOps R] :
    LawfulItemOps (ColumnsRegion R I O) where
  item_index r k hi hv := by
    obtain ⟨_, hcols, hrow⟩ := hi
    show (match index r.indices k with
        | none => none
        | some is => itemRow r.cols is).map (List.map (ItemOps.intoOwned (R := R))) =
      (match index r.indices k with
        | none => none
        | some is => readRow r.cols is)
    cases his : index r.indices k with
    | none => rfl
    | some is => exact itemRow_map r.cols is hcols (hrow k is hv his)
  cloneOnto_eq := C14.slice_cloneOnto_eq _ _ (LawfulItemOps.cloneOnto_eq (R := R))
  intoOwned_borrowAs := C14.slice_borrow_roundtrip _ _ (LawfulItemOps.intoOwned_borrowAs (R := R))

/-! #### forwarding wrappers -/

instance lawfulItems_collapse {R V I X : Type} [Region R V I] [HasEqv V] [ItemOps R X] [LawfulItemOps R] :
    LawfulItemOps (CollapseSequence R I) where
  item_index r i hi hv := LawfulItemOps.item_index r.inner i hi.1 hv
  cloneOnto_eq := LawfulItemOps.cloneOnto_eq (R := R)
  intoOwned_borrowAs := LawfulItemOps.intoOwned_borrowAs (R := R)

instance lawfulItems_consec {R V X O : Type} [Region R V (Nat × Nat)] [DenseRegion R] [IdxCont O Nat] [ItemOps R X]
    [LawfulItemOps R] : LawfulItemOps (ConsecPairs R O) where
  item_index r k hi _ := by
    obtain ⟨hin, _, _, _, hval⟩ := hi
    show (match (IdxCont.iter r.indices)[k]?, (IdxCont.iter r.indices)[k+1]? with
        | some a, some b => ItemOps.item? r.inner (a, b)
        | _, _ => none).map (ItemOps.intoOwned (R := R)) =
      (match (IdxCont.iter r.indices)[k]?, (IdxCont.iter r.indices)[k+1]? with
        | some a, some b => index r.inner (a, b)
        | _, _ => none)
    cases ha : (IdxCont.iter r.indices)[k]? with
    | none => rfl
    | some a =>
      cases hb : (IdxCont.iter r.indices)[k+1]? with
      | none => rfl
      | some b => exact LawfulItemOps.item_index r.inner (a, b) hin (hval k a b ha hb)
  cloneOnto_eq := LawfulItemOps.cloneOnto_eq (R := R)
  intoOwned_borrowAs := LawfulItemOps.intoOwned_borrowAs (R := R)

instance lawfulItems_flatStack {R V I X S : Type} [Region R V I] [IdxCont S I] [ItemOps R X] [LawfulItemOps R] [LawfulIdxCont S] :
    LawfulItemOps (FlatStack R S) where
  item_index fs k hi _ := by
    obtain ⟨hin, hc, hval⟩ := hi
    show (match IdxCont.index fs.indices k with
        | none => none
        | some i => ItemOps.item? fs.region i).map (ItemOps.intoOwned (R := R)) =
      (match IdxCont.index fs.indices k with
        | none => none
        | some i => index fs.region i)
    rw [LawfulIdxCont.index_eq _ _ hc]
    cases hj : (IdxCont.iter fs.indices)[k]? with
    | none => rfl
    | some j => exact LawfulItemOps.item_index fs.region j hin (hval j (List.mem_of_getElem? hj))
  cloneOnto_eq := LawfulItemOps.cloneOnto_eq (R := R)
  intoOwned_borrowAs := LawfulItemOps.intoOwned_borrowAs (R := R)

/-! #### Huffman containers -/

namespace WrappedOK

theorem some_intoOwned (a : WrappedOK) : some a.intoOwned = a.1.decode := by
  rw [intoOwned, Option.some_get, Wrapped.intoOwned_eq_decode]

theorem some_cloneOnto (a : WrappedOK) (t : List Nat) : some (a.cloneOnto t) = a.1.decode := by
  rw [cloneOnto, Option.some_get, Wrapped.cloneOnto_eq_decode]

/-- the operations of `ItemOps` are the partial ones of Model/Items2, which succeed -/
theorem ops_eq' (a : WrappedOK) (t : List Nat) :
    a.1.intoOwned = some a.intoOwned ∧ a.1.cloneOnto t = some (a.cloneOnto t) :=
  ⟨(Option.some_get _).symm, (Option.some_get _).symm⟩

theorem ofWrapped?_of_decode (w : Wrapped) (xs : List Nat) (h : w.decode = some xs) :
    ∃ a : WrappedOK, ofWrapped? w = some a ∧ a.1 = w ∧ a.intoOwned = xs := by
  have hs : w.decode.isSome := by rw [h]; rfl
  refine ⟨⟨w, hs⟩, by simp only [ofWrapped?, hs, dite_true], rfl, ?_⟩
  exact Option.some.inj ((some_intoOwned (⟨w, hs⟩ : WrappedOK)).trans h)

end WrappedOK

/-- `HuffmanContainer<B>` — by `C14.item_decode_eq_index`, `C14.wrapped_cloneOnto_eq_intoOwned`,
`C14.wrapped_borrow_roundtrip` -/
instance lawfulItems_huffman : LawfulItemOps Huff.Container where
  item_index h i hi hv := by
    obtain ⟨h1, h2⟩ := C14.item_decode_eq_index h i hv
    obtain ⟨xs, hxs⟩ := LawfulRegion.valid_reads h i hi hv
    obtain ⟨a, ha, _, hao⟩ := WrappedOK.ofWrapped?_of_decode (h.item i) xs (h2.trans hxs)
    show ((h.item? i).bind WrappedOK.ofWrapped?).map WrappedOK.intoOwned = index h i
    rw [h1, Option.bind_some, ha, Option.map_some, hao, hxs]
  cloneOnto_eq a t := by
    apply Option.some.inj
    show some (WrappedOK.cloneOnto a t) = some (WrappedOK.intoOwned a)
    rw [WrappedOK.some_cloneOnto, WrappedOK.some_intoOwned]
  intoOwned_borrowAs v := by
    apply Option.some.inj
    show some (WrappedOK.intoOwned (WrappedOK.borrowAs v)) = some v
    rw [WrappedOK.some_intoOwned]
    rfl

instance lawfulItems_huffU8 : LawfulItemOps HuffU8 where
  item_index h i hi hv := by
    have := LawfulItemOps.item_index h.c i hi hv
    show (ItemOps.item? h.c i).map (fun a => (WrappedOK.intoOwned a).map UInt8.ofNat) =
      (index h.c i).map fun xs => xs.map UInt8.ofNat
    rw [← this, Option.map_map]
    rfl
  cloneOnto_eq a t := by
    show (WrappedOK.cloneOnto a (t.map UInt8.toNat)).map UInt8.ofNat = (WrappedOK.intoOwned a).map UInt8.ofNat
    rw [show WrappedOK.cloneOnto a (t.map UInt8.toNat) = WrappedOK.intoOwned a from
      LawfulItemOps.cloneOnto_eq (R := Huff.Container) a _]
  intoOwned_borrowAs v := by
    show (WrappedOK.intoOwned (WrappedOK.borrowAs (v.map UInt8.toNat))).map UInt8.ofNat = v
    rw [show WrappedOK.intoOwned (WrappedOK.borrowAs (v.map UInt8.toNat)) = v.map UInt8.toNat from
      LawfulItemOps.intoOwned_borrowAs (R := Huff.Container) _, map_ofNat_toNat]

theorem map_base_borrowAs {T : Type} (l : List T) : l.map BaseItem.borrowAs = l := by
  induction l with
  | nil => rfl
  | cons a l ih => simp only [List.map_cons, ih, BaseItem.borrowAs]

namespace C14

/-! ### the slice path of the driver: the new answers are the old `ReadSlice.cloneOnto` / `ReadColumns.cloneOnto`

For element regions whose items are their owned values (`item? = index`, base `IntoOwned`) the item model's
answer is literally what `ReadSlice.cloneOnto` (Model/Items.lean, the former driver path) computes — in every
state, with the same panics. (`C14.readSlice_cloneOnto_is_slice`.) -/
section SliceAgree
variable {R V I O : Type} [Region R V I] [IdxCont O I] [ItemOps R V]

theorem slice_items?_eq_iter (hitem : ∀ (r : R) (i : I), ItemOps.item? r i = index r i)
    (r : SliceRegion R O) (i : Nat × Nat) :
    ItemOps.item? r i = (ReadSlice.backed r i.1 i.2 : ReadSlice R O V).iter := by
  show SliceRegion.items? r i = _
  simp only [SliceRegion.items?, ReadSlice.iter, hitem]

/-- region-backed item -/
theorem slice_cloneOntoAt_backed (hitem : ∀ (r : R) (i : I), ItemOps.item? r i = index r i)
    (hio : ∀ x : V, ItemOps.intoOwned (R := R) x = x) (hco : ∀ x t : V, ItemOps.cloneOnto (R := R) x t = x)
    (r : SliceRegion R O) (i : Nat × Nat) (t : List V) :
    ItemOps.cloneOntoAt r i false t = (ReadSlice.backed r i.1 i.2 : ReadSlice R O V).cloneOnto t := by
  have hio' : ItemOps.intoOwned (R := R) = BaseItem.intoOwned := funext hio
  have hco' : ItemOps.cloneOnto (R := R) = BaseItem.cloneOnto := funext fun x => funext fun t => hco x t
  unfold ItemOps.cloneOntoAt ItemOps.read
  rw [slice_items?_eq_iter hitem]
  cases hx : (ReadSlice.backed r i.1 i.2 : ReadSlice R O V).iter with
  | none => simp only [ReadSlice.cloneOnto, hx, Option.map_none]
  | some items =>
    rw [readSlice_cloneOnto_is_slice _ items hx t]
    show some (SliceItem.cloneOnto (ItemOps.intoOwned (R := R)) (ItemOps.cloneOnto (R := R)) items t) = _
    rw [hio', hco']

/-- borrowed item: `borrow_as(&item.into_owned())` -/
theorem slice_cloneOntoAt_borrowed (hitem : ∀ (r : R) (i : I), ItemOps.item? r i = index r i)
    (hio : ∀ x : V, ItemOps.intoOwned (R := R) x = x) (hco : ∀ x t : V, ItemOps.cloneOnto (R := R) x t = x)
    (hba : ∀ v : V, ItemOps.borrowAs (R := R) v = v)
    (r : SliceRegion R O) (i : Nat × Nat) (t : List V) :
    ItemOps.cloneOntoAt r i true t =
      ((ReadSlice.backed r i.1 i.2 : ReadSlice R O V).intoOwned).bind fun vs =>
        (ReadSlice.borrowed vs : ReadSlice R O V).cloneOnto t := by
  have hio' : ItemOps.intoOwned (R := R) = BaseItem.intoOwned := funext hio
  have hco' : ItemOps.cloneOnto (R := R) = BaseItem.cloneOnto := funext fun x => funext fun t => hco x t
  have hba' : ItemOps.borrowAs (R := R) = BaseItem.borrowAs := funext hba
  unfold ItemOps.cloneOntoAt ItemOps.read
  rw [slice_items?_eq_iter hitem, ReadSlice.intoOwned]
  cases hx : (ReadSlice.backed r i.1 i.2 : ReadSlice R O V).iter with
  | none => rfl
  | some items =>
    rw [Option.bind_some, readSlice_cloneOnto_is_slice (ReadSlice.borrowed items) items rfl t]
    show some (SliceItem.cloneOnto (ItemOps.intoOwned (R := R)) (ItemOps.cloneOnto (R := R))
      (SliceItem.borrowAs (ItemOps.borrowAs (R := R)) (SliceItem.intoOwned (ItemOps.intoOwned (R := R)) items)) t) = _
    rw [hio', hco', hba']
    simp only [SliceItem.borrowAs, SliceItem.intoOwned, SliceItem.map_base_intoOwned]
    rw [map_base_borrowAs]

/-- e.g. `SliceRegion<MirrorRegion<T>>`, `SliceRegion<OwnedRegion<T>>`: the hypotheses hold by `rfl` -/
example (T : Type) (r : SliceRegion (MirrorRegion T) O') (i : Nat × Nat) (t : List T) [IdxCont O' T] :
    ItemOps.cloneOntoAt r i false t = (ReadSlice.backed r i.1 i.2 : ReadSlice (MirrorRegion T) O' T).cloneOnto t :=
  slice_cloneOntoAt_backed (fun _ _ => rfl) (fun _ => rfl) (fun _ _ => rfl) r i t

end SliceAgree

/-! … and likewise the row path: the new answers are the former `ReadColumns.cloneOnto` on the item `colsItem` built -/
section ColumnsAgree
variable {R V I O : Type} [Region R V I] [IdxCont O Nat] [ItemOps R V]

theorem itemRow_eq_readRow (hitem : ∀ (r : R) (i : I), ItemOps.item? r i = index r i) (cs : List R) (is : List I) :
    (itemRow cs is : Option (List V)) = readRow cs is := by
  induction is generalizing cs with
  | nil => cases cs <;> rfl
  | cons i is ih =>
    cases cs with
    | nil => rfl
    | cons c cs =>
      simp only [itemRow, readRow, hitem, ih]
      cases index c i <;> cases (readRow cs is : Option (List V)) <;> rfl

theorem columns_cloneOntoAt_backed (hitem : ∀ (r : R) (i : I), ItemOps.item? r i = index r i)
    (hio : ∀ x : V, ItemOps.intoOwned (R := R) x = x) (hco : ∀ x t : V, ItemOps.cloneOnto (R := R) x t = x)
    (r : ColumnsRegion R I O) (k : Nat) (t : List V) :
    ItemOps.cloneOntoAt r k false t =
      (index r.indices k).bind fun is => (ReadColumns.backed r.cols is : ReadColumns R I V).cloneOnto t := by
  have hio' : ItemOps.intoOwned (R := R) = BaseItem.intoOwned := funext hio
  have hco' : ItemOps.cloneOnto (R := R) = BaseItem.cloneOnto := funext fun x => funext fun t => hco x t
  have hit : ItemOps.item? r k = (index r.indices k).bind fun is => (readRow r.cols is : Option (List V)) := by
    show (match index r.indices k with
      | none => none
      | some is => itemRow r.cols is) = _
    cases index r.indices k with
    | none => rfl
    | some is => exact itemRow_eq_readRow hitem r.cols is
  unfold ItemOps.cloneOntoAt ItemOps.read
  rw [hit]
  cases index r.indices k with
  | none => rfl
  | some is =>
    rw [Option.bind_some, Option.bind_some]
    cases hx : (readRow r.cols is : Option (List V)) with
    | none => simp only [ReadColumns.cloneOnto, ReadColumns.iter, hx, Option.map_none]
    | some items =>
      rw [readColumns_cloneOnto_is_slice (ReadColumns.backed r.cols is) items hx t]
      show some (SliceItem.cloneOnto (ItemOps.intoOwned (R := R)) (ItemOps.cloneOnto (R := R)) items t) = _
      rw [hio', hco']

end ColumnsAgree

/-! ### `cmp` for Huffman compositions through `Wrapped.eq` / `Wrapped.cmp` -/

/-- **C15, bridge** the items the driver compares for a Huffman container — region-backed (`Wrapped.encoded` or
`Wrapped.raw` out of the container) or borrowed (`Wrapped.raw` of the owned value), in any of the four
combinations, from any two containers — compare through `Wrapped.eq` / `Wrapped.cmp` exactly as the owned
values `index` returns compare (which is what the driver answered before) -/
theorem huffman_cmpItems (h₁ h₂ : Huff.Container) (i j : Nat × Nat) (b₁ b₂ : Bool) (hi₁ : Inv h₁) (hv₁ : Valid h₁ i)
    (hi₂ : Inv h₂) (hv₂ : Valid h₂ j) :
    ∃ x y xs ys, ItemOps.read h₁ i b₁ = some x ∧ ItemOps.read h₂ j b₂ = some y ∧
      index h₁ i = some xs ∧ index h₂ j = some ys ∧
      ItemCmp.eq x y = some (listEq (· == ·) xs ys) ∧ ItemCmp.cmp x y = some (lexCmp compare xs ys) := by
  obtain ⟨xs, hxs⟩ := LawfulRegion.valid_reads h₁ i hi₁ hv₁
  obtain ⟨ys, hys⟩ := LawfulRegion.valid_reads h₂ j hi₂ hv₂
  have r1 := read_intoOwned h₁ i b₁ hi₁ hv₁
  have r2 := read_intoOwned h₂ j b₂ hi₂ hv₂
  rw [hxs] at r1
  rw [hys] at r2
  cases hx : ItemOps.read h₁ i b₁ with
  | none => rw [hx] at r1; cases r1
  | some x =>
    cases hy : ItemOps.read h₂ j b₂ with
    | none => rw [hy] at r2; cases r2
    | some y =>
      rw [hx] at r1
      rw [hy] at r2
      have dx : x.1.decode = some xs := by
        rw [← WrappedOK.some_intoOwned]; exact r1
      have dy : y.1.decode = some ys := by
        rw [← WrappedOK.some_intoOwned]; exact r2
      exact ⟨x, y, xs, ys, rfl, rfl, hxs, hys, C15.wrapped_eq _ _ xs ys dx dy, C15.wrapped_cmp _ _ xs ys dx dy⟩

/-- slices of comparable items: `Iterator::eq` / `Iterator::cmp` over element comparisons that do not panic are
`listEq` / `lexCmp` of them -/
theorem iterEqBy_total {X : Type} (eq : X → X → Option Bool) (eq' : X → X → Bool) (h : ∀ a b, eq a b = some (eq' a b))
    (xs ys : List X) : iterEqBy eq xs ys = some (listEq eq' xs ys) := by
  induction xs generalizing ys with
  | nil => cases ys <;> rfl
  | cons a as ih =>
    cases ys with
    | nil => rfl
    | cons b bs =>
      simp only [iterEqBy, listEq, h a b]
      cases eq' a b with
      | false => rfl
      | true => simpa using ih bs

theorem iterCmpBy_total {X : Type} (cmp : X → X → Option Ordering) (cmp' : X → X → Ordering)
    (h : ∀ a b, cmp a b = some (cmp' a b)) (xs ys : List X) : iterCmpBy cmp xs ys = some (lexCmp cmp' xs ys) := by
  induction xs generalizing ys with
  | nil => cases ys <;> rfl
  | cons a as ih =>
    cases ys with
    | nil => rfl
    | cons b bs =>
      simp only [iterCmpBy, lexCmp, h a b]
      cases cmp' a b with
      | eq => exact ih bs
      | lt => rfl
      | gt => rfl

/-- a Huffman item compares through `Wrapped.eq` / `Wrapped.cmp` as its owned symbols do, without panicking … -/
theorem wrappedOK_cmp (a b : WrappedOK) :
    ItemCmp.eq a b = some (listEq (· == ·) a.intoOwned b.intoOwned) ∧
    ItemCmp.cmp a b = some (lexCmp compare a.intoOwned b.intoOwned) :=
  ⟨C15.wrapped_eq _ _ _ _ (WrappedOK.some_intoOwned a).symm (WrappedOK.some_intoOwned b).symm,
    C15.wrapped_cmp _ _ _ _ (WrappedOK.some_intoOwned a).symm (WrappedOK.some_intoOwned b).symm⟩

/-- **C15, bridge** … and so do slices of Huffman items (`slice(huffman(u8),vec)`): `ReadSlice::eq` / `cmp`, i.e.
`Iterator::eq` / `cmp` over `Wrapped::eq` / `cmp`, is the comparison of the owned `Vec<Vec<B>>`s -/
theorem slice_wrappedOK_cmp (xs ys : List WrappedOK) :
    ItemCmp.eq xs ys = some (listEq (fun a b : WrappedOK => listEq (· == ·) a.intoOwned b.intoOwned) xs ys) ∧
    ItemCmp.cmp xs ys = some (lexCmp (fun a b : WrappedOK => lexCmp compare a.intoOwned b.intoOwned) xs ys) :=
  ⟨iterEqBy_total _ _ (fun a b => (wrappedOK_cmp a b).1) xs ys, iterCmpBy_total _ _ (fun a b => (wrappedOK_cmp a b).2) xs ys⟩

end C14

/-! ### coverage examples: instance resolution finds the law for nested compositions -/

example : LawfulItemOps (SliceRegion (OptionRegion (TupleCons HuffU8 (TupleCons (MirrorRegion Nat) TupleNil)))
    (VecIdx (Option ((Nat × Nat) × Nat × Unit)) 8)) := inferInstance
example : LawfulItemOps (ResultRegion (SliceRegion (MirrorRegion Nat) (VecIdx Nat 1)) (StringRegion (OwnedRegion UInt8))) :=
  inferInstance

/-- the instance-derived operations are the Rust code paths: a Huffman item inside an `Option` inside a
slice, cloned onto a longer target of the other variants -/
example :
    ItemOps.cloneOnto (R := SliceRegion (OptionRegion Huff.Container) (VecIdx (Option (Nat × Nat)) 8))
      [some (WrappedOK.borrowAs [1, 2]), none] [none, some [7], some [8, 8]] = [some [1, 2], none] := by
  decide

end FC
