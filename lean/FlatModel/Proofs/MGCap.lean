import FlatModel.Proofs.MisraGries
/-! The tuning constant of the heavy-hitter summary, `MG.cap` (= `FC.Generated.mgCapacity`: the literal `N` of
`Vec::with_capacity(N)` in `impl<T> Default for MisraGries<T>`, re-extracted from the crate's source on every run).

This is the ONLY file that looks at the value of the constant: `MG.two_le_cap` is `by decide` on the regenerated
value. Every other statement of Proofs/MisraGries.lean, Props/C07.lean and Props/C07MG.lean is in terms of `MG.cap`,
`MG.k = MG.cap / 2` and `MG.k + 1` and is proved from the theorems for a generic capacity, so a retuning (1024 → 2048)
rebuilds them unchanged. An absurd retuning (capacity 0 or 1, or a shape `tools/gen_facts.py` does not recognise, which
it reports as 0) breaks exactly `MG.two_le_cap` — rightly: with capacity 0 the crate's vector would grow on the first
`push` and `len() == capacity()` would fire at std's growth steps, which the model (a fixed `MG.cap`) does not describe;
with capacity 1 every insertion compacts down to `k = 0` entries and the summary is always empty.

What the side condition buys (`run_length_lt_cap`): after every `update` the raw list is strictly shorter than the
capacity, so the crate's `Vec` never reallocates and `self.inner.capacity()` stays the constant it was created with —
the reason why the model may use a fixed `MG.cap` (given `Vec::with_capacity(N).capacity() == N`, the std assumption
recorded in tools/props/c07.py). -/
namespace FC.Codec

/-- the side condition on the regenerated constant, checked once against its value -/
theorem MG.two_le_cap : 2 ≤ MG.cap := by decide

theorem MG.cap_pos : 0 < MG.cap := Nat.lt_of_lt_of_le (by omega) MG.two_le_cap
/-- a compaction keeps up to `k ≥ 1` entries -/
theorem MG.k_pos : 0 < MG.k := Nat.div_pos MG.two_le_cap (by omega)
theorem MG.k_lt_cap : MG.k < MG.cap := Nat.div_lt_self MG.cap_pos (by omega)
/-- needs no side condition -/
theorem MG.two_k_le_cap : 2 * MG.k ≤ MG.cap := Nat.mul_div_le MG.cap 2

/-- a compaction leaves at most `k` entries -/
theorem MG.tidyK_length_le (k : Nat) (m : MG) : (m.tidyK k).inner.length ≤ k := by
  by_cases h : (ranked m.inner).length ≤ k
  · rw [(MG.tidyK_of_le h).1]; exact h
  · have h : k < (ranked m.inner).length := by omega
    rw [(MG.tidyK_of_gt h).1]
    have := length_stripZ_le (subAll ((ranked m.inner)[k].2 - 1) ((ranked m.inner).take k))
    simp only [List.length_map, List.length_take] at this
    dsimp only
    omega

/-- for every positive capacity: an `update` keeps the raw list strictly below the capacity -/
theorem MG.updateK_length_lt {cap : Nat} (hc : 0 < cap) (m : MG) (h : m.inner.length < cap) (b : Bytes) (c : Nat) :
    (m.updateK cap b c).inner.length < cap := by
  unfold MG.updateK
  dsimp only
  split
  · have := MG.tidyK_length_le (cap / 2) ⟨m.inner ++ [(b, c)]⟩
    have : cap / 2 < cap := Nat.div_lt_self hc (by omega)
    omega
  · rename_i hne
    simp only [List.length_append, List.length_singleton, beq_iff_eq] at hne ⊢
    omega

theorem MG.runK_length_lt {cap : Nat} (hc : 0 < cap) (ops : List (Bytes × Nat)) :
    (MG.runK cap ops).inner.length < cap := by
  unfold MG.runK
  have key : ∀ (ops : List (Bytes × Nat)) (m : MG), m.inner.length < cap →
      (ops.foldl (fun m (b, c) => m.updateK cap b c) m).inner.length < cap := by
    intro ops
    induction ops with
    | nil => intro m h; exact h
    | cons bc ops ih =>
      intro m h
      simp only [List.foldl_cons]
      exact ih _ (MG.updateK_length_lt hc m h bc.1 bc.2)
  exact key ops ⟨[]⟩ hc

/-- the crate's summary never fills its vector: `len() < capacity()` after every `update`, so the `Vec` never
reallocates and `capacity()` stays `MG.cap` -/
theorem run_length_lt_cap (ops : List (Bytes × Nat)) : (run ops).inner.length < MG.cap :=
  MG.runK_length_lt MG.cap_pos ops

end FC.Codec
