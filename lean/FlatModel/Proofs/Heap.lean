import FlatModel.Model.Coded
import FlatModel.Proofs.FanOut
import FlatModel.Proofs.Slice
import FlatModel.Proofs.Columns
import Mathlib.Data.List.Forall2
/-! `heap_size` accounting (C18): every vector has length ≤ capacity in every state the API can
produce, so every reported `(used, capacity)` pair has used ≤ capacity; pushes never decrease the
used bytes; `clear` keeps every capacity and forgets the payload; composites report every child. -/
namespace FC
open Region

/-! ### pointwise order on lists of numbers -/

/-- pointwise `≤` between two lists of the same length -/
abbrev LeAll (a b : List Nat) : Prop := List.Forall₂ (· ≤ ·) a b

theorem leAll_refl (a : List Nat) : LeAll a a := List.forall₂_same.mpr fun _ _ => Nat.le_refl _

theorem leAll_trans {a b c : List Nat} (h1 : LeAll a b) (h2 : LeAll b c) : LeAll a c := by
  induction h1 generalizing c with
  | nil => exact h2
  | cons hab _ ih =>
    cases h2 with
    | cons hbc h2' => exact List.Forall₂.cons (Nat.le_trans hab hbc) (ih h2')

theorem leAll_append {a b c d : List Nat} (h1 : LeAll a b) (h2 : LeAll c d) : LeAll (a ++ c) (b ++ d) :=
  List.rel_append h1 h2

theorem leAll_sum {a b : List Nat} (h : LeAll a b) : a.sum ≤ b.sum := by
  induction h with
  | nil => exact Nat.le_refl _
  | cons hab _ ih => simp only [List.sum_cons]; omega

theorem leAll_of_eq {a b : List Nat} (h : a = b) : LeAll a b := h ▸ leAll_refl a

/-- the index form of `LeAll`: same length and `a[k] ≤ b[k]` everywhere -/
theorem leAll_iff_getElem {a b : List Nat} :
    LeAll a b ↔ a.length = b.length ∧ ∀ k (h1 : k < a.length) (h2 : k < b.length), a[k] ≤ b[k] := by
  rw [LeAll, List.forall₂_iff_get]
  simp only [List.get_eq_getElem]

theorem mem_zipWith_elim {α β γ : Type} (f : α → β → γ) (l1 : List α) (l2 : List β) (x : γ)
    (h : x ∈ List.zipWith f l1 l2) : ∃ a ∈ l1, ∃ b ∈ l2, x = f a b := by
  induction l1 generalizing l2 with
  | nil => simp at h
  | cons a as ih =>
    cases l2 with
    | nil => simp at h
    | cons b bs =>
      simp only [List.zipWith_cons_cons, List.mem_cons] at h
      rcases h with rfl | h
      · exact ⟨a, by simp, b, by simp, rfl⟩
      · obtain ⟨a', ha, b', hb, rfl⟩ := ih bs h
        exact ⟨a', by simp [ha], b', by simp [hb], rfl⟩

/-! ### `Vec` -/
namespace MVec
variable {α : Type}

theorem wf_empty : (MVec.empty : MVec α).WF := Nat.le_refl _
theorem wf_withCapacity (n : Nat) : (MVec.withCapacity n : MVec α).WF := Nat.zero_le _
theorem wf_clear (v : MVec α) : v.clear.WF := Nat.zero_le _
theorem wf_clone (v : MVec α) : v.clone.WF := Nat.le_refl _

theorem reserve_cap_ge (v : MVec α) (n : Nat) : v.cap ≤ (v.reserve n).cap := by
  unfold reserve; split
  · exact Nat.le_refl _
  · exact grow_ge_cap _ _

theorem reserve_fits (v : MVec α) (n : Nat) : v.data.length + n ≤ (v.reserve n).cap := by
  unfold reserve; split
  · assumption
  · exact grow_ge_need _ _

theorem wf_reserve (v : MVec α) (n : Nat) (_h : v.WF) : (v.reserve n).WF := by
  have := reserve_fits v n
  simp only [WF, reserve_data]; omega

theorem wf_push (v : MVec α) (x : α) : (v.push x).WF := by
  have := reserve_fits v 1
  simp only [WF, push, reserve_data, List.length_append, List.length_singleton]; omega

theorem wf_extend (v : MVec α) (xs : List α) : (v.extend xs).WF := by
  have := reserve_fits v xs.length
  simp only [WF, extend, reserve_data, List.length_append]; omega

theorem wf_cloneFrom (d s : MVec α) : (d.cloneFrom s).WF := by
  unfold cloneFrom; split
  · assumption
  · exact grow_ge_need _ _

theorem heap_ok (v : MVec α) (sz : Nat) (h : v.WF) : (v.heap sz).1 ≤ (v.heap sz).2 :=
  Nat.mul_le_mul_right sz h

@[simp] theorem clear_cap (v : MVec α) : v.clear.cap = v.cap := rfl
end MVec

/-! ### index containers with capacities -/

/-- the description of the vectors of a container is coherent -/
class LawfulStores (C : Type) {T : outParam Type} [IdxCont C T] [HasStores C] : Prop where
  lens_len : ∀ c : C, (HasStores.lens c).length = (HasStores.sizes C).length
  mask_len : ∀ c : C, (HasStores.reserveMask c).length = (HasStores.sizes C).length
  withCap_len : (HasStores.withCapMask C).length = (HasStores.sizes C).length
  lens_default : HasStores.lens (IdxCont.default : C) = Capd.zeros (C := C)
  /-- `clear` empties every vector: it produces the default container -/
  clear_default : ∀ c : C, IdxCont.clear c = IdxCont.default
  /-- no vector shrinks on push -/
  lens_push : ∀ (c : C) x, LeAll (HasStores.lens c) (HasStores.lens (IdxCont.push c x))

instance (T : Type) (sz : Nat) : LawfulStores (VecIdx T sz) where
  lens_len _ := rfl
  mask_len _ := rfl
  withCap_len := rfl
  lens_default := rfl
  clear_default _ := rfl
  lens_push c x := by
    simp only [HasStores.lens, IdxCont.push, List.length_append, List.length_singleton]
    exact List.Forall₂.cons (Nat.le_succ _) List.Forall₂.nil

theorem IndexList.lens_push (l : IndexList) (x : Nat) :
    LeAll [l.smol.length, l.chonk.length] [(l.push x).smol.length, (l.push x).chonk.length] := by
  unfold IndexList.push
  split
  · split
    · exact List.Forall₂.cons (by simp) (leAll_refl _)
    · exact List.Forall₂.cons (Nat.le_refl _) (List.Forall₂.cons (by simp) List.Forall₂.nil)
  · exact List.Forall₂.cons (Nat.le_refl _) (List.Forall₂.cons (by simp) List.Forall₂.nil)

instance : LawfulStores IndexList where
  lens_len _ := rfl
  mask_len _ := rfl
  withCap_len := rfl
  lens_default := rfl
  clear_default _ := rfl
  lens_push l x := IndexList.lens_push l x

instance : LawfulStores IndexOptimized where
  lens_len _ := rfl
  mask_len _ := rfl
  withCap_len := rfl
  lens_default := rfl
  clear_default _ := rfl
  lens_push o x := by
    show LeAll [o.spilled.smol.length, o.spilled.chonk.length]
      [(o.push x).spilled.smol.length, (o.push x).spilled.chonk.length]
    unfold IndexOptimized.push
    split
    · split
      split
      · exact leAll_refl _
      · exact IndexList.lens_push _ _
    · exact IndexList.lens_push _ _

/-! #### arithmetic of the capacity lists -/
namespace Capd

/-- the list `Capd.heap` reports, as a function of the three lists it is made of -/
def heapList (lens caps sizes : List Nat) : List (Nat × Nat) :=
  List.zipWith (fun (p : Nat × Nat) (sz : Nat) => (p.1 * sz, p.2 * sz)) (List.zip lens caps) sizes

/-- the capacities `Capd.reserve` produces -/
def resvList (caps lens : List Nat) (mask : List Bool) (additional : Nat) : List Nat :=
  List.zipWith (fun (p : Nat × Nat) (m : Bool) =>
      if m then (if p.2 + additional ≤ p.1 then p.1 else grow p.1 (p.2 + additional)) else p.1)
    (List.zip caps lens) mask

theorem heapList_fst (lens caps sizes : List Nat) (h : lens.length = caps.length) (hs : lens.length = sizes.length) :
    (heapList lens caps sizes).map (·.1) = List.zipWith (· * ·) lens sizes := by
  induction lens generalizing caps sizes with
  | nil => simp [heapList]
  | cons l ls ih =>
    cases caps with
    | nil => simp at h
    | cons c cs =>
      cases sizes with
      | nil => simp at hs
      | cons z zs =>
        have := ih cs zs (by simpa using h) (by simpa using hs)
        simp only [heapList] at this
        simp [heapList, this]

theorem heapList_snd (lens caps sizes : List Nat) (h : lens.length = caps.length) (hs : lens.length = sizes.length) :
    (heapList lens caps sizes).map (·.2) = List.zipWith (· * ·) caps sizes := by
  induction lens generalizing caps sizes with
  | nil =>
    cases caps with
    | nil => simp [heapList]
    | cons c cs => simp at h
  | cons l ls ih =>
    cases caps with
    | nil => simp at h
    | cons c cs =>
      cases sizes with
      | nil => simp at hs
      | cons z zs =>
        have := ih cs zs (by simpa using h) (by simpa using hs)
        simp only [heapList] at this
        simp [heapList, this]

theorem heapList_ok (lens caps sizes : List Nat) (h : LeAll lens caps) :
    ∀ p ∈ heapList lens caps sizes, p.1 ≤ p.2 := by
  intro p hp
  obtain ⟨q, hq, z, _, rfl⟩ := mem_zipWith_elim _ _ _ _ hp
  obtain ⟨a, b⟩ := q
  exact Nat.mul_le_mul_right z (List.forall₂_zip h hq)

theorem zipWith_mul_mono {a b : List Nat} (s : List Nat) (h : LeAll a b) :
    LeAll (List.zipWith (· * ·) a s) (List.zipWith (· * ·) b s) := by
  induction h generalizing s with
  | nil => simp
  | cons hab _ ih =>
    cases s with
    | nil => simp
    | cons z zs => exact List.Forall₂.cons (Nat.mul_le_mul_right z hab) (ih zs)

theorem fit_ge_lens (caps lens : List Nat) (h : lens.length = caps.length) : LeAll lens (fit caps lens) := by
  induction lens generalizing caps with
  | nil => cases caps <;> simp [fit]
  | cons l ls ih =>
    cases caps with
    | nil => simp at h
    | cons c cs =>
      have := ih cs (by simpa using h)
      simp only [fit] at this
      simp only [fit, List.zipWith_cons_cons]
      refine List.Forall₂.cons ?_ this
      split
      · assumption
      · exact grow_ge_need _ _

theorem fit_ge_caps (caps lens : List Nat) (h : lens.length = caps.length) : LeAll caps (fit caps lens) := by
  induction lens generalizing caps with
  | nil => cases caps <;> simp [fit] at h ⊢
  | cons l ls ih =>
    cases caps with
    | nil => simp at h
    | cons c cs =>
      have := ih cs (by simpa using h)
      simp only [fit] at this
      simp only [fit, List.zipWith_cons_cons]
      refine List.Forall₂.cons ?_ this
      split
      · exact Nat.le_refl _
      · exact grow_ge_cap _ _

theorem resv_ge_caps (caps lens : List Nat) (mask : List Bool) (n : Nat) (h : lens.length = caps.length)
    (hm : mask.length = caps.length) : LeAll caps (resvList caps lens mask n) := by
  induction caps generalizing lens mask with
  | nil => simp [resvList]
  | cons c cs ih =>
    cases lens with
    | nil => simp at h
    | cons l ls =>
      cases mask with
      | nil => simp at hm
      | cons m ms =>
        have := ih ls ms (by simpa using h) (by simpa using hm)
        simp only [resvList] at this
        simp only [resvList, List.zip_cons_cons, List.zipWith_cons_cons]
        refine List.Forall₂.cons ?_ this
        split
        · split
          · exact Nat.le_refl _
          · exact grow_ge_cap _ _
        · exact Nat.le_refl _

theorem zeros_le (s l : List Nat) (h : l.length = s.length) : LeAll (s.map fun _ => 0) l := by
  induction s generalizing l with
  | nil => cases l <;> simp at h ⊢
  | cons z zs ih =>
    cases l with
    | nil => simp at h
    | cons x xs => exact List.Forall₂.cons (Nat.zero_le _) (ih xs (by simpa using h))

end Capd

/-! #### the class of index containers with sound `heap_size` -/

section IdxDefs
variable {O T : Type} [IdxCont O T] [IdxAux O]
/-- bytes in use, summed over the pairs the container reports -/
def usedI (c : O) : Nat := ((IdxAux.heap c).map (·.1)).sum
/-- the capacities the container reports -/
def capsI (c : O) : List Nat := (IdxAux.heap c).map (·.2)
end IdxDefs

/-- the capacity invariant of an index container: every vector has length ≤ capacity -/
class IdxHeapInv (O : Type) {T : outParam Type} [IdxCont O T] [IdxAux O] where
  CapInv : O → Prop

open IdxHeapInv in
class LawfulIdxHeap (O : Type) {T : outParam Type} [IdxCont O T] [IdxAux O] [IdxHeapInv O] : Prop where
  cap_default : CapInv (IdxCont.default : O)
  cap_push : ∀ (c : O) x, CapInv c → CapInv (IdxCont.push c x)
  cap_clear : ∀ c : O, CapInv c → CapInv (IdxCont.clear c)
  cap_reserve : ∀ (c : O) n, CapInv c → CapInv (IdxAux.reserve c n)
  cap_reserveRegions : ∀ (c : O) rs, CapInv c → CapInv (IdxAux.reserveRegions c rs)
  cap_withCapacity : ∀ n, CapInv (IdxAux.withCapacity n : O)
  cap_merge : ∀ rs : List O, CapInv (IdxAux.mergeRegions rs)
  cap_clone : ∀ c : O, CapInv c → CapInv (IdxAux.clone c)
  cap_cloneFrom : ∀ d s : O, CapInv d → CapInv s → CapInv (IdxAux.cloneFrom d s)
  heap_ok : ∀ c : O, CapInv c → ∀ p ∈ IdxAux.heap c, p.1 ≤ p.2
  used_push : ∀ (c : O) x, CapInv c → usedI c ≤ usedI (IdxCont.push c x)
  used_clear : ∀ c : O, CapInv c → usedI (IdxCont.clear c) = usedI (IdxCont.default : O)
  used_default_le : ∀ c : O, CapInv c → usedI (IdxCont.default : O) ≤ usedI c
  /-- a cleared container accounts a further push exactly as a fresh one does -/
  used_clear_push : ∀ (c : O) x, CapInv c →
      usedI (IdxCont.push (IdxCont.clear c) x) = usedI (IdxCont.push (IdxCont.default : O) x)
  used_reserve : ∀ (c : O) n, CapInv c → usedI (IdxAux.reserve c n) = usedI c
  used_clone : ∀ c : O, CapInv c → usedI (IdxAux.clone c) = usedI c
  used_cloneFrom : ∀ d s : O, CapInv d → CapInv s → usedI (IdxAux.cloneFrom d s) = usedI s
  caps_clear : ∀ c : O, CapInv c → LeAll (capsI c) (capsI (IdxCont.clear c))
  caps_push : ∀ (c : O) x, CapInv c → LeAll (capsI c) (capsI (IdxCont.push c x))

section CapdInst
variable {C T : Type} [IdxCont C T] [HasStores C]

/-- `caps.length = lens.length` and `lens[k] ≤ caps[k]` for every vector -/
instance : IdxHeapInv (Capd C) := ⟨fun c => LeAll (HasStores.lens c.a) c.caps⟩

theorem capd_capInv_iff (c : Capd C) : IdxHeapInv.CapInv c ↔
    (HasStores.lens c.a).length = c.caps.length ∧
      ∀ k (h1 : k < (HasStores.lens c.a).length) (h2 : k < c.caps.length), (HasStores.lens c.a)[k] ≤ c.caps[k] :=
  leAll_iff_getElem

variable [L : LawfulStores C]

theorem capd_useds (c : Capd C) (h : IdxHeapInv.CapInv c) :
    (IdxAux.heap c).map (·.1) = List.zipWith (· * ·) (HasStores.lens c.a) (HasStores.sizes C) :=
  Capd.heapList_fst _ _ _ (List.Forall₂.length_eq h) (L.lens_len c.a)

theorem capd_usedI (c : Capd C) (h : IdxHeapInv.CapInv c) :
    usedI c = (List.zipWith (· * ·) (HasStores.lens c.a) (HasStores.sizes C)).sum := by
  rw [usedI, capd_useds c h]

theorem capd_capsI (c : Capd C) (h : IdxHeapInv.CapInv c) :
    capsI c = List.zipWith (· * ·) c.caps (HasStores.sizes C) :=
  Capd.heapList_snd _ _ _ (List.Forall₂.length_eq h) (L.lens_len c.a)

theorem capd_caps_len (c : Capd C) (h : IdxHeapInv.CapInv c) : c.caps.length = (HasStores.sizes C).length := by
  rw [← List.Forall₂.length_eq h, L.lens_len]

theorem capd_cap_default : IdxHeapInv.CapInv (IdxCont.default : Capd C) := by
  show LeAll (HasStores.lens (IdxCont.default : C)) (Capd.zeros (C := C))
  rw [L.lens_default]; exact leAll_refl _

theorem capd_cap_push (c : Capd C) (x : T) (h : IdxHeapInv.CapInv c) : IdxHeapInv.CapInv (IdxCont.push c x) := by
  show LeAll (HasStores.lens (IdxCont.push c.a x)) (Capd.fit c.caps (HasStores.lens (IdxCont.push c.a x)))
  exact Capd.fit_ge_lens _ _ (by rw [L.lens_len, capd_caps_len c h])

theorem capd_cap_clear (c : Capd C) (h : IdxHeapInv.CapInv c) : IdxHeapInv.CapInv (IdxCont.clear c) := by
  show LeAll (HasStores.lens (IdxCont.clear c.a)) c.caps
  rw [L.clear_default, L.lens_default]
  exact Capd.zeros_le _ _ (capd_caps_len c h)

theorem capd_cap_reserve (c : Capd C) (n : Nat) (h : IdxHeapInv.CapInv c) : IdxHeapInv.CapInv (Capd.reserve c n) := by
  show LeAll (HasStores.lens c.a) (Capd.resvList c.caps (HasStores.lens c.a) (HasStores.reserveMask c.a) n)
  exact leAll_trans h (Capd.resv_ge_caps _ _ _ _ (List.Forall₂.length_eq h) (by rw [L.mask_len, capd_caps_len c h]))

theorem capd_cap_withCapacity (n : Nat) : IdxHeapInv.CapInv (Capd.withCapacity n : Capd C) := by
  show LeAll (HasStores.lens (IdxCont.default : C)) ((HasStores.withCapMask C).map fun m => if m then n else 0)
  rw [L.lens_default]
  exact Capd.zeros_le _ _ (by rw [List.length_map, L.withCap_len])

theorem capd_cap_cloneFrom (d s : Capd C) (hd : IdxHeapInv.CapInv d) : IdxHeapInv.CapInv (Capd.cloneFrom d s) := by
  show LeAll (HasStores.lens s.a) (Capd.fit d.caps (HasStores.lens s.a))
  exact Capd.fit_ge_lens _ _ (by rw [L.lens_len, capd_caps_len d hd])

instance : LawfulIdxHeap (Capd C) where
  cap_default := capd_cap_default
  cap_push := capd_cap_push
  cap_clear := capd_cap_clear
  cap_reserve := capd_cap_reserve
  cap_reserveRegions c rs h := capd_cap_reserve c _ h
  cap_withCapacity := capd_cap_withCapacity
  cap_merge rs := capd_cap_withCapacity _
  cap_clone c _ := leAll_refl _
  cap_cloneFrom d s hd _ := capd_cap_cloneFrom d s hd
  heap_ok c h := Capd.heapList_ok _ _ _ h
  used_push c x h := by
    rw [capd_usedI c h, capd_usedI _ (capd_cap_push c x h)]
    exact leAll_sum (Capd.zipWith_mul_mono _ (L.lens_push c.a x))
  used_clear c h := by
    rw [capd_usedI _ (capd_cap_clear c h), capd_usedI _ capd_cap_default]
    show (List.zipWith (· * ·) (HasStores.lens (IdxCont.clear c.a)) _).sum = _
    rw [L.clear_default]; rfl
  used_default_le c h := by
    rw [capd_usedI c h, capd_usedI _ capd_cap_default]
    show (List.zipWith (· * ·) (HasStores.lens (IdxCont.default : C)) _).sum ≤ _
    rw [L.lens_default]
    exact leAll_sum (Capd.zipWith_mul_mono _ (Capd.zeros_le _ _ (L.lens_len c.a)))
  used_clear_push c x h := by
    rw [capd_usedI _ (capd_cap_push _ x (capd_cap_clear c h)), capd_usedI _ (capd_cap_push _ x capd_cap_default)]
    show (List.zipWith (· * ·) (HasStores.lens (IdxCont.push (IdxCont.clear c.a) x)) _).sum = _
    rw [L.clear_default]; rfl
  used_reserve c n h := by
    rw [capd_usedI c h]; exact capd_usedI (Capd.reserve c n) (capd_cap_reserve c n h)
  used_clone c h := by
    rw [capd_usedI c h]; exact capd_usedI (Capd.clone c) (leAll_refl _)
  used_cloneFrom d s hd hs := by
    rw [capd_usedI s hs]; exact capd_usedI (Capd.cloneFrom d s) (capd_cap_cloneFrom d s hd)
  caps_clear c h := by
    rw [capd_capsI c h, capd_capsI _ (capd_cap_clear c h)]
    exact leAll_refl _
  caps_push c x h := by
    rw [capd_capsI c h, capd_capsI _ (capd_cap_push c x h)]
    exact Capd.zipWith_mul_mono _ (Capd.fit_ge_caps _ _ (by rw [L.lens_len, capd_caps_len c h]))

/-- exact accounting for `Vec<T>` as an index container: one pair, `len * size_of::<T>()` used -/
theorem capd_vecIdx_heap {T : Type} {sz : Nat} (c : Capd (VecIdx T sz)) (h : IdxHeapInv.CapInv c) :
    ∃ cap, c.caps = [cap] ∧ IdxAux.heap c = [((IdxCont.iter c).length * sz, cap * sz)] := by
  have hl := capd_caps_len c h
  obtain ⟨a, caps⟩ := c
  match caps, hl with
  | [cap], _ => exact ⟨cap, rfl, rfl⟩

theorem capd_vecIdx_used {T : Type} {sz : Nat} (c : Capd (VecIdx T sz)) (h : IdxHeapInv.CapInv c) :
    usedI c = (IdxCont.iter c).length * sz := by
  obtain ⟨cap, _, hh⟩ := capd_vecIdx_heap c h
  simp [usedI, hh]

end CapdInst

/-! ### regions -/

/-- bytes in use / capacities of a raw list of reported pairs -/
def usedL (h : List (Nat × Nat)) : Nat := (h.map (·.1)).sum
def capsL (h : List (Nat × Nat)) : List Nat := h.map (·.2)

theorem usedL_append (a b : List (Nat × Nat)) : usedL (a ++ b) = usedL a + usedL b := by
  simp [usedL]
theorem capsL_append (a b : List (Nat × Nat)) : capsL (a ++ b) = capsL a ++ capsL b := by
  simp [capsL]

section RegionDefs
variable {R V I : Type} [Region R V I] [RegionAux R]
/-- bytes in use, summed over the pairs `heap_size` reports -/
def totalUsed (r : R) : Nat := usedL (RegionAux.heap r)
/-- the capacities `heap_size` reports, in callback order -/
def capsOf (r : R) : List Nat := capsL (RegionAux.heap r)
end RegionDefs

/-- the capacity invariant of a region: every vector in it has length ≤ capacity -/
class HeapInv (R : Type) {V I : outParam Type} [Region R V I] [RegionAux R] where
  CapInv : R → Prop

open HeapInv in
/-- C18, per region type: the capacity invariant is established by every constructor of region
values and preserved by every operation (with arbitrary sources for the sizing calls); under it
`heap_size` is sound, monotone on push and keeps all capacities on clear. -/
class LawfulHeap (R : Type) {V I : outParam Type} [Region R V I] [RegionAux R] [HeapInv R] : Prop where
  cap_default : CapInv (default : R)
  cap_push : ∀ (r r' : R) (v : V) (i : I), CapInv r → push r v = some (r', i) → CapInv r'
  cap_clear : ∀ r : R, CapInv r → CapInv (clear r)
  cap_reserveItems : ∀ (r : R) (vs : List V), CapInv r → CapInv (RegionAux.reserveItems r vs)
  cap_reserveRegions : ∀ (r : R) (rs : List R), CapInv r → CapInv (RegionAux.reserveRegions r rs)
  cap_merge : ∀ rs : List R, CapInv (RegionAux.mergeRegions rs)
  cap_clone : ∀ r : R, CapInv r → CapInv (RegionAux.clone r)
  cap_cloneFrom : ∀ d s : R, CapInv d → CapInv s → CapInv (RegionAux.cloneFrom d s)
  heap_ok : ∀ r : R, CapInv r → ∀ p ∈ RegionAux.heap r, p.1 ≤ p.2
  used_push : ∀ (r r' : R) (v : V) (i : I), CapInv r → push r v = some (r', i) → totalUsed r ≤ totalUsed r'
  used_clear_le : ∀ r : R, CapInv r → totalUsed (clear r) ≤ totalUsed r

/-- `clear` keeps the allocations: the same pairs are reported, no capacity smaller than before
(all regions whose capacities are modelled, i.e. all but the dictionary-coded one) -/
class KeepsCaps (R : Type) {V I : outParam Type} [Region R V I] [RegionAux R] [HeapInv R] : Prop where
  caps_clear : ∀ r : R, HeapInv.CapInv r → LeAll (capsOf r) (capsOf (clear r))

/-- regions whose `clear` leaves exactly the bytes a fresh region accounts (all but columns) -/
class ClearsToDefault (R : Type) {V I : outParam Type} [Region R V I] [RegionAux R] [HeapInv R] : Prop where
  used_clear : ∀ r : R, HeapInv.CapInv r → totalUsed (clear r) = totalUsed (default : R)

/-! #### terminals -/
instance (T : Type) : HeapInv (MirrorRegion T) := ⟨fun _ => True⟩
instance (T : Type) : LawfulHeap (MirrorRegion T) where
  cap_default := trivial
  cap_push _ _ _ _ _ _ := trivial
  cap_clear _ _ := trivial
  cap_reserveItems _ _ _ := trivial
  cap_reserveRegions _ _ _ := trivial
  cap_merge _ := trivial
  cap_clone _ _ := trivial
  cap_cloneFrom _ _ _ _ := trivial
  heap_ok _ _ _ hp := nomatch hp
  used_push _ _ _ _ _ _ := Nat.le_refl _
  used_clear_le _ _ := Nat.le_refl _
instance (T : Type) : ClearsToDefault (MirrorRegion T) := ⟨fun _ _ => rfl⟩
instance (T : Type) : KeepsCaps (MirrorRegion T) := ⟨fun _ _ => List.Forall₂.nil⟩

instance (T : Type) [ElemSize T] : HeapInv (OwnedRegion T) := ⟨fun r => r.slices.WF⟩

/-- exact accounting: one pair, `len * size_of::<T>()` used of `capacity * size_of::<T>()` -/
theorem owned_heap {T : Type} [ElemSize T] (r : OwnedRegion T) :
    RegionAux.heap r = [(r.slices.data.length * ElemSize.bytes T, r.slices.cap * ElemSize.bytes T)] := rfl
theorem owned_used {T : Type} [ElemSize T] (r : OwnedRegion T) :
    totalUsed r = r.slices.data.length * ElemSize.bytes T := by
  simp [totalUsed, usedL, owned_heap]

instance (T : Type) [ElemSize T] : LawfulHeap (OwnedRegion T) where
  cap_default := MVec.wf_empty
  cap_push r r' v i _ hp := by
    simp only [Region.push, Option.some.injEq, Prod.mk.injEq] at hp
    obtain ⟨rfl, rfl⟩ := hp
    exact MVec.wf_extend _ _
  cap_clear r _ := MVec.wf_clear _
  cap_reserveItems r vs h := MVec.wf_reserve _ _ h
  cap_reserveRegions r rs h := MVec.wf_reserve _ _ h
  cap_merge rs := MVec.wf_withCapacity _
  cap_clone r _ := MVec.wf_clone _
  cap_cloneFrom d s _ _ := MVec.wf_cloneFrom _ _
  heap_ok r h p hp := by
    rw [owned_heap, List.mem_singleton] at hp
    subst hp
    exact Nat.mul_le_mul_right _ h
  used_push r r' v i _ hp := by
    simp only [Region.push, Option.some.injEq, Prod.mk.injEq] at hp
    obtain ⟨rfl, rfl⟩ := hp
    rw [owned_used, owned_used]
    simp only [MVec.extend_data, List.length_append]
    exact Nat.mul_le_mul_right _ (Nat.le_add_right _ _)
  used_clear_le r _ := by
    rw [owned_used, owned_used]
    simp [Region.clear]
instance (T : Type) [ElemSize T] : ClearsToDefault (OwnedRegion T) := ⟨fun _ _ => rfl⟩
instance (T : Type) [ElemSize T] : KeepsCaps (OwnedRegion T) := ⟨fun _ _ => leAll_refl _⟩

instance (T : Type) [ElemSize T] : HeapInv (VecRegion T) := ⟨fun r => r.v.WF⟩

theorem vec_heap {T : Type} [ElemSize T] (r : VecRegion T) :
    RegionAux.heap r = [(r.v.data.length * ElemSize.bytes T, r.v.cap * ElemSize.bytes T)] := rfl
theorem vec_used {T : Type} [ElemSize T] (r : VecRegion T) :
    totalUsed r = r.v.data.length * ElemSize.bytes T := by
  simp [totalUsed, usedL, vec_heap]

instance (T : Type) [ElemSize T] : LawfulHeap (VecRegion T) where
  cap_default := MVec.wf_empty
  cap_push r r' v i _ hp := by
    simp only [Region.push, Option.some.injEq, Prod.mk.injEq] at hp
    obtain ⟨rfl, rfl⟩ := hp
    exact MVec.wf_push _ _
  cap_clear r _ := MVec.wf_clear _
  cap_reserveItems r vs h := MVec.wf_reserve _ _ h
  cap_reserveRegions r rs h := MVec.wf_reserve _ _ h
  cap_merge rs := MVec.wf_withCapacity _
  cap_clone r _ := MVec.wf_clone _
  cap_cloneFrom d s _ _ := MVec.wf_cloneFrom _ _
  heap_ok r h p hp := by
    rw [vec_heap, List.mem_singleton] at hp
    subst hp
    exact Nat.mul_le_mul_right _ h
  used_push r r' v i _ hp := by
    simp only [Region.push, Option.some.injEq, Prod.mk.injEq] at hp
    obtain ⟨rfl, rfl⟩ := hp
    rw [vec_used, vec_used]
    simp only [MVec.push_data, List.length_append]
    exact Nat.mul_le_mul_right _ (Nat.le_add_right _ _)
  used_clear_le r _ := by
    rw [vec_used, vec_used]
    simp [Region.clear]
instance (T : Type) [ElemSize T] : ClearsToDefault (VecRegion T) := ⟨fun _ _ => rfl⟩
instance (T : Type) [ElemSize T] : KeepsCaps (VecRegion T) := ⟨fun _ _ => leAll_refl _⟩

/-! #### wrappers that only forward -/
section String
variable {R I : Type} [Region R (List UInt8) I] [RegionAux R] [HeapInv R]

instance : HeapInv (StringRegion R) := ⟨fun r => HeapInv.CapInv r.inner⟩

omit [RegionAux R] [HeapInv R] in
theorem string_push_some (r r' : StringRegion R) (v : List UInt8) (i : I) (hp : push r v = some (r', i)) :
    push r.inner v = some (r'.inner, i) := by
  simp only [Region.push, Option.map_eq_some_iff, Prod.mk.injEq] at hp
  obtain ⟨⟨r0, i0⟩, hp0, rfl, rfl⟩ := hp
  exact hp0

instance [LawfulHeap R] : LawfulHeap (StringRegion R) where
  cap_default := LawfulHeap.cap_default (R := R)
  cap_push r r' v i h hp := LawfulHeap.cap_push r.inner r'.inner v i h (string_push_some r r' v i hp)
  cap_clear r h := LawfulHeap.cap_clear r.inner h
  cap_reserveItems r vs h := LawfulHeap.cap_reserveItems r.inner vs h
  cap_reserveRegions r rs h := LawfulHeap.cap_reserveRegions r.inner (rs.map (·.inner)) h
  cap_merge rs := LawfulHeap.cap_merge (rs.map (·.inner))
  cap_clone r h := LawfulHeap.cap_clone r.inner h
  cap_cloneFrom d s hd hs := LawfulHeap.cap_cloneFrom d.inner s.inner hd hs
  heap_ok r h := LawfulHeap.heap_ok r.inner h
  used_push r r' v i h hp := LawfulHeap.used_push r.inner r'.inner v i h (string_push_some r r' v i hp)
  used_clear_le r h := LawfulHeap.used_clear_le r.inner h
instance [ClearsToDefault R] : ClearsToDefault (StringRegion R) := ⟨fun r h => ClearsToDefault.used_clear r.inner h⟩
instance [KeepsCaps R] : KeepsCaps (StringRegion R) := ⟨fun r h => KeepsCaps.caps_clear r.inner h⟩
end String

section Option
variable {R V I : Type} [Region R V I] [RegionAux R] [HeapInv R]

instance : HeapInv (OptionRegion R) := ⟨fun r => HeapInv.CapInv r.inner⟩

omit [RegionAux R] [HeapInv R] in
theorem option_push_cases (r r' : OptionRegion R) (v : Option V) (i : Option I) (hp : push r v = some (r', i)) :
    r' = r ∨ ∃ x j, push r.inner x = some (r'.inner, j) := by
  cases v with
  | none =>
    simp only [Region.push, Option.some.injEq, Prod.mk.injEq] at hp
    exact Or.inl hp.1.symm
  | some x =>
    simp only [Region.push, Option.map_eq_some_iff, Prod.mk.injEq] at hp
    obtain ⟨⟨r0, i0⟩, hp0, rfl, rfl⟩ := hp
    exact Or.inr ⟨x, i0, hp0⟩

instance [LawfulHeap R] : LawfulHeap (OptionRegion R) where
  cap_default := LawfulHeap.cap_default (R := R)
  cap_push r r' v i h hp := by
    rcases option_push_cases r r' v i hp with rfl | ⟨x, j, hx⟩
    · exact h
    · exact LawfulHeap.cap_push r.inner r'.inner x j h hx
  cap_clear r h := LawfulHeap.cap_clear r.inner h
  cap_reserveItems r vs h := LawfulHeap.cap_reserveItems r.inner (vs.filterMap id) h
  cap_reserveRegions r rs h := LawfulHeap.cap_reserveRegions r.inner (rs.map (·.inner)) h
  cap_merge rs := LawfulHeap.cap_merge (rs.map (·.inner))
  cap_clone r h := LawfulHeap.cap_clone r.inner h
  cap_cloneFrom d s hd hs := LawfulHeap.cap_cloneFrom d.inner s.inner hd hs
  heap_ok r h := LawfulHeap.heap_ok r.inner h
  used_push r r' v i h hp := by
    rcases option_push_cases r r' v i hp with rfl | ⟨x, j, hx⟩
    · exact Nat.le_refl _
    · exact LawfulHeap.used_push r.inner r'.inner x j h hx
  used_clear_le r h := LawfulHeap.used_clear_le r.inner h
instance [ClearsToDefault R] : ClearsToDefault (OptionRegion R) := ⟨fun r h => ClearsToDefault.used_clear r.inner h⟩
instance [KeepsCaps R] : KeepsCaps (OptionRegion R) := ⟨fun r h => KeepsCaps.caps_clear r.inner h⟩
end Option

/-! #### result and tuples: both sides / every field -/
section Result
variable {T VT IT E VE IE : Type} [Region T VT IT] [Region E VE IE] [RegionAux T] [RegionAux E]
  [HeapInv T] [HeapInv E]

instance : HeapInv (ResultRegion T E) := ⟨fun r => HeapInv.CapInv r.oks ∧ HeapInv.CapInv r.errs⟩

omit [HeapInv T] [HeapInv E] in
theorem result_heap (r : ResultRegion T E) : RegionAux.heap r = RegionAux.heap r.oks ++ RegionAux.heap r.errs := rfl
omit [HeapInv T] [HeapInv E] in
theorem result_used (r : ResultRegion T E) : totalUsed r = totalUsed r.oks + totalUsed r.errs :=
  usedL_append _ _
omit [HeapInv T] [HeapInv E] in
theorem result_caps (r : ResultRegion T E) : capsOf r = capsOf r.oks ++ capsOf r.errs :=
  capsL_append _ _

omit [RegionAux T] [RegionAux E] [HeapInv T] [HeapInv E] in
theorem result_push_cases (r r' : ResultRegion T E) (v : Except VE VT) (i : Except IE IT)
    (hp : push r v = some (r', i)) :
    (∃ x j, push r.oks x = some (r'.oks, j) ∧ r'.errs = r.errs) ∨
    (∃ x j, push r.errs x = some (r'.errs, j) ∧ r'.oks = r.oks) := by
  cases v with
  | ok x =>
    simp only [Region.push, Option.map_eq_some_iff, Prod.mk.injEq] at hp
    obtain ⟨⟨r0, i0⟩, hp0, rfl, rfl⟩ := hp
    exact Or.inl ⟨x, i0, hp0, rfl⟩
  | error x =>
    simp only [Region.push, Option.map_eq_some_iff, Prod.mk.injEq] at hp
    obtain ⟨⟨r0, i0⟩, hp0, rfl, rfl⟩ := hp
    exact Or.inr ⟨x, i0, hp0, rfl⟩

instance [LawfulHeap T] [LawfulHeap E] : LawfulHeap (ResultRegion T E) where
  cap_default := ⟨LawfulHeap.cap_default (R := T), LawfulHeap.cap_default (R := E)⟩
  cap_push r r' v i h hp := by
    rcases result_push_cases r r' v i hp with ⟨x, j, hx, he⟩ | ⟨x, j, hx, he⟩
    · exact ⟨LawfulHeap.cap_push r.oks r'.oks x j h.1 hx, by rw [he]; exact h.2⟩
    · exact ⟨by rw [he]; exact h.1, LawfulHeap.cap_push r.errs r'.errs x j h.2 hx⟩
  cap_clear r h := ⟨LawfulHeap.cap_clear r.oks h.1, LawfulHeap.cap_clear r.errs h.2⟩
  cap_reserveItems r vs h := ⟨LawfulHeap.cap_reserveItems r.oks _ h.1, LawfulHeap.cap_reserveItems r.errs _ h.2⟩
  cap_reserveRegions r rs h :=
    ⟨LawfulHeap.cap_reserveRegions r.oks (rs.map (·.oks)) h.1, LawfulHeap.cap_reserveRegions r.errs (rs.map (·.errs)) h.2⟩
  cap_merge rs := ⟨LawfulHeap.cap_merge (rs.map (·.oks)), LawfulHeap.cap_merge (rs.map (·.errs))⟩
  cap_clone r h := ⟨LawfulHeap.cap_clone r.oks h.1, LawfulHeap.cap_clone r.errs h.2⟩
  cap_cloneFrom d s hd hs :=
    ⟨LawfulHeap.cap_cloneFrom d.oks s.oks hd.1 hs.1, LawfulHeap.cap_cloneFrom d.errs s.errs hd.2 hs.2⟩
  heap_ok r h p hp := by
    rw [result_heap, List.mem_append] at hp
    rcases hp with hp | hp
    · exact LawfulHeap.heap_ok r.oks h.1 p hp
    · exact LawfulHeap.heap_ok r.errs h.2 p hp
  used_push r r' v i h hp := by
    rw [result_used, result_used]
    rcases result_push_cases r r' v i hp with ⟨x, j, hx, he⟩ | ⟨x, j, hx, he⟩
    · have := LawfulHeap.used_push r.oks r'.oks x j h.1 hx
      rw [he]; omega
    · have := LawfulHeap.used_push r.errs r'.errs x j h.2 hx
      rw [he]; omega
  used_clear_le r h := by
    rw [result_used, result_used]
    have h1 := LawfulHeap.used_clear_le r.oks h.1
    have h2 := LawfulHeap.used_clear_le r.errs h.2
    show totalUsed (clear r.oks) + totalUsed (clear r.errs) ≤ _
    omega
instance [ClearsToDefault T] [ClearsToDefault E] : ClearsToDefault (ResultRegion T E) where
  used_clear r h := by
    rw [result_used, result_used]
    show totalUsed (clear r.oks) + totalUsed (clear r.errs) = totalUsed (default : T) + totalUsed (default : E)
    rw [ClearsToDefault.used_clear r.oks h.1, ClearsToDefault.used_clear r.errs h.2]
instance [KeepsCaps T] [KeepsCaps E] : KeepsCaps (ResultRegion T E) where
  caps_clear r h := by
    rw [result_caps, result_caps]
    exact leAll_append (KeepsCaps.caps_clear r.oks h.1) (KeepsCaps.caps_clear r.errs h.2)
end Result

instance : HeapInv TupleNil := ⟨fun _ => True⟩
instance : LawfulHeap TupleNil where
  cap_default := trivial
  cap_push _ _ _ _ _ _ := trivial
  cap_clear _ _ := trivial
  cap_reserveItems _ _ _ := trivial
  cap_reserveRegions _ _ _ := trivial
  cap_merge _ := trivial
  cap_clone _ _ := trivial
  cap_cloneFrom _ _ _ _ := trivial
  heap_ok _ _ _ hp := nomatch hp
  used_push _ _ _ _ _ _ := Nat.le_refl _
  used_clear_le _ _ := Nat.le_refl _
instance : ClearsToDefault TupleNil := ⟨fun _ _ => rfl⟩
instance : KeepsCaps TupleNil := ⟨fun _ _ => List.Forall₂.nil⟩

section Tuple
variable {A VA IA B VB IB : Type} [Region A VA IA] [Region B VB IB] [RegionAux A] [RegionAux B]
  [HeapInv A] [HeapInv B]

instance : HeapInv (TupleCons A B) := ⟨fun r => HeapInv.CapInv r.head ∧ HeapInv.CapInv r.tail⟩

omit [HeapInv A] [HeapInv B] in
theorem tuple_heap (r : TupleCons A B) : RegionAux.heap r = RegionAux.heap r.head ++ RegionAux.heap r.tail := rfl
omit [HeapInv A] [HeapInv B] in
theorem tuple_used (r : TupleCons A B) : totalUsed r = totalUsed r.head + totalUsed r.tail :=
  usedL_append _ _
omit [HeapInv A] [HeapInv B] in
theorem tuple_caps (r : TupleCons A B) : capsOf r = capsOf r.head ++ capsOf r.tail :=
  capsL_append _ _

instance [LawfulHeap A] [LawfulHeap B] : LawfulHeap (TupleCons A B) where
  cap_default := ⟨LawfulHeap.cap_default (R := A), LawfulHeap.cap_default (R := B)⟩
  cap_push r r' v i h hp :=
    have hh := tuple_push_some r r' v i hp
    ⟨LawfulHeap.cap_push r.head r'.head v.1 i.1 h.1 hh.1, LawfulHeap.cap_push r.tail r'.tail v.2 i.2 h.2 hh.2⟩
  cap_clear r h := ⟨LawfulHeap.cap_clear r.head h.1, LawfulHeap.cap_clear r.tail h.2⟩
  cap_reserveItems r vs h := ⟨LawfulHeap.cap_reserveItems r.head _ h.1, LawfulHeap.cap_reserveItems r.tail _ h.2⟩
  cap_reserveRegions r rs h :=
    ⟨LawfulHeap.cap_reserveRegions r.head (rs.map (·.head)) h.1, LawfulHeap.cap_reserveRegions r.tail (rs.map (·.tail)) h.2⟩
  cap_merge rs := ⟨LawfulHeap.cap_merge (rs.map (·.head)), LawfulHeap.cap_merge (rs.map (·.tail))⟩
  cap_clone r h := ⟨LawfulHeap.cap_clone r.head h.1, LawfulHeap.cap_clone r.tail h.2⟩
  cap_cloneFrom d s hd hs :=
    ⟨LawfulHeap.cap_cloneFrom d.head s.head hd.1 hs.1, LawfulHeap.cap_cloneFrom d.tail s.tail hd.2 hs.2⟩
  heap_ok r h p hp := by
    rw [tuple_heap, List.mem_append] at hp
    rcases hp with hp | hp
    · exact LawfulHeap.heap_ok r.head h.1 p hp
    · exact LawfulHeap.heap_ok r.tail h.2 p hp
  used_push r r' v i h hp := by
    rw [tuple_used, tuple_used]
    have hh := tuple_push_some r r' v i hp
    have h1 := LawfulHeap.used_push r.head r'.head v.1 i.1 h.1 hh.1
    have h2 := LawfulHeap.used_push r.tail r'.tail v.2 i.2 h.2 hh.2
    omega
  used_clear_le r h := by
    rw [tuple_used, tuple_used]
    have h1 := LawfulHeap.used_clear_le r.head h.1
    have h2 := LawfulHeap.used_clear_le r.tail h.2
    show totalUsed (clear r.head) + totalUsed (clear r.tail) ≤ _
    omega
instance [ClearsToDefault A] [ClearsToDefault B] : ClearsToDefault (TupleCons A B) where
  used_clear r h := by
    rw [tuple_used, tuple_used]
    show totalUsed (clear r.head) + totalUsed (clear r.tail) = totalUsed (default : A) + totalUsed (default : B)
    rw [ClearsToDefault.used_clear r.head h.1, ClearsToDefault.used_clear r.tail h.2]
instance [KeepsCaps A] [KeepsCaps B] : KeepsCaps (TupleCons A B) where
  caps_clear r h := by
    rw [tuple_caps, tuple_caps]
    exact leAll_append (KeepsCaps.caps_clear r.head h.1) (KeepsCaps.caps_clear r.tail h.2)
end Tuple

/-! #### collapse: a hit changes nothing, a miss is a push into the inner region -/
section Collapse
variable {R V I : Type} [Region R V I] [HasEqv V] [RegionAux R] [IndexSize I] [HeapInv R]

instance : HeapInv (CollapseSequence R I) := ⟨fun r => HeapInv.CapInv r.inner⟩

omit [RegionAux R] [IndexSize I] [HeapInv R] in
theorem collapse_push_inner (r r' : CollapseSequence R I) (v : V) (i : I) (hp : push r v = some (r', i)) :
    r' = r ∨ ∃ j, push r.inner v = some (r'.inner, j) := by
  simp only [Region.push] at hp
  cases hl : r.last with
  | none =>
    simp only [hl] at hp
    cases h : push r.inner v with
    | none => simp [h] at hp
    | some p =>
      obtain ⟨in', j⟩ := p
      simp only [h, Option.some.injEq, Prod.mk.injEq] at hp
      obtain ⟨rfl, rfl⟩ := hp
      exact Or.inr ⟨j, rfl⟩
  | some li =>
    simp only [hl] at hp
    cases hu : index r.inner li with
    | none => simp [hu] at hp
    | some u =>
      simp only [hu] at hp
      split at hp
      · simp only [Option.some.injEq, Prod.mk.injEq] at hp
        exact Or.inl hp.1.symm
      · cases h : push r.inner v with
        | none => simp [h] at hp
        | some p =>
          obtain ⟨in', j⟩ := p
          simp only [h, Option.some.injEq, Prod.mk.injEq] at hp
          obtain ⟨rfl, rfl⟩ := hp
          exact Or.inr ⟨j, rfl⟩

instance [LawfulHeap R] : LawfulHeap (CollapseSequence R I) where
  cap_default := LawfulHeap.cap_default (R := R)
  cap_push r r' v i h hp := by
    rcases collapse_push_inner r r' v i hp with rfl | ⟨j, hj⟩
    · exact h
    · exact LawfulHeap.cap_push r.inner r'.inner v j h hj
  cap_clear r h := LawfulHeap.cap_clear r.inner h
  cap_reserveItems r _ h := h
  cap_reserveRegions r rs h := LawfulHeap.cap_reserveRegions r.inner (rs.map (·.inner)) h
  cap_merge rs := LawfulHeap.cap_merge (rs.map (·.inner))
  cap_clone r h := LawfulHeap.cap_clone r.inner h
  cap_cloneFrom d s hd hs := LawfulHeap.cap_cloneFrom d.inner s.inner hd hs
  heap_ok r h := LawfulHeap.heap_ok r.inner h
  used_push r r' v i h hp := by
    rcases collapse_push_inner r r' v i hp with rfl | ⟨j, hj⟩
    · exact Nat.le_refl _
    · exact LawfulHeap.used_push r.inner r'.inner v j h hj
  used_clear_le r h := LawfulHeap.used_clear_le r.inner h
instance [ClearsToDefault R] : ClearsToDefault (CollapseSequence R I) :=
  ⟨fun r h => ClearsToDefault.used_clear r.inner h⟩
instance [KeepsCaps R] : KeepsCaps (CollapseSequence R I) := ⟨fun r h => KeepsCaps.caps_clear r.inner h⟩
end Collapse

/-! #### slices: the index container, then the inner region -/
section Slice
variable {R V I O : Type} [Region R V I] [IdxCont O I] [RegionAux R] [IdxAux O] [HeapInv R] [IdxHeapInv O]

instance : HeapInv (SliceRegion R O) := ⟨fun r => IdxHeapInv.CapInv r.slices ∧ HeapInv.CapInv r.inner⟩

omit [HeapInv R] [IdxHeapInv O] in
theorem slice_heap (r : SliceRegion R O) : RegionAux.heap r = IdxAux.heap r.slices ++ RegionAux.heap r.inner := rfl
omit [HeapInv R] [IdxHeapInv O] in
theorem slice_used (r : SliceRegion R O) : totalUsed r = usedI r.slices + totalUsed r.inner :=
  usedL_append _ _
omit [HeapInv R] [IdxHeapInv O] in
theorem slice_caps (r : SliceRegion R O) : capsOf r = capsI r.slices ++ capsOf r.inner :=
  capsL_append _ _

theorem pushAll_heap [LawfulHeap R] [LawfulIdxHeap O] (inner : R) (slices : O) (vs : List V) (inner' : R) (slices' : O)
    (hi : HeapInv.CapInv inner) (hs : IdxHeapInv.CapInv slices) (hp : pushAll inner slices vs = some (inner', slices')) :
    HeapInv.CapInv inner' ∧ IdxHeapInv.CapInv slices' ∧ totalUsed inner ≤ totalUsed inner' ∧ usedI slices ≤ usedI slices' := by
  induction vs generalizing inner slices with
  | nil =>
    simp only [pushAll, Option.some.injEq, Prod.mk.injEq] at hp
    obtain ⟨rfl, rfl⟩ := hp
    exact ⟨hi, hs, Nat.le_refl _, Nat.le_refl _⟩
  | cons v vs ih =>
    simp only [pushAll] at hp
    cases h : push inner v with
    | none => simp [h] at hp
    | some p =>
      obtain ⟨in1, i⟩ := p
      simp only [h] at hp
      obtain ⟨g1, g2, g3, g4⟩ := ih in1 (IdxCont.push slices i) (LawfulHeap.cap_push inner in1 v i hi h)
        (LawfulIdxHeap.cap_push slices i hs) hp
      exact ⟨g1, g2, Nat.le_trans (LawfulHeap.used_push inner in1 v i hi h) g3,
        Nat.le_trans (LawfulIdxHeap.used_push slices i hs) g4⟩

instance [LawfulHeap R] [LawfulIdxHeap O] : LawfulHeap (SliceRegion R O) where
  cap_default := ⟨LawfulIdxHeap.cap_default (O := O), LawfulHeap.cap_default (R := R)⟩
  cap_push r r' v i h hp :=
    have hh := pushAll_heap r.inner r.slices v r'.inner r'.slices h.2 h.1 (slice_push_some r r' v i hp).1
    ⟨hh.2.1, hh.1⟩
  cap_clear r h := ⟨LawfulIdxHeap.cap_clear r.slices h.1, LawfulHeap.cap_clear r.inner h.2⟩
  cap_reserveItems r vs h := ⟨LawfulIdxHeap.cap_reserve r.slices _ h.1, LawfulHeap.cap_reserveItems r.inner _ h.2⟩
  cap_reserveRegions r rs h :=
    ⟨LawfulIdxHeap.cap_reserve r.slices _ h.1, LawfulHeap.cap_reserveRegions r.inner (rs.map (·.inner)) h.2⟩
  cap_merge rs := ⟨LawfulIdxHeap.cap_merge (rs.map (·.slices)), LawfulHeap.cap_merge (rs.map (·.inner))⟩
  cap_clone r h := ⟨LawfulIdxHeap.cap_clone r.slices h.1, LawfulHeap.cap_clone r.inner h.2⟩
  cap_cloneFrom d s hd hs :=
    ⟨LawfulIdxHeap.cap_cloneFrom d.slices s.slices hd.1 hs.1, LawfulHeap.cap_cloneFrom d.inner s.inner hd.2 hs.2⟩
  heap_ok r h p hp := by
    rw [slice_heap, List.mem_append] at hp
    rcases hp with hp | hp
    · exact LawfulIdxHeap.heap_ok r.slices h.1 p hp
    · exact LawfulHeap.heap_ok r.inner h.2 p hp
  used_push r r' v i h hp := by
    rw [slice_used, slice_used]
    have hh := pushAll_heap r.inner r.slices v r'.inner r'.slices h.2 h.1 (slice_push_some r r' v i hp).1
    omega
  used_clear_le r h := by
    rw [slice_used, slice_used]
    have h1 : usedI (IdxCont.clear r.slices) ≤ usedI r.slices := by
      rw [LawfulIdxHeap.used_clear r.slices h.1]; exact LawfulIdxHeap.used_default_le r.slices h.1
    have h2 := LawfulHeap.used_clear_le r.inner h.2
    show usedI (IdxCont.clear r.slices) + totalUsed (clear r.inner) ≤ _
    omega
instance [LawfulIdxHeap O] [ClearsToDefault R] : ClearsToDefault (SliceRegion R O) where
  used_clear r h := by
    rw [slice_used, slice_used]
    show usedI (IdxCont.clear r.slices) + totalUsed (clear r.inner) = usedI (IdxCont.default : O) + totalUsed (default : R)
    rw [LawfulIdxHeap.used_clear r.slices h.1, ClearsToDefault.used_clear r.inner h.2]
instance [LawfulIdxHeap O] [KeepsCaps R] : KeepsCaps (SliceRegion R O) where
  caps_clear r h := by
    rw [slice_caps, slice_caps]
    exact leAll_append (LawfulIdxHeap.caps_clear r.slices h.1) (KeepsCaps.caps_clear r.inner h.2)
end Slice

/-! #### consecutive index pairs: the offsets, then the inner region -/
section Consec
variable {R V O : Type} [Region R V (Nat × Nat)] [DenseRegion R] [IdxCont O Nat] [RegionAux R] [IdxAux O]
  [HeapInv R] [IdxHeapInv O]

/-- both parts satisfy their capacity invariant, and the leading offset `0` — which `default`,
`clear` and `merge_regions` write — is accounted for -/
instance : HeapInv (ConsecPairs R O) :=
  ⟨fun r => HeapInv.CapInv r.inner ∧ IdxHeapInv.CapInv r.indices ∧
    usedI (IdxCont.push (IdxCont.default : O) 0) ≤ usedI r.indices⟩

omit [HeapInv R] [IdxHeapInv O] in
theorem consec_heap (r : ConsecPairs R O) : RegionAux.heap r = IdxAux.heap r.indices ++ RegionAux.heap r.inner := rfl
omit [HeapInv R] [IdxHeapInv O] in
theorem consec_used (r : ConsecPairs R O) : totalUsed r = usedI r.indices + totalUsed r.inner :=
  usedL_append _ _
omit [HeapInv R] [IdxHeapInv O] in
theorem consec_caps (r : ConsecPairs R O) : capsOf r = capsI r.indices ++ capsOf r.inner :=
  capsL_append _ _

omit [RegionAux R] [IdxAux O] [HeapInv R] [IdxHeapInv O] in
theorem consec_push_parts (r r' : ConsecPairs R O) (v : V) (k : Nat) (hp : push r v = some (r', k)) :
    ∃ j b, push r.inner v = some (r'.inner, j) ∧ r'.indices = IdxCont.push r.indices b := by
  simp only [Region.push] at hp
  cases h : push r.inner v with
  | none => simp [h] at hp
  | some p =>
    obtain ⟨in', a, b⟩ := p
    simp only [h] at hp
    split at hp
    · simp only [Option.some.injEq, Prod.mk.injEq] at hp
      obtain ⟨rfl, rfl⟩ := hp
      exact ⟨(a, b), b, rfl, rfl⟩
    · cases hp

instance [LawfulHeap R] [LawfulIdxHeap O] : LawfulHeap (ConsecPairs R O) where
  cap_default := ⟨LawfulHeap.cap_default (R := R),
    LawfulIdxHeap.cap_push _ 0 (LawfulIdxHeap.cap_default (O := O)), Nat.le_refl _⟩
  cap_push r r' v k h hp := by
    obtain ⟨j, b, hj, hb⟩ := consec_push_parts r r' v k hp
    refine ⟨LawfulHeap.cap_push r.inner r'.inner v j h.1 hj, ?_, ?_⟩
    · rw [hb]; exact LawfulIdxHeap.cap_push r.indices b h.2.1
    · rw [hb]; exact Nat.le_trans h.2.2 (LawfulIdxHeap.used_push r.indices b h.2.1)
  cap_clear r h := ⟨LawfulHeap.cap_clear r.inner h.1,
    LawfulIdxHeap.cap_push _ 0 (LawfulIdxHeap.cap_clear r.indices h.2.1),
    Nat.le_of_eq (LawfulIdxHeap.used_clear_push r.indices 0 h.2.1).symm⟩
  cap_reserveItems r vs h := ⟨LawfulHeap.cap_reserveItems r.inner vs h.1, h.2.1, h.2.2⟩
  cap_reserveRegions r rs h := ⟨LawfulHeap.cap_reserveRegions r.inner (rs.map (·.inner)) h.1, h.2.1, h.2.2⟩
  cap_merge rs := ⟨LawfulHeap.cap_merge (rs.map (·.inner)),
    LawfulIdxHeap.cap_push _ 0 (LawfulIdxHeap.cap_default (O := O)), Nat.le_refl _⟩
  cap_clone r h := ⟨LawfulHeap.cap_clone r.inner h.1, LawfulIdxHeap.cap_clone r.indices h.2.1, by
    show _ ≤ usedI (IdxAux.clone r.indices)
    rw [LawfulIdxHeap.used_clone r.indices h.2.1]; exact h.2.2⟩
  cap_cloneFrom d s hd hs := ⟨LawfulHeap.cap_cloneFrom d.inner s.inner hd.1 hs.1,
    LawfulIdxHeap.cap_cloneFrom d.indices s.indices hd.2.1 hs.2.1, by
    show _ ≤ usedI (IdxAux.cloneFrom d.indices s.indices)
    rw [LawfulIdxHeap.used_cloneFrom d.indices s.indices hd.2.1 hs.2.1]; exact hs.2.2⟩
  heap_ok r h p hp := by
    rw [consec_heap, List.mem_append] at hp
    rcases hp with hp | hp
    · exact LawfulIdxHeap.heap_ok r.indices h.2.1 p hp
    · exact LawfulHeap.heap_ok r.inner h.1 p hp
  used_push r r' v k h hp := by
    rw [consec_used, consec_used]
    obtain ⟨j, b, hj, hb⟩ := consec_push_parts r r' v k hp
    have h1 := LawfulHeap.used_push r.inner r'.inner v j h.1 hj
    have h2 := LawfulIdxHeap.used_push r.indices b h.2.1
    rw [hb]; omega
  used_clear_le r h := by
    rw [consec_used, consec_used]
    have h1 := LawfulIdxHeap.used_clear_push r.indices 0 h.2.1
    have h2 := LawfulHeap.used_clear_le r.inner h.1
    have h3 := h.2.2
    show usedI (IdxCont.push (IdxCont.clear r.indices) 0) + totalUsed (clear r.inner) ≤ _
    omega
instance [LawfulIdxHeap O] [ClearsToDefault R] : ClearsToDefault (ConsecPairs R O) where
  used_clear r h := by
    rw [consec_used, consec_used]
    show usedI (IdxCont.push (IdxCont.clear r.indices) 0) + totalUsed (clear r.inner)
      = usedI (IdxCont.push (IdxCont.default : O) 0) + totalUsed (default : R)
    rw [LawfulIdxHeap.used_clear_push r.indices 0 h.2.1, ClearsToDefault.used_clear r.inner h.1]
instance [LawfulIdxHeap O] [KeepsCaps R] : KeepsCaps (ConsecPairs R O) where
  caps_clear r h := by
    rw [consec_caps, consec_caps]
    refine leAll_append ?_ (KeepsCaps.caps_clear r.inner h.1)
    exact leAll_trans (LawfulIdxHeap.caps_clear r.indices h.2.1)
      (LawfulIdxHeap.caps_push _ 0 (LawfulIdxHeap.cap_clear r.indices h.2.1))
end Consec

/-! #### FlatStack: the region, then the index container -/
section Stack
variable {R V I S : Type} [Region R V I] [IdxCont S I] [RegionAux R] [IdxAux S] [HeapInv R] [IdxHeapInv S]

instance : HeapInv (FlatStack R S) := ⟨fun fs => HeapInv.CapInv fs.region ∧ IdxHeapInv.CapInv fs.indices⟩

omit [HeapInv R] [IdxHeapInv S] in
theorem stack_heap (fs : FlatStack R S) : RegionAux.heap fs = RegionAux.heap fs.region ++ IdxAux.heap fs.indices := rfl
omit [HeapInv R] [IdxHeapInv S] in
theorem stack_used (fs : FlatStack R S) : totalUsed fs = totalUsed fs.region + usedI fs.indices :=
  usedL_append _ _
omit [HeapInv R] [IdxHeapInv S] in
theorem stack_caps (fs : FlatStack R S) : capsOf fs = capsOf fs.region ++ capsI fs.indices :=
  capsL_append _ _

omit [RegionAux R] [IdxAux S] [HeapInv R] [IdxHeapInv S] in
theorem stack_push_parts (fs fs' : FlatStack R S) (v : V) (k : Nat) (hp : push fs v = some (fs', k)) :
    ∃ i, push fs.region v = some (fs'.region, i) ∧ fs'.indices = IdxCont.push fs.indices i := by
  simp only [Region.push, FlatStack.copy] at hp
  cases h : push fs.region v with
  | none => simp [h] at hp
  | some p =>
    obtain ⟨r', i⟩ := p
    simp only [h, Option.map_some, Option.some.injEq, Prod.mk.injEq] at hp
    obtain ⟨rfl, rfl⟩ := hp
    exact ⟨i, rfl, rfl⟩

instance [LawfulHeap R] [LawfulIdxHeap S] : LawfulHeap (FlatStack R S) where
  cap_default := ⟨LawfulHeap.cap_default (R := R), LawfulIdxHeap.cap_default (O := S)⟩
  cap_push fs fs' v k h hp := by
    obtain ⟨i, hi, hb⟩ := stack_push_parts fs fs' v k hp
    exact ⟨LawfulHeap.cap_push fs.region fs'.region v i h.1 hi, by rw [hb]; exact LawfulIdxHeap.cap_push fs.indices i h.2⟩
  cap_clear fs h := ⟨LawfulHeap.cap_clear fs.region h.1, LawfulIdxHeap.cap_clear fs.indices h.2⟩
  cap_reserveItems fs vs h := ⟨LawfulHeap.cap_reserveItems fs.region vs h.1, h.2⟩
  cap_reserveRegions fs rs h := ⟨LawfulHeap.cap_reserveRegions fs.region (rs.map (·.region)) h.1, h.2⟩
  cap_merge rs := ⟨LawfulHeap.cap_merge (rs.map (·.region)), LawfulIdxHeap.cap_merge (rs.map (·.indices))⟩
  cap_clone fs h := ⟨LawfulHeap.cap_clone fs.region h.1, LawfulIdxHeap.cap_clone fs.indices h.2⟩
  cap_cloneFrom d s hd hs :=
    ⟨LawfulHeap.cap_cloneFrom d.region s.region hd.1 hs.1, LawfulIdxHeap.cap_cloneFrom d.indices s.indices hd.2 hs.2⟩
  heap_ok fs h p hp := by
    rw [stack_heap, List.mem_append] at hp
    rcases hp with hp | hp
    · exact LawfulHeap.heap_ok fs.region h.1 p hp
    · exact LawfulIdxHeap.heap_ok fs.indices h.2 p hp
  used_push fs fs' v k h hp := by
    rw [stack_used, stack_used]
    obtain ⟨i, hi, hb⟩ := stack_push_parts fs fs' v k hp
    have h1 := LawfulHeap.used_push fs.region fs'.region v i h.1 hi
    have h2 := LawfulIdxHeap.used_push fs.indices i h.2
    rw [hb]; omega
  used_clear_le fs h := by
    rw [stack_used, stack_used]
    have h1 : usedI (IdxCont.clear fs.indices) ≤ usedI fs.indices := by
      rw [LawfulIdxHeap.used_clear fs.indices h.2]; exact LawfulIdxHeap.used_default_le fs.indices h.2
    have h2 := LawfulHeap.used_clear_le fs.region h.1
    show totalUsed (clear fs.region) + usedI (IdxCont.clear fs.indices) ≤ _
    omega
instance [LawfulIdxHeap S] [ClearsToDefault R] : ClearsToDefault (FlatStack R S) where
  used_clear fs h := by
    rw [stack_used, stack_used]
    show totalUsed (clear fs.region) + usedI (IdxCont.clear fs.indices) = totalUsed (default : R) + usedI (IdxCont.default : S)
    rw [LawfulIdxHeap.used_clear fs.indices h.2, ClearsToDefault.used_clear fs.region h.1]
instance [LawfulIdxHeap S] [KeepsCaps R] : KeepsCaps (FlatStack R S) where
  caps_clear fs h := by
    rw [stack_caps, stack_caps]
    exact leAll_append (KeepsCaps.caps_clear fs.region h.1) (LawfulIdxHeap.caps_clear fs.indices h.2)

/-- `FlatStack::reserve` and `with_capacity` keep / establish the capacity invariant -/
theorem FlatStack.reserve_capInv [LawfulIdxHeap S] (fs : FlatStack R S) (n : Nat) (h : HeapInv.CapInv fs) :
    HeapInv.CapInv (fs.reserve n) := ⟨h.1, LawfulIdxHeap.cap_reserve fs.indices n h.2⟩
theorem FlatStack.withCapacity_capInv [LawfulHeap R] [LawfulIdxHeap S] (n : Nat) :
    HeapInv.CapInv (FlatStack.withCapacity n : FlatStack R S) :=
  ⟨LawfulHeap.cap_default (R := R), LawfulIdxHeap.cap_withCapacity n⟩
end Stack

/-! #### columns: the column vector, every column, then the row offsets -/
section Columns
variable {R V I O : Type} [Region R V I] [IdxCont O Nat] [RegionAux R] [IdxAux O] [ElemSize I]
  [HeapInv R] [IdxHeapInv O]

instance : HeapInv (ColumnsRegion R I O) :=
  ⟨fun r => HeapInv.CapInv r.indices ∧ ∀ c ∈ r.cols, HeapInv.CapInv c⟩

omit [HeapInv R] [IdxHeapInv O] in
theorem columns_heap (r : ColumnsRegion R I O) :
    RegionAux.heap r = [(r.cols.length * RegionAux.selfSize R, r.cols.length * RegionAux.selfSize R)] ++
      (r.cols.map RegionAux.heap).flatten ++ RegionAux.heap r.indices := rfl

omit [IdxCont O Nat] [IdxAux O] [ElemSize I] [HeapInv R] [IdxHeapInv O] in
theorem usedL_cols (cs : List R) : usedL ((cs.map RegionAux.heap).flatten) = (cs.map totalUsed).sum := by
  induction cs with
  | nil => rfl
  | cons c cs ih => simp only [List.map_cons, List.flatten_cons, usedL_append, ih, List.sum_cons]; rfl

omit [IdxCont O Nat] [IdxAux O] [ElemSize I] [HeapInv R] [IdxHeapInv O] in
theorem capsL_cols (cs : List R) : capsL ((cs.map RegionAux.heap).flatten) = (cs.map capsOf).flatten := by
  induction cs with
  | nil => rfl
  | cons c cs ih => simp only [List.map_cons, List.flatten_cons, capsL_append, ih]; rfl

omit [HeapInv R] [IdxHeapInv O] in
theorem columns_used (r : ColumnsRegion R I O) :
    totalUsed r = r.cols.length * RegionAux.selfSize R + (r.cols.map totalUsed).sum + totalUsed r.indices := by
  rw [totalUsed, columns_heap, usedL_append, usedL_append, usedL_cols]
  simp [usedL, totalUsed]

omit [HeapInv R] [IdxHeapInv O] in
theorem columns_caps (r : ColumnsRegion R I O) :
    capsOf r = [r.cols.length * RegionAux.selfSize R] ++ (r.cols.map capsOf).flatten ++ capsOf r.indices := by
  rw [capsOf, columns_heap, capsL_append, capsL_append, capsL_cols]
  simp [capsL, capsOf]

omit [IdxCont O Nat] [IdxAux O] [ElemSize I] [IdxHeapInv O] in
theorem pushRow_heap [LawfulHeap R] (cs : List R) (vs : List V) (cs' : List R) (is : List I)
    (hc : ∀ c ∈ cs, HeapInv.CapInv c) (hp : pushRow cs vs = some (cs', is)) :
    (∀ c ∈ cs', HeapInv.CapInv c) ∧ cs'.length = cs.length ∧
      (cs.map totalUsed).sum ≤ (cs'.map totalUsed).sum := by
  induction vs generalizing cs cs' is with
  | nil =>
    simp only [pushRow_nil, Option.some.injEq, Prod.mk.injEq] at hp
    obtain ⟨rfl, rfl⟩ := hp
    exact ⟨hc, rfl, Nat.le_refl _⟩
  | cons v vs ih =>
    cases cs with
    | nil => simp [pushRow] at hp
    | cons c cs =>
      simp only [pushRow] at hp
      cases h1 : push c v with
      | none => simp [h1] at hp
      | some p =>
        obtain ⟨c', i⟩ := p
        simp only [h1] at hp
        cases h2 : pushRow cs vs with
        | none => simp [h2] at hp
        | some q =>
          obtain ⟨cs1, is1⟩ := q
          simp only [h2, Option.some.injEq, Prod.mk.injEq] at hp
          obtain ⟨rfl, rfl⟩ := hp
          obtain ⟨g1, g2, g3⟩ := ih cs cs1 is1 (fun x hx => hc x (by simp [hx])) h2
          have hcc := hc c (by simp)
          refine ⟨?_, by simp [g2], ?_⟩
          · intro x hx
            simp only [List.mem_cons] at hx
            rcases hx with rfl | hx
            · exact LawfulHeap.cap_push c x v i hcc h1
            · exact g1 x hx
          · have := LawfulHeap.used_push c c' v i hcc h1
            simp only [List.map_cons, List.sum_cons]
            omega

omit [IdxCont O Nat] [IdxAux O] [ElemSize I] [IdxHeapInv O] in
theorem padCols_capInv [LawfulHeap R] (cs : List R) (n : Nat) (hc : ∀ c ∈ cs, HeapInv.CapInv c) :
    ∀ c ∈ padCols cs n, HeapInv.CapInv c := by
  intro c h
  simp only [padCols, List.mem_append, List.mem_replicate] at h
  rcases h with h | ⟨_, rfl⟩
  · exact hc c h
  · exact LawfulHeap.cap_default

omit [IdxCont O Nat] [IdxAux O] [ElemSize I] [HeapInv R] [IdxHeapInv O] in
theorem padCols_used (cs : List R) (n : Nat) :
    cs.length ≤ (padCols cs n).length ∧ (cs.map totalUsed).sum ≤ ((padCols cs n).map totalUsed).sum := by
  simp only [padCols, List.length_append, List.map_append, List.sum_append]
  omega

omit [IdxCont O Nat] [IdxAux O] [ElemSize I] [IdxHeapInv O] in
theorem cols_caps_clear [KeepsCaps R] (cs : List R) (hc : ∀ c ∈ cs, HeapInv.CapInv c) :
    LeAll ((cs.map capsOf).flatten) (((cs.map clear).map capsOf).flatten) := by
  induction cs with
  | nil => exact List.Forall₂.nil
  | cons c cs ih =>
    simp only [List.map_cons, List.flatten_cons]
    exact leAll_append (KeepsCaps.caps_clear c (hc c (by simp))) (ih fun x hx => hc x (by simp [hx]))

omit [IdxCont O Nat] [IdxAux O] [ElemSize I] [IdxHeapInv O] in
theorem cols_used_clear_le [LawfulHeap R] (cs : List R) (hc : ∀ c ∈ cs, HeapInv.CapInv c) :
    ((cs.map clear).map totalUsed).sum ≤ (cs.map totalUsed).sum := by
  induction cs with
  | nil => exact Nat.le_refl _
  | cons c cs ih =>
    have h1 := LawfulHeap.used_clear_le c (hc c (by simp))
    have h2 := ih fun x hx => hc x (by simp [hx])
    simp only [List.map_cons, List.sum_cons]
    omega

instance [LawfulHeap R] [LawfulIdxHeap O] : LawfulHeap (ColumnsRegion R I O) where
  cap_default := ⟨LawfulHeap.cap_default (R := ConsecPairs (OwnedRegion I) O), fun c hc => nomatch hc⟩
  cap_push r r' row k h hp := by
    obtain ⟨is, h1, h2⟩ := columns_push_some r r' row k hp
    exact ⟨LawfulHeap.cap_push r.indices r'.indices is k h.1 h2,
      (pushRow_heap _ row r'.cols is (padCols_capInv r.cols row.length h.2) h1).1⟩
  cap_clear r h := ⟨LawfulHeap.cap_clear r.indices h.1, by
    intro c hc
    simp only [Region.clear, List.mem_map] at hc
    obtain ⟨x, hx, rfl⟩ := hc
    exact LawfulHeap.cap_clear x (h.2 x hx)⟩
  cap_reserveItems r _ h := h
  cap_reserveRegions r rs h := ⟨h.1, by
    intro c hc
    obtain ⟨k, _, x, hx, rfl⟩ := mem_zipWith_elim _ _ _ _ hc
    exact LawfulHeap.cap_reserveRegions x _ (padCols_capInv r.cols _ h.2 x hx)⟩
  cap_merge rs := ⟨LawfulHeap.cap_merge (rs.map (·.indices)), by
    intro c hc
    simp only [RegionAux.mergeRegions, List.mem_map] at hc
    obtain ⟨k, _, rfl⟩ := hc
    exact LawfulHeap.cap_merge _⟩
  cap_clone r h := ⟨LawfulHeap.cap_clone r.indices h.1, by
    intro c hc
    simp only [RegionAux.clone, List.mem_map] at hc
    obtain ⟨x, hx, rfl⟩ := hc
    exact LawfulHeap.cap_clone x (h.2 x hx)⟩
  cap_cloneFrom d s hd hs := ⟨LawfulHeap.cap_cloneFrom d.indices s.indices hd.1 hs.1, by
    intro c hc
    simp only [RegionAux.cloneFrom, colsCloneFrom, List.mem_append, List.mem_map] at hc
    rcases hc with hc | ⟨x, hx, rfl⟩
    · obtain ⟨a, ha, b, hb, rfl⟩ := mem_zipWith_elim _ _ _ _ hc
      exact LawfulHeap.cap_cloneFrom a b (hd.2 a (List.mem_of_mem_take ha)) (hs.2 b hb)
    · exact LawfulHeap.cap_clone x (hs.2 x (List.mem_of_mem_drop hx))⟩
  heap_ok r h p hp := by
    simp only [columns_heap, List.mem_append, List.mem_singleton, List.mem_flatten, List.mem_map] at hp
    rcases hp with (rfl | ⟨l, ⟨c, hc, rfl⟩, hp⟩) | hp
    · exact Nat.le_refl _
    · exact LawfulHeap.heap_ok c (h.2 c hc) p hp
    · exact LawfulHeap.heap_ok r.indices h.1 p hp
  used_push r r' row k h hp := by
    rw [columns_used, columns_used]
    obtain ⟨is, h1, h2⟩ := columns_push_some r r' row k hp
    obtain ⟨_, g2, g3⟩ := pushRow_heap _ row r'.cols is (padCols_capInv r.cols row.length h.2) h1
    obtain ⟨p1, p2⟩ := padCols_used r.cols row.length
    have h3 := LawfulHeap.used_push r.indices r'.indices is k h.1 h2
    have h4 : r.cols.length * RegionAux.selfSize R ≤ r'.cols.length * RegionAux.selfSize R :=
      Nat.mul_le_mul_right _ (by omega)
    omega
  used_clear_le r h := by
    rw [columns_used, columns_used]
    have h1 := cols_used_clear_le r.cols h.2
    have h2 := LawfulHeap.used_clear_le r.indices h.1
    show (r.cols.map clear).length * RegionAux.selfSize R + ((r.cols.map clear).map totalUsed).sum
      + totalUsed (clear r.indices) ≤ _
    rw [List.length_map]
    omega

instance [LawfulIdxHeap O] [KeepsCaps R] : KeepsCaps (ColumnsRegion R I O) where
  caps_clear r h := by
    rw [columns_caps, columns_caps]
    refine leAll_append (leAll_append ?_ ?_) (KeepsCaps.caps_clear r.indices h.1)
    · exact leAll_of_eq (by simp [Region.clear])
    · exact cols_caps_clear r.cols h.2

omit [HeapInv R] [IdxHeapInv O] in
/-- what a cleared columns region still accounts: the column vector itself, every cleared column,
and the cleared row offsets -/
theorem columns_used_clear (r : ColumnsRegion R I O) :
    totalUsed (clear r) = r.cols.length * RegionAux.selfSize R + (r.cols.map fun c => totalUsed (clear c)).sum
      + totalUsed (clear r.indices) := by
  rw [columns_used]
  show (r.cols.map clear).length * RegionAux.selfSize R + ((r.cols.map clear).map totalUsed).sum
      + totalUsed (clear r.indices) = _
  rw [List.length_map, List.map_map]
  rfl

/-- … and when the columns clear to their default accounting, that is the structural bytes only -/
theorem columns_used_clear_default [LawfulIdxHeap O] [ClearsToDefault R] (r : ColumnsRegion R I O) (h : HeapInv.CapInv r) :
    totalUsed (clear r) = r.cols.length * (RegionAux.selfSize R + totalUsed (default : R))
      + totalUsed (default : ConsecPairs (OwnedRegion I) O) := by
  rw [columns_used_clear, ClearsToDefault.used_clear r.indices h.1]
  have : (r.cols.map fun c => totalUsed (clear c)).sum = r.cols.length * totalUsed (default : R) := by
    have hc := h.2
    generalize r.cols = cs at hc
    induction cs with
    | nil => simp
    | cons c cs ih =>
      simp only [List.map_cons, List.sum_cons, List.length_cons]
      rw [ih fun x hx => hc x (by simp [hx]), ClearsToDefault.used_clear c (hc c (by simp)), Nat.succ_mul]
      omega
  rw [this, Nat.mul_add]
end Columns

/-! #### Huffman containers: `heap_size` is `todo!()` in the crate, the model reports nothing -/
instance : HeapInv Huff.Container := ⟨fun _ => True⟩
instance : LawfulHeap Huff.Container where
  cap_default := trivial
  cap_push _ _ _ _ _ _ := trivial
  cap_clear _ _ := trivial
  cap_reserveItems _ _ _ := trivial
  cap_reserveRegions _ _ _ := trivial
  cap_merge _ := trivial
  cap_clone _ _ := trivial
  cap_cloneFrom _ _ _ _ := trivial
  heap_ok _ _ _ hp := nomatch hp
  used_push _ _ _ _ _ _ := Nat.le_refl _
  used_clear_le _ _ := Nat.le_refl _
instance : ClearsToDefault Huff.Container := ⟨fun _ _ => rfl⟩
instance : KeepsCaps Huff.Container := ⟨fun _ _ => List.Forall₂.nil⟩

instance : HeapInv HuffU8 := ⟨fun _ => True⟩
instance : LawfulHeap HuffU8 where
  cap_default := trivial
  cap_push _ _ _ _ _ _ := trivial
  cap_clear _ _ := trivial
  cap_reserveItems _ _ _ := trivial
  cap_reserveRegions _ _ _ := trivial
  cap_merge _ := trivial
  cap_clone _ _ := trivial
  cap_cloneFrom _ _ _ _ := trivial
  heap_ok _ _ _ hp := nomatch hp
  used_push _ _ _ _ _ _ := Nat.le_refl _
  used_clear_le _ _ := Nat.le_refl _
instance : ClearsToDefault HuffU8 := ⟨fun _ _ => rfl⟩
instance : KeepsCaps HuffU8 := ⟨fun _ _ => List.Forall₂.nil⟩

/-! #### the dictionary-coded region

`Model/Coded.lean` reports the byte store as `(len, len)`: its capacity is not modelled, so `clear`
(which in the model returns `default`) makes the reported capacity shrink and there is no `KeepsCaps`
instance. Soundness, monotonicity and the accounting of `clear` hold. -/
instance : HeapInv Codec.Region := ⟨fun _ => True⟩

theorem codec_heap (r : Codec.Region) : RegionAux.heap r = [(r.inner.length, r.inner.length)] := rfl
theorem codec_used (r : Codec.Region) : totalUsed r = r.inner.length := by
  simp [totalUsed, usedL, codec_heap]

instance : LawfulHeap Codec.Region where
  cap_default := trivial
  cap_push _ _ _ _ _ _ := trivial
  cap_clear _ _ := trivial
  cap_reserveItems _ _ _ := trivial
  cap_reserveRegions _ _ _ := trivial
  cap_merge _ := trivial
  cap_clone _ _ := trivial
  cap_cloneFrom _ _ _ _ := trivial
  heap_ok r _ p hp := by
    rw [codec_heap, List.mem_singleton] at hp
    subst hp
    exact Nat.le_refl _
  used_push r r' v i _ hp := by
    rw [codec_used, codec_used]
    simp only [Region.push, Codec.Region.push] at hp
    cases h : r.codec.encode' v with
    | none => simp [h] at hp
    | some p =>
      obtain ⟨s, d⟩ := p
      simp only [h, Option.some.injEq, Prod.mk.injEq] at hp
      obtain ⟨rfl, _⟩ := hp
      simp
  used_clear_le r _ := by
    rw [codec_used, codec_used]
    exact Nat.zero_le _
instance : ClearsToDefault Codec.Region := ⟨fun _ _ => rfl⟩

/-! ### lower bound: what is stored is accounted

`stored` is computed from the *contents* (lengths of the data lists and element sizes), never from
`heap`; `stored_le` says the reported used bytes cover it: no vector holding payload or index
entries is forgotten by `heap_size`. -/

/-- bytes held by the vectors of an index container -/
class IdxStored (O : Type) {T : outParam Type} [IdxCont O T] [IdxAux O] [IdxHeapInv O] where
  stored : O → Nat
  stored_le : ∀ c : O, IdxHeapInv.CapInv c → stored c ≤ usedI c

instance {C T : Type} [IdxCont C T] [HasStores C] [LawfulStores C] : IdxStored (Capd C) where
  stored c := (List.zipWith (· * ·) (HasStores.lens c.a) (HasStores.sizes C)).sum
  stored_le c h := Nat.le_of_eq (capd_usedI c h).symm

/-- payload bytes plus index entries held by a region, by recursion over its structure -/
class Stored (R : Type) {V I : outParam Type} [Region R V I] [RegionAux R] [HeapInv R] where
  stored : R → Nat
  stored_le : ∀ r : R, HeapInv.CapInv r → stored r ≤ totalUsed r

instance (T : Type) : Stored (MirrorRegion T) := ⟨fun _ => 0, fun _ _ => Nat.zero_le _⟩
instance (T : Type) [ElemSize T] : Stored (OwnedRegion T) :=
  ⟨fun r => r.slices.data.length * ElemSize.bytes T, fun r _ => Nat.le_of_eq (owned_used r).symm⟩
instance (T : Type) [ElemSize T] : Stored (VecRegion T) :=
  ⟨fun r => r.v.data.length * ElemSize.bytes T, fun r _ => Nat.le_of_eq (vec_used r).symm⟩
instance {R I : Type} [Region R (List UInt8) I] [RegionAux R] [HeapInv R] [Stored R] : Stored (StringRegion R) :=
  ⟨fun r => Stored.stored r.inner, fun r h => Stored.stored_le r.inner h⟩
instance {R V I : Type} [Region R V I] [RegionAux R] [HeapInv R] [Stored R] : Stored (OptionRegion R) :=
  ⟨fun r => Stored.stored r.inner, fun r h => Stored.stored_le r.inner h⟩
instance {T VT IT E VE IE : Type} [Region T VT IT] [Region E VE IE] [RegionAux T] [RegionAux E]
    [HeapInv T] [HeapInv E] [Stored T] [Stored E] : Stored (ResultRegion T E) where
  stored r := Stored.stored r.oks + Stored.stored r.errs
  stored_le r h := by
    rw [result_used]; exact Nat.add_le_add (Stored.stored_le r.oks h.1) (Stored.stored_le r.errs h.2)
instance : Stored TupleNil := ⟨fun _ => 0, fun _ _ => Nat.zero_le _⟩
instance {A VA IA B VB IB : Type} [Region A VA IA] [Region B VB IB] [RegionAux A] [RegionAux B]
    [HeapInv A] [HeapInv B] [Stored A] [Stored B] : Stored (TupleCons A B) where
  stored r := Stored.stored r.head + Stored.stored r.tail
  stored_le r h := by
    rw [tuple_used]; exact Nat.add_le_add (Stored.stored_le r.head h.1) (Stored.stored_le r.tail h.2)
instance {R V I : Type} [Region R V I] [HasEqv V] [RegionAux R] [IndexSize I] [HeapInv R] [Stored R] :
    Stored (CollapseSequence R I) :=
  ⟨fun r => Stored.stored r.inner, fun r h => Stored.stored_le r.inner h⟩
instance {R V I O : Type} [Region R V I] [IdxCont O I] [RegionAux R] [IdxAux O] [HeapInv R] [IdxHeapInv O]
    [Stored R] [IdxStored O] : Stored (SliceRegion R O) where
  stored r := IdxStored.stored r.slices + Stored.stored r.inner
  stored_le r h := by
    rw [slice_used]; exact Nat.add_le_add (IdxStored.stored_le r.slices h.1) (Stored.stored_le r.inner h.2)
instance {R V O : Type} [Region R V (Nat × Nat)] [DenseRegion R] [IdxCont O Nat] [RegionAux R] [IdxAux O]
    [HeapInv R] [IdxHeapInv O] [Stored R] [IdxStored O] : Stored (ConsecPairs R O) where
  stored r := IdxStored.stored r.indices + Stored.stored r.inner
  stored_le r h := by
    rw [consec_used]; exact Nat.add_le_add (IdxStored.stored_le r.indices h.2.1) (Stored.stored_le r.inner h.1)
instance {R V I S : Type} [Region R V I] [IdxCont S I] [RegionAux R] [IdxAux S] [HeapInv R] [IdxHeapInv S]
    [Stored R] [IdxStored S] : Stored (FlatStack R S) where
  stored fs := Stored.stored fs.region + IdxStored.stored fs.indices
  stored_le fs h := by
    rw [stack_used]; exact Nat.add_le_add (Stored.stored_le fs.region h.1) (IdxStored.stored_le fs.indices h.2)
instance {R V I O : Type} [Region R V I] [IdxCont O Nat] [RegionAux R] [IdxAux O] [ElemSize I]
    [HeapInv R] [IdxHeapInv O] [Stored R] [IdxStored O] : Stored (ColumnsRegion R I O) where
  stored r := r.cols.length * RegionAux.selfSize R + (r.cols.map Stored.stored).sum + Stored.stored r.indices
  stored_le r h := by
    rw [columns_used]
    have h1 := Stored.stored_le r.indices h.1
    have h2 : (r.cols.map Stored.stored).sum ≤ (r.cols.map totalUsed).sum := by
      have hc := h.2
      generalize r.cols = cs at hc
      induction cs with
      | nil => exact Nat.le_refl _
      | cons c cs ih =>
        have := Stored.stored_le c (hc c (by simp))
        have := ih fun x hx => hc x (by simp [hx])
        simp only [List.map_cons, List.sum_cons]
        omega
    omega
instance : Stored Huff.Container := ⟨fun _ => 0, fun _ _ => Nat.zero_le _⟩
instance : Stored HuffU8 := ⟨fun _ => 0, fun _ _ => Nat.zero_le _⟩
instance : Stored Codec.Region := ⟨fun r => r.inner.length, fun r _ => Nat.le_of_eq (codec_used r).symm⟩

end FC
