import FlatModel.Model.Wrappers
import FlatModel.Proofs.Region
/-! Laws of `CollapseSequence` (C01/C02/C08 core, C11). -/
namespace FC
open Region

section
variable {R V I : Type} [Region R V I] [HasEqv V] [LawfulRegion R]

/-- what `push` does, in two cases: a *hit* returns the remembered index and changes nothing;
a *miss* pushes into the inner region and remembers the new index. (C11) -/
theorem collapse_push_cases (r : CollapseSequence R I) (v : V) (hi : Inv r) :
    (∃ li u, r.last = some li ∧ index r.inner li = some u ∧ HasEqv.eqv v u = true ∧
        push r v = some (r, li)) ∨
    ((∀ li u, r.last = some li → index r.inner li = some u → HasEqv.eqv v u = false) ∧
        push r v = (push r.inner v).map fun p => (⟨p.1, some p.2⟩, p.2)) := by
  obtain ⟨hin, hl⟩ := hi
  cases hlast : r.last with
  | none =>
    right
    refine ⟨(by intro li u h; cases h), ?_⟩
    simp only [Region.push, hlast]
    cases push r.inner v with
    | none => rfl
    | some p => rfl
  | some li =>
    obtain ⟨u, hu⟩ := LawfulRegion.valid_reads r.inner li hin (hl li hlast)
    by_cases he : HasEqv.eqv v u = true
    · left
      exact ⟨li, u, rfl, hu, he, by simp [Region.push, hlast, hu, he]⟩
    · right
      refine ⟨?_, ?_⟩
      · intro li' u' h1 h2
        cases h1
        rw [hu] at h2; cases h2
        simpa using he
      · simp only [Region.push, hlast, hu, he]
        cases push r.inner v with
        | none => rfl
        | some p => rfl

instance : LawfulRegion (CollapseSequence R I) where
  inv_default := ⟨LawfulRegion.inv_default (R := R), (by intro li h; cases h)⟩
  push_ok r v hi ha := by
    rcases collapse_push_cases r v hi with ⟨li, u, _, hu, he, hp⟩ | ⟨hmiss, hp⟩
    · exact ⟨r, li, hp, u, hu, Or.inr he⟩
    · have hain : Accepts r.inner v := by
        rcases ha with ⟨li, u, h1, h2, h3⟩ | h
        · rw [hmiss li u h1 h2] at h3; cases h3
        · exact h
      obtain ⟨in', i, hpi, v', hr, hs⟩ := LawfulRegion.push_ok r.inner v hi.1 hain
      exact ⟨⟨in', some i⟩, i, by rw [hp, hpi]; rfl, v', hr, Or.inl hs⟩
  push_refuses r v hi hna := by
    rcases collapse_push_cases r v hi with ⟨li, u, h1, hu, he, _⟩ | ⟨_, hp⟩
    · exact absurd (Or.inl ⟨li, u, h1, hu, he⟩) hna
    · rw [hp, LawfulRegion.push_refuses r.inner v hi.1 (fun h => hna (Or.inr h))]; rfl
  push_inv r r' v i hi hp := by
    rcases collapse_push_cases r v hi with ⟨li, u, h1, _, _, hp'⟩ | ⟨_, hp'⟩
    · rw [hp'] at hp
      simp only [Option.some.injEq, Prod.mk.injEq] at hp
      obtain ⟨rfl, rfl⟩ := hp
      exact ⟨hi, hi.2 li h1⟩
    · rw [hp'] at hp
      simp only [Option.map_eq_some_iff] at hp
      obtain ⟨⟨in', i'⟩, hpi, h⟩ := hp
      cases h
      obtain ⟨h1, h2⟩ := LawfulRegion.push_inv r.inner in' v i' hi.1 hpi
      exact ⟨⟨h1, (by intro li h; cases h; exact h2)⟩, h2⟩
  frame r r' v i j hi hv hp := by
    rcases collapse_push_cases r v hi with ⟨li, u, _, _, _, hp'⟩ | ⟨_, hp'⟩
    · rw [hp'] at hp
      simp only [Option.some.injEq, Prod.mk.injEq] at hp
      obtain ⟨rfl, rfl⟩ := hp
      exact ⟨hv, rfl⟩
    · rw [hp'] at hp
      simp only [Option.map_eq_some_iff] at hp
      obtain ⟨⟨in', i'⟩, hpi, h⟩ := hp
      cases h
      exact LawfulRegion.frame r.inner in' v i' j hi.1 hv hpi
  valid_reads r j hi hv := LawfulRegion.valid_reads r.inner j hi.1 hv
  clear_inv r hi := ⟨LawfulRegion.clear_inv r.inner hi.1, (by intro li h; cases h)⟩
  clear_sim r hi := ⟨LawfulRegion.clear_sim r.inner hi.1, rfl⟩
  sim_refl r hi := ⟨LawfulRegion.sim_refl r.inner hi.1, rfl⟩
  sim_push a b v hs ha hb := by
    obtain ⟨hsin, hsl⟩ := hs
    rcases collapse_push_cases a v ha with ⟨li, u, h1, hu, he, hpa⟩ | ⟨hmiss, hpa⟩
    · -- hit on `a`: `b` reads the same remembered item
      have hvl := ha.2 li h1
      have hub : index b.inner li = some u := by
        rw [← (LawfulRegion.sim_index a.inner b.inner li hsin ha.1 hb.1).2 hvl]; exact hu
      have hpb : push b v = some (b, li) := by
        simp [Region.push, ← hsl, h1, hub, he]
      exact Or.inr ⟨a, b, li, hpa, hpb, hsin, hsl⟩
    · have hmissb : ∀ li u, b.last = some li → index b.inner li = some u → HasEqv.eqv v u = false := by
        intro li u h1 h2
        have h1a : a.last = some li := by rw [hsl]; exact h1
        have hvl := ha.2 li h1a
        have := (LawfulRegion.sim_index a.inner b.inner li hsin ha.1 hb.1).2 hvl
        exact hmiss li u h1a (by rw [this]; exact h2)
      have hpb : push b v = (push b.inner v).map fun p => (⟨p.1, some p.2⟩, p.2) := by
        rcases collapse_push_cases b v hb with ⟨li, u, h1, hu, he, _⟩ | ⟨_, h⟩
        · rw [hmissb li u h1 hu] at he; cases he
        · exact h
      rcases LawfulRegion.sim_push a.inner b.inner v hsin ha.1 hb.1 with ⟨h1, h2⟩ | ⟨a', b', i, h1, h2, h3⟩
      · exact Or.inl ⟨by rw [hpa, h1]; rfl, by rw [hpb, h2]; rfl⟩
      · exact Or.inr ⟨⟨a', some i⟩, ⟨b', some i⟩, i, by rw [hpa, h1]; rfl, by rw [hpb, h2]; rfl, h3, rfl⟩
  sim_index a b i hs ha hb := LawfulRegion.sim_index a.inner b.inner i hs.1 ha.1 hb.1

end
end FC
