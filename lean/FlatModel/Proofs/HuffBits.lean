import FlatModel.Model.HuffSpec
/-! Bit-string specification layer for the Huffman container (C06, level L1):
numbers ↔ MSB-first bit lists. Every shift / mask of the Rust code becomes a list operation. -/
namespace FC.Huff

/-! `ofBits`, `bitsOfCode`: defined in Model/HuffSpec.lean -/

@[simp] theorem ofBits_nil : ofBits [] = 0 := rfl
@[simp] theorem ofBits_cons (b : Bool) (bs : List Bool) : ofBits (b :: bs) = b.toNat * 2 ^ bs.length + ofBits bs := rfl
@[simp] theorem bitsOfCode_zero (c : Nat) : bitsOfCode 0 c = [] := rfl
theorem bitsOfCode_succ (l c : Nat) : bitsOfCode (l + 1) c = c.testBit l :: bitsOfCode l c := rfl

@[simp] theorem length_bitsOfCode (l c : Nat) : (bitsOfCode l c).length = l := by
  induction l with
  | zero => rfl
  | succ l ih => simp [bitsOfCode_succ, ih]

theorem ofBits_lt (a : List Bool) : ofBits a < 2 ^ a.length := by
  induction a with
  | nil => simp
  | cons b bs ih =>
    simp only [ofBits_cons, List.length_cons, Nat.pow_succ]
    cases b <;> simp <;> omega

/-- item 1a: concatenation is shift-and-add -/
theorem ofBits_append (a b : List Bool) : ofBits (a ++ b) = ofBits a * 2 ^ b.length + ofBits b := by
  induction a with
  | nil => simp
  | cons x xs ih =>
    simp only [List.cons_append, ofBits_cons, ih, List.length_append, Nat.pow_add, Nat.add_mul]
    rw [Nat.mul_assoc]; omega

theorem bitsOfCode_congr {l a b : Nat} (h : ∀ i, i < l → a.testBit i = b.testBit i) :
    bitsOfCode l a = bitsOfCode l b := by
  induction l with
  | zero => rfl
  | succ l ih =>
    rw [bitsOfCode_succ, bitsOfCode_succ, h l (by omega), ih (fun i hi => h i (by omega))]

theorem bitsOfCode_mod {l k : Nat} (c : Nat) (h : l ≤ k) : bitsOfCode l (c % 2 ^ k) = bitsOfCode l c := by
  apply bitsOfCode_congr
  intro i hi
  rw [Nat.testBit_mod_two_pow]; simp; omega

/-- splitting a code into its high and low part -/
theorem bitsOfCode_add (m n c : Nat) : bitsOfCode (m + n) c = bitsOfCode m (c / 2 ^ n) ++ bitsOfCode n c := by
  induction m with
  | zero => simp
  | succ m ih =>
    rw [show m + 1 + n = (m + n) + 1 by omega, bitsOfCode_succ, bitsOfCode_succ, ih, Nat.testBit_div_two_pow]
    rfl

/-- `pending << n | code` appends the code's bits -/
theorem bitsOfCode_mul_add (m n a b : Nat) (hb : b < 2 ^ n) :
    bitsOfCode (m + n) (a * 2 ^ n + b) = bitsOfCode m a ++ bitsOfCode n b := by
  rw [bitsOfCode_add]
  have h1 : (a * 2 ^ n + b) / 2 ^ n = a := by
    rw [Nat.mul_comm, Nat.mul_add_div (Nat.two_pow_pos n), Nat.div_eq_of_lt hb]; rfl
  have h2 : bitsOfCode n (a * 2 ^ n + b) = bitsOfCode n b := by
    rw [← bitsOfCode_mod (k := n) _ (Nat.le_refl n), Nat.mul_comm, Nat.mul_add_mod, Nat.mod_eq_of_lt hb]
  rw [h1, h2]

theorem bitsOfCode_take (m n c : Nat) : (bitsOfCode (m + n) c).take m = bitsOfCode m (c / 2 ^ n) := by
  rw [bitsOfCode_add, List.take_left' (by simp)]

theorem bitsOfCode_drop (m n c : Nat) : (bitsOfCode (m + n) c).drop m = bitsOfCode n c := by
  rw [bitsOfCode_add, List.drop_left' (by simp)]

/-- item 1d: round trip number → bits → number -/
theorem ofBits_bitsOfCode (l c : Nat) : ofBits (bitsOfCode l c) = c % 2 ^ l := by
  induction l with
  | zero => simp [Nat.mod_one]
  | succ l ih =>
    simp only [bitsOfCode_succ, ofBits_cons, ih, length_bitsOfCode]
    have h1 : c % 2 ^ (l + 1) = 2 ^ l * (c / 2 ^ l % 2) + c % 2 ^ l := by
      rw [Nat.pow_succ, Nat.mod_mul]; omega
    rw [h1, Nat.testBit_eq_decide_div_mod_eq]
    rcases Nat.mod_two_eq_zero_or_one (c / 2 ^ l) with h | h <;> simp [h]

theorem ofBits_bitsOfCode_of_lt {l c : Nat} (h : c < 2 ^ l) : ofBits (bitsOfCode l c) = c := by
  rw [ofBits_bitsOfCode, Nat.mod_eq_of_lt h]

/-- item 1d: round trip bits → number → bits -/
theorem bitsOfCode_ofBits (a : List Bool) : bitsOfCode a.length (ofBits a) = a := by
  induction a with
  | nil => rfl
  | cons b bs ih =>
    simp only [List.length_cons, ofBits_cons, bitsOfCode_succ]
    have hlt := ofBits_lt bs
    congr 1
    · rw [Nat.mul_comm, Nat.testBit_two_pow_mul_add _ hlt]
      cases b <;> simp
    · rw [← bitsOfCode_mod (k := bs.length) _ (Nat.le_refl _), Nat.mul_comm, Nat.mul_add_mod,
        Nat.mod_eq_of_lt hlt, ih]

theorem ofBits_inj {a b : List Bool} (hl : a.length = b.length) (h : ofBits a = ofBits b) : a = b := by
  rw [← bitsOfCode_ofBits a, ← bitsOfCode_ofBits b, hl, h]

theorem bitsOfCode_eq_iff {l c : Nat} {a : List Bool} (hc : c < 2 ^ l) :
    bitsOfCode l c = a ↔ (a.length = l ∧ ofBits a = c) := by
  constructor
  · rintro rfl; exact ⟨length_bitsOfCode _ _, ofBits_bitsOfCode_of_lt hc⟩
  · rintro ⟨rfl, rfl⟩; exact bitsOfCode_ofBits a

/-- item 1b: right shift drops trailing bits -/
theorem ofBits_div (a : List Bool) (k : Nat) : ofBits a / 2 ^ k = ofBits (a.take (a.length - k)) := by
  by_cases hk : k ≤ a.length
  · conv => lhs; rw [← List.take_append_drop (a.length - k) a]
    rw [ofBits_append]
    have hl : (a.drop (a.length - k)).length = k := by simp; omega
    have := ofBits_lt (a.drop (a.length - k))
    rw [hl] at this ⊢
    rw [Nat.mul_comm, Nat.mul_add_div (Nat.two_pow_pos k), Nat.div_eq_of_lt this]; rfl
  · have h0 : a.length - k = 0 := by omega
    rw [h0, List.take_zero, ofBits_nil]
    apply Nat.div_eq_of_lt
    exact Nat.lt_of_lt_of_le (ofBits_lt a) (Nat.pow_le_pow_right (by omega) (by omega))

/-- item 1c: masking keeps trailing bits -/
theorem ofBits_mod (a : List Bool) (k : Nat) : ofBits a % 2 ^ k = ofBits (a.drop (a.length - k)) := by
  by_cases hk : k ≤ a.length
  · conv => lhs; rw [← List.take_append_drop (a.length - k) a]
    rw [ofBits_append]
    have hl : (a.drop (a.length - k)).length = k := by simp; omega
    have := ofBits_lt (a.drop (a.length - k))
    rw [hl] at this ⊢
    rw [Nat.mul_comm, Nat.mul_add_mod, Nat.mod_eq_of_lt this]
  · have h0 : a.length - k = 0 := by omega
    rw [h0, List.drop_zero]
    apply Nat.mod_eq_of_lt
    exact Nat.lt_of_lt_of_le (ofBits_lt a) (Nat.pow_le_pow_right (by omega) (by omega))

theorem ofBits_replicate_false (k : Nat) : ofBits (List.replicate k false) = 0 := by
  induction k with
  | zero => rfl
  | succ k ih => simp [List.replicate_succ, ih]

/-- left shift appends zero bits -/
theorem ofBits_append_zeros (a : List Bool) (k : Nat) : ofBits (a ++ List.replicate k false) = ofBits a * 2 ^ k := by
  rw [ofBits_append, ofBits_replicate_false]; simp

theorem bitsOfCode_zero_code (l : Nat) : bitsOfCode l 0 = List.replicate l false := by
  induction l with
  | zero => rfl
  | succ l ih => simp [bitsOfCode_succ, ih, List.replicate_succ]

/-- numeric form of "take the top `m` of `l` bits" -/
theorem bitsOfCode_take' {l m c : Nat} (h : m ≤ l) : (bitsOfCode l c).take m = bitsOfCode m (c / 2 ^ (l - m)) := by
  have := bitsOfCode_take m (l - m) c
  rwa [show m + (l - m) = l by omega] at this

theorem bitsOfCode_drop' {l m c : Nat} (h : m ≤ l) : (bitsOfCode l c).drop m = bitsOfCode (l - m) c := by
  have := bitsOfCode_drop m (l - m) c
  rwa [show m + (l - m) = l by omega] at this

example : bitsOfCode 5 0b10110 = [true, false, true, true, false] := by decide
example : ofBits [true, false, true, true, false] = 22 := by decide

end FC.Huff
