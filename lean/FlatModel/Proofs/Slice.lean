import FlatModel.Model.Wrappers
import FlatModel.Proofs.Region
import FlatModel.Proofs.Index
/-! Laws of `SliceRegion` (C01/C02/C08 core). -/
namespace FC
open Region

section
variable {R V I O : Type} [Region R V I] [IdxCont O I] [LawfulRegion R] [LawfulIdxCont O]

omit [IdxCont O I] [LawfulIdxCont O] in
theorem accepts_of_push_some (r r' : R) (v : V) (i : I) (hi : Inv r) (hp : push r v = some (r', i)) :
    Accepts r v := by
  apply Classical.byContradiction
  intro hna
  rw [LawfulRegion.push_refuses r v hi hna] at hp
  cases hp

omit [IdxCont O I] [LawfulIdxCont O] [LawfulRegion R] in
theorem readAll_append (inner : R) (is js : List I) (us ws : List V)
    (h1 : readAll inner is = some us) (h2 : readAll inner js = some ws) :
    readAll inner (is ++ js) = some (us ++ ws) := by
  induction is generalizing us with
  | nil => simp only [readAll, Option.some.injEq] at h1; subst h1; simpa using h2
  | cons i is ih =>
    simp only [readAll] at h1
    cases hi : index inner i with
    | none => simp [hi] at h1
    | some u =>
      cases hr : readAll inner is with
      | none => simp [hi, hr] at h1
      | some us' =>
        simp only [hi, hr, Option.some.injEq] at h1
        subst h1
        simp [readAll, hi, ih us' hr]

omit [IdxCont O I] [LawfulIdxCont O] [LawfulRegion R] in
/-- reads of valid indices are unaffected when the inner region changes framewise -/
theorem readAll_congr (a b : R) (is : List I) (h : ∀ j ∈ is, index b j = index a j) :
    readAll b is = readAll a is := by
  induction is with
  | nil => rfl
  | cons i is ih =>
    simp only [readAll]
    rw [h i (by simp), ih (fun j hj => h j (by simp [hj]))]

/-- the workhorse: what a successful `pushAll` establishes -/
theorem pushAll_spec (inner : R) (slices : O) (vs : List V) (inner' : R) (slices' : O)
    (hi : Inv inner) (hc : IdxCont.Inv slices) (hs : ∀ j ∈ IdxCont.iter slices, Valid inner j)
    (hp : pushAll inner slices vs = some (inner', slices')) :
    ∃ is : List I,
      IdxCont.iter slices' = IdxCont.iter slices ++ is ∧ is.length = vs.length ∧
      Inv inner' ∧ IdxCont.Inv slices' ∧ (∀ j ∈ IdxCont.iter slices', Valid inner' j) ∧
      (∃ us, readAll inner' is = some us ∧ listRel (same (R := R)) us vs) ∧
      (∀ j, Valid inner j → Valid inner' j ∧ index inner' j = index inner j) := by
  induction vs generalizing inner slices with
  | nil =>
    simp only [pushAll, Option.some.injEq, Prod.mk.injEq] at hp
    obtain ⟨rfl, rfl⟩ := hp
    exact ⟨[], by simp, rfl, hi, hc, hs, ⟨[], rfl, trivial⟩, fun j hj => ⟨hj, rfl⟩⟩
  | cons v vs ih =>
    simp only [pushAll] at hp
    cases hpv : push inner v with
    | none => simp [hpv] at hp
    | some p =>
      obtain ⟨in1, i⟩ := p
      simp only [hpv] at hp
      have hacc := accepts_of_push_some inner in1 v i hi hpv
      obtain ⟨in1', i', hpv', u, hru, hsu⟩ := LawfulRegion.push_ok inner v hi hacc
      rw [hpv] at hpv'
      simp only [Option.some.injEq, Prod.mk.injEq] at hpv'
      obtain ⟨rfl, rfl⟩ := hpv'
      obtain ⟨hi1, hv1⟩ := LawfulRegion.push_inv inner in1 v i hi hpv
      have hc1 := LawfulIdxCont.inv_push slices i hc
      have hit1 := LawfulIdxCont.iter_push slices i hc
      have hs1 : ∀ j ∈ IdxCont.iter (IdxCont.push slices i), Valid in1 j := by
        intro j hj
        rw [hit1] at hj
        simp only [List.mem_append, List.mem_singleton] at hj
        rcases hj with hj | hj
        · exact (LawfulRegion.frame inner in1 v i j hi (hs j hj) hpv).1
        · subst hj; exact hv1
      obtain ⟨is, h1, h2, h3, h4, h5, ⟨us, h6, h7⟩, h8⟩ := ih in1 (IdxCont.push slices i) hi1 hc1 hs1 hp
      refine ⟨i :: is, ?_, by simp [h2], h3, h4, h5, ⟨u :: us, ?_, ⟨hsu, h7⟩⟩, ?_⟩
      · rw [h1, hit1]; simp
      · simp only [readAll]
        rw [(h8 i hv1).2, hru, h6]
      · intro j hj
        have hf := LawfulRegion.frame inner in1 v i j hi hj hpv
        have h := h8 j hf.1
        exact ⟨h.1, h.2.trans hf.2⟩

omit [LawfulIdxCont O] in
theorem pushAll_total (inner : R) (slices : O) (vs : List V) (hi : Inv inner) (ha : AcceptsAll inner vs) :
    ∃ p, pushAll inner slices vs = some p := by
  induction vs generalizing inner slices with
  | nil => exact ⟨_, rfl⟩
  | cons v vs ih =>
    obtain ⟨ha1, ha2⟩ := ha
    obtain ⟨in1, i, hpv, _⟩ := LawfulRegion.push_ok inner v hi ha1
    obtain ⟨hi1, _⟩ := LawfulRegion.push_inv inner in1 v i hi hpv
    obtain ⟨p, hp⟩ := ih in1 (IdxCont.push slices i) hi1 (ha2 in1 i hpv)
    exact ⟨p, by simp [pushAll, hpv, hp]⟩

omit [LawfulIdxCont O] in
theorem pushAll_refuses (inner : R) (slices : O) (vs : List V) (hi : Inv inner) (hna : ¬ AcceptsAll inner vs) :
    pushAll inner slices vs = none := by
  induction vs generalizing inner slices with
  | nil => exact absurd trivial hna
  | cons v vs ih =>
    simp only [pushAll]
    cases hpv : push inner v with
    | none => rfl
    | some p =>
      obtain ⟨in1, i⟩ := p
      simp only
      obtain ⟨hi1, _⟩ := LawfulRegion.push_inv inner in1 v i hi hpv
      apply ih in1 _ hi1
      intro hall
      apply hna
      refine ⟨accepts_of_push_some inner in1 v i hi hpv, ?_⟩
      intro in2 i2 h2
      rw [hpv] at h2
      simp only [Option.some.injEq, Prod.mk.injEq] at h2
      obtain ⟨rfl, rfl⟩ := h2
      exact hall

omit [IdxCont O I] [LawfulIdxCont O] in
theorem readAll_some_of_valid (inner : R) (is : List I) (hi : Inv inner) (h : ∀ j ∈ is, Valid inner j) :
    ∃ us, readAll inner is = some us := by
  induction is with
  | nil => exact ⟨[], rfl⟩
  | cons i is ih =>
    obtain ⟨u, hu⟩ := LawfulRegion.valid_reads inner i hi (h i (by simp))
    obtain ⟨us, hus⟩ := ih (fun j hj => h j (by simp [hj]))
    exact ⟨u :: us, by simp [readAll, hu, hus]⟩

omit [IdxCont O I] [LawfulIdxCont O] in
theorem readAll_sim (a b : R) (is : List I) (hs : Sim a b) (ha : Inv a) (hb : Inv b)
    (h : ∀ j ∈ is, Valid a j) : readAll a is = readAll b is := by
  induction is with
  | nil => rfl
  | cons i is ih =>
    simp only [readAll]
    rw [(LawfulRegion.sim_index a b i hs ha hb).2 (h i (by simp)), ih (fun j hj => h j (by simp [hj]))]

theorem pushAll_sim (a b : R) (sa sb : O) (vs : List V) (hs : Sim a b) (ha : Inv a) (hb : Inv b)
    (hca : IdxCont.Inv sa) (hcb : IdxCont.Inv sb) (hit : IdxCont.iter sa = IdxCont.iter sb) :
    (pushAll a sa vs = none ∧ pushAll b sb vs = none) ∨
    ∃ a' b' sa' sb', pushAll a sa vs = some (a', sa') ∧ pushAll b sb vs = some (b', sb') ∧
      Sim a' b' ∧ IdxCont.iter sa' = IdxCont.iter sb' := by
  induction vs generalizing a b sa sb with
  | nil => exact Or.inr ⟨a, b, sa, sb, rfl, rfl, hs, hit⟩
  | cons v vs ih =>
    rcases LawfulRegion.sim_push a b v hs ha hb with ⟨h1, h2⟩ | ⟨a1, b1, i, h1, h2, h3⟩
    · exact Or.inl ⟨by simp [pushAll, h1], by simp [pushAll, h2]⟩
    · obtain ⟨ha1, _⟩ := LawfulRegion.push_inv a a1 v i ha h1
      obtain ⟨hb1, _⟩ := LawfulRegion.push_inv b b1 v i hb h2
      have hit' : IdxCont.iter (IdxCont.push sa i) = IdxCont.iter (IdxCont.push sb i) := by
        rw [LawfulIdxCont.iter_push sa i hca, LawfulIdxCont.iter_push sb i hcb, hit]
      have := ih a1 b1 (IdxCont.push sa i) (IdxCont.push sb i) h3 ha1 hb1
        (LawfulIdxCont.inv_push sa i hca) (LawfulIdxCont.inv_push sb i hcb) hit'
      simpa [pushAll, h1, h2] using this

omit [LawfulIdxCont O] [LawfulRegion R] in
theorem slice_push_some (r r' : SliceRegion R O) (v : List V) (i : Nat × Nat) (hp : push r v = some (r', i)) :
    pushAll r.inner r.slices v = some (r'.inner, r'.slices) ∧
      i = ((IdxCont.iter r.slices).length, (IdxCont.iter r'.slices).length) := by
  simp only [Region.push] at hp
  cases h : pushAll r.inner r.slices v with
  | none => simp [h] at hp
  | some p =>
    obtain ⟨in', sl'⟩ := p
    simp only [h, Option.some.injEq, Prod.mk.injEq] at hp
    obtain ⟨rfl, rfl⟩ := hp
    exact ⟨rfl, rfl⟩

theorem mem_take_drop {α} (l : List α) (a n : Nat) (x : α) (h : x ∈ (l.drop a).take n) : x ∈ l :=
  List.mem_of_mem_drop (List.mem_of_mem_take h)

instance : LawfulRegion (SliceRegion R O) where
  inv_default := ⟨LawfulRegion.inv_default (R := R), LawfulIdxCont.inv_default (C := O),
    by intro j hj; simp only [Region.default, LawfulIdxCont.iter_default (C := O)] at hj; cases hj⟩
  push_ok r v hi ha := by
    obtain ⟨hin, hc, hs⟩ := hi
    obtain ⟨⟨in', sl'⟩, hp⟩ := pushAll_total r.inner r.slices v hin ha
    obtain ⟨is, h1, h2, h3, h4, h5, ⟨us, h6, h7⟩, h8⟩ := pushAll_spec r.inner r.slices v in' sl' hin hc hs hp
    refine ⟨⟨sl', in'⟩, ((IdxCont.iter r.slices).length, (IdxCont.iter sl').length),
      by simp [Region.push, hp], us, ?_, h7⟩
    simp only [Region.index, h1, List.length_append]
    have : (IdxCont.iter r.slices).length ≤ (IdxCont.iter r.slices).length + is.length ∧
        (IdxCont.iter r.slices).length + is.length ≤ (IdxCont.iter r.slices).length + is.length :=
      ⟨by omega, by omega⟩
    simp only [this, and_self, if_true]
    rw [List.drop_left', show (IdxCont.iter r.slices).length + is.length - (IdxCont.iter r.slices).length = is.length by omega,
      List.take_length]
    · exact h6
    · rfl
  push_refuses r v hi hna := by
    simp only [Region.push, pushAll_refuses r.inner r.slices v hi.1 hna]
  push_inv r r' v i hi hp := by
    obtain ⟨hin, hc, hs⟩ := hi
    obtain ⟨hpa, rfl⟩ := slice_push_some r r' v i hp
    obtain ⟨is, h1, h2, h3, h4, h5, _, _⟩ := pushAll_spec r.inner r.slices v _ _ hin hc hs hpa
    refine ⟨⟨h3, h4, h5⟩, ?_⟩
    simp only [Region.Valid, h1, List.length_append]
    omega
  frame r r' v i j hi hv hp := by
    obtain ⟨hin, hc, hs⟩ := hi
    obtain ⟨hpa, rfl⟩ := slice_push_some r r' v i hp
    obtain ⟨is, h1, h2, h3, h4, h5, _, h8⟩ := pushAll_spec r.inner r.slices v _ _ hin hc hs hpa
    simp only [Region.Valid] at hv
    refine ⟨by simp only [Region.Valid, h1, List.length_append]; omega, ?_⟩
    simp only [Region.index, h1, List.length_append]
    have hv' : j.1 ≤ j.2 ∧ j.2 ≤ (IdxCont.iter r.slices).length + is.length := ⟨hv.1, by omega⟩
    simp only [hv', hv, and_self, if_true]
    rw [take_drop_append_left _ _ _ _ hv.2]
    apply readAll_congr
    intro k hk
    exact (h8 k (hs k (mem_take_drop _ _ _ _ hk))).2
  valid_reads r j hi hv := by
    obtain ⟨hin, hc, hs⟩ := hi
    simp only [Region.Valid] at hv
    simp only [Region.index, hv, and_self, if_true]
    exact readAll_some_of_valid r.inner _ hin (fun k hk => hs k (mem_take_drop _ _ _ _ hk))
  clear_inv r hi := ⟨LawfulRegion.clear_inv r.inner hi.1, LawfulIdxCont.inv_clear r.slices,
    by intro j hj; simp only [Region.clear, LawfulIdxCont.iter_clear] at hj; cases hj⟩
  clear_sim r hi := ⟨by simp only [Region.clear, Region.default, LawfulIdxCont.iter_clear, LawfulIdxCont.iter_default],
    LawfulRegion.clear_sim r.inner hi.1⟩
  sim_refl r hi := ⟨rfl, LawfulRegion.sim_refl r.inner hi.1⟩
  sim_push a b v hs ha hb := by
    obtain ⟨hit, hsin⟩ := hs
    rcases pushAll_sim a.inner b.inner a.slices b.slices v hsin ha.1 hb.1 ha.2.1 hb.2.1 hit with
      ⟨h1, h2⟩ | ⟨a', b', sa', sb', h1, h2, h3, h4⟩
    · exact Or.inl ⟨by simp [Region.push, h1], by simp [Region.push, h2]⟩
    · exact Or.inr ⟨⟨sa', a'⟩, ⟨sb', b'⟩, ((IdxCont.iter a.slices).length, (IdxCont.iter sa').length),
        by simp [Region.push, h1], by simp [Region.push, h2, hit, h4], h4, h3⟩
  sim_index a b i hs ha hb := by
    obtain ⟨hit, hsin⟩ := hs
    refine ⟨by simp only [Region.Valid, hit], fun hv => ?_⟩
    simp only [Region.Valid] at hv
    have hvb : i.1 ≤ i.2 ∧ i.2 ≤ (IdxCont.iter b.slices).length := by rw [← hit]; exact hv
    simp only [Region.index, hv, hvb, and_self, if_true, ← hit]
    exact readAll_sim a.inner b.inner _ hsin ha.1 hb.1
      (fun k hk => ha.2.2 k (mem_take_drop _ _ _ _ hk))

end
end FC
