import FlatModel.Model.Serde
import FlatModel.Proofs.OpsLaws
/-! C16: deserialising a serialised value yields the value again (`LawfulSer`); for vectors, index
containers with capacities and regions it yields exactly what `clone` yields in the model
(`mvec_de_ser`, `SerCloneIdx`, `SerClone`): every field, bookkeeping included, is identical and every
capacity is exact. -/
namespace FC
open Region

/-- element types and capacity-free structures: `de ∘ ser = some` -/
class LawfulSer (α : Type) [Ser α] : Prop where
  de_ser : ∀ a : α, Ser.de (Ser.ser a) = some a

/-! ### sequences -/

/-- element-wise version: if `de (ser a) = some (f a)` then a serialised list deserialises to `xs.map f` -/
theorem deList_map_gen {α : Type} [Ser α] (f : α → α) (h : ∀ a : α, Ser.de (Ser.ser a) = some (f a))
    (xs : List α) : deList Ser.de (xs.map Ser.ser) = some (xs.map f) := by
  induction xs with
  | nil => rfl
  | cons x xs ih => simp only [List.map_cons, deList, h, ih]

theorem deList_map {α : Type} [Ser α] (h : ∀ a : α, Ser.de (Ser.ser a) = some a) (xs : List α) :
    deList Ser.de (xs.map Ser.ser) = some xs := by
  have := deList_map_gen id h xs
  simpa using this

/-- two-field structs: both fields must deserialise -/
def de2 {α β γ : Type} (f : α → β → γ) (a : Option α) (b : Option β) : Option γ :=
  match a, b with
  | some x, some y => some (f x y)
  | _, _ => none

theorem de2_some {α β γ : Type} (f : α → β → γ) {oa : Option α} {ob : Option β} {a : α} {b : β}
    (h1 : oa = some a) (h2 : ob = some b) : de2 f oa ob = some (f a b) := by
  subst h1; subst h2; rfl

/-! ### element types -/
instance : LawfulSer Nat where
  de_ser _ := rfl

instance : LawfulSer UInt8 where
  de_ser b := by
    show (if b.toNat < 256 then some (UInt8.ofNat b.toNat) else none) = some b
    rw [if_pos (UInt8.toNat_lt b)]
    simp

instance : LawfulSer Unit where
  de_ser _ := rfl

instance : LawfulSer F64 where
  de_ser _ := rfl

instance {α : Type} [Ser α] [LawfulSer α] : LawfulSer (List α) where
  de_ser xs := deList_map LawfulSer.de_ser xs

instance {α β : Type} [Ser α] [Ser β] [LawfulSer α] [LawfulSer β] : LawfulSer (α × β) where
  de_ser p := by
    show de2 Prod.mk (Ser.de (Ser.ser p.1)) (Ser.de (Ser.ser p.2)) = some p
    exact de2_some _ (LawfulSer.de_ser p.1) (LawfulSer.de_ser p.2)

/-- index tuples -/
class LawfulSerTuple (τ : Type) [SerTuple τ] : Prop where
  of_elems : ∀ t : τ, SerTuple.ofElems (SerTuple.elems t) = some t

instance : LawfulSerTuple Unit where
  of_elems _ := rfl

instance {α τ : Type} [Ser α] [SerTuple τ] [LawfulSer α] [LawfulSerTuple τ] : LawfulSerTuple (α × τ) where
  of_elems p := by
    show (match Ser.de (Ser.ser p.1), SerTuple.ofElems (SerTuple.elems p.2) with
      | some x, some y => some (x, y) | _, _ => none) = some p
    rw [LawfulSer.de_ser p.1, LawfulSerTuple.of_elems p.2]

instance (priority := high) {α τ : Type} [Ser α] [SerTuple τ] [LawfulSer α] [LawfulSerTuple τ] : LawfulSer (α × τ) where
  de_ser p := LawfulSerTuple.of_elems (τ := α × τ) p

theorem str_Some : ("Some" == "Some") = true := by simp
theorem str_Ok : ("Ok" == "Ok") = true := by simp
theorem str_Err : ("Err" == "Err") = true := by simp
theorem str_Err_Ok : ("Err" == "Ok") = false := by simp
theorem str_Empty : ("Empty" == "Empty") = true := by simp
theorem str_Zero : ("Zero" == "Zero") = true := by simp
theorem str_Zero_Empty : ("Zero" == "Empty") = false := by simp
theorem str_Striding : ("Striding" == "Striding") = true := by simp
theorem str_Saturated : ("Saturated" == "Saturated") = true := by simp

instance {α : Type} [Ser α] [LawfulSer α] : LawfulSer (Option α) where
  de_ser o := by
    cases o with
    | none => rfl
    | some a =>
      show (if "Some" == "Some" then (Ser.de (Ser.ser a)).map some else none) = some (some a)
      rw [if_pos str_Some, LawfulSer.de_ser a]; rfl

instance {α β : Type} [Ser α] [Ser β] [LawfulSer α] [LawfulSer β] : LawfulSer (Except β α) where
  de_ser e := by
    cases e with
    | ok a =>
      show (if "Ok" == "Ok" then (Ser.de (Ser.ser a)).map Except.ok
        else if "Ok" == "Err" then (Ser.de (Ser.ser a)).map Except.error else none) = some (Except.ok a)
      rw [if_pos str_Ok, LawfulSer.de_ser a]; rfl
    | error b =>
      show (if "Err" == "Ok" then (Ser.de (α := α) (Ser.ser b)).map Except.ok
        else if "Err" == "Err" then (Ser.de (Ser.ser b)).map Except.error else none) = some (Except.error b)
      rw [if_neg (by rw [str_Err_Ok]; decide), if_pos str_Err, LawfulSer.de_ser b]; rfl

/-! ### vectors: exact allocation, i.e. `clone` -/
theorem mvec_de_ser {α : Type} [Ser α] [LawfulSer α] (v : MVec α) : Ser.de (Ser.ser v) = some v.clone := by
  show (deList Ser.de (v.data.map Ser.ser)).map (fun d => (⟨d, d.length⟩ : MVec α)) = some v.clone
  rw [deList_map LawfulSer.de_ser]; rfl

/-! ### index containers -/
instance (T : Type) (sz : Nat) [Ser T] [LawfulSer T] : LawfulSer (VecIdx T sz) where
  de_ser c := by
    show (deList Ser.de (c.v.map Ser.ser)).map (fun d => (⟨d⟩ : VecIdx T sz)) = some c
    rw [deList_map LawfulSer.de_ser]; rfl

instance : LawfulSer Stride where
  de_ser s := by
    cases s with
    | empty =>
      show (if "Empty" == "Empty" then some Stride.empty else if "Empty" == "Zero" then some Stride.zero else none) = _
      rw [if_pos str_Empty]
    | zero =>
      show (if "Zero" == "Empty" then some Stride.empty else if "Zero" == "Zero" then some Stride.zero else none) = _
      rw [if_neg (by rw [str_Zero_Empty]; decide), if_pos str_Zero]
    | striding s c =>
      show (if "Striding" == "Striding" then some (Stride.striding s c) else none) = _
      rw [if_pos str_Striding]
    | saturated s c r =>
      show (if "Saturated" == "Saturated" then some (Stride.saturated s c r) else none) = _
      rw [if_pos str_Saturated]

instance : LawfulSer IndexList where
  de_ser l := by
    have h1 := LawfulSer.de_ser l.smol
    have h2 := LawfulSer.de_ser l.chonk
    simp only [Ser.ser, Ser.de] at h1 h2 ⊢
    simp only [h1, h2]

instance : LawfulSer IndexOptimized where
  de_ser o := by
    have h1 := LawfulSer.de_ser o.strided
    have h2 := LawfulSer.de_ser o.spilled
    simp only [Ser.ser, Ser.de] at h1 h2 ⊢
    simp only [h1, h2]

/-- index containers with capacities: `de ∘ ser = some ∘ clone` -/
class SerCloneIdx (O : Type) {T : outParam Type} [IdxCont O T] [IdxAux O] [Ser O] : Prop where
  de_ser : ∀ c : O, Ser.de (Ser.ser c) = some (IdxAux.clone c)

instance {C T : Type} [IdxCont C T] [HasStores C] [Ser C] [LawfulSer C] : SerCloneIdx (Capd C) where
  de_ser c := by
    show (Ser.de (Ser.ser c.a)).map (fun a => (⟨a, HasStores.lens a⟩ : Capd C)) = some (Capd.clone c)
    rw [LawfulSer.de_ser c.a]; rfl

/-! ### regions -/

/-- regions: `de ∘ ser = some ∘ clone` — all fields identical, capacities exact -/
class SerClone (R : Type) {V I : outParam Type} [Region R V I] [RegionAux R] [Ser R] : Prop where
  de_ser : ∀ r : R, Ser.de (Ser.ser r) = some (RegionAux.clone r)

instance (T : Type) : LawfulSer (MirrorRegion T) where
  de_ser _ := rfl
instance (T : Type) : SerClone (MirrorRegion T) where
  de_ser _ := rfl

instance (T : Type) [ElemSize T] [Ser T] [LawfulSer T] : SerClone (OwnedRegion T) where
  de_ser r := by
    show (Ser.de (Ser.ser r.slices)).map (fun s => (⟨s⟩ : OwnedRegion T)) = some ⟨r.slices.clone⟩
    rw [mvec_de_ser]; rfl

instance (T : Type) [ElemSize T] [Ser T] [LawfulSer T] : SerClone (VecRegion T) where
  de_ser r := by
    show (Ser.de (Ser.ser r.v)).map (fun s => (⟨s⟩ : VecRegion T)) = some ⟨r.v.clone⟩
    rw [mvec_de_ser]; rfl

instance {R I : Type} [Region R (List UInt8) I] [RegionAux R] [Ser R] [SerClone R] : SerClone (StringRegion R) where
  de_ser r := by
    show (Ser.de (Ser.ser r.inner)).map (fun s => (⟨s⟩ : StringRegion R)) = some ⟨RegionAux.clone r.inner⟩
    rw [SerClone.de_ser r.inner]; rfl

instance {R V I : Type} [Region R V I] [RegionAux R] [Ser R] [SerClone R] : SerClone (OptionRegion R) where
  de_ser r := by
    show (Ser.de (Ser.ser r.inner)).map (fun s => (⟨s⟩ : OptionRegion R)) = some ⟨RegionAux.clone r.inner⟩
    rw [SerClone.de_ser r.inner]; rfl

instance {T VT IT E VE IE : Type} [Region T VT IT] [Region E VE IE] [RegionAux T] [RegionAux E] [Ser T] [Ser E]
    [SerClone T] [SerClone E] : SerClone (ResultRegion T E) where
  de_ser r := by
    show de2 (ResultRegion.mk (T := T) (E := E)) (Ser.de (Ser.ser r.oks)) (Ser.de (Ser.ser r.errs)) = _
    exact de2_some _ (SerClone.de_ser r.oks) (SerClone.de_ser r.errs)

/-! tuples: the struct's fields are collected by `SerFields` -/

/-- `ofFields ∘ fields = some ∘ clone` -/
class SerFieldsClone (B : Type) {V I : outParam Type} [Region B V I] [RegionAux B] [SerFields B] : Prop where
  of_fields : ∀ r : B, SerFields.ofFields (SerFields.fields r) = some (RegionAux.clone r)

instance : LawfulSer TupleNil where
  de_ser _ := rfl
instance : SerClone TupleNil where
  de_ser _ := rfl
instance : SerFieldsClone TupleNil where
  of_fields _ := rfl

section Tuple
variable {A VA IA B VB IB : Type} [Region A VA IA] [Region B VB IB] [RegionAux A] [RegionAux B]
  [Ser A] [SerFields B]

instance [SerClone A] [SerFieldsClone B] : SerFieldsClone (TupleCons A B) where
  of_fields r := by
    show de2 (TupleCons.mk (A := A) (B := B)) (Ser.de (Ser.ser r.head)) (SerFields.ofFields (SerFields.fields r.tail)) = _
    exact de2_some _ (SerClone.de_ser r.head) (SerFieldsClone.of_fields r.tail)

instance [SerClone A] [SerFieldsClone B] : SerClone (TupleCons A B) where
  de_ser r := SerFieldsClone.of_fields r
end Tuple

instance {R V I : Type} [Region R V I] [HasEqv V] [RegionAux R] [IndexSize I] [Ser R] [Ser I]
    [SerClone R] [LawfulSer I] : SerClone (CollapseSequence R I) where
  de_ser r := by
    have h1 := SerClone.de_ser r.inner
    have h2 := LawfulSer.de_ser r.last
    simp only [Ser.ser, Ser.de] at h1 h2 ⊢
    simp only [h1, h2, RegionAux.clone]

instance {R V I O : Type} [Region R V I] [IdxCont O I] [RegionAux R] [IdxAux O] [Ser R] [Ser O]
    [SerClone R] [SerCloneIdx O] : SerClone (SliceRegion R O) where
  de_ser r := by
    have h1 := SerCloneIdx.de_ser r.slices
    have h2 := SerClone.de_ser r.inner
    simp only [Ser.ser, Ser.de] at h1 h2 ⊢
    simp only [h1, h2, RegionAux.clone]

instance {R V O : Type} [Region R V (Nat × Nat)] [DenseRegion R] [IdxCont O Nat] [RegionAux R] [IdxAux O]
    [Ser R] [Ser O] [SerClone R] [SerCloneIdx O] : SerClone (ConsecPairs R O) where
  de_ser r := by
    show de2 (fun x y => (⟨x, y, r.last⟩ : ConsecPairs R O)) (Ser.de (Ser.ser r.inner)) (Ser.de (Ser.ser r.indices)) = _
    exact de2_some _ (SerClone.de_ser r.inner) (SerCloneIdx.de_ser r.indices)

instance {R V I O : Type} [Region R V I] [IdxCont O Nat] [RegionAux R] [IdxAux O] [ElemSize I]
    [Ser R] [Ser I] [Ser O] [SerClone R] [LawfulSer I] [SerCloneIdx O] : SerClone (ColumnsRegion R I O) where
  de_ser r := by
    have h1 := SerClone.de_ser r.indices
    have h2 := deList_map_gen RegionAux.clone SerClone.de_ser r.cols
    simp only [Ser.ser, Ser.de] at h1 h2 ⊢
    simp only [h1, h2, RegionAux.clone]

instance {R V I S : Type} [Region R V I] [IdxCont S I] [RegionAux R] [IdxAux S] [Ser R] [Ser S]
    [SerClone R] [SerCloneIdx S] : SerClone (FlatStack R S) where
  de_ser fs := by
    have h1 := SerCloneIdx.de_ser fs.indices
    have h2 := SerClone.de_ser fs.region
    simp only [Ser.ser, Ser.de] at h1 h2 ⊢
    simp only [h1, h2, RegionAux.clone]

end FC
