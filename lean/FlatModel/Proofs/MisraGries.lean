import FlatModel.Proofs.Codec
import Mathlib.Tactic.Linarith
import Mathlib.Tactic.Ring
/-! The Misra–Gries guarantee of `MG.tidy` / `MG.update` (C07, last sentence).

Everything is proved for a generic capacity (`MG.tidyK k`, `MG.updateK cap`, with `k = cap / 2`) and
instantiated at the crate's `cap = MG.cap` (the literal of `Vec::with_capacity` in `MisraGries::default()`, regenerated
from the source: `FC.Generated.mgCapacity`, 1024 as verified), `k = MG.k = MG.cap / 2` (`MG.tidy_eq_tidyK`,
`MG.update_eq_updateK` are `rfl`). Nothing below evaluates `MG.cap`: the statements are in terms of `MG.cap`, `MG.k` and
`MG.k + 1` and compile unchanged when the constant is retuned. The one place where its value is looked at is
Proofs/MGCap.lean (`MG.two_le_cap`, `by decide`).

Summary of the mathematics. Write `est m b` for the summed weight of `b` in the raw list of `m`,
`trueCount ops b` for the weight inserted for `b`, `total ops` for all the weight inserted. A compaction
that drops something (`l.length > k` after consolidation) subtracts `sub = d - 1` from the `k` largest
counts and drops the rest, whose counts are `≤ d`, where `d = l[k].2 ≥ 1`. So one compaction loses up to
`d` per key, but is only guaranteed to remove `(k+1)·d - k` weight in total: the classical bound
`trueCount - est ≤ total/(k+1)` is FALSE for this `tidy` (see `classical_bound_fails` in Props/C07MG). What
holds is the potential inequality
  `(k+1)·D + Σest + (raw length) ≤ total + (number of insertions)`            (`MGInv.pot`)
where `D` (ghost) is the sum of the `d`s, `est ≤ trueCount ≤ est + D`; the `k` lost per compaction is paid
for by the `≥ cap - k ≥ k` insertions needed to fill the list up again. -/
namespace FC.Codec

/-! ### `bytesLt` is a strict total order -/

theorem bytesLt_asymm : ∀ (a b : Bytes), bytesLt a b = true → bytesLt b a = false := by
  intro a
  induction a with
  | nil => intro b h; cases b <;> simp [bytesLt] at *
  | cons x xs ih =>
    intro b h
    cases b with
    | nil => simp [bytesLt] at h
    | cons y ys =>
      simp only [bytesLt, Bool.or_eq_true, Bool.and_eq_true, decide_eq_true_eq, beq_iff_eq, Bool.or_eq_false_iff, Bool.and_eq_false_imp, decide_eq_false_iff_not] at h ⊢
      rcases h with h | ⟨h1, h2⟩
      · refine ⟨?_, ?_⟩
        · exact UInt8.lt_asymm h
        · intro e; subst e; exact absurd h (UInt8.lt_irrefl _)
      · subst h1
        exact ⟨UInt8.lt_irrefl _, fun _ => ih _ h2⟩

theorem bytesLt_antisymm : ∀ (a b : Bytes), bytesLt a b = false → bytesLt b a = false → a = b := by
  intro a
  induction a with
  | nil => intro b h1 h2; cases b <;> simp [bytesLt] at *
  | cons x xs ih =>
    intro b h1 h2
    cases b with
    | nil => simp [bytesLt] at h2
    | cons y ys =>
      simp only [bytesLt, Bool.or_eq_false_iff, Bool.and_eq_false_imp, decide_eq_false_iff_not, beq_iff_eq] at h1 h2
      have hxy : x = y := by
        have a1 := h1.1; have a2 := h2.1
        rw [UInt8.lt_iff_toNat_lt] at a1 a2
        exact UInt8.toNat_inj.1 (by omega)
      subst hxy
      rw [ih ys (h1.2 rfl) (h2.2 rfl)]

/-- `≤` is transitive -/
theorem bytesLt_le_trans : ∀ (a b c : Bytes), bytesLt b a = false → bytesLt c b = false → bytesLt c a = false := by
  intro a
  induction a with
  | nil =>
    intro b c h1 h2
    cases c <;> rfl
  | cons x xs ih =>
    intro b c h1 h2
    cases b with
    | nil => cases c <;> simp [bytesLt] at *
    | cons y ys =>
      cases c with
      | nil => simp [bytesLt] at h2
      | cons z zs =>
        simp only [bytesLt, Bool.or_eq_false_iff, Bool.and_eq_false_imp, decide_eq_false_iff_not, beq_iff_eq] at h1 h2 ⊢
        obtain ⟨a1, a2⟩ := h1
        obtain ⟨b1, b2⟩ := h2
        rw [UInt8.lt_iff_toNat_lt] at a1 b1
        refine ⟨by rw [UInt8.lt_iff_toNat_lt]; omega, ?_⟩
        intro e; subst e
        have : y = z := UInt8.toNat_inj.1 (by omega)
        subst this
        exact ih ys zs (a2 rfl) (b2 rfl)

/-! ### the stable insertion sort -/

theorem insertBy_perm {α} (lt : α → α → Bool) (x : α) (l : List α) : (insertBy lt x l).Perm (x :: l) := by
  induction l with
  | nil => exact List.Perm.refl _
  | cons y ys ih =>
    unfold insertBy
    split
    · exact ((List.Perm.cons y ih).trans (List.Perm.swap x y ys))
    · exact List.Perm.refl _

theorem sortBy_perm {α} (lt : α → α → Bool) (l : List α) : (sortBy lt l).Perm l := by
  unfold sortBy
  induction l with
  | nil => exact List.Perm.refl _
  | cons x l ih =>
    simp only [List.foldr_cons]
    exact (insertBy_perm lt x _).trans (List.Perm.cons x ih)

theorem insertBy_sorted {α} (lt : α → α → Bool) (hasym : ∀ a b, lt a b = true → lt b a = false)
    (htr : ∀ a b c, lt b a = false → lt c b = false → lt c a = false) (x : α) (l : List α)
    (h : l.Pairwise fun a b => lt b a = false) : (insertBy lt x l).Pairwise fun a b => lt b a = false := by
  induction l with
  | nil => simp [insertBy]
  | cons y ys ih =>
    obtain ⟨hy, hys⟩ := List.pairwise_cons.1 h
    unfold insertBy
    split
    · rename_i hlt
      refine List.pairwise_cons.2 ⟨?_, ih hys⟩
      intro z hz
      rcases (mem_insertBy lt x z ys).1 hz with rfl | hz
      · exact hasym _ _ hlt
      · exact hy z hz
    · rename_i hlt
      have hlt' : lt y x = false := by simpa using hlt
      refine List.pairwise_cons.2 ⟨?_, h⟩
      intro z hz
      rcases List.mem_cons.1 hz with rfl | hz
      · exact hlt'
      · exact htr _ _ _ hlt' (hy z hz)

theorem sortBy_sorted {α} (lt : α → α → Bool) (hasym : ∀ a b, lt a b = true → lt b a = false)
    (htr : ∀ a b c, lt b a = false → lt c b = false → lt c a = false) (l : List α) :
    (sortBy lt l).Pairwise fun a b => lt b a = false := by
  unfold sortBy
  induction l with
  | nil => exact List.Pairwise.nil
  | cons x l ih =>
    simp only [List.foldr_cons]
    exact insertBy_sorted lt hasym htr x _ ih

/-- sorting by count, descending -/
theorem sortDesc_sorted (l : List (Bytes × Nat)) :
    (sortBy (fun x y => decide (y.2 < x.2)) l).Pairwise fun a b => b.2 ≤ a.2 := by
  have := sortBy_sorted (fun (x y : Bytes × Nat) => decide (y.2 < x.2))
    (by intro a b h; simp only [decide_eq_true_eq, decide_eq_false_iff_not] at h ⊢; omega)
    (by intro a b c h1 h2; simp only [decide_eq_false_iff_not] at h1 h2 ⊢; omega) l
  refine this.imp ?_
  intro a b h
  simp only [decide_eq_false_iff_not] at h
  omega

/-- sorting by key, ascending -/
theorem sortKey_sorted (l : List (Bytes × Nat)) :
    (sortBy (fun x y => bytesLt x.1 y.1) l).Pairwise fun a b => bytesLt b.1 a.1 = false :=
  sortBy_sorted (fun (x y : Bytes × Nat) => bytesLt x.1 y.1)
    (fun _ _ h => bytesLt_asymm _ _ h) (fun _ _ _ h1 h2 => bytesLt_le_trans _ _ _ h1 h2) l

/-! ### weights: `cnt l b` is the summed weight of key `b`, `wsum l` the total weight -/

def cnt (l : List (Bytes × Nat)) (b : Bytes) : Nat := (l.map fun e => if e.1 = b then e.2 else 0).sum
def wsum (l : List (Bytes × Nat)) : Nat := (l.map (·.2)).sum

@[simp] theorem cnt_nil (b : Bytes) : cnt [] b = 0 := rfl
@[simp] theorem cnt_cons (e : Bytes × Nat) (l : List (Bytes × Nat)) (b : Bytes) :
    cnt (e :: l) b = (if e.1 = b then e.2 else 0) + cnt l b := by
  simp [cnt]
@[simp] theorem cnt_append (l l' : List (Bytes × Nat)) (b : Bytes) : cnt (l ++ l') b = cnt l b + cnt l' b := by
  simp [cnt]
@[simp] theorem wsum_nil : wsum [] = 0 := rfl
@[simp] theorem wsum_cons (e : Bytes × Nat) (l : List (Bytes × Nat)) : wsum (e :: l) = e.2 + wsum l := by
  simp [wsum]
@[simp] theorem wsum_append (l l' : List (Bytes × Nat)) : wsum (l ++ l') = wsum l + wsum l' := by
  simp [wsum]

theorem cnt_perm {l l' : List (Bytes × Nat)} (h : l.Perm l') (b : Bytes) : cnt l b = cnt l' b :=
  (h.map _).sum_nat
theorem wsum_perm {l l' : List (Bytes × Nat)} (h : l.Perm l') : wsum l = wsum l' :=
  (h.map _).sum_nat

theorem cnt_le_wsum (l : List (Bytes × Nat)) (b : Bytes) : cnt l b ≤ wsum l := by
  induction l with
  | nil => simp
  | cons e l ih => simp only [cnt_cons, wsum_cons]; split <;> omega

theorem cnt_eq_zero_of_not_mem {l : List (Bytes × Nat)} {b : Bytes} (h : ∀ x ∈ l, x.1 ≠ b) : cnt l b = 0 := by
  induction l with
  | nil => rfl
  | cons e l ih =>
    rw [cnt_cons, if_neg (h e (List.mem_cons_self ..)), ih fun x hx => h x (List.mem_cons_of_mem _ hx)]

theorem exists_mem_of_cnt_pos {l : List (Bytes × Nat)} {b : Bytes} (h : 0 < cnt l b) :
    ∃ c, 0 < c ∧ (b, c) ∈ l := by
  induction l with
  | nil => simp at h
  | cons e l ih =>
    rw [cnt_cons] at h
    by_cases he : e.1 = b
    · by_cases h0 : 0 < e.2
      · exact ⟨e.2, h0, by rw [← he]; exact List.mem_cons_self ..⟩
      · rw [if_pos he] at h
        obtain ⟨c, hc, hm⟩ := ih (by omega)
        exact ⟨c, hc, List.mem_cons_of_mem _ hm⟩
    · rw [if_neg he] at h
      obtain ⟨c, hc, hm⟩ := ih (by omega)
      exact ⟨c, hc, List.mem_cons_of_mem _ hm⟩

/-- keys pairwise distinct -/
abbrev KeysNodup (l : List (Bytes × Nat)) : Prop := l.Pairwise fun x y => x.1 ≠ y.1

theorem cnt_of_mem_nodup {l : List (Bytes × Nat)} (hnd : KeysNodup l) {b : Bytes} {c : Nat} (h : (b, c) ∈ l) :
    cnt l b = c := by
  induction l with
  | nil => cases h
  | cons e l ih =>
    obtain ⟨he, hl⟩ := List.pairwise_cons.1 hnd
    rcases List.mem_cons.1 h with rfl | h
    · rw [cnt_cons, if_pos rfl, cnt_eq_zero_of_not_mem fun x hx => (he x hx).symm]
      rfl
    · rw [cnt_cons, if_neg (he _ h), ih hl h]; omega

theorem cnt_le_of_nodup {l : List (Bytes × Nat)} (hnd : KeysNodup l) {d : Nat} (hd : ∀ x ∈ l, x.2 ≤ d)
    (b : Bytes) : cnt l b ≤ d := by
  induction l with
  | nil => simp
  | cons e l ih =>
    obtain ⟨he, hl⟩ := List.pairwise_cons.1 hnd
    rw [cnt_cons]
    by_cases hb : e.1 = b
    · rw [if_pos hb, cnt_eq_zero_of_not_mem fun x hx => by rw [← hb]; exact (he x hx).symm]
      exact hd e (List.mem_cons_self ..)
    · rw [if_neg hb, Nat.zero_add]
      exact ih hl fun x hx => hd x (List.mem_cons_of_mem _ hx)

theorem cnt_append_nodup {l₁ l₂ : List (Bytes × Nat)} (hnd : KeysNodup (l₁ ++ l₂)) (b : Bytes) :
    cnt l₁ b = 0 ∨ cnt l₂ b = 0 := by
  by_cases h : ∃ x ∈ l₁, x.1 = b
  · obtain ⟨x, hx, rfl⟩ := h
    right
    exact cnt_eq_zero_of_not_mem fun y hy => ((List.pairwise_append.1 hnd).2.2 x hx y hy).symm
  · left
    exact cnt_eq_zero_of_not_mem fun x hx hb => h ⟨x, hx, hb⟩

/-- subtracting `s` from every count -/
abbrev subAll (s : Nat) (l : List (Bytes × Nat)) : List (Bytes × Nat) := l.map fun (b, w) => (b, w - s)

theorem cnt_subAll_le (s : Nat) (l : List (Bytes × Nat)) (b : Bytes) : cnt (subAll s l) b ≤ cnt l b := by
  induction l with
  | nil => simp
  | cons e l ih =>
    simp only [subAll, List.map_cons, cnt_cons] at ih ⊢
    split <;> omega

theorem cnt_le_subAll {s : Nat} {l : List (Bytes × Nat)} (hnd : KeysNodup l) (b : Bytes) :
    cnt l b ≤ cnt (subAll s l) b + s := by
  induction l with
  | nil => simp
  | cons e l ih =>
    obtain ⟨he, hl⟩ := List.pairwise_cons.1 hnd
    have ih := ih hl
    simp only [subAll, List.map_cons, cnt_cons] at ih ⊢
    by_cases hb : e.1 = b
    · have : cnt l b = 0 := cnt_eq_zero_of_not_mem fun x hx => by rw [← hb]; exact (he x hx).symm
      rw [if_pos hb, if_pos hb]; omega
    · rw [if_neg hb, if_neg hb]; omega

theorem wsum_subAll {s : Nat} {l : List (Bytes × Nat)} (h : ∀ x ∈ l, s ≤ x.2) :
    wsum (subAll s l) + s * l.length = wsum l := by
  induction l with
  | nil => simp
  | cons e l ih =>
    have ih := ih fun x hx => h x (List.mem_cons_of_mem _ hx)
    have he := h e (List.mem_cons_self ..)
    simp only [subAll, List.map_cons, wsum_cons, List.length_cons, Nat.mul_succ] at ih ⊢
    omega

/-- the `while last == 0 { pop }` loop -/
abbrev stripZ (l : List (Bytes × Nat)) : List (Bytes × Nat) := (l.reverse.dropWhile (·.2 == 0)).reverse

theorem of_mem_takeWhile {α} (p : α → Bool) {x : α} : ∀ {l : List α}, x ∈ l.takeWhile p → p x = true := by
  intro l
  induction l with
  | nil => intro h; cases h
  | cons y ys ih =>
    intro h
    rw [List.takeWhile_cons] at h
    split at h
    · rcases List.mem_cons.1 h with rfl | h
      · assumption
      · exact ih h
    · cases h

theorem stripZ_spec (l : List (Bytes × Nat)) : ∃ zs, l = stripZ l ++ zs ∧ ∀ z ∈ zs, z.2 = 0 := by
  refine ⟨(l.reverse.takeWhile (·.2 == 0)).reverse, ?_, ?_⟩
  · have := congrArg List.reverse (List.takeWhile_append_dropWhile (p := fun x : Bytes × Nat => x.2 == 0) (l := l.reverse))
    rw [List.reverse_append, List.reverse_reverse] at this
    exact this.symm
  · intro z hz
    have := of_mem_takeWhile _ (List.mem_reverse.1 hz)
    simpa using this

theorem cnt_zeros {zs : List (Bytes × Nat)} (h : ∀ z ∈ zs, z.2 = 0) (b : Bytes) : cnt zs b = 0 := by
  induction zs with
  | nil => rfl
  | cons e l ih =>
    rw [cnt_cons, ih fun z hz => h z (List.mem_cons_of_mem _ hz), h e (List.mem_cons_self ..)]
    simp
theorem wsum_zeros {zs : List (Bytes × Nat)} (h : ∀ z ∈ zs, z.2 = 0) : wsum zs = 0 := by
  induction zs with
  | nil => rfl
  | cons e l ih =>
    rw [wsum_cons, ih fun z hz => h z (List.mem_cons_of_mem _ hz), h e (List.mem_cons_self ..)]

theorem cnt_stripZ (l : List (Bytes × Nat)) (b : Bytes) : cnt (stripZ l) b = cnt l b := by
  obtain ⟨zs, h1, h2⟩ := stripZ_spec l
  conv => rhs; rw [h1]
  rw [cnt_append, cnt_zeros h2]; rfl
theorem wsum_stripZ (l : List (Bytes × Nat)) : wsum (stripZ l) = wsum l := by
  obtain ⟨zs, h1, h2⟩ := stripZ_spec l
  conv => rhs; rw [h1]
  rw [wsum_append, wsum_zeros h2]; rfl
theorem length_stripZ_le (l : List (Bytes × Nat)) : (stripZ l).length ≤ l.length := by
  simp only [stripZ, List.length_reverse]
  exact (List.dropWhile_sublist _).length_le.trans (by simp)

/-! ### `consolidate`: keeps every key's weight, makes keys distinct, drops zeros -/

theorem consStep_nil (kc : Bytes × Nat) : consStep [] kc = [kc] := rfl

theorem consStep_concat (ys : List (Bytes × Nat)) (k' : Bytes) (c' : Nat) (k : Bytes) (c : Nat) :
    consStep (ys ++ [(k', c')]) (k, c) =
      if k' = k then ys ++ [(k, c' + c)] else ys ++ [(k', c'), (k, c)] := by
  unfold consStep
  simp only [List.getLast?_concat, List.dropLast_concat, beq_iff_eq, List.append_assoc, List.cons_append,
    List.nil_append]

theorem list_nil_or_concat {α} (l : List α) : l = [] ∨ ∃ ys y, l = ys ++ [y] := by
  rcases List.eq_nil_or_concat l with h | ⟨ys, y, h⟩
  · exact Or.inl h
  · exact Or.inr ⟨ys, y, by rw [h, List.concat_eq_append]⟩

theorem cnt_consStep (acc : List (Bytes × Nat)) (kc : Bytes × Nat) (b : Bytes) :
    cnt (consStep acc kc) b = cnt acc b + cnt [kc] b := by
  obtain ⟨k, c⟩ := kc
  rcases list_nil_or_concat acc with rfl | ⟨ys, ⟨k', c'⟩, rfl⟩
  · rw [consStep_nil]; simp
  · rw [consStep_concat]
    split
    · rename_i h; subst h
      simp only [cnt_append, cnt_cons, cnt_nil]
      split <;> omega
    · simp only [cnt_append, cnt_cons, cnt_nil]
      omega

theorem wsum_consStep (acc : List (Bytes × Nat)) (kc : Bytes × Nat) :
    wsum (consStep acc kc) = wsum acc + kc.2 := by
  obtain ⟨k, c⟩ := kc
  rcases list_nil_or_concat acc with rfl | ⟨ys, ⟨k', c'⟩, rfl⟩
  · rw [consStep_nil]; simp
  · rw [consStep_concat]
    split <;> simp only [wsum_append, wsum_cons, wsum_nil] <;> omega

theorem length_consStep_le (acc : List (Bytes × Nat)) (kc : Bytes × Nat) :
    (consStep acc kc).length ≤ acc.length + 1 := by
  obtain ⟨k, c⟩ := kc
  rcases list_nil_or_concat acc with rfl | ⟨ys, ⟨k', c'⟩, rfl⟩
  · rw [consStep_nil]; simp
  · rw [consStep_concat]
    split <;> simp

theorem consStep_foldl_weights : ∀ (l acc : List (Bytes × Nat)),
    (∀ b, cnt (l.foldl consStep acc) b = cnt acc b + cnt l b) ∧
    wsum (l.foldl consStep acc) = wsum acc + wsum l ∧
    (l.foldl consStep acc).length ≤ acc.length + l.length := by
  intro l
  induction l with
  | nil => intro acc; simp
  | cons kc l ih =>
    intro acc
    obtain ⟨h1, h2, h3⟩ := ih (consStep acc kc)
    simp only [List.foldl_cons]
    refine ⟨fun b => ?_, ?_, ?_⟩
    · rw [h1, cnt_consStep]; simp only [cnt_cons, cnt_nil]; omega
    · rw [h2, wsum_consStep, wsum_cons]; omega
    · have := length_consStep_le acc kc
      simp only [List.length_cons]; omega

/-- the loop invariant that makes the keys distinct: only the last key of `acc` can recur in `rest` -/
structure ConsInv (acc rest : List (Bytes × Nat)) : Prop where
  nodup : KeysNodup acc
  front : ∀ x ∈ acc.dropLast, ∀ y ∈ rest, x.1 ≠ y.1
  le : ∀ x ∈ acc, ∀ y ∈ rest, bytesLt y.1 x.1 = false
  sorted : rest.Pairwise fun a b => bytesLt b.1 a.1 = false

theorem ConsInv.step {acc rest : List (Bytes × Nat)} {kc : Bytes × Nat} (h : ConsInv acc (kc :: rest)) :
    ConsInv (consStep acc kc) rest := by
  obtain ⟨hnd, hfront, hle, hsorted⟩ := h
  obtain ⟨hkc, hsorted'⟩ := List.pairwise_cons.1 hsorted
  obtain ⟨k, c⟩ := kc
  rcases list_nil_or_concat acc with rfl | ⟨ys, ⟨k', c'⟩, rfl⟩
  · rw [consStep_nil]
    refine ⟨List.pairwise_singleton _ _, ?_, ?_, hsorted'⟩
    · intro x hx; cases hx
    · intro x hx y hy
      simp only [List.mem_singleton] at hx
      subst hx
      exact hkc y hy
  · rw [List.dropLast_concat] at hfront
    obtain ⟨hys, _, hyk⟩ := List.pairwise_append.1 hnd
    rw [consStep_concat]
    split
    · rename_i hk; subst hk
      refine ⟨?_, ?_, ?_, hsorted'⟩
      · refine List.pairwise_append.2 ⟨hys, List.pairwise_singleton _ _, ?_⟩
        intro x hx y hy
        simp only [List.mem_singleton] at hy
        subst hy
        exact hyk x hx (k', c') (List.mem_singleton.2 rfl)
      · rw [List.dropLast_concat]
        intro x hx y hy
        exact hfront x hx y (List.mem_cons_of_mem _ hy)
      · intro x hx y hy
        rcases List.mem_append.1 hx with hx | hx
        · exact hle x (List.mem_append_left _ hx) y (List.mem_cons_of_mem _ hy)
        · simp only [List.mem_singleton] at hx
          subst hx
          exact hkc y hy
    · rename_i hk
      have hacc : ∀ x ∈ ys ++ [(k', c')], x.1 ≠ k := by
        intro x hx
        rcases List.mem_append.1 hx with hx | hx
        · exact hfront x hx (k, c) (List.mem_cons_self ..)
        · simp only [List.mem_singleton] at hx
          subst hx; exact hk
      have e : ys ++ [(k', c'), (k, c)] = (ys ++ [(k', c')]) ++ [(k, c)] := by simp
      rw [e]
      refine ⟨?_, ?_, ?_, hsorted'⟩
      · refine List.pairwise_append.2 ⟨hnd, List.pairwise_singleton _ _, ?_⟩
        intro x hx y hy
        simp only [List.mem_singleton] at hy
        subst hy
        exact hacc x hx
      · rw [List.dropLast_concat]
        intro x hx y hy
        rcases List.mem_append.1 hx with hx | hx
        · exact hfront x hx y (List.mem_cons_of_mem _ hy)
        · simp only [List.mem_singleton] at hx
          subst hx
          intro hky
          dsimp only at hky
          -- k' ≤ k ≤ y.1 = k' forces k = k'
          have h1 : bytesLt k k' = false := hle (k', c') (List.mem_append_right _ (List.mem_singleton.2 rfl)) (k, c) (List.mem_cons_self ..)
          have h2 : bytesLt y.1 k = false := hkc y hy
          rw [← hky] at h2
          exact hk (bytesLt_antisymm _ _ h2 h1)
      · intro x hx y hy
        rcases List.mem_append.1 hx with hx | hx
        · exact hle x hx y (List.mem_cons_of_mem _ hy)
        · simp only [List.mem_singleton] at hx
          subst hx
          exact hkc y hy

theorem ConsInv.foldl : ∀ {rest acc : List (Bytes × Nat)}, ConsInv acc rest → KeysNodup (rest.foldl consStep acc) := by
  intro rest
  induction rest with
  | nil => intro acc h; exact h.nodup
  | cons kc rest ih => intro acc h; exact ih h.step

theorem consolidate_cnt (l : List (Bytes × Nat)) (b : Bytes) : cnt (consolidate l) b = cnt l b := by
  rw [consolidate_eq]
  have hf : ∀ l' : List (Bytes × Nat), cnt (l'.filter (·.2 != 0)) b = cnt l' b := by
    intro l'
    induction l' with
    | nil => rfl
    | cons e l' ih =>
      by_cases he : e.2 = 0
      · rw [List.filter_cons_of_neg (by simp [he]), ih, cnt_cons, he]; simp
      · rw [List.filter_cons_of_pos (by simp [he]), cnt_cons, cnt_cons, ih]
  rw [hf, (consStep_foldl_weights _ []).1 b, cnt_nil, Nat.zero_add, cnt_perm (sortBy_perm _ l)]

theorem consolidate_wsum (l : List (Bytes × Nat)) : wsum (consolidate l) = wsum l := by
  rw [consolidate_eq]
  have hf : ∀ l' : List (Bytes × Nat), wsum (l'.filter (·.2 != 0)) = wsum l' := by
    intro l'
    induction l' with
    | nil => rfl
    | cons e l' ih =>
      by_cases he : e.2 = 0
      · rw [List.filter_cons_of_neg (by simp [he]), ih, wsum_cons, he]; simp
      · rw [List.filter_cons_of_pos (by simp [he]), wsum_cons, wsum_cons, ih]
  rw [hf, (consStep_foldl_weights _ []).2.1, wsum_nil, Nat.zero_add, wsum_perm (sortBy_perm _ l)]

theorem consolidate_length_le (l : List (Bytes × Nat)) : (consolidate l).length ≤ l.length := by
  rw [consolidate_eq]
  refine (List.length_filter_le _ _).trans ?_
  have := (consStep_foldl_weights (sortBy (fun x y => bytesLt x.1 y.1) l) []).2.2
  rw [(sortBy_perm _ l).length_eq] at this
  simpa using this

theorem consolidate_nodup (l : List (Bytes × Nat)) : KeysNodup (consolidate l) := by
  rw [consolidate_eq]
  refine List.Pairwise.sublist (List.filter_sublist) ?_
  exact ConsInv.foldl ⟨List.Pairwise.nil, fun x hx => (by cases hx), fun x hx => (by cases hx), sortKey_sorted l⟩

theorem consolidate_ne_zero (l : List (Bytes × Nat)) : ∀ e ∈ consolidate l, e.2 ≠ 0 := by
  intro e he
  rw [consolidate_eq] at he
  simpa using (List.mem_filter.1 he).2

/-! ### the compaction, for a generic `k` -/

/-- consolidated and sorted by count, descending: what `done` returns and `tidy` starts from -/
abbrev ranked (l : List (Bytes × Nat)) : List (Bytes × Nat) := sortBy (fun x y => y.2 < x.2) (consolidate l)

theorem MG.done_eq_ranked (m : MG) : m.done = ranked m.inner := rfl

theorem ranked_perm (l : List (Bytes × Nat)) : (ranked l).Perm (consolidate l) := sortBy_perm _ _
theorem ranked_cnt (l : List (Bytes × Nat)) (b : Bytes) : cnt (ranked l) b = cnt l b := by
  rw [cnt_perm (ranked_perm l), consolidate_cnt]
theorem ranked_wsum (l : List (Bytes × Nat)) : wsum (ranked l) = wsum l := by
  rw [wsum_perm (ranked_perm l), consolidate_wsum]
theorem ranked_length_le (l : List (Bytes × Nat)) : (ranked l).length ≤ l.length := by
  rw [(ranked_perm l).length_eq]; exact consolidate_length_le l
theorem ranked_nodup (l : List (Bytes × Nat)) : KeysNodup (ranked l) :=
  ((ranked_perm l).pairwise_iff (fun {a b} (h : a.1 ≠ b.1) => h.symm)).2 (consolidate_nodup l)
theorem ranked_ne_zero (l : List (Bytes × Nat)) : ∀ e ∈ ranked l, e.2 ≠ 0 :=
  fun e he => consolidate_ne_zero l e ((ranked_perm l).mem_iff.1 he)
theorem ranked_sorted (l : List (Bytes × Nat)) : (ranked l).Pairwise fun a b => b.2 ≤ a.2 := sortDesc_sorted _

/-- `MG.tidy` with `k` as a parameter -/
def MG.tidyK (k : Nat) (m : MG) : MG :=
  let l := ranked m.inner
  if l.length > k then
    let sub := (l[k]!).2 - 1
    let l := (l.take k).map fun (b, w) => (b, w - sub)
    ⟨(l.reverse.dropWhile (·.2 == 0)).reverse⟩
  else ⟨l⟩

/-- `MG.update` with the capacity as a parameter -/
def MG.updateK (cap : Nat) (m : MG) (b : Bytes) (c : Nat) : MG :=
  let m' : MG := ⟨m.inner ++ [(b, c)]⟩
  if m'.inner.length == cap then m'.tidyK (cap / 2) else m'

theorem MG.tidy_eq_tidyK (m : MG) : m.tidy = m.tidyK MG.k := rfl
theorem MG.update_eq_updateK (m : MG) (b : Bytes) (c : Nat) : m.update b c = m.updateK MG.cap b c := rfl

/-- ghost: the largest weight a single key can lose in this compaction, `l[k].2` (= `sub + 1`) if anything
is dropped, else `0` -/
def MG.tidyLoss (k : Nat) (m : MG) : Nat :=
  let l := ranked m.inner
  if l.length > k then (l[k]!).2 else 0

theorem MG.tidyK_of_le {k : Nat} {m : MG} (h : (ranked m.inner).length ≤ k) :
    m.tidyK k = ⟨ranked m.inner⟩ ∧ m.tidyLoss k = 0 := by
  unfold MG.tidyK MG.tidyLoss
  dsimp only
  rw [if_neg (by omega), if_neg (by omega)]
  exact ⟨rfl, rfl⟩

theorem MG.tidyK_of_gt {k : Nat} {m : MG} (h : k < (ranked m.inner).length) :
    m.tidyK k = ⟨stripZ (subAll ((ranked m.inner)[k].2 - 1) ((ranked m.inner).take k))⟩ ∧
    m.tidyLoss k = (ranked m.inner)[k].2 := by
  unfold MG.tidyK MG.tidyLoss
  dsimp only
  rw [if_pos h, if_pos h, getElem!_pos _ k h]
  exact ⟨rfl, rfl⟩

/-- the arithmetic of one dropping compaction on the ranked list `l₁ ++ e :: l₂` (`l₁` the first `k`
entries, `e` entry `k`): each key loses at most `e.2`, and at least `(k+1)·e.2 - k` weight disappears -/
theorem drop_core {l₁ l₂ : List (Bytes × Nat)} {e : Bytes × Nat} (hnd : KeysNodup (l₁ ++ e :: l₂))
    (h1 : ∀ x ∈ l₁, e.2 ≤ x.2) (h2 : ∀ x ∈ l₂, x.2 ≤ e.2) (hpos : e.2 ≠ 0) :
    (∀ b, cnt (subAll (e.2 - 1) l₁) b ≤ cnt (l₁ ++ e :: l₂) b ∧
          cnt (l₁ ++ e :: l₂) b ≤ cnt (subAll (e.2 - 1) l₁) b + e.2) ∧
    wsum (subAll (e.2 - 1) l₁) + (l₁.length + 1) * e.2 ≤ wsum (l₁ ++ e :: l₂) + l₁.length := by
  obtain ⟨hnd1, hnd2, _⟩ := List.pairwise_append.1 hnd
  refine ⟨fun b => ⟨?_, ?_⟩, ?_⟩
  · have := cnt_subAll_le (e.2 - 1) l₁ b
    rw [cnt_append]; omega
  · have hA := cnt_le_subAll (s := e.2 - 1) hnd1 b
    have hB : cnt (e :: l₂) b ≤ e.2 := cnt_le_of_nodup hnd2 (by
      intro x hx
      rcases List.mem_cons.1 hx with rfl | hx
      · exact Nat.le_refl _
      · exact h2 x hx) b
    rw [cnt_append]
    rcases cnt_append_nodup hnd b with h0 | h0 <;> omega
  · have hW := wsum_subAll (s := e.2 - 1) (l := l₁) (fun x hx => by have := h1 x hx; omega)
    rw [wsum_append, wsum_cons]
    have hd : e.2 = (e.2 - 1) + 1 := by omega
    generalize e.2 - 1 = s at hW hd ⊢
    rw [hd]
    have : (l₁.length + 1) * (s + 1) = s * l₁.length + l₁.length + s + 1 := by ring
    omega

/-- what one compaction does to the weights: no key gains, no key loses more than `tidyLoss`, and
(when the raw list was at least `2k` long) the potential `(k+1)·loss + weight + length` does not grow -/
theorem MG.tidyK_spec (k : Nat) (m : MG) :
    (∀ b, cnt (m.tidyK k).inner b ≤ cnt m.inner b ∧ cnt m.inner b ≤ cnt (m.tidyK k).inner b + m.tidyLoss k) ∧
    (2 * k ≤ m.inner.length →
      (k + 1) * m.tidyLoss k + wsum (m.tidyK k).inner + (m.tidyK k).inner.length ≤ wsum m.inner + m.inner.length) ∧
    (m.tidyK k).inner.length ≤ m.inner.length ∧ wsum (m.tidyK k).inner ≤ wsum m.inner := by
  by_cases h : (ranked m.inner).length ≤ k
  · obtain ⟨e1, e2⟩ := MG.tidyK_of_le h
    rw [e1, e2]
    dsimp only
    have hl := ranked_length_le m.inner
    refine ⟨fun b => ?_, fun _ => ?_, hl, ?_⟩
    · rw [ranked_cnt]; omega
    · rw [ranked_wsum]; omega
    · rw [ranked_wsum]
  · have h : k < (ranked m.inner).length := by omega
    obtain ⟨e1, e2⟩ := MG.tidyK_of_gt h
    rw [e1, e2]
    dsimp only
    have hsplit : ranked m.inner = (ranked m.inner).take k ++ (ranked m.inner)[k] :: (ranked m.inner).drop (k + 1) := by
      rw [← List.drop_eq_getElem_cons h, List.take_append_drop]
    have hnd := ranked_nodup m.inner
    have hsorted := ranked_sorted m.inner
    have hpos := ranked_ne_zero m.inner _ (List.getElem_mem h)
    have hlen : ((ranked m.inner).take k).length = k := by rw [List.length_take]; omega
    have hrl := ranked_length_le m.inner
    generalize (ranked m.inner)[k] = e at *
    generalize hl₁ : (ranked m.inner).take k = l₁ at *
    generalize (ranked m.inner).drop (k + 1) = l₂ at *
    rw [hsplit] at hnd hsorted
    obtain ⟨_, hs2, hs3⟩ := List.pairwise_append.1 hsorted
    obtain ⟨hs4, _⟩ := List.pairwise_cons.1 hs2
    obtain ⟨hc, hw⟩ := drop_core hnd (fun x hx => hs3 x hx e (List.mem_cons_self ..)) hs4 hpos
    have hcnt : ∀ b, cnt m.inner b = cnt (l₁ ++ e :: l₂) b := by
      intro b; rw [← hsplit, ranked_cnt]
    have hws : wsum m.inner = wsum (l₁ ++ e :: l₂) := by rw [← hsplit, ranked_wsum]
    have hsl := length_stripZ_le (subAll (e.2 - 1) l₁)
    rw [List.length_map, hlen] at hsl
    rw [hlen] at hw
    refine ⟨fun b => ?_, fun h2k => ?_, by omega, ?_⟩
    · rw [cnt_stripZ, hcnt]; exact hc b
    · rw [wsum_stripZ, hws]
      omega
    · rw [wsum_stripZ, hws]
      have : k + 1 ≤ (k + 1) * e.2 := Nat.le_mul_of_pos_right _ (by omega)
      omega

/-! ### the run, with the ghost error budget `D` -/

/-- one `update`, threading the ghost `D` = total of the per-compaction losses -/
def MG.stepG (cap : Nat) (s : MG × Nat) (bc : Bytes × Nat) : MG × Nat :=
  let m' : MG := ⟨s.1.inner ++ [bc]⟩
  if m'.inner.length == cap then (m'.tidyK (cap / 2), s.2 + m'.tidyLoss (cap / 2)) else (m', s.2)

theorem MG.stepG_fst (cap : Nat) (s : MG × Nat) (bc : Bytes × Nat) :
    (MG.stepG cap s bc).1 = s.1.updateK cap bc.1 bc.2 := by
  unfold MG.stepG MG.updateK
  dsimp only
  split <;> rfl

/-- the invariant of the summary `m` with ghost `D` after the insertions `ops` -/
structure MGInv (k : Nat) (ops : List (Bytes × Nat)) (m : MG) (D : Nat) : Prop where
  /-- never over-counts -/
  le : ∀ b, cnt m.inner b ≤ cnt ops b
  /-- under-counts by at most `D` -/
  ge : ∀ b, cnt ops b ≤ cnt m.inner b + D
  /-- the accounting inequality -/
  pot : (k + 1) * D + wsum m.inner + m.inner.length ≤ wsum ops + ops.length
  /-- the summary never holds more weight than was inserted -/
  wle : wsum m.inner ≤ wsum ops

theorem MGInv.init (k : Nat) : MGInv k [] ⟨[]⟩ 0 :=
  ⟨fun _ => Nat.le_refl _, fun _ => Nat.le_refl _, by simp, Nat.le_refl _⟩

theorem MGInv.step {cap : Nat} {ops : List (Bytes × Nat)} {m : MG} {D : Nat} (h : MGInv (cap / 2) ops m D)
    (bc : Bytes × Nat) : MGInv (cap / 2) (ops ++ [bc]) (MG.stepG cap (m, D) bc).1 (MG.stepG cap (m, D) bc).2 := by
  obtain ⟨hle, hge, hpot, hwle⟩ := h
  have happ : MGInv (cap / 2) (ops ++ [bc]) ⟨m.inner ++ [bc]⟩ D := by
    refine ⟨fun b => ?_, fun b => ?_, ?_, ?_⟩
    · have := hle b; simp only [cnt_append]; omega
    · have := hge b; simp only [cnt_append]; omega
    · simp only [wsum_append, List.length_append, wsum_cons, wsum_nil, List.length_singleton]; omega
    · simp only [wsum_append]; omega
  unfold MG.stepG
  dsimp only
  split
  · rename_i hcap
    have hcap : (m.inner ++ [bc]).length = cap := by simpa using hcap
    obtain ⟨hle', hge', hpot', hwle'⟩ := happ
    obtain ⟨t1, t2, _, t4⟩ := MG.tidyK_spec (cap / 2) ⟨m.inner ++ [bc]⟩
    have t2 := t2 (by dsimp only; omega)
    dsimp only at t1 t2 t4 hle' hge' hpot' hwle' ⊢
    refine ⟨fun b => ?_, fun b => ?_, ?_, ?_⟩
    · have := (t1 b).1; have := hle' b; omega
    · have := (t1 b).2; have := hge' b; omega
    · rw [Nat.mul_add]; omega
    · omega
  · exact happ

/-- the ghost-instrumented run from the empty summary -/
def MG.runGK (cap : Nat) (ops : List (Bytes × Nat)) : MG × Nat := ops.foldl (MG.stepG cap) (⟨[]⟩, 0)
/-- the run from the empty summary -/
def MG.runK (cap : Nat) (ops : List (Bytes × Nat)) : MG := ops.foldl (fun m (b, c) => m.updateK cap b c) ⟨[]⟩

theorem MG.runGK_fst (cap : Nat) (ops : List (Bytes × Nat)) : (MG.runGK cap ops).1 = MG.runK cap ops := by
  unfold MG.runGK MG.runK
  have key : ∀ (ops : List (Bytes × Nat)) (s : MG × Nat),
      (ops.foldl (MG.stepG cap) s).1 = ops.foldl (fun m (b, c) => m.updateK cap b c) s.1 := by
    intro ops
    induction ops with
    | nil => intro s; rfl
    | cons bc ops ih =>
      intro s
      simp only [List.foldl_cons]
      rw [ih, MG.stepG_fst]
  exact key ops _

theorem MGInv.foldl {cap : Nat} : ∀ (ops pre : List (Bytes × Nat)) (s : MG × Nat), MGInv (cap / 2) pre s.1 s.2 →
    MGInv (cap / 2) (pre ++ ops) (ops.foldl (MG.stepG cap) s).1 (ops.foldl (MG.stepG cap) s).2 := by
  intro ops
  induction ops with
  | nil => intro pre s h; simpa using h
  | cons bc ops ih =>
    intro pre s h
    simp only [List.foldl_cons]
    have := ih (pre ++ [bc]) (MG.stepG cap s bc) (h.step bc)
    simpa using this

/-- the invariant holds after every run -/
theorem MG.runGK_inv (cap : Nat) (ops : List (Bytes × Nat)) :
    MGInv (cap / 2) ops (MG.runK cap ops) (MG.runGK cap ops).2 := by
  have := MGInv.foldl (cap := cap) ops [] (⟨[]⟩, 0) (MGInv.init _)
  rw [← MG.runGK_fst]
  simpa [MG.runGK] using this

/-- the invariant with the ghost eliminated, for every capacity -/
theorem MG.runK_bound (cap : Nat) (ops : List (Bytes × Nat)) (b : Bytes) :
    (cap / 2 + 1) * cnt ops b + wsum (MG.runK cap ops).inner + (MG.runK cap ops).inner.length ≤
      (cap / 2 + 1) * cnt (MG.runK cap ops).inner b + wsum ops + ops.length := by
  obtain ⟨_, hge, hpot, _⟩ := MG.runGK_inv cap ops
  have h := Nat.mul_le_mul_left (cap / 2 + 1) (hge b)
  rw [Nat.mul_add] at h
  generalize cap / 2 + 1 = K at *
  generalize (MG.runGK cap ops).2 = D at *
  omega

/-! ### the crate's summary (`cap = MG.cap`, `k = MG.k = MG.cap / 2`; 1024 and 512 in the crate as verified) -/

/-- the weight inserted for `b` -/
abbrev trueCount (ops : List (Bytes × Nat)) (b : Bytes) : Nat := cnt ops b
/-- all the weight inserted -/
abbrev total (ops : List (Bytes × Nat)) : Nat := wsum ops
/-- the summary's estimate for `b`: its summed weight in the raw list (= its count after `consolidate`) -/
abbrev est (m : MG) (b : Bytes) : Nat := cnt m.inner b

/-- `update` each of `ops` in turn, starting from `m` -/
def MG.runFrom (m : MG) (ops : List (Bytes × Nat)) : MG := ops.foldl (fun m (b, c) => m.update b c) m
/-- the summary after inserting `ops` into `MisraGries::default()` -/
def run (ops : List (Bytes × Nat)) : MG := MG.runFrom ⟨[]⟩ ops
/-- … with the ghost error budget -/
def runG (ops : List (Bytes × Nat)) : MG × Nat := MG.runGK MG.cap ops

theorem run_eq_runK (ops : List (Bytes × Nat)) : run ops = MG.runK MG.cap ops := rfl
theorem runG_fst (ops : List (Bytes × Nat)) : (runG ops).1 = run ops := MG.runGK_fst MG.cap ops

theorem MG.runFrom_append (m : MG) (l l' : List (Bytes × Nat)) :
    MG.runFrom m (l ++ l') = MG.runFrom (MG.runFrom m l) l' := by
  unfold MG.runFrom; rw [List.foldl_append]

/-- the invariant of the summary, at the crate's parameters -/
theorem mg_invariant (ops : List (Bytes × Nat)) : MGInv MG.k ops (run ops) (runG ops).2 :=
  MG.runGK_inv MG.cap ops

/-- the estimate after consolidation is the estimate -/
theorem est_consolidate (m : MG) (b : Bytes) : cnt (consolidate m.inner) b = est m b := consolidate_cnt _ _
theorem est_done (m : MG) (b : Bytes) : cnt m.done b = est m b := ranked_cnt _ _

/-- `done` lists exactly the keys with a non-zero estimate, each once, with that estimate -/
theorem MG.mem_done_iff (m : MG) (b : Bytes) (c : Nat) : (b, c) ∈ m.done ↔ c = est m b ∧ c ≠ 0 := by
  constructor
  · intro h
    refine ⟨?_, ranked_ne_zero m.inner _ h⟩
    rw [← est_done, MG.done_eq_ranked, cnt_of_mem_nodup (ranked_nodup m.inner) h]
  · rintro ⟨rfl, h0⟩
    obtain ⟨c, _, hc⟩ := exists_mem_of_cnt_pos (l := m.done) (b := b) (by rw [est_done]; omega)
    have := cnt_of_mem_nodup (ranked_nodup m.inner) hc
    rw [← est_done, MG.done_eq_ranked, this]; exact hc

theorem MG.done_nodup (m : MG) : KeysNodup m.done := ranked_nodup _
theorem MG.done_sorted (m : MG) : m.done.Pairwise fun a b => b.2 ≤ a.2 := ranked_sorted _
theorem MG.done_wsum (m : MG) : wsum m.done = wsum m.inner := ranked_wsum _
theorem MG.done_length_le (m : MG) : m.done.length ≤ m.inner.length := ranked_length_le _

/-- the invariant with the ghost eliminated -/
theorem mg_bound (ops : List (Bytes × Nat)) (b : Bytes) :
    (MG.k + 1) * trueCount ops b + wsum (run ops).inner + (run ops).inner.length ≤
      (MG.k + 1) * est (run ops) b + total ops + ops.length :=
  MG.runK_bound MG.cap ops b

theorem length_le_wsum {ops : List (Bytes × Nat)} (h : ∀ e ∈ ops, e.2 ≠ 0) : ops.length ≤ wsum ops := by
  induction ops with
  | nil => simp
  | cons e l ih =>
    have := ih fun x hx => h x (List.mem_cons_of_mem _ hx)
    have := h e (List.mem_cons_self ..)
    simp only [List.length_cons, wsum_cons]; omega

/-! ### composition: summaries of summaries (`new_from`) -/

theorem cnt_flatten (ls : List (List (Bytes × Nat))) (b : Bytes) :
    cnt ls.flatten b = (ls.map (cnt · b)).sum := by
  induction ls with
  | nil => rfl
  | cons l ls ih => simp only [List.flatten_cons, cnt_append, List.map_cons, List.sum_cons, ih]
theorem wsum_flatten (ls : List (List (Bytes × Nat))) : wsum ls.flatten = (ls.map wsum).sum := by
  induction ls with
  | nil => rfl
  | cons l ls ih => simp only [List.flatten_cons, wsum_append, List.map_cons, List.sum_cons, ih]

theorem mergedMG_eq_run (srcs : List Dict) : mergedMG srcs = run (srcs.map (·.mg.done)).flatten := by
  unfold mergedMG run
  have key : ∀ (srcs : List Dict) (m : MG),
      srcs.foldl (fun (m : MG) s => s.mg.done.foldl (fun m (b, c) => m.update b c) m) m =
        MG.runFrom m (srcs.map (·.mg.done)).flatten := by
    intro srcs
    induction srcs with
    | nil => intro m; rfl
    | cons s srcs ih =>
      intro m
      simp only [List.foldl_cons, List.map_cons, List.flatten_cons]
      rw [ih, MG.runFrom_append]
      rfl
  exact key srcs _

/-- the sources' bounds added up (`K = MG.k + 1`): `Σ (K·trueCountₛ + weightₛ + lengthₛ) ≤ Σ (K·estₛ + totalₛ + nₛ)`, with
the middle terms expressed through the concatenated `done` lists (the operations of the merge) -/
theorem sources_bound (opss : List (List (Bytes × Nat))) (b : Bytes) :
    (MG.k + 1) * (opss.map (trueCount · b)).sum + wsum (opss.map fun o => (run o).done).flatten +
        (opss.map fun o => (run o).done).flatten.length ≤
      (MG.k + 1) * cnt (opss.map fun o => (run o).done).flatten b + (opss.map fun o => total o + o.length).sum := by
  have hb := fun o => mg_bound o b
  generalize MG.k + 1 = K at hb ⊢
  induction opss with
  | nil => simp
  | cons o opss ih =>
    have h1 := hb o
    have h2 := est_done (run o) b
    have h3 := MG.done_wsum (run o)
    have h4 := MG.done_length_le (run o)
    simp only [List.map_cons, List.sum_cons, List.flatten_cons, wsum_append, cnt_append, List.length_append]
    simp only [trueCount, total, est, Nat.mul_add] at *
    rw [h2]
    omega

/-- Misra–Gries summaries compose without extra loss: summarising the `done` lists of the summaries of
`opss` under-counts `b` by at most `(Σ totalₛ + nₛ) / (MG.k + 1)` overall -/
theorem merge_bound (opss : List (List (Bytes × Nat))) (b : Bytes) :
    (MG.k + 1) * (opss.map (trueCount · b)).sum ≤
      (MG.k + 1) * est (run (opss.map fun o => (run o).done).flatten) b + (opss.map fun o => total o + o.length).sum := by
  have h1 := sources_bound opss b
  have h2 := mg_bound (opss.map fun o => (run o).done).flatten b
  simp only [trueCount, total, est] at *
  omega

/-- the merge never over-counts either -/
theorem merge_le (opss : List (List (Bytes × Nat))) (b : Bytes) :
    est (run (opss.map fun o => (run o).done).flatten) b ≤ (opss.map (trueCount · b)).sum := by
  refine ((mg_invariant _).le b).trans ?_
  rw [cnt_flatten, List.map_map]
  induction opss with
  | nil => simp
  | cons o opss ih =>
    have h1 := (mg_invariant o).le b
    have h2 := est_done (run o) b
    simp only [List.map_cons, List.sum_cons, Function.comp_apply, trueCount, est] at *
    omega

/-- … and holds at most the sources' weight -/
theorem merge_wsum_le (opss : List (List (Bytes × Nat))) :
    wsum (run (opss.map fun o => (run o).done).flatten).inner ≤ (opss.map total).sum := by
  refine (mg_invariant _).wle.trans ?_
  rw [wsum_flatten, List.map_map]
  induction opss with
  | nil => simp
  | cons o opss ih =>
    have h1 := (mg_invariant o).wle
    have h2 := MG.done_wsum (run o)
    simp only [List.map_cons, List.sum_cons, Function.comp_apply, total] at *
    omega

/-! ### position in the ranked list -/

theorem wsum_ge_of_all_ge {l : List (Bytes × Nat)} {c : Nat} (h : ∀ x ∈ l, c ≤ x.2) : c * l.length ≤ wsum l := by
  induction l with
  | nil => simp
  | cons e l ih =>
    have := ih fun x hx => h x (List.mem_cons_of_mem _ hx)
    have := h e (List.mem_cons_self ..)
    simp only [List.length_cons, wsum_cons, Nat.mul_succ]; omega

/-- in a list ranked by count, an entry whose count times `F + 1` exceeds the whole weight is among the
first `F` -/
theorem mem_take_of_heavy {l : List (Bytes × Nat)} (hs : l.Pairwise fun a b => b.2 ≤ a.2) {e : Bytes × Nat}
    (he : e ∈ l) {F : Nat} (h : wsum l < (F + 1) * e.2) : e ∈ l.take F := by
  rw [← List.take_append_drop F l] at he hs
  rcases List.mem_append.1 he with he | he
  · exact he
  · exfalso
    obtain ⟨_, _, h3⟩ := List.pairwise_append.1 hs
    have h1 := wsum_ge_of_all_ge (l := l.take F) (c := e.2) fun x hx => h3 x hx e he
    have hlen : (l.take F).length = F := by
      rw [List.length_take]
      have : 0 < (l.drop F).length := List.length_pos_of_mem he
      rw [List.length_drop] at this
      omega
    have h2 : e.2 ≤ wsum (l.drop F) := by
      obtain ⟨s, t, hst⟩ := List.append_of_mem he
      rw [hst, wsum_append, wsum_cons]; omega
    have h4 : wsum l = wsum (l.take F) + wsum (l.drop F) := by
      rw [← wsum_append, List.take_append_drop]
    rw [hlen] at h1
    have : (F + 1) * e.2 = e.2 * F + e.2 := by ring
    omega

/-! ### the dictionary level -/

/-- the insertions `encode` performs for the pushed strings `bs`: one unit per non-empty string -/
abbrev pushOps (bs : List Bytes) : List (Bytes × Nat) := (bs.filter (· ≠ [])).map (·, 1)

theorem Dict.observe_foldl_mg_runFrom : ∀ (bs : List Bytes) (d : Dict),
    (bs.foldl Dict.observe d).mg = MG.runFrom d.mg (pushOps bs) := by
  intro bs
  induction bs with
  | nil => intro d; rfl
  | cons b bs ih =>
    intro d
    simp only [List.foldl_cons]
    rw [ih]
    cases b with
    | nil => rfl
    | cons t tl =>
      have : pushOps ((t :: tl) :: bs) = (t :: tl, 1) :: pushOps bs := by
        simp [pushOps]
      rw [this]
      rfl

/-- a dictionary that started with empty statistics and saw `bs` holds the summary `run (pushOps bs)` -/
theorem Dict.observe_foldl_mg_run (bs : List Bytes) (d : Dict) (h0 : d.mg = ⟨[]⟩) :
    (bs.foldl Dict.observe d).mg = run (pushOps bs) := by
  rw [Dict.observe_foldl_mg_runFrom, h0]; rfl

theorem pushOps_cnt (bs : List Bytes) {b : Bytes} (hb : b ≠ []) : cnt (pushOps bs) b = bs.count b := by
  induction bs with
  | nil => rfl
  | cons x bs ih =>
    by_cases hx : x = []
    · subst hx
      have : pushOps ([] :: bs) = pushOps bs := by simp [pushOps]
      rw [this, ih, List.count_cons_of_ne (Ne.symm hb)]
    · have : pushOps (x :: bs) = (x, 1) :: pushOps bs := by simp [pushOps, hx]
      rw [this, cnt_cons, ih, List.count_cons]
      dsimp only
      by_cases hxb : x = b
      · simp [hxb]; omega
      · simp [hxb]

theorem pushOps_wsum (bs : List Bytes) : wsum (pushOps bs) = (pushOps bs).length := by
  unfold pushOps
  generalize bs.filter (· ≠ []) = l
  induction l with
  | nil => rfl
  | cons x l ih => simp only [List.map_cons, wsum_cons, List.length_cons, ih]; omega

theorem pushOps_length_le (bs : List Bytes) : (pushOps bs).length ≤ bs.length := by
  simp only [pushOps, List.length_map]
  exact List.length_filter_le _ _

/-- the first `freeTags` heavy hitters get tags (prefix version of `nfStep_foldl_tags`) -/
theorem nfStep_foldl_tags_take (seen : Nat → Bool) : ∀ (l : List Nat) (acc : NFAcc) (consumed : List (Bytes × Nat)),
    (∀ e ∈ consumed, ∃ t, (e.1, t) ∈ acc.1) →
    ∀ e ∈ consumed ++ acc.2.2.take (l.filter fun t => !seen t).length, ∃ t, (e.1, t) ∈ (l.foldl (nfStep seen) acc).1 := by
  intro l
  induction l with
  | nil =>
    intro acc consumed hc e he
    simp only [List.filter_nil, List.length_nil, List.take_zero, List.append_nil] at he
    exact hc e he
  | cons tag l ih =>
    intro acc consumed hc e he
    obtain ⟨enc, dec, rest⟩ := acc
    simp only [List.foldl_cons]
    dsimp only at hc he
    by_cases hs : seen tag = true
    · have hstep : nfStep seen (enc, dec, rest) tag = (enc, dec.push none, rest) := by
        simp only [nfStep, hs, if_true]
      rw [hstep]
      refine ih (enc, dec.push none, rest) consumed hc e ?_
      simpa [List.filter_cons, hs] using he
    · have hs' : seen tag = false := by cases h : seen tag <;> simp_all
      have hf : ((tag :: l).filter fun t => !seen t).length = (l.filter fun t => !seen t).length + 1 := by
        simp [hs']
      rw [hf] at he
      cases rest with
      | nil =>
        have hstep : nfStep seen (enc, dec, []) tag = (enc, dec, []) := by
          simp only [nfStep, hs']; rfl
        rw [hstep]
        exact ih (enc, dec, []) consumed hc e (by simpa using he)
      | cons bc rest' =>
        obtain ⟨b, c⟩ := bc
        have hstep : nfStep seen (enc, dec, (b, c) :: rest') tag =
            ((b, tag) :: enc.filter (·.1 != b), dec.push (some b), rest') := by
          simp only [nfStep, hs']; rfl
        rw [hstep]
        refine ih _ (consumed ++ [(b, c)]) ?_ e ?_
        · intro e he
          dsimp only
          rcases List.mem_append.1 he with he | he
          · obtain ⟨t, ht⟩ := hc e he
            by_cases hb : e.1 = b
            · exact ⟨tag, by rw [hb]; exact List.mem_cons_self ..⟩
            · exact ⟨t, List.mem_cons_of_mem _ (List.mem_filter.2 ⟨ht, by simpa using hb⟩)⟩
          · simp only [List.mem_singleton] at he
            subst he
            exact ⟨tag, List.mem_cons_self ..⟩
        · dsimp only
          rw [List.take_succ_cons] at he
          rw [List.append_assoc]; exact he

theorem nfFold_take_tagged (srcs : List Dict) (n : Nat) :
    ∀ e ∈ (mergedMG srcs).done.take
        ((List.range n).filter fun t => !(srcs.any fun s => s.seen.contains t)).length,
      ∃ t, (e.1, t) ∈ (nfFold srcs n).1 := by
  intro e he
  unfold nfFold
  exact nfStep_foldl_tags_take (fun t => srcs.any fun s => s.seen.contains t) (List.range n)
    ([], BytesMap.default, (mergedMG srcs).done) [] (fun _ h => by cases h) e (by simpa using he)

/-- the first `freeTags srcs` entries of the merged heavy-hitter list get one-byte tags -/
theorem Dict.newFrom_take_tagged (srcs : List Dict) :
    ∀ e ∈ (mergedMG srcs).done.take (freeTags srcs), ((Dict.newFrom srcs).lookup e.1).isSome := by
  intro e he
  unfold freeTags at he
  obtain ⟨t, ht⟩ := nfFold_take_tagged srcs 256 e he
  apply Dict.lookup_isSome_of_mem (t := t)
  rw [Dict.newFrom_eq]
  generalize nfFold srcs 256 = acc at ht ⊢
  exact ht

end FC.Codec
