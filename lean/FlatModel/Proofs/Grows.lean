import FlatModel.Proofs.CapsGrowth
import FlatModel.Proofs.Heap
/-! Amortised growth for regions whose number of storages is not fixed (C17, last sentence).

`Sized` (`Proofs/Caps.lean`) describes a region as a *fixed* list of vectors. `ColumnsRegion` gains
storages when a wider row arrives, and `heap_size` reports the new ones in the middle of its list, so
positions in `capsOf r` are not stable. Here every pair `heap_size` reports gets a *key* (a path
through the composition: which field, which column, which vector of an index container), keys never
disappear, and the capacity of a storage is a function of its key that is `0` while the storage does
not exist yet:

* `Grows R`: `keys r` (one key per reported pair, in callback order), `capAt r k` (the reported
  capacity in bytes, `0` for keys not in `keys r`), `tracked k` (false exactly for the entries whose
  capacity the model does not track, see `columnsVec_not_cstep`);
* `GrowthLaw G P`: under the invariant `P` (for the structural instances `HeapInv.CapInv`)
  `(keys r).map (capAt r) = capsOf r` — so `capAt` is what the `heap_size` callback receives —,
  keys are distinct, a push maps the old keys into the new ones preserving order (`List.Sublist`),
  and every tracked capacity stays or at least doubles (`cstep`), also from `0` (first allocation);
* `IdxGrows O`: the same for an index container (fixed list of vectors, `vstep`).

Instances: every structural region constructor over any index container `Capd C` with
`LawfulStores C` (`Vec`, `IndexList`, `IndexOptimized`). Bridge: `Grows.ofSized`. -/
set_option linter.unusedSectionVars false
namespace FC
open Region

/-! ### arithmetic -/

theorem cstep_zero (b : Nat) : cstep 0 b := by unfold cstep; omega

theorem cstep_mul {a b : Nat} (h : cstep a b) (s : Nat) : cstep (a * s) (b * s) := by
  rcases h with rfl | ⟨h1, h2⟩
  · exact cstep_refl _
  · cases s with
    | zero => exact cstep_refl _
    | succ s =>
      refine Or.inr ⟨?_, Nat.mul_pos h2 (Nat.succ_pos s)⟩
      calc 2 * (a * (s + 1)) = (2 * a) * (s + 1) := by rw [Nat.mul_assoc]
        _ ≤ b * (s + 1) := Nat.mul_le_mul_right _ h1

theorem cstep_fit (cap len : Nat) : cstep cap (if len ≤ cap then cap else grow cap len) := by
  split
  · exact cstep_refl _
  · have h1 := grow_ge_double cap len
    have h2 := grow_ge_need cap len
    exact Or.inr ⟨h1, by omega⟩

theorem vstep_length {a b : List Nat} (h : vstep a b) : a.length = b.length := by
  induction a generalizing b with
  | nil => cases b with
    | nil => rfl
    | cons y b => simp at h
  | cons x a ih =>
    cases b with
    | nil => simp at h
    | cons y b => simp only [vstep_cons] at h; simp [ih h.2]

theorem vstep_fit (caps lens : List Nat) (h : lens.length = caps.length) : vstep caps (Capd.fit caps lens) := by
  induction caps generalizing lens with
  | nil => cases lens <;> simp [Capd.fit]
  | cons c cs ih =>
    cases lens with
    | nil => simp at h
    | cons l ls =>
      have := ih ls (by simpa using h)
      simp only [Capd.fit] at this
      simp only [Capd.fit, List.zipWith_cons_cons, vstep_cons]
      exact ⟨cstep_fit c l, this⟩

theorem vstep_mul {a b : List Nat} (h : vstep a b) (s : List Nat) :
    vstep (List.zipWith (· * ·) a s) (List.zipWith (· * ·) b s) := by
  induction a generalizing b s with
  | nil => cases b with
    | nil => simp
    | cons y b => simp at h
  | cons x a ih =>
    cases b with
    | nil => simp at h
    | cons y b =>
      simp only [vstep_cons] at h
      cases s with
      | nil => simp
      | cons z zs =>
        simp only [List.zipWith_cons_cons, vstep_cons]
        exact ⟨cstep_mul h.1 z, ih h.2 zs⟩

/-! ### index containers: a fixed list of vectors -/

/-- every push leaves each reported capacity alone or at least doubles it; `clear` keeps them -/
class IdxGrows (O : Type) {T : outParam Type} [IdxCont O T] [IdxAux O] [IdxHeapInv O] : Prop where
  push_step : ∀ (c : O) (x : T), IdxHeapInv.CapInv c → vstep (capsI c) (capsI (IdxCont.push c x))
  clear_caps : ∀ c : O, IdxHeapInv.CapInv c → capsI (IdxCont.clear c) = capsI c

/-- `Vec<T>`, `IndexList`, `IndexOptimized` (spill included): `Capd.fit` grows a vector only when its
new length exceeds the capacity, and then by `grow` -/
instance idxGrows_capd {C T : Type} [IdxCont C T] [HasStores C] [L : LawfulStores C] : IdxGrows (Capd C) where
  push_step c x h := by
    rw [capd_capsI c h, capd_capsI _ (capd_cap_push c x h)]
    exact vstep_mul (vstep_fit _ _ (by rw [L.lens_len, capd_caps_len c h])) _
  clear_caps c h := by
    rw [capd_capsI c h, capd_capsI _ (capd_cap_clear c h)]
    rfl

/-! ### keys -/

/-- the identity of a storage: a path through the composition -/
abbrev Key := List Nat

/-- keys of a flat list of `n` storages -/
def leafKeys (n : Nat) : List Key := (List.range n).map fun j => [j]

/-- capacities of a flat list of storages, by key -/
def leafAt (l : List Nat) : Key → Nat
  | [j] => l.getD j 0
  | _ => 0

def tagKeys (t : Nat) (ks : List Key) : List Key := ks.map (t :: ·)

/-- capacities of a composite with two parts: keys `0 :: k` and `1 :: k` -/
def join2 (f g : Key → Nat) : Key → Nat
  | 0 :: k => f k
  | 1 :: k => g k
  | _ => 0

def join2B (f g : Key → Bool) : Key → Bool
  | 0 :: k => f k
  | 1 :: k => g k
  | _ => true

@[simp] theorem leafAt_singleton (l : List Nat) (j : Nat) : leafAt l [j] = l.getD j 0 := rfl
@[simp] theorem join2_zero (f g : Key → Nat) (k : Key) : join2 f g (0 :: k) = f k := rfl
@[simp] theorem join2_one (f g : Key → Nat) (k : Key) : join2 f g (1 :: k) = g k := rfl
@[simp] theorem join2B_zero (f g : Key → Bool) (k : Key) : join2B f g (0 :: k) = f k := rfl
@[simp] theorem join2B_one (f g : Key → Bool) (k : Key) : join2B f g (1 :: k) = g k := rfl

theorem map_leafAt (l : List Nat) : (leafKeys l.length).map (leafAt l) = l := by
  apply List.ext_getElem
  · simp [leafKeys]
  · intro i h1 h2
    simp [leafKeys, List.getD_eq_getElem?_getD, List.getElem?_eq_getElem h2]

theorem leafKeys_nodup (n : Nat) : (leafKeys n).Nodup := by
  unfold leafKeys
  exact List.Pairwise.map _ (fun a b hab h => hab (by simpa using h)) List.nodup_range

theorem mem_leafKeys {n : Nat} {k : Key} : k ∈ leafKeys n ↔ ∃ j, j < n ∧ k = [j] := by
  simp only [leafKeys, List.mem_map, List.mem_range]
  constructor
  · rintro ⟨j, hj, rfl⟩; exact ⟨j, hj, rfl⟩
  · rintro ⟨j, hj, rfl⟩; exact ⟨j, hj, rfl⟩

theorem leafAt_notin (l : List Nat) (k : Key) (h : k ∉ leafKeys l.length) : leafAt l k = 0 := by
  match k with
  | [] => rfl
  | [j] =>
    have : ¬ j < l.length := fun hj => h (mem_leafKeys.2 ⟨j, hj, rfl⟩)
    simp [List.getD_eq_getElem?_getD, List.getElem?_eq_none (Nat.le_of_not_lt this)]
  | _ :: _ :: _ => rfl

theorem leafAt_step {a b : List Nat} (h : vstep a b) (k : Key) : cstep (leafAt a k) (leafAt b k) := by
  match k with
  | [] => exact cstep_refl _
  | [j] => exact vstep_getD h j
  | _ :: _ :: _ => exact cstep_refl _

theorem mem_tagKeys {t : Nat} {ks : List Key} {k : Key} : k ∈ tagKeys t ks ↔ ∃ k', k' ∈ ks ∧ k = t :: k' := by
  simp only [tagKeys, List.mem_map]
  constructor
  · rintro ⟨k', h, rfl⟩; exact ⟨k', h, rfl⟩
  · rintro ⟨k', h, rfl⟩; exact ⟨k', h, rfl⟩

theorem tagKeys_nodup (t : Nat) {ks : List Key} (h : ks.Nodup) : (tagKeys t ks).Nodup :=
  List.Pairwise.map _ (fun a b hab h' => hab (by simpa using h')) h

theorem map_join2 (f g : Key → Nat) (ka kb : List Key) :
    (tagKeys 0 ka ++ tagKeys 1 kb).map (join2 f g) = ka.map f ++ kb.map g := by
  simp [tagKeys, List.map_map, Function.comp_def]

theorem join2_nodup {ka kb : List Key} (ha : ka.Nodup) (hb : kb.Nodup) : (tagKeys 0 ka ++ tagKeys 1 kb).Nodup := by
  rw [List.nodup_append]
  refine ⟨tagKeys_nodup 0 ha, tagKeys_nodup 1 hb, ?_⟩
  intro a h1 b h2 hab
  obtain ⟨a', _, rfl⟩ := mem_tagKeys.1 h1
  obtain ⟨b', _, rfl⟩ := mem_tagKeys.1 h2
  simp at hab

theorem join2_notin {f g : Key → Nat} {ka kb : List Key} (hf : ∀ k, k ∉ ka → f k = 0) (hg : ∀ k, k ∉ kb → g k = 0)
    (k : Key) (h : k ∉ tagKeys 0 ka ++ tagKeys 1 kb) : join2 f g k = 0 := by
  rw [List.mem_append, not_or] at h
  match k with
  | [] => rfl
  | 0 :: k' => exact hf k' fun hk => h.1 (mem_tagKeys.2 ⟨k', hk, rfl⟩)
  | 1 :: k' => exact hg k' fun hk => h.2 (mem_tagKeys.2 ⟨k', hk, rfl⟩)
  | (_ + 2) :: _ => rfl

theorem join2_sublist {ka ka' kb kb' : List Key} (ha : ka.Sublist ka') (hb : kb.Sublist kb') :
    (tagKeys 0 ka ++ tagKeys 1 kb).Sublist (tagKeys 0 ka' ++ tagKeys 1 kb') :=
  List.Sublist.append (ha.map _) (hb.map _)

theorem join2_step {f f' g g' : Key → Nat} {ta tb : Key → Bool}
    (hf : ∀ k, ta k = true → cstep (f k) (f' k)) (hg : ∀ k, tb k = true → cstep (g k) (g' k))
    (k : Key) (ht : join2B ta tb k = true) : cstep (join2 f g k) (join2 f' g' k) := by
  match k with
  | [] => exact cstep_refl _
  | 0 :: k' => exact hf k' ht
  | 1 :: k' => exact hg k' ht
  | (_ + 2) :: _ => exact cstep_refl _

/-! ### the classes -/

/-- the storages of a region, by key -/
class Grows (R : Type) {V I : outParam Type} [Region R V I] [RegionAux R] where
  /-- one key per pair `heap_size` reports, in callback order -/
  keys : R → List Key
  /-- the reported capacity (bytes) of the storage with this key; `0` while it does not exist -/
  capAt : R → Key → Nat
  /-- `false` for the entries whose capacity the model does not track -/
  tracked : Key → Bool

/-- the growth law of a keyed view `G` under an invariant `P` -/
structure GrowthLaw {R V I : Type} [Region R V I] [RegionAux R] (G : Grows R) (P : R → Prop) : Prop where
  inv_push : ∀ (r r' : R) (v : V) (i : I), P r → push r v = some (r', i) → P r'
  inv_clear : ∀ r : R, P r → P (clear r)
  /-- `capAt` on `keys` is, in order, what the `heap_size` callback receives as capacities -/
  keys_caps : ∀ r : R, P r → (G.keys r).map (G.capAt r) = capsOf r
  keys_nodup : ∀ r : R, (G.keys r).Nodup
  capAt_notin : ∀ (r : R) (k : Key), k ∉ G.keys r → G.capAt r k = 0
  /-- storages never disappear and keep their relative order; new ones may appear anywhere -/
  keys_push : ∀ (r r' : R) (v : V) (i : I), P r → push r v = some (r', i) → (G.keys r).Sublist (G.keys r')
  /-- every tracked capacity stays or at least doubles (a storage that appears starts from `0`) -/
  push_step : ∀ (r r' : R) (v : V) (i : I), P r → push r v = some (r', i) →
    ∀ k, G.tracked k = true → cstep (G.capAt r k) (G.capAt r' k)
  keys_clear : ∀ r : R, P r → G.keys (clear r) = G.keys r
  /-- `clear` releases nothing -/
  clear_step : ∀ r : R, P r → ∀ k, G.tracked k = true → cstep (G.capAt r k) (G.capAt (clear r) k)

/-- the growth law under the capacity invariant of `Proofs/Heap.lean` -/
class LawfulGrows (R : Type) {V I : outParam Type} [Region R V I] [RegionAux R] [HeapInv R] [G : Grows R] : Prop where
  law : GrowthLaw G (HeapInv.CapInv (R := R))

/-! ### flat regions: a fixed list of storages, keyed by position -/

/-- the keyed view of a region whose `heap_size` reports a fixed list of storages -/
@[reducible] def Grows.leaf (R : Type) {V I : Type} [Region R V I] [RegionAux R] : Grows R where
  keys r := leafKeys (capsOf r).length
  capAt r := leafAt (capsOf r)
  tracked _ := true

theorem GrowthLaw.leaf {R V I : Type} [Region R V I] [RegionAux R] {P : R → Prop}
    (hpush : ∀ (r r' : R) (v : V) (i : I), P r → push r v = some (r', i) → P r')
    (hclear : ∀ r : R, P r → P (clear r))
    (hstep : ∀ (r r' : R) (v : V) (i : I), P r → push r v = some (r', i) → vstep (capsOf r) (capsOf r'))
    (hcstep : ∀ r : R, P r → vstep (capsOf r) (capsOf (clear r))) : GrowthLaw (Grows.leaf R) P where
  inv_push := hpush
  inv_clear := hclear
  keys_caps r _ := map_leafAt _
  keys_nodup r := leafKeys_nodup _
  capAt_notin r k h := leafAt_notin _ k h
  keys_push r r' v i h hp := by
    show (leafKeys (capsOf r).length).Sublist (leafKeys (capsOf r').length)
    rw [vstep_length (hstep r r' v i h hp)]
  push_step r r' v i h hp k _ := leafAt_step (hstep r r' v i h hp) k
  keys_clear r h := by
    show leafKeys (capsOf (clear r)).length = leafKeys (capsOf r).length
    rw [vstep_length (hcstep r h)]
  clear_step r h k _ := leafAt_step (hcstep r h) k

/-! #### the bridge: every `Sized` region with `LawfulGrowth` -/
section Bridge
variable {R V I : Type} [Region R V I] [RegionAux R] [Sized R] [L : LawfulSized R] [G : LawfulGrowth R]

/-- the keyed view of a `Sized` region: position `j` of `Sized.caps` (times the element size, i.e.
position `j` of what `heap_size` reports) is the storage with key `[j]` -/
@[reducible] def Grows.ofSized (R : Type) {V I : Type} [Region R V I] [RegionAux R] [Sized R] : Grows R := Grows.leaf R

/-- `LawfulSized` + `LawfulGrowth` give the growth law, under the bookkeeping invariant `CInv` -/
theorem capsOf_sized (r : R) (h : Sized.CInv r) : capsOf r = vmul (Sized.caps r) (Sized.sizes R) := L.heap_caps r h

theorem GrowthLaw.ofSized : GrowthLaw (Grows.ofSized R) (Sized.CInv (R := R)) :=
  GrowthLaw.leaf L.push_cinv G.clear_cinv
    (fun r r' v i h hp => by
      rw [capsOf_sized r h, capsOf_sized r' (L.push_cinv r r' v i h hp)]
      exact vstep_mul (G.push_step r r' v i h hp) _)
    (fun r h => by
      rw [capsOf_sized r h, capsOf_sized _ (G.clear_cinv r h), G.clear_caps]
      exact vstep_refl _)

/-- the capacities are the same: key `[j]` carries `caps[j] * sizes[j]` -/
theorem Grows.ofSized_capAt (r : R) (h : Sized.CInv r) (j : Nat) :
    (Grows.ofSized R).capAt r [j] = (vmul (Sized.caps r) (Sized.sizes R)).getD j 0 := by
  show (capsOf r).getD j 0 = _
  rw [capsOf_sized r h]
end Bridge

/-! ### terminals -/

instance grows_mirror (T : Type) : Grows (MirrorRegion T) := Grows.leaf _
instance lawfulGrows_mirror (T : Type) : LawfulGrows (MirrorRegion T) where
  law := GrowthLaw.leaf (fun _ _ _ _ _ _ => trivial) (fun _ _ => trivial) (fun _ _ _ _ _ _ => trivial) (fun _ _ => trivial)

instance grows_tupleNil : Grows TupleNil := Grows.leaf _
instance lawfulGrows_tupleNil : LawfulGrows TupleNil where
  law := GrowthLaw.leaf (fun _ _ _ _ _ _ => trivial) (fun _ _ => trivial) (fun _ _ _ _ _ _ => trivial) (fun _ _ => trivial)

instance grows_owned (T : Type) [ElemSize T] : Grows (OwnedRegion T) := Grows.leaf _
instance lawfulGrows_owned (T : Type) [ElemSize T] : LawfulGrows (OwnedRegion T) where
  law := GrowthLaw.leaf LawfulHeap.cap_push LawfulHeap.cap_clear
    (fun r r' v i _ hp => by
      simp only [Region.push, Option.some.injEq, Prod.mk.injEq] at hp
      obtain ⟨rfl, _⟩ := hp
      exact ⟨cstep_mul (reserve_cap_step _ _) _, trivial⟩)
    (fun r _ => vstep_refl _)

instance grows_vec (T : Type) [ElemSize T] : Grows (VecRegion T) := Grows.leaf _
instance lawfulGrows_vec (T : Type) [ElemSize T] : LawfulGrows (VecRegion T) where
  law := GrowthLaw.leaf LawfulHeap.cap_push LawfulHeap.cap_clear
    (fun r r' v i _ hp => by
      simp only [Region.push, Option.some.injEq, Prod.mk.injEq] at hp
      obtain ⟨rfl, _⟩ := hp
      exact ⟨cstep_mul (reserve_cap_step _ _) _, trivial⟩)
    (fun r _ => vstep_refl _)

/-! ### wrappers that only forward -/
section String
variable {R I : Type} [Region R (List UInt8) I] [RegionAux R] [HeapInv R] [LawfulHeap R] [Grows R] [L : LawfulGrows R]

instance grows_string : Grows (StringRegion R) where
  keys r := Grows.keys r.inner
  capAt r := Grows.capAt r.inner
  tracked := Grows.tracked R

instance lawfulGrows_string : LawfulGrows (StringRegion R) where
  law :=
    { inv_push := LawfulHeap.cap_push
      inv_clear := LawfulHeap.cap_clear
      keys_caps := fun r h => L.law.keys_caps r.inner h
      keys_nodup := fun r => L.law.keys_nodup r.inner
      capAt_notin := fun r k h => L.law.capAt_notin r.inner k h
      keys_push := fun r r' v i h hp => L.law.keys_push r.inner r'.inner v i h (string_push_some r r' v i hp)
      push_step := fun r r' v i h hp => L.law.push_step r.inner r'.inner v i h (string_push_some r r' v i hp)
      keys_clear := fun r h => L.law.keys_clear r.inner h
      clear_step := fun r h => L.law.clear_step r.inner h }
end String

section Option
variable {R V I : Type} [Region R V I] [RegionAux R] [HeapInv R] [LawfulHeap R] [Grows R] [L : LawfulGrows R]

instance grows_option : Grows (OptionRegion R) where
  keys r := Grows.keys r.inner
  capAt r := Grows.capAt r.inner
  tracked := Grows.tracked R

instance lawfulGrows_option : LawfulGrows (OptionRegion R) where
  law :=
    { inv_push := LawfulHeap.cap_push
      inv_clear := LawfulHeap.cap_clear
      keys_caps := fun r h => L.law.keys_caps r.inner h
      keys_nodup := fun r => L.law.keys_nodup r.inner
      capAt_notin := fun r k h => L.law.capAt_notin r.inner k h
      keys_push := fun r r' v i h hp => by
        rcases option_push_cases r r' v i hp with rfl | ⟨x, j, hx⟩
        · exact List.Sublist.refl _
        · exact L.law.keys_push r.inner r'.inner x j h hx
      push_step := fun r r' v i h hp k hk => by
        rcases option_push_cases r r' v i hp with rfl | ⟨x, j, hx⟩
        · exact cstep_refl _
        · exact L.law.push_step r.inner r'.inner x j h hx k hk
      keys_clear := fun r h => L.law.keys_clear r.inner h
      clear_step := fun r h => L.law.clear_step r.inner h }
end Option

section Collapse
variable {R V I : Type} [Region R V I] [HasEqv V] [RegionAux R] [IndexSize I] [HeapInv R] [LawfulHeap R] [Grows R]
  [L : LawfulGrows R]

instance grows_collapse : Grows (CollapseSequence R I) where
  keys r := Grows.keys r.inner
  capAt r := Grows.capAt r.inner
  tracked := Grows.tracked R

/-- a collapsed push changes nothing, any other push is a push into the inner region -/
instance lawfulGrows_collapse : LawfulGrows (CollapseSequence R I) where
  law :=
    { inv_push := LawfulHeap.cap_push
      inv_clear := LawfulHeap.cap_clear
      keys_caps := fun r h => L.law.keys_caps r.inner h
      keys_nodup := fun r => L.law.keys_nodup r.inner
      capAt_notin := fun r k h => L.law.capAt_notin r.inner k h
      keys_push := fun r r' v i h hp => by
        rcases collapse_push_inner r r' v i hp with rfl | ⟨j, hj⟩
        · exact List.Sublist.refl _
        · exact L.law.keys_push r.inner r'.inner v j h hj
      push_step := fun r r' v i h hp k hk => by
        rcases collapse_push_inner r r' v i hp with rfl | ⟨j, hj⟩
        · exact cstep_refl _
        · exact L.law.push_step r.inner r'.inner v j h hj k hk
      keys_clear := fun r h => L.law.keys_clear r.inner h
      clear_step := fun r h => L.law.clear_step r.inner h }
end Collapse

/-! ### result and tuples: the parts side by side, keys `0 :: k` and `1 :: k` -/
section Result
variable {T VT IT E VE IE : Type} [Region T VT IT] [Region E VE IE] [RegionAux T] [RegionAux E]
  [HeapInv T] [HeapInv E] [LawfulHeap T] [LawfulHeap E] [Grows T] [Grows E] [LT : LawfulGrows T] [LE : LawfulGrows E]

instance grows_result : Grows (ResultRegion T E) where
  keys r := tagKeys 0 (Grows.keys r.oks) ++ tagKeys 1 (Grows.keys r.errs)
  capAt r := join2 (Grows.capAt r.oks) (Grows.capAt r.errs)
  tracked := join2B (Grows.tracked T) (Grows.tracked E)

instance lawfulGrows_result : LawfulGrows (ResultRegion T E) where
  law :=
    { inv_push := LawfulHeap.cap_push
      inv_clear := LawfulHeap.cap_clear
      keys_caps := fun r h => by
        show (tagKeys 0 _ ++ tagKeys 1 _).map (join2 _ _) = _
        rw [map_join2, LT.law.keys_caps r.oks h.1, LE.law.keys_caps r.errs h.2, result_caps]
      keys_nodup := fun r => join2_nodup (LT.law.keys_nodup _) (LE.law.keys_nodup _)
      capAt_notin := fun r k h => join2_notin (LT.law.capAt_notin r.oks) (LE.law.capAt_notin r.errs) k h
      keys_push := fun r r' v i h hp => by
        rcases result_push_cases r r' v i hp with ⟨x, j, hx, he⟩ | ⟨x, j, hx, he⟩
        · exact join2_sublist (LT.law.keys_push _ _ x j h.1 hx) (by rw [he])
        · exact join2_sublist (by rw [he]) (LE.law.keys_push _ _ x j h.2 hx)
      push_step := fun r r' v i h hp k hk => by
        rcases result_push_cases r r' v i hp with ⟨x, j, hx, he⟩ | ⟨x, j, hx, he⟩
        · exact join2_step (LT.law.push_step _ _ x j h.1 hx) (fun k _ => by rw [he]; exact cstep_refl _) k hk
        · exact join2_step (fun k _ => by rw [he]; exact cstep_refl _) (LE.law.push_step _ _ x j h.2 hx) k hk
      keys_clear := fun r h => by
        show tagKeys 0 (Grows.keys (clear r.oks)) ++ tagKeys 1 (Grows.keys (clear r.errs)) = _
        rw [LT.law.keys_clear _ h.1, LE.law.keys_clear _ h.2]
        rfl
      clear_step := fun r h k hk => join2_step (LT.law.clear_step r.oks h.1) (LE.law.clear_step r.errs h.2) k hk }
end Result

section Tuple
variable {A VA IA B VB IB : Type} [Region A VA IA] [Region B VB IB] [RegionAux A] [RegionAux B]
  [HeapInv A] [HeapInv B] [LawfulHeap A] [LawfulHeap B] [Grows A] [Grows B] [LA : LawfulGrows A] [LB : LawfulGrows B]

instance grows_tuple : Grows (TupleCons A B) where
  keys r := tagKeys 0 (Grows.keys r.head) ++ tagKeys 1 (Grows.keys r.tail)
  capAt r := join2 (Grows.capAt r.head) (Grows.capAt r.tail)
  tracked := join2B (Grows.tracked A) (Grows.tracked B)

instance lawfulGrows_tuple : LawfulGrows (TupleCons A B) where
  law :=
    { inv_push := LawfulHeap.cap_push
      inv_clear := LawfulHeap.cap_clear
      keys_caps := fun r h => by
        show (tagKeys 0 _ ++ tagKeys 1 _).map (join2 _ _) = _
        rw [map_join2, LA.law.keys_caps r.head h.1, LB.law.keys_caps r.tail h.2, tuple_caps]
      keys_nodup := fun r => join2_nodup (LA.law.keys_nodup _) (LB.law.keys_nodup _)
      capAt_notin := fun r k h => join2_notin (LA.law.capAt_notin r.head) (LB.law.capAt_notin r.tail) k h
      keys_push := fun r r' v i h hp =>
        have hh := tuple_push_some r r' v i hp
        join2_sublist (LA.law.keys_push _ _ _ _ h.1 hh.1) (LB.law.keys_push _ _ _ _ h.2 hh.2)
      push_step := fun r r' v i h hp k hk =>
        have hh := tuple_push_some r r' v i hp
        join2_step (LA.law.push_step _ _ _ _ h.1 hh.1) (LB.law.push_step _ _ _ _ h.2 hh.2) k hk
      keys_clear := fun r h => by
        show tagKeys 0 (Grows.keys (clear r.head)) ++ tagKeys 1 (Grows.keys (clear r.tail)) = _
        rw [LA.law.keys_clear _ h.1, LB.law.keys_clear _ h.2]
        rfl
      clear_step := fun r h k hk => join2_step (LA.law.clear_step r.head h.1) (LB.law.clear_step r.tail h.2) k hk }
end Tuple

/-! ### a batch of pushes into one region -/
section Run
variable {R V I : Type} [Region R V I] [RegionAux R] {G : Grows R} {P : R → Prop}
open C08

theorem GrowthLaw.run_inv (L : GrowthLaw G P) (r r' : R) (vs : List V) (h : P r) (hp : runPushes r vs = some r') : P r' := by
  induction vs generalizing r with
  | nil => simp only [runPushes, Option.some.injEq] at hp; subst hp; exact h
  | cons v vs ih =>
    simp only [runPushes] at hp
    cases h1 : push r v with
    | none => simp [h1] at hp
    | some p =>
      obtain ⟨r1, i⟩ := p
      simp only [h1] at hp
      exact ih r1 (L.inv_push r r1 v i h h1) hp

/-- over a batch: old storages keep their order, every tracked capacity stays or at least doubles -/
theorem GrowthLaw.run_step (L : GrowthLaw G P) (r r' : R) (vs : List V) (h : P r) (hp : runPushes r vs = some r') :
    (G.keys r).Sublist (G.keys r') ∧ ∀ k, G.tracked k = true → cstep (G.capAt r k) (G.capAt r' k) := by
  induction vs generalizing r with
  | nil => simp only [runPushes, Option.some.injEq] at hp; subst hp; exact ⟨List.Sublist.refl _, fun _ _ => cstep_refl _⟩
  | cons v vs ih =>
    simp only [runPushes] at hp
    cases h1 : push r v with
    | none => simp [h1] at hp
    | some p =>
      obtain ⟨r1, i⟩ := p
      simp only [h1] at hp
      obtain ⟨g1, g2⟩ := ih r1 (L.inv_push r r1 v i h h1) hp
      exact ⟨(L.keys_push r r1 v i h h1).trans g1, fun k hk => cstep_trans (L.push_step r r1 v i h h1 k hk) (g2 k hk)⟩
end Run

/-! ### slices: the index container (keys `[0, j]`), then the inner region (keys `1 :: k`) -/
section Slice
variable {R V I O : Type} [Region R V I] [IdxCont O I] [RegionAux R] [IdxAux O] [HeapInv R] [IdxHeapInv O]
  [LawfulHeap R] [LawfulIdxHeap O] [Grows R] [L : LawfulGrows R] [LO : IdxGrows O]

instance grows_slice : Grows (SliceRegion R O) where
  keys r := tagKeys 0 (leafKeys (capsI r.slices).length) ++ tagKeys 1 (Grows.keys r.inner)
  capAt r := join2 (leafAt (capsI r.slices)) (Grows.capAt r.inner)
  tracked := join2B (fun _ => true) (Grows.tracked R)

/-- `pushAll` is a chain of pushes into the inner region and into the index container -/
theorem pushAll_grows (inner : R) (slices : O) (vs : List V) (inner' : R) (slices' : O)
    (hi : HeapInv.CapInv inner) (hs : IdxHeapInv.CapInv slices) (hp : pushAll inner slices vs = some (inner', slices')) :
    vstep (capsI slices) (capsI slices') ∧ (Grows.keys inner).Sublist (Grows.keys inner') ∧
      ∀ k, Grows.tracked R k = true → cstep (Grows.capAt inner k) (Grows.capAt inner' k) := by
  induction vs generalizing inner slices with
  | nil =>
    simp only [pushAll, Option.some.injEq, Prod.mk.injEq] at hp
    obtain ⟨rfl, rfl⟩ := hp
    exact ⟨vstep_refl _, List.Sublist.refl _, fun _ _ => cstep_refl _⟩
  | cons v vs ih =>
    simp only [pushAll] at hp
    cases h : push inner v with
    | none => simp [h] at hp
    | some p =>
      obtain ⟨in1, i⟩ := p
      simp only [h] at hp
      obtain ⟨g1, g2, g3⟩ := ih in1 (IdxCont.push slices i) (LawfulHeap.cap_push inner in1 v i hi h)
        (LawfulIdxHeap.cap_push slices i hs) hp
      exact ⟨vstep_trans (LO.push_step slices i hs) g1, (L.law.keys_push inner in1 v i hi h).trans g2,
        fun k hk => cstep_trans (L.law.push_step inner in1 v i hi h k hk) (g3 k hk)⟩

instance lawfulGrows_slice : LawfulGrows (SliceRegion R O) where
  law :=
    { inv_push := LawfulHeap.cap_push
      inv_clear := LawfulHeap.cap_clear
      keys_caps := fun r h => by
        show (tagKeys 0 _ ++ tagKeys 1 _).map (join2 _ _) = _
        rw [map_join2, map_leafAt, L.law.keys_caps r.inner h.2, slice_caps]
      keys_nodup := fun r => join2_nodup (leafKeys_nodup _) (L.law.keys_nodup _)
      capAt_notin := fun r k h => join2_notin (leafAt_notin _) (L.law.capAt_notin r.inner) k h
      keys_push := fun r r' v i h hp => by
        obtain ⟨g1, g2, _⟩ := pushAll_grows r.inner r.slices v r'.inner r'.slices h.2 h.1 (slice_push_some r r' v i hp).1
        exact join2_sublist (by rw [vstep_length g1]) g2
      push_step := fun r r' v i h hp k hk => by
        obtain ⟨g1, _, g3⟩ := pushAll_grows r.inner r.slices v r'.inner r'.slices h.2 h.1 (slice_push_some r r' v i hp).1
        exact join2_step (fun k _ => leafAt_step g1 k) g3 k hk
      keys_clear := fun r h => by
        show tagKeys 0 (leafKeys (capsI (IdxCont.clear r.slices)).length) ++ tagKeys 1 (Grows.keys (clear r.inner)) = _
        rw [LO.clear_caps _ h.1, L.law.keys_clear _ h.2]
        rfl
      clear_step := fun r h k hk =>
        join2_step (ta := fun _ => true) (f' := leafAt (capsI (IdxCont.clear r.slices)))
          (fun k _ => by rw [LO.clear_caps _ h.1]; exact cstep_refl _) (L.law.clear_step r.inner h.2) k hk }
end Slice

/-! ### consecutive index pairs: the offsets (keys `[0, j]`), then the inner region (keys `1 :: k`) -/
section Consec
variable {R V O : Type} [Region R V (Nat × Nat)] [DenseRegion R] [IdxCont O Nat] [RegionAux R] [IdxAux O]
  [HeapInv R] [IdxHeapInv O] [LawfulHeap R] [LawfulIdxHeap O] [Grows R] [L : LawfulGrows R] [LO : IdxGrows O]

instance grows_consec : Grows (ConsecPairs R O) where
  keys r := tagKeys 0 (leafKeys (capsI r.indices).length) ++ tagKeys 1 (Grows.keys r.inner)
  capAt r := join2 (leafAt (capsI r.indices)) (Grows.capAt r.inner)
  tracked := join2B (fun _ => true) (Grows.tracked R)

/-- `clear` empties the offsets and writes the leading `0` again: a push into a cleared container -/
theorem consec_clear_vstep (r : ConsecPairs R O) (h : HeapInv.CapInv r) :
    vstep (capsI r.indices) (capsI (IdxCont.push (IdxCont.clear r.indices) 0)) := by
  have := LO.push_step (IdxCont.clear r.indices) 0 (LawfulIdxHeap.cap_clear r.indices h.2.1)
  rwa [LO.clear_caps _ h.2.1] at this

instance lawfulGrows_consec : LawfulGrows (ConsecPairs R O) where
  law :=
    { inv_push := LawfulHeap.cap_push
      inv_clear := LawfulHeap.cap_clear
      keys_caps := fun r h => by
        show (tagKeys 0 _ ++ tagKeys 1 _).map (join2 _ _) = _
        rw [map_join2, map_leafAt, L.law.keys_caps r.inner h.1, consec_caps]
      keys_nodup := fun r => join2_nodup (leafKeys_nodup _) (L.law.keys_nodup _)
      capAt_notin := fun r k h => join2_notin (leafAt_notin _) (L.law.capAt_notin r.inner) k h
      keys_push := fun r r' v i h hp => by
        obtain ⟨j, b, hj, hb⟩ := consec_push_parts r r' v i hp
        refine join2_sublist ?_ (L.law.keys_push _ _ v j h.1 hj)
        rw [hb, vstep_length (LO.push_step r.indices b h.2.1)]
      push_step := fun r r' v i h hp k hk => by
        obtain ⟨j, b, hj, hb⟩ := consec_push_parts r r' v i hp
        refine join2_step (fun k _ => ?_) (L.law.push_step _ _ v j h.1 hj) k hk
        rw [hb]; exact leafAt_step (LO.push_step r.indices b h.2.1) k
      keys_clear := fun r h => by
        show tagKeys 0 (leafKeys (capsI (IdxCont.push (IdxCont.clear r.indices) 0)).length) ++
          tagKeys 1 (Grows.keys (clear r.inner)) = _
        rw [← vstep_length (consec_clear_vstep r h), L.law.keys_clear _ h.1]
        rfl
      clear_step := fun r h k hk =>
        join2_step (ta := fun _ => true) (f' := leafAt (capsI (IdxCont.push (IdxCont.clear r.indices) 0)))
          (fun k _ => leafAt_step (consec_clear_vstep r h) k) (L.law.clear_step r.inner h.1) k hk }
end Consec

/-! ### FlatStack: the region (keys `0 :: k`), then the index container (keys `[1, j]`) -/
section Stack
variable {R V I S : Type} [Region R V I] [IdxCont S I] [RegionAux R] [IdxAux S] [HeapInv R] [IdxHeapInv S]
  [LawfulHeap R] [LawfulIdxHeap S] [Grows R] [L : LawfulGrows R] [LS : IdxGrows S]

instance grows_stack : Grows (FlatStack R S) where
  keys fs := tagKeys 0 (Grows.keys fs.region) ++ tagKeys 1 (leafKeys (capsI fs.indices).length)
  capAt fs := join2 (Grows.capAt fs.region) (leafAt (capsI fs.indices))
  tracked := join2B (Grows.tracked R) (fun _ => true)

instance lawfulGrows_stack : LawfulGrows (FlatStack R S) where
  law :=
    { inv_push := LawfulHeap.cap_push
      inv_clear := LawfulHeap.cap_clear
      keys_caps := fun fs h => by
        show (tagKeys 0 _ ++ tagKeys 1 _).map (join2 _ _) = _
        rw [map_join2, map_leafAt, L.law.keys_caps fs.region h.1, stack_caps]
      keys_nodup := fun fs => join2_nodup (L.law.keys_nodup _) (leafKeys_nodup _)
      capAt_notin := fun fs k h => join2_notin (L.law.capAt_notin fs.region) (leafAt_notin _) k h
      keys_push := fun fs fs' v j h hp => by
        obtain ⟨i, hi, hb⟩ := stack_push_parts fs fs' v j hp
        refine join2_sublist (L.law.keys_push _ _ v i h.1 hi) ?_
        rw [hb, vstep_length (LS.push_step fs.indices i h.2)]
      push_step := fun fs fs' v j h hp k hk => by
        obtain ⟨i, hi, hb⟩ := stack_push_parts fs fs' v j hp
        refine join2_step (L.law.push_step _ _ v i h.1 hi) (fun k _ => ?_) k hk
        rw [hb]; exact leafAt_step (LS.push_step fs.indices i h.2) k
      keys_clear := fun fs h => by
        show tagKeys 0 (Grows.keys (clear fs.region)) ++ tagKeys 1 (leafKeys (capsI (IdxCont.clear fs.indices)).length) = _
        rw [LS.clear_caps _ h.2, L.law.keys_clear _ h.1]
        rfl
      clear_step := fun fs h k hk =>
        join2_step (tb := fun _ => true) (g' := leafAt (capsI (IdxCont.clear fs.indices)))
          (L.law.clear_step fs.region h.1) (fun k _ => by rw [LS.clear_caps _ h.2]; exact cstep_refl _) k hk }
end Stack

/-! ### columns: the column vector (key `[0]`, not tracked), column `j` (keys `1 :: j :: k`), the row
offsets (keys `2 :: k`). A wider row appends columns: their storages appear, in `heap_size` order,
between those of the last old column and those of the row offsets. -/
section Columns
variable {R V I O : Type} [Region R V I] [IdxCont O Nat] [RegionAux R] [IdxAux O] [ElemSize I]
  [HeapInv R] [IdxHeapInv O] [LawfulHeap R] [LawfulIdxHeap O] [Grows R] [L : LawfulGrows R] [LO : IdxGrows O]

/-- keys of the columns `cs`, the first of which is column `j0` -/
def colKeys (j0 : Nat) : List R → List Key
  | [] => []
  | c :: cs => (Grows.keys c).map (fun k => 1 :: j0 :: k) ++ colKeys (j0 + 1) cs

/-- capacity at `j :: k`: storage `k` of column `j` -/
def colsAt (cs : List R) : Key → Nat
  | j :: k => match cs[j]? with
    | some c => Grows.capAt c k
    | none => 0
  | [] => 0

def columnsAt (r : ColumnsRegion R I O) : Key → Nat
  | [0] => r.cols.length * RegionAux.selfSize R
  | 1 :: k => colsAt r.cols k
  | 2 :: k => Grows.capAt r.indices k
  | _ => 0

/-- the capacity of the column vector `Vec<R>` is not modelled (`Model/Ops.lean` reports its length) -/
def columnsTracked (tr ti : Key → Bool) : Key → Bool
  | [0] => false
  | 1 :: _ :: k => tr k
  | 2 :: k => ti k
  | _ => true

instance grows_columns : Grows (ColumnsRegion R I O) where
  keys r := [[0]] ++ colKeys 0 r.cols ++ tagKeys 2 (Grows.keys r.indices)
  capAt := columnsAt
  tracked := columnsTracked (Grows.tracked R) (Grows.tracked (ConsecPairs (OwnedRegion I) O))

@[simp] theorem colsAt_cons_zero (c : R) (cs : List R) (k : Key) : colsAt (c :: cs) (0 :: k) = Grows.capAt c k := rfl
@[simp] theorem colsAt_cons_succ (c : R) (cs : List R) (j : Nat) (k : Key) :
    colsAt (c :: cs) ((j + 1) :: k) = colsAt cs (j :: k) := by
  simp [colsAt]

theorem colsAt_some {cs : List R} {j : Nat} {c : R} (h : cs[j]? = some c) (k : Key) :
    colsAt cs (j :: k) = Grows.capAt c k := by
  simp [colsAt, h]
theorem colsAt_none {cs : List R} {j : Nat} (h : cs[j]? = none) (k : Key) : colsAt cs (j :: k) = 0 := by
  simp [colsAt, h]

theorem mem_colKeys {j0 : Nat} {cs : List R} {x : Key} (h : x ∈ colKeys j0 cs) :
    ∃ i c k, cs[i]? = some c ∧ k ∈ Grows.keys c ∧ x = 1 :: (j0 + i) :: k := by
  induction cs generalizing j0 with
  | nil => simp [colKeys] at h
  | cons c cs ih =>
    simp only [colKeys, List.mem_append, List.mem_map] at h
    rcases h with ⟨k, hk, rfl⟩ | h
    · exact ⟨0, c, k, rfl, hk, rfl⟩
    · obtain ⟨i, c', k, h1, h2, rfl⟩ := ih h
      exact ⟨i + 1, c', k, by simpa using h1, h2, by simp; omega⟩

theorem colKeys_mem {j0 : Nat} {cs : List R} {i : Nat} {c : R} {k : Key} (h1 : cs[i]? = some c)
    (h2 : k ∈ Grows.keys c) : 1 :: (j0 + i) :: k ∈ colKeys j0 cs := by
  induction cs generalizing j0 i with
  | nil => simp at h1
  | cons c0 cs ih =>
    simp only [colKeys, List.mem_append, List.mem_map]
    cases i with
    | zero =>
      simp only [List.getElem?_cons_zero, Option.some.injEq] at h1
      subst h1
      exact Or.inl ⟨k, h2, rfl⟩
    | succ i =>
      simp only [List.getElem?_cons_succ] at h1
      have := ih (j0 := j0 + 1) h1
      rw [show j0 + 1 + i = j0 + (i + 1) by omega] at this
      exact Or.inr this

theorem colKeys_append (j0 : Nat) (as bs : List R) :
    colKeys j0 (as ++ bs) = colKeys j0 as ++ colKeys (j0 + as.length) bs := by
  induction as generalizing j0 with
  | nil => simp [colKeys]
  | cons a as ih =>
    simp only [List.cons_append, colKeys, ih, List.append_assoc, List.length_cons]
    rw [show j0 + 1 + as.length = j0 + (as.length + 1) by omega]

theorem colKeys_nodup (j0 : Nat) (cs : List R) : (colKeys j0 cs).Nodup := by
  induction cs generalizing j0 with
  | nil => exact List.nodup_nil
  | cons c cs ih =>
    simp only [colKeys]
    rw [List.nodup_append]
    refine ⟨List.Pairwise.map _ (fun a b hab h' => hab (by simpa using h')) (L.law.keys_nodup c), ih (j0 + 1), ?_⟩
    intro a h1 b h2 hab
    simp only [List.mem_map] at h1
    obtain ⟨k, _, rfl⟩ := h1
    obtain ⟨i, c', k', _, _, rfl⟩ := mem_colKeys h2
    simp at hab
    omega

/-- the capacities of the columns, as `heap_size` lists them -/
theorem map_colKeys (all : List R) (j0 : Nat) (cs : List R) (h : all.drop j0 = cs) (hc : ∀ c ∈ cs, HeapInv.CapInv c) :
    (colKeys j0 cs).map (fun x => colsAt all x.tail) = (cs.map capsOf).flatten := by
  induction cs generalizing j0 with
  | nil => rfl
  | cons c cs ih =>
    have h0 : all[j0]? = some c := by
      have := List.getElem?_drop (xs := all) (i := j0) (j := 0)
      rw [h] at this
      simpa using this.symm
    have h1 : all.drop (j0 + 1) = cs := by
      rw [← List.drop_drop, h]; rfl
    simp only [colKeys, List.map_append, List.map_map, List.map_cons, List.flatten_cons]
    rw [ih (j0 + 1) h1 (fun x hx => hc x (by simp [hx])), ← L.law.keys_caps c (hc c (by simp))]
    congr 1
    apply List.map_congr_left
    intro k _
    simp [colsAt_some h0]

theorem columnsAt_tag2 (r : ColumnsRegion R I O) (ks : List Key) :
    (tagKeys 2 ks).map (columnsAt r) = ks.map (Grows.capAt r.indices) := by
  simp [tagKeys, List.map_map, Function.comp_def, columnsAt]

theorem columnsAt_colKeys (r : ColumnsRegion R I O) (j0 : Nat) (cs : List R) :
    (colKeys j0 cs).map (columnsAt r) = (colKeys j0 cs).map (fun x => colsAt r.cols x.tail) := by
  apply List.map_congr_left
  intro x hx
  obtain ⟨i, c, k, _, _, rfl⟩ := mem_colKeys hx
  rfl

/-- one row: every column that receives a value is pushed into, the others stay -/
theorem pushRow_grows (cs : List R) (vs : List V) (cs' : List R) (is : List I) (j0 : Nat)
    (hc : ∀ c ∈ cs, HeapInv.CapInv c) (hp : pushRow cs vs = some (cs', is)) :
    (colKeys j0 cs).Sublist (colKeys j0 cs') ∧
      ∀ j k, Grows.tracked R k = true → cstep (colsAt cs (j :: k)) (colsAt cs' (j :: k)) := by
  induction vs generalizing cs cs' is j0 with
  | nil =>
    simp only [pushRow_nil, Option.some.injEq, Prod.mk.injEq] at hp
    obtain ⟨rfl, rfl⟩ := hp
    exact ⟨List.Sublist.refl _, fun _ _ _ => cstep_refl _⟩
  | cons v vs ih =>
    cases cs with
    | nil => simp [pushRow] at hp
    | cons c cs =>
      simp only [pushRow] at hp
      cases h1 : push c v with
      | none => simp [h1] at hp
      | some p =>
        obtain ⟨c', i⟩ := p
        simp only [h1] at hp
        cases h2 : pushRow cs vs with
        | none => simp [h2] at hp
        | some q =>
          obtain ⟨cs1, is1⟩ := q
          simp only [h2, Option.some.injEq, Prod.mk.injEq] at hp
          obtain ⟨rfl, rfl⟩ := hp
          obtain ⟨g1, g2⟩ := ih cs cs1 is1 (j0 + 1) (fun x hx => hc x (by simp [hx])) h2
          have hcc := hc c (by simp)
          refine ⟨List.Sublist.append ((L.law.keys_push c c' v i hcc h1).map _) g1, ?_⟩
          intro j k hk
          cases j with
          | zero => exact L.law.push_step c c' v i hcc h1 k hk
          | succ j => simpa using g2 j k hk

/-- padding with fresh columns: the old columns keep their keys, the new storages start from `0` -/
theorem padCols_grows (cs : List R) (n j0 : Nat) :
    (colKeys j0 cs).Sublist (colKeys j0 (padCols cs n)) ∧
      ∀ j k, cstep (colsAt cs (j :: k)) (colsAt (padCols cs n) (j :: k)) := by
  refine ⟨?_, fun j k => ?_⟩
  · rw [padCols, colKeys_append]
    exact List.sublist_append_left _ _
  · cases h : cs[j]? with
    | none => rw [colsAt_none h]; exact cstep_zero _
    | some c =>
      have h' : (padCols cs n)[j]? = some c := by
        have hj : j < cs.length := by
          rcases Nat.lt_or_ge j cs.length with hj | hj
          · exact hj
          · simp [List.getElem?_eq_none hj] at h
        rw [padCols, List.getElem?_append_left hj]; exact h
      rw [colsAt_some h, colsAt_some h']; exact cstep_refl _

theorem colKeys_clear (j0 : Nat) (cs : List R) (hc : ∀ c ∈ cs, HeapInv.CapInv c) :
    colKeys j0 (cs.map clear) = colKeys j0 cs := by
  induction cs generalizing j0 with
  | nil => rfl
  | cons c cs ih =>
    simp only [List.map_cons, colKeys]
    rw [ih (j0 + 1) (fun x hx => hc x (by simp [hx])), L.law.keys_clear c (hc c (by simp))]

theorem colsAt_clear (cs : List R) (hc : ∀ c ∈ cs, HeapInv.CapInv c) (j : Nat) (k : Key)
    (hk : Grows.tracked R k = true) : cstep (colsAt cs (j :: k)) (colsAt (cs.map clear) (j :: k)) := by
  cases h : cs[j]? with
  | none =>
    rw [colsAt_none h, colsAt_none (by simp [h])]; exact cstep_refl _
  | some c =>
    rw [colsAt_some h, colsAt_some (c := clear c) (by simp [h])]
    exact L.law.clear_step c (hc c (List.mem_of_getElem? h)) k hk

instance lawfulGrows_columns : LawfulGrows (ColumnsRegion R I O) where
  law :=
    { inv_push := LawfulHeap.cap_push
      inv_clear := LawfulHeap.cap_clear
      keys_caps := fun r h => by
        show ([[0]] ++ colKeys 0 r.cols ++ tagKeys 2 (Grows.keys r.indices)).map (columnsAt r) = _
        rw [List.map_append, List.map_append, columnsAt_tag2, columnsAt_colKeys,
          map_colKeys r.cols 0 r.cols rfl h.2, (LawfulGrows.law (R := ConsecPairs (OwnedRegion I) O)).keys_caps r.indices h.1,
          columns_caps]
        rfl
      keys_nodup := fun r => by
        show ([[0]] ++ colKeys 0 r.cols ++ tagKeys 2 (Grows.keys r.indices)).Nodup
        rw [List.nodup_append]
        refine ⟨?_, tagKeys_nodup 2 ((LawfulGrows.law (R := ConsecPairs (OwnedRegion I) O)).keys_nodup r.indices), ?_⟩
        · rw [List.nodup_append]
          refine ⟨by simp, colKeys_nodup 0 r.cols, ?_⟩
          intro a h1 b h2 hab
          simp only [List.mem_singleton] at h1
          obtain ⟨i, c, k, _, _, rfl⟩ := mem_colKeys h2
          simp [h1] at hab
        · intro a h1 b h2 hab
          obtain ⟨b', _, rfl⟩ := mem_tagKeys.1 h2
          rw [List.mem_append, List.mem_singleton] at h1
          rcases h1 with rfl | h1
          · simp at hab
          · obtain ⟨i, c, k, _, _, rfl⟩ := mem_colKeys h1
            simp at hab
      capAt_notin := fun r k h => by
        have h : k ∉ [[0]] ++ colKeys 0 r.cols ++ tagKeys 2 (Grows.keys r.indices) := h
        simp only [List.mem_append, List.mem_singleton, not_or] at h
        obtain ⟨⟨h0, h1⟩, h2⟩ := h
        show columnsAt r k = 0
        match k with
        | [] => rfl
        | [0] => exact absurd rfl h0
        | 0 :: _ :: _ => rfl
        | [1] => rfl
        | 1 :: j :: k' =>
          show colsAt r.cols (j :: k') = 0
          cases hj : r.cols[j]? with
          | none => exact colsAt_none hj k'
          | some c =>
            rw [colsAt_some hj]
            apply L.law.capAt_notin c k'
            intro hk
            apply h1
            have := colKeys_mem (j0 := 0) hj hk
            simpa using this
        | 2 :: k' =>
          exact (LawfulGrows.law (R := ConsecPairs (OwnedRegion I) O)).capAt_notin r.indices k'
            fun hk => h2 (mem_tagKeys.2 ⟨k', hk, rfl⟩)
        | (_ + 3) :: _ => rfl
      keys_push := fun r r' row i h hp => by
        obtain ⟨is, h1, h2⟩ := columns_push_some r r' row i hp
        obtain ⟨g1, _⟩ := pushRow_grows _ row r'.cols is 0 (padCols_capInv r.cols row.length h.2) h1
        show ([[0]] ++ colKeys 0 r.cols ++ tagKeys 2 (Grows.keys r.indices)).Sublist
          ([[0]] ++ colKeys 0 r'.cols ++ tagKeys 2 (Grows.keys r'.indices))
        exact List.Sublist.append (List.Sublist.append (List.Sublist.refl _) ((padCols_grows r.cols row.length 0).1.trans g1))
          (((LawfulGrows.law (R := ConsecPairs (OwnedRegion I) O)).keys_push r.indices r'.indices is i h.1 h2).map _)
      push_step := fun r r' row i h hp k hk => by
        obtain ⟨is, h1, h2⟩ := columns_push_some r r' row i hp
        obtain ⟨_, g2⟩ := pushRow_grows _ row r'.cols is 0 (padCols_capInv r.cols row.length h.2) h1
        show cstep (columnsAt r k) (columnsAt r' k)
        match k, hk with
        | [], _ => exact cstep_refl _
        | 0 :: _ :: _, _ => exact cstep_refl _
        | [1], _ => exact cstep_refl _
        | 1 :: j :: k', hk =>
          exact cstep_trans ((padCols_grows r.cols row.length 0).2 j k') (g2 j k' hk)
        | 2 :: k', hk =>
          exact (LawfulGrows.law (R := ConsecPairs (OwnedRegion I) O)).push_step r.indices r'.indices is i h.1 h2 k' hk
        | (_ + 3) :: _, _ => exact cstep_refl _
      keys_clear := fun r h => by
        show [[0]] ++ colKeys 0 (r.cols.map clear) ++ tagKeys 2 (Grows.keys (clear r.indices)) = _
        rw [colKeys_clear 0 r.cols h.2, (LawfulGrows.law (R := ConsecPairs (OwnedRegion I) O)).keys_clear r.indices h.1]
        rfl
      clear_step := fun r h k hk => by
        show cstep (columnsAt r k) (columnsAt (clear r) k)
        match k, hk with
        | [], _ => exact cstep_refl _
        | 0 :: _ :: _, _ => exact cstep_refl _
        | [1], _ => exact cstep_refl _
        | 1 :: j :: k', hk => exact colsAt_clear r.cols h.2 j k' hk
        | 2 :: k', hk =>
          exact (LawfulGrows.law (R := ConsecPairs (OwnedRegion I) O)).clear_step r.indices h.1 k' hk
        | (_ + 3) :: _, _ => exact cstep_refl _ }
end Columns

end FC
