import FlatModel.Proofs.HuffTable
/-! Non-vacuity checks for the C06 bit-level hypotheses (`TableOK`, `EncOK`, `WFStore`), by evaluation. -/
namespace FC.Huff

/-- a prefix-free code with 1-, 10- and 18-bit code words (two levels of `Further`) -/
def exEnc : List (Nat × Nat × Nat) :=
  [(7, 1, 0), (8, 10, 0b1000000000), (9, 10, 0b1000000001), (10, 18, 0b100000001000000000)]

example : TableOK (Code.ofEncode exEnc) := tableOK_ofEncode exEnc (by decide) (by decide)
example : EncOK (Code.ofEncode exEnc) := encOK_of_forall _ (by decide)
example : WFStore [64, 16, 12, 4, 0] 39 := by unfold WFStore; decide
example : ¬ WFStore [64, 16, 12, 4, 1] 39 := by unfold WFStore; decide
example : encodeBits (Code.ofEncode exEnc) [7, 8, 9, 10] = some (bitsOf [64, 16, 12, 4, 0] 39) := by decide
set_option maxRecDepth 100000 in
example : decodeRange (Code.ofEncode exEnc) [64, 16, 12, 4, 0] 0 39 = some [7, 8, 9, 10] := by decide
-- (also true, ~9 s: `decodeRange (Code.ofEncode exEnc) [64, 16, 12, 4, 0] 1 21 = some [8, 9]`)

/-- codes produced by the model of `create_from` -/
example : TableOK (createFrom [(1, 4), (2, 6), (3, 2)]) ∧ EncOK (createFrom [(1, 4), (2, 6), (3, 2)]) :=
  ⟨createFrom_tableOK _ (by decide) (by decide), encOK_of_forall _ (by decide)⟩

/-- the single-symbol code (repair D4): one code word `0`, both one-bit patterns decode to the symbol -/
example : TableOK (createFrom [(5, 3)]) ∧ EncOK (createFrom [(5, 3)]) :=
  ⟨createFrom_tableOK _ (by decide) (by decide), encOK_of_forall _ (by decide)⟩

end FC.Huff
