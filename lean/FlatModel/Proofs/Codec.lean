import FlatModel.Model.Coded
import FlatModel.Proofs.Region
import FlatModel.Proofs.Consec
/-! Helper lemmas for the dictionary codec (C07): `BytesMap`, the Misra-Gries key-set lemmas, the
`new_from` fold invariant, one-push lemmas and the `LawfulRegion` instance. Core-only proofs. -/
namespace FC.Codec

/-! ### one push (only needs `WF` as a hypothesis) -/

theorem uint8_ofNat_toNat {t : Nat} (h : t < 256) : (UInt8.ofNat t).toNat = t := by
  simp only [UInt8.toNat_ofNat']
  omega

/-- `decode` only looks at the decode table -/
theorem Dict.decodeBytes_congr {d d' : Dict} (h : d'.decode = d.decode) (s : Bytes) :
    d'.decodeBytes s = d.decodeBytes s := by
  unfold Dict.decodeBytes
  rw [h]

/-- the statistics update performed by `encode` -/
def Dict.observe (d : Dict) (b : Bytes) : Dict :=
  match b with
  | [] => d
  | t :: _ => { d with mg := d.mg.update b 1, seen := if d.seen.contains t.toNat then d.seen else t.toNat :: d.seen }

theorem Dict.observe_decode (d : Dict) (b : Bytes) : (d.observe b).decode = d.decode := by
  cases b <;> rfl
theorem Dict.observe_encode (d : Dict) (b : Bytes) : (d.observe b).encode = d.encode := by
  cases b <;> rfl
theorem Dict.observe_lookup (d : Dict) (b s : Bytes) : (d.observe b).lookup s = d.lookup s := by
  cases b <;> rfl

/-- what `encode` stores -/
def Dict.stored (d : Dict) (b : Bytes) : Option Bytes :=
  match d.lookup b with
  | some t => some [UInt8.ofNat t]
  | none =>
    match b with
    | [] => some b
    | t :: _ => if (d.decode.get t.toNat).isSome then none else some b

theorem Dict.encode'_eq (d : Dict) (b : Bytes) :
    d.encode' b = (d.stored b).map fun s => (s, d.observe b) := by
  unfold Dict.encode' Dict.stored Dict.observe
  cases d.lookup b with
  | some t => rfl
  | none =>
    cases b with
    | nil => rfl
    | cons t tl =>
      dsimp only
      by_cases hg : (d.decode.get t.toNat).isSome = true
      · simp only [hg, if_true, Option.map_none]
      · simp only [hg]; rfl

theorem Dict.encode'_some {d d' : Dict} {b s : Bytes} (h : d.encode' b = some (s, d')) :
    d.stored b = some s ∧ d' = d.observe b := by
  rw [Dict.encode'_eq] at h
  cases hs : d.stored b with
  | none => rw [hs] at h; cases h
  | some s0 =>
    rw [hs] at h
    simp only [Option.map_some, Option.some.injEq, Prod.mk.injEq] at h
    exact ⟨by rw [h.1], h.2.symm⟩

/-- exact characterisation of refusal -/
theorem Dict.stored_none_iff (d : Dict) (b : Bytes) :
    d.stored b = none ↔ (d.lookup b = none ∧ ∃ t rest, b = t :: rest ∧ (d.decode.get t.toNat).isSome) := by
  unfold Dict.stored
  cases hl : d.lookup b with
  | some t => simp
  | none =>
    cases b with
    | nil => simp
    | cons t tl =>
      by_cases hg : (d.decode.get t.toNat).isSome
      · simp [hg]
      · simp [hg]

/-- what is stored decodes back to what was pushed -/
theorem Dict.decode_stored {d : Dict} (hw : d.WF) {b s : Bytes} (h : d.stored b = some s) :
    d.decodeBytes s = b := by
  unfold Dict.stored at h
  cases hl : d.lookup b with
  | some t =>
    rw [hl] at h
    simp only [Option.some.injEq] at h
    subst h
    obtain ⟨hg, _, ht⟩ := hw.hit b t hl
    simp only [Dict.decodeBytes, uint8_ofNat_toNat ht, hg]
  | none =>
    rw [hl] at h
    cases b with
    | nil =>
      simp only [Option.some.injEq] at h
      subst h; rfl
    | cons t tl =>
      simp only at h
      split at h
      · cases h
      · rename_i hg
        simp only [Option.some.injEq] at h
        subst h
        have : d.decode.get t.toNat = none := by
          cases hx : d.decode.get t.toNat with
          | none => rfl
          | some x => rw [hx] at hg; simp at hg
        simp only [Dict.decodeBytes, this]

/-- a dictionary hit is stored as exactly one byte -/
theorem Dict.stored_hit {d : Dict} {b : Bytes} {t : Nat} (hl : d.lookup b = some t) :
    d.stored b = some [UInt8.ofNat t] := by
  unfold Dict.stored
  rw [hl]


/-! ### region level -/

theorem Region.push_some {r r' : Region} {b : Bytes} {i : Nat × Nat} (h : Region.push r b = some (r', i)) :
    ∃ s, r.codec.stored b = some s ∧ r' = ⟨r.inner ++ s, r.codec.observe b⟩ ∧
      i = (r.inner.length, r.inner.length + s.length) := by
  unfold Region.push at h
  cases he : r.codec.encode' b with
  | none => rw [he] at h; cases h
  | some p =>
    obtain ⟨s, d'⟩ := p
    rw [he] at h
    simp only [Option.some.injEq, Prod.mk.injEq] at h
    obtain ⟨hs, hd⟩ := Dict.encode'_some he
    exact ⟨s, hs, by rw [← h.1, hd], h.2.symm⟩

theorem Region.push_none_iff (r : Region) (b : Bytes) :
    Region.push r b = none ↔ r.codec.stored b = none := by
  unfold Region.push
  rw [Dict.encode'_eq]
  cases r.codec.stored b <;> simp

theorem Region.index_eq_of_le {r : Region} {i : Nat × Nat} (h : i.1 ≤ i.2 ∧ i.2 ≤ r.inner.length) :
    Region.index r i = some (r.codec.decodeBytes ((r.inner.drop i.1).take (i.2 - i.1))) := by
  unfold Region.index
  rw [if_pos h]

theorem drop_take_append_self {α} (l s : List α) :
    ((l ++ s).drop l.length).take (l.length + s.length - l.length) = s := by
  rw [List.drop_left, Nat.add_sub_cancel_left, List.take_length]

/-! ### Misra-Gries: every key that comes out was put in -/

theorem foldl_inv {α β} (Q : β → Prop) (f : β → α → β) (l : List α) (b : β) (hb : Q b)
    (hf : ∀ b, Q b → ∀ a ∈ l, Q (f b a)) : Q (l.foldl f b) := by
  induction l generalizing b with
  | nil => exact hb
  | cons a l ih =>
    simp only [List.foldl_cons]
    exact ih _ (hf b hb a (List.mem_cons_self ..)) fun b hb a ha => hf b hb a (List.mem_cons_of_mem _ ha)

theorem mem_insertBy {α} (lt : α → α → Bool) (x y : α) (l : List α) :
    y ∈ insertBy lt x l ↔ y = x ∨ y ∈ l := by
  induction l with
  | nil => simp [insertBy]
  | cons z l ih =>
    unfold insertBy
    split
    · simp only [List.mem_cons, ih]
      constructor
      · rintro (h | h | h)
        · exact Or.inr (Or.inl h)
        · exact Or.inl h
        · exact Or.inr (Or.inr h)
      · rintro (h | h | h)
        · exact Or.inr (Or.inl h)
        · exact Or.inl h
        · exact Or.inr (Or.inr h)
    · simp

theorem mem_sortBy {α} (lt : α → α → Bool) (y : α) (l : List α) : y ∈ sortBy lt l ↔ y ∈ l := by
  unfold sortBy
  induction l with
  | nil => simp
  | cons z l ih => simp only [List.foldr_cons, mem_insertBy, ih, List.mem_cons]

/-- all keys satisfy `P` -/
def Keys (P : Bytes → Prop) (l : List (Bytes × Nat)) : Prop := ∀ e ∈ l, P e.1

theorem Keys.nil {P} : Keys P [] := fun _ h => by cases h

theorem Keys.sortBy {P} (lt) {l : List (Bytes × Nat)} (h : Keys P l) : Keys P (sortBy lt l) :=
  fun e he => h e ((mem_sortBy lt e l).1 he)

theorem Keys.append {P} {l l' : List (Bytes × Nat)} (h : Keys P l) (h' : Keys P l') : Keys P (l ++ l') := by
  intro e he
  rcases List.mem_append.1 he with he | he
  · exact h e he
  · exact h' e he

theorem Keys.consolidate {P} {l : List (Bytes × Nat)} (h : Keys P l) : Keys P (consolidate l) := by
  unfold Codec.consolidate
  intro e he
  refine foldl_inv (Q := fun acc : List (Bytes × Nat) => ∀ e ∈ acc, P e.1) _ _ _ ?_ ?_ e (List.mem_filter.1 he).1
  · intro e he; cases he
  · intro acc hacc kc hkc
    obtain ⟨k, c⟩ := kc
    have hk : P k := h (k, c) ((mem_sortBy _ _ _).1 hkc)
    dsimp only
    split
    · split
      · intro e he
        rcases List.mem_append.1 he with he | he
        · exact hacc e (List.dropLast_subset _ he)
        · simp only [List.mem_singleton] at he
          subst he; exact hk
      · intro e he
        rcases List.mem_append.1 he with he | he
        · exact hacc e he
        · simp only [List.mem_singleton] at he
          subst he; exact hk
    · intro e he
      simp only [List.mem_singleton] at he
      subst he; exact hk

theorem Keys.done {P} {m : MG} (h : Keys P m.inner) : Keys P m.done :=
  Keys.sortBy _ (Keys.consolidate h)

theorem Keys.tidy {P} {m : MG} (h : Keys P m.inner) : Keys P m.tidy.inner := by
  have hl := Keys.sortBy (fun x y => decide (y.2 < x.2)) (Keys.consolidate h)
  unfold MG.tidy
  dsimp only
  split
  · intro e he
    dsimp only at he
    have he1 := List.mem_reverse.1 he
    have he2 := (List.dropWhile_sublist _).subset he1
    have he3 := List.mem_reverse.1 he2
    obtain ⟨⟨b, w⟩, hbw, rfl⟩ := List.mem_map.1 he3
    exact hl (b, w) (List.mem_of_mem_take hbw)
  · exact hl

theorem Keys.update {P} {m : MG} {b : Bytes} {c : Nat} (h : Keys P m.inner) (hb : P b) :
    Keys P (m.update b c).inner := by
  have h' : Keys P (m.inner ++ [(b, c)]) :=
    Keys.append h (fun e he => by simp only [List.mem_singleton] at he; subst he; exact hb)
  unfold MG.update
  dsimp only
  split
  · exact Keys.tidy (m := ⟨m.inner ++ [(b, c)]⟩) h'
  · exact h'

/-- the summary built by `new_from` from the sources' summaries -/
def mergedMG (srcs : List Dict) : MG :=
  srcs.foldl (fun (m : MG) s => s.mg.done.foldl (fun m (b, c) => m.update b c) m) ⟨[]⟩

theorem Keys.mergedMG {P} {srcs : List Dict} (h : ∀ s ∈ srcs, Keys P s.mg.inner) :
    Keys P (mergedMG srcs).inner := by
  unfold Codec.mergedMG
  apply foldl_inv (Q := fun m : MG => Keys P m.inner)
  · exact Keys.nil
  · intro m hm s hs
    apply foldl_inv (Q := fun m : MG => Keys P m.inner)
    · exact hm
    · intro m hm bc hbc
      obtain ⟨b, c⟩ := bc
      exact Keys.update hm (Keys.done (h s hs) (b, c) hbc)

/-! ### `BytesMap` -/

/-- representation invariant of `BytesMap`: the last offset is the end of the bytes, no offset is beyond it -/
structure BytesMap.Ok (m : BytesMap) : Prop where
  last : m.offsets.getLast? = some m.bytes.length
  bound : ∀ x ∈ m.offsets, x ≤ m.bytes.length

theorem BytesMap.ok_default : BytesMap.default.Ok := ⟨rfl, fun x hx => by
  simp only [BytesMap.default, List.mem_singleton] at hx; subst hx; exact Nat.le_refl _⟩

theorem BytesMap.push_eq (m : BytesMap) (e : Option Bytes) :
    m.push e = ⟨m.offsets ++ [(m.bytes ++ e.getD []).length], m.bytes ++ e.getD []⟩ := by
  cases e <;> simp [BytesMap.push]

theorem BytesMap.ok_push {m : BytesMap} (h : m.Ok) (e : Option Bytes) : (m.push e).Ok := by
  rw [BytesMap.push_eq]
  refine ⟨List.getLast?_concat, ?_⟩
  intro x hx
  rcases List.mem_append.1 hx with hx | hx
  · have := h.bound x hx
    simp only [List.length_append]; omega
  · simp only [List.mem_singleton] at hx
    subst hx; exact Nat.le_refl _

theorem BytesMap.get_eq (m : BytesMap) (i : Nat) :
    m.get i = if i + 1 < m.offsets.length then
      (if m.offsets[i]?.getD 0 < m.offsets[i+1]?.getD 0 then
        some ((m.bytes.drop (m.offsets[i]?.getD 0)).take (m.offsets[i+1]?.getD 0 - m.offsets[i]?.getD 0))
      else none) else none := by
  unfold BytesMap.get
  simp only [List.getElem!_eq_getElem?_getD]
  rfl

theorem BytesMap.lt_of_get_some {m : BytesMap} {i : Nat} {b : Bytes} (h : m.get i = some b) :
    i + 1 < m.offsets.length := by
  rw [BytesMap.get_eq] at h
  by_cases hc : i + 1 < m.offsets.length
  · exact hc
  · rw [if_neg hc] at h; cases h

/-- an entry is never the empty string -/
theorem BytesMap.ne_nil_of_get_some {m : BytesMap} (hm : m.Ok) {i : Nat} {b : Bytes} (h : m.get i = some b) :
    b ≠ [] := by
  have hi := BytesMap.lt_of_get_some h
  rw [BytesMap.get_eq, if_pos hi] at h
  split at h
  · rename_i hlt
    simp only [Option.some.injEq] at h
    subst h
    have hb : m.offsets[i+1]?.getD 0 ≤ m.bytes.length := by
      rw [List.getElem?_eq_getElem hi]
      exact hm.bound _ (List.getElem_mem hi)
    intro hnil
    have := congrArg List.length hnil
    simp only [List.length_take, List.length_drop, List.length_nil] at this
    omega
  · cases h

/-- pushing leaves the earlier entries alone -/
theorem BytesMap.get_push_lt {m : BytesMap} (hm : m.Ok) (e : Option Bytes) {i : Nat}
    (hi : i + 1 < m.offsets.length) : (m.push e).get i = m.get i := by
  rw [BytesMap.push_eq, BytesMap.get_eq, BytesMap.get_eq]
  have h0 : (m.offsets ++ [(m.bytes ++ e.getD []).length])[i]? = m.offsets[i]? :=
    List.getElem?_append_left (by omega)
  have h1 : (m.offsets ++ [(m.bytes ++ e.getD []).length])[i+1]? = m.offsets[i+1]? :=
    List.getElem?_append_left hi
  have hb : m.offsets[i+1]?.getD 0 ≤ m.bytes.length := by
    rw [List.getElem?_eq_getElem hi]
    exact hm.bound _ (List.getElem_mem hi)
  dsimp only
  simp only [h0, h1]
  rw [List.length_append, List.length_singleton]
  rw [if_pos (by omega), if_pos hi, take_drop_append_left _ _ _ _ hb]

theorem BytesMap.get_push_of_some {m : BytesMap} (hm : m.Ok) (e : Option Bytes) {i : Nat} {b : Bytes}
    (h : m.get i = some b) : (m.push e).get i = some b := by
  rw [BytesMap.get_push_lt hm e (BytesMap.lt_of_get_some h), h]

/-- the entry just pushed -/
theorem BytesMap.get_push_last {m : BytesMap} (hm : m.Ok) {x : Bytes} (hx : x ≠ []) {i : Nat}
    (hi : i + 1 = m.offsets.length) : (m.push (some x)).get i = some x := by
  rw [BytesMap.push_eq, BytesMap.get_eq]
  have h0 : (m.offsets ++ [(m.bytes ++ x).length])[i]? = some m.bytes.length := by
    rw [List.getElem?_append_left (by omega), ← hm.last, List.getLast?_eq_getElem?]
    congr 1; omega
  have h1 : (m.offsets ++ [(m.bytes ++ x).length])[i+1]? = some (m.bytes ++ x).length := by
    rw [List.getElem?_append_right (by omega)]
    have : i + 1 - m.offsets.length = 0 := by omega
    rw [this]; rfl
  have hlen : 0 < x.length := List.length_pos_iff.mpr hx
  dsimp only [Option.getD_some]
  simp only [h0, h1, Option.getD_some]
  simp only [List.length_append, List.length_singleton]
  rw [if_pos (by omega), if_pos (by omega), List.drop_left]
  congr 1
  rw [Nat.add_sub_cancel_left, List.take_length]

/-- nothing is stored beyond the offsets -/
theorem BytesMap.get_of_ge {m : BytesMap} {i : Nat} (hi : m.offsets.length ≤ i + 1) : m.get i = none := by
  rw [BytesMap.get_eq, if_neg (by omega)]

/-! ### the `new_from` fold -/

abbrev NFAcc := List (Bytes × Nat) × BytesMap × List (Bytes × Nat)

/-- one iteration of `for tag in 0..=255` -/
def nfStep (seen : Nat → Bool) (acc : NFAcc) (tag : Nat) : NFAcc :=
  let (enc, dec, rest) := acc
  if seen tag then (enc, dec.push none, rest)
  else match rest with
    | (b, _) :: rest' => ((b, tag) :: enc.filter (·.1 != b), dec.push (some b), rest')
    | [] => (enc, dec, rest)

/-- the first `n` iterations -/
def nfFold (srcs : List Dict) (n : Nat) : NFAcc :=
  (List.range n).foldl (nfStep fun t => srcs.any fun s => s.seen.contains t)
    ([], BytesMap.default, (mergedMG srcs).done)

theorem Dict.newFrom_eq (srcs : List Dict) :
    Dict.newFrom srcs = ⟨(nfFold srcs 256).1, (nfFold srcs 256).2.1, ⟨[]⟩, []⟩ := by
  unfold Dict.newFrom nfFold mergedMG
  dsimp only
  generalize List.range 256 = l
  rfl

theorem nfFold_succ (srcs : List Dict) (n : Nat) :
    nfFold srcs (n + 1) = nfStep (fun t => srcs.any fun s => s.seen.contains t) (nfFold srcs n) n := by
  unfold nfFold
  rw [List.range_succ, List.foldl_append]
  rfl

/-- the loop invariant after `n` tags. Note the offsets fall behind `n` once the heavy hitters are
exhausted and an unseen tag pushes nothing (as in the crate); from then on only `None` is pushed. -/
structure NFInv (hh : List (Bytes × Nat)) (n : Nat) (acc : NFAcc) : Prop where
  ok : acc.2.1.Ok
  len_le : acc.2.1.offsets.length ≤ n + 1
  len_eq : acc.2.2 ≠ [] → acc.2.1.offsets.length = n + 1
  rest : ∀ e ∈ acc.2.2, e ∈ hh
  enc : ∀ e ∈ acc.1, e.2 < n ∧ (∃ c, (e.1, c) ∈ hh) ∧ (e.1 ≠ [] → acc.2.1.get e.2 = some e.1)

theorem NFInv.intro {hh : List (Bytes × Nat)} {n : Nat} {enc : List (Bytes × Nat)} {dec : BytesMap}
    {rest : List (Bytes × Nat)} (ok : dec.Ok) (len_le : dec.offsets.length ≤ n + 1)
    (len_eq : rest ≠ [] → dec.offsets.length = n + 1) (hrest : ∀ e ∈ rest, e ∈ hh)
    (henc : ∀ e ∈ enc, e.2 < n ∧ (∃ c, (e.1, c) ∈ hh) ∧ (e.1 ≠ [] → dec.get e.2 = some e.1)) :
    NFInv hh n (enc, dec, rest) := ⟨ok, len_le, len_eq, hrest, henc⟩

theorem NFInv.init (hh : List (Bytes × Nat)) : NFInv hh 0 ([], BytesMap.default, hh) :=
  ⟨BytesMap.ok_default, Nat.le_refl _, fun _ => rfl, fun _ h => h, fun _ h => by cases h⟩

theorem NFInv.step {hh : List (Bytes × Nat)} {n : Nat} {acc : NFAcc} (seen : Nat → Bool)
    (h : NFInv hh n acc) : NFInv hh (n + 1) (nfStep seen acc n) := by
  obtain ⟨enc, dec, rest⟩ := acc
  obtain ⟨hok, hle, heq, hrest, henc⟩ := h
  dsimp only at hok hle heq hrest henc
  unfold nfStep
  dsimp only
  split
  · -- the tag is in use as a first byte: `decode.push(None)`
    refine NFInv.intro (BytesMap.ok_push hok _) ?_ ?_ hrest ?_
    · rw [BytesMap.push_eq]; simp only [List.length_append, List.length_singleton]; omega
    · intro hne
      have := heq hne
      rw [BytesMap.push_eq]; simp only [List.length_append, List.length_singleton]; omega
    · intro e he
      obtain ⟨h1, h2, h3⟩ := henc e he
      exact ⟨by omega, h2, fun hne => BytesMap.get_push_of_some hok _ (h3 hne)⟩
  · cases rest with
    | nil =>
      dsimp only
      refine NFInv.intro hok (by omega) (fun hne => absurd rfl hne) hrest ?_
      intro e he
      obtain ⟨h1, h2, h3⟩ := henc e he
      exact ⟨by omega, h2, h3⟩
    | cons bc rest' =>
      obtain ⟨b, c⟩ := bc
      dsimp only
      have hlen : dec.offsets.length = n + 1 := heq (by simp)
      refine NFInv.intro (BytesMap.ok_push hok _) ?_ ?_ (fun e he => hrest e (List.mem_cons_of_mem _ he)) ?_
      · rw [BytesMap.push_eq]; simp only [List.length_append, List.length_singleton]; omega
      · intro _
        rw [BytesMap.push_eq]; simp only [List.length_append, List.length_singleton]; omega
      · intro e he
        rcases List.mem_cons.1 he with he | he
        · subst he
          exact ⟨by dsimp only; omega, ⟨c, hrest _ (List.mem_cons_self ..)⟩,
            fun hne => BytesMap.get_push_last hok hne (by dsimp only; omega)⟩
        · obtain ⟨h1, h2, h3⟩ := henc e (List.mem_filter.1 he).1
          exact ⟨by omega, h2, fun hne => BytesMap.get_push_of_some hok _ (h3 hne)⟩

theorem nfFold_inv (srcs : List Dict) (n : Nat) : NFInv (mergedMG srcs).done n (nfFold srcs n) := by
  induction n with
  | zero => exact NFInv.init _
  | succ n ih => rw [nfFold_succ]; exact NFInv.step _ ih

theorem Dict.lookup_some {d : Dict} {s : Bytes} {t : Nat} (h : d.lookup s = some t) : (s, t) ∈ d.encode := by
  unfold Dict.lookup at h
  cases hf : d.encode.find? (·.1 == s) with
  | none => rw [hf] at h; cases h
  | some e =>
    rw [hf] at h
    simp only [Option.map_some, Option.some.injEq] at h
    have h1 := List.find?_some hf
    have h2 := List.mem_of_find?_eq_some hf
    simp only [beq_iff_eq] at h1
    obtain ⟨e1, e2⟩ := e
    simp only at h h1
    subst h h1
    exact h2

/-- the part of the invariant that holds for arbitrary sources -/
theorem Dict.newFrom_hit (srcs : List Dict) {s : Bytes} {t : Nat} (h : (Dict.newFrom srcs).lookup s = some t) :
    t < 256 ∧ (∃ c, (s, c) ∈ (mergedMG srcs).done) ∧ (s ≠ [] → (Dict.newFrom srcs).decode.get t = some s) := by
  have hm := Dict.lookup_some h
  rw [Dict.newFrom_eq] at hm ⊢
  have hinv := nfFold_inv srcs 256
  generalize nfFold srcs 256 = acc at hm hinv ⊢
  exact hinv.enc (s, t) hm

theorem Dict.newFrom_decode_ok (srcs : List Dict) : (Dict.newFrom srcs).decode.Ok := by
  rw [Dict.newFrom_eq]
  have hinv := nfFold_inv srcs 256
  generalize nfFold srcs 256 = acc at hinv ⊢
  exact hinv.ok

theorem Dict.newFrom_mg (srcs : List Dict) : (Dict.newFrom srcs).mg = ⟨[]⟩ := by
  rw [Dict.newFrom_eq]
theorem Dict.newFrom_seen (srcs : List Dict) : (Dict.newFrom srcs).seen = [] := by
  rw [Dict.newFrom_eq]

/-! ### the invariant `WF` -/

theorem Dict.wf_default : Dict.default.WF :=
  ⟨fun s t h => by simp [Dict.lookup, Dict.default] at h, fun e he => by cases he⟩

/-- `new_from` re-establishes the invariant from nothing but "no source summary holds the empty string" -/
theorem Dict.wf_newFrom {srcs : List Dict} (hs : ∀ s ∈ srcs, ∀ e ∈ s.mg.inner, e.1 ≠ []) :
    (Dict.newFrom srcs).WF := by
  refine ⟨fun s t h => ?_, fun e he => by rw [Dict.newFrom_mg] at he; cases he⟩
  obtain ⟨h1, ⟨c, h2⟩, h3⟩ := Dict.newFrom_hit srcs h
  have hne : s ≠ [] := Keys.done (Keys.mergedMG (P := fun b => b ≠ []) hs) (s, c) h2
  exact ⟨h3 hne, hne, h1⟩

theorem Dict.wf_observe {d : Dict} (h : d.WF) (b : Bytes) : (d.observe b).WF := by
  refine ⟨fun s t hl => ?_, ?_⟩
  · rw [Dict.observe_lookup] at hl
    rw [Dict.observe_decode]
    exact h.hit s t hl
  · cases b with
    | nil => exact h.stats
    | cons t tl => exact Keys.update (P := fun b => b ≠ []) h.stats (by simp)

/-! ### which strings get a tag (C07 stretch) -/

theorem Dict.lookup_isSome_of_mem {d : Dict} {b : Bytes} {t : Nat} (h : (b, t) ∈ d.encode) :
    (d.lookup b).isSome := by
  unfold Dict.lookup
  rw [Option.isSome_map, List.find?_isSome]
  exact ⟨(b, t), h, by simp⟩

/-- if the unseen tags among `l` suffice for the remaining heavy hitters, all of them end up in `encode` -/
theorem nfStep_foldl_tags (seen : Nat → Bool) : ∀ (l : List Nat) (acc : NFAcc) (consumed : List (Bytes × Nat)),
    (∀ e ∈ consumed, ∃ t, (e.1, t) ∈ acc.1) → acc.2.2.length ≤ (l.filter fun t => !seen t).length →
    ∀ e ∈ consumed ++ acc.2.2, ∃ t, (e.1, t) ∈ (l.foldl (nfStep seen) acc).1 := by
  intro l
  induction l with
  | nil =>
    intro acc consumed hc hlen e he
    simp only [List.filter_nil, List.length_nil, Nat.le_zero, List.length_eq_zero_iff] at hlen
    rw [hlen, List.append_nil] at he
    exact hc e he
  | cons tag l ih =>
    intro acc consumed hc hlen e he
    obtain ⟨enc, dec, rest⟩ := acc
    simp only [List.foldl_cons]
    dsimp only at hc hlen he
    by_cases hs : seen tag = true
    · have hstep : nfStep seen (enc, dec, rest) tag = (enc, dec.push none, rest) := by
        simp only [nfStep, hs, if_true]
      rw [hstep]
      refine ih (enc, dec.push none, rest) consumed hc ?_ e he
      simpa [List.filter_cons, hs] using hlen
    · have hs' : seen tag = false := by cases h : seen tag <;> simp_all
      have hf : ((tag :: l).filter fun t => !seen t).length = (l.filter fun t => !seen t).length + 1 := by
        simp [hs']
      rw [hf] at hlen
      cases rest with
      | nil =>
        have hstep : nfStep seen (enc, dec, []) tag = (enc, dec, []) := by
          simp only [nfStep, hs']; rfl
        rw [hstep]
        exact ih (enc, dec, []) consumed hc (Nat.zero_le _) e he
      | cons bc rest' =>
        obtain ⟨b, c⟩ := bc
        have hstep : nfStep seen (enc, dec, (b, c) :: rest') tag =
            ((b, tag) :: enc.filter (·.1 != b), dec.push (some b), rest') := by
          simp only [nfStep, hs']; rfl
        rw [hstep]
        refine ih _ (consumed ++ [(b, c)]) ?_ ?_ e ?_
        · intro e he
          dsimp only
          rcases List.mem_append.1 he with he | he
          · obtain ⟨t, ht⟩ := hc e he
            by_cases hb : e.1 = b
            · exact ⟨tag, by rw [hb]; exact List.mem_cons_self ..⟩
            · exact ⟨t, List.mem_cons_of_mem _ (List.mem_filter.2 ⟨ht, by simpa using hb⟩)⟩
          · simp only [List.mem_singleton] at he
            subst he
            exact ⟨tag, List.mem_cons_self ..⟩
        · simp only [List.length_cons] at hlen
          dsimp only; omega
        · dsimp only
          rw [List.append_assoc]; exact he

/-- number of tags not in use as a first byte in any source -/
def freeTags (srcs : List Dict) : Nat :=
  ((List.range 256).filter fun t => !(srcs.any fun s => s.seen.contains t)).length

theorem nfFold_all_tagged (srcs : List Dict) (n : Nat)
    (h : (mergedMG srcs).done.length ≤
      ((List.range n).filter fun t => !(srcs.any fun s => s.seen.contains t)).length) :
    ∀ e ∈ (mergedMG srcs).done, ∃ t, (e.1, t) ∈ (nfFold srcs n).1 := by
  intro e he
  unfold nfFold
  exact nfStep_foldl_tags (fun t => srcs.any fun s => s.seen.contains t) (List.range n)
    ([], BytesMap.default, (mergedMG srcs).done) [] (fun _ h => by cases h) h e (by simpa using he)

/-- if there are at most `freeTags` heavy hitters, every one of them gets a tag -/
theorem Dict.newFrom_all_tagged (srcs : List Dict) (hfree : (mergedMG srcs).done.length ≤ freeTags srcs) :
    ∀ e ∈ (mergedMG srcs).done, ((Dict.newFrom srcs).lookup e.1).isSome := by
  intro e he
  unfold freeTags at hfree
  obtain ⟨t, ht⟩ := nfFold_all_tagged srcs 256 hfree e he
  apply Dict.lookup_isSome_of_mem (t := t)
  rw [Dict.newFrom_eq]
  generalize nfFold srcs 256 = acc at ht ⊢
  exact ht

/-- below capacity `update` only appends -/
theorem MG.update_of_lt {m : MG} {b : Bytes} {c : Nat} (h : m.inner.length + 1 < MG.cap) :
    m.update b c = ⟨m.inner ++ [(b, c)]⟩ := by
  unfold MG.update
  dsimp only
  rw [if_neg]
  simp only [List.length_append, List.length_singleton, beq_iff_eq]
  omega

theorem MG.foldl_update_of_lt : ∀ (l : List (Bytes × Nat)) (m : MG), m.inner.length + l.length < MG.cap →
    l.foldl (fun (m : MG) (bc : Bytes × Nat) => match bc with | (b, c) => m.update b c) m = ⟨m.inner ++ l⟩ := by
  intro l
  induction l with
  | nil => intro m _; simp
  | cons bc l ih =>
    intro m h
    obtain ⟨b, c⟩ := bc
    simp only [List.length_cons] at h
    simp only [List.foldl_cons]
    rw [MG.update_of_lt (by omega), ih _ (by simp only [List.length_append, List.length_singleton]; omega)]
    simp

/-- no compaction happens while merging fewer than `MG.cap` entries: the merged summary is the concatenation -/
theorem mergedMG_of_lt (srcs : List Dict) (h : (srcs.map (·.mg.done.length)).sum < MG.cap) :
    (mergedMG srcs).inner = (srcs.map (·.mg.done)).flatten := by
  have key : ∀ (srcs : List Dict) (m : MG), m.inner.length + (srcs.map (·.mg.done.length)).sum < MG.cap →
      (srcs.foldl (fun (m : MG) s => s.mg.done.foldl (fun m (b, c) => m.update b c) m) m).inner
        = m.inner ++ (srcs.map (·.mg.done)).flatten := by
    intro srcs
    induction srcs with
    | nil => intro m _; simp
    | cons s srcs ih =>
      intro m h
      simp only [List.map_cons, List.sum_cons] at h
      simp only [List.foldl_cons, List.map_cons, List.flatten_cons]
      rw [MG.foldl_update_of_lt _ _ (by omega), ih _ (by simp only [List.length_append]; omega)]
      simp
  have := key srcs ⟨[]⟩ (by simpa using h)
  simpa [mergedMG] using this

/-- one step of the run-merging loop of `consolidate` -/
def consStep (acc : List (Bytes × Nat)) (kc : Bytes × Nat) : List (Bytes × Nat) :=
  match kc with
  | (k, c) =>
    match acc.getLast? with
    | some (k', c') => if k' == k then acc.dropLast ++ [(k, c' + c)] else acc ++ [(k, c)]
    | none => [(k, c)]

theorem consolidate_eq (l : List (Bytes × Nat)) :
    consolidate l = ((sortBy (fun x y => bytesLt x.1 y.1) l).foldl consStep []).filter (·.2 != 0) := rfl

theorem consStep_spec {acc : List (Bytes × Nat)} {kc : Bytes × Nat} (hacc : ∀ e ∈ acc, e.2 ≠ 0) (hkc : kc.2 ≠ 0) :
    (∀ e ∈ consStep acc kc, e.2 ≠ 0) ∧ ∀ e, e ∈ acc ∨ e = kc → ∃ c, (e.1, c) ∈ consStep acc kc := by
  obtain ⟨k, c⟩ := kc
  unfold consStep
  dsimp only at hkc ⊢
  cases hl : acc.getLast? with
  | none =>
    have : acc = [] := List.getLast?_eq_none_iff.1 hl
    subst this
    dsimp only
    refine ⟨fun e he => by simp only [List.mem_singleton] at he; subst he; exact hkc, ?_⟩
    rintro e (he | he)
    · cases he
    · subst he; exact ⟨c, List.mem_singleton.2 rfl⟩
  | some last =>
    obtain ⟨k', c'⟩ := last
    obtain ⟨ys, rfl⟩ := List.getLast?_eq_some_iff.1 hl
    dsimp only
    by_cases hk : (k' == k) = true
    · rw [if_pos hk, List.dropLast_concat]
      have hk' : k' = k := by simpa using hk
      subst hk'
      refine ⟨?_, ?_⟩
      · intro e he
        rcases List.mem_append.1 he with he | he
        · exact hacc e (List.mem_append_left _ he)
        · simp only [List.mem_singleton] at he
          subst he; dsimp only; omega
      · rintro e (he | he)
        · rcases List.mem_append.1 he with he | he
          · exact ⟨e.2, List.mem_append_left _ he⟩
          · simp only [List.mem_singleton] at he
            subst he
            exact ⟨c' + c, List.mem_append_right _ (List.mem_singleton.2 rfl)⟩
        · subst he
          exact ⟨c' + c, List.mem_append_right _ (List.mem_singleton.2 rfl)⟩
    · rw [if_neg hk]
      refine ⟨?_, ?_⟩
      · intro e he
        rcases List.mem_append.1 he with he | he
        · exact hacc e he
        · simp only [List.mem_singleton] at he
          subst he; exact hkc
      · rintro e (he | he)
        · exact ⟨e.2, List.mem_append_left _ he⟩
        · subst he
          exact ⟨c, List.mem_append_right _ (List.mem_singleton.2 rfl)⟩

theorem consStep_foldl_spec : ∀ (l acc : List (Bytes × Nat)), (∀ e ∈ acc, e.2 ≠ 0) → (∀ e ∈ l, e.2 ≠ 0) →
    (∀ e ∈ l.foldl consStep acc, e.2 ≠ 0) ∧ ∀ e, e ∈ acc ∨ e ∈ l → ∃ c, (e.1, c) ∈ l.foldl consStep acc := by
  intro l
  induction l with
  | nil =>
    intro acc hacc _
    refine ⟨hacc, ?_⟩
    rintro e (he | he)
    · exact ⟨e.2, he⟩
    · cases he
  | cons kc l ih =>
    intro acc hacc hl
    obtain ⟨h1, h2⟩ := consStep_spec hacc (hl kc (List.mem_cons_self ..))
    obtain ⟨h3, h4⟩ := ih (consStep acc kc) h1 (fun e he => hl e (List.mem_cons_of_mem _ he))
    simp only [List.foldl_cons]
    refine ⟨h3, ?_⟩
    rintro e (he | he)
    · obtain ⟨c, hc⟩ := h2 e (Or.inl he)
      exact h4 (e.1, c) (Or.inl hc)
    · rcases List.mem_cons.1 he with he | he
      · obtain ⟨c, hc⟩ := h2 e (Or.inr he)
        exact h4 (e.1, c) (Or.inl hc)
      · exact h4 e (Or.inr he)

/-- `consolidate` keeps every key (when no count is zero) -/
theorem consolidate_complete {l : List (Bytes × Nat)} (hl : ∀ e ∈ l, e.2 ≠ 0) :
    ∀ e ∈ l, ∃ c, (e.1, c) ∈ consolidate l := by
  intro e he
  rw [consolidate_eq]
  obtain ⟨h1, h2⟩ := consStep_foldl_spec (sortBy (fun x y => bytesLt x.1 y.1) l) [] (fun _ h => by cases h)
    (fun e he => hl e ((mem_sortBy _ _ _).1 he))
  obtain ⟨c, hc⟩ := h2 e (Or.inr ((mem_sortBy _ _ _).2 he))
  exact ⟨c, List.mem_filter.2 ⟨hc, by simpa using h1 _ hc⟩⟩

/-- counts that come out of `done` are never zero -/
theorem MG.done_count_ne_zero {m : MG} : ∀ e ∈ m.done, e.2 ≠ 0 := by
  intro e he
  have := (mem_sortBy _ _ _).1 he
  rw [consolidate_eq] at this
  simpa using (List.mem_filter.1 this).2

/-- `done` keeps every key (when no count is zero) -/
theorem MG.done_complete {m : MG} (hl : ∀ e ∈ m.inner, e.2 ≠ 0) : ∀ e ∈ m.inner, ∃ c, (e.1, c) ∈ m.done := by
  intro e he
  obtain ⟨c, hc⟩ := consolidate_complete hl e he
  exact ⟨c, (mem_sortBy _ _ _).2 hc⟩

/-- without compaction, every heavy hitter of every source is a heavy hitter of the merge -/
theorem mergedMG_complete (srcs : List Dict) (h : (srcs.map (·.mg.done.length)).sum < MG.cap) :
    ∀ s ∈ srcs, ∀ e ∈ s.mg.done, ∃ c, (e.1, c) ∈ (mergedMG srcs).done := by
  intro s hs e he
  have hin : e ∈ (mergedMG srcs).inner := by
    rw [mergedMG_of_lt srcs h]
    exact List.mem_flatten.2 ⟨s.mg.done, List.mem_map.2 ⟨s, hs, rfl⟩, he⟩
  refine MG.done_complete ?_ e hin
  intro e' he'
  rw [mergedMG_of_lt srcs h] at he'
  obtain ⟨l, hl, hel⟩ := List.mem_flatten.1 he'
  obtain ⟨s', _, rfl⟩ := List.mem_map.1 hl
  exact MG.done_count_ne_zero e' hel

/-- the statistics after a run of fewer than `MG.cap` `encode`s: one entry per non-empty string, in order -/
theorem Dict.observe_foldl_mg : ∀ (bs : List Bytes) (d : Dict), d.mg.inner.length + bs.length < MG.cap →
    (bs.foldl Dict.observe d).mg.inner = d.mg.inner ++ (bs.filter (· ≠ [])).map (·, 1) := by
  intro bs
  induction bs with
  | nil => intro d _; simp
  | cons b bs ih =>
    intro d h
    simp only [List.length_cons] at h
    simp only [List.foldl_cons]
    cases b with
    | nil =>
      rw [show d.observe [] = d from rfl, ih d (by omega)]
      simp
    | cons t tl =>
      have hm : (d.observe (t :: tl)).mg = ⟨d.mg.inner ++ [(t :: tl, 1)]⟩ := by
        show d.mg.update (t :: tl) 1 = _
        exact MG.update_of_lt (by omega)
      rw [ih _ (by rw [hm]; simp only [List.length_append, List.length_singleton]; omega), hm]
      simp

/-! ### region level, under `WF` -/

theorem Region.push_wf {r r' : Region} {b : Bytes} {i : Nat × Nat} (hw : r.codec.WF)
    (hp : Region.push r b = some (r', i)) : r'.codec.WF := by
  obtain ⟨s, _, rfl, _⟩ := Region.push_some hp
  exact Dict.wf_observe hw b

theorem Region.push_roundtrip {r r' : Region} {b : Bytes} {i : Nat × Nat} (hw : r.codec.WF)
    (hp : Region.push r b = some (r', i)) : Region.index r' i = some b := by
  obtain ⟨s, hs, rfl, rfl⟩ := Region.push_some hp
  rw [Region.index_eq_of_le (by simp only [List.length_append]; omega)]
  dsimp only
  rw [drop_take_append_self, Dict.decodeBytes_congr (Dict.observe_decode _ _), Dict.decode_stored hw hs]

theorem Region.push_frame {r r' : Region} {b : Bytes} {i : Nat × Nat}
    (hp : Region.push r b = some (r', i)) {j : Nat × Nat} (hj : j.1 ≤ j.2 ∧ j.2 ≤ r.inner.length) :
    Region.index r' j = Region.index r j := by
  obtain ⟨s, hs, rfl, rfl⟩ := Region.push_some hp
  rw [Region.index_eq_of_le hj, Region.index_eq_of_le (by simp only [List.length_append]; omega)]
  dsimp only
  rw [take_drop_append_left _ _ _ _ hj.2, Dict.decodeBytes_congr (Dict.observe_decode _ _)]

/-- regions that can arise: `default`, then any pushes, clears, and merges of regions that can arise -/
inductive Reachable : Region → Prop
  | default : Reachable Region.default
  | push {r r' : Region} {b : Bytes} {i : Nat × Nat} : Reachable r → Region.push r b = some (r', i) → Reachable r'
  | clear {r : Region} : Reachable r → Reachable (Region.clear r)
  | merge {rs : List Region} : (∀ r ∈ rs, Reachable r) → Reachable (Region.merge rs)

theorem Region.merge_wf {rs : List Region} (h : ∀ r ∈ rs, r.codec.WF) : (Region.merge rs).codec.WF := by
  unfold Region.merge
  dsimp only
  apply Dict.wf_newFrom
  intro s hs
  obtain ⟨r, hr, rfl⟩ := List.mem_map.1 hs
  exact (h r hr).stats

theorem Reachable.wf {r : Region} (h : Reachable r) : r.codec.WF := by
  induction h with
  | default => exact Dict.wf_default
  | push _ hp ih => exact Region.push_wf ih hp
  | clear _ _ => exact Dict.wf_default
  | merge _ ih => exact Region.merge_wf ih

/-! ### concrete witnesses used by the non-vacuity examples in Props/C07 -/

/-- push "ab","ab","c" into a fresh region, then merge two copies of it -/
def demoGen1 : Option Region := do
  let (r1, _) ← Region.push Region.default [97, 98]
  let (r1, _) ← Region.push r1 [97, 98]
  let (r1, _) ← Region.push r1 [99]
  some (Region.merge [r1, r1])

/-- … then push "ab","ab","de" into the merged region -/
def demoGen2 : Option (Region × (Nat × Nat) × (Nat × Nat)) := do
  let r2 ← demoGen1
  let (r3, i) ← Region.push r2 [97, 98]
  let (r3, _) ← Region.push r3 [97, 98]
  let (r4, j) ← Region.push r3 [100, 101]
  some (r4, i, j)

/-- an unreachable source whose summary holds the empty string -/
def demoBad : Dict := ⟨[], BytesMap.default, ⟨[([], 1)]⟩, []⟩

end FC.Codec

/-! ### the laws -/
namespace FC
open Region

instance : LawfulRegion Codec.Region where
  inv_default := Codec.Dict.wf_default
  push_ok r v hi ha := by
    cases hp : Codec.Region.push r v with
    | none =>
      have : (Codec.Region.push r v).isSome = true := ha
      rw [hp] at this; cases this
    | some p =>
      obtain ⟨r', i⟩ := p
      exact ⟨r', i, hp, v, Codec.Region.push_roundtrip hi hp, rfl⟩
  push_refuses r v _ hna := by
    cases hp : Codec.Region.push r v with
    | none => exact hp
    | some p =>
      exfalso; apply hna
      show (Codec.Region.push r v).isSome = true
      rw [hp]; rfl
  push_inv r r' v i hi hp := by
    refine ⟨Codec.Region.push_wf hi hp, ?_⟩
    obtain ⟨s, _, rfl, rfl⟩ := Codec.Region.push_some hp
    show _ ≤ _ ∧ _ ≤ (r.inner ++ s).length
    simp only [List.length_append]; omega
  frame r r' v i j _ hv hp := by
    refine ⟨?_, Codec.Region.push_frame hp hv⟩
    obtain ⟨s, _, rfl, rfl⟩ := Codec.Region.push_some hp
    have hv' : j.1 ≤ j.2 ∧ j.2 ≤ r.inner.length := hv
    show _ ≤ _ ∧ _ ≤ (r.inner ++ s).length
    simp only [List.length_append]; omega
  valid_reads r j _ hv := ⟨_, Codec.Region.index_eq_of_le hv⟩
  clear_inv _ _ := Codec.Dict.wf_default
  clear_sim _ _ := ⟨rfl, rfl, rfl, rfl⟩
  sim_refl _ _ := ⟨rfl, rfl, rfl, rfl⟩
  sim_push a b v hs _ _ := by
    obtain ⟨ai, ⟨ae, ad, am, as⟩⟩ := a
    obtain ⟨bi, ⟨be, bd, bm, bs⟩⟩ := b
    obtain ⟨ado, adb⟩ := ad
    obtain ⟨bdo, bdb⟩ := bd
    obtain ⟨h1, h2, h3, h4⟩ := hs
    dsimp only at h1 h2 h3 h4
    subst h1 h2 h3 h4
    have hst : (Codec.Dict.mk ae ⟨ado, adb⟩ am as).stored v = (Codec.Dict.mk ae ⟨ado, adb⟩ bm bs).stored v := rfl
    cases hsv : (Codec.Dict.mk ae ⟨ado, adb⟩ am as).stored v with
    | none =>
      left
      exact ⟨(Codec.Region.push_none_iff _ _).2 hsv, (Codec.Region.push_none_iff _ _).2 (hst ▸ hsv)⟩
    | some s =>
      right
      refine ⟨⟨ai ++ s, (Codec.Dict.mk ae ⟨ado, adb⟩ am as).observe v⟩,
        ⟨ai ++ s, (Codec.Dict.mk ae ⟨ado, adb⟩ bm bs).observe v⟩, (ai.length, ai.length + s.length), ?_, ?_, ?_⟩
      · show Codec.Region.push _ v = _
        unfold Codec.Region.push
        rw [Codec.Dict.encode'_eq, hsv]; rfl
      · show Codec.Region.push _ v = _
        unfold Codec.Region.push
        rw [Codec.Dict.encode'_eq, ← hst, hsv]; rfl
      · refine ⟨rfl, ?_, ?_, ?_⟩
        · show (Codec.Dict.observe _ v).encode = (Codec.Dict.observe _ v).encode
          rw [Codec.Dict.observe_encode, Codec.Dict.observe_encode]
        · show (Codec.Dict.observe _ v).decode.offsets = (Codec.Dict.observe _ v).decode.offsets
          rw [Codec.Dict.observe_decode, Codec.Dict.observe_decode]
        · show (Codec.Dict.observe _ v).decode.bytes = (Codec.Dict.observe _ v).decode.bytes
          rw [Codec.Dict.observe_decode, Codec.Dict.observe_decode]
  sim_index a b i hs _ _ := by
    obtain ⟨ai, ⟨ae, ad, am, as⟩⟩ := a
    obtain ⟨bi, ⟨be, bd, bm, bs⟩⟩ := b
    obtain ⟨ado, adb⟩ := ad
    obtain ⟨bdo, bdb⟩ := bd
    obtain ⟨h1, h2, h3, h4⟩ := hs
    dsimp only at h1 h2 h3 h4
    subst h1 h2 h3 h4
    exact ⟨Iff.rfl, fun _ => rfl⟩

instance : LawfulDense Codec.Region where
  cursor_default := rfl
  cursor_clear _ := rfl
  push_dense r r' v i _ hp := by
    obtain ⟨s, _, rfl, rfl⟩ := Codec.Region.push_some hp
    show _ = (r.inner.length, (r.inner ++ s).length)
    rw [List.length_append]

end FC
