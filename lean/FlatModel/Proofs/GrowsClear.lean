import FlatModel.Proofs.Grows
/-! `clear` keeps every capacity *exactly* (C17 / C18: "`clear` keeps the allocations").

`GrowthLaw.clear_step` (under `HeapInv.CapInv` alone) only says that `clear` lowers no capacity:
`ConsecPairs::clear` empties the offsets and pushes the leading `0` again, and `CapInv` does not say
that the vector receiving that `0` already has room for it (it does in every state built by `default`,
`push`, `clear`: the `0` was there before). `ClearExact` carries that extra invariant (`Anch`), which
is established by `default` and kept by `push` and `clear`, and under it `clear` changes no reported
capacity at all. -/
set_option linter.unusedSectionVars false
namespace FC
open Region

/-! ### index containers: room for `clear(); push(x)` -/

/-- `Anch c x`: the capacities of `c` cover what a cleared container holds after `push x` -/
class IdxAnchor (O : Type) {T : outParam Type} [IdxCont O T] [IdxAux O] [IdxHeapInv O] where
  Anch : O → T → Prop
  anch_init : ∀ x : T, Anch (IdxCont.push (IdxCont.default : O) x) x
  anch_push : ∀ (c : O) (x y : T), IdxHeapInv.CapInv c → Anch c x → Anch (IdxCont.push c y) x
  anch_clear : ∀ (c : O) (x : T), IdxHeapInv.CapInv c → Anch c x → Anch (IdxCont.push (IdxCont.clear c) x) x
  anch_keep : ∀ (c : O) (x : T), IdxHeapInv.CapInv c → Anch c x → capsI (IdxCont.push (IdxCont.clear c) x) = capsI c

theorem Capd.fit_eq_of_le {caps lens : List Nat} (h : LeAll lens caps) : Capd.fit caps lens = caps := by
  induction h with
  | nil => rfl
  | cons hab _ ih =>
    simp only [Capd.fit, List.zipWith_cons_cons] at ih ⊢
    rw [ih, if_pos hab]

instance idxAnchor_capd {C T : Type} [IdxCont C T] [HasStores C] [L : LawfulStores C] : IdxAnchor (Capd C) where
  Anch c x := LeAll (HasStores.lens (IdxCont.push (IdxCont.default : C) x)) c.caps
  anch_init x := by
    show LeAll _ (Capd.fit (Capd.zeros (C := C)) (HasStores.lens (IdxCont.push (IdxCont.default : C) x)))
    exact Capd.fit_ge_lens _ _ (by rw [L.lens_len]; simp [Capd.zeros])
  anch_push c x y h ha := by
    show LeAll _ (Capd.fit c.caps (HasStores.lens (IdxCont.push c.a y)))
    exact leAll_trans ha (Capd.fit_ge_caps _ _ (by rw [L.lens_len, capd_caps_len c h]))
  anch_clear c x h ha := by
    show LeAll _ (Capd.fit c.caps (HasStores.lens (IdxCont.push (IdxCont.clear c.a) x)))
    rw [L.clear_default]
    exact Capd.fit_ge_lens _ _ (by rw [L.lens_len, capd_caps_len c h])
  anch_keep c x h ha := by
    have hc := capd_cap_push _ x (capd_cap_clear c h)
    rw [capd_capsI c h, capd_capsI _ hc]
    show List.zipWith (· * ·) (Capd.fit c.caps (HasStores.lens (IdxCont.push (IdxCont.clear c.a) x))) _ = _
    rw [L.clear_default, Capd.fit_eq_of_le ha]

/-! ### regions -/

/-- the invariant under which `clear` changes no capacity, and the law -/
class ClearExact (R : Type) {V I : outParam Type} [Region R V I] [RegionAux R] [HeapInv R] [Grows R] where
  Anch : R → Prop
  anch_default : Anch (default : R)
  anch_push : ∀ (r r' : R) (v : V) (i : I), HeapInv.CapInv r → Anch r → push r v = some (r', i) → Anch r'
  anch_clear : ∀ r : R, HeapInv.CapInv r → Anch r → Anch (clear r)
  clear_exact : ∀ r : R, HeapInv.CapInv r → Anch r → ∀ k, Grows.capAt (clear r) k = Grows.capAt r k

theorem leafAt_congr {a b : List Nat} (h : a = b) (k : Key) : leafAt a k = leafAt b k := by rw [h]

theorem join2_congr {f f' g g' : Key → Nat} (hf : ∀ k, f k = f' k) (hg : ∀ k, g k = g' k) (k : Key) :
    join2 f g k = join2 f' g' k := by
  match k with
  | [] => rfl
  | 0 :: k' => exact hf k'
  | 1 :: k' => exact hg k'
  | (_ + 2) :: _ => rfl

instance clearExact_mirror (T : Type) : ClearExact (MirrorRegion T) where
  Anch _ := True
  anch_default := trivial
  anch_push _ _ _ _ _ _ _ := trivial
  anch_clear _ _ _ := trivial
  clear_exact _ _ _ _ := rfl

instance clearExact_tupleNil : ClearExact TupleNil where
  Anch _ := True
  anch_default := trivial
  anch_push _ _ _ _ _ _ _ := trivial
  anch_clear _ _ _ := trivial
  clear_exact _ _ _ _ := rfl

instance clearExact_owned (T : Type) [ElemSize T] : ClearExact (OwnedRegion T) where
  Anch _ := True
  anch_default := trivial
  anch_push _ _ _ _ _ _ _ := trivial
  anch_clear _ _ _ := trivial
  clear_exact _ _ _ _ := rfl

instance clearExact_vec (T : Type) [ElemSize T] : ClearExact (VecRegion T) where
  Anch _ := True
  anch_default := trivial
  anch_push _ _ _ _ _ _ _ := trivial
  anch_clear _ _ _ := trivial
  clear_exact _ _ _ _ := rfl

section String
variable {R I : Type} [Region R (List UInt8) I] [RegionAux R] [HeapInv R] [Grows R] [C : ClearExact R]
instance clearExact_string : ClearExact (StringRegion R) where
  Anch r := C.Anch r.inner
  anch_default := C.anch_default
  anch_push r r' v i h ha hp := C.anch_push r.inner r'.inner v i h ha (string_push_some r r' v i hp)
  anch_clear r h ha := C.anch_clear r.inner h ha
  clear_exact r h ha := C.clear_exact r.inner h ha
end String

section Option
variable {R V I : Type} [Region R V I] [RegionAux R] [HeapInv R] [Grows R] [C : ClearExact R]
instance clearExact_option : ClearExact (OptionRegion R) where
  Anch r := C.Anch r.inner
  anch_default := C.anch_default
  anch_push r r' v i h ha hp := by
    rcases option_push_cases r r' v i hp with rfl | ⟨x, j, hx⟩
    · exact ha
    · exact C.anch_push r.inner r'.inner x j h ha hx
  anch_clear r h ha := C.anch_clear r.inner h ha
  clear_exact r h ha := C.clear_exact r.inner h ha
end Option

section Collapse
variable {R V I : Type} [Region R V I] [HasEqv V] [RegionAux R] [IndexSize I] [HeapInv R] [Grows R] [C : ClearExact R]
instance clearExact_collapse : ClearExact (CollapseSequence R I) where
  Anch r := C.Anch r.inner
  anch_default := C.anch_default
  anch_push r r' v i h ha hp := by
    rcases collapse_push_inner r r' v i hp with rfl | ⟨j, hj⟩
    · exact ha
    · exact C.anch_push r.inner r'.inner v j h ha hj
  anch_clear r h ha := C.anch_clear r.inner h ha
  clear_exact r h ha := C.clear_exact r.inner h ha
end Collapse

section Result
variable {T VT IT E VE IE : Type} [Region T VT IT] [Region E VE IE] [RegionAux T] [RegionAux E]
  [HeapInv T] [HeapInv E] [Grows T] [Grows E] [CT : ClearExact T] [CE : ClearExact E]
instance clearExact_result : ClearExact (ResultRegion T E) where
  Anch r := CT.Anch r.oks ∧ CE.Anch r.errs
  anch_default := ⟨CT.anch_default, CE.anch_default⟩
  anch_push r r' v i h ha hp := by
    rcases result_push_cases r r' v i hp with ⟨x, j, hx, he⟩ | ⟨x, j, hx, he⟩
    · exact ⟨CT.anch_push _ _ x j h.1 ha.1 hx, by rw [he]; exact ha.2⟩
    · exact ⟨by rw [he]; exact ha.1, CE.anch_push _ _ x j h.2 ha.2 hx⟩
  anch_clear r h ha := ⟨CT.anch_clear r.oks h.1 ha.1, CE.anch_clear r.errs h.2 ha.2⟩
  clear_exact r h ha := join2_congr (CT.clear_exact r.oks h.1 ha.1) (CE.clear_exact r.errs h.2 ha.2)
end Result

section Tuple
variable {A VA IA B VB IB : Type} [Region A VA IA] [Region B VB IB] [RegionAux A] [RegionAux B]
  [HeapInv A] [HeapInv B] [Grows A] [Grows B] [CA : ClearExact A] [CB : ClearExact B]
instance clearExact_tuple : ClearExact (TupleCons A B) where
  Anch r := CA.Anch r.head ∧ CB.Anch r.tail
  anch_default := ⟨CA.anch_default, CB.anch_default⟩
  anch_push r r' v i h ha hp :=
    have hh := tuple_push_some r r' v i hp
    ⟨CA.anch_push _ _ _ _ h.1 ha.1 hh.1, CB.anch_push _ _ _ _ h.2 ha.2 hh.2⟩
  anch_clear r h ha := ⟨CA.anch_clear r.head h.1 ha.1, CB.anch_clear r.tail h.2 ha.2⟩
  clear_exact r h ha := join2_congr (CA.clear_exact r.head h.1 ha.1) (CB.clear_exact r.tail h.2 ha.2)
end Tuple

section Slice
variable {R V I O : Type} [Region R V I] [IdxCont O I] [RegionAux R] [IdxAux O] [HeapInv R] [IdxHeapInv O]
  [LawfulHeap R] [LawfulIdxHeap O] [Grows R] [C : ClearExact R] [LO : IdxGrows O]

theorem pushAll_anch (inner : R) (slices : O) (vs : List V) (inner' : R) (slices' : O)
    (hi : HeapInv.CapInv inner) (ha : C.Anch inner) (hp : pushAll inner slices vs = some (inner', slices')) :
    C.Anch inner' := by
  induction vs generalizing inner slices with
  | nil =>
    simp only [pushAll, Option.some.injEq, Prod.mk.injEq] at hp
    obtain ⟨rfl, rfl⟩ := hp
    exact ha
  | cons v vs ih =>
    simp only [pushAll] at hp
    cases h : push inner v with
    | none => simp [h] at hp
    | some p =>
      obtain ⟨in1, i⟩ := p
      simp only [h] at hp
      exact ih in1 (IdxCont.push slices i) (LawfulHeap.cap_push inner in1 v i hi h) (C.anch_push inner in1 v i hi ha h) hp

instance clearExact_slice : ClearExact (SliceRegion R O) where
  Anch r := C.Anch r.inner
  anch_default := C.anch_default
  anch_push r r' v i h ha hp := pushAll_anch r.inner r.slices v r'.inner r'.slices h.2 ha (slice_push_some r r' v i hp).1
  anch_clear r h ha := C.anch_clear r.inner h.2 ha
  clear_exact r h ha := join2_congr (leafAt_congr (LO.clear_caps r.slices h.1)) (C.clear_exact r.inner h.2 ha)
end Slice

section Consec
variable {R V O : Type} [Region R V (Nat × Nat)] [DenseRegion R] [IdxCont O Nat] [RegionAux R] [IdxAux O]
  [HeapInv R] [IdxHeapInv O] [LawfulIdxHeap O] [Grows R] [C : ClearExact R] [AO : IdxAnchor O]

/-- the offsets always have room for the leading `0` that `clear` writes back -/
instance clearExact_consec : ClearExact (ConsecPairs R O) where
  Anch r := C.Anch r.inner ∧ AO.Anch r.indices 0
  anch_default := ⟨C.anch_default, AO.anch_init 0⟩
  anch_push r r' v i h ha hp := by
    obtain ⟨j, b, hj, hb⟩ := consec_push_parts r r' v i hp
    exact ⟨C.anch_push _ _ v j h.1 ha.1 hj, by rw [hb]; exact AO.anch_push r.indices 0 b h.2.1 ha.2⟩
  anch_clear r h ha := ⟨C.anch_clear r.inner h.1 ha.1, AO.anch_clear r.indices 0 h.2.1 ha.2⟩
  clear_exact r h ha := join2_congr (leafAt_congr (AO.anch_keep r.indices 0 h.2.1 ha.2)) (C.clear_exact r.inner h.1 ha.1)
end Consec

section Stack
variable {R V I S : Type} [Region R V I] [IdxCont S I] [RegionAux R] [IdxAux S] [HeapInv R] [IdxHeapInv S]
  [Grows R] [C : ClearExact R] [LS : IdxGrows S]
instance clearExact_stack : ClearExact (FlatStack R S) where
  Anch fs := C.Anch fs.region
  anch_default := C.anch_default
  anch_push fs fs' v j h ha hp := by
    obtain ⟨i, hi, _⟩ := stack_push_parts fs fs' v j hp
    exact C.anch_push _ _ v i h.1 ha hi
  anch_clear fs h ha := C.anch_clear fs.region h.1 ha
  clear_exact fs h ha := join2_congr (C.clear_exact fs.region h.1 ha) (leafAt_congr (LS.clear_caps fs.indices h.2))
end Stack

section Columns
variable {R V I O : Type} [Region R V I] [IdxCont O Nat] [RegionAux R] [IdxAux O] [ElemSize I]
  [HeapInv R] [IdxHeapInv O] [LawfulHeap R] [LawfulIdxHeap O] [Grows R] [LawfulGrows R] [C : ClearExact R] [AO : IdxAnchor O]

theorem pushRow_anch (cs : List R) (vs : List V) (cs' : List R) (is : List I)
    (hc : ∀ c ∈ cs, HeapInv.CapInv c) (ha : ∀ c ∈ cs, C.Anch c) (hp : pushRow cs vs = some (cs', is)) :
    ∀ c ∈ cs', C.Anch c := by
  induction vs generalizing cs cs' is with
  | nil =>
    simp only [pushRow_nil, Option.some.injEq, Prod.mk.injEq] at hp
    obtain ⟨rfl, rfl⟩ := hp
    exact ha
  | cons v vs ih =>
    cases cs with
    | nil => simp [pushRow] at hp
    | cons c cs =>
      simp only [pushRow] at hp
      cases h1 : push c v with
      | none => simp [h1] at hp
      | some p =>
        obtain ⟨c', i⟩ := p
        simp only [h1] at hp
        cases h2 : pushRow cs vs with
        | none => simp [h2] at hp
        | some q =>
          obtain ⟨cs1, is1⟩ := q
          simp only [h2, Option.some.injEq, Prod.mk.injEq] at hp
          obtain ⟨rfl, rfl⟩ := hp
          have g := ih cs cs1 is1 (fun x hx => hc x (by simp [hx])) (fun x hx => ha x (by simp [hx])) h2
          intro x hx
          simp only [List.mem_cons] at hx
          rcases hx with rfl | hx
          · exact C.anch_push c x v i (hc c (by simp)) (ha c (by simp)) h1
          · exact g x hx

instance clearExact_columns : ClearExact (ColumnsRegion R I O) where
  Anch r := ClearExact.Anch r.indices ∧ ∀ c ∈ r.cols, C.Anch c
  anch_default := ⟨ClearExact.anch_default (R := ConsecPairs (OwnedRegion I) O), fun c hc => nomatch hc⟩
  anch_push r r' row i h ha hp := by
    obtain ⟨is, h1, h2⟩ := columns_push_some r r' row i hp
    refine ⟨ClearExact.anch_push r.indices r'.indices is i h.1 ha.1 h2, ?_⟩
    apply pushRow_anch _ row r'.cols is (padCols_capInv r.cols row.length h.2) _ h1
    intro c hc
    simp only [padCols, List.mem_append, List.mem_replicate] at hc
    rcases hc with hc | ⟨_, rfl⟩
    · exact ha.2 c hc
    · exact C.anch_default
  anch_clear r h ha := ⟨ClearExact.anch_clear r.indices h.1 ha.1, by
    intro c hc
    simp only [Region.clear, List.mem_map] at hc
    obtain ⟨x, hx, rfl⟩ := hc
    exact C.anch_clear x (h.2 x hx) (ha.2 x hx)⟩
  clear_exact r h ha k := by
    show columnsAt (clear r) k = columnsAt r k
    match k with
    | [] => rfl
    | [0] => show (r.cols.map clear).length * _ = _; rw [List.length_map]; rfl
    | 0 :: _ :: _ => rfl
    | [1] => rfl
    | 1 :: j :: k' =>
      show colsAt (r.cols.map clear) (j :: k') = colsAt r.cols (j :: k')
      cases hj : r.cols[j]? with
      | none => rw [colsAt_none hj, colsAt_none (by simp [hj])]
      | some c =>
        rw [colsAt_some hj, colsAt_some (c := clear c) (by simp [hj])]
        exact C.clear_exact c (h.2 c (List.mem_of_getElem? hj)) (ha.2 c (List.mem_of_getElem? hj)) k'
    | 2 :: k' => exact ClearExact.clear_exact r.indices h.1 ha.1 k'
    | (_ + 3) :: _ => rfl
end Columns

end FC
