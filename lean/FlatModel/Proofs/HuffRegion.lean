import FlatModel.Props.C06
import FlatModel.Proofs.HuffStats
import FlatModel.Proofs.Consec
import FlatModel.Proofs.OpsLaws
import FlatModel.Model.Coded
/-! The Huffman containers are lawful regions.

Ghost fields (Model/HuffSpec.lean): raw mode — no invariant, an index is valid iff it is a range of `raw`,
every item is accepted; coded mode `(c, bytes, bits)` — `EncOK c ∧ TableOK c ∧ WFStore bytes bits`,
an index is valid iff it denotes a concatenation of code words within the valid bits, an item is
accepted iff every symbol has a code. The laws are the bit-level theorems of Props/C06Bits.lean. -/
namespace FC.Huff
open FC FC.C06

theorem Container.inv_raw {h : Container} (hr : h.coded = none) : h.Inv := by
  simp only [Container.Inv, hr]
theorem Container.inv_coded {h : Container} {c : Code} {bytes : List Nat} {bits : Nat}
    (hc : h.coded = some (c, bytes, bits)) : h.Inv ↔ (EncOK c ∧ TableOK c ∧ WFStore bytes bits) := by
  simp only [Container.Inv, hc, CodedInv]
theorem Container.valid_raw {h : Container} (hr : h.coded = none) (i : Nat × Nat) :
    h.Valid i ↔ (i.1 ≤ i.2 ∧ i.2 ≤ h.raw.length) := by
  simp only [Container.Valid, hr]
theorem Container.valid_coded {h : Container} {c : Code} {bytes : List Nat} {bits : Nat}
    (hc : h.coded = some (c, bytes, bits)) (i : Nat × Nat) : h.Valid i ↔ ∃ w, Denotes c bytes bits i w := by
  simp only [Container.Valid, hc]; rfl
theorem Container.accepts_raw {h : Container} (hr : h.coded = none) (v : List Nat) : h.Accepts v := by
  simp only [Container.Accepts, hr]
theorem Container.accepts_coded {h : Container} {c : Code} {bytes : List Nat} {bits : Nat}
    (hc : h.coded = some (c, bytes, bits)) (v : List Nat) : h.Accepts v ↔ ∀ s ∈ v, (c.lookup s).isSome := by
  simp only [Container.Accepts, hc]

/-- the cursor of `DenseRegion Huff.Container` -/
def Container.cursor (h : Container) : Nat :=
  match h.coded with | none => h.raw.length | some (_, _, bits) => bits

theorem Container.cursor_eq (h : Container) : DenseRegion.cursor h = h.cursor := rfl

/-! ### the laws, on the bare container -/

theorem Container.push_ok (h : Container) (v : List Nat) (hi : h.Inv) (ha : h.Accepts v) :
    ∃ h' i, h.push v = some (h', i) ∧ h'.index i = some v := by
  rcases hcd : h.coded with _ | ⟨c, bytes, bits⟩
  · obtain ⟨h', hp, -, -, hx⟩ := raw_mode h v hcd
    exact ⟨h', _, hp, hx⟩
  · obtain ⟨he, ht, hwf⟩ := (Container.inv_coded hcd).1 hi
    have hk := (Container.accepts_coded hcd v).1 ha
    have hs := accepts_known h c bytes bits v hcd (he.on v) hwf hk
    obtain ⟨⟨h', i⟩, hp⟩ := Option.isSome_iff_exists.1 hs
    exact ⟨h', i, hp, roundtrip_coded h h' c bytes bits v i hcd (he.on v) ht hwf hp⟩

theorem Container.push_refuses (h : Container) (v : List Nat) (ha : ¬ h.Accepts v) : h.push v = none := by
  rcases hcd : h.coded with _ | ⟨c, bytes, bits⟩
  · exact absurd (Container.accepts_raw hcd v) ha
  · rw [Container.accepts_coded hcd v] at ha
    have : ∃ s, s ∈ v ∧ c.lookup s = none := by
      apply Classical.byContradiction
      intro hn
      apply ha
      intro s hs
      cases hl : c.lookup s with
      | none => exact absurd ⟨s, hs, hl⟩ hn
      | some p => rfl
    obtain ⟨s, hs, hl⟩ := this
    exact refuses_unknown h c bytes bits v s hcd hs hl

theorem Container.push_inv (h h' : Container) (v : List Nat) (i : Nat × Nat) (hi : h.Inv)
    (hp : h.push v = some (h', i)) : h'.Inv ∧ h'.Valid i := by
  rcases hcd : h.coded with _ | ⟨c, bytes, bits⟩
  · obtain ⟨h'', hp', hraw', hr', -⟩ := raw_mode h v hcd
    rw [hp] at hp'
    simp only [Option.some.injEq, Prod.mk.injEq] at hp'
    obtain ⟨rfl, rfl⟩ := hp'
    refine ⟨Container.inv_raw hraw', (Container.valid_raw hraw' _).2 ?_⟩
    rw [hr']; simp
  · obtain ⟨he, ht, hwf⟩ := (Container.inv_coded hcd).1 hi
    obtain ⟨bytes', bits', hcd', hwf', -, hd, -⟩ := push_coded h h' c bytes bits v i hcd (he.on v) hwf hp
    exact ⟨(Container.inv_coded hcd').2 ⟨he, ht, hwf'⟩, (Container.valid_coded hcd' i).2 ⟨v, hd⟩⟩

theorem Container.frame (h h' : Container) (v : List Nat) (i j : Nat × Nat) (hi : h.Inv) (hv : h.Valid j)
    (hp : h.push v = some (h', i)) : h'.Valid j ∧ h'.index j = h.index j := by
  rcases hcd : h.coded with _ | ⟨c, bytes, bits⟩
  · have hj := (Container.valid_raw hcd j).1 hv
    refine ⟨?_, raw_frame h h' v i j hcd hp hj⟩
    obtain ⟨h'', hp', hraw', hr', -⟩ := raw_mode h v hcd
    rw [hp] at hp'
    simp only [Option.some.injEq, Prod.mk.injEq] at hp'
    obtain ⟨rfl, rfl⟩ := hp'
    refine (Container.valid_raw hraw' _).2 ⟨hj.1, ?_⟩
    rw [hr', List.length_append]; omega
  · obtain ⟨he, ht, hwf⟩ := (Container.inv_coded hcd).1 hi
    obtain ⟨w, hw⟩ := (Container.valid_coded hcd j).1 hv
    obtain ⟨bytes', bits', hcd', hwf', -, -, hfr⟩ := push_coded h h' c bytes bits v i hcd (he.on v) hwf hp
    obtain ⟨h1, h2⟩ := frame_coded h h' c bytes bits v i j w hcd (he.on v) ht hwf hp hw
    exact ⟨(Container.valid_coded hcd' j).2 ⟨w, hfr j w hw⟩, by rw [h1, h2]⟩

theorem Container.valid_reads (h : Container) (j : Nat × Nat) (hi : h.Inv) (hv : h.Valid j) :
    ∃ u, h.index j = some u := by
  rcases hcd : h.coded with _ | ⟨c, bytes, bits⟩
  · have hj := (Container.valid_raw hcd j).1 hv
    exact ⟨(h.raw.drop j.1).take (j.2 - j.1), by simp only [Container.index, hcd, hj, and_self, if_true]⟩
  · obtain ⟨-, ht, hwf⟩ := (Container.inv_coded hcd).1 hi
    obtain ⟨w, hw⟩ := (Container.valid_coded hcd j).1 hv
    exact ⟨w, index_of_denotes h c bytes bits j w hcd ht hwf hw⟩

/-- pushes return `(cursor before, cursor after)`: symbol positions in raw mode, bit positions in coded mode -/
theorem Container.push_dense (h h' : Container) (v : List Nat) (i : Nat × Nat) (hi : h.Inv)
    (hp : h.push v = some (h', i)) : i = (h.cursor, h'.cursor) := by
  rcases hcd : h.coded with _ | ⟨c, bytes, bits⟩
  · obtain ⟨h'', hp', hraw', hr', -⟩ := raw_mode h v hcd
    rw [hp] at hp'
    simp only [Option.some.injEq, Prod.mk.injEq] at hp'
    obtain ⟨rfl, rfl⟩ := hp'
    simp only [Container.cursor, hcd, hraw', hr', List.length_append]
  · obtain ⟨he, -, hwf⟩ := (Container.inv_coded hcd).1 hi
    obtain ⟨rfl, bytes', hcd', -⟩ := bits_eq_sum h h' c bytes bits v i hcd (he.on v) hwf hp
    simp only [Container.cursor, hcd, hcd']

theorem Container.clear_eq (h : Container) : h.clear = Container.default := rfl

end FC.Huff

namespace FC
open Region Huff

/-! ### `HuffmanContainer<u16>` (symbols are naturals) -/

instance huffLawfulRegion : LawfulRegion Huff.Container where
  inv_default := Container.inv_raw rfl
  push_ok r v hi ha := by
    obtain ⟨r', i, hp, hx⟩ := Container.push_ok r v hi ha
    exact ⟨r', i, hp, v, hx, rfl⟩
  push_refuses r v _ ha := Container.push_refuses r v ha
  push_inv r r' v i hi hp := Container.push_inv r r' v i hi hp
  frame r r' v i j hi hv hp := Container.frame r r' v i j hi hv hp
  valid_reads r j hi hv := Container.valid_reads r j hi hv
  clear_inv _ _ := Container.inv_raw rfl
  clear_sim _ _ := rfl
  sim_refl _ _ := rfl
  sim_push a b v hs _ _ := by
    cases (show a = b from hs)
    cases hp : push a v with
    | none => exact Or.inl ⟨rfl, rfl⟩
    | some p => exact Or.inr ⟨p.1, p.1, p.2, rfl, rfl, rfl⟩
  sim_index a b i hs _ _ := by
    cases (show a = b from hs)
    exact ⟨Iff.rfl, fun _ => rfl⟩

instance huffLawfulDense : LawfulDense Huff.Container where
  cursor_default := rfl
  cursor_clear _ := rfl
  push_dense r r' v i hi hp := Container.push_dense r r' v i hi hp

instance huffDenseSim : DenseSim Huff.Container where
  cursor_sim a b hs := by cases (show a = b from hs); rfl

/-! ### `HuffmanContainer<u8>` (symbols are bytes) -/

theorem map_ofNat_toNat (v : List UInt8) : (v.map UInt8.toNat).map UInt8.ofNat = v := by
  induction v with
  | nil => rfl
  | cons b bs ih => simp only [List.map_cons, ih, UInt8.ofNat_toNat]

theorem HuffU8.push_def (h : HuffU8) (v : List UInt8) :
    push h v = (Huff.Container.push h.c (v.map UInt8.toNat)).map fun (c, i) => (⟨c⟩, i) := rfl
theorem HuffU8.index_def (h : HuffU8) (i : Nat × Nat) :
    index h i = (Huff.Container.index h.c i).map fun xs => xs.map UInt8.ofNat := rfl

theorem HuffU8.push_some {h h' : HuffU8} {v : List UInt8} {i : Nat × Nat} (hp : push h v = some (h', i)) :
    Huff.Container.push h.c (v.map UInt8.toNat) = some (h'.c, i) := by
  rw [HuffU8.push_def] at hp
  cases hq : Huff.Container.push h.c (v.map UInt8.toNat) with
  | none => rw [hq] at hp; cases hp
  | some p =>
    rw [hq] at hp
    simp only [Option.map_some, Option.some.injEq, Prod.mk.injEq] at hp
    obtain ⟨rfl, rfl⟩ := hp
    rfl

instance huffU8LawfulRegion : LawfulRegion HuffU8 where
  inv_default := Container.inv_raw rfl
  push_ok r v hi ha := by
    obtain ⟨c', i, hp, hx⟩ := Container.push_ok r.c (v.map UInt8.toNat) hi ha
    refine ⟨⟨c'⟩, i, ?_, v, ?_, rfl⟩
    · rw [HuffU8.push_def, hp]; rfl
    · rw [HuffU8.index_def, hx, Option.map_some, map_ofNat_toNat]
  push_refuses r v _ ha := by
    rw [HuffU8.push_def, Container.push_refuses r.c (v.map UInt8.toNat) ha]; rfl
  push_inv r r' v i hi hp := Container.push_inv r.c r'.c _ i hi (HuffU8.push_some hp)
  frame r r' _ i j hi hv hp := by
    obtain ⟨h1, h2⟩ := Container.frame r.c r'.c _ i j hi hv (HuffU8.push_some hp)
    exact ⟨h1, by rw [HuffU8.index_def, HuffU8.index_def, h2]⟩
  valid_reads r j hi hv := by
    obtain ⟨u, hu⟩ := Container.valid_reads r.c j hi hv
    exact ⟨u.map UInt8.ofNat, by rw [HuffU8.index_def, hu]; rfl⟩
  clear_inv _ _ := Container.inv_raw rfl
  clear_sim _ _ := rfl
  sim_refl _ _ := rfl
  sim_push a b v hs _ _ := by
    obtain ⟨a⟩ := a; obtain ⟨b⟩ := b
    cases (show a = b from hs)
    cases hp : push (⟨a⟩ : HuffU8) v with
    | none => exact Or.inl ⟨rfl, rfl⟩
    | some p => exact Or.inr ⟨p.1, p.1, p.2, rfl, rfl, rfl⟩
  sim_index a b i hs _ _ := by
    obtain ⟨a⟩ := a; obtain ⟨b⟩ := b
    cases (show a = b from hs)
    exact ⟨Iff.rfl, fun _ => rfl⟩

instance huffU8LawfulDense : LawfulDense HuffU8 where
  cursor_default := rfl
  cursor_clear _ := rfl
  push_dense r r' _ i hi hp := Container.push_dense r.c r'.c _ i hi (HuffU8.push_some hp)

instance huffU8DenseSim : DenseSim HuffU8 where
  cursor_sim a b hs := by
    obtain ⟨a⟩ := a; obtain ⟨b⟩ := b
    cases (show a = b from hs); rfl

/-! ### `merge_regions` establishes the invariant -/

/-- the merged container is coded, with an empty store; its invariant holds as soon as the statistics
handed to `create_from` are valid and the resulting code stays within the encoder's width -/
theorem Huff.Container.merge_inv (srcs : List Huff.Container)
    (hv : Huff.Valid (srcs.foldl (fun acc h => mergeStats acc h.stats) []))
    (hdepth : ∀ x ∈ (C06.mergedCode srcs).encode, 1 ≤ x.2.1 ∧ x.2.1 ≤ 57) :
    Inv (Huff.Container.merge srcs) := by
  have hg : C06.GoodCode (C06.mergedCode srcs) := C06.createFrom_good _ hv hdepth
  obtain ⟨h1, h2⟩ := C06.createFrom_ok _ hg
  exact (Container.inv_coded (C06.merge_coded srcs)).2 ⟨h1, h2, C06.wfStore_empty⟩

/-- for reachable sources the statistics are valid, so only the depth bound remains -/
theorem Huff.Container.merge_inv_reachable (srcs : List Huff.Container) (hr : ∀ s ∈ srcs, Huff.Built s)
    (hdepth : ∀ x ∈ (C06.mergedCode srcs).encode, 1 ≤ x.2.1 ∧ x.2.1 ≤ 57) :
    Inv (Huff.Container.merge srcs) :=
  Huff.Container.merge_inv srcs (merged_stats_valid srcs fun s hs => (hr s hs).stats_valid) hdepth

/-- every reachable container satisfies the region invariant, provided each `merge_regions` on the way
produced a code within the encoder's width (≤ 57 bits: fewer than ~10^12 recorded symbols suffice) -/
inductive Huff.BuiltOK : Huff.Container → Prop
  | default : BuiltOK Huff.Container.default
  | push {h h' : Huff.Container} {item : List Nat} {i : Nat × Nat} :
      BuiltOK h → Huff.Container.push h item = some (h', i) → BuiltOK h'
  | clear {h : Huff.Container} : BuiltOK h → BuiltOK (Huff.Container.clear h)
  | merge {srcs : List Huff.Container} : (∀ s ∈ srcs, BuiltOK s) →
      (∀ x ∈ (C06.mergedCode srcs).encode, 1 ≤ x.2.1 ∧ x.2.1 ≤ 57) → BuiltOK (Huff.Container.merge srcs)

theorem Huff.BuiltOK.built {h : Huff.Container} (hr : Huff.BuiltOK h) : Huff.Built h := by
  induction hr with
  | default => exact .default
  | push _ hp ih => exact .push ih hp
  | clear _ ih => exact .clear ih
  | merge _ _ ih => exact .merge ih

theorem Huff.BuiltOK.inv {h : Huff.Container} (hr : Huff.BuiltOK h) : Inv h := by
  induction hr with
  | default => exact Container.inv_raw rfl
  | push _ hp ih => exact (Container.push_inv _ _ _ _ ih hp).1
  | clear _ _ => exact Container.inv_raw rfl
  | merge hs hd _ => exact Huff.Container.merge_inv_reachable _ (fun s h => (hs s h).built) hd

/-- the same for `HuffmanContainer<u8>` (`merge_regions` of the wrapped containers) -/
theorem HuffU8.merge_inv (rs : List HuffU8)
    (hv : Huff.Valid ((rs.map (·.c)).foldl (fun acc h => mergeStats acc h.stats) []))
    (hdepth : ∀ x ∈ (C06.mergedCode (rs.map (·.c))).encode, 1 ≤ x.2.1 ∧ x.2.1 ≤ 57) :
    Inv (RegionAux.mergeRegions rs : HuffU8) :=
  Huff.Container.merge_inv (rs.map (·.c)) hv hdepth

end FC
