import FlatModel.Model.Ops
import FlatModel.Proofs.Index
import FlatModel.Proofs.Region
/-! Capacities never change what a container means: `Capd C` obeys the laws of `C`;
a `FlatStack` is a lawful region whenever its region and index container are. -/
namespace FC
open Region

instance {C T : Type} [IdxCont C T] [HasStores C] [L : LawfulIdxCont C] : LawfulIdxCont (Capd C) where
  inv_default := L.inv_default
  inv_push c x h := L.inv_push c.a x h
  inv_clear c := L.inv_clear c.a
  iter_default := L.iter_default
  iter_push c x h := L.iter_push c.a x h
  iter_clear c := L.iter_clear c.a
  index_eq c i h := L.index_eq c.a i h
  len_eq c h := L.len_eq c.a h
  isEmpty_eq c h := L.isEmpty_eq c.a h

section Stack
variable {R V I S : Type} [Region R V I] [IdxCont S I] [LR : LawfulRegion R] [LS : LawfulIdxCont S]

theorem stack_push_some (fs fs' : FlatStack R S) (v : V) (k : Nat) (hp : push fs v = some (fs', k)) :
    ∃ r' i, push fs.region v = some (r', i) ∧ fs' = ⟨IdxCont.push fs.indices i, r'⟩ ∧ k = IdxCont.len fs.indices := by
  simp only [Region.push, FlatStack.copy] at hp
  cases h : push fs.region v with
  | none => simp [h] at hp
  | some p =>
    obtain ⟨r', i⟩ := p
    simp only [h, Option.map_some, Option.some.injEq, Prod.mk.injEq] at hp
    exact ⟨r', i, rfl, hp.1.symm, hp.2.symm⟩

theorem stack_index (fs : FlatStack R S) (k : Nat) (hc : IdxCont.Inv fs.indices) :
    index fs k = ((IdxCont.iter fs.indices)[k]?).bind (index fs.region) := by
  simp only [Region.index, FlatStack.get, LS.index_eq _ k hc]
  cases (IdxCont.iter fs.indices)[k]? <;> rfl

instance : LawfulRegion (FlatStack R S) where
  inv_default := ⟨LR.inv_default, LS.inv_default, by
    intro j hj
    simp [Region.default, FlatStack.default, LS.iter_default] at hj⟩
  push_ok fs v hi ha := by
    obtain ⟨hr, hc, hall⟩ := hi
    obtain ⟨r', i, hp, u, hu, hs⟩ := LR.push_ok fs.region v hr ha
    refine ⟨⟨IdxCont.push fs.indices i, r'⟩, IdxCont.len fs.indices, by simp [Region.push, FlatStack.copy, hp], u, ?_, hs⟩
    have hc' := LS.inv_push fs.indices i hc
    rw [stack_index _ _ hc', LS.iter_push _ _ hc, LS.len_eq _ hc]
    simp [hu]
  push_refuses fs v hi hna := by
    have := LR.push_refuses fs.region v hi.1 hna
    simp [Region.push, FlatStack.copy, this]
  push_inv fs fs' v k hi hp := by
    obtain ⟨hr, hc, hall⟩ := hi
    obtain ⟨r', i, hp', rfl, rfl⟩ := stack_push_some fs fs' v k hp
    obtain ⟨hr', hvi⟩ := LR.push_inv fs.region r' v i hr hp'
    refine ⟨⟨hr', LS.inv_push _ _ hc, ?_⟩, ?_⟩
    · intro j hj
      simp only [LS.iter_push _ _ hc, List.mem_append, List.mem_singleton] at hj
      rcases hj with hj | rfl
      · exact (LR.frame fs.region r' v i j hr (hall j hj) hp').1
      · exact hvi
    · simp only [Region.Valid, LS.iter_push _ _ hc, LS.len_eq _ hc, List.length_append, List.length_singleton]
      omega
  frame fs fs' v k j hi hv hp := by
    obtain ⟨hr, hc, hall⟩ := hi
    obtain ⟨r', i, hp', rfl, rfl⟩ := stack_push_some fs fs' v k hp
    simp only [Region.Valid] at hv
    refine ⟨by simp only [Region.Valid, LS.iter_push _ _ hc, List.length_append, List.length_singleton]; omega, ?_⟩
    rw [stack_index _ _ (LS.inv_push _ _ hc), stack_index _ _ hc, LS.iter_push _ _ hc,
      List.getElem?_append_left hv]
    have hj : (IdxCont.iter fs.indices)[j]? = some (IdxCont.iter fs.indices)[j] := List.getElem?_eq_getElem hv
    rw [hj]
    simp only [Option.bind_some]
    exact (LR.frame fs.region r' v i _ hr (hall _ (List.getElem_mem hv)) hp').2
  valid_reads fs k hi hv := by
    obtain ⟨hr, hc, hall⟩ := hi
    simp only [Region.Valid] at hv
    rw [stack_index _ _ hc, List.getElem?_eq_getElem hv]
    exact LR.valid_reads fs.region _ hr (hall _ (List.getElem_mem hv))
  clear_inv fs hi := ⟨LR.clear_inv _ hi.1, LS.inv_clear _, by
    intro j hj
    simp [Region.clear, FlatStack.clear, LS.iter_clear] at hj⟩
  clear_sim fs hi := ⟨by simp [Region.clear, FlatStack.clear, Region.default, FlatStack.default, LS.iter_clear, LS.iter_default],
    LR.clear_sim _ hi.1⟩
  sim_refl fs hi := ⟨rfl, LR.sim_refl _ hi.1⟩
  sim_push a b v hs ha hb := by
    obtain ⟨hit, hsr⟩ := hs
    rcases LR.sim_push a.region b.region v hsr ha.1 hb.1 with ⟨h1, h2⟩ | ⟨a', b', i, h1, h2, h3⟩
    · exact Or.inl ⟨by simp [Region.push, FlatStack.copy, h1], by simp [Region.push, FlatStack.copy, h2]⟩
    · refine Or.inr ⟨⟨IdxCont.push a.indices i, a'⟩, ⟨IdxCont.push b.indices i, b'⟩, IdxCont.len a.indices, ?_, ?_, ?_, h3⟩
      · simp [Region.push, FlatStack.copy, h1]
      · simp [Region.push, FlatStack.copy, h2, LS.len_eq _ ha.2.1, LS.len_eq _ hb.2.1, hit]
      · simp [LS.iter_push _ _ ha.2.1, LS.iter_push _ _ hb.2.1, hit]
  sim_index a b k hs ha hb := by
    obtain ⟨hit, hsr⟩ := hs
    refine ⟨by simp [Region.Valid, hit], fun hv => ?_⟩
    simp only [Region.Valid] at hv
    rw [stack_index _ _ ha.2.1, stack_index _ _ hb.2.1, ← hit, List.getElem?_eq_getElem hv]
    simp only [Option.bind_some]
    exact (LR.sim_index a.region b.region _ hsr ha.1 hb.1).2 (ha.2.2 _ (List.getElem_mem hv))

end Stack
end FC
