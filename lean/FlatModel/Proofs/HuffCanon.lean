import FlatModel.Model.Huffman
import FlatModel.Proofs.HuffOpt
/-! Canonical code assignment (`sortByLevel`, `assign`): the codes are in range, prefix-free, and the running
code is the scaled partial Kraft sum. -/
namespace FC.Huff
open Opt (PrefixFree)

/-! ### `sortByLevel` sorts and permutes -/

/-- ascending by level (first component) -/
def LevelSorted (l : List (Nat × Nat)) : Prop := l.Pairwise fun a b => a.1 ≤ b.1

theorem insertByLevel_perm (x : Nat × Nat) (l : List (Nat × Nat)) : (insertByLevel x l).Perm (x :: l) := by
  induction l with
  | nil => simp [insertByLevel]
  | cons y ys ih =>
    unfold insertByLevel
    split
    · exact List.Perm.refl _
    · exact (List.Perm.cons y ih).trans (List.Perm.swap x y ys)

theorem sortByLevel_perm (l : List (Nat × Nat)) : (sortByLevel l).Perm l := by
  induction l with
  | nil => simp [sortByLevel]
  | cons x xs ih =>
    have : sortByLevel (x :: xs) = insertByLevel x (sortByLevel xs) := rfl
    rw [this]
    exact (insertByLevel_perm x _).trans (List.Perm.cons x ih)

theorem insertByLevel_sorted (x : Nat × Nat) (l : List (Nat × Nat)) (h : LevelSorted l) :
    LevelSorted (insertByLevel x l) := by
  induction l with
  | nil => simp [insertByLevel, LevelSorted]
  | cons y ys ih =>
    unfold LevelSorted at h ih ⊢
    rw [List.pairwise_cons] at h
    unfold insertByLevel
    split
    · rename_i hxy
      rw [List.pairwise_cons, List.pairwise_cons]
      refine ⟨?_, h⟩
      intro b hb
      rcases List.mem_cons.mp hb with rfl | hb
      · omega
      · have := h.1 b hb; omega
    · rename_i hxy
      rw [List.pairwise_cons]
      refine ⟨?_, ih h.2⟩
      intro b hb
      have hb' := (insertByLevel_perm x ys).mem_iff.mp hb
      rcases List.mem_cons.mp hb' with rfl | hb'
      · omega
      · exact h.1 b hb'

theorem sortByLevel_sorted (l : List (Nat × Nat)) : LevelSorted (sortByLevel l) := by
  induction l with
  | nil => simp [sortByLevel, LevelSorted]
  | cons x xs ih =>
    have : sortByLevel (x :: xs) = insertByLevel x (sortByLevel xs) := rfl
    rw [this]
    exact insertByLevel_sorted x _ ih

/-! ### `assign` -/

/-- Kraft sum of a level list, scaled by 2^M -/
def lsum (M : Nat) (L : List (Nat × Nat)) : Nat := (L.map fun x => 2 ^ (M - x.1)).sum

@[simp] theorem lsum_nil (M : Nat) : lsum M [] = 0 := rfl
@[simp] theorem lsum_cons (M : Nat) (x : Nat × Nat) (L : List (Nat × Nat)) :
    lsum M (x :: L) = 2 ^ (M - x.1) + lsum M L := by simp [lsum]
theorem lsum_perm {M : Nat} {L L' : List (Nat × Nat)} (h : L.Perm L') : lsum M L = lsum M L' := by
  unfold lsum; exact (h.map _).sum_nat

@[simp] theorem assign_nil (code prev : Nat) : assign [] code prev = [] := rfl

theorem assign_cons_of_le (lvl s : Nat) (rest : List (Nat × Nat)) (code prev : Nat) (h : prev ≤ lvl) :
    assign ((lvl, s) :: rest) code prev
      = (s, lvl, code * 2 ^ (lvl - prev)) :: assign rest (code * 2 ^ (lvl - prev) + 1) lvl := by
  rw [assign.eq_2]
  by_cases hp : prev = lvl
  · subst hp; simp
  · simp [hp]

/-- `assign` keeps the levels and symbols, in order -/
theorem assign_levels (L : List (Nat × Nat)) : ∀ code prev : Nat,
    (assign L code prev).map (fun e => (e.2.1, e.1)) = L := by
  induction L with
  | nil => intro _ _; rfl
  | cons x L ih =>
    intro code prev
    obtain ⟨lvl, s⟩ := x
    rw [assign.eq_2]
    simp only [List.map_cons, ih]

theorem assign_length (L : List (Nat × Nat)) (code prev : Nat) : (assign L code prev).length = L.length := by
  have := congrArg List.length (assign_levels L code prev)
  simpa using this

theorem pow_split {a b c : Nat} (h1 : a ≤ b) (h2 : b ≤ c) : 2 ^ (b - a) * 2 ^ (c - b) = 2 ^ (c - a) := by
  rw [← pow_add]; congr 1; omega

/-- every later code is at least the starting code, shifted to the later length -/
theorem assign_ge (L : List (Nat × Nat)) : ∀ code prev : Nat, LevelSorted L → (∀ x ∈ L, prev ≤ x.1) →
    ∀ e ∈ assign L code prev, prev ≤ e.2.1 ∧ code * 2 ^ (e.2.1 - prev) ≤ e.2.2 := by
  induction L with
  | nil => intro _ _ _ _ e he; simp at he
  | cons x L ih =>
    intro code prev hs hp e he
    obtain ⟨lvl, s⟩ := x
    have hpl : prev ≤ lvl := hp (lvl, s) (by simp)
    rw [assign_cons_of_le lvl s L code prev hpl] at he
    unfold LevelSorted at hs
    rw [List.pairwise_cons] at hs
    rcases List.mem_cons.mp he with rfl | he
    · exact ⟨hpl, le_refl _⟩
    · obtain ⟨h1, h2⟩ := ih (code * 2 ^ (lvl - prev) + 1) lvl hs.2 (fun y hy => hs.1 y hy) e he
      refine ⟨by omega, ?_⟩
      calc code * 2 ^ (e.2.1 - prev) = code * (2 ^ (lvl - prev) * 2 ^ (e.2.1 - lvl)) := by rw [pow_split hpl h1]
        _ = code * 2 ^ (lvl - prev) * 2 ^ (e.2.1 - lvl) := by ring
        _ ≤ (code * 2 ^ (lvl - prev) + 1) * 2 ^ (e.2.1 - lvl) := Nat.mul_le_mul_right _ (by omega)
        _ ≤ e.2.2 := h2

/-- the relation between an earlier entry `a` and a later entry `b` of a canonical code -/
def Sep (a b : Nat × Nat × Nat) : Prop := a.2.1 ≤ b.2.1 ∧ (a.2.2 + 1) * 2 ^ (b.2.1 - a.2.1) ≤ b.2.2

/-- (ii) the separation invariant: a later code is at least `(code_i + 1) · 2^(lvl_j − lvl_i)` -/
theorem assign_pairwise (L : List (Nat × Nat)) : ∀ code prev : Nat, LevelSorted L → (∀ x ∈ L, prev ≤ x.1) →
    (assign L code prev).Pairwise Sep := by
  induction L with
  | nil => intro _ _ _ _; simp
  | cons x L ih =>
    intro code prev hs hp
    obtain ⟨lvl, s⟩ := x
    have hpl : prev ≤ lvl := hp (lvl, s) (by simp)
    rw [assign_cons_of_le lvl s L code prev hpl]
    unfold LevelSorted at hs
    rw [List.pairwise_cons] at hs
    rw [List.pairwise_cons]
    refine ⟨?_, ih _ lvl hs.2 (fun y hy => hs.1 y hy)⟩
    intro e he
    exact assign_ge L _ lvl hs.2 (fun y hy => hs.1 y hy) e he

/-- hypotheses on a (suffix of a) level list: sorted, between `prev` and `M`, Kraft sum fits above `code` -/
structure Pre (M : Nat) (L : List (Nat × Nat)) (code prev : Nat) : Prop where
  sorted : LevelSorted L
  range : ∀ x ∈ L, prev ≤ x.1 ∧ x.1 ≤ M
  kraft : code * 2 ^ (M - prev) + lsum M L ≤ 2 ^ M

theorem Pre.tail {M lvl s L code prev} (h : Pre M ((lvl, s) :: L) code prev) :
    Pre M L (code * 2 ^ (lvl - prev) + 1) lvl := by
  obtain ⟨hs, hr, hk⟩ := h
  unfold LevelSorted at hs
  rw [List.pairwise_cons] at hs
  have h0 := hr (lvl, s) (by simp)
  refine ⟨hs.2, fun y hy => ⟨hs.1 y hy, (hr y (by simp [hy])).2⟩, ?_⟩
  rw [lsum_cons] at hk
  have : code * 2 ^ (lvl - prev) * 2 ^ (M - lvl) = code * 2 ^ (M - prev) := by
    rw [Nat.mul_assoc, pow_split h0.1 h0.2]
  calc (code * 2 ^ (lvl - prev) + 1) * 2 ^ (M - lvl) + lsum M L
      = code * 2 ^ (lvl - prev) * 2 ^ (M - lvl) + 2 ^ (M - lvl) + lsum M L := by ring
    _ ≤ 2 ^ M := by rw [this]; simpa [Nat.add_assoc] using hk

/-- (i) every code fits in its length -/
theorem assign_code_lt (M : Nat) (L : List (Nat × Nat)) : ∀ code prev : Nat, Pre M L code prev →
    ∀ e ∈ assign L code prev, e.2.2 < 2 ^ e.2.1 := by
  induction L with
  | nil => intro _ _ _ e he; simp at he
  | cons x L ih =>
    intro code prev h e he
    obtain ⟨lvl, s⟩ := x
    have h0 := h.range (lvl, s) (by simp)
    rw [assign_cons_of_le lvl s L code prev h0.1] at he
    rcases List.mem_cons.mp he with rfl | he
    · have hk := h.tail.kraft
      have h2 : 2 ^ M = 2 ^ lvl * 2 ^ (M - lvl) := by rw [← pow_add]; congr 1; omega
      have hpos : 0 < 2 ^ (M - lvl) := Nat.two_pow_pos _
      show code * 2 ^ (lvl - prev) < 2 ^ lvl
      have : (code * 2 ^ (lvl - prev) + 1) * 2 ^ (M - lvl) ≤ 2 ^ lvl * 2 ^ (M - lvl) := by omega
      have := Nat.le_of_mul_le_mul_right this hpos
      omega
    · exact ih _ lvl h.tail e he

/-- (iii) the running code is the scaled partial Kraft sum -/
theorem assign_code_eq (M : Nat) (L : List (Nat × Nat)) : ∀ (code prev i : Nat) (e : Nat × Nat × Nat),
    LevelSorted L → (∀ x ∈ L, prev ≤ x.1 ∧ x.1 ≤ M) → (assign L code prev)[i]? = some e →
    e.2.2 * 2 ^ (M - e.2.1) = code * 2 ^ (M - prev) + lsum M (L.take i) := by
  induction L with
  | nil => intro _ _ i e _ _ he; simp at he
  | cons x L ih =>
    intro code prev i e hs hr he
    obtain ⟨lvl, s⟩ := x
    have h0 := hr (lvl, s) (by simp)
    rw [assign_cons_of_le lvl s L code prev h0.1] at he
    unfold LevelSorted at hs
    rw [List.pairwise_cons] at hs
    cases i with
    | zero =>
      simp only [List.getElem?_cons_zero, Option.some.injEq] at he
      subst he
      simp only [List.take_zero, lsum_nil, Nat.add_zero]
      rw [Nat.mul_assoc, pow_split h0.1 h0.2]
    | succ i =>
      simp only [List.getElem?_cons_succ] at he
      have := ih _ lvl i e hs.2 (fun y hy => ⟨hs.1 y hy, (hr y (by simp [hy])).2⟩) he
      rw [this, List.take_succ_cons, lsum_cons]
      have h3 : code * 2 ^ (lvl - prev) * 2 ^ (M - lvl) = code * 2 ^ (M - prev) := by
        rw [Nat.mul_assoc, pow_split h0.1 h0.2]
      calc (code * 2 ^ (lvl - prev) + 1) * 2 ^ (M - lvl) + lsum M (List.take i L)
          = code * 2 ^ (lvl - prev) * 2 ^ (M - lvl) + 2 ^ (M - lvl) + lsum M (List.take i L) := by ring
        _ = code * 2 ^ (M - prev) + (2 ^ (M - (lvl, s).1) + lsum M (List.take i L)) := by rw [h3]; simp [Nat.add_assoc]

/-! ### bit strings -/

/-- the `l` low bits of `code`, most significant first -/
def canonBits : Nat → Nat → List Bool
  | 0, _ => []
  | l + 1, c => canonBits l (c / 2) ++ [c % 2 == 1]

example : canonBits 3 5 = [true, false, true] := by decide
example : canonBits 3 1 = [false, false, true] := by decide
example : canonBits 2 2 = [true, false] := by decide

@[simp] theorem length_canonBits (l c : Nat) : (canonBits l c).length = l := by
  induction l generalizing c with
  | zero => rfl
  | succ l ih => simp [canonBits, ih]

/-- the first `l` of the `m` bits of `d` are the `l` bits of `d / 2^(m-l)` -/
theorem take_canonBits (m : Nat) : ∀ (l d : Nat), l ≤ m → (canonBits m d).take l = canonBits l (d / 2 ^ (m - l)) := by
  induction m with
  | zero => intro l d h; have : l = 0 := by omega
            subst this; simp [canonBits]
  | succ m ih =>
    intro l d h
    rcases Nat.lt_or_ge m l with hl | hl
    · have : l = m + 1 := by omega
      subst this
      rw [List.take_of_length_le (by simp)]
      simp
    · have hlen : l ≤ (canonBits m (d / 2)).length := by simp [hl]
      show List.take l (canonBits m (d / 2) ++ [d % 2 == 1]) = _
      rw [List.take_append_of_le_length hlen, ih l (d / 2) hl, Nat.div_div_eq_div_mul]
      congr 2
      have : m + 1 - l = (m - l) + 1 := by omega
      rw [this, pow_succ]; ring

theorem canonBits_inj (l : Nat) : ∀ c c' : Nat, c < 2 ^ l → c' < 2 ^ l → canonBits l c = canonBits l c' → c = c' := by
  induction l with
  | zero => intro c c' h h' _; simp at h h'; omega
  | succ l ih =>
    intro c c' h h' he
    have he' : canonBits l (c / 2) ++ [c % 2 == 1] = canonBits l (c' / 2) ++ [c' % 2 == 1] := he
    obtain ⟨h1, h2⟩ := List.append_inj he' (by simp)
    rw [pow_succ] at h h'
    have := ih (c / 2) (c' / 2) (by omega) (by omega) h1
    simp only [List.cons.injEq, and_true] at h2
    have h3 : c % 2 = c' % 2 := by
      rcases Nat.mod_two_eq_zero_or_one c with a | a <;> rcases Nat.mod_two_eq_zero_or_one c' with b | b <;>
        simp [a, b] at h2 ⊢
    omega

/-- separated entries with in-range codes have incomparable bit strings -/
theorem sep_not_prefix {a b : Nat × Nat × Nat} (hab : Sep a b) (ha : a.2.2 < 2 ^ a.2.1) (hb : b.2.2 < 2 ^ b.2.1) :
    ¬ canonBits a.2.1 a.2.2 <+: canonBits b.2.1 b.2.2 ∧ ¬ canonBits b.2.1 b.2.2 <+: canonBits a.2.1 a.2.2 := by
  obtain ⟨sa, la, ca⟩ := a
  obtain ⟨sb, lb, cb⟩ := b
  obtain ⟨hl, hc⟩ := hab
  simp only at hl hc ha hb ⊢
  have key : ¬ canonBits la ca <+: canonBits lb cb := by
    intro hp
    have h1 := List.prefix_iff_eq_take.mp hp
    rw [length_canonBits, take_canonBits lb la cb hl] at h1
    have hdiv : cb / 2 ^ (lb - la) < 2 ^ la := by
      rw [Nat.div_lt_iff_lt_mul (Nat.two_pow_pos _), ← pow_add]
      have : la + (lb - la) = lb := by omega
      rw [this]; exact hb
    have := canonBits_inj la _ _ ha hdiv h1
    have h2 : ca + 1 ≤ cb / 2 ^ (lb - la) := (Nat.le_div_iff_mul_le (Nat.two_pow_pos _)).mpr hc
    omega
  refine ⟨key, ?_⟩
  intro hp
  have hlen := hp.length_le
  simp only [length_canonBits] at hlen
  have : la = lb := by omega
  subst this
  have := List.IsPrefix.eq_of_length hp (by simp)
  exact key (this ▸ List.prefix_refl _)

/-- the bit strings of the entries -/
abbrev codeBits (enc : List (Nat × Nat × Nat)) : List (List Bool) := enc.map fun e => canonBits e.2.1 e.2.2

/-- **prefix-freeness of the canonical code**: for levels sorted ascending, bounded by `M`, with Kraft sum at most `2^M` -/
theorem assign_prefixFree (M : Nat) (L : List (Nat × Nat)) (h : Pre M L 0 0) :
    PrefixFree (codeBits (assign L 0 0)) := by
  unfold PrefixFree codeBits
  rw [List.pairwise_map]
  have hlt := assign_code_lt M L 0 0 h
  have hpw := assign_pairwise L 0 0 h.sorted (fun x hx => (h.range x hx).1)
  have := List.Pairwise.and_mem.mp hpw
  exact this.imp (fun ⟨ha, hb, hab⟩ => sep_not_prefix hab (hlt _ ha) (hlt _ hb))

/-- arithmetic form: for entries i < j, `code_j / 2^(lvl_j − lvl_i) ≠ code_i` -/
theorem assign_div_ne (L : List (Nat × Nat)) (hs : LevelSorted L) :
    (assign L 0 0).Pairwise fun a b => a.2.1 ≤ b.2.1 ∧ b.2.2 / 2 ^ (b.2.1 - a.2.1) ≠ a.2.2 := by
  refine (assign_pairwise L 0 0 hs (fun _ _ => Nat.zero_le _)).imp ?_
  intro a b ⟨hl, hc⟩
  refine ⟨hl, ?_⟩
  have h2 : a.2.2 + 1 ≤ b.2.2 / 2 ^ (b.2.1 - a.2.1) := (Nat.le_div_iff_mul_le (Nat.two_pow_pos _)).mpr hc
  omega

/-- `Pre` from the natural top-level hypotheses -/
theorem Pre.top {M : Nat} {L : List (Nat × Nat)} (hs : LevelSorted L) (hM : ∀ x ∈ L, x.1 ≤ M) (hk : lsum M L ≤ 2 ^ M) :
    Pre M L 0 0 :=
  ⟨hs, fun x hx => ⟨Nat.zero_le _, hM x hx⟩, by simpa using hk⟩

/-! ### completeness: the code intervals tile `[0, lsum M L)` -/

theorem assign_getElem?_level (L : List (Nat × Nat)) (code prev i : Nat) (e : Nat × Nat × Nat)
    (he : (assign L code prev)[i]? = some e) : L[i]? = some (e.2.1, e.1) := by
  have h := congrArg (fun l => l[i]?) (assign_levels L code prev)
  simp only [List.getElem?_map, he, Option.map_some] at h
  exact h.symm

/-- entry `i` of the canonical code owns the interval `[Σ_{k<i} 2^(M−lvl_k), Σ_{k≤i} 2^(M−lvl_k))` of the `M`-bit
words: `code_i · 2^(M−lvl_i)` is its start, `(code_i+1) · 2^(M−lvl_i)` its end. Consecutive intervals are adjacent, the
first starts at 0 and the last ends at `lsum M L`; so if the Kraft sum is exactly `2^M` they tile `[0, 2^M)`. -/
theorem assign_interval (M : Nat) (L : List (Nat × Nat)) (hs : LevelSorted L) (hM : ∀ x ∈ L, x.1 ≤ M)
    {i : Nat} {e : Nat × Nat × Nat} (he : (assign L 0 0)[i]? = some e) :
    e.2.2 * 2 ^ (M - e.2.1) = lsum M (L.take i) ∧ (e.2.2 + 1) * 2 ^ (M - e.2.1) = lsum M (L.take (i + 1)) := by
  have h1 := assign_code_eq M L 0 0 i e hs (fun x hx => ⟨Nat.zero_le _, hM x hx⟩) he
  simp only [Nat.zero_mul, Nat.zero_add] at h1
  refine ⟨h1, ?_⟩
  have h2 := assign_getElem?_level L 0 0 i e he
  rw [List.take_add_one, h2, Nat.add_mul, h1]
  simp [lsum]

theorem assign_last_end (M : Nat) (L : List (Nat × Nat)) (hs : LevelSorted L) (hM : ∀ x ∈ L, x.1 ≤ M)
    {e : Nat × Nat × Nat} (he : (assign L 0 0)[L.length - 1]? = some e) :
    (e.2.2 + 1) * 2 ^ (M - e.2.1) = lsum M L := by
  have hpos : 0 < L.length := by
    rcases Nat.eq_zero_or_pos L.length with h | h
    · have : L = [] := List.eq_nil_of_length_eq_zero h
      subst this; simp at he
    · exact h
  have := (assign_interval M L hs hM he).2
  rwa [List.take_of_length_le (by omega)] at this

end FC.Huff
