import FlatModel.Proofs.HuffCreate
/-! The statistics a Huffman container accumulates (`bump`, `mergeStats`) stay `Valid`: keys strictly
ascending, counts positive. This is the precondition `create_from` needs (C06), so it holds for every
container reachable from the default one. -/
namespace FC.Huff

/-- insertion of `(s, c)` into an ascending association list, adding the counts on a hit:
the common shape of `bump` (`c = 1`) and `mergeStats.add` -/
theorem mergeStats_add_nil (s : Nat) (c : Int) : mergeStats.add s c [] = [(s, c)] := by
  rw [mergeStats.add]

theorem mergeStats_add_cons (s : Nat) (c : Int) (t : Nat) (d : Int) (rest : List (Nat × Int)) :
    mergeStats.add s c ((t, d) :: rest) =
      if s < t then (s, c) :: (t, d) :: rest else if s = t then (t, d + c) :: rest
      else (t, d) :: mergeStats.add s c rest := by
  rw [mergeStats.add]

/-- `bump` is `add` with count 1 -/
theorem bump_eq_add (stats : List (Nat × Int)) (s : Nat) : bump stats s = mergeStats.add s 1 stats := by
  induction stats with
  | nil => rw [bump, mergeStats_add_nil]
  | cons p rest ih =>
    obtain ⟨t, d⟩ := p
    rw [bump, mergeStats_add_cons, ih]

theorem add_keys (s : Nat) (c : Int) (l : List (Nat × Int)) :
    ∀ p ∈ mergeStats.add s c l, p.1 = s ∨ p.1 ∈ l.map Prod.fst := by
  induction l with
  | nil => intro p hp; rw [mergeStats_add_nil] at hp; simp at hp; subst hp; exact Or.inl rfl
  | cons q rest ih =>
    obtain ⟨t, d⟩ := q
    intro p hp
    rw [mergeStats_add_cons] at hp
    split at hp
    · rcases List.mem_cons.1 hp with rfl | hp
      · exact Or.inl rfl
      · exact Or.inr (List.mem_map_of_mem hp)
    · split at hp
      · rcases List.mem_cons.1 hp with rfl | hp
        · exact Or.inr (by simp)
        · exact Or.inr (List.mem_map_of_mem (List.mem_cons_of_mem _ hp))
      · rcases List.mem_cons.1 hp with rfl | hp
        · exact Or.inr (by simp)
        · rcases ih p hp with h | h
          · exact Or.inl h
          · exact Or.inr (by simp only [List.map_cons, List.mem_cons]; exact Or.inr h)

theorem add_valid (s : Nat) (c : Int) (hc : 0 < c) (l : List (Nat × Int)) (hv : Valid l) :
    Valid (mergeStats.add s c l) := by
  induction l with
  | nil =>
    rw [mergeStats_add_nil]
    exact ⟨List.pairwise_singleton _ _, by intro p hp; simp at hp; subst hp; exact hc⟩
  | cons q rest ih =>
    obtain ⟨t, d⟩ := q
    have hasc := hv.asc
    rw [List.pairwise_cons] at hasc
    have hrest : Valid rest := ⟨hasc.2, fun p hp => hv.pos p (List.mem_cons_of_mem _ hp)⟩
    have hd : 0 < d := hv.pos (t, d) (by simp)
    rw [mergeStats_add_cons]
    split
    · rename_i hlt
      refine ⟨?_, ?_⟩
      · rw [List.pairwise_cons]
        refine ⟨?_, hv.asc⟩
        intro p hp
        rcases List.mem_cons.1 hp with rfl | hp
        · exact hlt
        · exact Nat.lt_trans hlt (hasc.1 p hp)
      · intro p hp
        rcases List.mem_cons.1 hp with rfl | hp
        · exact hc
        · exact hv.pos p hp
    · split
      · refine ⟨?_, ?_⟩
        · rw [List.pairwise_cons]; exact ⟨hasc.1, hasc.2⟩
        · intro p hp
          rcases List.mem_cons.1 hp with rfl | hp
          · show 0 < d + c
            omega
          · exact hrest.pos p hp
      · rename_i h1 h2
        have ih' := ih hrest
        refine ⟨?_, ?_⟩
        · rw [List.pairwise_cons]
          refine ⟨?_, ih'.asc⟩
          intro p hp
          rcases add_keys s c rest p hp with h | h
          · show t < p.1
            omega
          · obtain ⟨q, hq, hqp⟩ := List.mem_map.1 h
            rw [← hqp]; exact hasc.1 q hq
        · intro p hp
          rcases List.mem_cons.1 hp with rfl | hp
          · exact hd
          · exact ih'.pos p hp

theorem valid_nil : Valid [] := ⟨List.Pairwise.nil, fun _ h => (by cases h)⟩

/-- one more occurrence of a symbol keeps the statistics valid -/
theorem bump_valid (stats : List (Nat × Int)) (s : Nat) (hv : Valid stats) : Valid (bump stats s) := by
  rw [bump_eq_add]; exact add_valid s 1 (by decide) stats hv

theorem foldl_bump_valid (item : List Nat) (stats : List (Nat × Int)) (hv : Valid stats) :
    Valid (item.foldl bump stats) := by
  induction item generalizing stats with
  | nil => exact hv
  | cons s rest ih => exact ih _ (bump_valid stats s hv)

/-- merging valid statistics into valid statistics (only positivity of the second is used) -/
theorem mergeStats_valid (a b : List (Nat × Int)) (ha : Valid a) (hb : ∀ p ∈ b, 0 < p.2) :
    Valid (mergeStats a b) := by
  unfold mergeStats
  induction b generalizing a with
  | nil => exact ha
  | cons p rest ih =>
    obtain ⟨s, c⟩ := p
    rw [List.foldl_cons]
    exact ih _ (add_valid s c (hb (s, c) (by simp)) a ha) (fun q hq => hb q (List.mem_cons_of_mem _ hq))

/-- the statistics `merge_regions` hands to `create_from` -/
theorem merged_stats_valid (srcs : List Container) (h : ∀ s ∈ srcs, Valid s.stats) :
    Valid (srcs.foldl (fun acc h => mergeStats acc h.stats) []) := by
  suffices H : ∀ (srcs : List Container) (acc : List (Nat × Int)), Valid acc → (∀ s ∈ srcs, Valid s.stats) →
      Valid (srcs.foldl (fun acc h => mergeStats acc h.stats) acc) from H srcs [] valid_nil h
  intro srcs
  induction srcs with
  | nil => intro acc ha _; exact ha
  | cons s rest ih =>
    intro acc ha hs
    rw [List.foldl_cons]
    exact ih _ (mergeStats_valid acc s.stats ha (hs s (by simp)).pos) (fun q hq => hs q (List.mem_cons_of_mem _ hq))

/-- the containers a program can build: from `default` by `push`, `clear`, `merge_regions` -/
inductive Built : Container → Prop
  | default : Built Container.default
  | push {h h' : Container} {item : List Nat} {i : Nat × Nat} :
      Built h → Container.push h item = some (h', i) → Built h'
  | clear {h : Container} : Built h → Built (Container.clear h)
  | merge {srcs : List Container} : (∀ s ∈ srcs, Built s) → Built (Container.merge srcs)

theorem push_stats (h h' : Container) (item : List Nat) (i : Nat × Nat)
    (hp : Container.push h item = some (h', i)) : h'.stats = item.foldl bump h.stats := by
  unfold Container.push at hp
  split at hp
  · simp only [Option.some.injEq, Prod.mk.injEq] at hp
    obtain ⟨rfl, -⟩ := hp; rfl
  · split at hp
    · cases hp
    · simp only [Option.some.injEq, Prod.mk.injEq] at hp
      obtain ⟨rfl, -⟩ := hp; rfl

/-- every reachable container carries valid statistics -/
theorem Built.stats_valid {h : Container} (hr : Built h) : Valid h.stats := by
  induction hr with
  | default => exact valid_nil
  | push _ hp ih => rw [push_stats _ _ _ _ hp]; exact foldl_bump_valid _ _ ih
  | clear _ _ => exact valid_nil
  | merge _ _ => exact valid_nil

end FC.Huff
