import FlatModel.Proofs.Region
/-! Laws of the fan-out regions: option, result, tuples, string wrapper. -/
namespace FC
open Region

section Option
variable {R V I : Type} [Region R V I] [LawfulRegion R]

instance : LawfulRegion (OptionRegion R) where
  inv_default := LawfulRegion.inv_default (R := R)
  push_ok r v hi ha := by
    cases v with
    | none => exact ⟨r, none, rfl, none, rfl, trivial⟩
    | some x =>
      obtain ⟨r', i, hp, v', hr, hs⟩ := LawfulRegion.push_ok r.inner x hi ha
      refine ⟨⟨r'⟩, some i, ?_, some v', ?_, hs⟩
      · simp [Region.push, hp]
      · simp [Region.index, hr]
  push_refuses r v hi hna := by
    cases v with
    | none => exact absurd trivial hna
    | some x => simp [Region.push, LawfulRegion.push_refuses r.inner x hi hna]
  push_inv r r' v i hi hp := by
    cases v with
    | none =>
      simp only [Region.push, Option.some.injEq, Prod.mk.injEq] at hp
      obtain ⟨rfl, rfl⟩ := hp
      exact ⟨hi, trivial⟩
    | some x =>
      simp only [Region.push, Option.map_eq_some_iff, Prod.mk.injEq] at hp
      obtain ⟨⟨r0, i0⟩, hp0, rfl, rfl⟩ := hp
      exact LawfulRegion.push_inv r.inner r0 x i0 hi hp0
  frame r r' v i j hi hv hp := by
    cases v with
    | none =>
      simp only [Region.push, Option.some.injEq, Prod.mk.injEq] at hp
      obtain ⟨rfl, rfl⟩ := hp
      exact ⟨hv, rfl⟩
    | some x =>
      simp only [Region.push, Option.map_eq_some_iff, Prod.mk.injEq] at hp
      obtain ⟨⟨r0, i0⟩, hp0, rfl, rfl⟩ := hp
      cases j with
      | none => exact ⟨trivial, rfl⟩
      | some j0 =>
        obtain ⟨h1, h2⟩ := LawfulRegion.frame r.inner r0 x i0 j0 hi hv hp0
        exact ⟨h1, by simp [Region.index, h2]⟩
  valid_reads r j hi hv := by
    cases j with
    | none => exact ⟨none, rfl⟩
    | some j0 =>
      obtain ⟨u, hu⟩ := LawfulRegion.valid_reads r.inner j0 hi hv
      exact ⟨some u, by simp [Region.index, hu]⟩
  clear_inv r hi := LawfulRegion.clear_inv r.inner hi
  clear_sim r hi := LawfulRegion.clear_sim r.inner hi
  sim_refl r hi := LawfulRegion.sim_refl r.inner hi
  sim_push a b v hs ha hb := by
    cases v with
    | none => exact Or.inr ⟨a, b, none, rfl, rfl, hs⟩
    | some x =>
      rcases LawfulRegion.sim_push a.inner b.inner x hs ha hb with ⟨h1, h2⟩ | ⟨a', b', i, h1, h2, h3⟩
      · exact Or.inl ⟨by simp [Region.push, h1], by simp [Region.push, h2]⟩
      · exact Or.inr ⟨⟨a'⟩, ⟨b'⟩, some i, by simp [Region.push, h1], by simp [Region.push, h2], h3⟩
  sim_index a b i hs ha hb := by
    cases i with
    | none => exact ⟨Iff.rfl, fun _ => rfl⟩
    | some j =>
      obtain ⟨h1, h2⟩ := LawfulRegion.sim_index a.inner b.inner j hs ha hb
      exact ⟨h1, fun hv => by simp [Region.index, h2 hv]⟩
end Option

section Result
variable {T VT IT E VE IE : Type} [Region T VT IT] [Region E VE IE] [LawfulRegion T] [LawfulRegion E]

instance : LawfulRegion (ResultRegion T E) where
  inv_default := ⟨LawfulRegion.inv_default (R := T), LawfulRegion.inv_default (R := E)⟩
  push_ok r v hi ha := by
    cases v with
    | ok x =>
      obtain ⟨r', i, hp, v', hr, hs⟩ := LawfulRegion.push_ok r.oks x hi.1 ha
      exact ⟨⟨r', r.errs⟩, .ok i, by simp [Region.push, hp], .ok v', by simp [Region.index, hr], hs⟩
    | error x =>
      obtain ⟨r', i, hp, v', hr, hs⟩ := LawfulRegion.push_ok r.errs x hi.2 ha
      exact ⟨⟨r.oks, r'⟩, .error i, by simp [Region.push, hp], .error v', by simp [Region.index, hr], hs⟩
  push_refuses r v hi hna := by
    cases v with
    | ok x => simp [Region.push, LawfulRegion.push_refuses r.oks x hi.1 hna]
    | error x => simp [Region.push, LawfulRegion.push_refuses r.errs x hi.2 hna]
  push_inv r r' v i hi hp := by
    cases v with
    | ok x =>
      simp only [Region.push, Option.map_eq_some_iff, Prod.mk.injEq] at hp
      obtain ⟨⟨r0, i0⟩, hp0, rfl, rfl⟩ := hp
      obtain ⟨h1, h2⟩ := LawfulRegion.push_inv r.oks r0 x i0 hi.1 hp0
      exact ⟨⟨h1, hi.2⟩, h2⟩
    | error x =>
      simp only [Region.push, Option.map_eq_some_iff, Prod.mk.injEq] at hp
      obtain ⟨⟨r0, i0⟩, hp0, rfl, rfl⟩ := hp
      obtain ⟨h1, h2⟩ := LawfulRegion.push_inv r.errs r0 x i0 hi.2 hp0
      exact ⟨⟨hi.1, h1⟩, h2⟩
  frame r r' v i j hi hv hp := by
    cases v with
    | ok x =>
      simp only [Region.push, Option.map_eq_some_iff, Prod.mk.injEq] at hp
      obtain ⟨⟨r0, i0⟩, hp0, rfl, rfl⟩ := hp
      cases j with
      | ok j0 =>
        obtain ⟨h1, h2⟩ := LawfulRegion.frame r.oks r0 x i0 j0 hi.1 hv hp0
        exact ⟨h1, by simp [Region.index, h2]⟩
      | error j0 => exact ⟨hv, rfl⟩
    | error x =>
      simp only [Region.push, Option.map_eq_some_iff, Prod.mk.injEq] at hp
      obtain ⟨⟨r0, i0⟩, hp0, rfl, rfl⟩ := hp
      cases j with
      | ok j0 => exact ⟨hv, rfl⟩
      | error j0 =>
        obtain ⟨h1, h2⟩ := LawfulRegion.frame r.errs r0 x i0 j0 hi.2 hv hp0
        exact ⟨h1, by simp [Region.index, h2]⟩
  valid_reads r j hi hv := by
    cases j with
    | ok j0 =>
      obtain ⟨u, hu⟩ := LawfulRegion.valid_reads r.oks j0 hi.1 hv
      exact ⟨.ok u, by simp [Region.index, hu]⟩
    | error j0 =>
      obtain ⟨u, hu⟩ := LawfulRegion.valid_reads r.errs j0 hi.2 hv
      exact ⟨.error u, by simp [Region.index, hu]⟩
  clear_inv r hi := ⟨LawfulRegion.clear_inv r.oks hi.1, LawfulRegion.clear_inv r.errs hi.2⟩
  clear_sim r hi := ⟨LawfulRegion.clear_sim r.oks hi.1, LawfulRegion.clear_sim r.errs hi.2⟩
  sim_refl r hi := ⟨LawfulRegion.sim_refl r.oks hi.1, LawfulRegion.sim_refl r.errs hi.2⟩
  sim_push a b v hs ha hb := by
    cases v with
    | ok x =>
      rcases LawfulRegion.sim_push a.oks b.oks x hs.1 ha.1 hb.1 with ⟨h1, h2⟩ | ⟨a', b', i, h1, h2, h3⟩
      · exact Or.inl ⟨by simp [Region.push, h1], by simp [Region.push, h2]⟩
      · exact Or.inr ⟨⟨a', a.errs⟩, ⟨b', b.errs⟩, .ok i, by simp [Region.push, h1], by simp [Region.push, h2], h3, hs.2⟩
    | error x =>
      rcases LawfulRegion.sim_push a.errs b.errs x hs.2 ha.2 hb.2 with ⟨h1, h2⟩ | ⟨a', b', i, h1, h2, h3⟩
      · exact Or.inl ⟨by simp [Region.push, h1], by simp [Region.push, h2]⟩
      · exact Or.inr ⟨⟨a.oks, a'⟩, ⟨b.oks, b'⟩, .error i, by simp [Region.push, h1], by simp [Region.push, h2], hs.1, h3⟩
  sim_index a b i hs ha hb := by
    cases i with
    | ok j =>
      obtain ⟨h1, h2⟩ := LawfulRegion.sim_index a.oks b.oks j hs.1 ha.1 hb.1
      exact ⟨h1, fun hv => by simp [Region.index, h2 hv]⟩
    | error j =>
      obtain ⟨h1, h2⟩ := LawfulRegion.sim_index a.errs b.errs j hs.2 ha.2 hb.2
      exact ⟨h1, fun hv => by simp [Region.index, h2 hv]⟩
end Result

instance : LawfulRegion TupleNil where
  inv_default := trivial
  push_ok r _ _ _ := ⟨r, (), rfl, (), rfl, trivial⟩
  push_refuses _ _ _ h := absurd trivial h
  push_inv _ _ _ _ _ _ := ⟨trivial, trivial⟩
  frame _ _ _ _ _ _ _ _ := ⟨trivial, rfl⟩
  valid_reads _ _ _ _ := ⟨(), rfl⟩
  clear_inv _ _ := trivial
  clear_sim _ _ := trivial
  sim_refl _ _ := trivial
  sim_push a b _ _ _ _ := Or.inr ⟨a, b, (), rfl, rfl, trivial⟩
  sim_index _ _ _ _ _ _ := ⟨Iff.rfl, fun _ => rfl⟩

section Tuple
variable {A VA IA B VB IB : Type} [Region A VA IA] [Region B VB IB] [LawfulRegion A] [LawfulRegion B]

omit [LawfulRegion A] [LawfulRegion B] in
theorem tuple_push_some (r r' : TupleCons A B) (v : VA × VB) (i : IA × IB) (hp : push r v = some (r', i)) :
    push r.head v.1 = some (r'.head, i.1) ∧ push r.tail v.2 = some (r'.tail, i.2) := by
  simp only [Region.push] at hp
  cases h1 : push r.head v.1 with
  | none => simp [h1] at hp
  | some p1 =>
    obtain ⟨a', i1⟩ := p1
    cases h2 : push r.tail v.2 with
    | none => simp [h1, h2] at hp
    | some p2 =>
      obtain ⟨b', i2⟩ := p2
      simp only [h1, h2, Option.some.injEq, Prod.mk.injEq] at hp
      obtain ⟨rfl, rfl⟩ := hp
      exact ⟨rfl, rfl⟩

instance : LawfulRegion (TupleCons A B) where
  inv_default := ⟨LawfulRegion.inv_default (R := A), LawfulRegion.inv_default (R := B)⟩
  push_ok r v hi ha := by
    obtain ⟨a', i, hp1, v1, hr1, hs1⟩ := LawfulRegion.push_ok r.head v.1 hi.1 ha.1
    obtain ⟨b', j, hp2, v2, hr2, hs2⟩ := LawfulRegion.push_ok r.tail v.2 hi.2 ha.2
    refine ⟨⟨a', b'⟩, (i, j), by simp [Region.push, hp1, hp2], (v1, v2), by simp [Region.index, hr1, hr2], hs1, hs2⟩
  push_refuses r v hi hna := by
    by_cases h : Accepts r.head v.1
    · have h2 : ¬ Accepts r.tail v.2 := fun h2 => hna ⟨h, h2⟩
      simp only [Region.push, LawfulRegion.push_refuses r.tail v.2 hi.2 h2]
      cases push r.head v.1 <;> rfl
    · simp [Region.push, LawfulRegion.push_refuses r.head v.1 hi.1 h]
  push_inv r r' v i hi hp := by
    obtain ⟨h1, h2⟩ := tuple_push_some r r' v i hp
    obtain ⟨a1, a2⟩ := LawfulRegion.push_inv r.head r'.head v.1 i.1 hi.1 h1
    obtain ⟨b1, b2⟩ := LawfulRegion.push_inv r.tail r'.tail v.2 i.2 hi.2 h2
    exact ⟨⟨a1, b1⟩, a2, b2⟩
  frame r r' v i j hi hv hp := by
    obtain ⟨h1, h2⟩ := tuple_push_some r r' v i hp
    obtain ⟨a1, a2⟩ := LawfulRegion.frame r.head r'.head v.1 i.1 j.1 hi.1 hv.1 h1
    obtain ⟨b1, b2⟩ := LawfulRegion.frame r.tail r'.tail v.2 i.2 j.2 hi.2 hv.2 h2
    exact ⟨⟨a1, b1⟩, by simp only [Region.index, a2, b2]⟩
  valid_reads r j hi hv := by
    obtain ⟨u1, h1⟩ := LawfulRegion.valid_reads r.head j.1 hi.1 hv.1
    obtain ⟨u2, h2⟩ := LawfulRegion.valid_reads r.tail j.2 hi.2 hv.2
    exact ⟨(u1, u2), by simp [Region.index, h1, h2]⟩
  clear_inv r hi := ⟨LawfulRegion.clear_inv r.head hi.1, LawfulRegion.clear_inv r.tail hi.2⟩
  clear_sim r hi := ⟨LawfulRegion.clear_sim r.head hi.1, LawfulRegion.clear_sim r.tail hi.2⟩
  sim_refl r hi := ⟨LawfulRegion.sim_refl r.head hi.1, LawfulRegion.sim_refl r.tail hi.2⟩
  sim_push a b v hs ha hb := by
    rcases LawfulRegion.sim_push a.head b.head v.1 hs.1 ha.1 hb.1 with ⟨h1, h2⟩ | ⟨a', b', i, h1, h2, h3⟩
    · exact Or.inl ⟨by simp [Region.push, h1], by simp [Region.push, h2]⟩
    · rcases LawfulRegion.sim_push a.tail b.tail v.2 hs.2 ha.2 hb.2 with ⟨g1, g2⟩ | ⟨a'', b'', j, g1, g2, g3⟩
      · exact Or.inl ⟨by simp [Region.push, h1, g1], by simp [Region.push, h2, g2]⟩
      · exact Or.inr ⟨⟨a', a''⟩, ⟨b', b''⟩, (i, j), by simp [Region.push, h1, g1], by simp [Region.push, h2, g2], h3, g3⟩
  sim_index a b i hs ha hb := by
    obtain ⟨h1, h2⟩ := LawfulRegion.sim_index a.head b.head i.1 hs.1 ha.1 hb.1
    obtain ⟨g1, g2⟩ := LawfulRegion.sim_index a.tail b.tail i.2 hs.2 ha.2 hb.2
    refine ⟨and_congr h1 g1, fun hv => ?_⟩
    simp only [Region.index, h2 hv.1, g2 hv.2]
end Tuple

section String
variable {R I : Type} [Region R (List UInt8) I] [LawfulRegion R]

instance : LawfulRegion (StringRegion R) where
  inv_default := LawfulRegion.inv_default (R := R)
  push_ok r v hi ha := by
    obtain ⟨r', i, hp, v', hr, hs⟩ := LawfulRegion.push_ok r.inner v hi ha
    exact ⟨⟨r'⟩, i, by simp [Region.push, hp], v', hr, hs⟩
  push_refuses r v hi hna := by simp [Region.push, LawfulRegion.push_refuses r.inner v hi hna]
  push_inv r r' v i hi hp := by
    simp only [Region.push, Option.map_eq_some_iff, Prod.mk.injEq] at hp
    obtain ⟨⟨r0, i0⟩, hp0, rfl, rfl⟩ := hp
    exact LawfulRegion.push_inv r.inner r0 v i0 hi hp0
  frame r r' v i j hi hv hp := by
    simp only [Region.push, Option.map_eq_some_iff, Prod.mk.injEq] at hp
    obtain ⟨⟨r0, i0⟩, hp0, rfl, rfl⟩ := hp
    exact LawfulRegion.frame r.inner r0 v i0 j hi hv hp0
  valid_reads r j hi hv := LawfulRegion.valid_reads r.inner j hi hv
  clear_inv r hi := LawfulRegion.clear_inv r.inner hi
  clear_sim r hi := LawfulRegion.clear_sim r.inner hi
  sim_refl r hi := LawfulRegion.sim_refl r.inner hi
  sim_push a b v hs ha hb := by
    rcases LawfulRegion.sim_push a.inner b.inner v hs ha hb with ⟨h1, h2⟩ | ⟨a', b', i, h1, h2, h3⟩
    · exact Or.inl ⟨by simp [Region.push, h1], by simp [Region.push, h2]⟩
    · exact Or.inr ⟨⟨a'⟩, ⟨b'⟩, i, by simp [Region.push, h1], by simp [Region.push, h2], h3⟩
  sim_index a b i hs ha hb := LawfulRegion.sim_index a.inner b.inner i hs ha hb
end String

end FC
