import FlatModel.Model.Huffman
import FlatModel.Proofs.HuffOpt
import FlatModel.Proofs.HuffCanon
import Mathlib.Data.List.Forall2
/-! The modelled tree builder (`popMax`, `buildTree`, `levelsOf`) performs a greedy Huffman run. -/
namespace FC.Huff
open Opt (HuffRel)

/-! ### abstract binary trees -/

inductive T where
  | leaf (s : Nat)
  | node (l r : T)
deriving Repr, DecidableEq

namespace T

/-- total weight under a weight function on symbols -/
def weight (w : Nat → Nat) : T → Nat
  | leaf s => w s
  | node l r => weight w l + weight w r

/-- `(depth, symbol)` of every leaf, the root being at depth `d`, in the order in which `levelsOf` reports them
(right subtree first) -/
def depths : T → Nat → List (Nat × Nat)
  | leaf s, d => [(d, s)]
  | node l r, d => depths r (d + 1) ++ depths l (d + 1)

/-- leaf symbols, same order as `depths` -/
def syms : T → List Nat
  | leaf s => [s]
  | node l r => syms r ++ syms l

/-- number of nodes -/
def size : T → Nat
  | leaf _ => 1
  | node l r => size l + size r + 1

/-- weighted path length, root at depth `d` -/
def costAt (w : Nat → Nat) : T → Nat → Nat
  | leaf s, d => w s * d
  | node l r, d => costAt w l (d + 1) + costAt w r (d + 1)

def cost (w : Nat → Nat) (t : T) : Nat := costAt w t 0

theorem depths_map_snd (t : T) : ∀ d, (t.depths d).map Prod.snd = t.syms := by
  induction t with
  | leaf s => intro d; rfl
  | node l r ihl ihr => intro d; simp [depths, syms, ihl, ihr]

theorem syms_length_pos (t : T) : 0 < t.syms.length := by
  cases t <;> simp [syms]
  rename_i l r
  have := syms_length_pos r; omega

theorem size_eq (t : T) : t.size + 1 = 2 * t.syms.length := by
  induction t with
  | leaf s => rfl
  | node l r ihl ihr => simp [size, syms]; omega

theorem depths_ge (t : T) : ∀ d, ∀ p ∈ t.depths d, d ≤ p.1 := by
  induction t with
  | leaf s => intro d p hp; simp [depths] at hp; subst hp; exact le_refl _
  | node l r ihl ihr =>
    intro d p hp
    simp only [depths, List.mem_append] at hp
    rcases hp with hp | hp
    · have := ihr _ p hp; omega
    · have := ihl _ p hp; omega

theorem depths_ne_nil (t : T) (d : Nat) : t.depths d ≠ [] := by
  intro h
  have := congrArg List.length (depths_map_snd t d)
  rw [h] at this
  have := syms_length_pos t
  simp_all

theorem costAt_eq_sum (w : Nat → Nat) (t : T) : ∀ d, t.costAt w d = ((t.depths d).map fun p => w p.2 * p.1).sum := by
  induction t with
  | leaf s => intro d; simp [costAt, depths]
  | node l r ihl ihr => intro d; simp [costAt, depths, ihl, ihr]; omega

theorem costAt_succ (w : Nat → Nat) (t : T) : ∀ d, t.costAt w (d + 1) = t.costAt w d + t.weight w := by
  induction t with
  | leaf s => intro d; simp [costAt, weight]; ring
  | node l r ihl ihr => intro d; simp only [costAt, weight, ihl (d + 1), ihr (d + 1)]; omega

/-- `cost (node l r) = cost l + cost r + weight l + weight r` -/
theorem cost_node (w : Nat → Nat) (l r : T) :
    (node l r).cost w = l.cost w + r.cost w + l.weight w + r.weight w := by
  simp only [cost, costAt, costAt_succ]; omega

@[simp] theorem cost_leaf (w : Nat → Nat) (s : Nat) : (leaf s).cost w = 0 := by simp [cost, costAt]

/-- (3) **the depths of a full binary tree have Kraft sum exactly one**: scaled by `2^M`, for the root at depth `d` -/
theorem tree_kraft_eq (M : Nat) (t : T) : ∀ d, (∀ p ∈ t.depths d, p.1 ≤ M) → lsum M (t.depths d) = 2 ^ (M - d) := by
  induction t with
  | leaf s => intro d _; simp [depths]
  | node l r ihl ihr =>
    intro d h
    simp only [depths, List.mem_append] at h
    have hr := ihr (d + 1) (fun p hp => h p (Or.inl hp))
    have hl := ihl (d + 1) (fun p hp => h p (Or.inr hp))
    have hd : d + 1 ≤ M := by
      obtain ⟨p, hp⟩ := List.exists_mem_of_ne_nil _ (depths_ne_nil l (d + 1))
      have := depths_ge l _ p hp
      have := h p (Or.inr hp)
      omega
    simp only [depths, lsum, List.map_append, List.sum_append] at hr hl ⊢
    rw [hr, hl]
    have : M - d = (M - (d + 1)) + 1 := by omega
    rw [this, pow_succ]; ring

end T

/-! ### `popMax` -/

theorem popMax_eq_none {h : List (Int × Node)} : popMax h = none ↔ h = [] := by
  cases h with
  | nil => simp [popMax]
  | cons x xs =>
    simp only [popMax, reduceCtorEq, iff_false]
    split
    · simp
    · split <;> simp

theorem popMax_perm : ∀ {h : List (Int × Node)} {m rest}, popMax h = some (m, rest) → h.Perm (m :: rest) := by
  intro h
  induction h with
  | nil => intro m rest hp; simp [popMax] at hp
  | cons x xs ih =>
    intro m rest hp
    simp only [popMax] at hp
    split at hp
    · rename_i hn
      rw [popMax_eq_none] at hn
      simp only [Option.some.injEq, Prod.mk.injEq] at hp
      obtain ⟨rfl, rfl⟩ := hp; subst hn; exact List.Perm.refl _
    · rename_i m' rest' hs
      have := ih hs
      split at hp
      · simp only [Option.some.injEq, Prod.mk.injEq] at hp
        obtain ⟨rfl, rfl⟩ := hp
        exact List.Perm.cons _ this
      · simp only [Option.some.injEq, Prod.mk.injEq] at hp
        obtain ⟨rfl, rfl⟩ := hp
        exact (List.Perm.cons x this).trans (List.Perm.swap _ _ _)

theorem popMax_length {h : List (Int × Node)} {m rest} (hp : popMax h = some (m, rest)) : h.length = rest.length + 1 := by
  simpa using (popMax_perm hp).length_eq

theorem Node.lt_trans {a b c : Node} (h1 : a.lt b = true) (h2 : b.lt c = true) : a.lt c = true := by
  cases a <;> cases b <;> cases c <;> simp [Node.lt] at h1 h2 ⊢ <;> omega

theorem Node.lt_irrefl (a : Node) : a.lt a = false := by
  cases a <;> simp [Node.lt]

theorem entryLt_trans {x y z : Int × Node} (h1 : entryLt x y = true) (h2 : entryLt y z = true) : entryLt x z = true := by
  simp only [entryLt, Bool.or_eq_true, decide_eq_true_eq, Bool.and_eq_true, beq_iff_eq] at h1 h2 ⊢
  rcases h1 with h1 | ⟨h1, h1'⟩ <;> rcases h2 with h2 | ⟨h2, h2'⟩
  · left; omega
  · left; omega
  · left; omega
  · right; exact ⟨by omega, Node.lt_trans h1' h2'⟩

/-- (1) the popped entry is maximal w.r.t. `entryLt` -/
theorem popMax_max : ∀ {h : List (Int × Node)} {m rest}, popMax h = some (m, rest) → ∀ x ∈ rest, entryLt m x = false := by
  intro h
  induction h with
  | nil => intro m rest hp; simp [popMax] at hp
  | cons x xs ih =>
    intro m rest hp
    simp only [popMax] at hp
    split at hp
    · simp only [Option.some.injEq, Prod.mk.injEq] at hp
      obtain ⟨rfl, rfl⟩ := hp; simp
    · rename_i m' rest' hs
      have := ih hs
      split at hp
      · rename_i hlt
        simp only [Option.some.injEq, Prod.mk.injEq] at hp
        obtain ⟨rfl, rfl⟩ := hp
        intro y hy
        rcases List.mem_cons.mp hy with rfl | hy
        · -- antisymmetry: m' < x and x < m' would give m' < m'
          cases hxy : entryLt x y with
          | false => rfl
          | true =>
            have := entryLt_trans hlt hxy
            simp [entryLt, Node.lt_irrefl] at this
        · cases hxy : entryLt x y with
          | false => rfl
          | true =>
            have h3 := entryLt_trans hlt hxy
            rw [this y hy] at h3; exact absurd h3 (by simp)
      · rename_i hlt
        simp only [Option.some.injEq, Prod.mk.injEq] at hp
        obtain ⟨rfl, rfl⟩ := hp
        intro y hy
        rcases List.mem_cons.mp hy with rfl | hy
        · simpa using hlt
        · exact this y hy

/-- in particular its key `-count` is maximal, i.e. its count is minimal -/
theorem popMax_max_fst {h : List (Int × Node)} {m rest} (hp : popMax h = some (m, rest)) : ∀ x ∈ rest, x.1 ≤ m.1 := by
  intro x hx
  have := popMax_max hp x hx
  simp only [entryLt, Bool.or_eq_false_iff, decide_eq_false_iff_not] at this
  omega

/-! ### the array representation of trees -/

/-- node `n` of the array `tree` represents the abstract tree `t` -/
inductive RepN (tree : Array Node) : Node → T → Prop
  | leaf (s : Nat) : RepN tree (.leaf s) (.leaf s)
  | fork {l r : Nat} {nl nr : Node} {tl tr : T} : tree[l]? = some nl → tree[r]? = some nr →
      RepN tree nl tl → RepN tree nr tr → RepN tree (.fork l r) (.node tl tr)

theorem getElem?_push_of_some {tree : Array Node} {i : Nat} {n : Node} (x : Node) (h : tree[i]? = some n) :
    (tree.push x)[i]? = some n := by
  obtain ⟨hi, h'⟩ := Array.getElem?_eq_some_iff.mp h
  rw [Array.getElem?_push_lt hi, h']

theorem RepN.push {tree : Array Node} {n : Node} {t : T} (x : Node) (h : RepN tree n t) : RepN (tree.push x) n t := by
  induction h with
  | leaf s => exact .leaf s
  | fork hl hr _ _ ihl ihr => exact .fork (getElem?_push_of_some x hl) (getElem?_push_of_some x hr) ihl ihr

theorem getElem!_of_some {tree : Array Node} {i : Nat} {n : Node} (h : tree[i]? = some n) : tree[i]! = n := by
  obtain ⟨hi, rfl⟩ := Array.getElem?_eq_some_iff.mp h
  exact getElem!_pos tree i hi

/-- the DFS of `levelsOf` over a represented subtree appends exactly its `depths`, using `size` units of fuel -/
theorem levelsOf_rep (tree : Array Node) : ∀ (t : T) (n : Node) (i lvl fuel : Nat) (rest acc : List (Nat × Nat)),
    tree[i]? = some n → RepN tree n t →
    levelsOf tree (fuel + t.size) ((i, lvl) :: rest) acc = levelsOf tree fuel rest (acc ++ t.depths lvl) := by
  intro t
  induction t with
  | leaf s =>
    intro n i lvl fuel rest acc hi hr
    cases hr
    simp only [T.size, T.depths]
    rw [levelsOf]
    simp only [getElem!_of_some hi]
  | node l r ihl ihr =>
    intro n i lvl fuel rest acc hi hr
    cases hr with
    | fork hl hr' rl rr =>
      have : fuel + (T.node l r).size = (fuel + l.size + r.size) + 1 := by simp [T.size]; omega
      rw [this, levelsOf]
      simp only [getElem!_of_some hi]
      rw [ihr _ _ _ _ _ _ hr' rr, ihl _ _ _ _ _ _ hl rl]
      simp [T.depths]

theorem levelsOf_nil (tree : Array Node) (fuel : Nat) (acc : List (Nat × Nat)) : levelsOf tree fuel [] acc = acc := by
  cases fuel <;> simp [levelsOf]

/-- whole-tree version: any fuel ≥ the number of nodes suffices -/
theorem levelsOf_root (tree : Array Node) (t : T) (n : Node) (i fuel : Nat) (hi : tree[i]? = some n) (hr : RepN tree n t)
    (hf : t.size ≤ fuel) : levelsOf tree fuel [(i, 0)] [] = t.depths 0 := by
  obtain ⟨k, rfl⟩ : ∃ k, fuel = k + t.size := ⟨fuel - t.size, by omega⟩
  rw [levelsOf_rep tree t n i 0 k [] [] hi hr, levelsOf_nil]; simp


/-! ### greedy runs on forests -/

/-- greedy Huffman runs on forests of trees: repeatedly join two trees of least weight (any tie-break);
`HuffT w ts t` says the run started from forest `ts` ends with the single tree `t` -/
inductive HuffT (w : Nat → Nat) : List T → T → Prop
  | single (t : T) : HuffT w [t] t
  | step {ts rest : List T} {a b t : T} : ts.Perm (a :: b :: rest) →
      (∀ x ∈ rest, a.weight w ≤ x.weight w ∧ b.weight w ≤ x.weight w) → a.weight w ≤ b.weight w →
      HuffT w (T.node a b :: rest) t → HuffT w ts t

/-- (2) a forest run is a `HuffRel` run on the weights, and its accumulated cost is the cost of the final tree
minus the costs already inside the starting trees -/
theorem HuffT.huffRel {w : Nat → Nat} {ts : List T} {t : T} (h : HuffT w ts t) :
    ∃ c, HuffRel (ts.map (T.weight w)) c ∧ t.cost w = c + (ts.map (T.cost w)).sum := by
  induction h with
  | single t => exact ⟨0, HuffRel.single _, by simp⟩
  | @step ts rest a b t hperm hmin hab _ ih =>
    obtain ⟨c, hrel, hcost⟩ := ih
    refine ⟨c + a.weight w + b.weight w, ?_, ?_⟩
    · refine HuffRel.step (rest := rest.map (T.weight w)) (hperm.map _) ?_ hab ?_
      · intro x hx
        obtain ⟨y, hy, rfl⟩ := List.mem_map.mp hx
        exact hmin y hy
      · simpa [T.weight] using hrel
    · have := (hperm.map (T.cost w)).sum_nat
      rw [hcost, this]
      simp only [List.map_cons, List.sum_cons, T.cost_node]
      omega

theorem HuffT.syms_perm {w : Nat → Nat} {ts : List T} {t : T} (h : HuffT w ts t) :
    t.syms.Perm (ts.flatMap T.syms) := by
  induction h with
  | single t => simp
  | @step ts rest a b t hperm _ _ _ ih =>
    refine ih.trans ?_
    refine List.Perm.trans ?_ (hperm.flatMap_right T.syms).symm
    simp only [List.flatMap_cons, T.syms, List.append_assoc]
    rw [← List.append_assoc, ← List.append_assoc]
    exact List.Perm.append_right _ List.perm_append_comm

/-! ### `buildTree` -/

/-- the heap holds `(-weight, node)` for a forest of represented trees -/
def HeapRep (w : Nat → Nat) (tree : Array Node) (heap : List (Int × Node)) (ts : List T) : Prop :=
  List.Forall₂ (fun e t => e.1 = -((T.weight w t : Nat) : Int) ∧ RepN tree e.2 t) heap ts

theorem forall₂_mem_right {α β} {R : α → β → Prop} {l₁ : List α} {l₂ : List β} (h : List.Forall₂ R l₁ l₂) :
    ∀ y ∈ l₂, ∃ x ∈ l₁, R x y := by
  induction h with
  | nil => intro y hy; simp at hy
  | cons hab _ ih =>
    intro y hy
    rcases List.mem_cons.mp hy with rfl | hy
    · exact ⟨_, by simp, hab⟩
    · obtain ⟨x, hx, hr⟩ := ih y hy
      exact ⟨x, by simp [hx], hr⟩

theorem HeapRep.push {w tree heap ts} (x : Node) (h : HeapRep w tree heap ts) : HeapRep w (tree.push x) heap ts :=
  List.Forall₂.imp (fun _ _ hab => ⟨hab.1, hab.2.push x⟩) h

theorem buildTree_last {fuel heap tree c1 n1 h1} (hp : popMax heap = some ((c1, n1), h1)) (hp2 : popMax h1 = none) :
    buildTree (fuel + 1) heap tree = tree.push n1 := by
  rw [buildTree, hp]; simp only [hp2]

theorem buildTree_step {fuel heap tree c1 n1 h1 c2 n2 h2} (hp : popMax heap = some ((c1, n1), h1))
    (hp2 : popMax h1 = some ((c2, n2), h2)) :
    buildTree (fuel + 1) heap tree
      = buildTree fuel ((c1 + c2, Node.fork tree.size (tree.size + 1)) :: h2) ((tree.push n1).push n2) := by
  rw [buildTree, hp]; simp only [hp2]

theorem buildTree_nil (fuel : Nat) (tree : Array Node) : buildTree fuel [] tree = tree := by
  cases fuel <;> simp [buildTree, popMax]

/-- the fuel of `buildTree` is immaterial once it covers the heap: the loop stops by itself -/
theorem buildTree_fuel : ∀ (f1 f2 : Nat) (heap : List (Int × Node)) (tree : Array Node),
    heap.length ≤ f1 → heap.length ≤ f2 → buildTree f1 heap tree = buildTree f2 heap tree := by
  intro f1
  induction f1 with
  | zero =>
    intro f2 heap tree h1 _
    have : heap = [] := List.eq_nil_of_length_eq_zero (by omega)
    subst this; rw [buildTree_nil, buildTree_nil]
  | succ f1 ih =>
    intro f2 heap tree h1 h2
    cases f2 with
    | zero =>
      have : heap = [] := List.eq_nil_of_length_eq_zero (by omega)
      subst this; rw [buildTree_nil, buildTree_nil]
    | succ f2 =>
      cases hp : popMax heap with
      | none => rw [popMax_eq_none.mp hp, buildTree_nil, buildTree_nil]
      | some p1 =>
        obtain ⟨⟨c1, n1⟩, heap1⟩ := p1
        cases hp2 : popMax heap1 with
        | none => rw [buildTree_last hp hp2, buildTree_last hp hp2]
        | some p2 =>
          obtain ⟨⟨c2, n2⟩, heap2⟩ := p2
          rw [buildTree_step hp hp2, buildTree_step hp hp2]
          have := popMax_length hp; have := popMax_length hp2
          exact ih f2 _ _ (by simp only [List.length_cons]; omega) (by simp only [List.length_cons]; omega)

/-- (2) `buildTree` terminates within `heap.length` rounds, leaves the root in the last slot of the array, and the
tree it builds is the result of a greedy run on the forest in the heap -/
theorem buildTree_spec (w : Nat → Nat) : ∀ (fuel : Nat) (heap : List (Int × Node)) (tree : Array Node) (ts : List T),
    heap.length ≤ fuel → heap ≠ [] → HeapRep w tree heap ts →
    ∃ t n, (buildTree fuel heap tree)[(buildTree fuel heap tree).size - 1]? = some n ∧
      RepN (buildTree fuel heap tree) n t ∧ HuffT w ts t := by
  intro fuel
  induction fuel with
  | zero =>
    intro heap tree ts hlen hne _
    cases heap with
    | nil => exact absurd rfl hne
    | cons _ _ => simp at hlen
  | succ fuel ih =>
    intro heap tree ts hlen hne hrep
    cases h1 : popMax heap with
    | none => exact absurd (popMax_eq_none.mp h1) hne
    | some p1 =>
      obtain ⟨⟨c1, n1⟩, heap1⟩ := p1
      have hp1 := popMax_perm h1
      cases h2 : popMax heap1 with
      | none =>
        rw [buildTree_last h1 h2]
        have : heap1 = [] := popMax_eq_none.mp h2
        subst this
        have hheap : heap = [(c1, n1)] := List.perm_singleton.mp hp1
        subst hheap
        unfold HeapRep at hrep
        rw [List.forall₂_cons_left_iff] at hrep
        obtain ⟨t, ts', ⟨_, hr⟩, hnil, rfl⟩ := hrep
        rw [List.forall₂_nil_left_iff] at hnil
        subst hnil
        refine ⟨t, n1, ?_, hr.push n1, HuffT.single t⟩
        simp
      | some p2 =>
        obtain ⟨⟨c2, n2⟩, heap2⟩ := p2
        rw [buildTree_step h1 h2]
        have hp2 := popMax_perm h2
        have hperm : ((c1, n1) :: (c2, n2) :: heap2).Perm heap := ((List.Perm.cons _ hp2).symm).trans hp1.symm
        obtain ⟨ts', hrep', htsperm⟩ := List.perm_comp_forall₂ hperm hrep
        rw [List.forall₂_cons_left_iff] at hrep'
        obtain ⟨a, ts1, ⟨hca, hra⟩, hrep1, rfl⟩ := hrep'
        rw [List.forall₂_cons_left_iff] at hrep1
        obtain ⟨b, ts2, ⟨hcb, hrb⟩, hrep2, rfl⟩ := hrep1
        simp only at hca hcb hra hrb
        -- minimality of the two popped weights
        have hmax1 := popMax_max_fst h1
        have hmax2 := popMax_max_fst h2
        have hab : a.weight w ≤ b.weight w := by
          have := hmax1 (c2, n2) (hp2.mem_iff.mpr (by simp))
          simp only at this; omega
        have hmin : ∀ x ∈ ts2, a.weight w ≤ x.weight w ∧ b.weight w ≤ x.weight w := by
          intro x hx
          obtain ⟨e, he, hex, _⟩ := forall₂_mem_right hrep2 x hx
          have h2' := hmax2 e he
          have h1' := hmax1 e (hp2.mem_iff.mpr (by simp [he]))
          simp only at h1' h2'; omega
        -- the new heap represents the new forest
        have hrepNew : HeapRep w ((tree.push n1).push n2)
            ((c1 + c2, Node.fork tree.size (tree.size + 1)) :: heap2) (T.node a b :: ts2) := by
          refine List.Forall₂.cons ⟨?_, ?_⟩ ((HeapRep.push n1 hrep2).push n2)
          · simp only [T.weight]; omega
          · refine RepN.fork (nl := n1) (nr := n2) ?_ ?_ ((hra.push n1).push n2) ((hrb.push n1).push n2)
            · exact getElem?_push_of_some n2 Array.getElem?_push_size
            · have : tree.size + 1 = (tree.push n1).size := by simp
              rw [this]; exact Array.getElem?_push_size
        have hlen' : ((c1 + c2, Node.fork tree.size (tree.size + 1)) :: heap2).length ≤ fuel := by
          have := popMax_length h1; have := popMax_length h2
          simp only [List.length_cons]; omega
        obtain ⟨t, n, hlast, hr, hT⟩ := ih _ _ _ hlen' (by simp) hrepNew
        exact ⟨t, n, hlast, hr, HuffT.step htsperm.symm hmin hab hT⟩

end FC.Huff
