import FlatModel.Proofs.HuffTree
/-! `createFrom`: what it returns, in terms of the abstract tree built by the greedy run. -/
namespace FC.Huff
open Opt (HuffRel PrefixFree)

/-- `counts` as `create_from` receives it from a `BTreeMap` whose counts are positive -/
structure Valid (counts : List (Nat × Int)) : Prop where
  asc : counts.Pairwise fun a b => a.1 < b.1
  pos : ∀ p ∈ counts, 0 < p.2

/-- the count of a symbol (0 if absent), as a natural number -/
def wOf (counts : List (Nat × Int)) (s : Nat) : Nat :=
  match counts.find? (fun p => p.1 == s) with
  | some p => p.2.toNat
  | none => 0

/-- repair D4 on the level list -/
def repairD4 (levels : List (Nat × Nat)) : List (Nat × Nat) :=
  match levels with | [(_, s)] => [(1, s)] | l => l

/-- the code length `create_from` gives to `s` (0 if `s` has no code) -/
def lenH (counts : List (Nat × Int)) (s : Nat) : Nat :=
  match (createFrom counts).lookup s with
  | some (bits, _) => bits
  | none => 0

theorem find?_key {α} (key : α → Nat) : ∀ (L : List α), L.Pairwise (fun a b => key a ≠ key b) →
    ∀ x ∈ L, L.find? (fun y => key y == key x) = some x := by
  intro L
  induction L with
  | nil => intro _ x hx; simp at hx
  | cons y L ih =>
    intro hp x hx
    rw [List.pairwise_cons] at hp
    rcases List.mem_cons.mp hx with rfl | hx
    · simp
    · have : key y ≠ key x := hp.1 x hx
      rw [List.find?_cons_of_neg (by simpa using this)]
      exact ih hp.2 x hx

theorem Valid.keys_ne {counts} (hv : Valid counts) : counts.Pairwise fun a b => a.1 ≠ b.1 :=
  hv.asc.imp (fun h => Nat.ne_of_lt h)

theorem Valid.nodup {counts} (hv : Valid counts) : (counts.map Prod.fst).Nodup := by
  unfold List.Nodup; rw [List.pairwise_map]; exact hv.keys_ne

theorem wOf_mem {counts} (hv : Valid counts) {p : Nat × Int} (hp : p ∈ counts) : wOf counts p.1 = p.2.toNat := by
  unfold wOf
  rw [find?_key Prod.fst counts hv.keys_ne p hp]

theorem le_sum_of_mem {α} (f : α → Nat) : ∀ (L : List α), ∀ x ∈ L, f x ≤ (L.map f).sum := by
  intro L
  induction L with
  | nil => intro x hx; simp at hx
  | cons y L ih =>
    intro x hx
    rcases List.mem_cons.mp hx with rfl | hx
    · simp
    · have := ih x hx; simp; omega

/-! ### trees with one / several leaves -/

theorem T.eq_leaf_of_syms_length {t : T} (h : t.syms.length = 1) : ∃ s, t = T.leaf s := by
  cases t with
  | leaf s => exact ⟨s, rfl⟩
  | node l r =>
    have := T.syms_length_pos l; have := T.syms_length_pos r
    simp [T.syms] at h; omega

theorem T.eq_node_of_syms_length {t : T} (h : 2 ≤ t.syms.length) : ∃ l r, t = T.node l r := by
  cases t with
  | leaf s => simp [T.syms] at h
  | node l r => exact ⟨l, r, rfl⟩

theorem repairD4_of_length {L : List (Nat × Nat)} (h : L.length ≠ 1) : repairD4 L = L := by
  unfold repairD4
  split
  · simp at h
  · rfl

/-! ### unfolding `createFrom` -/

theorem createFrom_encode {counts : List (Nat × Int)} (hne : counts ≠ []) :
    (createFrom counts).encode =
      assign (repairD4 (sortByLevel
        (levelsOf (buildTree counts.length (counts.map fun (s, c) => (-c, Node.leaf s)) #[])
          (2 * counts.length + 2)
          [((buildTree counts.length (counts.map fun (s, c) => (-c, Node.leaf s)) #[]).size - 1, 0)] []))) 0 0 := by
  unfold createFrom
  have : counts.isEmpty = false := by cases counts <;> simp_all
  rw [this]
  rfl

/-- (2)+(4) on valid non-empty input `buildTree` and `levelsOf` finish within their fuel: there is a tree `t`, the
result of a greedy run on the leaves, whose root sits in the last slot of the array, and `levelsOf` reports exactly
the leaf depths of `t` -/
theorem buildTree_levels {counts : List (Nat × Int)} (hv : Valid counts) (hne : counts ≠ []) :
    ∃ t : T, HuffT (wOf counts) (counts.map fun p => T.leaf p.1) t ∧
      levelsOf (buildTree counts.length (counts.map fun (s, c) => (-c, Node.leaf s)) #[])
          (2 * counts.length + 2)
          [((buildTree counts.length (counts.map fun (s, c) => (-c, Node.leaf s)) #[]).size - 1, 0)] []
        = t.depths 0 := by
  have hrep : HeapRep (wOf counts) #[] (counts.map fun (s, c) => (-c, Node.leaf s)) (counts.map fun p => T.leaf p.1) := by
    unfold HeapRep
    rw [List.forall₂_map_left_iff, List.forall₂_map_right_iff, List.forall₂_same]
    intro p hp
    refine ⟨?_, RepN.leaf _⟩
    simp only [T.weight, wOf_mem hv hp]
    have := hv.pos p hp
    rw [Int.toNat_of_nonneg (by omega)]
  obtain ⟨t, n, hlast, hr, hT⟩ := buildTree_spec (wOf counts) counts.length _ #[] _ (by simp) (by simpa using hne) hrep
  refine ⟨t, hT, ?_⟩
  have hsyms := hT.syms_perm
  have hlen : t.syms.length = counts.length := by
    have := hsyms.length_eq
    simpa [List.flatMap_map, T.syms, Function.comp_def] using this
  have hsize := T.size_eq t
  rw [levelsOf_root _ t n _ _ hlast hr (by omega)]

/-- the encoder is the canonical assignment for the (repaired) sorted depth list of that tree -/
theorem createFrom_struct {counts : List (Nat × Int)} (hv : Valid counts) (hne : counts ≠ []) :
    ∃ t : T, HuffT (wOf counts) (counts.map fun p => T.leaf p.1) t ∧
      (createFrom counts).encode = assign (repairD4 (sortByLevel (t.depths 0))) 0 0 := by
  obtain ⟨t, hT, hl⟩ := buildTree_levels hv hne
  exact ⟨t, hT, by rw [createFrom_encode hne, hl]⟩

theorem flatMap_syms_leaves (counts : List (Nat × Int)) :
    (counts.map fun p => T.leaf p.1).flatMap T.syms = counts.map Prod.fst := by
  induction counts with
  | nil => rfl
  | cons p ps ih => simp [T.syms, ih]

theorem HuffT.leaves_syms {w} {counts : List (Nat × Int)} {t : T} (hT : HuffT w (counts.map fun p => T.leaf p.1) t) :
    t.syms.Perm (counts.map Prod.fst) := by
  have := hT.syms_perm
  rwa [flatMap_syms_leaves] at this


/-! ### the final level list -/

/-- the level list that `createFrom` hands to `assign` -/
def finalLevels (t : T) : List (Nat × Nat) := repairD4 (sortByLevel (t.depths 0))

theorem repairD4_map_snd (L : List (Nat × Nat)) : (repairD4 L).map Prod.snd = L.map Prod.snd := by
  unfold repairD4; split <;> rfl

theorem repairD4_sorted {L : List (Nat × Nat)} (h : LevelSorted L) : LevelSorted (repairD4 L) := by
  unfold repairD4; split
  · simp [LevelSorted]
  · exact h

theorem finalLevels_sorted (t : T) : LevelSorted (finalLevels t) := repairD4_sorted (sortByLevel_sorted _)

theorem finalLevels_syms (t : T) : ((finalLevels t).map Prod.snd).Perm t.syms := by
  unfold finalLevels
  rw [repairD4_map_snd, ← T.depths_map_snd t 0]
  exact (sortByLevel_perm _).map _

/-- with at least two leaves the repair does nothing -/
theorem finalLevels_multi {t : T} (h : 2 ≤ t.syms.length) : (finalLevels t).Perm (t.depths 0) := by
  unfold finalLevels
  have hl : (sortByLevel (t.depths 0)).length = t.syms.length := by
    rw [(sortByLevel_perm _).length_eq, ← T.depths_map_snd t 0, List.length_map]
  rw [repairD4_of_length (by omega)]
  exact sortByLevel_perm _

/-- with one leaf the (repaired) list is `[(1, s)]` -/
theorem finalLevels_leaf (s : Nat) : finalLevels (T.leaf s) = [(1, s)] := rfl

/-- with at least two leaves every depth is at least 1 -/
theorem finalLevels_pos {t : T} (h : 2 ≤ t.syms.length) : ∀ p ∈ finalLevels t, 1 ≤ p.1 := by
  intro p hp
  have hp' := (finalLevels_multi h).mem_iff.mp hp
  obtain ⟨l, r, rfl⟩ := T.eq_node_of_syms_length h
  simp only [T.depths, List.mem_append] at hp'
  rcases hp' with hp' | hp'
  · exact T.depths_ge r _ p hp'
  · exact T.depths_ge l _ p hp'

/-- the Kraft sum of the final levels is exactly one (scaled: `2^M`) when there are at least two leaves -/
theorem finalLevels_kraft {t : T} (h : 2 ≤ t.syms.length) (M : Nat) (hM : ∀ p ∈ finalLevels t, p.1 ≤ M) :
    lsum M (finalLevels t) = 2 ^ M := by
  rw [lsum_perm (finalLevels_multi h)]
  have := T.tree_kraft_eq M t 0 (fun p hp => hM p ((finalLevels_multi h).mem_iff.mpr hp))
  simpa using this

/-- the final levels satisfy the hypotheses of the canonical-code theorems, for every bound `M` on the levels -/
theorem finalLevels_pre (t : T) (M : Nat) (hM : ∀ p ∈ finalLevels t, p.1 ≤ M) : Pre M (finalLevels t) 0 0 := by
  refine Pre.top (finalLevels_sorted t) hM ?_
  rcases Nat.lt_or_ge t.syms.length 2 with h | h
  · have h1 : t.syms.length = 1 := by have := T.syms_length_pos t; omega
    obtain ⟨s, rfl⟩ := T.eq_leaf_of_syms_length h1
    have := hM (1, s) (by simp [finalLevels_leaf])
    simp only [finalLevels_leaf, lsum_cons, lsum_nil] at this ⊢
    have : 2 ^ (M - 1) * 2 = 2 ^ M := by rw [← pow_succ]; congr 1; omega
    omega
  · exact le_of_eq (finalLevels_kraft h M hM)

/-! ### lookups in the encoder -/

section
variable {counts : List (Nat × Int)} {t : T}

theorem encode_keys (henc : (createFrom counts).encode = assign (finalLevels t) 0 0) :
    (createFrom counts).encode.map (fun e => e.1) = (finalLevels t).map Prod.snd := by
  have := congrArg (List.map Prod.snd) (assign_levels (finalLevels t) 0 0)
  rw [henc]
  simpa [List.map_map, Function.comp_def] using this

theorem encode_keys_perm (hT : HuffT (wOf counts) (counts.map fun p => T.leaf p.1) t)
    (henc : (createFrom counts).encode = assign (finalLevels t) 0 0) :
    ((createFrom counts).encode.map fun e => e.1).Perm (counts.map Prod.fst) := by
  rw [encode_keys henc]
  exact (finalLevels_syms t).trans hT.leaves_syms

theorem lookup_of_mem (hv : Valid counts) (hT : HuffT (wOf counts) (counts.map fun p => T.leaf p.1) t)
    (henc : (createFrom counts).encode = assign (finalLevels t) 0 0)
    {e : Nat × Nat × Nat} (he : e ∈ (createFrom counts).encode) : (createFrom counts).lookup e.1 = some e.2 := by
  have hnd : ((createFrom counts).encode.map fun e => e.1).Nodup :=
    (encode_keys_perm hT henc).nodup_iff.mpr hv.nodup
  unfold List.Nodup at hnd
  rw [List.pairwise_map] at hnd
  unfold Code.lookup
  have := find?_key (fun e : Nat × Nat × Nat => e.1) _ hnd e he
  rw [this]; rfl

theorem lenH_level (hv : Valid counts) (hT : HuffT (wOf counts) (counts.map fun p => T.leaf p.1) t)
    (henc : (createFrom counts).encode = assign (finalLevels t) 0 0)
    {p : Nat × Nat} (hp : p ∈ finalLevels t) : lenH counts p.2 = p.1 := by
  have hm : p ∈ ((createFrom counts).encode.map fun e => (e.2.1, e.1)) := by
    rw [henc, assign_levels]; exact hp
  obtain ⟨e, he, rfl⟩ := List.mem_map.mp hm
  unfold lenH
  rw [lookup_of_mem hv hT henc he]

/-- reindexing a sum over the symbols of `counts` by the final level list -/
theorem sum_counts_eq_sum_levels (hT : HuffT (wOf counts) (counts.map fun p => T.leaf p.1) t) (F : Nat → Nat) :
    (counts.map fun p => F p.1).sum = ((finalLevels t).map fun p => F p.2).sum := by
  have := (((finalLevels_syms t).trans hT.leaves_syms).map F).sum_nat
  simpa [List.map_map, Function.comp_def] using this.symm

/-- the weighted code length of the code built by `createFrom` is the cost of the tree (≥ 2 symbols) -/
theorem cost_eq (hv : Valid counts) (hT : HuffT (wOf counts) (counts.map fun p => T.leaf p.1) t)
    (henc : (createFrom counts).encode = assign (finalLevels t) 0 0) (h2 : 2 ≤ counts.length) :
    (counts.map fun p => p.2.toNat * lenH counts p.1).sum = t.cost (wOf counts) := by
  have hlen : t.syms.length = counts.length := by simpa using hT.leaves_syms.length_eq
  have h1 : (counts.map fun p => p.2.toNat * lenH counts p.1).sum
      = (counts.map fun p => wOf counts p.1 * lenH counts p.1).sum := by
    congr 1
    exact List.map_congr_left (fun p hp => by rw [wOf_mem hv hp])
  rw [h1, sum_counts_eq_sum_levels hT (fun s => wOf counts s * lenH counts s)]
  have h3 : ((finalLevels t).map fun p => wOf counts p.2 * lenH counts p.2)
      = (finalLevels t).map fun p => wOf counts p.2 * p.1 :=
    List.map_congr_left (fun p hp => by rw [lenH_level hv hT henc hp])
  rw [h3, T.cost, T.costAt_eq_sum]
  exact ((finalLevels_multi (by omega)).map _).sum_nat

end

/-- sums of `count · length` over positive integer counts, as casts of the natural-number sums -/
theorem sum_int_cast (counts : List (Nat × Int)) (hpos : ∀ p ∈ counts, 0 < p.2) (f : Nat → Nat) :
    (counts.map fun p => p.2 * (f p.1 : Int)).sum = (((counts.map fun p => p.2.toNat * f p.1).sum : Nat) : Int) := by
  induction counts with
  | nil => simp
  | cons p ps ih =>
    have h0 := hpos p (by simp)
    have := ih (fun q hq => hpos q (by simp [hq]))
    simp only [List.map_cons, List.sum_cons, Nat.cast_add, Nat.cast_mul, this]
    rw [Int.toNat_of_nonneg (by omega)]

/-- the single-symbol case, by computation -/
theorem createFrom_single (s : Nat) (c : Int) : (createFrom [(s, c)]).encode = [(s, 1, 0)] := by
  rw [createFrom_encode (by simp)]
  simp [buildTree, popMax, levelsOf, sortByLevel, insertByLevel, repairD4, assign]

/-- (2) **the merges performed by `buildTree` are a greedy Huffman run** (`HuffRel`, any tie-break) on the counts, and
the accumulated cost of the run is `Σ count(s) · depth(s)` for the depths that `levelsOf` reports; (4) every symbol
of `counts` is reported exactly once -/
theorem buildTree_huffRel {counts : List (Nat × Int)} (hv : Valid counts) (hne : counts ≠ []) :
    let tree := buildTree counts.length (counts.map fun (s, c) => (-c, Node.leaf s)) #[]
    let levels := levelsOf tree (2 * counts.length + 2) [(tree.size - 1, 0)] []
    HuffRel (counts.map fun p => p.2.toNat) ((levels.map fun p => wOf counts p.2 * p.1).sum) ∧
      (levels.map Prod.snd).Perm (counts.map Prod.fst) := by
  obtain ⟨t, hT, hl⟩ := buildTree_levels hv hne
  simp only [hl]
  obtain ⟨c, hrel, hcost⟩ := hT.huffRel
  have hz : ((counts.map fun p => T.leaf p.1).map (T.cost (wOf counts))).sum = 0 := by
    simp [List.map_map, Function.comp_def]
  rw [hz, Nat.add_zero, T.cost, T.costAt_eq_sum] at hcost
  have hw : (counts.map fun p => T.leaf p.1).map (T.weight (wOf counts)) = counts.map fun p => p.2.toNat := by
    rw [List.map_map]
    exact List.map_congr_left (fun x hx => by simp only [Function.comp_apply, T.weight, wOf_mem hv hx])
  rw [hw] at hrel
  rw [hcost]
  exact ⟨hrel, by rw [T.depths_map_snd]; exact hT.leaves_syms⟩

end FC.Huff
