import FlatModel.Proofs.HuffEnc
/-! `BitIterator` and `Decoder` refinement (C06, item 4). -/
namespace FC.Huff

/-- the bits carried by one `BitIterator` item `(byte, nbits)` -/
def chunkBits (x : Nat × Nat) : List Bool := bitsOfCode x.2 x.1

/-- shape of the chunk sequence after the first chunk: fragments fit their width, have 1..8 bits, and all but the last have exactly 8 -/
def TailOK : List (Nat × Nat) → Prop
  | [] => True
  | x :: cs => x.1 < 2 ^ x.2 ∧ 1 ≤ x.2 ∧ x.2 ≤ 8 ∧ (cs ≠ [] → x.2 = 8) ∧ TailOK cs

theorem bitChunks_nil_of_le (bytes : List Nat) (fuel lo hi : Nat) (h : hi ≤ lo) : bitChunks bytes fuel lo hi = [] := by
  cases fuel with
  | zero => rfl
  | succ f => simp [bitChunks]; omega

/-- a slice of the bit string that stays inside byte `q` -/
theorem allBits_slice (bytes : List Nat) (q r n : Nat) (hq : q < bytes.length) (hr : r + n ≤ 8) :
    ((allBits bytes).drop (8 * q + r)).take n = ((bitsOfCode 8 bytes[q]!).drop r).take n := by
  induction bytes generalizing q with
  | nil => simp at hq
  | cons b bs ih =>
    cases q with
    | zero =>
      simp only [allBits_cons, Nat.mul_zero, Nat.zero_add]
      rw [List.drop_append_of_le_length (by simp; omega), List.take_append_of_le_length (by simp; omega)]
      simp
    | succ q =>
      simp only [allBits_cons, List.length_cons] at hq ⊢
      rw [List.drop_append, List.drop_of_length_le (by simp; omega), List.nil_append, length_bitsOfCode,
        show 8 * (q + 1) + r - 8 = 8 * q + r by omega, ih q (by omega)]
      simp

theorem bitsOfCode_slice (byte r n : Nat) (hr : r + n ≤ 8) :
    ((bitsOfCode 8 byte).drop r).take n = bitsOfCode n (byte / 2 ^ (8 - r - n) % 2 ^ n) := by
  rw [bitsOfCode_drop' (by omega), bitsOfCode_take' (by omega), bitsOfCode_mod _ (Nat.le_refl _)]

/-- item 4, `chunks_spec` (content): the chunks concatenate to the addressed bit range -/
theorem chunks_spec (bytes : List Nat) (fuel lo hi : Nat) (hhi : hi ≤ 8 * bytes.length) (hf : hi - lo ≤ fuel) :
    (bitChunks bytes fuel lo hi).flatMap chunkBits = ((allBits bytes).drop lo).take (hi - lo) := by
  induction fuel generalizing lo with
  | zero => simp [bitChunks, show hi - lo = 0 by omega]
  | succ fuel ih =>
    unfold bitChunks
    by_cases hlt : lo < hi
    · simp only [hlt, ↓reduceIte, List.flatMap_cons]
      have hn1 : 1 ≤ min (hi - lo) (8 - lo % 8) := by omega
      generalize hn : min (hi - lo) (8 - lo % 8) = n at hn1 ⊢
      rw [ih (lo + n) (by omega)]
      have hsl := allBits_slice bytes (lo / 8) (lo % 8) n (by omega) (by omega)
      rw [show 8 * (lo / 8) + lo % 8 = lo by omega, bitsOfCode_slice _ _ _ (by omega)] at hsl
      rw [chunkBits, ← hsl, show hi - lo = n + (hi - (lo + n)) by omega, List.take_add, List.drop_drop]
    · simp only [hlt, ↓reduceIte, List.flatMap_nil, show hi - lo = 0 by omega, List.take_zero]

/-- item 4, `chunks_spec` (shape): from a byte boundary on, all chunks but the last are whole bytes -/
theorem chunks_tail (bytes : List Nat) (fuel lo hi : Nat) (h8 : lo % 8 = 0) : TailOK (bitChunks bytes fuel lo hi) := by
  induction fuel generalizing lo with
  | zero => trivial
  | succ fuel ih =>
    unfold bitChunks
    by_cases hlt : lo < hi
    · simp only [hlt, ↓reduceIte, TailOK]
      refine ⟨Nat.mod_lt _ (Nat.two_pow_pos _), by omega, by omega, ?_, ?_⟩
      · intro hne
        by_cases h : hi - lo < 8
        · exfalso; apply hne
          apply bitChunks_nil_of_le; omega
        · omega
      · by_cases h : hi - lo < 8
        · rw [bitChunks_nil_of_le _ _ _ _ (by omega)]; trivial
        · apply ih; omega
    · simp only [hlt, ↓reduceIte]; trivial

/-- item 4, `chunks_spec` (shape): the first chunk ends at a byte boundary (or at the end of the range) -/
theorem chunks_first (bytes : List Nat) (fuel lo hi : Nat) (hlt : lo < hi) :
    ∃ b n rest, bitChunks bytes (fuel + 1) lo hi = (b, n) :: rest ∧ b < 2 ^ n ∧ 1 ≤ n ∧ n ≤ 8 ∧
      ((lo + n) % 8 = 0 ∨ lo + n = hi) ∧ rest = bitChunks bytes fuel (lo + n) hi ∧ TailOK rest := by
  refine ⟨_, _, _, by rw [bitChunks, if_pos hlt], Nat.mod_lt _ (Nat.two_pow_pos _), by omega, by omega, by omega, rfl, ?_⟩
  by_cases h : hi - lo < 8 - lo % 8
  · rw [bitChunks_nil_of_le _ _ _ _ (by omega)]; trivial
  · apply chunks_tail; omega

example : bitChunks [0xA5, 0x3C, 0xFF] 20 3 21 = [(5, 5), (0x3C, 8), (0x1F, 5)] := by decide

/-! ### decode tables as a lookup semantics -/

/-! `idx8`, `walk`, `TableOK`: defined in Model/HuffSpec.lean -/

theorem walk_pos {n : Nat} {m : Array Decode} {b : List Bool} {s l : Nat} (h : walk n m b = some (s, l)) : 1 ≤ l := by
  induction n generalizing m b l with
  | zero => simp [walk] at h
  | succ n ih =>
    simp only [walk] at h
    split at h
    · cases h
    · split at h
      · simp only [Option.some.injEq, Prod.mk.injEq] at h; omega
      · cases h
    · rename_i t heq
      cases hw : walk n t (b.drop 8) with
      | none => simp [hw] at h
      | some p =>
        simp only [hw, Option.map_some, Option.some.injEq, Prod.mk.injEq] at h
        omega

theorem TableOK.pos {c : Code} (h : TableOK c) {s l code : Nat} (hl : c.lookup s = some (l, code)) : 1 ≤ l := by
  have := h s l code hl []
  exact walk_pos this

theorem idx8_of_ge {p b : Nat} (X : List Bool) (hb : 8 ≤ b) : idx8 (bitsOfCode b p ++ X) = p / 2 ^ (b - 8) % 256 := by
  rw [idx8, List.append_assoc, List.take_append_of_le_length (by simp; omega), bitsOfCode_take' hb, ofBits_bitsOfCode]

theorem idx8_of_lt {p b : Nat} (hp : p < 2 ^ b) (hb : b < 8) : idx8 (bitsOfCode b p) = p * 2 ^ (8 - b) % 256 := by
  have hlt : p * 2 ^ (8 - b) < 256 := by
    have : p * 2 ^ (8 - b) < 2 ^ b * 2 ^ (8 - b) := Nat.mul_lt_mul_of_pos_right hp (Nat.two_pow_pos _)
    rw [← Nat.pow_add, show b + (8 - b) = 8 by omega] at this
    exact this
  rw [idx8, List.take_append, List.take_of_length_le (by simp; omega), length_bitsOfCode, List.take_replicate,
    Nat.min_eq_left (by omega), ofBits_append_zeros, ofBits_bitsOfCode_of_lt hp, Nat.mod_eq_of_lt hlt]

/-! ### the decoder -/

/-- "restock once" -/
def restock (chunks : List (Nat × Nat)) (pending bits : Nat) : List (Nat × Nat) × Nat × Nat :=
  if bits < 8 then
    match chunks with
    | (nb, nbits) :: rest => (rest, pending * 2 ^ nbits + nb, bits + nbits)
    | [] => (chunks, pending, bits)
  else (chunks, pending, bits)

theorem decodeLoop_succ (root : Array Decode) (fuel : Nat) (map : Array Decode) (chunks : List (Nat × Nat))
    (pending bits : Nat) (acc : List Nat) :
    decodeLoop root (fuel + 1) map chunks pending bits acc =
      (let r := restock chunks pending bits
       if r.2.2 < 8 then
         if r.2.2 = 0 then some acc
         else
           match map[r.2.1 * 2 ^ (8 - r.2.2) % 256]! with
           | .void => none
           | .further _ => none
           | .symbol s l =>
             if l ≤ r.2.2 then decodeLoop root fuel root r.1 (r.2.1 % 2 ^ (r.2.2 - l)) (r.2.2 - l) (acc ++ [s])
             else none
       else
         match map[r.2.1 / 2 ^ (r.2.2 - 8) % 256]! with
         | .void => none
         | .symbol s l => decodeLoop root fuel root r.1 (r.2.1 % 2 ^ (r.2.2 - l)) (r.2.2 - l) (acc ++ [s])
         | .further t => decodeLoop root fuel t r.1 (r.2.1 % 2 ^ (r.2.2 - 8)) (r.2.2 - 8) acc) := by
  conv => lhs; unfold decodeLoop
  unfold restock
  by_cases hb : bits < 8
  · cases chunks with
    | nil => simp only [hb, ↓reduceIte]; rfl
    | cons x rest => obtain ⟨nb, nbits⟩ := x; simp only [hb, ↓reduceIte]; rfl
  · simp only [hb, ↓reduceIte]; rfl

def flat (cs : List (Nat × Nat)) : List Bool := cs.flatMap chunkBits

theorem TailOK.eq_nil_of_flat {cs : List (Nat × Nat)} (h : TailOK cs) (hf : flat cs = []) : cs = [] := by
  cases cs with
  | nil => rfl
  | cons x cs =>
    obtain ⟨-, h1, -⟩ := h
    have := congrArg List.length hf
    simp [flat, chunkBits] at this
    omega

theorem restock_spec (chunks : List (Nat × Nat)) (p b : Nat) (hp : p < 2 ^ b) (ht : TailOK chunks) :
    let r := restock chunks p b
    r.2.1 < 2 ^ r.2.2 ∧ TailOK r.1 ∧ bitsOfCode r.2.2 r.2.1 ++ flat r.1 = bitsOfCode b p ++ flat chunks ∧
      (r.2.2 < 8 → r.1 = []) := by
  unfold restock
  by_cases hb : b < 8
  · simp only [hb, ↓reduceIte]
    cases chunks with
    | nil => exact ⟨hp, trivial, rfl, fun _ => rfl⟩
    | cons x rest =>
      obtain ⟨nb, nbits⟩ := x
      obtain ⟨h1, h2, h3, h4, h5⟩ := ht
      simp only at h1 h2 h3 h4 ⊢
      refine ⟨?_, h5, ?_, ?_⟩
      · rw [Nat.pow_add]
        have : (p + 1) * 2 ^ nbits ≤ 2 ^ b * 2 ^ nbits := Nat.mul_le_mul_right _ hp
        rw [Nat.add_mul] at this; omega
      · rw [bitsOfCode_mul_add _ _ _ _ h1]; simp [flat, chunkBits]
      · intro hlt
        false_or_by_contra
        rename_i hne
        have := h4 hne; omega
  · simp [hb, hp, ht]

/-- the decoder's `u16` accumulator suffices: restocking happens only below 8 bits and adds at most 8 -/
theorem restock_u16 (chunks : List (Nat × Nat)) (p b : Nat) (hb : b < 16) (ht : TailOK chunks) :
    (restock chunks p b).2.2 < 16 := by
  unfold restock
  by_cases h8 : b < 8
  · simp only [h8, ↓reduceIte]
    cases chunks with
    | nil => exact hb
    | cons x rest =>
      obtain ⟨nb, nbits⟩ := x
      have := ht.2.2.1
      simp only at this ⊢
      omega
  · simp only [h8, ↓reduceIte]; exact hb

/-- one code word: the decoder follows `walk` through the nested tables and emits its symbol,
consuming exactly the `l` bits of the code word, in at most `l` iterations -/
theorem decode_one (root : Array Decode) (n : Nat) (map : Array Decode) (chunks : List (Nat × Nat)) (p b : Nat)
    (acc : List Nat) (s l : Nat) (hp : p < 2 ^ b) (ht : TailOK chunks)
    (hw : walk n map (bitsOfCode b p ++ flat chunks) = some (s, l)) (hl : l ≤ b + (flat chunks).length) :
    ∃ k chunks' p' b', k ≤ l ∧ p' < 2 ^ b' ∧ TailOK chunks' ∧
      bitsOfCode b' p' ++ flat chunks' = (bitsOfCode b p ++ flat chunks).drop l ∧
      ∀ fuel, decodeLoop root (fuel + k) map chunks p b acc = decodeLoop root fuel root chunks' p' b' (acc ++ [s]) := by
  induction n generalizing map chunks p b l with
  | zero => simp [walk] at hw
  | succ n ih =>
    obtain ⟨hp', ht', hR, hnil⟩ := restock_spec chunks p b hp ht
    have hlen : b + (flat chunks).length = (restock chunks p b).2.2 + (flat (restock chunks p b).1).length := by
      have := congrArg List.length hR
      simp only [List.length_append, length_bitsOfCode] at this; omega
    rw [← hR] at hw ⊢
    rw [hlen] at hl
    have hstep : ∀ fuel k', decodeLoop root (fuel + (k' + 1)) map chunks p b acc = _ :=
      fun fuel k' => decodeLoop_succ root (fuel + k') map chunks p b acc
    generalize restock chunks p b = r at *
    obtain ⟨cs, p', b'⟩ := r
    simp only at hp' ht' hnil hw hl hstep ⊢
    clear hR hlen
    rw [walk] at hw
    by_cases hb8 : b' < 8
    · -- fewer than 8 bits left and no more chunks
      have hcs := hnil hb8
      subst hcs
      simp only [flat, List.flatMap_nil, List.append_nil, List.length_nil, Nat.add_zero] at hw hl ⊢
      rw [idx8_of_lt hp' hb8] at hw
      cases hm : map[p' * 2 ^ (8 - b') % 256]! with
      | void => simp [hm] at hw
      | further t =>
        simp only [hm] at hw
        cases hw' : walk n t (List.drop 8 (bitsOfCode b' p')) with
        | none => simp [hw'] at hw
        | some q => simp [hw'] at hw; omega
      | symbol s0 l0 =>
        simp only [hm] at hw
        split at hw
        · simp only [Option.some.injEq, Prod.mk.injEq] at hw
          obtain ⟨rfl, rfl⟩ := hw
          refine ⟨1, [], p' % 2 ^ (b' - l0), b' - l0, by omega, Nat.mod_lt _ (Nat.two_pow_pos _), trivial, ?_, ?_⟩
          · simp only [List.flatMap_nil, List.append_nil]
            rw [bitsOfCode_drop' hl, bitsOfCode_mod _ (Nat.le_refl _)]
          · intro fuel
            rw [hstep fuel 0]
            simp only [hb8, ↓reduceIte, hm, hl, show ¬ b' = 0 by omega, Nat.add_zero]
        · cases hw
    · -- at least 8 pending bits
      rw [idx8_of_ge _ (by omega)] at hw
      cases hm : map[p' / 2 ^ (b' - 8) % 256]! with
      | void => simp [hm] at hw
      | symbol s0 l0 =>
        simp only [hm] at hw
        split at hw
        · rename_i hl0
          simp only [Option.some.injEq, Prod.mk.injEq] at hw
          obtain ⟨rfl, rfl⟩ := hw
          refine ⟨1, cs, p' % 2 ^ (b' - l0), b' - l0, by omega, Nat.mod_lt _ (Nat.two_pow_pos _), ht', ?_, ?_⟩
          · rw [List.drop_append_of_le_length (by simp; omega), bitsOfCode_drop' (by omega),
              bitsOfCode_mod _ (Nat.le_refl _)]
          · intro fuel
            rw [hstep fuel 0]
            simp only [hb8, ↓reduceIte, hm, Nat.add_zero]
        · cases hw
      | further t =>
        simp only [hm] at hw
        have hdrop : List.drop 8 (bitsOfCode b' p' ++ flat cs) = bitsOfCode (b' - 8) (p' % 2 ^ (b' - 8)) ++ flat cs := by
          rw [List.drop_append_of_le_length (by simp; omega), bitsOfCode_drop' (by omega),
            bitsOfCode_mod _ (Nat.le_refl _)]
        rw [hdrop] at hw
        cases hw' : walk n t (bitsOfCode (b' - 8) (p' % 2 ^ (b' - 8)) ++ flat cs) with
        | none => simp [hw'] at hw
        | some q =>
          obtain ⟨s1, l1⟩ := q
          simp only [hw', Option.map_some, Option.some.injEq, Prod.mk.injEq] at hw
          obtain ⟨rfl, rfl⟩ := hw
          obtain ⟨k, cs'', p'', b'', hk, hp'', ht'', hR'', hrun⟩ :=
            ih t cs (p' % 2 ^ (b' - 8)) (b' - 8) l1 (Nat.mod_lt _ (Nat.two_pow_pos _)) ht' hw' (by omega)
          refine ⟨k + 1, cs'', p'', b'', by omega, hp'', ht'', ?_, ?_⟩
          · rw [hR'', ← hdrop, List.drop_drop]; congr 1; omega
          · intro fuel
            rw [hstep fuel k]
            simp only [hb8, ↓reduceIte, hm]
            exact hrun fuel

/-- more fuel never changes a successful run -/
theorem decodeLoop_mono (root : Array Decode) (f f' : Nat) (map : Array Decode) (chunks : List (Nat × Nat))
    (p b : Nat) (acc r : List Nat) (hf : f ≤ f') (h : decodeLoop root f map chunks p b acc = some r) :
    decodeLoop root f' map chunks p b acc = some r := by
  induction f generalizing f' map chunks p b acc with
  | zero => simp [decodeLoop] at h
  | succ f ih =>
    cases f' with
    | zero => omega
    | succ f' =>
      rw [decodeLoop_succ] at h ⊢
      generalize restock chunks p b = rs at h ⊢
      obtain ⟨cs, p', b'⟩ := rs
      simp only at h ⊢
      split
      · rw [if_pos (by assumption)] at h
        split
        · rw [if_pos (by assumption)] at h; exact h
        · rw [if_neg (by assumption)] at h
          split <;> rename_i hm <;> rw [hm] at h <;> simp only at h
          · exact h
          · exact h
          · split
            · rw [if_pos (by assumption)] at h; exact ih _ _ _ _ _ _ (by omega) h
            · rw [if_neg (by assumption)] at h; exact h
      · rw [if_neg (by assumption)] at h
        split <;> rename_i hm <;> rw [hm] at h <;> simp only at h
        · exact h
        · exact ih _ _ _ _ _ _ (by omega) h
        · exact ih _ _ _ _ _ _ (by omega) h

/-- the whole item: if the remaining bit string is the concatenation of the code words of `w`,
the decoder emits exactly `w`, within `|bits| + 1` iterations -/
theorem decode_all (c : Code) (hc : TableOK c) (w : List Nat) (chunks : List (Nat × Nat)) (p b : Nat)
    (acc : List Nat) (R : List Bool) (hp : p < 2 ^ b) (ht : TailOK chunks)
    (hw : encodeBits c w = some R) (hR : bitsOfCode b p ++ flat chunks = R) :
    ∃ K, K ≤ R.length + 1 ∧ decodeLoop c.decode K c.decode chunks p b acc = some (acc ++ w) := by
  induction w generalizing chunks p b acc R with
  | nil =>
    simp only [encodeBits, Option.some.injEq] at hw
    subst hw
    have h0 : b = 0 := by
      have := congrArg List.length hR
      simp at this; omega
    subst h0
    have hcs : chunks = [] := ht.eq_nil_of_flat (by simpa using hR)
    subst hcs
    refine ⟨1, by simp, ?_⟩
    rw [decodeLoop_succ]
    simp [restock]
  | cons s w ih =>
    simp only [encodeBits, codeOf] at hw
    cases hl : c.lookup s with
    | none => simp [hl] at hw
    | some lc =>
      obtain ⟨l, code⟩ := lc
      cases hr : encodeBits c w with
      | none => simp [hl, hr] at hw
      | some R' =>
        simp only [hl, hr, Option.map_some, Option.some.injEq] at hw
        subst hw
        have hwalk := hc s l code hl R'
        rw [← hR] at hwalk
        have hlen := congrArg List.length hR
        simp only [List.length_append, length_bitsOfCode] at hlen
        obtain ⟨k, cs', p', b', hk, hp', ht', hR', hrun⟩ :=
          decode_one c.decode 9 c.decode chunks p b acc s l hp ht hwalk (by omega)
        rw [hR, List.drop_left' (by simp)] at hR'
        obtain ⟨K, hK, hdec⟩ := ih cs' p' b' (acc ++ [s]) R' hp' ht' hr hR'
        refine ⟨K + k, by simp only [List.length_append, length_bitsOfCode]; omega, ?_⟩
        rw [hrun K, hdec]; simp

theorem encodeBits_nil_of_empty (c : Code) (hc : TableOK c) (w : List Nat) (h : encodeBits c w = some []) : w = [] := by
  cases w with
  | nil => rfl
  | cons s w =>
    exfalso
    simp only [encodeBits, codeOf] at h
    cases hl : c.lookup s with
    | none => simp [hl] at h
    | some lc =>
      obtain ⟨l, code⟩ := lc
      cases hr : encodeBits c w with
      | none => simp [hl, hr] at h
      | some R' =>
        simp only [hl, hr, Option.map_some, Option.some.injEq, List.append_eq_nil_iff] at h
        have := hc.pos hl
        have h2 := congrArg List.length h.1
        simp at h2; omega

/-- item 4, `decode_spec`: if the addressed bit range of the store is the concatenation of the code words
of `w`, then `Encoded::decode` over that range yields exactly `w` -/
theorem decode_spec (c : Code) (hc : TableOK c) (bytes : List Nat) (lo hi : Nat) (w : List Nat)
    (hhi : hi ≤ 8 * bytes.length)
    (hw : encodeBits c w = some (((allBits bytes).drop lo).take (hi - lo))) :
    decodeRange c bytes lo hi = some w := by
  have hspec := chunks_spec bytes (hi - lo + 2) lo hi hhi (by omega)
  have hRlen : (((allBits bytes).drop lo).take (hi - lo)).length = hi - lo := by
    simp only [List.length_take, List.length_drop, length_allBits]; omega
  unfold decodeRange
  rw [if_neg (by omega)]
  by_cases hlt : lo < hi
  · obtain ⟨b, n, rest, he, hb, hn1, hn8, -, -, ht⟩ := chunks_first bytes (hi - lo + 1) lo hi hlt
    rw [he] at hspec ⊢
    simp only
    obtain ⟨K, hK, hdec⟩ := decode_all c hc w rest b n [] _ hb ht hw (by simpa [flat, chunkBits] using hspec)
    rw [hRlen] at hK
    simpa using decodeLoop_mono c.decode K (2 * (hi - lo) + 4) c.decode rest b n [] _ (by omega) hdec
  · rw [bitChunks_nil_of_le _ _ _ _ (by omega)]
    simp only
    rw [show hi - lo = 0 by omega] at hw ⊢
    simp only [List.take_zero] at hw
    have := encodeBits_nil_of_empty c hc w hw
    subst this
    simp [decodeLoop_succ, restock]

/-- a non-empty bit range reaching beyond the byte store is a panic (`self.bytes[..]` out of bounds) -/
theorem decodeRange_out_of_bounds (c : Code) (bytes : List Nat) (lo hi : Nat) (h : lo < hi) (ho : 8 * bytes.length < hi) :
    decodeRange c bytes lo hi = none := by
  unfold decodeRange; rw [if_pos ⟨h, ho⟩]

end FC.Huff
