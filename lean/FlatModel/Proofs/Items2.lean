import FlatModel.Model.Items2
import FlatModel.Model.ItemOps
import FlatModel.Proofs.Items
import FlatModel.Proofs.HuffRegion
/-! Helper lemmas for the composite read items (`Option`, `Result`, tuples, slices of items) and the
Huffman read item `Wrapped` (C14, C15): the `IntoOwned` laws in compositional form, the class
`ItemLaws` that closes them under nesting, and the comparison lemmas for `Wrapped`. Core-only proofs. -/
namespace FC
open Region

/-! ### `Option<T>` -/
namespace OptionItem
variable {X O : Type}

theorem cloneOnto_eq (io : X → O) (co : X → O → O) (h : ∀ x t, co x t = io x) (x : Option X) (t : Option O) :
    cloneOnto io co x t = intoOwned io x := by
  cases x <;> cases t <;> simp [cloneOnto, intoOwned, h]

theorem intoOwned_borrowAs (io : X → O) (ba : O → X) (h : ∀ o, io (ba o) = o) (o : Option O) :
    intoOwned io (borrowAs ba o) = o := by
  cases o <;> simp [intoOwned, borrowAs, h]

theorem reborrow_id (rb : X → X) (h : ∀ x, rb x = x) (x : Option X) : reborrow rb x = x := by
  cases x <;> simp [reborrow, h]

theorem intoOwned_eq_map (io : X → O) (x : Option X) : intoOwned io x = x.map io := by cases x <;> rfl
theorem borrowAs_eq_map (ba : O → X) (o : Option O) : borrowAs ba o = o.map ba := by cases o <;> rfl

end OptionItem

/-! ### `Result<T, E>` -/
namespace ResultItem
variable {XT OT XE OE : Type}

theorem cloneOnto_eq (ioT : XT → OT) (coT : XT → OT → OT) (ioE : XE → OE) (coE : XE → OE → OE)
    (hT : ∀ x t, coT x t = ioT x) (hE : ∀ x t, coE x t = ioE x) (x : Except XE XT) (t : Except OE OT) :
    cloneOnto ioT coT ioE coE x t = intoOwned ioT ioE x := by
  cases x <;> cases t <;> simp [cloneOnto, intoOwned, hT, hE]

theorem intoOwned_borrowAs (ioT : XT → OT) (baT : OT → XT) (ioE : XE → OE) (baE : OE → XE)
    (hT : ∀ o, ioT (baT o) = o) (hE : ∀ o, ioE (baE o) = o) (o : Except OE OT) :
    intoOwned ioT ioE (borrowAs baT baE o) = o := by
  cases o <;> simp [intoOwned, borrowAs, hT, hE]

theorem reborrow_id (rbT : XT → XT) (rbE : XE → XE) (hT : ∀ x, rbT x = x) (hE : ∀ x, rbE x = x)
    (x : Except XE XT) : reborrow rbT rbE x = x := by
  cases x <;> simp [reborrow, hT, hE]

end ResultItem

/-! ### tuples -/
namespace TupleItem
variable {XA OA XB OB : Type}

theorem cloneOnto_eq (ioA : XA → OA) (coA : XA → OA → OA) (ioB : XB → OB) (coB : XB → OB → OB)
    (hA : ∀ x t, coA x t = ioA x) (hB : ∀ x t, coB x t = ioB x) (x : XA × XB) (t : OA × OB) :
    cloneOnto coA coB x t = intoOwned ioA ioB x := by
  obtain ⟨a, b⟩ := x
  obtain ⟨ta, tb⟩ := t
  simp [cloneOnto, intoOwned, hA, hB]

theorem intoOwned_borrowAs (ioA : XA → OA) (baA : OA → XA) (ioB : XB → OB) (baB : OB → XB)
    (hA : ∀ o, ioA (baA o) = o) (hB : ∀ o, ioB (baB o) = o) (o : OA × OB) :
    intoOwned ioA ioB (borrowAs baA baB o) = o := by
  obtain ⟨a, b⟩ := o
  simp [intoOwned, borrowAs, hA, hB]

theorem reborrow_id (rbA : XA → XA) (rbB : XB → XB) (hA : ∀ x, rbA x = x) (hB : ∀ x, rbB x = x)
    (x : XA × XB) : reborrow rbA rbB x = x := by
  obtain ⟨a, b⟩ := x
  simp [reborrow, hA, hB]

end TupleItem

/-! ### slices of items -/
namespace SliceItem
variable {X O : Type}

/-- when the element `clone_onto` agrees with `into_owned`, the loop over the zip writes the owned
forms of the common prefix: the `zip`/`extend`/`truncate` computation is that of `cloneOnto_list` on
the owned elements -/
theorem zip_clone_eq (io : X → O) (co : X → O → O) (h : ∀ x t, co x t = io x) (elems : List X) (t : List O) :
    (List.zip elems t).map (fun (p : X × O) => co p.1 p.2) = (List.zip (elems.map io) t).map (·.1) := by
  induction elems generalizing t with
  | nil => simp
  | cons a elems ih =>
    cases t with
    | nil => simp
    | cons b t =>
      have := ih t
      simp only [h] at this
      simp [h, this]

theorem cloneOnto_eq (io : X → O) (co : X → O → O) (h : ∀ x t, co x t = io x) (elems : List X) (t : List O) :
    cloneOnto io co elems t = intoOwned io elems := by
  have := cloneOnto_list (elems.map io) t
  have e : (elems.map io).length = elems.length := List.length_map ..
  rw [e] at this
  simp only [cloneOnto, intoOwned, zip_clone_eq io co h]
  rw [List.map_drop]
  exact this

theorem map_base_intoOwned {V : Type} (l : List V) : l.map BaseItem.intoOwned = l := by
  induction l with
  | nil => rfl
  | cons a l ih => simp [BaseItem.intoOwned, ih]

theorem intoOwned_borrowAs (io : X → O) (ba : O → X) (h : ∀ o, io (ba o) = o) (o : List O) :
    intoOwned io (borrowAs ba o) = o := by
  simp only [intoOwned, borrowAs, List.map_map]
  induction o with
  | nil => rfl
  | cons a o ih => simp [h, ih]

theorem reborrow_id (elems : List X) : reborrow elems = elems := rfl

/-- the earlier model of `ReadSlice::clone_onto` (Model/Items.lean), in which element items are
identified with their owned values, is the instance `into_owned = id`, `clone_onto x _ = x` -/
theorem readSlice_cloneOnto_eq {R V I Oc : Type} [Region R V I] [IdxCont Oc I] (x : ReadSlice R Oc V)
    (items : List V) (h : x.iter = some items) (t : List V) :
    x.cloneOnto t = some (cloneOnto BaseItem.intoOwned BaseItem.cloneOnto items t) := by
  have hl := ReadSlice.len_of_iter x items h
  simp only [ReadSlice.cloneOnto, h, hl, cloneOnto, BaseItem.cloneOnto, map_base_intoOwned]

theorem readColumns_cloneOnto_eq {R V I : Type} [Region R V I] (x : ReadColumns R I V)
    (items : List V) (h : x.iter = some items) (t : List V) :
    x.cloneOnto t = some (cloneOnto BaseItem.intoOwned BaseItem.cloneOnto items t) := by
  have hl := ReadColumns.len_of_iter x items h
  simp only [ReadColumns.cloneOnto, h, hl, cloneOnto, BaseItem.cloneOnto, map_base_intoOwned]

end SliceItem

/-! ### the laws close under nesting -/

/-- an item type `X` with owned type `O`: the three `IntoOwned` operations and the two laws
C14 states (`clone_onto` leaves `into_owned` in the target whatever it held; `borrow_as` then
`into_owned` is the identity) -/
class ItemLaws (X : Type) (O : outParam Type) where
  intoOwned : X → O
  cloneOnto : X → O → O
  borrowAs : O → X
  cloneOnto_eq : ∀ x t, cloneOnto x t = intoOwned x
  intoOwned_borrowAs : ∀ o, intoOwned (borrowAs o) = o

namespace ItemLaws

/-- base items (`implement_for!` in mirror.rs) -/
@[reducible] def base (T : Type) : ItemLaws T T where
  intoOwned := BaseItem.intoOwned
  cloneOnto := BaseItem.cloneOnto
  borrowAs := BaseItem.borrowAs
  cloneOnto_eq _ _ := rfl
  intoOwned_borrowAs _ := rfl

instance : ItemLaws Unit Unit := base Unit
instance : ItemLaws Bool Bool := base Bool
instance : ItemLaws Char Char := base Char
instance : ItemLaws Nat Nat := base Nat
instance : ItemLaws Int Int := base Int
instance : ItemLaws UInt8 UInt8 := base UInt8
instance : ItemLaws UInt16 UInt16 := base UInt16
instance : ItemLaws UInt32 UInt32 := base UInt32
instance : ItemLaws UInt64 UInt64 := base UInt64

instance {X O : Type} [ItemLaws X O] : ItemLaws (Option X) (Option O) where
  intoOwned := OptionItem.intoOwned intoOwned
  cloneOnto := OptionItem.cloneOnto intoOwned cloneOnto
  borrowAs := OptionItem.borrowAs borrowAs
  cloneOnto_eq := OptionItem.cloneOnto_eq _ _ cloneOnto_eq
  intoOwned_borrowAs := OptionItem.intoOwned_borrowAs _ _ intoOwned_borrowAs

instance {XT OT XE OE : Type} [ItemLaws XT OT] [ItemLaws XE OE] : ItemLaws (Except XE XT) (Except OE OT) where
  intoOwned := ResultItem.intoOwned intoOwned intoOwned
  cloneOnto := ResultItem.cloneOnto intoOwned cloneOnto intoOwned cloneOnto
  borrowAs := ResultItem.borrowAs borrowAs borrowAs
  cloneOnto_eq := ResultItem.cloneOnto_eq _ _ _ _ cloneOnto_eq cloneOnto_eq
  intoOwned_borrowAs := ResultItem.intoOwned_borrowAs _ _ _ _ intoOwned_borrowAs intoOwned_borrowAs

instance {XA OA XB OB : Type} [ItemLaws XA OA] [ItemLaws XB OB] : ItemLaws (XA × XB) (OA × OB) where
  intoOwned := TupleItem.intoOwned intoOwned intoOwned
  cloneOnto := TupleItem.cloneOnto cloneOnto cloneOnto
  borrowAs := TupleItem.borrowAs borrowAs borrowAs
  cloneOnto_eq := TupleItem.cloneOnto_eq _ _ _ _ cloneOnto_eq cloneOnto_eq
  intoOwned_borrowAs := TupleItem.intoOwned_borrowAs _ _ _ _ intoOwned_borrowAs intoOwned_borrowAs

/-- slices of items, represented by the list of element items the iterator yields -/
instance {X O : Type} [ItemLaws X O] : ItemLaws (List X) (List O) where
  intoOwned := SliceItem.intoOwned intoOwned
  cloneOnto := SliceItem.cloneOnto intoOwned cloneOnto
  borrowAs := SliceItem.borrowAs borrowAs
  cloneOnto_eq := SliceItem.cloneOnto_eq _ _ cloneOnto_eq
  intoOwned_borrowAs := SliceItem.intoOwned_borrowAs _ _ intoOwned_borrowAs

end ItemLaws

/-! ### `Wrapped`: the comparisons of the four arms are those of the owned lists -/
namespace Wrapped

theorem iterEqSyms_eq (xs ys : List Nat) : iterEqSyms xs ys = listEq (· == ·) xs ys := by
  induction xs generalizing ys with
  | nil => cases ys <;> rfl
  | cons x xs ih =>
    cases ys with
    | nil => rfl
    | cons y ys =>
      simp only [iterEqSyms, listEq, ih]
      cases x == y <;> rfl

theorem iterCmpSyms_eq (xs ys : List Nat) : iterCmpSyms xs ys = lexCmp compare xs ys := by
  induction xs generalizing ys with
  | nil => cases ys <;> rfl
  | cons x xs ih =>
    cases ys with
    | nil => rfl
    | cons y ys =>
      simp only [iterCmpSyms, lexCmp, ih]
      cases compare x y <;> rfl

theorem listEq_length (xs ys : List Nat) (h : listEq (· == ·) xs ys = true) : xs.length = ys.length := by
  induction xs generalizing ys with
  | nil => cases ys with
    | nil => rfl
    | cons y ys => simp [listEq] at h
  | cons x xs ih =>
    cases ys with
    | nil => simp [listEq] at h
    | cons y ys =>
      simp only [listEq, Bool.and_eq_true] at h
      simp [ih ys h.2]

/-- slice equality (length check, then element-wise) is `Iterator::eq` -/
theorem sliceEq_eq (xs ys : List Nat) : sliceEq xs ys = listEq (· == ·) xs ys := by
  induction xs generalizing ys with
  | nil => cases ys <;> simp [sliceEq, listEq]
  | cons x xs ih =>
    cases ys with
    | nil => simp [sliceEq, listEq]
    | cons y ys =>
      have := ih ys
      simp only [sliceEq, List.length_cons, bne_iff_ne, ne_eq, Nat.add_right_cancel_iff, List.zip_cons_cons,
        List.all_cons, listEq] at this ⊢
      by_cases hl : xs.length = ys.length
      · simp only [hl, not_true_eq_false, if_false] at this ⊢
        rw [this]
      · simp only [hl, not_false_eq_true, if_true] at this ⊢
        rw [← this, Bool.and_false]

theorem compare_succ (n m : Nat) : compare (n + 1) (m + 1) = compare n m := by
  simp only [compare, compareOfLessAndEq, Nat.add_lt_add_iff_right, Nat.add_right_cancel_iff]

/-- slice order (common prefix, then lengths) is the lexicographic order `Iterator::cmp` computes -/
theorem sliceCmp_eq (xs ys : List Nat) : sliceCmp xs ys = lexCmp compare xs ys := by
  induction xs generalizing ys with
  | nil => cases ys <;> simp [sliceCmp, lexCmp, Ordering.then, compare, compareOfLessAndEq]
  | cons x xs ih =>
    cases ys with
    | nil => simp [sliceCmp, lexCmp, Ordering.then, compare, compareOfLessAndEq]
    | cons y ys =>
      have := ih ys
      simp only [sliceCmp, List.zip_cons_cons, List.foldr_cons, List.length_cons, compare_succ, lexCmp] at this ⊢
      rw [← this]
      cases compare x y <;> simp [Ordering.then]

theorem eq_of_decode (a b : Wrapped) (xs ys : List Nat) (ha : a.decode = some xs) (hb : b.decode = some ys) :
    eq a b = some (listEq (· == ·) xs ys) := by
  cases a <;> cases b <;> simp only [decode, Option.some.injEq] at ha hb <;>
    simp only [eq, ha, hb, iterEqSyms_eq, sliceEq_eq]

theorem cmp_of_decode (a b : Wrapped) (xs ys : List Nat) (ha : a.decode = some xs) (hb : b.decode = some ys) :
    cmp a b = some (lexCmp compare xs ys) := by
  cases a <;> cases b <;> simp only [decode, Option.some.injEq] at ha hb <;>
    simp only [cmp, ha, hb, iterCmpSyms_eq, sliceCmp_eq]

theorem intoOwned_eq_decode (a : Wrapped) : a.intoOwned = a.decode := by cases a <;> rfl

/-- `clear` then `extend`: the target's previous contents are irrelevant -/
theorem cloneOnto_eq_decode (a : Wrapped) (t : List Nat) : a.cloneOnto t = a.decode := by
  cases a with
  | encoded c bytes lo hi =>
    simp only [cloneOnto, decode, vecClear, vecExtend, List.nil_append]
    cases Huff.decodeRange c bytes lo hi <;> rfl
  | raw syms => simp [cloneOnto, decode, vecClear, vecExtend]

end Wrapped

/-! ### items whose reads may panic enter the nested universe through their well-formed states -/

/- `WrappedOK` — a Huffman item whose decoding does not panic, e.g. every item issued at a valid index of a
consistent container (`Huff.Container.item_decode`, `LawfulRegion.valid_reads`), and every borrowed one — is
defined in Model/ItemOps.lean (the driver uses it): `{ a : Wrapped // a.decode.isSome }`. -/

instance : ItemLaws WrappedOK (List Nat) where
  intoOwned a := a.1.intoOwned.getD []
  cloneOnto a t := (a.1.cloneOnto t).getD []
  borrowAs o := ⟨Wrapped.borrowAs o, rfl⟩
  cloneOnto_eq a t := by rw [Wrapped.cloneOnto_eq_decode, Wrapped.intoOwned_eq_decode]
  intoOwned_borrowAs _ := rfl

/-- the `getD` hides nothing: the instance operations are the partial ones, which succeed -/
theorem WrappedOK.ops_eq (a : WrappedOK) (t : List Nat) :
    a.1.intoOwned = some (ItemLaws.intoOwned a) ∧ a.1.cloneOnto t = some (ItemLaws.cloneOnto a t) := by
  obtain ⟨a, ha⟩ := a
  obtain ⟨xs, hxs⟩ := Option.isSome_iff_exists.1 ha
  simp only [ItemLaws.intoOwned, ItemLaws.cloneOnto, Wrapped.cloneOnto_eq_decode, Wrapped.intoOwned_eq_decode, hxs,
    Option.getD_some, and_self]

/-- a `ReadSlice` over base elements whose iteration does not panic (every `WF` one, `ReadSlice.wf_iter`) -/
def ReadSliceOK (R Oc V : Type) {I : Type} [Region R V I] [IdxCont Oc I] : Type :=
  { x : ReadSlice R Oc V // x.iter.isSome }

instance {R Oc V I : Type} [Region R V I] [IdxCont Oc I] : ItemLaws (ReadSliceOK R Oc V) (List V) where
  intoOwned x := x.1.intoOwned.getD []
  cloneOnto x t := (x.1.cloneOnto t).getD []
  borrowAs o := ⟨ReadSlice.borrowed o, rfl⟩
  cloneOnto_eq x t := by
    obtain ⟨x, hx⟩ := x
    obtain ⟨items, hi⟩ := Option.isSome_iff_exists.1 hx
    simp only [SliceItem.readSlice_cloneOnto_eq x items hi t, ReadSlice.intoOwned, hi, Option.getD_some,
      SliceItem.cloneOnto_eq BaseItem.intoOwned BaseItem.cloneOnto (fun _ _ => rfl), SliceItem.intoOwned,
      SliceItem.map_base_intoOwned]
  intoOwned_borrowAs _ := rfl

theorem ReadSliceOK.ops_eq {R Oc V I : Type} [Region R V I] [IdxCont Oc I] (x : ReadSliceOK R Oc V) (t : List V) :
    x.1.intoOwned = some (ItemLaws.intoOwned x) ∧ x.1.cloneOnto t = some (ItemLaws.cloneOnto x t) := by
  obtain ⟨x, hx⟩ := x
  obtain ⟨items, hi⟩ := Option.isSome_iff_exists.1 hx
  have h1 : x.intoOwned = some items := hi
  have h3 : x.cloneOnto t = some (SliceItem.cloneOnto BaseItem.intoOwned BaseItem.cloneOnto items t) :=
    SliceItem.readSlice_cloneOnto_eq x items hi t
  simp only [ItemLaws.intoOwned, ItemLaws.cloneOnto, h1, h3, Option.getD_some, and_self]

/-! ### the item a Huffman container issues -/
namespace Huff.Container

/-- indexing is: build the item, decode it (including the panics) -/
theorem item?_decode (h : Container) (i : Nat × Nat) : (h.item? i).bind Wrapped.decode = h.index i := by
  rcases hcd : h.coded with _ | ⟨c, bytes, bits⟩
  · simp only [item?, Container.index, hcd]
    split <;> rfl
  · simp only [item?, Container.index, hcd, Option.bind_some, Wrapped.decode]

theorem item?_eq_item (h : Container) (i : Nat × Nat) (hv : h.Valid i) : h.item? i = some (h.item i) := by
  rcases hcd : h.coded with _ | ⟨c, bytes, bits⟩
  · have := (Container.valid_raw hcd i).1 hv
    simp only [item?, item, hcd, this, and_self, if_true]
  · simp only [item?, item, hcd]

theorem item_decode (h : Container) (i : Nat × Nat) (hv : h.Valid i) : (h.item i).decode = h.index i := by
  rw [← item?_decode, item?_eq_item h i hv, Option.bind_some]

end Huff.Container

/-! ### Concrete containers used by the `example`s of C14b / C15b (satisfiability of hypotheses) -/
namespace ItemsEx2
open Huff

/-- raw mode, after `push [1, 2, 2]; push [3, 2, 2]` on the default container -/
def rawC : Container := ⟨none, [1, 2, 2, 3, 2, 2], [(1, 1), (2, 4), (3, 1)]⟩
theorem rawC_push : (push (Region.default : Container) [1, 2, 2]).bind (fun p => push p.1 [3, 2, 2]) =
    some (rawC, (3, 6)) := rfl
theorem rawC_inv : Inv rawC := Container.inv_raw rfl
theorem rawC_valid (i : Nat × Nat) (h : i.1 ≤ i.2 ∧ i.2 ≤ 6) : Valid rawC i :=
  (Container.valid_raw (h := rawC) rfl i).2 h

/-- the code `merge_regions` builds from the statistics of `rawC`: `2 ↦ 0`, `3 ↦ 10`, `1 ↦ 11` -/
def codeC : Code := createFrom [(1, 1), (2, 4), (3, 1)]
theorem codeC_merge : (Container.merge [rawC]).coded = some (codeC, [], 0) := rfl
theorem codeC_ok : EncOK codeC ∧ TableOK codeC :=
  ⟨encOK_of_forall _ (by decide), createFrom_tableOK _ (by decide) (by decide)⟩

/-- coded mode: the store after `push [2, 2]; push [1, 2, 2]` on the merged container
(bits `00 11 0 0`, i.e. the byte `0b00110000`) -/
def codedC : Container := ⟨some (codeC, [48], 6), [], [(1, 1), (2, 4)]⟩
theorem codedC_inv : Inv codedC :=
  (Container.inv_coded (h := codedC) rfl).2 ⟨codeC_ok.1, codeC_ok.2, by unfold WFStore; decide⟩
theorem codedC_valid₁ : Valid codedC (0, 2) :=
  (Container.valid_coded (h := codedC) rfl _).2 ⟨[2, 2], by decide, by decide⟩
theorem codedC_valid₂ : Valid codedC (2, 6) :=
  (Container.valid_coded (h := codedC) rfl _).2 ⟨[1, 2, 2], by decide, by decide⟩
theorem codedC_index₁ : index codedC (0, 2) = some [2, 2] :=
  C06.index_of_denotes codedC codeC [48] 6 (0, 2) [2, 2] rfl codeC_ok.2 (by unfold WFStore; decide)
    ⟨by decide, by decide⟩
theorem codedC_index₂ : index codedC (2, 6) = some [1, 2, 2] :=
  C06.index_of_denotes codedC codeC [48] 6 (2, 6) [1, 2, 2] rfl codeC_ok.2 (by unfold WFStore; decide)
    ⟨by decide, by decide⟩

/-- another code (`1 ↦ 0`, `2 ↦ 10`, `3 ↦ 11`) and the store after `push [1, 2, 2]; push [2, 2]`
(bits `0 10 10 10 10`, bytes `0b01010101 0b0…`) -/
def codeD : Code := createFrom [(1, 3), (2, 1), (3, 2)]
theorem codeD_ok : EncOK codeD ∧ TableOK codeD :=
  ⟨encOK_of_forall _ (by decide), createFrom_tableOK _ (by decide) (by decide)⟩
def codedD : Container := ⟨some (codeD, [85, 0], 9), [], [(1, 1), (2, 4)]⟩
theorem codedD_inv : Inv codedD :=
  (Container.inv_coded (h := codedD) rfl).2 ⟨codeD_ok.1, codeD_ok.2, by unfold WFStore; decide⟩
theorem codedD_valid₁ : Valid codedD (0, 5) :=
  (Container.valid_coded (h := codedD) rfl _).2 ⟨[1, 2, 2], by decide, by decide⟩
theorem codedD_valid₂ : Valid codedD (5, 9) :=
  (Container.valid_coded (h := codedD) rfl _).2 ⟨[2, 2], by decide, by decide⟩
theorem codedD_index₁ : index codedD (0, 5) = some [1, 2, 2] :=
  C06.index_of_denotes codedD codeD [85, 0] 9 (0, 5) [1, 2, 2] rfl codeD_ok.2 (by unfold WFStore; decide)
    ⟨by decide, by decide⟩
theorem codedD_index₂ : index codedD (5, 9) = some [2, 2] :=
  C06.index_of_denotes codedD codeD [85, 0] 9 (5, 9) [2, 2] rfl codeD_ok.2 (by unfold WFStore; decide)
    ⟨by decide, by decide⟩

end ItemsEx2

end FC
