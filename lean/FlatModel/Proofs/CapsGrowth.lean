import FlatModel.Proofs.Caps
/-! Amortised growth (C17, second half): whenever a capacity changes it at least doubles, so it
changes at most `log2 (final capacity) + 1` times. Also: `clear` keeps every allocation, and
`lens ≤ caps` is an invariant. Only `grow_ge_need`, `grow_ge_cap`, `grow_ge_double` are used. -/
set_option linter.unusedSectionVars false
namespace FC
open Region

/-! ### one capacity -/

/-- a capacity stays, or at least doubles (and is non-zero afterwards) -/
def cstep (a b : Nat) : Prop := b = a ∨ (2 * a ≤ b ∧ 1 ≤ b)

theorem cstep_refl (a : Nat) : cstep a a := Or.inl rfl
theorem cstep_trans {a b c : Nat} (h1 : cstep a b) (h2 : cstep b c) : cstep a c := by
  unfold cstep at *; omega
theorem cstep_le {a b : Nat} (h : cstep a b) : a ≤ b := by unfold cstep at h; omega

theorem cstep_if (l m k : Nat) : cstep k (if l + m ≤ k then k else grow k (l + m)) := by
  split
  · exact cstep_refl k
  · have h1 := grow_ge_double k (l + m)
    have h2 := grow_ge_need k (l + m)
    exact Or.inr ⟨h1, by omega⟩

theorem reserve_cap_step {α : Type} (v : MVec α) (k : Nat) : cstep v.cap (v.reserve k).cap := by
  have h := cstep_if v.data.length k v.cap
  unfold MVec.reserve
  split <;> simp_all

/-- number of changes along a sequence of successive capacities, starting from `c` -/
def changes : Nat → List Nat → Nat
  | _, [] => 0
  | c, d :: ds => (if d = c then 0 else 1) + changes d ds

/-- every step of the sequence is a `cstep` -/
def Chain : Nat → List Nat → Prop
  | _, [] => True
  | c, d :: ds => cstep c d ∧ Chain d ds

theorem changes_pow (c : Nat) (ds : List Nat) (h : Chain c ds) :
    2 ^ changes c ds * max (2 * c) 1 ≤ max (2 * ds.getLastD c) 1 := by
  induction ds generalizing c with
  | nil => simp [changes]
  | cons d ds ih =>
    obtain ⟨h1, h2⟩ := h
    have ih' := ih d h2
    have hl : (d :: ds).getLastD c = ds.getLastD d := by
      cases ds <;> simp [List.getLastD]
    rw [hl]
    simp only [changes]
    by_cases hd : d = c
    · subst hd; simpa using ih'
    · simp only [hd, if_false]
      have hs : 2 * c ≤ d ∧ 1 ≤ d := by unfold cstep at h1; omega
      have hm : 2 * max (2 * c) 1 ≤ max (2 * d) 1 := by omega
      calc 2 ^ (1 + changes d ds) * max (2 * c) 1
          = 2 ^ changes d ds * (2 * max (2 * c) 1) := by rw [Nat.pow_add, Nat.pow_one]; ac_rfl
        _ ≤ 2 ^ changes d ds * max (2 * d) 1 := Nat.mul_le_mul_left _ hm
        _ ≤ _ := ih'

/-- **amortised doubling**: along any sequence of capacities in which every change at least
doubles, the number of changes is at most `log2 (final capacity) + 1` -/
theorem changes_log (c : Nat) (ds : List Nat) (h : Chain c ds) :
    changes c ds ≤ Nat.log2 (ds.getLastD c) + 1 := by
  have hp := changes_pow c ds h
  generalize changes c ds = k at *
  generalize ds.getLastD c = f at *
  cases k with
  | zero => omega
  | succ k =>
    have h1 : 1 ≤ max (2 * c) 1 := by omega
    have h2 : 2 ^ (k + 1) ≤ max (2 * f) 1 := Nat.le_trans (by simpa using Nat.mul_le_mul_left (2 ^ (k + 1)) h1) hp
    have h3 : 2 ≤ 2 ^ (k + 1) := by
      rw [Nat.pow_succ]; have := Nat.two_pow_pos k; omega
    have hf : f ≠ 0 := by omega
    have h4 : 2 ^ k ≤ f := by rw [Nat.pow_succ] at h2; omega
    have := (Nat.le_log2 hf).mpr h4
    omega

/-! ### a single `Vec` (finest granularity: one `reserve` per step) -/
namespace MVec
variable {α : Type}
/-- capacities after each of a sequence of `extend`s (`push x` is `extend [x]`) -/
def capTrace (v : MVec α) : List (List α) → List Nat
  | [] => []
  | xs :: xss => (v.extend xs).cap :: capTrace (v.extend xs) xss

theorem push_eq_extend (v : MVec α) (x : α) : v.push x = v.extend [x] := rfl

theorem capTrace_chain (v : MVec α) (xss : List (List α)) : Chain v.cap (v.capTrace xss) := by
  induction xss generalizing v with
  | nil => trivial
  | cons xs xss ih => exact ⟨reserve_cap_step v xs.length, ih (v.extend xs)⟩

theorem capTrace_last (v : MVec α) (xss : List (List α)) :
    (v.capTrace xss).getLastD v.cap = (xss.foldl MVec.extend v).cap := by
  induction xss generalizing v with
  | nil => rfl
  | cons xs xss ih =>
    simp only [capTrace, List.foldl_cons]
    rw [← ih (v.extend xs)]
    cases capTrace (v.extend xs) xss <;> simp [List.getLastD]
end MVec

/-- `log_growth` for one vector: any sequence of `push`/`extend` operations reallocates (changes the
capacity) at most `log2 (final capacity) + 1` times, from any starting state -/
theorem log_growth_mvec {α : Type} (v : MVec α) (xss : List (List α)) :
    changes v.cap (v.capTrace xss) ≤ Nat.log2 (xss.foldl MVec.extend v).cap + 1 := by
  rw [← MVec.capTrace_last]
  exact changes_log _ _ (MVec.capTrace_chain v xss)

/-! ### vectors of capacities -/

def vstep : List Nat → List Nat → Prop
  | [], [] => True
  | a :: as, b :: bs => cstep a b ∧ vstep as bs
  | _, _ => False

@[simp] theorem vstep_nil : vstep [] [] = True := rfl
@[simp] theorem vstep_cons (a b : Nat) (as bs : List Nat) : vstep (a :: as) (b :: bs) = (cstep a b ∧ vstep as bs) := rfl
@[simp] theorem vstep_nil_cons (b : Nat) (bs : List Nat) : vstep [] (b :: bs) = False := rfl
@[simp] theorem vstep_cons_nil (a : Nat) (as : List Nat) : vstep (a :: as) [] = False := rfl

theorem vstep_refl (a : List Nat) : vstep a a := by
  induction a with
  | nil => trivial
  | cons x a ih => exact ⟨cstep_refl x, ih⟩

theorem vstep_of_eq {a b : List Nat} (h : b = a) : vstep a b := h ▸ vstep_refl a

theorem vstep_trans {a b c : List Nat} (h1 : vstep a b) (h2 : vstep b c) : vstep a c := by
  induction a generalizing b c with
  | nil => cases b <;> cases c <;> simp_all
  | cons x a ih =>
    cases b with
    | nil => simp at h1
    | cons y b =>
      cases c with
      | nil => simp at h2
      | cons z c =>
        simp only [vstep_cons] at *
        exact ⟨cstep_trans h1.1 h2.1, ih h1.2 h2.2⟩

theorem vstep_append {a b c d : List Nat} (h1 : vstep a b) (h2 : vstep c d) : vstep (a ++ c) (b ++ d) := by
  induction a generalizing b with
  | nil => cases b with
    | nil => simpa using h2
    | cons y b => simp at h1
  | cons x a ih =>
    cases b with
    | nil => simp at h1
    | cons y b =>
      simp only [vstep_cons, List.cons_append] at *
      exact ⟨h1.1, ih h1.2⟩

theorem vstep_getD {a b : List Nat} (h : vstep a b) (j : Nat) : cstep (a.getD j 0) (b.getD j 0) := by
  induction a generalizing b j with
  | nil => cases b with
    | nil => exact cstep_refl _
    | cons y b => simp at h
  | cons x a ih =>
    cases b with
    | nil => simp at h
    | cons y b =>
      simp only [vstep_cons] at h
      cases j with
      | zero => simpa using h.1
      | succ j => simpa using ih h.2 j

theorem vle_zeros {a : List Nat} {n : Nat} (h : a.length = n) : vle (zeros n) a := by
  induction a generalizing n with
  | nil => subst h; trivial
  | cons x a ih => subst h; exact ⟨Nat.zero_le x, ih rfl⟩

/-! ### the laws -/

open Sized in
/-- growth is amortised, `lens ≤ caps` is kept, `clear` keeps the allocations -/
class LawfulGrowth (R : Type) {V I : outParam Type} [Region R V I] [RegionAux R] [Sized R] : Prop where
  /-- a push leaves each capacity alone or at least doubles it -/
  push_step : ∀ (r r' : R) (v : V) (i : I), CInv r → push r v = some (r', i) → vstep (caps r) (caps r')
  push_wf : ∀ (r r' : R) (v : V) (i : I), CInv r → vle (lens r) (caps r) → push r v = some (r', i) →
    vle (lens r') (caps r')
  clear_lens : ∀ r : R, lens (clear r) = zeros (n R)
  clear_caps : ∀ r : R, caps (clear r) = caps r
  clear_cinv : ∀ r : R, CInv r → CInv (clear r)

section Generic
variable {R V I : Type} [Region R V I] [RegionAux R] [Sized R] [L : LawfulSized R] [G : LawfulGrowth R]
open Sized C08

theorem runPushes_step (r r' : R) (vs : List V) (hc : CInv r) (h : runPushes r vs = some r') :
    vstep (caps r) (caps r') := by
  induction vs generalizing r with
  | nil => simp only [runPushes, Option.some.injEq] at h; subst h; exact vstep_refl _
  | cons v vs ih =>
    simp only [runPushes] at h
    cases hp : push r v with
    | none => simp [hp] at h
    | some p =>
      obtain ⟨r1, i⟩ := p
      simp only [hp] at h
      exact vstep_trans (G.push_step r r1 v i hc hp) (ih r1 (L.push_cinv r r1 v i hc hp) h)

theorem runPushes_wf (r r' : R) (vs : List V) (hc : CInv r) (hw : vle (lens r) (caps r))
    (h : runPushes r vs = some r') : vle (lens r') (caps r') := by
  induction vs generalizing r with
  | nil => simp only [runPushes, Option.some.injEq] at h; subst h; exact hw
  | cons v vs ih =>
    simp only [runPushes] at h
    cases hp : push r v with
    | none => simp [hp] at h
    | some p =>
      obtain ⟨r1, i⟩ := p
      simp only [hp] at h
      exact ih r1 (L.push_cinv r r1 v i hc hp) (G.push_wf r r1 v i hc hw hp) h

/-- capacities after each push of a batch -/
def capsTrace (r : R) : List V → List (List Nat)
  | [] => []
  | v :: vs => match push r v with | none => [] | some (r', _) => caps r' :: capsTrace r' vs

theorem capsTrace_chain (r r' : R) (vs : List V) (hc : CInv r) (h : runPushes r vs = some r') (j : Nat) :
    Chain ((caps r).getD j 0) ((capsTrace r vs).map (·.getD j 0)) ∧
      ((capsTrace r vs).map (·.getD j 0)).getLastD ((caps r).getD j 0) = (caps r').getD j 0 := by
  induction vs generalizing r with
  | nil => simp only [runPushes, Option.some.injEq] at h; subst h; exact ⟨trivial, rfl⟩
  | cons v vs ih =>
    simp only [runPushes] at h
    cases hp : push r v with
    | none => simp [hp] at h
    | some p =>
      obtain ⟨r1, i⟩ := p
      simp only [hp] at h
      obtain ⟨h1, h2⟩ := ih r1 (L.push_cinv r r1 v i hc hp) h
      simp only [capsTrace, hp, List.map_cons]
      refine ⟨⟨vstep_getD (G.push_step r r1 v i hc hp) j, h1⟩, ?_⟩
      rw [← h2]
      cases (capsTrace r1 vs).map (·.getD j 0) <;> simp [List.getLastD]
end Generic

/-! ### instances -/

instance (T : Type) : LawfulGrowth (MirrorRegion T) where
  push_step _ _ _ _ _ _ := trivial
  push_wf _ _ _ _ _ _ _ := trivial
  clear_lens _ := rfl
  clear_caps _ := rfl
  clear_cinv _ _ := trivial

instance (T : Type) [ElemSize T] : LawfulGrowth (OwnedRegion T) where
  push_step r r' v i _ hp := by
    simp only [Region.push, Option.some.injEq, Prod.mk.injEq] at hp
    obtain ⟨rfl, _⟩ := hp
    exact ⟨reserve_cap_step _ _, trivial⟩
  push_wf r r' v i _ _ hp := by
    simp only [Region.push, Option.some.injEq, Prod.mk.injEq] at hp
    obtain ⟨rfl, _⟩ := hp
    simp only [Sized.lens, Sized.caps, MVec.extend_data, List.length_append, extend_cap, vle_cons, vle_nil, and_true]
    exact reserve_cap_room _ _
  clear_lens _ := rfl
  clear_caps _ := rfl
  clear_cinv _ _ := trivial

instance (T : Type) [ElemSize T] : LawfulGrowth (VecRegion T) where
  push_step r r' v i _ hp := by
    simp only [Region.push, Option.some.injEq, Prod.mk.injEq] at hp
    obtain ⟨rfl, _⟩ := hp
    exact ⟨reserve_cap_step _ _, trivial⟩
  push_wf r r' v i _ _ hp := by
    simp only [Region.push, Option.some.injEq, Prod.mk.injEq] at hp
    obtain ⟨rfl, _⟩ := hp
    simp only [Sized.lens, Sized.caps, MVec.push_data, List.length_append, push_cap, vle_cons, vle_nil, and_true,
      List.length_singleton]
    exact reserve_cap_room _ _
  clear_lens _ := rfl
  clear_caps _ := rfl
  clear_cinv _ _ := trivial

instance {R I : Type} [Region R (List UInt8) I] [RegionAux R] [Sized R] [G : LawfulGrowth R] :
    LawfulGrowth (StringRegion R) where
  push_step r r' v i hc hp := G.push_step r.inner r'.inner v i hc (sized_string_push r r' v i hp)
  push_wf r r' v i hc hw hp := G.push_wf r.inner r'.inner v i hc hw (sized_string_push r r' v i hp)
  clear_lens r := G.clear_lens r.inner
  clear_caps r := G.clear_caps r.inner
  clear_cinv r hc := G.clear_cinv r.inner hc

instance {R V I : Type} [Region R V I] [RegionAux R] [Sized R] [G : LawfulGrowth R] :
    LawfulGrowth (OptionRegion R) where
  push_step r r' v i hc hp := by
    cases v with
    | none => rw [sized_option_push_none r r' i hp]; exact vstep_refl _
    | some x =>
      obtain ⟨j, hj⟩ := sized_option_push_some r r' x i hp
      exact G.push_step r.inner r'.inner x j hc hj
  push_wf r r' v i hc hw hp := by
    cases v with
    | none => rw [sized_option_push_none r r' i hp]; exact hw
    | some x =>
      obtain ⟨j, hj⟩ := sized_option_push_some r r' x i hp
      exact G.push_wf r.inner r'.inner x j hc hw hj
  clear_lens r := G.clear_lens r.inner
  clear_caps r := G.clear_caps r.inner
  clear_cinv r hc := G.clear_cinv r.inner hc

section Res
variable {T VT IT E VE IE : Type} [Region T VT IT] [Region E VE IE] [RegionAux T] [RegionAux E] [Sized T] [Sized E]

instance [LT : LawfulSized T] [LawfulSized E] [GT : LawfulGrowth T] [GE : LawfulGrowth E] :
    LawfulGrowth (ResultRegion T E) where
  push_step r r' v i hc hp := by
    cases v with
    | ok x =>
      obtain ⟨j, hj, he⟩ := sized_result_push_ok r r' x i hp
      exact vstep_append (GT.push_step r.oks r'.oks x j hc.1 hj) (he ▸ vstep_refl _)
    | error x =>
      obtain ⟨j, hj, he⟩ := sized_result_push_error r r' x i hp
      exact vstep_append (he ▸ vstep_refl _) (GE.push_step r.errs r'.errs x j hc.2 hj)
  push_wf r r' v i hc hw hp := by
    have hw' : vle (Sized.lens r.oks ++ Sized.lens r.errs) (Sized.caps r.oks ++ Sized.caps r.errs) := hw
    rw [vle_append_iff ((LT.len_lens _).trans (LT.len_caps _).symm)] at hw'
    cases v with
    | ok x =>
      obtain ⟨j, hj, he⟩ := sized_result_push_ok r r' x i hp
      exact vle_append (GT.push_wf r.oks r'.oks x j hc.1 hw'.1 hj) (he ▸ hw'.2)
    | error x =>
      obtain ⟨j, hj, he⟩ := sized_result_push_error r r' x i hp
      exact vle_append (he ▸ hw'.1) (GE.push_wf r.errs r'.errs x j hc.2 hw'.2 hj)
  clear_lens r := by
    show Sized.lens (clear r.oks) ++ Sized.lens (clear r.errs) = _
    rw [GT.clear_lens, GE.clear_lens]; exact (zeros_add _ _).symm
  clear_caps r := by
    show Sized.caps (clear r.oks) ++ Sized.caps (clear r.errs) = _
    rw [GT.clear_caps, GE.clear_caps]; rfl
  clear_cinv r hc := ⟨GT.clear_cinv r.oks hc.1, GE.clear_cinv r.errs hc.2⟩
end Res

instance : LawfulGrowth TupleNil where
  push_step _ _ _ _ _ _ := trivial
  push_wf _ _ _ _ _ _ _ := trivial
  clear_lens _ := rfl
  clear_caps _ := rfl
  clear_cinv _ _ := trivial

section Tup
variable {A VA IA B VB IB : Type} [Region A VA IA] [Region B VB IB] [RegionAux A] [RegionAux B] [Sized A] [Sized B]

instance [LA : LawfulSized A] [LawfulSized B] [GA : LawfulGrowth A] [GB : LawfulGrowth B] :
    LawfulGrowth (TupleCons A B) where
  push_step r r' v i hc hp := by
    obtain ⟨h1, h2⟩ := sized_tuple_push r r' v i hp
    exact vstep_append (GA.push_step _ _ _ _ hc.1 h1) (GB.push_step _ _ _ _ hc.2 h2)
  push_wf r r' v i hc hw hp := by
    have hw' : vle (Sized.lens r.head ++ Sized.lens r.tail) (Sized.caps r.head ++ Sized.caps r.tail) := hw
    rw [vle_append_iff ((LA.len_lens _).trans (LA.len_caps _).symm)] at hw'
    obtain ⟨h1, h2⟩ := sized_tuple_push r r' v i hp
    exact vle_append (GA.push_wf _ _ _ _ hc.1 hw'.1 h1) (GB.push_wf _ _ _ _ hc.2 hw'.2 h2)
  clear_lens r := by
    show Sized.lens (clear r.head) ++ Sized.lens (clear r.tail) = _
    rw [GA.clear_lens, GB.clear_lens]; exact (zeros_add _ _).symm
  clear_caps r := by
    show Sized.caps (clear r.head) ++ Sized.caps (clear r.tail) = _
    rw [GA.clear_caps, GB.clear_caps]; rfl
  clear_cinv r hc := ⟨GA.clear_cinv r.head hc.1, GB.clear_cinv r.tail hc.2⟩
end Tup

section Slice
variable {R V I : Type} {sz : Nat} [Region R V I] [RegionAux R] [Sized R]
open C08

theorem pushAll_growth (inner : R) (c : Capd (VecIdx I sz)) (vs : List V) (inner' : R) (c' : Capd (VecIdx I sz))
    (k : Nat) (hk : c.caps = [k]) (h : pushAll inner c vs = some (inner', c')) :
    ∃ k', c'.caps = [k'] ∧ cstep k k' ∧ (c.a.v.length ≤ k → c'.a.v.length ≤ k') := by
  induction vs generalizing inner c k with
  | nil =>
    simp only [pushAll, Option.some.injEq, Prod.mk.injEq] at h
    obtain ⟨rfl, rfl⟩ := h
    exact ⟨k, hk, cstep_refl _, fun h => h⟩
  | cons v vs ih =>
    simp only [pushAll] at h
    cases hp : push inner v with
    | none => simp [hp] at h
    | some p =>
      obtain ⟨in1, i⟩ := p
      simp only [hp] at h
      obtain ⟨k', h3, h4, h5⟩ := ih in1 (IdxCont.push c i) _ (capd_push_caps c i k hk) h
      refine ⟨k', h3, cstep_trans (cstep_if _ _ _) h4, fun _ => h5 ?_⟩
      rw [capd_push_len]
      exact reserve_room_if _ _ _

instance [L : LawfulSized R] [G : LawfulGrowth R] : LawfulGrowth (SliceRegion R (Capd (VecIdx I sz))) where
  push_step r r' v i hc hp := by
    obtain ⟨⟨k, hk⟩, hci⟩ := hc
    obtain ⟨hpa, _⟩ := slice_push_some r r' v i hp
    obtain ⟨hrun, _⟩ := pushAll_run r.inner r.slices v r'.inner r'.slices hpa
    obtain ⟨k', hk', hs, _⟩ := pushAll_growth r.inner r.slices v r'.inner r'.slices k hk hpa
    show vstep (r.slices.caps.headD 0 :: Sized.caps r.inner) (r'.slices.caps.headD 0 :: Sized.caps r'.inner)
    rw [hk, hk']
    exact ⟨hs, runPushes_step r.inner r'.inner v hci hrun⟩
  push_wf r r' v i hc hw hp := by
    obtain ⟨⟨k, hk⟩, hci⟩ := hc
    obtain ⟨hpa, _⟩ := slice_push_some r r' v i hp
    obtain ⟨hrun, _⟩ := pushAll_run r.inner r.slices v r'.inner r'.slices hpa
    obtain ⟨k', hk', _, hl⟩ := pushAll_growth r.inner r.slices v r'.inner r'.slices k hk hpa
    have hw' : vle (r.slices.a.v.length :: Sized.lens r.inner) (r.slices.caps.headD 0 :: Sized.caps r.inner) := hw
    rw [hk] at hw'
    show vle (r'.slices.a.v.length :: Sized.lens r'.inner) (r'.slices.caps.headD 0 :: Sized.caps r'.inner)
    rw [hk']
    exact ⟨hl hw'.1, runPushes_wf r.inner r'.inner v hci hw'.2 hrun⟩
  clear_lens r := by
    show 0 :: Sized.lens (clear r.inner) = _
    rw [G.clear_lens]; rfl
  clear_caps r := by
    show r.slices.caps.headD 0 :: Sized.caps (clear r.inner) = _
    rw [G.clear_caps]; rfl
  clear_cinv r hc := ⟨hc.1, G.clear_cinv r.inner hc.2⟩
end Slice

section Stack
variable {R V I : Type} {sz : Nat} [Region R V I] [RegionAux R] [Sized R]

instance [L : LawfulSized R] [G : LawfulGrowth R] : LawfulGrowth (FlatStack R (Capd (VecIdx I sz))) where
  push_step fs fs' v j hc hp := by
    obtain ⟨i, h1, h2⟩ := sized_stack_push fs fs' v j hp
    obtain ⟨hcr, k, hk⟩ := hc
    refine vstep_append (G.push_step _ _ _ _ hcr h1) ?_
    rw [h2, capd_push_caps fs.indices i k hk, hk]
    exact ⟨cstep_if _ _ _, trivial⟩
  push_wf fs fs' v j hc hw hp := by
    obtain ⟨i, h1, h2⟩ := sized_stack_push fs fs' v j hp
    obtain ⟨hcr, k, hk⟩ := hc
    have hw' : vle (Sized.lens fs.region ++ [fs.indices.a.v.length]) (Sized.caps fs.region ++ [fs.indices.caps.headD 0]) := hw
    rw [vle_append_iff ((L.len_lens _).trans (L.len_caps _).symm)] at hw'
    refine vle_append (G.push_wf _ _ _ _ hcr hw'.1 h1) ?_
    rw [h2, capd_push_caps fs.indices i k hk, capd_push_len]
    exact ⟨reserve_room_if _ _ _, trivial⟩
  clear_lens fs := by
    show Sized.lens (clear fs.region) ++ [0] = _
    rw [G.clear_lens]; exact (zeros_add _ 1).symm
  clear_caps fs := by
    show Sized.caps (clear fs.region) ++ [fs.indices.caps.headD 0] = _
    rw [G.clear_caps]; rfl
  clear_cinv fs hc := ⟨G.clear_cinv fs.region hc.1, hc.2⟩
end Stack

end FC
