import FlatModel.Model.Columns
import FlatModel.Proofs.Consec
import FlatModel.Proofs.Slice
/-! Laws of `ColumnsRegion` (C01/C02/C08 core, C12). -/
namespace FC
open Region

section
variable {R V I : Type} [Region R V I] [LawfulRegion R]

theorem pushRow_spec (cs : List R) (vs : List V) (cs' : List R) (is : List I)
    (hi : ∀ c ∈ cs, Inv c) (hp : pushRow cs vs = some (cs', is)) :
    cs'.length = cs.length ∧ is.length = vs.length ∧ (∀ c ∈ cs', Inv c) ∧ RowValid cs' is ∧
    (∃ us, readRow cs' is = some us ∧ listRel (same (R := R)) us vs) ∧
    (∀ js, RowValid cs js → RowValid cs' js ∧ readRow cs' js = readRow cs js) := by
  induction vs generalizing cs cs' is with
  | nil =>
    simp only [pushRow_nil, Option.some.injEq, Prod.mk.injEq] at hp
    obtain ⟨rfl, rfl⟩ := hp
    exact ⟨rfl, rfl, hi, by simp, ⟨[], by simp, trivial⟩, fun js h => ⟨h, rfl⟩⟩
  | cons v vs ih =>
    cases cs with
    | nil => simp [pushRow] at hp
    | cons c cs =>
      simp only [pushRow] at hp
      cases hpc : push c v with
      | none => simp [hpc] at hp
      | some p =>
        obtain ⟨c', i⟩ := p
        cases hpr : pushRow cs vs with
        | none => simp [hpc, hpr] at hp
        | some q =>
          obtain ⟨cs1, is1⟩ := q
          simp only [hpc, hpr, Option.some.injEq, Prod.mk.injEq] at hp
          obtain ⟨rfl, rfl⟩ := hp
          have hic : Inv c := hi c (by simp)
          have hacc := accepts_of_push_some c c' v i hic hpc
          obtain ⟨c'', i', hpc', u, hru, hsu⟩ := LawfulRegion.push_ok c v hic hacc
          rw [hpc] at hpc'
          simp only [Option.some.injEq, Prod.mk.injEq] at hpc'
          obtain ⟨rfl, rfl⟩ := hpc'
          obtain ⟨hic', hvc'⟩ := LawfulRegion.push_inv c c' v i hic hpc
          obtain ⟨h1, h2, h3, h4, ⟨us, h5, h6⟩, h7⟩ := ih cs cs1 is1 (fun x hx => hi x (by simp [hx])) hpr
          refine ⟨by simp [h1], by simp [h2], ?_, ⟨hvc', h4⟩, ⟨u :: us, by simp [readRow, hru, h5], hsu, h6⟩, ?_⟩
          · intro x hx
            simp only [List.mem_cons] at hx
            rcases hx with rfl | hx
            · exact hic'
            · exact h3 x hx
          · intro js hjs
            cases js with
            | nil => exact ⟨by simp, by simp⟩
            | cons j js =>
              obtain ⟨hvj, hrest⟩ := hjs
              obtain ⟨f1, f2⟩ := LawfulRegion.frame c c' v i j hic hvj hpc
              obtain ⟨g1, g2⟩ := h7 js hrest
              exact ⟨⟨f1, g1⟩, by simp only [readRow, f2, g2]⟩

theorem pushRow_total (cs : List R) (vs : List V) (hi : ∀ c ∈ cs, Inv c) (ha : AcceptsRow cs vs) :
    ∃ p, pushRow cs vs = some p := by
  induction vs generalizing cs with
  | nil => exact ⟨_, pushRow_nil cs⟩
  | cons v vs ih =>
    cases cs with
    | nil => exact absurd ha (by simp [AcceptsRow])
    | cons c cs =>
      obtain ⟨ha1, ha2⟩ := ha
      obtain ⟨c', i, hpc, _⟩ := LawfulRegion.push_ok c v (hi c (by simp)) ha1
      obtain ⟨⟨cs1, is1⟩, hp⟩ := ih cs (fun x hx => hi x (by simp [hx])) ha2
      exact ⟨(c' :: cs1, i :: is1), by simp [pushRow, hpc, hp]⟩

theorem pushRow_refuses (cs : List R) (vs : List V) (hi : ∀ c ∈ cs, Inv c) (hna : ¬ AcceptsRow cs vs) :
    pushRow cs vs = none := by
  induction vs generalizing cs with
  | nil => exact absurd (by simp) hna
  | cons v vs ih =>
    cases cs with
    | nil => rfl
    | cons c cs =>
      simp only [pushRow]
      cases hpc : push c v with
      | none => rfl
      | some p =>
        obtain ⟨c', i⟩ := p
        have hacc := accepts_of_push_some c c' v i (hi c (by simp)) hpc
        have : ¬ AcceptsRow cs vs := fun h => hna ⟨hacc, h⟩
        simp [ih cs (fun x hx => hi x (by simp [hx])) this]

omit [LawfulRegion R] in
theorem rowValid_append (cs extra : List R) (js : List I) (h : RowValid cs js) :
    RowValid (cs ++ extra) js ∧ readRow (cs ++ extra) js = readRow cs js := by
  induction js generalizing cs with
  | nil => exact ⟨by simp, by simp⟩
  | cons j js ih =>
    cases cs with
    | nil => exact absurd h (by simp [RowValid])
    | cons c cs =>
      obtain ⟨h1, h2⟩ := h
      obtain ⟨g1, g2⟩ := ih cs h2
      exact ⟨⟨h1, g1⟩, by simp only [List.cons_append, readRow, g2]⟩

theorem padCols_inv (cs : List R) (n : Nat) (hi : ∀ c ∈ cs, Inv c) : ∀ c ∈ padCols cs n, Inv c := by
  intro c hc
  simp only [padCols, List.mem_append, List.mem_replicate] at hc
  rcases hc with hc | ⟨_, rfl⟩
  · exact hi c hc
  · exact LawfulRegion.inv_default

omit [LawfulRegion R] in
theorem padCols_getD (cs : List R) (n k : Nat) :
    (padCols cs n).getD k (Region.default : R) = cs.getD k (Region.default : R) := by
  simp only [padCols, List.getD_eq_getElem?_getD]
  rcases Nat.lt_or_ge k cs.length with h | h
  · rw [List.getElem?_append_left h]
  · rw [List.getElem?_append_right h, List.getElem?_eq_none (l := cs) h]
    simp only [List.getElem?_replicate]
    split <;> rfl

omit [LawfulRegion R] in
theorem padCols_length (cs : List R) (n : Nat) : n ≤ (padCols cs n).length := by
  simp [padCols]; omega

theorem readRow_some_of_valid (cs : List R) (is : List I) (hi : ∀ c ∈ cs, Inv c) (h : RowValid cs is) :
    ∃ us, readRow cs is = some us := by
  induction is generalizing cs with
  | nil => exact ⟨[], by simp⟩
  | cons i is ih =>
    cases cs with
    | nil => exact absurd h (by simp [RowValid])
    | cons c cs =>
      obtain ⟨h1, h2⟩ := h
      obtain ⟨u, hu⟩ := LawfulRegion.valid_reads c i (hi c (by simp)) h1
      obtain ⟨us, hus⟩ := ih cs (fun x hx => hi x (by simp [hx])) h2
      exact ⟨u :: us, by simp [readRow, hu, hus]⟩

/-- pushing the same row into column lists that are pointwise `Sim` -/
theorem pushRow_sim (as bs : List R) (vs : List V) (hla : vs.length ≤ as.length) (hlb : vs.length ≤ bs.length)
    (hs : ColsSim as bs) (hia : ∀ c ∈ as, Inv c) (hib : ∀ c ∈ bs, Inv c) :
    (pushRow as vs = none ∧ pushRow bs vs = none) ∨
    ∃ as' bs' is, pushRow as vs = some (as', is) ∧ pushRow bs vs = some (bs', is) ∧ ColsSim as' bs' := by
  induction vs generalizing as bs with
  | nil => exact Or.inr ⟨as, bs, [], by simp, by simp, hs⟩
  | cons v vs ih =>
    cases as with
    | nil => simp at hla
    | cons a as =>
      cases bs with
      | nil => simp at hlb
      | cons b bs =>
        have h0 : Sim a b := by simpa using hs 0
        have hrest : ColsSim as bs := by intro n; simpa using hs (n + 1)
        rcases LawfulRegion.sim_push a b v h0 (hia a (by simp)) (hib b (by simp)) with ⟨h1, h2⟩ | ⟨a', b', i, h1, h2, h3⟩
        · exact Or.inl ⟨by simp [pushRow, h1], by simp [pushRow, h2]⟩
        · rcases ih as bs (by simpa using hla) (by simpa using hlb) hrest
              (fun x hx => hia x (by simp [hx])) (fun x hx => hib x (by simp [hx])) with
            ⟨g1, g2⟩ | ⟨as', bs', is, g1, g2, g3⟩
          · exact Or.inl ⟨by simp [pushRow, h1, g1], by simp [pushRow, h2, g2]⟩
          · refine Or.inr ⟨a' :: as', b' :: bs', i :: is, by simp [pushRow, h1, g1], by simp [pushRow, h2, g2], ?_⟩
            intro n
            cases n with
            | zero => simpa using h3
            | succ n => simpa using g3 n

theorem readRow_sim (as bs : List R) (is : List I) (hs : ColsSim as bs)
    (hia : ∀ c ∈ as, Inv c) (hib : ∀ c ∈ bs, Inv c) (hva : RowValid as is) (hvb : RowValid bs is) :
    readRow as is = readRow bs is := by
  induction is generalizing as bs with
  | nil => simp
  | cons i is ih =>
    cases as with
    | nil => exact absurd hva (by simp [RowValid])
    | cons a as =>
      cases bs with
      | nil => exact absurd hvb (by simp [RowValid])
      | cons b bs =>
        have h0 : Sim a b := by simpa using hs 0
        have hrest : ColsSim as bs := by intro n; simpa using hs (n + 1)
        simp only [readRow]
        rw [(LawfulRegion.sim_index a b i h0 (hia a (by simp)) (hib b (by simp))).2 hva.1,
          ih as bs hrest (fun x hx => hia x (by simp [hx])) (fun x hx => hib x (by simp [hx])) hva.2 hvb.2]

end

section
variable {R V I O : Type} [Region R V I] [LawfulRegion R] [IdxCont O Nat] [LawfulIdxCont O]

omit [LawfulRegion R] [LawfulIdxCont O] in
theorem columns_push_def (r : ColumnsRegion R I O) (row : List V) :
    push r row = match pushRow (padCols r.cols row.length) row with
      | none => none
      | some (cols', is) =>
        match push r.indices is with
        | none => none
        | some (ind', k) => some (⟨ind', cols'⟩, k) := rfl

omit [LawfulRegion R] [LawfulIdxCont O] in
theorem columns_index_def (r : ColumnsRegion R I O) (k : Nat) :
    index r k = match index r.indices k with
      | none => none
      | some is => readRow r.cols is := rfl

omit [LawfulRegion R] [LawfulIdxCont O] in
theorem columns_push_some (r r' : ColumnsRegion R I O) (row : List V) (k : Nat) (hp : push r row = some (r', k)) :
    ∃ is, pushRow (padCols r.cols row.length) row = some (r'.cols, is) ∧
      push r.indices is = some (r'.indices, k) := by
  rw [columns_push_def] at hp
  cases h1 : pushRow (padCols r.cols row.length) row with
  | none => simp [h1] at hp
  | some p =>
    obtain ⟨cols', is⟩ := p
    cases h2 : push r.indices is with
    | none => simp [h1, h2] at hp
    | some q =>
      obtain ⟨ind', k'⟩ := q
      simp only [h1, h2, Option.some.injEq, Prod.mk.injEq] at hp
      obtain ⟨rfl, rfl⟩ := hp
      exact ⟨is, rfl, h2⟩

theorem colsSim_refl (cs : List R) (hi : ∀ c ∈ cs, Inv c) : ColsSim cs cs := by
  intro n
  apply LawfulRegion.sim_refl
  rw [List.getD_eq_getElem?_getD]
  cases h : cs[n]? with
  | none => exact LawfulRegion.inv_default
  | some c => exact hi c (List.mem_of_getElem? h)

omit [LawfulRegion R] in
theorem colsSim_pad (as bs : List R) (n m : Nat) (h : ColsSim as bs) : ColsSim (padCols as n) (padCols bs m) := by
  intro k; rw [padCols_getD, padCols_getD]; exact h k

instance : LawfulRegion (ColumnsRegion R I O) where
  inv_default := ⟨LawfulRegion.inv_default, (by intro c hc; cases hc), (by
    intro k is hv
    simp only [Region.default, Region.Valid] at hv
    rw [LawfulIdxCont.iter_push _ _ LawfulIdxCont.inv_default, LawfulIdxCont.iter_default] at hv
    simp at hv)⟩
  push_ok r row hi ha := by
    obtain ⟨hin, hcols, hrows⟩ := hi
    have hpad := padCols_inv r.cols row.length hcols
    obtain ⟨⟨cols', is⟩, hpr⟩ := pushRow_total _ row hpad ha
    obtain ⟨_, _, _, _, ⟨us, hus, hsame⟩, _⟩ := pushRow_spec _ row cols' is hpad hpr
    obtain ⟨ind', k, hpi, is', hri, hsi⟩ := LawfulRegion.push_ok r.indices is hin trivial
    have : is' = is := hsi
    subst this
    exact ⟨⟨ind', cols'⟩, k, by rw [columns_push_def, hpr]; simp only [hpi], us,
      by rw [columns_index_def]; simp only [hri, hus], hsame⟩
  push_refuses r row hi hna := by
    rw [columns_push_def, pushRow_refuses _ row (padCols_inv r.cols row.length hi.2.1) hna]
  push_inv r r' row k hi hp := by
    obtain ⟨hin, hcols, hrows⟩ := hi
    obtain ⟨is, hpr, hpi⟩ := columns_push_some r r' row k hp
    have hpad := padCols_inv r.cols row.length hcols
    obtain ⟨_, _, hc', hrv, _, hframe⟩ := pushRow_spec _ row r'.cols is hpad hpr
    obtain ⟨hin', hvk⟩ := LawfulRegion.push_inv r.indices r'.indices is k hin hpi
    refine ⟨⟨hin', hc', ?_⟩, hvk⟩
    intro k' is' hv' hr'
    rcases consec_valid_cases r.indices r'.indices is k k' hin hpi hv' with hold | rfl
    · have hf := LawfulRegion.frame r.indices r'.indices is k k' hin hold hpi
      rw [hf.2] at hr'
      exact (hframe is' (rowValid_append r.cols _ is' (hrows k' is' hold hr')).1).1
    · obtain ⟨ind2, k2, hpi2, is2, hri2, hsi2⟩ := LawfulRegion.push_ok r.indices is hin trivial
      rw [hpi] at hpi2
      simp only [Option.some.injEq, Prod.mk.injEq] at hpi2
      obtain ⟨rfl, rfl⟩ := hpi2
      have : is2 = is := hsi2
      subst this
      rw [hri2] at hr'
      simp only [Option.some.injEq] at hr'
      subst hr'
      exact hrv
  frame r r' row k j hi hv hp := by
    obtain ⟨hin, hcols, hrows⟩ := hi
    obtain ⟨is, hpr, hpi⟩ := columns_push_some r r' row k hp
    have hpad := padCols_inv r.cols row.length hcols
    obtain ⟨_, _, _, _, _, hframe⟩ := pushRow_spec _ row r'.cols is hpad hpr
    obtain ⟨hvj', hij⟩ := LawfulRegion.frame r.indices r'.indices is k j hin hv hpi
    refine ⟨hvj', ?_⟩
    obtain ⟨isj, hisj⟩ := LawfulRegion.valid_reads r.indices j hin hv
    have hrv := hrows j isj hv hisj
    obtain ⟨p1, p2⟩ := rowValid_append r.cols (List.replicate (row.length - r.cols.length) Region.default) isj hrv
    rw [columns_index_def, columns_index_def, hij, hisj]
    simp only
    rw [(hframe isj p1).2]
    exact p2
  valid_reads r j hi hv := by
    obtain ⟨hin, hcols, hrows⟩ := hi
    obtain ⟨isj, hisj⟩ := LawfulRegion.valid_reads r.indices j hin hv
    rw [columns_index_def, hisj]
    exact readRow_some_of_valid r.cols isj hcols (hrows j isj hv hisj)
  clear_inv r hi := by
    refine ⟨LawfulRegion.clear_inv r.indices hi.1, ?_, ?_⟩
    · intro c hc
      simp only [Region.clear, List.mem_map] at hc
      obtain ⟨c0, hc0, rfl⟩ := hc
      exact LawfulRegion.clear_inv c0 (hi.2.1 c0 hc0)
    · intro k is hv
      simp only [Region.clear, Region.Valid] at hv
      rw [LawfulIdxCont.iter_push _ _ (LawfulIdxCont.inv_clear _), LawfulIdxCont.iter_clear] at hv
      simp at hv
  clear_sim r hi := by
    refine ⟨LawfulRegion.clear_sim r.indices hi.1, ?_⟩
    intro n
    simp only [Region.clear, Region.default, List.getD_eq_getElem?_getD, List.getElem?_map, List.getElem?_nil,
      Option.getD_none]
    cases h : r.cols[n]? with
    | none => exact LawfulRegion.sim_refl _ LawfulRegion.inv_default
    | some c => exact LawfulRegion.clear_sim c (hi.2.1 c (List.mem_of_getElem? h))
  sim_refl r hi := ⟨LawfulRegion.sim_refl r.indices hi.1, colsSim_refl r.cols hi.2.1⟩
  sim_push a b row hs ha hb := by
    obtain ⟨hsi, hsc⟩ := hs
    rcases pushRow_sim (padCols a.cols row.length) (padCols b.cols row.length) row
        (padCols_length _ _) (padCols_length _ _) (colsSim_pad _ _ _ _ hsc)
        (padCols_inv _ _ ha.2.1) (padCols_inv _ _ hb.2.1) with ⟨h1, h2⟩ | ⟨as', bs', is, h1, h2, h3⟩
    · exact Or.inl ⟨by rw [columns_push_def, h1], by rw [columns_push_def, h2]⟩
    · rcases LawfulRegion.sim_push a.indices b.indices is hsi ha.1 hb.1 with ⟨g1, g2⟩ | ⟨ia, ib, k, g1, g2, g3⟩
      · exact Or.inl ⟨by rw [columns_push_def, h1]; simp only [g1], by rw [columns_push_def, h2]; simp only [g2]⟩
      · exact Or.inr ⟨⟨ia, as'⟩, ⟨ib, bs'⟩, k, by rw [columns_push_def, h1]; simp only [g1],
          by rw [columns_push_def, h2]; simp only [g2], g3, h3⟩
  sim_index a b k hs ha hb := by
    obtain ⟨hsi, hsc⟩ := hs
    obtain ⟨hv, hidx⟩ := LawfulRegion.sim_index a.indices b.indices k hsi ha.1 hb.1
    refine ⟨hv, fun hva => ?_⟩
    obtain ⟨is, his⟩ := LawfulRegion.valid_reads a.indices k ha.1 hva
    have hisb : index b.indices k = some is := by rw [← hidx hva]; exact his
    rw [columns_index_def, columns_index_def, his, hisb]
    exact readRow_sim a.cols b.cols is hsc ha.2.1 hb.2.1 (ha.2.2 k is hva his) (hb.2.2 k is (hv.mp hva) hisb)

end
end FC
