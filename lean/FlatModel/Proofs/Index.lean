import FlatModel.Model.Index
/-! Laws of the index containers (C05, C19). Core-only proofs. -/
namespace FC

/-- C05 for one container: it *is* the list of pushed values. -/
class LawfulIdxCont (C : Type) {T : outParam Type} [IdxCont C T] : Prop where
  inv_default : IdxCont.Inv (IdxCont.default : C)
  inv_push : ∀ (c : C) x, IdxCont.Inv c → IdxCont.Inv (IdxCont.push c x)
  inv_clear : ∀ c : C, IdxCont.Inv (IdxCont.clear c)
  iter_default : IdxCont.iter (IdxCont.default : C) = []
  iter_push : ∀ (c : C) x, IdxCont.Inv c → IdxCont.iter (IdxCont.push c x) = IdxCont.iter c ++ [x]
  iter_clear : ∀ c : C, IdxCont.iter (IdxCont.clear c) = []
  index_eq : ∀ (c : C) i, IdxCont.Inv c → IdxCont.index c i = (IdxCont.iter c)[i]?
  len_eq : ∀ c : C, IdxCont.Inv c → IdxCont.len c = (IdxCont.iter c).length
  isEmpty_eq : ∀ c : C, IdxCont.Inv c → IdxCont.isEmpty c = (IdxCont.iter c).isEmpty

theorem isEmpty_append' {α} (a b : List α) : (a ++ b).isEmpty = (a.isEmpty && b.isEmpty) := by
  cases a <;> simp

instance (T : Type) (sz : Nat) : LawfulIdxCont (VecIdx T sz) where
  inv_default := trivial
  inv_push _ _ _ := trivial
  inv_clear _ := trivial
  iter_default := rfl
  iter_push _ _ _ := rfl
  iter_clear _ := rfl
  index_eq _ _ _ := rfl
  len_eq _ _ := rfl
  isEmpty_eq _ _ := rfl

namespace Stride

/-- The documented pattern, read off the state. -/
def Continues (s : Stride) (x : Nat) : Prop :=
  match s with
  | empty => x = 0
  | zero => True
  | striding st c => (x = st * c ∧ st * c < USIZE) ∨ x = st * (c - 1)
  | saturated st c _ => x = st * (c - 1)

theorem checkedMul_eq_some (a b x : Nat) : checkedMul a b = some x ↔ (x = a * b ∧ a * b < USIZE) := by
  unfold checkedMul
  split <;> simp_all <;> omega

theorem accepts_iff (s : Stride) (x : Nat) : (s.push x).2 = true ↔ s.Continues x := by
  cases s with
  | empty => simp only [push, Continues]; split <;> simp_all
  | zero => simp [push, Continues]
  | striding st c =>
    simp only [push, Continues, checkedMul_eq_some]
    split
    · simp_all
    · split <;> simp_all
  | saturated st c r => simp only [push, Continues]; split <;> simp_all

theorem reject_unchanged (s : Stride) (x : Nat) (h : (s.push x).2 = false) : (s.push x).1 = s := by
  cases s with
  | empty => simp only [push] at h ⊢; split <;> simp_all
  | zero => simp [push] at h
  | striding st c =>
    simp only [push] at h ⊢
    split
    · simp_all
    · split <;> simp_all
  | saturated st c r => simp only [push] at h ⊢; split <;> simp_all

theorem iter_striding_succ (st c : Nat) :
    (striding st (c+1)).iter = (striding st c).iter ++ [st * c] := by
  simp [iter, len, indexD, index, List.range_succ]

theorem iter_saturated_one (st c : Nat) (_hc : 1 ≤ c) :
    (saturated st c 1).iter = (striding st c).iter ++ [st * (c - 1)] := by
  simp only [iter, len, List.range_succ, List.map_append, List.map_cons, List.map_nil]
  congr 1
  · apply List.map_congr_left
    intro a ha
    simp only [List.mem_range] at ha
    simp [indexD, index, ha]
  · simp [indexD, index]

theorem iter_saturated_succ (st c r : Nat) (hr : 1 ≤ r) :
    (saturated st c (r+1)).iter = (saturated st c r).iter ++ [st * (c - 1)] := by
  simp only [iter, len]
  rw [show c + (r + 1) = (c + r) + 1 by omega, List.range_succ]
  simp only [List.map_append, List.map_cons, List.map_nil]
  have hlt : ¬ (c + r < c) := by omega
  congr 1
  simp [indexD, index, hlt]

theorem push_accept (s : Stride) (x : Nat) (h : s.Inv) (ha : (s.push x).2 = true) :
    (s.push x).1.Inv ∧ (s.push x).1.iter = s.iter ++ [x] := by
  cases s with
  | empty =>
    simp only [push] at ha ⊢
    split at ha
    · subst_vars; simp [Inv, iter, len, indexD, index]
    · simp at ha
  | zero =>
    simp [push, Inv, iter, len, indexD, index, List.range_succ]
  | striding st c =>
    simp only [push] at ha ⊢
    simp only [Inv] at h
    split
    · rename_i h1
      rw [checkedMul_eq_some] at h1
      refine ⟨by simp only [Inv]; omega, ?_⟩
      rw [iter_striding_succ, h1.1]
    · rename_i h1
      simp only [h1, if_false] at ha
      split
      · rename_i h2
        refine ⟨by simp only [Inv]; omega, ?_⟩
        rw [iter_saturated_one st c (by omega), h2]
      · rename_i h2; simp [h2] at ha
  | saturated st c r =>
    simp only [push] at ha ⊢
    simp only [Inv] at h
    split
    · rename_i h2
      refine ⟨by simp only [Inv]; omega, ?_⟩
      rw [iter_saturated_succ st c r h.2, h2]
    · rename_i h2; simp [h2] at ha

theorem len_iter (s : Stride) : s.iter.length = s.len := by simp [iter]

theorem index_eq (s : Stride) (i : Nat) (hi : i < s.len) : s.index i = s.iter[i]? := by
  have : s.iter[i]? = some (s.indexD i) := by
    simp [iter, hi]
  rw [this]
  cases s <;> simp_all [len, index, indexD]
  split <;> simp

theorem isEmpty_eq (s : Stride) (h : s.Inv) : s.isEmpty = s.iter.isEmpty := by
  cases s <;> simp_all [isEmpty, iter, len, Inv, List.range_succ] <;> omega

end Stride

namespace IndexList

theorem iter_push (l : IndexList) (x : Nat) : (l.push x).iter = l.iter ++ [x] := by
  unfold push iter
  split
  · rename_i h
    have : l.chonk = [] := by simpa using h
    split <;> simp [this]
  · simp

theorem index_eq (l : IndexList) (i : Nat) : l.index i = l.iter[i]? := by
  unfold index iter
  split
  · rename_i h; rw [List.getElem?_append_left h]
  · rename_i h; rw [List.getElem?_append_right (by omega)]

end IndexList

instance : LawfulIdxCont IndexList where
  inv_default := trivial
  inv_push _ _ _ := trivial
  inv_clear _ := trivial
  iter_default := rfl
  iter_push l x _ := IndexList.iter_push l x
  iter_clear _ := rfl
  index_eq l i _ := IndexList.index_eq l i
  len_eq l _ := by simp [IdxCont.len, IdxCont.iter, IndexList.len, IndexList.iter]
  isEmpty_eq l _ := by
    simp [IdxCont.isEmpty, IdxCont.iter, IndexList.isEmpty, IndexList.iter, isEmpty_append']

namespace IndexOptimized

abbrev Inv (o : IndexOptimized) : Prop := o.strided.Inv

theorem push_spec (o : IndexOptimized) (x : Nat) (h : o.Inv) :
    (o.push x).Inv ∧ (o.push x).iter = o.iter ++ [x] := by
  unfold push
  split
  · rename_i hs
    cases hp : (o.strided.push x) with
    | mk s' ok =>
      cases ok with
      | true =>
        have := Stride.push_accept o.strided x h (by simp [hp])
        simp only [hp] at this
        refine ⟨this.1, ?_⟩
        have he : o.spilled.iter = [] := by
          simp [IndexList.isEmpty] at hs; simp [IndexList.iter, hs]
        simp [iter, this.2, he]
      | false =>
        refine ⟨h, ?_⟩
        simp [iter, IndexList.iter_push]
  · refine ⟨h, ?_⟩
    simp [iter, IndexList.iter_push]

theorem index_eq (o : IndexOptimized) (i : Nat) : o.index i = o.iter[i]? := by
  unfold index iter
  split
  · rename_i h
    rw [List.getElem?_append_left (by rw [Stride.len_iter]; exact h)]
    exact Stride.index_eq _ _ h
  · rename_i h
    rw [List.getElem?_append_right (by rw [Stride.len_iter]; omega), Stride.len_iter]
    exact IndexList.index_eq _ _

end IndexOptimized

instance : LawfulIdxCont IndexOptimized where
  inv_default := trivial
  inv_push o x h := (IndexOptimized.push_spec o x h).1
  inv_clear _ := trivial
  iter_default := rfl
  iter_push o x h := (IndexOptimized.push_spec o x h).2
  iter_clear _ := rfl
  index_eq o i _ := IndexOptimized.index_eq o i
  len_eq o _ := by
    simp [IdxCont.len, IdxCont.iter, IndexOptimized.len, IndexOptimized.iter, Stride.len_iter,
      IndexList.len, IndexList.iter]
  isEmpty_eq o h := by
    simp only [IdxCont.isEmpty, IdxCont.iter, IndexOptimized.isEmpty, IndexOptimized.iter,
      isEmpty_append', Stride.isEmpty_eq _ h, IndexList.isEmpty, IndexList.iter]

end FC
