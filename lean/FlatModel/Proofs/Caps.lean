import FlatModel.Model.Ops
import FlatModel.Props.C01
/-! Capacity bookkeeping of the vector-backed structural regions (C17).

A region consists of `n` vectors. `Sized` names their lengths, their capacities and by how much
each of them grows when a value is pushed; `LawfulSized` / `LawfulReserve` say that `reserve_items`,
`reserve_regions` and `merge_regions` split and sum what they are told exactly as the pushes will
consume it. Only `grow_ge_need`, `grow_ge_cap`, `grow_ge_double` are used about the growth policy. -/
set_option linter.unusedSectionVars false
namespace FC
open Region

/-! ### vectors of naturals (one entry per backing vector) -/

/-- pointwise sum -/
def vadd (a b : List Nat) : List Nat := List.zipWith (· + ·) a b
/-- pointwise product (elements × element size = bytes) -/
def vmul (a b : List Nat) : List Nat := List.zipWith (· * ·) a b
def zeros (n : Nat) : List Nat := List.replicate n 0
/-- pointwise sum of a list of vectors of length `n` -/
def vsum (n : Nat) (ls : List (List Nat)) : List Nat := ls.foldr vadd (zeros n)
/-- pointwise `≤` between vectors of the same length -/
def vle : List Nat → List Nat → Prop
  | [], [] => True
  | a :: as, b :: bs => a ≤ b ∧ vle as bs
  | _, _ => False

@[simp] theorem vle_nil : vle [] [] = True := rfl
@[simp] theorem vle_cons (a b : Nat) (as bs : List Nat) : vle (a :: as) (b :: bs) = (a ≤ b ∧ vle as bs) := rfl
@[simp] theorem vle_nil_cons (b : Nat) (bs : List Nat) : vle [] (b :: bs) = False := rfl
@[simp] theorem vle_cons_nil (a : Nat) (as : List Nat) : vle (a :: as) [] = False := rfl

instance vleDec : (a b : List Nat) → Decidable (vle a b)
  | [], [] => isTrue trivial
  | [], _ :: _ => isFalse (by simp)
  | _ :: _, [] => isFalse (by simp)
  | a :: as, b :: bs =>
    match Nat.decLe a b, vleDec as bs with
    | isTrue h1, isTrue h2 => isTrue ⟨h1, h2⟩
    | isFalse h1, _ => isFalse (fun h => h1 h.1)
    | _, isFalse h2 => isFalse (fun h => h2 h.2)

@[simp] theorem vadd_nil_left (b : List Nat) : vadd [] b = [] := by simp [vadd]
@[simp] theorem vadd_nil_right (a : List Nat) : vadd a [] = [] := by simp [vadd]
@[simp] theorem vadd_cons (a b : Nat) (as bs : List Nat) : vadd (a :: as) (b :: bs) = (a + b) :: vadd as bs := rfl
@[simp] theorem vmul_nil_left (b : List Nat) : vmul [] b = [] := by simp [vmul]
@[simp] theorem vmul_nil_right (a : List Nat) : vmul a [] = [] := by simp [vmul]
@[simp] theorem vmul_cons (a b : Nat) (as bs : List Nat) : vmul (a :: as) (b :: bs) = (a * b) :: vmul as bs := rfl
@[simp] theorem zeros_zero : zeros 0 = [] := rfl
@[simp] theorem zeros_succ (n : Nat) : zeros (n + 1) = 0 :: zeros n := rfl
@[simp] theorem length_zeros (n : Nat) : (zeros n).length = n := by simp [zeros]
@[simp] theorem vsum_nil (n : Nat) : vsum n [] = zeros n := rfl
@[simp] theorem vsum_cons (n : Nat) (x : List Nat) (l : List (List Nat)) : vsum n (x :: l) = vadd x (vsum n l) := rfl

theorem zeros_add (n m : Nat) : zeros (n + m) = zeros n ++ zeros m := by
  simp [zeros, List.replicate_append_replicate]

theorem vle_length {a b : List Nat} (h : vle a b) : a.length = b.length := by
  induction a generalizing b with
  | nil => cases b <;> simp_all
  | cons x a ih => cases b with
    | nil => simp at h
    | cons y b => simp only [vle_cons] at h; simp [ih h.2]

theorem vle_refl (a : List Nat) : vle a a := by
  induction a with
  | nil => trivial
  | cons x a ih => exact ⟨Nat.le_refl x, ih⟩

theorem vle_of_eq {a b : List Nat} (h : a = b) : vle a b := h ▸ vle_refl a

theorem vle_trans {a b c : List Nat} (h1 : vle a b) (h2 : vle b c) : vle a c := by
  induction a generalizing b c with
  | nil => cases b <;> cases c <;> simp_all
  | cons x a ih =>
    cases b with
    | nil => simp at h1
    | cons y b =>
      cases c with
      | nil => simp at h2
      | cons z c =>
        simp only [vle_cons] at *
        exact ⟨Nat.le_trans h1.1 h2.1, ih h1.2 h2.2⟩

theorem vle_antisymm {a b : List Nat} (h1 : vle a b) (h2 : vle b a) : a = b := by
  induction a generalizing b with
  | nil => cases b <;> simp_all
  | cons x a ih =>
    cases b with
    | nil => simp at h1
    | cons y b =>
      simp only [vle_cons] at *
      rw [ih h1.2 h2.2, Nat.le_antisymm h1.1 h2.1]

theorem vle_append {a b c d : List Nat} (h1 : vle a b) (h2 : vle c d) : vle (a ++ c) (b ++ d) := by
  induction a generalizing b with
  | nil => cases b with
    | nil => simpa using h2
    | cons y b => simp at h1
  | cons x a ih =>
    cases b with
    | nil => simp at h1
    | cons y b =>
      simp only [vle_cons, List.cons_append] at *
      exact ⟨h1.1, ih h1.2⟩

theorem vle_append_iff {a b c d : List Nat} (h : a.length = b.length) :
    vle (a ++ c) (b ++ d) ↔ vle a b ∧ vle c d := by
  induction a generalizing b with
  | nil => cases b with
    | nil => simp
    | cons y b => simp at h
  | cons x a ih =>
    cases b with
    | nil => simp at h
    | cons y b =>
      simp only [List.length_cons, Nat.add_right_cancel_iff] at h
      simp only [vle_cons, List.cons_append, ih h, and_assoc]

theorem length_vadd (a b : List Nat) : (vadd a b).length = min a.length b.length := by simp [vadd]
theorem length_vadd_eq {a b : List Nat} {n : Nat} (ha : a.length = n) (hb : b.length = n) :
    (vadd a b).length = n := by simp [vadd, ha, hb]
theorem length_vmul (a b : List Nat) : (vmul a b).length = min a.length b.length := by simp [vmul]

theorem vadd_comm (a b : List Nat) : vadd a b = vadd b a := by
  induction a generalizing b with
  | nil => simp
  | cons x a ih => cases b with
    | nil => simp
    | cons y b => simp [ih, Nat.add_comm]

theorem vadd_assoc (a b c : List Nat) : vadd (vadd a b) c = vadd a (vadd b c) := by
  induction a generalizing b c with
  | nil => simp
  | cons x a ih =>
    cases b with
    | nil => simp
    | cons y b => cases c with
      | nil => simp
      | cons z c => simp [ih, Nat.add_assoc]

theorem vadd_zeros {a : List Nat} {n : Nat} (h : a.length ≤ n) : vadd a (zeros n) = a := by
  induction a generalizing n with
  | nil => simp
  | cons x a ih =>
    cases n with
    | zero => simp at h
    | succ n => simp only [List.length_cons, Nat.add_le_add_iff_right] at h; simp [ih h]

theorem zeros_vadd {a : List Nat} {n : Nat} (h : a.length ≤ n) : vadd (zeros n) a = a := by
  rw [vadd_comm, vadd_zeros h]

theorem vadd_append {a b c d : List Nat} (h : a.length = b.length) :
    vadd (a ++ c) (b ++ d) = vadd a b ++ vadd c d := by
  simp only [vadd]; exact List.zipWith_append h

theorem vmul_append {a b c d : List Nat} (h : a.length = b.length) :
    vmul (a ++ c) (b ++ d) = vmul a b ++ vmul c d := by
  simp only [vmul]; exact List.zipWith_append h

/-- `a ≤ a + b` -/
theorem vle_vadd_self {a b : List Nat} (h : a.length = b.length) : vle a (vadd a b) := by
  induction a generalizing b with
  | nil => cases b <;> simp_all
  | cons x a ih =>
    cases b with
    | nil => simp at h
    | cons y b =>
      simp only [List.length_cons, Nat.add_right_cancel_iff] at h
      exact ⟨Nat.le_add_right x y, ih h⟩

theorem vadd_vle_vadd {a b c d : List Nat} (h1 : vle a b) (h2 : vle c d) : vle (vadd a c) (vadd b d) := by
  induction a generalizing b c d with
  | nil => cases b <;> simp_all
  | cons x a ih =>
    cases b with
    | nil => simp at h1
    | cons y b =>
      cases c with
      | nil => cases d <;> simp_all
      | cons z c =>
        cases d with
        | nil => simp at h2
        | cons w d =>
          simp only [vle_cons, vadd_cons] at *
          exact ⟨Nat.add_le_add h1.1 h2.1, ih h1.2 h2.2⟩

/-- the first part of a batch fits if the whole batch does -/
theorem vle_vadd_prefix {a b c d : List Nat} (hbc : b.length = c.length)
    (h : vle (vadd a (vadd b c)) d) : vle (vadd a b) d :=
  vle_trans (vadd_vle_vadd (vle_refl a) (vle_vadd_self hbc)) h

theorem length_vsum_le (n : Nat) (l : List (List Nat)) : (vsum n l).length ≤ n := by
  induction l with
  | nil => simp
  | cons x l ih => simp only [vsum_cons, length_vadd]; omega

theorem length_vsum {n : Nat} {l : List (List Nat)} (h : ∀ x ∈ l, x.length = n) : (vsum n l).length = n := by
  induction l with
  | nil => simp
  | cons x l ih =>
    simp only [vsum_cons, length_vadd]
    rw [h x (by simp), ih (fun y hy => h y (by simp [hy]))]; simp

theorem vsum_append (n : Nat) (a b : List (List Nat)) : vsum n (a ++ b) = vadd (vsum n a) (vsum n b) := by
  induction a with
  | nil => simp [zeros_vadd (length_vsum_le n b)]
  | cons x a ih => simp [ih, vadd_assoc]

@[simp] theorem vsum_zero (l : List (List Nat)) : vsum 0 l = [] := by
  induction l with
  | nil => rfl
  | cons x l ih => simp [ih]

theorem vsum_map_cons {α : Type} (n : Nat) (l : List α) (f : α → Nat) (g : α → List Nat) :
    vsum (n + 1) (l.map fun x => f x :: g x) = (l.map f).sum :: vsum n (l.map g) := by
  induction l with
  | nil => simp
  | cons x l ih => simp [ih]

theorem vsum_map_append {α : Type} (n m : Nat) (l : List α) (f g : α → List Nat) (hf : ∀ x, (f x).length = n) :
    vsum (n + m) (l.map fun x => f x ++ g x) = vsum n (l.map f) ++ vsum m (l.map g) := by
  induction l with
  | nil => simp [zeros_add]
  | cons x l ih =>
    simp only [List.map_cons, vsum_cons, ih]
    rw [vadd_append]
    rw [hf x, length_vsum]
    intro y hy; simp only [List.mem_map] at hy; obtain ⟨z, _, rfl⟩ := hy; exact hf z

theorem vsum_map_zeros {α : Type} (n : Nat) (l : List α) : vsum n (l.map fun _ => zeros n) = zeros n := by
  induction l with
  | nil => rfl
  | cons x l ih => simp [ih, vadd_zeros]

/-! ### the class -/

/-- A region made of `n` vectors. -/
class Sized (R : Type) {V I : outParam Type} [Region R V I] [RegionAux R] where
  /-- number of vectors the region consists of -/
  n : Nat
  /-- their lengths, in elements, in the order `heap_size` reports them -/
  lens : R → List Nat
  /-- their capacities, in elements -/
  caps : R → List Nat
  /-- by how many elements each vector grows when this value is pushed -/
  growth : V → List Nat
  /-- element sizes in bytes -/
  sizes : List Nat
  /-- the capacity bookkeeping is well formed (one capacity per vector of a `Capd` container) -/
  CInv : R → Prop

namespace Sized
variable {R V I : Type} [Region R V I] [RegionAux R] [Sized R]
/-- the pushed value fits into the spare capacity of every vector -/
def Fits (r : R) (v : V) : Prop := vle (vadd (lens r) (growth R v)) (caps r)
/-- total growth caused by a batch -/
def growAll (vs : List V) : List Nat := vsum (n R) (vs.map (growth R))
/-- total contents of a list of regions -/
def lensAll (rs : List R) : List Nat := vsum (n R) (rs.map lens)
end Sized

open Sized in
/-- Laws that every structural region and `FlatStack` satisfy. -/
class LawfulSized (R : Type) {V I : outParam Type} [Region R V I] [RegionAux R] [Sized R] : Prop where
  len_lens : ∀ r : R, (lens r).length = n R
  len_caps : ∀ r : R, (caps r).length = n R
  len_grow : ∀ v : V, (growth R v).length = n R
  len_sizes : (sizes R).length = n R
  cinv_default : CInv (default : R)
  lens_default : lens (default : R) = zeros (n R)
  /-- lengths grow by exactly `grow v`, a function of the value alone -/
  push_lens : ∀ (r r' : R) (v : V) (i : I), push r v = some (r', i) → lens r' = vadd (lens r) (growth R v)
  push_cinv : ∀ (r r' : R) (v : V) (i : I), CInv r → push r v = some (r', i) → CInv r'
  /-- no reallocation when the value fits -/
  push_fit : ∀ (r r' : R) (v : V) (i : I), CInv r → push r v = some (r', i) → Fits r v → caps r' = caps r
  /-- capacities never shrink -/
  push_mono : ∀ (r r' : R) (v : V) (i : I), CInv r → push r v = some (r', i) → vle (caps r) (caps r')
  reserveItems_lens : ∀ (r : R) (vs : List V), lens (RegionAux.reserveItems r vs) = lens r
  reserveItems_cinv : ∀ (r : R) (vs : List V), CInv r → CInv (RegionAux.reserveItems r vs)
  reserveItems_mono : ∀ (r : R) (vs : List V), CInv r → vle (caps r) (caps (RegionAux.reserveItems r vs))
  reserveRegions_lens : ∀ (r : R) (rs : List R), lens (RegionAux.reserveRegions r rs) = lens r
  reserveRegions_cinv : ∀ (r : R) (rs : List R), CInv r → CInv (RegionAux.reserveRegions r rs)
  reserveRegions_mono : ∀ (r : R) (rs : List R), CInv r → vle (caps r) (caps (RegionAux.reserveRegions r rs))
  merge_lens : ∀ rs : List R, lens (RegionAux.mergeRegions rs) = zeros (n R)
  merge_cinv : ∀ rs : List R, CInv (RegionAux.mergeRegions rs)
  /-- `merge_regions` sizes every vector for the sum of the sources -/
  merge_room : ∀ rs : List R, vle (lensAll rs) (caps (RegionAux.mergeRegions rs))
  /-- what `heap_size` reports: capacities and lengths in bytes -/
  heap_caps : ∀ r : R, CInv r → (RegionAux.heap r).map (·.2) = vmul (caps r) (sizes R)
  heap_lens : ∀ r : R, CInv r → (RegionAux.heap r).map (·.1) = vmul (lens r) (sizes R)

open Sized in
/-- `reserve_items` / `reserve_regions` make room in every vector (all structural regions; not
`FlatStack`, whose `reserve_items` leaves the index vector alone). -/
class LawfulReserve (R : Type) {V I : outParam Type} [Region R V I] [RegionAux R] [Sized R] : Prop where
  reserveItems_room : ∀ (r : R) (vs : List V), CInv r →
    vle (vadd (lens r) (growAll (R := R) vs)) (caps (RegionAux.reserveItems r vs))
  reserveRegions_room : ∀ (r : R) (rs : List R), CInv r →
    vle (vadd (lens r) (lensAll rs)) (caps (RegionAux.reserveRegions r rs))

/-! ### consequences for batches of pushes -/
section Generic
variable {R V I : Type} [Region R V I] [RegionAux R] [Sized R] [L : LawfulSized R]
open Sized C08

theorem len_growAll (vs : List V) : (growAll (R := R) vs).length = n R := by
  apply length_vsum
  intro x hx; simp only [List.mem_map] at hx; obtain ⟨v, _, rfl⟩ := hx; exact L.len_grow v

theorem len_lensAll (rs : List R) : (lensAll rs).length = n R := by
  apply length_vsum
  intro x hx; simp only [List.mem_map] at hx; obtain ⟨v, _, rfl⟩ := hx; exact L.len_lens v

omit L in
@[simp] theorem growAll_nil : growAll (R := R) ([] : List V) = zeros (n R) := rfl
omit L in
@[simp] theorem growAll_cons (v : V) (vs : List V) :
    growAll (R := R) (v :: vs) = vadd (growth R v) (growAll (R := R) vs) := rfl

omit L in
theorem growAll_append (vs ws : List V) :
    growAll (R := R) (vs ++ ws) = vadd (growAll (R := R) vs) (growAll (R := R) ws) := by
  simp only [growAll, List.map_append, vsum_append]

/-- lengths grow by exactly the announced amounts -/
theorem runPushes_lens (r r' : R) (vs : List V) (h : runPushes r vs = some r') :
    lens r' = vadd (lens r) (growAll (R := R) vs) := by
  induction vs generalizing r with
  | nil =>
    simp only [runPushes, Option.some.injEq] at h; subst h
    rw [growAll_nil, vadd_zeros (Nat.le_of_eq (L.len_lens r))]
  | cons v vs ih =>
    simp only [runPushes] at h
    cases hp : push r v with
    | none => simp [hp] at h
    | some p =>
      obtain ⟨r1, i⟩ := p
      simp only [hp] at h
      rw [ih r1 h, L.push_lens r r1 v i hp, growAll_cons, vadd_assoc]

/-- everything a successful batch of pushes does to the bookkeeping -/
theorem runPushes_spec (r r' : R) (vs : List V) (hc : CInv r) (h : runPushes r vs = some r') :
    CInv r' ∧ lens r' = vadd (lens r) (growAll (R := R) vs) ∧ vle (caps r) (caps r') ∧
      (vle (vadd (lens r) (growAll (R := R) vs)) (caps r) → caps r' = caps r) := by
  induction vs generalizing r with
  | nil =>
    simp only [runPushes, Option.some.injEq] at h; subst h
    refine ⟨hc, ?_, vle_refl _, fun _ => rfl⟩
    rw [growAll_nil, vadd_zeros (Nat.le_of_eq (L.len_lens r))]
  | cons v vs ih =>
    simp only [runPushes] at h
    cases hp : push r v with
    | none => simp [hp] at h
    | some p =>
      obtain ⟨r1, i⟩ := p
      simp only [hp] at h
      have hc1 := L.push_cinv r r1 v i hc hp
      have hl1 := L.push_lens r r1 v i hp
      obtain ⟨h1, h2, h3, h4⟩ := ih r1 hc1 h
      refine ⟨h1, ?_, vle_trans (L.push_mono r r1 v i hc hp) h3, ?_⟩
      · rw [h2, hl1, growAll_cons, vadd_assoc]
      · intro hfit
        rw [growAll_cons] at hfit
        have hf : Fits r v := vle_vadd_prefix ((L.len_grow v).trans (len_growAll vs).symm) hfit
        have hc' := L.push_fit r r1 v i hc hp hf
        rw [← hc']
        apply h4
        rw [hl1, vadd_assoc, hc']
        exact hfit

end Generic

/-! ### terminal regions -/

theorem reserve_cap_room {α : Type} (v : MVec α) (k : Nat) : v.data.length + k ≤ (v.reserve k).cap := by
  unfold MVec.reserve; split
  · assumption
  · exact grow_ge_need _ _
theorem reserve_cap_mono {α : Type} (v : MVec α) (k : Nat) : v.cap ≤ (v.reserve k).cap := by
  unfold MVec.reserve; split
  · exact Nat.le_refl _
  · exact grow_ge_cap _ _
theorem reserve_cap_fit {α : Type} (v : MVec α) (k : Nat) (h : v.data.length + k ≤ v.cap) : (v.reserve k).cap = v.cap := by
  unfold MVec.reserve; simp [h]
@[simp] theorem extend_cap {α : Type} (v : MVec α) (xs : List α) : (v.extend xs).cap = (v.reserve xs.length).cap := rfl
@[simp] theorem push_cap {α : Type} (v : MVec α) (x : α) : (v.push x).cap = (v.reserve 1).cap := rfl

instance (T : Type) : Sized (MirrorRegion T) where
  n := 0
  lens _ := []
  caps _ := []
  growth _ := []
  sizes := []
  CInv _ := True

instance (T : Type) : LawfulSized (MirrorRegion T) where
  len_lens _ := rfl
  len_caps _ := rfl
  len_grow _ := rfl
  len_sizes := rfl
  cinv_default := trivial
  lens_default := rfl
  push_lens _ _ _ _ _ := rfl
  push_cinv _ _ _ _ _ _ := trivial
  push_fit _ _ _ _ _ _ _ := rfl
  push_mono _ _ _ _ _ _ := trivial
  reserveItems_lens _ _ := rfl
  reserveItems_cinv _ _ _ := trivial
  reserveItems_mono _ _ _ := trivial
  reserveRegions_lens _ _ := rfl
  reserveRegions_cinv _ _ _ := trivial
  reserveRegions_mono _ _ _ := trivial
  merge_lens _ := rfl
  merge_cinv _ := trivial
  merge_room _ := by simp [Sized.lensAll, Sized.n, Sized.caps]
  heap_caps _ _ := rfl
  heap_lens _ _ := rfl

instance (T : Type) : LawfulReserve (MirrorRegion T) where
  reserveItems_room _ _ _ := by simp [Sized.growAll, Sized.n, Sized.caps, Sized.lens]
  reserveRegions_room _ _ _ := by simp [Sized.lensAll, Sized.n, Sized.caps, Sized.lens]

theorem vsum_one {α : Type} (l : List α) (f : α → Nat) : vsum 1 (l.map fun x => [f x]) = [(l.map f).sum] := by
  have := vsum_map_cons 0 l f (fun _ => [])
  simpa using this

instance (T : Type) [ElemSize T] : Sized (OwnedRegion T) where
  n := 1
  lens r := [r.slices.data.length]
  caps r := [r.slices.cap]
  growth v := [v.length]
  sizes := [ElemSize.bytes T]
  CInv _ := True

instance (T : Type) [ElemSize T] : LawfulSized (OwnedRegion T) where
  len_lens _ := rfl
  len_caps _ := rfl
  len_grow _ := rfl
  len_sizes := rfl
  cinv_default := trivial
  lens_default := rfl
  push_lens r r' v i hp := by
    simp only [Region.push, Option.some.injEq, Prod.mk.injEq] at hp
    obtain ⟨rfl, _⟩ := hp
    simp [Sized.lens, Sized.growth]
  push_cinv _ _ _ _ _ _ := trivial
  push_fit r r' v i _ hp hf := by
    simp only [Region.push, Option.some.injEq, Prod.mk.injEq] at hp
    obtain ⟨rfl, _⟩ := hp
    simp only [Sized.Fits, Sized.lens, Sized.growth, Sized.caps, vadd_cons, vadd_nil_left, vle_cons, vle_nil, and_true] at hf
    simp [Sized.caps, reserve_cap_fit _ _ hf]
  push_mono r r' v i _ hp := by
    simp only [Region.push, Option.some.injEq, Prod.mk.injEq] at hp
    obtain ⟨rfl, _⟩ := hp
    simp [Sized.caps, reserve_cap_mono]
  reserveItems_lens r vs := by simp [Sized.lens, RegionAux.reserveItems]
  reserveItems_cinv _ _ _ := trivial
  reserveItems_mono r vs _ := by simp [Sized.caps, RegionAux.reserveItems, reserve_cap_mono]
  reserveRegions_lens r rs := by simp [Sized.lens, RegionAux.reserveRegions]
  reserveRegions_cinv _ _ _ := trivial
  reserveRegions_mono r rs _ := by simp [Sized.caps, RegionAux.reserveRegions, reserve_cap_mono]
  merge_lens rs := by simp [Sized.lens, RegionAux.mergeRegions, Sized.n]
  merge_cinv _ := trivial
  merge_room rs := by
    simp only [Sized.lensAll, Sized.lens, Sized.n, vsum_one, Sized.caps, RegionAux.mergeRegions, MVec.withCapacity,
      MVec.len, vle_cons, vle_nil, and_true]
    exact Nat.le_refl _
  heap_caps r _ := by simp [RegionAux.heap, MVec.heap, Sized.caps, Sized.sizes]
  heap_lens r _ := by simp [RegionAux.heap, MVec.heap, Sized.lens, Sized.sizes]

instance (T : Type) [ElemSize T] : LawfulReserve (OwnedRegion T) where
  reserveItems_room r vs _ := by
    simp only [Sized.growAll, Sized.lens, Sized.growth, Sized.n, vsum_one, Sized.caps, RegionAux.reserveItems,
      vadd_cons, vadd_nil_left, vle_cons, vle_nil, and_true]
    exact reserve_cap_room _ _
  reserveRegions_room r rs _ := by
    simp only [Sized.lensAll, Sized.lens, Sized.n, vsum_one, Sized.caps, RegionAux.reserveRegions,
      vadd_cons, vadd_nil_left, vle_cons, vle_nil, and_true, MVec.len]
    exact reserve_cap_room _ _

instance (T : Type) [ElemSize T] : Sized (VecRegion T) where
  n := 1
  lens r := [r.v.data.length]
  caps r := [r.v.cap]
  growth _ := [1]
  sizes := [ElemSize.bytes T]
  CInv _ := True

theorem sum_map_one {α : Type} (l : List α) : (l.map fun _ => 1).sum = l.length := by
  induction l with
  | nil => rfl
  | cons x l ih => simp [ih]; omega

instance (T : Type) [ElemSize T] : LawfulSized (VecRegion T) where
  len_lens _ := rfl
  len_caps _ := rfl
  len_grow _ := rfl
  len_sizes := rfl
  cinv_default := trivial
  lens_default := rfl
  push_lens r r' v i hp := by
    simp only [Region.push, Option.some.injEq, Prod.mk.injEq] at hp
    obtain ⟨rfl, _⟩ := hp
    simp [Sized.lens, Sized.growth]
  push_cinv _ _ _ _ _ _ := trivial
  push_fit r r' v i _ hp hf := by
    simp only [Region.push, Option.some.injEq, Prod.mk.injEq] at hp
    obtain ⟨rfl, _⟩ := hp
    simp only [Sized.Fits, Sized.lens, Sized.growth, Sized.caps, vadd_cons, vadd_nil_left, vle_cons, vle_nil, and_true] at hf
    simp [Sized.caps, reserve_cap_fit _ _ hf]
  push_mono r r' v i _ hp := by
    simp only [Region.push, Option.some.injEq, Prod.mk.injEq] at hp
    obtain ⟨rfl, _⟩ := hp
    simp [Sized.caps, reserve_cap_mono]
  reserveItems_lens r vs := by simp [Sized.lens, RegionAux.reserveItems]
  reserveItems_cinv _ _ _ := trivial
  reserveItems_mono r vs _ := by simp [Sized.caps, RegionAux.reserveItems, reserve_cap_mono]
  reserveRegions_lens r rs := by simp [Sized.lens, RegionAux.reserveRegions]
  reserveRegions_cinv _ _ _ := trivial
  reserveRegions_mono r rs _ := by simp [Sized.caps, RegionAux.reserveRegions, reserve_cap_mono]
  merge_lens rs := by simp [Sized.lens, RegionAux.mergeRegions, Sized.n]
  merge_cinv _ := trivial
  merge_room rs := by
    simp only [Sized.lensAll, Sized.lens, Sized.n, vsum_one, Sized.caps, RegionAux.mergeRegions, MVec.withCapacity,
      MVec.len, vle_cons, vle_nil, and_true]
    exact Nat.le_refl _
  heap_caps r _ := by simp [RegionAux.heap, MVec.heap, Sized.caps, Sized.sizes]
  heap_lens r _ := by simp [RegionAux.heap, MVec.heap, Sized.lens, Sized.sizes]

instance (T : Type) [ElemSize T] : LawfulReserve (VecRegion T) where
  reserveItems_room r vs _ := by
    simp only [Sized.growAll, Sized.lens, Sized.growth, Sized.n, vsum_one, Sized.caps, RegionAux.reserveItems,
      vadd_cons, vadd_nil_left, vle_cons, vle_nil, and_true, sum_map_one]
    exact reserve_cap_room _ _
  reserveRegions_room r rs _ := by
    simp only [Sized.lensAll, Sized.lens, Sized.n, vsum_one, Sized.caps, RegionAux.reserveRegions,
      vadd_cons, vadd_nil_left, vle_cons, vle_nil, and_true, MVec.len]
    exact reserve_cap_room _ _

/-! ### wrappers that only forward -/

section Str
variable {R I : Type} [Region R (List UInt8) I] [RegionAux R] [Sized R]

instance : Sized (StringRegion R) where
  n := Sized.n R
  lens r := Sized.lens r.inner
  caps r := Sized.caps r.inner
  growth v := Sized.growth R v
  sizes := Sized.sizes R
  CInv r := Sized.CInv r.inner

theorem sized_string_push (r r' : StringRegion R) (v : List UInt8) (i : I) (hp : push r v = some (r', i)) :
    push r.inner v = some (r'.inner, i) := by
  simp only [Region.push, Option.map_eq_some_iff, Prod.mk.injEq] at hp
  obtain ⟨⟨r0, i0⟩, hp0, rfl, rfl⟩ := hp
  exact hp0

theorem string_lensAll (rs : List (StringRegion R)) :
    Sized.lensAll rs = Sized.lensAll (rs.map fun x => x.inner) := by
  simp only [Sized.lensAll, List.map_map]; rfl

instance [L : LawfulSized R] : LawfulSized (StringRegion R) where
  len_lens r := L.len_lens r.inner
  len_caps r := L.len_caps r.inner
  len_grow v := L.len_grow v
  len_sizes := L.len_sizes
  cinv_default := L.cinv_default
  lens_default := L.lens_default
  push_lens r r' v i hp := L.push_lens r.inner r'.inner v i (sized_string_push r r' v i hp)
  push_cinv r r' v i hc hp := L.push_cinv r.inner r'.inner v i hc (sized_string_push r r' v i hp)
  push_fit r r' v i hc hp hf := L.push_fit r.inner r'.inner v i hc (sized_string_push r r' v i hp) hf
  push_mono r r' v i hc hp := L.push_mono r.inner r'.inner v i hc (sized_string_push r r' v i hp)
  reserveItems_lens r vs := L.reserveItems_lens r.inner vs
  reserveItems_cinv r vs hc := L.reserveItems_cinv r.inner vs hc
  reserveItems_mono r vs hc := L.reserveItems_mono r.inner vs hc
  reserveRegions_lens r rs := L.reserveRegions_lens r.inner _
  reserveRegions_cinv r rs hc := L.reserveRegions_cinv r.inner _ hc
  reserveRegions_mono r rs hc := L.reserveRegions_mono r.inner _ hc
  merge_lens rs := L.merge_lens _
  merge_cinv rs := L.merge_cinv _
  merge_room rs := by rw [string_lensAll]; exact L.merge_room _
  heap_caps r hc := L.heap_caps r.inner hc
  heap_lens r hc := L.heap_lens r.inner hc

instance [LawfulSized R] [L : LawfulReserve R] : LawfulReserve (StringRegion R) where
  reserveItems_room r vs hc := L.reserveItems_room r.inner vs hc
  reserveRegions_room r rs hc := by rw [string_lensAll]; exact L.reserveRegions_room r.inner _ hc
end Str

section Opt
variable {R V I : Type} [Region R V I] [RegionAux R] [Sized R]

instance : Sized (OptionRegion R) where
  n := Sized.n R
  lens r := Sized.lens r.inner
  caps r := Sized.caps r.inner
  growth v := match v with | none => zeros (Sized.n R) | some x => Sized.growth R x
  sizes := Sized.sizes R
  CInv r := Sized.CInv r.inner

theorem sized_option_push_some (r r' : OptionRegion R) (x : V) (i : Option I) (hp : push r (some x) = some (r', i)) :
    ∃ j, push r.inner x = some (r'.inner, j) := by
  simp only [Region.push, Option.map_eq_some_iff, Prod.mk.injEq] at hp
  obtain ⟨⟨r0, i0⟩, hp0, rfl, rfl⟩ := hp
  exact ⟨i0, hp0⟩

theorem sized_option_push_none (r r' : OptionRegion R) (i : Option I) (hp : push r none = some (r', i)) : r' = r := by
  simp only [Region.push, Option.some.injEq, Prod.mk.injEq] at hp
  exact hp.1.symm

theorem option_lensAll (rs : List (OptionRegion R)) :
    Sized.lensAll rs = Sized.lensAll (rs.map fun x => x.inner) := by
  simp only [Sized.lensAll, List.map_map]; rfl

theorem option_growAll [L : LawfulSized R] (vs : List (Option V)) :
    Sized.growAll (R := OptionRegion R) vs = Sized.growAll (R := R) (vs.filterMap id) := by
  induction vs with
  | nil => rfl
  | cons v vs ih =>
    cases v with
    | none =>
      rw [growAll_cons, ih]
      simp only [List.filterMap_cons, id]
      exact zeros_vadd (Nat.le_of_eq (len_growAll _))
    | some x =>
      rw [growAll_cons, ih]
      simp only [List.filterMap_cons, id, growAll_cons]
      rfl

instance [L : LawfulSized R] : LawfulSized (OptionRegion R) where
  len_lens r := L.len_lens r.inner
  len_caps r := L.len_caps r.inner
  len_grow v := by
    cases v with
    | none => exact length_zeros _
    | some x => exact L.len_grow x
  len_sizes := L.len_sizes
  cinv_default := L.cinv_default
  lens_default := L.lens_default
  push_lens r r' v i hp := by
    cases v with
    | none =>
      rw [sized_option_push_none r r' i hp]
      exact (vadd_zeros (Nat.le_of_eq (L.len_lens r.inner))).symm
    | some x =>
      obtain ⟨j, hj⟩ := sized_option_push_some r r' x i hp
      exact L.push_lens r.inner r'.inner x j hj
  push_cinv r r' v i hc hp := by
    cases v with
    | none => rw [sized_option_push_none r r' i hp]; exact hc
    | some x =>
      obtain ⟨j, hj⟩ := sized_option_push_some r r' x i hp
      exact L.push_cinv r.inner r'.inner x j hc hj
  push_fit r r' v i hc hp hf := by
    cases v with
    | none => rw [sized_option_push_none r r' i hp]
    | some x =>
      obtain ⟨j, hj⟩ := sized_option_push_some r r' x i hp
      exact L.push_fit r.inner r'.inner x j hc hj hf
  push_mono r r' v i hc hp := by
    cases v with
    | none => rw [sized_option_push_none r r' i hp]; exact vle_refl _
    | some x =>
      obtain ⟨j, hj⟩ := sized_option_push_some r r' x i hp
      exact L.push_mono r.inner r'.inner x j hc hj
  reserveItems_lens r vs := L.reserveItems_lens r.inner _
  reserveItems_cinv r vs hc := L.reserveItems_cinv r.inner _ hc
  reserveItems_mono r vs hc := L.reserveItems_mono r.inner _ hc
  reserveRegions_lens r rs := L.reserveRegions_lens r.inner _
  reserveRegions_cinv r rs hc := L.reserveRegions_cinv r.inner _ hc
  reserveRegions_mono r rs hc := L.reserveRegions_mono r.inner _ hc
  merge_lens rs := L.merge_lens _
  merge_cinv rs := L.merge_cinv _
  merge_room rs := by rw [option_lensAll]; exact L.merge_room _
  heap_caps r hc := L.heap_caps r.inner hc
  heap_lens r hc := L.heap_lens r.inner hc

instance [LawfulSized R] [L : LawfulReserve R] : LawfulReserve (OptionRegion R) where
  reserveItems_room r vs hc := by rw [option_growAll]; exact L.reserveItems_room r.inner _ hc
  reserveRegions_room r rs hc := by rw [option_lensAll]; exact L.reserveRegions_room r.inner _ hc
end Opt

/-! ### fan-out regions: the vectors of the children, side by side -/

section Res
variable {T VT IT E VE IE : Type} [Region T VT IT] [Region E VE IE] [RegionAux T] [RegionAux E] [Sized T] [Sized E]

instance : Sized (ResultRegion T E) where
  n := Sized.n T + Sized.n E
  lens r := Sized.lens r.oks ++ Sized.lens r.errs
  caps r := Sized.caps r.oks ++ Sized.caps r.errs
  growth v := match v with
    | .ok x => Sized.growth T x ++ zeros (Sized.n E)
    | .error x => zeros (Sized.n T) ++ Sized.growth E x
  sizes := Sized.sizes T ++ Sized.sizes E
  CInv r := Sized.CInv r.oks ∧ Sized.CInv r.errs

theorem sized_result_push_ok (r r' : ResultRegion T E) (x : VT) (i : Except IE IT) (hp : push r (.ok x) = some (r', i)) :
    ∃ j, push r.oks x = some (r'.oks, j) ∧ r'.errs = r.errs := by
  simp only [Region.push, Option.map_eq_some_iff, Prod.mk.injEq] at hp
  obtain ⟨⟨r0, i0⟩, hp0, rfl, rfl⟩ := hp
  exact ⟨i0, hp0, rfl⟩

theorem sized_result_push_error (r r' : ResultRegion T E) (x : VE) (i : Except IE IT) (hp : push r (.error x) = some (r', i)) :
    ∃ j, push r.errs x = some (r'.errs, j) ∧ r'.oks = r.oks := by
  simp only [Region.push, Option.map_eq_some_iff, Prod.mk.injEq] at hp
  obtain ⟨⟨r0, i0⟩, hp0, rfl, rfl⟩ := hp
  exact ⟨i0, hp0, rfl⟩

theorem result_lensAll [LT : LawfulSized T] (rs : List (ResultRegion T E)) :
    Sized.lensAll rs = Sized.lensAll (rs.map (·.oks)) ++ Sized.lensAll (rs.map (·.errs)) := by
  simp only [Sized.lensAll, List.map_map]
  exact vsum_map_append _ _ rs (fun r => Sized.lens r.oks) (fun r => Sized.lens r.errs) (fun r => LT.len_lens r.oks)

theorem result_growAll [LT : LawfulSized T] [LE : LawfulSized E] (vs : List (Except VE VT)) :
    Sized.growAll (R := ResultRegion T E) vs =
      Sized.growAll (R := T) (vs.filterMap fun | .ok x => some x | .error _ => none) ++
      Sized.growAll (R := E) (vs.filterMap fun | .ok _ => none | .error x => some x) := by
  induction vs with
  | nil => exact zeros_add _ _
  | cons v vs ih =>
    cases v with
    | ok x =>
      rw [growAll_cons, ih]
      simp only [List.filterMap_cons, growAll_cons]
      show vadd (Sized.growth T x ++ zeros (Sized.n E)) _ = _
      rw [vadd_append ((LT.len_grow x).trans (len_growAll _).symm), zeros_vadd (Nat.le_of_eq (len_growAll _))]
    | error x =>
      rw [growAll_cons, ih]
      simp only [List.filterMap_cons, growAll_cons]
      show vadd (zeros (Sized.n T) ++ Sized.growth E x) _ = _
      rw [vadd_append ((length_zeros _).trans (len_growAll _).symm), zeros_vadd (Nat.le_of_eq (len_growAll _))]

instance [LT : LawfulSized T] [LE : LawfulSized E] : LawfulSized (ResultRegion T E) where
  len_lens r := by simp [Sized.lens, Sized.n, LT.len_lens, LE.len_lens]
  len_caps r := by simp [Sized.caps, Sized.n, LT.len_caps, LE.len_caps]
  len_grow v := by
    cases v with
    | ok x => simp [Sized.growth, Sized.n, LT.len_grow]
    | error x => simp [Sized.growth, Sized.n, LE.len_grow]
  len_sizes := by simp [Sized.sizes, Sized.n, LT.len_sizes, LE.len_sizes]
  cinv_default := ⟨LT.cinv_default, LE.cinv_default⟩
  lens_default := by
    show Sized.lens (default : T) ++ Sized.lens (default : E) = _
    rw [LT.lens_default, LE.lens_default]; exact (zeros_add _ _).symm
  push_lens r r' v i hp := by
    cases v with
    | ok x =>
      obtain ⟨j, hj, he⟩ := sized_result_push_ok r r' x i hp
      show Sized.lens r'.oks ++ Sized.lens r'.errs = vadd (Sized.lens r.oks ++ Sized.lens r.errs) (Sized.growth T x ++ zeros _)
      rw [vadd_append ((LT.len_lens _).trans (LT.len_grow x).symm), vadd_zeros (Nat.le_of_eq (LE.len_lens _)), he,
        LT.push_lens r.oks r'.oks x j hj]
    | error x =>
      obtain ⟨j, hj, he⟩ := sized_result_push_error r r' x i hp
      show Sized.lens r'.oks ++ Sized.lens r'.errs = vadd (Sized.lens r.oks ++ Sized.lens r.errs) (zeros _ ++ Sized.growth E x)
      rw [vadd_append ((LT.len_lens _).trans (length_zeros _).symm), vadd_zeros (Nat.le_of_eq (LT.len_lens _)), he,
        LE.push_lens r.errs r'.errs x j hj]
  push_cinv r r' v i hc hp := by
    cases v with
    | ok x =>
      obtain ⟨j, hj, he⟩ := sized_result_push_ok r r' x i hp
      exact ⟨LT.push_cinv r.oks r'.oks x j hc.1 hj, he ▸ hc.2⟩
    | error x =>
      obtain ⟨j, hj, he⟩ := sized_result_push_error r r' x i hp
      exact ⟨he ▸ hc.1, LE.push_cinv r.errs r'.errs x j hc.2 hj⟩
  push_fit r r' v i hc hp hf := by
    cases v with
    | ok x =>
      obtain ⟨j, hj, he⟩ := sized_result_push_ok r r' x i hp
      have hf' : vle (vadd (Sized.lens r.oks ++ Sized.lens r.errs) (Sized.growth T x ++ zeros _))
          (Sized.caps r.oks ++ Sized.caps r.errs) := hf
      rw [vadd_append ((LT.len_lens _).trans (LT.len_grow x).symm),
        vle_append_iff ((length_vadd_eq (LT.len_lens _) (LT.len_grow x)).trans (LT.len_caps _).symm)] at hf'
      show Sized.caps r'.oks ++ Sized.caps r'.errs = Sized.caps r.oks ++ Sized.caps r.errs
      rw [he, LT.push_fit r.oks r'.oks x j hc.1 hj hf'.1]
    | error x =>
      obtain ⟨j, hj, he⟩ := sized_result_push_error r r' x i hp
      have hf' : vle (vadd (Sized.lens r.oks ++ Sized.lens r.errs) (zeros _ ++ Sized.growth E x))
          (Sized.caps r.oks ++ Sized.caps r.errs) := hf
      rw [vadd_append ((LT.len_lens _).trans (length_zeros _).symm),
        vle_append_iff ((length_vadd_eq (LT.len_lens _) (length_zeros _)).trans (LT.len_caps _).symm)] at hf'
      show Sized.caps r'.oks ++ Sized.caps r'.errs = Sized.caps r.oks ++ Sized.caps r.errs
      rw [he, LE.push_fit r.errs r'.errs x j hc.2 hj hf'.2]
  push_mono r r' v i hc hp := by
    cases v with
    | ok x =>
      obtain ⟨j, hj, he⟩ := sized_result_push_ok r r' x i hp
      exact vle_append (LT.push_mono r.oks r'.oks x j hc.1 hj) (he ▸ vle_refl _)
    | error x =>
      obtain ⟨j, hj, he⟩ := sized_result_push_error r r' x i hp
      exact vle_append (he ▸ vle_refl _) (LE.push_mono r.errs r'.errs x j hc.2 hj)
  reserveItems_lens r vs := by
    show Sized.lens (RegionAux.reserveItems r.oks _) ++ Sized.lens (RegionAux.reserveItems r.errs _) = _
    rw [LT.reserveItems_lens, LE.reserveItems_lens]; rfl
  reserveItems_cinv r vs hc := ⟨LT.reserveItems_cinv r.oks _ hc.1, LE.reserveItems_cinv r.errs _ hc.2⟩
  reserveItems_mono r vs hc := vle_append (LT.reserveItems_mono r.oks _ hc.1) (LE.reserveItems_mono r.errs _ hc.2)
  reserveRegions_lens r rs := by
    show Sized.lens (RegionAux.reserveRegions r.oks _) ++ Sized.lens (RegionAux.reserveRegions r.errs _) = _
    rw [LT.reserveRegions_lens, LE.reserveRegions_lens]; rfl
  reserveRegions_cinv r rs hc := ⟨LT.reserveRegions_cinv r.oks _ hc.1, LE.reserveRegions_cinv r.errs _ hc.2⟩
  reserveRegions_mono r rs hc := vle_append (LT.reserveRegions_mono r.oks _ hc.1) (LE.reserveRegions_mono r.errs _ hc.2)
  merge_lens rs := by
    show Sized.lens (RegionAux.mergeRegions (rs.map (·.oks))) ++ Sized.lens (RegionAux.mergeRegions (rs.map (·.errs))) = _
    rw [LT.merge_lens, LE.merge_lens]; exact (zeros_add _ _).symm
  merge_cinv rs := ⟨LT.merge_cinv _, LE.merge_cinv _⟩
  merge_room rs := by rw [result_lensAll]; exact vle_append (LT.merge_room _) (LE.merge_room _)
  heap_caps r hc := by
    show (RegionAux.heap r.oks ++ RegionAux.heap r.errs).map (·.2) = vmul (Sized.caps r.oks ++ Sized.caps r.errs) (Sized.sizes T ++ Sized.sizes E)
    rw [vmul_append ((LT.len_caps _).trans LT.len_sizes.symm), List.map_append, LT.heap_caps _ hc.1, LE.heap_caps _ hc.2]
  heap_lens r hc := by
    show (RegionAux.heap r.oks ++ RegionAux.heap r.errs).map (·.1) = vmul (Sized.lens r.oks ++ Sized.lens r.errs) (Sized.sizes T ++ Sized.sizes E)
    rw [vmul_append ((LT.len_lens _).trans LT.len_sizes.symm), List.map_append, LT.heap_lens _ hc.1, LE.heap_lens _ hc.2]

instance [LT : LawfulSized T] [LawfulSized E] [RT : LawfulReserve T] [RE : LawfulReserve E] :
    LawfulReserve (ResultRegion T E) where
  reserveItems_room r vs hc := by
    rw [result_growAll]
    show vle (vadd (Sized.lens r.oks ++ Sized.lens r.errs) _) _
    rw [vadd_append ((LT.len_lens _).trans (len_growAll _).symm)]
    exact vle_append (RT.reserveItems_room r.oks _ hc.1) (RE.reserveItems_room r.errs _ hc.2)
  reserveRegions_room r rs hc := by
    rw [result_lensAll]
    show vle (vadd (Sized.lens r.oks ++ Sized.lens r.errs) _) _
    rw [vadd_append ((LT.len_lens _).trans (len_lensAll _).symm)]
    exact vle_append (RT.reserveRegions_room r.oks _ hc.1) (RE.reserveRegions_room r.errs _ hc.2)
end Res

instance : Sized TupleNil where
  n := 0
  lens _ := []
  caps _ := []
  growth _ := []
  sizes := []
  CInv _ := True

instance : LawfulSized TupleNil where
  len_lens _ := rfl
  len_caps _ := rfl
  len_grow _ := rfl
  len_sizes := rfl
  cinv_default := trivial
  lens_default := rfl
  push_lens _ _ _ _ _ := rfl
  push_cinv _ _ _ _ _ _ := trivial
  push_fit _ _ _ _ _ _ _ := rfl
  push_mono _ _ _ _ _ _ := trivial
  reserveItems_lens _ _ := rfl
  reserveItems_cinv _ _ _ := trivial
  reserveItems_mono _ _ _ := trivial
  reserveRegions_lens _ _ := rfl
  reserveRegions_cinv _ _ _ := trivial
  reserveRegions_mono _ _ _ := trivial
  merge_lens _ := rfl
  merge_cinv _ := trivial
  merge_room _ := by simp [Sized.lensAll, Sized.n, Sized.caps]
  heap_caps _ _ := rfl
  heap_lens _ _ := rfl

instance : LawfulReserve TupleNil where
  reserveItems_room _ _ _ := by simp [Sized.growAll, Sized.n, Sized.caps, Sized.lens]
  reserveRegions_room _ _ _ := by simp [Sized.lensAll, Sized.n, Sized.caps, Sized.lens]

section Tup
variable {A VA IA B VB IB : Type} [Region A VA IA] [Region B VB IB] [RegionAux A] [RegionAux B] [Sized A] [Sized B]

instance : Sized (TupleCons A B) where
  n := Sized.n A + Sized.n B
  lens r := Sized.lens r.head ++ Sized.lens r.tail
  caps r := Sized.caps r.head ++ Sized.caps r.tail
  growth v := Sized.growth A v.1 ++ Sized.growth B v.2
  sizes := Sized.sizes A ++ Sized.sizes B
  CInv r := Sized.CInv r.head ∧ Sized.CInv r.tail

theorem sized_tuple_push (r r' : TupleCons A B) (v : VA × VB) (i : IA × IB) (hp : push r v = some (r', i)) :
    push r.head v.1 = some (r'.head, i.1) ∧ push r.tail v.2 = some (r'.tail, i.2) := by
  simp only [Region.push] at hp
  cases h1 : push r.head v.1 with
  | none => simp [h1] at hp
  | some p1 =>
    obtain ⟨a', i1⟩ := p1
    cases h2 : push r.tail v.2 with
    | none => simp [h1, h2] at hp
    | some p2 =>
      obtain ⟨b', i2⟩ := p2
      simp only [h1, h2, Option.some.injEq, Prod.mk.injEq] at hp
      obtain ⟨rfl, rfl⟩ := hp
      exact ⟨rfl, rfl⟩

theorem tuple_lensAll [LA : LawfulSized A] (rs : List (TupleCons A B)) :
    Sized.lensAll rs = Sized.lensAll (rs.map (·.head)) ++ Sized.lensAll (rs.map (·.tail)) := by
  simp only [Sized.lensAll, List.map_map]
  exact vsum_map_append _ _ rs (fun r => Sized.lens r.head) (fun r => Sized.lens r.tail) (fun r => LA.len_lens r.head)

theorem tuple_growAll [LA : LawfulSized A] (vs : List (VA × VB)) :
    Sized.growAll (R := TupleCons A B) vs =
      Sized.growAll (R := A) (vs.map (·.1)) ++ Sized.growAll (R := B) (vs.map (·.2)) := by
  simp only [Sized.growAll, List.map_map]
  exact vsum_map_append _ _ vs (fun v => Sized.growth A v.1) (fun v => Sized.growth B v.2) (fun v => LA.len_grow v.1)

instance [LA : LawfulSized A] [LB : LawfulSized B] : LawfulSized (TupleCons A B) where
  len_lens r := by simp [Sized.lens, Sized.n, LA.len_lens, LB.len_lens]
  len_caps r := by simp [Sized.caps, Sized.n, LA.len_caps, LB.len_caps]
  len_grow v := by simp [Sized.growth, Sized.n, LA.len_grow, LB.len_grow]
  len_sizes := by simp [Sized.sizes, Sized.n, LA.len_sizes, LB.len_sizes]
  cinv_default := ⟨LA.cinv_default, LB.cinv_default⟩
  lens_default := by
    show Sized.lens (default : A) ++ Sized.lens (default : B) = _
    rw [LA.lens_default, LB.lens_default]; exact (zeros_add _ _).symm
  push_lens r r' v i hp := by
    obtain ⟨h1, h2⟩ := sized_tuple_push r r' v i hp
    show Sized.lens r'.head ++ Sized.lens r'.tail =
      vadd (Sized.lens r.head ++ Sized.lens r.tail) (Sized.growth A v.1 ++ Sized.growth B v.2)
    rw [vadd_append ((LA.len_lens _).trans (LA.len_grow _).symm), LA.push_lens _ _ _ _ h1, LB.push_lens _ _ _ _ h2]
  push_cinv r r' v i hc hp := by
    obtain ⟨h1, h2⟩ := sized_tuple_push r r' v i hp
    exact ⟨LA.push_cinv _ _ _ _ hc.1 h1, LB.push_cinv _ _ _ _ hc.2 h2⟩
  push_fit r r' v i hc hp hf := by
    obtain ⟨h1, h2⟩ := sized_tuple_push r r' v i hp
    have hf' : vle (vadd (Sized.lens r.head ++ Sized.lens r.tail) (Sized.growth A v.1 ++ Sized.growth B v.2))
        (Sized.caps r.head ++ Sized.caps r.tail) := hf
    rw [vadd_append ((LA.len_lens _).trans (LA.len_grow _).symm),
      vle_append_iff ((length_vadd_eq (LA.len_lens _) (LA.len_grow _)).trans (LA.len_caps _).symm)] at hf'
    show Sized.caps r'.head ++ Sized.caps r'.tail = Sized.caps r.head ++ Sized.caps r.tail
    rw [LA.push_fit _ _ _ _ hc.1 h1 hf'.1, LB.push_fit _ _ _ _ hc.2 h2 hf'.2]
  push_mono r r' v i hc hp := by
    obtain ⟨h1, h2⟩ := sized_tuple_push r r' v i hp
    exact vle_append (LA.push_mono _ _ _ _ hc.1 h1) (LB.push_mono _ _ _ _ hc.2 h2)
  reserveItems_lens r vs := by
    show Sized.lens (RegionAux.reserveItems r.head _) ++ Sized.lens (RegionAux.reserveItems r.tail _) = _
    rw [LA.reserveItems_lens, LB.reserveItems_lens]; rfl
  reserveItems_cinv r vs hc := ⟨LA.reserveItems_cinv r.head _ hc.1, LB.reserveItems_cinv r.tail _ hc.2⟩
  reserveItems_mono r vs hc := vle_append (LA.reserveItems_mono r.head _ hc.1) (LB.reserveItems_mono r.tail _ hc.2)
  reserveRegions_lens r rs := by
    show Sized.lens (RegionAux.reserveRegions r.head _) ++ Sized.lens (RegionAux.reserveRegions r.tail _) = _
    rw [LA.reserveRegions_lens, LB.reserveRegions_lens]; rfl
  reserveRegions_cinv r rs hc := ⟨LA.reserveRegions_cinv r.head _ hc.1, LB.reserveRegions_cinv r.tail _ hc.2⟩
  reserveRegions_mono r rs hc := vle_append (LA.reserveRegions_mono r.head _ hc.1) (LB.reserveRegions_mono r.tail _ hc.2)
  merge_lens rs := by
    show Sized.lens (RegionAux.mergeRegions (rs.map (·.head))) ++ Sized.lens (RegionAux.mergeRegions (rs.map (·.tail))) = _
    rw [LA.merge_lens, LB.merge_lens]; exact (zeros_add _ _).symm
  merge_cinv rs := ⟨LA.merge_cinv _, LB.merge_cinv _⟩
  merge_room rs := by rw [tuple_lensAll]; exact vle_append (LA.merge_room _) (LB.merge_room _)
  heap_caps r hc := by
    show (RegionAux.heap r.head ++ RegionAux.heap r.tail).map (·.2) = vmul (Sized.caps r.head ++ Sized.caps r.tail) (Sized.sizes A ++ Sized.sizes B)
    rw [vmul_append ((LA.len_caps _).trans LA.len_sizes.symm), List.map_append, LA.heap_caps _ hc.1, LB.heap_caps _ hc.2]
  heap_lens r hc := by
    show (RegionAux.heap r.head ++ RegionAux.heap r.tail).map (·.1) = vmul (Sized.lens r.head ++ Sized.lens r.tail) (Sized.sizes A ++ Sized.sizes B)
    rw [vmul_append ((LA.len_lens _).trans LA.len_sizes.symm), List.map_append, LA.heap_lens _ hc.1, LB.heap_lens _ hc.2]

instance [LA : LawfulSized A] [LawfulSized B] [RA : LawfulReserve A] [RB : LawfulReserve B] :
    LawfulReserve (TupleCons A B) where
  reserveItems_room r vs hc := by
    rw [tuple_growAll]
    show vle (vadd (Sized.lens r.head ++ Sized.lens r.tail) _) _
    rw [vadd_append ((LA.len_lens _).trans (len_growAll _).symm)]
    exact vle_append (RA.reserveItems_room r.head _ hc.1) (RB.reserveItems_room r.tail _ hc.2)
  reserveRegions_room r rs hc := by
    rw [tuple_lensAll]
    show vle (vadd (Sized.lens r.head ++ Sized.lens r.tail) _) _
    rw [vadd_append ((LA.len_lens _).trans (len_lensAll _).symm)]
    exact vle_append (RA.reserveRegions_room r.head _ hc.1) (RB.reserveRegions_room r.tail _ hc.2)
end Tup

/-! ### a `Vec` of indices with its capacity: `Capd (VecIdx I sz)` -/
section CapdVec
variable {I : Type} {sz : Nat}

theorem capd_default : (IdxCont.default : Capd (VecIdx I sz)) = ⟨⟨[]⟩, [0]⟩ := rfl

@[simp] theorem capd_push_len (c : Capd (VecIdx I sz)) (x : I) :
    (IdxCont.push c x).a.v.length = c.a.v.length + 1 := by
  simp [IdxCont.push]

theorem capd_push_caps (c : Capd (VecIdx I sz)) (x : I) (k : Nat) (hk : c.caps = [k]) :
    (IdxCont.push c x).caps = [if c.a.v.length + 1 ≤ k then k else grow k (c.a.v.length + 1)] := by
  simp [IdxCont.push, Capd.fit, hk, HasStores.lens]

@[simp] theorem capd_reserve_a (c : Capd (VecIdx I sz)) (m : Nat) : (IdxAux.reserve c m).a = c.a := rfl

theorem capd_reserve_caps (c : Capd (VecIdx I sz)) (m k : Nat) (hk : c.caps = [k]) :
    (IdxAux.reserve c m).caps = [if c.a.v.length + m ≤ k then k else grow k (c.a.v.length + m)] := by
  simp [IdxAux.reserve, Capd.reserve, hk, HasStores.lens, HasStores.reserveMask]

theorem capd_merge (rs : List (Capd (VecIdx I sz))) :
    IdxAux.mergeRegions rs = (⟨⟨[]⟩, [(rs.map fun c => c.a.v.length).sum]⟩ : Capd (VecIdx I sz)) := rfl

theorem capd_withCapacity (m : Nat) : (IdxAux.withCapacity m : Capd (VecIdx I sz)) = ⟨⟨[]⟩, [m]⟩ := rfl

theorem capd_heap (c : Capd (VecIdx I sz)) (k : Nat) (hk : c.caps = [k]) :
    IdxAux.heap c = [(c.a.v.length * sz, k * sz)] := by
  simp [IdxAux.heap, Capd.heap, hk, HasStores.lens, HasStores.sizes]

variable {R V : Type} [Region R V I]
open C08

/-- `pushAll` pushes the elements into the inner region and one index each into the index vector -/
theorem pushAll_run (inner : R) (c : Capd (VecIdx I sz)) (vs : List V) (inner' : R) (c' : Capd (VecIdx I sz))
    (h : pushAll inner c vs = some (inner', c')) :
    runPushes inner vs = some inner' ∧ c'.a.v.length = c.a.v.length + vs.length := by
  induction vs generalizing inner c with
  | nil =>
    simp only [pushAll, Option.some.injEq, Prod.mk.injEq] at h
    obtain ⟨rfl, rfl⟩ := h
    exact ⟨rfl, rfl⟩
  | cons v vs ih =>
    simp only [pushAll] at h
    cases hp : push inner v with
    | none => simp [hp] at h
    | some p =>
      obtain ⟨in1, i⟩ := p
      simp only [hp] at h
      obtain ⟨h1, h2⟩ := ih in1 (IdxCont.push c i) h
      exact ⟨by simp [runPushes, hp, h1], by rw [h2, capd_push_len, List.length_cons]; omega⟩

theorem pushAll_caps (inner : R) (c : Capd (VecIdx I sz)) (vs : List V) (inner' : R) (c' : Capd (VecIdx I sz))
    (k : Nat) (hk : c.caps = [k]) (h : pushAll inner c vs = some (inner', c')) :
    ∃ k', c'.caps = [k'] ∧ k ≤ k' ∧ (c.a.v.length + vs.length ≤ k → k' = k) := by
  induction vs generalizing inner c k with
  | nil =>
    simp only [pushAll, Option.some.injEq, Prod.mk.injEq] at h
    obtain ⟨rfl, rfl⟩ := h
    exact ⟨k, hk, Nat.le_refl _, fun _ => rfl⟩
  | cons v vs ih =>
    simp only [pushAll] at h
    cases hp : push inner v with
    | none => simp [hp] at h
    | some p =>
      obtain ⟨in1, i⟩ := p
      simp only [hp] at h
      obtain ⟨k', h3, h4, h5⟩ := ih in1 (IdxCont.push c i) _ (capd_push_caps c i k hk) h
      refine ⟨k', h3, ?_, ?_⟩
      · refine Nat.le_trans ?_ h4
        split
        · exact Nat.le_refl _
        · exact grow_ge_cap _ _
      · intro hfit
        rw [capd_push_len] at h5
        rw [List.length_cons] at hfit
        have : c.a.v.length + 1 ≤ k := by omega
        simp only [this, if_true] at h5
        exact h5 (by omega)
end CapdVec

/-! ### `SliceRegion R (Vec<Index>)` -/
section Slice
variable {R V I : Type} {sz : Nat} [Region R V I] [RegionAux R] [Sized R]
open C08

instance : Sized (SliceRegion R (Capd (VecIdx I sz))) where
  n := Sized.n R + 1
  lens r := r.slices.a.v.length :: Sized.lens r.inner
  caps r := r.slices.caps.headD 0 :: Sized.caps r.inner
  growth v := v.length :: Sized.growAll (R := R) v
  sizes := sz :: Sized.sizes R
  CInv r := (∃ k, r.slices.caps = [k]) ∧ Sized.CInv r.inner

theorem slice_lensAll (rs : List (SliceRegion R (Capd (VecIdx I sz)))) :
    Sized.lensAll rs = (rs.map fun r => r.slices.a.v.length).sum :: Sized.lensAll (rs.map fun x => x.inner) := by
  simp only [Sized.lensAll, List.map_map]
  exact vsum_map_cons _ rs (fun r => r.slices.a.v.length) (fun r => Sized.lens r.inner)

theorem growAll_flatten (vs : List (List V)) :
    vsum (Sized.n R) (vs.map fun v => Sized.growAll (R := R) v) = Sized.growAll (R := R) vs.flatten := by
  induction vs with
  | nil => rfl
  | cons v vs ih => simp only [List.map_cons, vsum_cons, ih, List.flatten_cons, growAll_append]

theorem slice_growAll (vs : List (List V)) :
    Sized.growAll (R := SliceRegion R (Capd (VecIdx I sz))) vs =
      (vs.map List.length).sum :: Sized.growAll (R := R) vs.flatten := by
  rw [← growAll_flatten]
  exact vsum_map_cons _ vs List.length (fun v => Sized.growAll (R := R) v)

/-- what one push into a slice region does to the two layers -/
theorem slice_push_sized [L : LawfulSized R] (r r' : SliceRegion R (Capd (VecIdx I sz))) (v : List V) (i : Nat × Nat)
    (hc : Sized.CInv r) (hp : push r v = some (r', i)) :
    Sized.CInv r' ∧ Sized.lens r' = vadd (Sized.lens r) (Sized.growth (SliceRegion R (Capd (VecIdx I sz))) v) ∧
      vle (Sized.caps r) (Sized.caps r') ∧ (Sized.Fits r v → Sized.caps r' = Sized.caps r) := by
  obtain ⟨⟨k, hk⟩, hci⟩ := hc
  obtain ⟨hpa, _⟩ := slice_push_some r r' v i hp
  obtain ⟨hrun, hlen⟩ := pushAll_run r.inner r.slices v r'.inner r'.slices hpa
  obtain ⟨k', hk', hkk, hfit⟩ := pushAll_caps r.inner r.slices v r'.inner r'.slices k hk hpa
  obtain ⟨g1, g2, g3, g4⟩ := runPushes_spec r.inner r'.inner v hci hrun
  refine ⟨⟨⟨k', hk'⟩, g1⟩, ?_, ?_, ?_⟩
  · show r'.slices.a.v.length :: Sized.lens r'.inner = vadd (r.slices.a.v.length :: Sized.lens r.inner) (v.length :: Sized.growAll (R := R) v)
    rw [vadd_cons, hlen, g2]
  · show vle (r.slices.caps.headD 0 :: Sized.caps r.inner) (r'.slices.caps.headD 0 :: Sized.caps r'.inner)
    rw [hk, hk']
    exact ⟨hkk, g3⟩
  · intro hf
    have hf' : vle (vadd (r.slices.a.v.length :: Sized.lens r.inner) (v.length :: Sized.growAll (R := R) v))
        (r.slices.caps.headD 0 :: Sized.caps r.inner) := hf
    rw [hk] at hf'
    simp only [vadd_cons, vle_cons, List.headD_cons] at hf'
    show r'.slices.caps.headD 0 :: Sized.caps r'.inner = r.slices.caps.headD 0 :: Sized.caps r.inner
    rw [hk, hk', g4 hf'.2, hfit hf'.1]

instance [L : LawfulSized R] : LawfulSized (SliceRegion R (Capd (VecIdx I sz))) where
  len_lens r := by simp [Sized.lens, Sized.n, L.len_lens]
  len_caps r := by simp [Sized.caps, Sized.n, L.len_caps]
  len_grow v := by simp [Sized.growth, Sized.n, len_growAll]
  len_sizes := by simp [Sized.sizes, Sized.n, L.len_sizes]
  cinv_default := ⟨⟨0, rfl⟩, L.cinv_default⟩
  lens_default := by
    show 0 :: Sized.lens (default : R) = _
    rw [L.lens_default]; rfl
  push_lens r r' v i hp := by
    obtain ⟨hpa, _⟩ := slice_push_some r r' v i hp
    obtain ⟨hrun, hlen⟩ := pushAll_run r.inner r.slices v r'.inner r'.slices hpa
    show r'.slices.a.v.length :: Sized.lens r'.inner = vadd (r.slices.a.v.length :: Sized.lens r.inner) (v.length :: Sized.growAll (R := R) v)
    rw [vadd_cons, hlen, runPushes_lens r.inner r'.inner v hrun]
  push_cinv r r' v i hc hp := (slice_push_sized r r' v i hc hp).1
  push_fit r r' v i hc hp hf := (slice_push_sized r r' v i hc hp).2.2.2 hf
  push_mono r r' v i hc hp := (slice_push_sized r r' v i hc hp).2.2.1
  reserveItems_lens r vs := by
    show (IdxAux.reserve r.slices _).a.v.length :: Sized.lens (RegionAux.reserveItems r.inner _) = _
    rw [L.reserveItems_lens]; rfl
  reserveItems_cinv r vs hc := by
    obtain ⟨⟨k, hk⟩, hci⟩ := hc
    exact ⟨⟨_, capd_reserve_caps r.slices _ k hk⟩, L.reserveItems_cinv r.inner _ hci⟩
  reserveItems_mono r vs hc := by
    obtain ⟨⟨k, hk⟩, hci⟩ := hc
    show vle (r.slices.caps.headD 0 :: Sized.caps r.inner)
      ((IdxAux.reserve r.slices _).caps.headD 0 :: Sized.caps (RegionAux.reserveItems r.inner _))
    rw [capd_reserve_caps r.slices _ k hk, hk]
    refine ⟨?_, L.reserveItems_mono r.inner _ hci⟩
    simp only [List.headD_cons]
    split
    · exact Nat.le_refl _
    · exact grow_ge_cap _ _
  reserveRegions_lens r rs := by
    show (IdxAux.reserve r.slices _).a.v.length :: Sized.lens (RegionAux.reserveRegions r.inner _) = _
    rw [L.reserveRegions_lens]; rfl
  reserveRegions_cinv r rs hc := by
    obtain ⟨⟨k, hk⟩, hci⟩ := hc
    exact ⟨⟨_, capd_reserve_caps r.slices _ k hk⟩, L.reserveRegions_cinv r.inner _ hci⟩
  reserveRegions_mono r rs hc := by
    obtain ⟨⟨k, hk⟩, hci⟩ := hc
    show vle (r.slices.caps.headD 0 :: Sized.caps r.inner)
      ((IdxAux.reserve r.slices _).caps.headD 0 :: Sized.caps (RegionAux.reserveRegions r.inner _))
    rw [capd_reserve_caps r.slices _ k hk, hk]
    refine ⟨?_, L.reserveRegions_mono r.inner _ hci⟩
    simp only [List.headD_cons]
    split
    · exact Nat.le_refl _
    · exact grow_ge_cap _ _
  merge_lens rs := by
    show (IdxAux.mergeRegions (rs.map SliceRegion.slices)).a.v.length :: Sized.lens (RegionAux.mergeRegions (rs.map SliceRegion.inner)) = _
    rw [L.merge_lens]; rfl
  merge_cinv rs := ⟨⟨_, rfl⟩, L.merge_cinv _⟩
  merge_room rs := by
    rw [slice_lensAll]
    show vle _ ((IdxAux.mergeRegions (rs.map SliceRegion.slices)).caps.headD 0 :: Sized.caps (RegionAux.mergeRegions (rs.map SliceRegion.inner)))
    rw [capd_merge]
    simp only [List.headD_cons, vle_cons, List.map_map]
    exact ⟨Nat.le_refl _, L.merge_room _⟩
  heap_caps r hc := by
    obtain ⟨⟨k, hk⟩, hci⟩ := hc
    show (IdxAux.heap r.slices ++ RegionAux.heap r.inner).map (·.2) = vmul (r.slices.caps.headD 0 :: Sized.caps r.inner) (sz :: Sized.sizes R)
    rw [capd_heap _ k hk, hk]
    simp [L.heap_caps _ hci]
  heap_lens r hc := by
    obtain ⟨⟨k, hk⟩, hci⟩ := hc
    show (IdxAux.heap r.slices ++ RegionAux.heap r.inner).map (·.1) = vmul (r.slices.a.v.length :: Sized.lens r.inner) (sz :: Sized.sizes R)
    rw [capd_heap _ k hk]
    simp [L.heap_lens _ hci]

theorem reserve_room_if (l m k : Nat) : l + m ≤ (if l + m ≤ k then k else grow k (l + m)) := by
  split
  · assumption
  · exact grow_ge_need _ _

instance [LawfulSized R] [LR : LawfulReserve R] : LawfulReserve (SliceRegion R (Capd (VecIdx I sz))) where
  reserveItems_room r vs hc := by
    obtain ⟨⟨k, hk⟩, hci⟩ := hc
    rw [slice_growAll]
    show vle (vadd (r.slices.a.v.length :: Sized.lens r.inner) _)
      ((IdxAux.reserve r.slices _).caps.headD 0 :: Sized.caps (RegionAux.reserveItems r.inner _))
    rw [capd_reserve_caps r.slices _ k hk]
    simp only [vadd_cons, vle_cons, List.headD_cons]
    exact ⟨reserve_room_if _ _ _, LR.reserveItems_room r.inner _ hci⟩
  reserveRegions_room r rs hc := by
    obtain ⟨⟨k, hk⟩, hci⟩ := hc
    rw [slice_lensAll]
    show vle (vadd (r.slices.a.v.length :: Sized.lens r.inner) _)
      ((IdxAux.reserve r.slices _).caps.headD 0 :: Sized.caps (RegionAux.reserveRegions r.inner _))
    rw [capd_reserve_caps r.slices _ k hk]
    simp only [vadd_cons, vle_cons, List.headD_cons]
    exact ⟨reserve_room_if _ _ _, LR.reserveRegions_room r.inner _ hci⟩
end Slice

/-! ### `FlatStack R (Vec<Index>)`: the region's vectors, then the index vector -/
section Stack
variable {R V I : Type} {sz : Nat} [Region R V I] [RegionAux R] [Sized R]

instance : Sized (FlatStack R (Capd (VecIdx I sz))) where
  n := Sized.n R + 1
  lens fs := Sized.lens fs.region ++ [fs.indices.a.v.length]
  caps fs := Sized.caps fs.region ++ [fs.indices.caps.headD 0]
  growth v := Sized.growth R v ++ [1]
  sizes := Sized.sizes R ++ [sz]
  CInv fs := Sized.CInv fs.region ∧ ∃ k, fs.indices.caps = [k]

theorem stack_lensAll [L : LawfulSized R] (rs : List (FlatStack R (Capd (VecIdx I sz)))) :
    Sized.lensAll rs = Sized.lensAll (rs.map (·.region)) ++ [(rs.map fun fs => fs.indices.a.v.length).sum] := by
  simp only [Sized.lensAll, List.map_map]
  rw [← vsum_one]
  exact vsum_map_append _ 1 rs (fun fs => Sized.lens fs.region) (fun fs => [fs.indices.a.v.length])
    (fun fs => L.len_lens fs.region)

theorem stack_growAll [L : LawfulSized R] (vs : List V) :
    Sized.growAll (R := FlatStack R (Capd (VecIdx I sz))) vs = Sized.growAll (R := R) vs ++ [vs.length] := by
  simp only [Sized.growAll]
  rw [← sum_map_one vs, ← vsum_one]
  exact vsum_map_append _ 1 vs (fun v => Sized.growth R v) (fun _ => [1]) (fun v => L.len_grow v)

theorem sized_stack_push (fs fs' : FlatStack R (Capd (VecIdx I sz))) (v : V) (j : Nat) (hp : push fs v = some (fs', j)) :
    ∃ i, push fs.region v = some (fs'.region, i) ∧ fs'.indices = IdxCont.push fs.indices i := by
  simp only [Region.push, FlatStack.copy] at hp
  cases h : push fs.region v with
  | none => simp [h] at hp
  | some p =>
    obtain ⟨r', i⟩ := p
    simp only [h, Option.map_some, Option.some.injEq, Prod.mk.injEq] at hp
    obtain ⟨rfl, _⟩ := hp
    exact ⟨i, rfl, rfl⟩

instance [L : LawfulSized R] : LawfulSized (FlatStack R (Capd (VecIdx I sz))) where
  len_lens r := by simp [Sized.lens, Sized.n, L.len_lens]
  len_caps r := by simp [Sized.caps, Sized.n, L.len_caps]
  len_grow v := by simp [Sized.growth, Sized.n, L.len_grow]
  len_sizes := by simp [Sized.sizes, Sized.n, L.len_sizes]
  cinv_default := ⟨L.cinv_default, ⟨0, rfl⟩⟩
  lens_default := by
    show Sized.lens (default : R) ++ [0] = _
    rw [L.lens_default]; exact (zeros_add _ 1).symm
  push_lens fs fs' v j hp := by
    obtain ⟨i, h1, h2⟩ := sized_stack_push fs fs' v j hp
    show Sized.lens fs'.region ++ [fs'.indices.a.v.length] = vadd (Sized.lens fs.region ++ [fs.indices.a.v.length]) (Sized.growth R v ++ [1])
    rw [vadd_append ((L.len_lens _).trans (L.len_grow _).symm), L.push_lens _ _ _ _ h1, h2, capd_push_len]
    rfl
  push_cinv fs fs' v j hc hp := by
    obtain ⟨i, h1, h2⟩ := sized_stack_push fs fs' v j hp
    obtain ⟨hcr, k, hk⟩ := hc
    exact ⟨L.push_cinv _ _ _ _ hcr h1, ⟨_, h2 ▸ capd_push_caps fs.indices i k hk⟩⟩
  push_fit fs fs' v j hc hp hf := by
    obtain ⟨i, h1, h2⟩ := sized_stack_push fs fs' v j hp
    obtain ⟨hcr, k, hk⟩ := hc
    have hf' : vle (vadd (Sized.lens fs.region ++ [fs.indices.a.v.length]) (Sized.growth R v ++ [1]))
        (Sized.caps fs.region ++ [fs.indices.caps.headD 0]) := hf
    rw [vadd_append ((L.len_lens _).trans (L.len_grow _).symm),
      vle_append_iff ((length_vadd_eq (L.len_lens _) (L.len_grow _)).trans (L.len_caps _).symm), hk] at hf'
    simp only [vadd_cons, vadd_nil_left, vle_cons, vle_nil, and_true, List.headD_cons] at hf'
    show Sized.caps fs'.region ++ [fs'.indices.caps.headD 0] = Sized.caps fs.region ++ [fs.indices.caps.headD 0]
    rw [L.push_fit _ _ _ _ hcr h1 hf'.1, h2, capd_push_caps fs.indices i k hk, hk]
    simp [hf'.2]
  push_mono fs fs' v j hc hp := by
    obtain ⟨i, h1, h2⟩ := sized_stack_push fs fs' v j hp
    obtain ⟨hcr, k, hk⟩ := hc
    refine vle_append (L.push_mono _ _ _ _ hcr h1) ?_
    rw [h2, capd_push_caps fs.indices i k hk, hk]
    simp only [List.headD_cons, vle_cons, vle_nil, and_true]
    split
    · exact Nat.le_refl _
    · exact grow_ge_cap _ _
  reserveItems_lens fs vs := by
    show Sized.lens (RegionAux.reserveItems fs.region vs) ++ _ = _
    rw [L.reserveItems_lens]; rfl
  reserveItems_cinv fs vs hc := ⟨L.reserveItems_cinv fs.region vs hc.1, hc.2⟩
  reserveItems_mono fs vs hc := vle_append (L.reserveItems_mono fs.region vs hc.1) (vle_refl _)
  reserveRegions_lens fs rs := by
    show Sized.lens (RegionAux.reserveRegions fs.region _) ++ _ = _
    rw [L.reserveRegions_lens]; rfl
  reserveRegions_cinv fs rs hc := ⟨L.reserveRegions_cinv fs.region _ hc.1, hc.2⟩
  reserveRegions_mono fs rs hc := vle_append (L.reserveRegions_mono fs.region _ hc.1) (vle_refl _)
  merge_lens rs := by
    show Sized.lens (RegionAux.mergeRegions (rs.map FlatStack.region)) ++ [0] = _
    rw [L.merge_lens]; exact (zeros_add _ 1).symm
  merge_cinv rs := ⟨L.merge_cinv _, ⟨_, rfl⟩⟩
  merge_room rs := by
    rw [stack_lensAll]
    refine vle_append (L.merge_room _) ?_
    show vle _ [(IdxAux.mergeRegions (rs.map FlatStack.indices)).caps.headD 0]
    rw [capd_merge]
    simp only [List.headD_cons, vle_cons, vle_nil, and_true, List.map_map]
    exact Nat.le_refl _
  heap_caps fs hc := by
    obtain ⟨hcr, k, hk⟩ := hc
    show (RegionAux.heap fs.region ++ IdxAux.heap fs.indices).map (·.2) = vmul (Sized.caps fs.region ++ [fs.indices.caps.headD 0]) (Sized.sizes R ++ [sz])
    rw [vmul_append ((L.len_caps _).trans L.len_sizes.symm), List.map_append, L.heap_caps _ hcr, capd_heap _ k hk, hk]
    rfl
  heap_lens fs hc := by
    obtain ⟨hcr, k, hk⟩ := hc
    show (RegionAux.heap fs.region ++ IdxAux.heap fs.indices).map (·.1) = vmul (Sized.lens fs.region ++ [fs.indices.a.v.length]) (Sized.sizes R ++ [sz])
    rw [vmul_append ((L.len_lens _).trans L.len_sizes.symm), List.map_append, L.heap_lens _ hcr, capd_heap _ k hk]
    rfl
end Stack

end FC
